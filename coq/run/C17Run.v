(* Correspondence and monitor for C17, evaluated on cases written by harness/props/c17.py.
   Depends on the model and the regenerated constants only (NOT on the equality proofs), so it still runs
   when a published file and the models have drifted apart. *)
From Coq Require Import List Bool String ZArith Arith.
Import ListNotations.
From HV Require Export lib.Harness model.Schema spec.SchemaS gen.Schemas.
Open Scope string_scope.

Inductive family := FHugr | FTesting.
Definition published (f : family) (strict : bool) : json :=
  match f, strict with
  | FHugr, false => published_hugr | FHugr, true => published_hugr_strict
  | FTesting, false => published_testing | FTesting, true => published_testing_strict
  end.
Definition generated (f : family) (strict : bool) : json :=
  match f, strict with
  | FHugr, false => generated_hugr | FHugr, true => generated_hugr_strict
  | FTesting, false => generated_testing | FTesting, true => generated_testing_strict
  end.

Inductive case :=
(* one document read as definition `entry` of the `fam` files.
   js_*  : verdict of the reference validator (python jsonschema, draft 2020-12) on the PUBLISHED files
   pyd_* : verdict of the pydantic models configured strict / lax (generate_schema.py's configs) / as imported
   one_way : the mutation belongs to a named class on which pydantic is more lenient than its own schema
   with_generated : also evaluate the freshly generated constants (theorems C17_*_same_documents say the verdicts
   are equal for every document; evaluating it on the unmutated documents keeps a concrete check alive when a
   published file and the models drift apart and those theorems no longer build) *)
| CDoc (fam : family) (entry : string) (doc : json) (one_way with_generated : bool)
       (js_strict js_lax pyd_strict pyd_lax pyd_default : bool).

Definition kv (k : string) (v : json) : string * json := (k, v).
Definition fuel := default_fuel.

(* model validator on the published constants == reference validator on the published files *)
Definition corr (c : case) : bool :=
  match c with
  | CDoc f e d _ headroom js_s js_l _ _ _ =>
      Bool.eqb (accepts fuel (published f true) e d) js_s &&
      Bool.eqb (accepts fuel (published f false) e d) js_l &&
      (* fuel headroom (unmutated documents): a third of the budget already gives the same verdict, so the
         budget was not what decided it *)
      (if headroom then Bool.eqb (accepts (Nat.div fuel 3) (published f true) e d) js_s &&
                        Bool.eqb (accepts (Nat.div fuel 3) (published f false) e d) js_l
       else true)
  end.

(* the property on the implementation's behaviour: published schema accepts <-> the Python models accept,
   and the schema the models define now gives the same verdict as the published one *)
Definition mon (c : case) : bool :=
  match c with
  | CDoc f e d one_way with_gen _ _ p_s p_l p_d =>
      let s_s := accepts fuel (published f true) e d in
      let s_l := accepts fuel (published f false) e d in
      verdicts_agree one_way s_s p_s && verdicts_agree one_way s_l p_l && verdicts_agree one_way s_l p_d &&
      (if with_gen then Bool.eqb s_s (accepts fuel (generated f true) e d) &&
                        Bool.eqb s_l (accepts fuel (generated f false) e d)
       else true)
  end.
