(* Correspondence and monitor for C17, evaluated on cases written by harness/props/c17.py.
   Depends on the model and the regenerated constants only (NOT on the equality proofs), so it still runs
   when a published file and the models have drifted apart. *)
From Coq Require Import List Bool String ZArith Arith.
Import ListNotations.
From HV Require Export lib.Harness model.Schema model.SchemaSeq spec.SchemaS gen.Schemas model.SchemaFiles.
Open Scope string_scope.

Inductive case :=
(* one document read as definition `entry` of the `fam` files.
   js_*  : verdict of the reference validator (python jsonschema, draft 2020-12) on the PUBLISHED files
   pyd_* : verdict of the pydantic models configured strict / lax (generate_schema.py's configs) / as imported
   one_way : the mutation belongs to a named class on which pydantic is more lenient than its own schema
   with_generated : also evaluate the freshly generated constants (theorems C17_*_same_documents say the verdicts
   are equal for every document; evaluating it on the unmutated documents keeps a concrete check alive when a
   published file and the models drift apart and those theorems no longer build)
   seqs : verdicts of the models after a HISTORY of schema-defining rebuilds in one process (oldest first, performed
   through Root._pydantic_rebuild only; the last step is a rebuild of `fam`'s root and names the configuration):
   (history, ok, api) with ok = the decoder the class configurations left by the history denote,
   api = Some v for the validator object the last rebuild left on the root, observed only on documents whose
   single mutation is an extra member of the root object itself under the strict configuration *)
| CDoc (fam : family) (entry : string) (doc : json) (one_way with_generated : bool)
       (js_strict js_lax pyd_strict pyd_lax pyd_default : bool)
       (seqs : list (list step * bool * option bool)).

Definition kv (k : string) (v : json) : string * json := (k, v).
Definition fuel := default_fuel.

(* model validator on the published constants == reference validator on the published files *)
Definition corr (c : case) : bool :=
  match c with
  | CDoc f e d _ headroom js_s js_l _ _ _ _ =>
      Bool.eqb (accepts fuel (published f true) e d) js_s &&
      Bool.eqb (accepts fuel (published f false) e d) js_l &&
      (* fuel headroom (unmutated documents): a third of the budget already gives the same verdict, so the
         budget was not what decided it *)
      (if headroom then Bool.eqb (accepts (Nat.div fuel 3) (published f true) e d) js_s &&
                        Bool.eqb (accepts (Nat.div fuel 3) (published f false) e d) js_l
       else true)
  end.

(* after a history ending in (f, c) the decoder accepts what the file EXPECTED in the state reached accepts
   (SchemaSeq.expected: the published file of (f, c); in a testing file the SerialHugr definition is the one of the
   HUGR file of the configuration SerialHugr last received) - whatever was rebuilt before *)
Definition seq_ok (f : family) (e : string) (d : json) (one_way s_s s_l : bool)
                  (so : list step * bool * option bool) : bool :=
  let '(h, ok, api) := so in
  match rev h with
  | [] => false
  | (f', c) :: _ =>
      family_eqb f f' &&
      let st := run_steps init h in
      let s := match subst_of published st f c with
               | [] => if c then s_s else s_l           (* expected published st f c = published f c *)
               | _ :: _ => accepts fuel (expected published st f c) e d
               end in
      verdicts_agree one_way s ok &&
      match api with None => true | Some a => implb a s end
  end.

(* the property on the implementation's behaviour: published schema accepts <-> the Python models accept,
   and the schema the models define now gives the same verdict as the published one,
   also after every observed history of rebuilds *)
Definition mon (c : case) : bool :=
  match c with
  | CDoc f e d one_way with_gen _ _ p_s p_l p_d seqs =>
      let s_s := accepts fuel (published f true) e d in
      let s_l := accepts fuel (published f false) e d in
      verdicts_agree one_way s_s p_s && verdicts_agree one_way s_l p_l && verdicts_agree one_way s_l p_d &&
      (if with_gen then Bool.eqb s_s (accepts fuel (generated f true) e d) &&
                        Bool.eqb s_l (accepts fuel (generated f false) e d)
       else true) &&
      forallb (seq_ok f e d one_way s_s s_l) seqs
  end.
