(* Correspondence and monitor for C15, evaluated on cases written by harness/props/c15.py.
   A case holds a tracked program, the observation of running it on the real TrackedDfg, the explicit
   program the harness derived and ran on a real plain Dfg, and the observation of that run. *)
From Coq Require Import ZArith NArith List Bool Arith.
Import ListNotations.
From HV Require Export lib.Harness model.Tracked spec.TrackedS model.TrackedRet spec.TrackedRetS.

Inductive ores := ROk | RErr (e : err) | ROther.

Record obs := mkObs {
  o_io : list N;                        (* root / Input / Output: interned serial form + port counts *)
  o_nodes : list (N * N * meta);        (* per added node: program-level op id, interned serial form + port counts, metadata *)
  o_links : list link;
  o_tracked : list (option wire);
  o_res : ores;
  o_extra : N;                          (* links the model has no name for (order edges, root) + layout surprises *)
  o_rets : list (option retv) }.        (* tracked run: what every call handed back, in program order (None: a value
                                           of another shape than index / index list / wire / node(s) / None) *)

(* Case2: the tracked program was run on two TrackedDfg builders, the second one receiving the very same
   Python objects (commands, metadata) as the first; the property is about commands as values, so both
   observations must satisfy everything a single one must. *)
Inductive case :=
  | Case (nin : N) (track : bool) (p : list cmd) (ot : obs) (q : list pcmd) (op : obs)
  | Case2 (nin : N) (track : bool) (p : list cmd) (ot ot2 : obs) (q : list pcmd) (op : obs).

Definition wire_eqb : wire -> wire -> bool := pair_eqb N.eqb N.eqb.
Definition link_eqb : link -> link -> bool := pair_eqb wire_eqb (pair_eqb N.eqb N.eqb).
Definition meta_eqb : meta -> meta -> bool := perm_eqb (pair_eqb N.eqb N.eqb).
Definition err_eqb (a b : err) : bool :=
  match a, b with EIndex, EIndex | EKey, EKey | EIncomplete, EIncomplete | EValue, EValue => true | _, _ => false end.
Definition ores_eqb (a b : ores) : bool :=
  match a, b with ROk, ROk => true | RErr x, RErr y => err_eqb x y | ROther, ROther => true | _, _ => false end.
Definition of_model (r : option err) : ores := match r with None => ROk | Some e => RErr e end.
Definition opd_eqb (a b : opd) : bool := N.eqb (op_id a) (op_id b) && N.eqb (op_out a) (op_out b).
Definition pcmd_eqb (a b : pcmd) : bool :=
  match a, b with
  | PAdd o m ws, PAdd o' m' ws' => opd_eqb o o' && meta_eqb m m' && list_eqb wire_eqb ws ws'
  | PSetOutputs ws, PSetOutputs ws' => list_eqb wire_eqb ws ws'
  | _, _ => false
  end.

(* the model's HUGR against an observed one: nodes in order (operation identity, metadata as a map),
   links as a multiset *)
Definition graph_corr (h : hugr) (o : obs) : bool :=
  list_eqb (pair_eqb N.eqb meta_eqb)
           (map (fun a : opd * meta => (op_id (fst a), snd a)) (h_nodes h))
           (map (fun b : N * N * meta => (fst (fst b), snd b)) (o_nodes o)) &&
  perm_eqb link_eqb (h_links h) (o_links o) && N.eqb (o_extra o) 0.

Definition rets_eqb : list (option retv) -> list (option retv) -> bool := list_eqb (option_eqb retv_eqb).
(* a is the beginning of b *)
Fixpoint rets_prefixb (a b : list (option retv)) : bool :=
  match a, b with
  | [], _ => true
  | x :: a', y :: b' => option_eqb retv_eqb x y && rets_prefixb a' b'
  | _ :: _, [] => false
  end.

Definition corr1 (nin : N) (track : bool) (p : list cmd) (ot : obs) (q : list pcmd) (op : obs) : bool :=
      let '(h, tr, r) := run_tracked nin track p in
      let '(h2, r2) := run_plain nin q in
      graph_corr h ot && list_eqb (option_eqb wire_eqb) tr (o_tracked ot) && ores_eqb (of_model r) (o_res ot) &&
      graph_corr h2 op && ores_eqb (of_model r2) (o_res op) &&
      (* the values handed back by the calls, up to the call that raised *)
      rets_eqb (map Some (run_tracked_rets nin track p)) (o_rets ot).

Definition corr (c : case) : bool :=
  match c with
  | Case nin track p ot q op => corr1 nin track p ot q op
  | Case2 nin track p ot ot2 q op => corr1 nin track p ot q op && corr1 nin track p ot2 q op
  end.

(* ---- monitor: the specification on the two observed runs ---- *)
(* node for node (operation, serial form incl. types and port counts, metadata), link for link *)
Definition graph_same (a b : obs) : bool :=
  list_eqb N.eqb (o_io a) (o_io b) &&
  list_eqb (fun x y : N * N * meta =>
              N.eqb (fst (fst x)) (fst (fst y)) && N.eqb (snd (fst x)) (snd (fst y)) && meta_eqb (snd x) (snd y))
           (o_nodes a) (o_nodes b) &&
  perm_eqb link_eqb (o_links a) (o_links b) && N.eqb (o_extra a) 0 && N.eqb (o_extra b) 0.

Definition mon1 (nin : N) (track : bool) (p : list cmd) (ot : obs) (q : list pcmd) (op : obs) : bool :=
      let '(q', ok, fin) := explicit nin track p in
      (* the program that was run on the plain builder is the explicit program of the specification *)
      list_eqb pcmd_eqb q' q &&
      graph_same ot op &&
      match o_res op with
      | ROk => if ok then ores_eqb (o_res ot) ROk && list_eqb (option_eqb wire_eqb) (o_tracked ot) (table fin)
               else ores_eqb (o_res ot) (RErr EIndex) && list_eqb (option_eqb wire_eqb) (o_tracked ot) (table fin)
      | r => ores_eqb (o_res ot) r
      end &&
      (* returned values: the indices handed back by track_wire(s) / track_inputs are the fresh indices of the
         history in the order the wires were given, untrack_wire hands back the wire the index denoted, add /
         extend the new nodes - every value of a run that ended without an exception (or with the IndexError of
         an integer that denotes nothing: the history stops there too), a prefix of them when a call raised
         inside the plain builder *)
      let want := map Some (expected nin track p) in
      match o_res op, o_res ot with
      | ROk, _ => rets_eqb (o_rets ot) want
      | _, _ => rets_prefixb (o_rets ot) want
      end.

Definition mon (c : case) : bool :=
  match c with
  | Case nin track p ot q op => mon1 nin track p ot q op
  | Case2 nin track p ot ot2 q op => mon1 nin track p ot q op && mon1 nin track p ot2 q op
  end.
