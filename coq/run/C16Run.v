(* Correspondence and monitor for C16, evaluated on cases written by harness/props/c16.py. *)
From Coq Require Import ZArith List Bool.
Import ListNotations.
From HV Require Export lib.Harness model.NodeIndex spec.NodeIndexS.
Open Scope Z_scope.

Inductive query :=
| QInt (i : Z) | QSlice (start stop step : option Z) | QTuple (xs : list Z) | QIter | QWire.
(* ports are observed as (node index, offset) *)
Inductive case :=
| CIndex (idx : Z) (n : option Z) (q : query) (obs : res (list (Z * Z)))
(* a handle returned by a builder for the operation described by s (the harness builds the real operation
   from the same description); its count is NOT read from the implementation *)
| CBuilder (idx : Z) (s : opshape) (q : query) (obs : res (list (Z * Z)))
(* ONE operation object o (in the state it was constructed in) handed to add_op / add / extend once per entry of
   `uses` (the wire types of that use); obs is the query on the handle returned by use j *)
| CReuse (idx : Z) (o : opobj) (uses : list (list wty)) (j : nat) (q : query) (obs : res (list (Z * Z)))
| CPortEq (a b : port) (eq_obs hash_eq_obs : bool).

Definition err_eqb (a b : err) : bool :=
  match a, b with IndexError, IndexError | ValueError, ValueError | OtherError, OtherError => true | _, _ => false end.
Definition res_eqb {A} (eqb : A -> A -> bool) (a b : res A) : bool :=
  match a, b with Ok x, Ok y => eqb x y | Err e, Err f => err_eqb e f | _, _ => false end.
Definition obs_eqb := res_eqb (list_eqb (pair_eqb Z.eqb Z.eqb)).
Definition tag (idx : Z) (r : res (list Z)) : res (list (Z * Z)) :=
  match r with Ok l => Ok (map (fun o => (idx, o)) l) | Err e => Err e end.
Definition one (r : res Z) : res (list Z) := match r with Ok x => Ok [x] | Err e => Err e end.

Definition model_query (n : option Z) (q : query) : res (list Z) :=
  match q with
  | QInt i => one (index_int n i)
  | QSlice a b s => index_slice n a b s
  | QTuple xs => index_tuple n xs
  | QIter => iter_node n
  | QWire => Ok [0]
  end.
(* the property's own reading; None = the property does not speak about this query *)
Definition spec_query (n : option Z) (q : query) : option (res (list Z)) :=
  match n, q with
  | _, QWire => Some (Ok [0])
  | Some n, QInt i => Some (one (py_index n i))
  | Some n, QSlice a b s =>
      match s with
      | Some s' => if 0 <? s' then Some (slice_spec n a b s) else None
      | None => Some (slice_spec n a b s)
      end
  | Some n, QTuple xs => Some (mapM (py_index n) xs)
  | Some n, QIter => Some (Ok (map Z.of_nat (seq 0 (Z.to_nat n))))
  | None, QInt i => if i <? 0 then None else Some (Ok [i])
  | None, QIter => Some (Err ValueError)
  | None, _ => None
  end.
(* model == implementation, compared only where the property speaks (spec_query = Some _): outside its domain
   (slice step <= 0, slicing / negative indexing of a handle without a known count) the code may do anything,
   e.g. raise ValueError for a zero step, without that being a broken tie (harmless change C16-n2) *)
Definition speaks (n : option Z) (q : query) : bool :=
  match spec_query n q with Some _ => true | None => false end.
Definition corr (c : case) : bool :=
  match c with
  | CIndex idx n q obs => negb (speaks n q) || obs_eqb obs (tag idx (model_query n q))
  | CBuilder idx s q obs =>
      negb (speaks (builder_count s) q) || obs_eqb obs (tag idx (model_query (builder_count s) q))
  | CReuse idx o uses j q obs =>
      match reuse_count o uses j with
      | Some n => negb (speaks (Some n) q) || obs_eqb obs (tag idx (model_query (Some n) q))
      | None => false
      end
  | CPortEq a b e h => Bool.eqb e (port_eqb a b)
  end.
Definition mon (c : case) : bool :=
  match c with
  | CIndex idx n q obs =>
      match spec_query n q with Some r => obs_eqb obs (tag idx r) | None => true end
  | CBuilder idx s q obs =>
      (* the handle must behave as one with exactly the operation's number of value outputs *)
      shape_wf s &&
      match value_outputs s with
      | Some n => match spec_query (Some n) q with Some r => obs_eqb obs (tag idx r) | None => true end
      | None => false
      end
  | CReuse idx o uses j q obs =>
      (* the handle of use j must behave as one with exactly the value outputs of the operation wired as in use j,
         whatever the object was used for before *)
      forallb (use_wf (kind_of o)) uses &&
      match nth_error uses j with
      | Some ws =>
          match use_outputs (kind_of o) ws with
          | Some n => match spec_query (Some n) q with Some r => obs_eqb obs (tag idx r) | None => true end
          | None => false
          end
      | None => false
      end
  | CPortEq a b e h =>
      let '(i, o, d) := a in let '(j, p, f) := b in
      Bool.eqb e (Z.eqb i j && Z.eqb o p && Bool.eqb d f) && (negb e || h)
  end.
