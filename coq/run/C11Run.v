(* Correspondence and monitor for C11, evaluated on cases written by harness/props/c11.py. *)
From Coq Require Import NArith List Bool Arith.
Import ListNotations.
From HV Require Export lib.Harness model.Types model.Resolve spec.ResolveS.
From HV Require Export model.SerialHugr model.ResolveHugr spec.ResolveHugrS.

Definition builtin_eqb (a b : builtin) : bool :=
  match a, b with
  | BAdt, BAdt | BFn, BFn | BUsize, BUsize | BQubit, BQubit | BExtSet, BExtSet => true
  | _, _ => false
  end.
Definition msym_eqb (a b : msym) : bool :=
  match a, b with
  | SBuiltin x, SBuiltin y => builtin_eqb x y
  | SQual e i, SQual e' i' => N.eqb e e' && N.eqb i i'
  | SBare i, SBare i' => N.eqb i i'
  | _, _ => false
  end.
Fixpoint term_eqb (a b : term) : bool :=
  let fix go (l m : list term) : bool :=
    match l, m with [], [] => true | x :: r, y :: s => term_eqb x y && go r s | _, _ => false end in
  match a, b with
  | MApply s l, MApply s' l' => msym_eqb s s' && go l l'
  | MList l, MList l' => go l l'
  | MVar i, MVar j => Nat.eqb i j
  | MSplice t, MSplice t' => term_eqb t t'
  | MNat n, MNat m => N.eqb n m
  | MStr s, MStr s' => N.eqb s s'
  | _, _ => false
  end.
Definition export_eqb (a b : msym * list term * term) : bool :=
  msym_eqb (fst (fst a)) (fst (fst b)) && list_eqb term_eqb (snd (fst a)) (snd (fst b)) && term_eqb (snd a) (snd b).
Definition obound_eqb := option_eqb bound_eqb.

(* what is observed of a type expression: the resolved object (twice), the serial form, the exported
   model and the bound, before and after resolution; None = the call raised *)
Record ty_obs := { o_res : ty; o_res2 : ty; o_ser0 : option ty; o_ser1 : option ty;
                   o_mod0 : option term; o_mod1 : option term; o_b0 : option bound; o_b1 : option bound }.
Record arg_obs := { a_res : tyarg; a_res2 : tyarg; a_ser0 : option tyarg; a_ser1 : option tyarg;
                    a_mod0 : option term; a_mod1 : option term }.
(* one node of a HUGR: operation before / after / after twice, serial operation, export, the types of
   its value ports and their bounds *)
Record node_obs := { n_op : op; n_res : op; n_res2 : op; n_ser0 : option op; n_ser1 : option op;
                     n_exp0 : option (msym * list term * term); n_exp1 : option (msym * list term * term);
                     n_pt0 : list ty; n_pt1 : list ty;
                     n_pb0 : list (option bound); n_pb1 : list (option bound) }.

(* a whole HUGR (second pass): the public-API dump (harness/hobs.py: root, node table with holes, per node the
   operation / parent / children / metadata / port counts, links; constants with their function values' HUGRs dumped
   recursively) before resolve_extensions, after it, after a second one; the parsed `to_json` document before and
   after (None = it raised); what Hugr.port_type shows for every out port of every live node (node order, then
   offset) before and after; whether the call returned the HUGR itself with the same node iteration *)
Record whole_obs := { w_h0 : hugrT; w_h1 : hugrT; w_h2 : hugrT;
                      w_doc0 : option serialT; w_doc1 : option serialT;
                      w_pt0 : list (list (option ty)); w_pt1 : list (list (option ty));
                      w_self : bool }.

Inductive case :=
| CTy (reg : registry) (t : ty) (o : ty_obs)
| CArg (reg : registry) (a : tyarg) (o : arg_obs)
(* rest_same: the serialised document with the Extension operations taken out is unchanged *)
| CHugr (reg : registry) (nodes : list node_obs) (rest_same : bool)
| CWhole (reg : registry) (w : whole_obs).

(* short constructor names for the literals of whole HUGRs *)
Definition Nd : hop -> option nat -> list nat -> N -> nat -> nat -> nodeT := Build_node hop md.
Definition Hg : list (option nodeT) -> nat -> list link -> hugrT := Build_hugr hop md.
Definition Lk (a : nat) (x : aoff) (b : nat) (y : aoff) : link := ((a, x), (b, y)).
Definition Sn : sop -> nat -> snode sop := Build_snode sop.
Definition Sr : list (snode sop) -> list sedge -> option (list (option md)) -> serialT := Build_serial sop md.
Definition Ed (a : nat) (x : option nat) (b : nat) (y : option nat) : sedge := ((a, x), (b, y)).
Definition Wo := Build_whole_obs.

(* Hugr.port_type of every out port of every live node, in the model *)
Definition model_pts (h : hugrT) : list (list (option ty)) :=
  map (fun i => match get_node h i with
                | Some n => map (port_type h i) (seq 0 (SerialHugr.n_nout n))
                | None => []
                end) (live h).
Definition pts_eqb : list (list (option ty)) -> list (list (option ty)) -> bool :=
  list_eqb (list_eqb (option_eqb ty_eqb)).

(* ---------------------------------------------------------------- correspondence: implementation = model *)
(* The oracle of the model (model/Resolve.v, descr_choice: does the implementation keep the description an opaque
   operation was loaded with, or write its definition's?) is read off the implementation's own result: it kept the
   description of c when some observed (operation before, operation after) pair has c before and a definition-backed
   operation carrying c's description after.  Either answer is admissible; when the two descriptions coincide the
   answers coincide.  A result carrying a third string matches the model under neither answer (corr fails) and is
   rejected by the specification (rop_b / same_but_descr_b in mon). *)
Definition chose_keep (pairs : list (op * op)) : descr_choice :=
  fun c => existsb (fun p => match p with
                             | (OCustom c', OExt x) => custom_eqb c c' && N.eqb (x_descr x) (c_descr c)
                             | _ => false
                             end) pairs.
Definition node_pairs (nodes : list node_obs) : list (op * op) := map (fun n => (n_op n, n_res n)) nodes.
Definition whole_pairs (h0 h1 : hugrT) : list (op * op) :=
  flat_map (fun p => match p with
                     | (Some n, Some n') => match SerialHugr.n_op n, SerialHugr.n_op n' with
                                            | HOp a, HOp b => [(a, b)]
                                            | _, _ => []
                                            end
                     | _ => []
                     end) (combine (h_nodes h0) (h_nodes h1)).

(* A call that raises (None) is never compared with the model: whether serialising, exporting or taking the bound of an
   expression raises - and which exception - is outside the property (it happens on inputs outside its domain only:
   too few arguments for a from-params definition, a polymorphic function type used as a type); the monitor decides
   what a raise means for the property (before / after resolution must agree).  Values are compared when both sides
   produce one. *)
Definition agree {A} (eqb : A -> A -> bool) (obs model : option A) : bool :=
  match obs, model with Some a, Some b => eqb a b | _, _ => true end.
Definition port_types (o : op) : list ty :=
  match outer_signature o with Some f => ft_in f ++ ft_out f | None => [] end.
Definition corr_node (reg : registry) (n : node_obs) : bool :=
  let o := n_op n in
  (* the choice made at this node; the second call has nothing to choose for (C11_resolve_idempotent) *)
  let keep := chose_keep [(n_op n, n_res n)] in
  let r := resolve_op reg keep o in
  op_eqb (n_res n) r && op_eqb (n_res2 n) (resolve_op reg keep r) &&
  agree op_eqb (n_ser0 n) (ser_op o) &&
  agree export_eqb (n_exp0 n) (export_op o) && agree export_eqb (n_exp1 n) (export_op r) &&
  list_eqb ty_eqb (n_pt0 n) (port_types o) && list_eqb ty_eqb (n_pt1 n) (port_types r) &&
  list_eqb (agree bound_eqb) (n_pb0 n) (row_bounds (port_types o)) &&
  (* the serial form and the bounds after resolution: only where the property speaks about them (an inconsistent
     recorded bound is replaced by the computed one, or not: unspecified) *)
  implb (consistent_op reg o)
        (agree op_eqb (n_ser1 n) (ser_op r) && list_eqb (agree bound_eqb) (n_pb1 n) (row_bounds (port_types r))).

Definition corr (c : case) : bool :=
  match c with
  | CTy reg t o =>
      let r := resolve_ty reg t in
      ty_eqb (o_res o) r && ty_eqb (o_res2 o) (resolve_ty reg r) &&
      agree ty_eqb (o_ser0 o) (ser_ty t) &&
      agree term_eqb (o_mod0 o) (to_model t) && agree term_eqb (o_mod1 o) (to_model r) &&
      agree bound_eqb (o_b0 o) (tbound t) &&
      implb (consistent reg t) (agree ty_eqb (o_ser1 o) (ser_ty r) && agree bound_eqb (o_b1 o) (tbound r))
  | CArg reg a o =>
      let r := resolve_arg reg a in
      tyarg_eqb (a_res o) r && tyarg_eqb (a_res2 o) (resolve_arg reg r) &&
      agree tyarg_eqb (a_ser0 o) (ser_arg a) &&
      agree term_eqb (a_mod0 o) (arg_to_model a) && agree term_eqb (a_mod1 o) (arg_to_model r) &&
      implb (consistent_arg reg a) (agree tyarg_eqb (a_ser1 o) (ser_arg r))
  | CHugr reg nodes rest =>
      let keep := chose_keep (node_pairs nodes) in
      forallb (corr_node reg) nodes &&
      (* Hugr.resolve_extensions as a whole *)
      list_eqb op_eqb (map n_res nodes) (resolve_hugr reg keep (map n_op nodes))
  | CWhole reg w =>
      let keep := chose_keep (whole_pairs (w_h0 w) (w_h1 w)) in
      let r := resolve_extensions reg keep (w_h0 w) in
      hugr_eqb r (w_h1 w) && hugr_eqb (resolve_extensions reg keep (w_h1 w)) (w_h2 w) &&
      agree doc_eqb (hugr_doc (w_h0 w)) (w_doc0 w) &&
      implb (consistent_hugr reg (w_h0 w)) (agree doc_eqb (hugr_doc r) (w_doc1 w)) &&
      pts_eqb (w_pt0 w) (model_pts (w_h0 w)) && pts_eqb (w_pt1 w) (model_pts r)
  end.

(* ---------------------------------------------------------------- monitor: the specification on the
   implementation's own observations (none of resolve_ty / ser_ty / to_model is used below) *)
Definition implb (a b : bool) : bool := negb a || b.
Definition no_ext_ft (f : functype) : bool := forallb no_ext (ft_in f) && forallb no_ext (ft_out f).
Definition clean_ft (reg : registry) (f : functype) : bool :=
  forallb (clean reg) (ft_in f) && forallb (clean reg) (ft_out f).
(* an operation loaded from serial form is opaque and holds no definition-backed type (a definition-backed operation
   built directly is not resolved at all - ExtOp has no resolve - so the every-depth clause does not speak about it) *)
Definition loaded_op (o : op) : bool :=
  match o with
  | OCustom c => no_ext_ft (c_sig c) && forallb no_ext_arg (c_args c)
  | OExt _ => false
  | OOther _ => true
  end.
(* every depth, for operations: a resolved operation holds no resolvable opaque type *)
Definition clean_op (reg : registry) (o : op) : bool :=
  match o with
  | OExt x => clean_ft reg (x_sig x) && forallb (clean_arg reg) (x_args x)
  | _ => true
  end.
Definition ser_same (reg : registry) (s0 s1 : option op) : bool :=
  match s0, s1 with
  | Some a, Some b => same_but_descr_b reg a b
  | None, None => true
  | _, _ => false
  end.

Definition mon_ty (reg : registry) (t : ty) (o : ty_obs) : bool :=
  rty_b reg t (o_res o) &&                                      (* exactly when defined; untouched otherwise *)
  implb (no_ext t) (clean reg (o_res o)) &&                     (* every depth *)
  implb (clean reg t) (ty_eqb (o_res o) t) &&                   (* nothing to resolve: identical *)
  ty_eqb (o_res2 o) (o_res o) &&                                (* idempotent *)
  option_eqb term_eqb (o_mod1 o) (o_mod0 o) &&                  (* exported model *)
  implb (consistent reg t)
        (option_eqb ty_eqb (o_ser1 o) (o_ser0 o) &&             (* serial form *)
         obound_eqb (o_b1 o) (o_b0 o)).                         (* bound *)
Definition mon_arg (reg : registry) (a : tyarg) (o : arg_obs) : bool :=
  rarg_b reg a (a_res o) &&
  implb (no_ext_arg a) (clean_arg reg (a_res o)) &&
  implb (clean_arg reg a) (tyarg_eqb (a_res o) a) &&
  tyarg_eqb (a_res2 o) (a_res o) &&
  option_eqb term_eqb (a_mod1 o) (a_mod0 o) &&
  implb (consistent_arg reg a) (option_eqb tyarg_eqb (a_ser1 o) (a_ser0 o)).
Definition mon_node (reg : registry) (n : node_obs) : bool :=
  rop_b reg (n_op n) (n_res n) &&
  implb (loaded_op (n_op n)) (clean_op reg (n_res n)) &&
  op_eqb (n_res2 n) (n_res n) &&
  option_eqb export_eqb (n_exp1 n) (n_exp0 n) &&
  (* port types: those of a resolved operation are the resolved port types, all others are identical *)
  (match n_op n, n_res n with
   | OCustom _, OExt _ => list_eqb (rty_b reg) (n_pt0 n) (n_pt1 n)
   | _, _ => list_eqb ty_eqb (n_pt0 n) (n_pt1 n)
   end) &&
  implb (consistent_op reg (n_op n))
        (ser_same reg (n_ser0 n) (n_ser1 n) && list_eqb obound_eqb (n_pb1 n) (n_pb0 n)).

(* whole HUGR: the specification of spec/ResolveHugrS.v on the implementation's dumps *)
Definition live_ops (h : hugrT) : list hop :=
  flat_map (fun x => match x with Some n => [SerialHugr.n_op n] | None => [] end) (h_nodes h).
Definition opt_tbound (t : option ty) : option (option bound) := option_map tbound t.
Fixpoint mon_pts (reg : registry) (cons : bool) (ops : list hop) (p0 p1 : list (list (option ty))) : bool :=
  match ops, p0, p1 with
  | [], [], [] => true
  | o :: r, a :: r0, b :: r1 =>
      (* a node whose operation the registry does not define shows the same port types; otherwise each is the old one
         with exactly its resolvable opaque types replaced *)
      (if hop_holds (untouchable_op reg) o then list_eqb (option_eqb ty_eqb) a b
       else list_eqb (port_type_rel_b reg) a b) &&
      implb cons (list_eqb (option_eqb obound_eqb) (map opt_tbound b) (map opt_tbound a)) &&
      mon_pts reg cons r r0 r1
  | _, _, _ => false
  end.
Definition mon_whole (reg : registry) (w : whole_obs) : bool :=
  let cons := consistent_hugr reg (w_h0 w) in
  w_self w &&
  rhugr_b reg (w_h0 w) (w_h1 w) &&                              (* frame + exactly the defined operations; constants identical *)
  implb (hugr_all op_loaded (w_h0 w)) (hugr_all (op_clean reg) (w_h1 w)) &&   (* no resolvable opaque type remains *)
  hugr_eqb (w_h1 w) (w_h2 w) &&                                 (* idempotent *)
  implb cons (match w_doc0 w, w_doc1 w with                     (* the document *)
              | Some a, Some b => same_doc_b reg a b
              | None, None => true
              | _, _ => false
              end) &&
  mon_pts reg cons (live_ops (w_h0 w)) (w_pt0 w) (w_pt1 w).

Definition mon (c : case) : bool :=
  match c with
  | CTy reg t o => implb (regwf_b reg) (mon_ty reg t o)
  | CArg reg a o => implb (regwf_b reg) (mon_arg reg a o)
  | CHugr reg nodes rest =>
      (* an inconsistent operation may be unserialisable once resolved; the document is then not comparable *)
      implb (regwf_b reg) (forallb (mon_node reg) nodes &&
                           implb (forallb (fun n => consistent_op reg (n_op n)) nodes) rest)
  | CWhole reg w => implb (regwf_b reg) (mon_whole reg w)
  end.
