(* Correspondence and monitors for C02 / C03, evaluated on cases written by harness/props/c02.py.
   Operations are instantiated by what the harness observes of them: the interned encoded form
   (JSON of the serial op without its parent field) and the port counts the reader's contract
   (hugr-core/src/ops.rs) assigns to that encoded form.  Metadata dicts are interned; 0 = {}. *)
From Coq Require Import List Bool Arith NArith ZArith.
Import ListNotations.
From HV Require Import lib.PyDict model.BiMapM model.Graph.
From HV Require Export lib.Harness model.SerialHugr spec.SerialHugrS.
From HV Require Import model.HugrHist spec.HugrHistS.
From HV Require Export model.SerialHugrGen spec.SerialHugrGenS.

Record opinfo := { o_code : N; o_ord : bool; o_vin : nat; o_sin : nat; o_vout : nat; o_sout : nat }.
Definition o_v (o : opinfo) (d : dir) := match d with DIn => o_vin o | DOut => o_vout o end.
Definition o_s (o : opinfo) (d : dir) := match d with DIn => o_sin o | DOut => o_sout o end.
Definition o_ndp (o : opinfo) (d : dir) : option nat := if o_ord o then Some (o_v o d + o_s o d) else None.
Definition o_enc (o : opinfo) : N := o_code o.
Definition o_dec (tab : list opinfo) (c : N) : opinfo :=
  match find (fun o => N.eqb (o_code o) c) tab with
  | Some o => o
  | None => {| o_code := c; o_ord := false; o_vin := 0; o_sin := 0; o_vout := 0; o_sout := 0 |}
  end.
Definition md_is_nil (m : N) : bool := N.eqb m 0.

Definition hugrT := hugr opinfo N.
Definition serialT := serial N N.
Definition nodeT := node opinfo N.

Definition M_to_serial (h : hugrT) : option serialT := to_serial o_enc o_ndp md_is_nil h.
Definition M_from_serial (tab : list opinfo) (s : serialT) : option hugrT :=
  from_serial (o_dec tab) o_ndp 0%N s.

(* short constructor names for the case literals *)
Definition O := Build_opinfo.
Definition Nd : opinfo -> option nat -> list nat -> N -> nat -> nat -> nodeT := Build_node opinfo N.
Definition Hg : list (option nodeT) -> nat -> list link -> hugrT := Build_hugr opinfo N.
Definition Sn : N -> nat -> snode N := Build_snode N.
Definition Sr : list (snode N) -> list sedge -> option (list (option N)) -> serialT := Build_serial N N.

Definition Ed (a : nat) (x : option nat) (b : nat) (y : option nat) : sedge := ((a, x), (b, y)).
Definition Lk (a : nat) (x : aoff) (b : nat) (y : aoff) : link := ((a, x), (b, y)).

(* ---- equality of observations ---- *)
Definition opinfo_eqb (a b : opinfo) : bool :=
  N.eqb (o_code a) (o_code b) && Bool.eqb (o_ord a) (o_ord b) && (o_vin a =? o_vin b) && (o_sin a =? o_sin b) &&
  (o_vout a =? o_vout b) && (o_sout a =? o_sout b).
Definition node_eqb (a b : nodeT) : bool :=
  opinfo_eqb (n_op a) (n_op b) && option_eqb Nat.eqb (n_parent a) (n_parent b) &&
  list_eqb Nat.eqb (n_children a) (n_children b) && N.eqb (n_md a) (n_md b) &&
  (n_nin a =? n_nin b) && (n_nout a =? n_nout b).
Definition hugr_eqb (a b : hugrT) : bool :=
  list_eqb (option_eqb node_eqb) (h_nodes a) (h_nodes b) && (h_root a =? h_root b) &&
  list_eqb link_eqb (h_links a) (h_links b).
Definition snode_eqb (a b : snode N) : bool := N.eqb (s_op a) (s_op b) && (s_parent a =? s_parent b).
Definition serial_eqb (a b : serialT) : bool :=
  list_eqb snode_eqb (s_nodes a) (s_nodes b) && list_eqb sedge_eqb (s_edges a) (s_edges b) &&
  option_eqb (list_eqb (option_eqb N.eqb)) (s_meta a) (s_meta b).

(* ---- equality up to what the properties leave open (design.d/C02.md, design.d/C03.md "False alarms corrected
   (harmless changes)") ----
   documents: the same node list, the same MULTISET of edges (no clause of C02 / C03 gives the position of an edge in
   the `edges` array a meaning), the same metadata dictionary for every node as a reader takes it from the table
   (a missing table, a table of nulls, a null entry and {} all read as {}: Hugr._from_serial get_meta) *)
Definition meta_entry (e : option N) : option N :=
  match e with Some m => if md_is_nil m then None else Some m | None => None end.
Definition meta_view (n : nat) (m : option (list (option N))) : list (option N) :=
  match m with None | Some [] => repeat None n | Some l => map meta_entry l end.
Definition serial_sameb (a b : serialT) : bool :=
  list_eqb snode_eqb (s_nodes a) (s_nodes b) && perm_eqb sedge_eqb (s_edges a) (s_edges b) &&
  list_eqb (option_eqb N.eqb) (meta_view (length (s_nodes a)) (s_meta a)) (meta_view (length (s_nodes b)) (s_meta b)).
(* HUGRs as the queries show them: operation, parent, ordered children, metadata of every node, the root, the MULTISET
   of links ("the same multiset of links on every port").  The recorded port counts (num_in_ports / num_out_ports)
   and the iteration order of links() are no part of what C02 promises: they are diagnostics (harness: model_drift) *)
Definition node_sameb (a b : nodeT) : bool :=
  opinfo_eqb (n_op a) (n_op b) && option_eqb Nat.eqb (n_parent a) (n_parent b) &&
  list_eqb Nat.eqb (n_children a) (n_children b) && N.eqb (n_md a) (n_md b).
Definition hugr_sameb (a b : hugrT) : bool :=
  list_eqb (option_eqb node_sameb) (h_nodes a) (h_nodes b) && (h_root a =? h_root b) &&
  perm_eqb link_eqb (h_links a) (h_links b).

(* what the harness saw of one HUGR and its round trip *)
Record rt := {
  r_h : hugrT;                       (* public-API dump of the HUGR *)
  r_doc : option serialT;            (* to_json(), parsed; None = it raised *)
  r_load : option (hugrT * option serialT);   (* dump of load_json(to_json()) and its to_json(); None = load raised *)
  r_dec : list opinfo;               (* the operations deserialize produced (decode table) *)
  r_json_same : bool;                (* the two documents are equal as JSON values, header fields included *)
  r_pyd : bool;                      (* pydantic validate(dump(s)) == s and dumps again to the same text *)
  r_schema : bool;                   (* the document validates against the published strict schema *)
  (* the order in which the document lists the live nodes of r_h (document position k holds node r_ord[k]) and the
     reloaded HUGR's document those of the reloaded HUGR: the writer's choice as far as C03 is concerned, found by the
     harness by matching the document against the dump and CHECKED here for admissibility (nodes_listed_in_b /
     order_admissible_b).  Unused by C02, whose only licence is the order-preserving renumbering. *)
  r_ord : list nat;
  r_ord2 : list nat
}.
Definition Rt := Build_rt.
(* ---- mutation histories (model/HugrHist.v over the store of model/Graph.v) ---- *)
Definition zst := Graph.hugr opinfo N.
Definition hc := hcmd opinfo N.
Definition HAdd (o : opinfo) (p : option nat) (k : option Z) (m : N) : hc := HB (AddNode o p k m).
Definition HLink (a : nat) (x : Z) (b : nat) (y : Z) : hc := HB (AddLink (a, x) (b, y)).
Definition HOrd (a b : nat) : hc := HB (AddOrder a b).
Definition HDelL (a : nat) (x : Z) (b : nat) (y : Z) : hc := HB (DelLink (a, x) (b, y)).
Definition HDelN (n : nat) : hc := HB (DelNode n).
Definition HMeta (n : nat) (m : N) : hc := HSetMeta n m.
(* insert_hugr of Hugr(o) + basic calls *)
Definition bc := bcmd opinfo N.
Definition BAdd (o : opinfo) (p : option nat) (k : option Z) (m : N) : bc := AddNode o p k m.
Definition BLink (a : nat) (x : Z) (b : nat) (y : Z) : bc := AddLink (a, x) (b, y).
Definition BOrd (a b : nat) : bc := AddOrder a b.
Definition BDelL (a : nat) (x : Z) (b : nat) (y : Z) : bc := DelLink (a, x) (b, y).
Definition BDelN (n : nat) : bc := DelNode n.
Definition HIns (o : opinfo) (src : list bc) (p : option nat) : hc := HInsert o 0%N src p.
(* a store state rebuilt from the public queries of a HUGR without deleted nodes: the node table, and the
   forward dictionary in links() order with the sub-offsets linked_ports shows *)
Definition Gd (o : opinfo) (p : option nat) (i k : Z) (ch : list nat) (m : N) : node_data opinfo N :=
  {| nd_op := o; nd_parent := p; nd_inps := i; nd_outs := k; nd_children := ch; nd_meta := m |}.
Definition Sl (a : nat) (x : Z) (i : nat) (b : nat) (y : Z) (j : nat) : subport * subport := (((a, x), i), ((b, y), j)).
Definition St (ns : list (option (node_data opinfo N))) (fw : list (subport * subport)) (root : nat) : zst :=
  {| nodes := ns; links := {| fwd := fw; bck := map (fun kv => (snd kv, fst kv)) fw |}; free := []; root := root |}.
Definition Hinit (o : opinfo) : zst := init o 0%N.
(* which calls returned normally, in the model *)
Fixpoint returns (h : zst) (cs : list hc) : list bool :=
  match cs with
  | [] => []
  | c :: r => res_eqb (snd (hstep h c)) Ok :: returns (fst (hstep h c)) r
  end.

Inductive case :=
| CHugr (r : rt)
| CPkg (mods : list rt) (same_as_modules : bool) (schema : bool)   (* Package([...]) document *)
| CExt (roundtrip : bool) (schema : bool)                          (* Extension document *)
(* Hugr(root_op) followed by a history of public-API calls; which calls returned normally; whether the harness
   expects the premise hist_ok to hold (every generated call is inside the guard: it holds unless a node is
   added after a deletion); the final HUGR *)
| CHist (o : opinfo) (cs : list hc) (rets : list bool) (noreuse : bool) (r : rt)
(* a history applied to the HUGR a builder program produced (start = its store state as the queries show it) *)
| CMut (st : zst) (cs : list hc) (rets : list bool) (r : rt).

(* ---- correspondence: the model computes what the implementation produced ---- *)
Definition corr_rt (r : rt) : bool :=
  option_eqb serial_sameb (M_to_serial (r_h r)) (r_doc r) &&
  match r_doc r with
  | None => true
  | Some s =>
      match M_from_serial (r_dec r) s, r_load r with
      | None, None => true
      | Some h2, Some (h2', s2') => hugr_sameb h2 h2' && option_eqb serial_sameb (M_to_serial h2') s2'
      | _, _ => false
      end
  end.
(* the store model run on the history shows the HUGR the implementation's queries show (node table with holes,
   operations, parents, ordered children, metadata, root, the multiset of links) and the same calls return normally.
   (Reported port counts and the iteration order of links() are the store's own business -- C04 -- and not compared
   here: C02 promises neither.) *)
(* (deleted nodes at the end of the node table are not visible to the public queries: the dump ends at the last
   live node) *)
Fixpoint strip_dead (l : list (option nodeT)) : list (option nodeT) :=
  match l with
  | [] => []
  | x :: r => match x, strip_dead r with None, [] => [] | _, r' => x :: r' end
  end.
Definition trim (h : hugrT) : hugrT := Hg (strip_dead (h_nodes h)) (h_root h) (h_links h).
Definition corr_hist (st : zst) (cs : list hc) (rets : list bool) (r : rt) : bool :=
  hugr_sameb (trim (view (hrun st cs))) (r_h r) && list_eqb Bool.eqb (returns st cs) rets.
Definition corr (c : case) : bool :=
  match c with
  | CHugr r => corr_rt r
  | CPkg mods _ _ => forallb (fun r => option_eqb serial_sameb (M_to_serial (r_h r)) (r_doc r)) mods
  | CExt _ _ => true
  | CHist o cs rets nr r => corr_rt r && corr_hist (Hinit o) cs rets r && Bool.eqb (hist_ok (Hinit o) cs) nr
  | CMut st cs rets r => corr_rt r && corr_hist st cs rets r
  end.

(* ---- monitors: the specification on the implementation's own observations ---- *)
Definition S_iso (h h' : hugrT) : bool := iso_b o_enc N.eqb N.eqb h h'.
(* C02: load succeeds, same document, same observable structure under the renumbering *)
Definition mon2_rt (r : rt) : bool :=
  match r_doc r, r_load r with
  | Some s, Some (h2, Some s2) => serial_eqb s s2 && r_json_same r && r_pyd r && S_iso (r_h r) h2
  | _, _ => false
  end.
(* the conclusions of the history theorems of props/C02.v, on the implementation's own observations: after a
   history inside the guard without index reuse every call returned normally and the HUGR the queries show
   is index-ordered; if moreover links were only added on ports the operations have, it satisfies the guard *)
Definition G_guard (h : hugrT) : bool := guard_b o_v o_s o_ord h.
Definition mon_hist (o : opinfo) (cs : list hc) (rets : list bool) (r : rt) : bool :=
  if hist_ok (Hinit o) cs
  then forallb (fun b => b) rets && (length rets =? length cs) && index_ordered_b (r_h r) &&
       (negb (hist_on_ports o_v o_s o_ord (Hinit o) cs) || G_guard (r_h r))
  else true.
Definition mon2 (c : case) : bool :=
  match c with
  | CHugr r => mon2_rt r
  | CHist o cs rets _ r => mon2_rt r && mon_hist o cs rets r
  | CMut _ _ _ r => mon2_rt r
  | _ => true
  end.
(* C03: schema-valid, index-sane; the document lists the nodes of the HUGR in SOME order (r_ord: each live node once,
   the root first, document node k = encoded operation of node r_ord[k] with the position of its parent) -- which order
   is the writer's choice: "nodes listed in index order" is C02's licence (mon2: iso_b under `rank`), not a clause of
   C03 --; ports addressed by the reader's contract, the nodes of the edges at their listing positions *)
Definition mon3_rt (r : rt) : bool :=
  match r_doc r with
  | Some s =>
      r_schema r && index_sane_b s &&
      nodes_listed_in_b o_enc N.eqb (r_ord r) (r_h r) s &&
      (negb (ports_exist_b o_v o_s o_ord (r_h r)) || port_addressing_in_b o_v o_s (r_ord r) (r_h r) s)
  | None => false
  end.
Definition mon3 (c : case) : bool :=
  match c with
  | CHugr r | CHist _ _ _ _ r | CMut _ _ _ r => mon3_rt r
  | CPkg mods same schema => same && schema && forallb mon3_rt mods
  | CExt rtrip schema => rtrip && schema
  end.
Definition mon := mon2.
