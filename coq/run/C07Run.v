(* Correspondence and monitor for C07, evaluated on cases written by harness/props/c07.py. *)
From Coq Require Import NArith List Bool Arith.
Import ListNotations.
From HV Require Export lib.Harness model.Types spec.TypesS.

Inductive case :=
(* a type; observed: type_bound() (None = raised), the bound inside _to_opaque() (outer None = not an
   ExtType), the bounds of all serial Opaque records of _to_serial() in document order *)
| CTy (t : ty) (ob : option bound) (oopq : option (option bound)) (oser : option (list bound))
(* StaticArray(elem): accepted / ValueError / another exception; bound of the constructed type *)
| CStatic (elem : ty) (acc : option bool) (ob : option bound)
(* TypeBound.join of the list bs *)
| CJoin (bs : list bound) (r : option bound).

Definition ob_eqb := option_eqb bound_eqb.
Definition opaque_bound (t : ty) : option bound :=
  match to_opaque t with Some (TOpaque _ _ _ b) => Some b | _ => None end.
Definition is_ext (t : ty) : bool := match t with TExt _ _ _ => true | _ => false end.

(* the std StaticArray type as the constructor builds it, over whichever definition the harness read *)
Definition corr (c : case) : bool :=
  match c with
  | CTy t ob oopq oser =>
      ob_eqb ob (tbound t) &&
      match oopq with
      | Some o => is_ext t && ob_eqb o (opaque_bound t)
      | None => negb (is_ext t)
      end &&
      option_eqb (list_eqb bound_eqb) oser (ser_bounds t)
  | CStatic elem acc ob =>
      option_eqb Bool.eqb acc (static_array_accepts elem) &&
      ob_eqb ob (match static_array_accepts elem with Some true => tbound elem | _ => None end)
  | CJoin bs r => ob_eqb r (Some (join bs))
  end.

(* ---- monitor: the specification (copy_b, wf_b of spec/TypesS.v) on the implementation's observations ---- *)
Definition spec_bound (t : ty) : bound := if copy_b t then Copyable else Any.
Definition mon_bound (t : ty) (ob : option bound) : bool :=
  match ob with
  | Some b => bound_eqb b (spec_bound t)        (* Copyable exactly when every constituent can be copied *)
  | None => negb (wf_b t)                       (* a bound is reported for every well-formed type *)
  end.
Definition mon (c : case) : bool :=
  match c with
  | CTy t ob oopq oser =>
      mon_bound t ob &&
      match oopq with Some o => ob_eqb o ob | None => true end &&       (* written bound = computed bound *)
      match oser with
      | Some bs => list_eqb bound_eqb bs (map spec_bound (ser_exts t))
      | None => negb (wf_b t)
      end
  | CStatic elem acc ob =>
      match acc with
      | Some a => Bool.eqb a (copy_b elem) && (if a then ob_eqb ob (Some Copyable) else true)
      | None => negb (wf_b elem)
      end
  | CJoin bs r => ob_eqb r (Some (if forallb (fun b => bound_eqb b Copyable) bs then Copyable else Any))
  end.
