(* Correspondence and monitor for C07, evaluated on cases written by harness/props/c07.py. *)
From Coq Require Import NArith List Bool Arith.
Import ListNotations.
From HV Require Export lib.Harness model.Types spec.TypesS model.TypesSame spec.TypesSameS.

(* one entry of a history (see CSeq): same observations as CTy / CStatic *)
Inductive step :=
| STy (t : ty) (ob : option bound) (oopq : option (option bound)) (oser : option (list bound))
| SStatic (elem : ty) (acc : option bool) (ob : option bound).

(* one link of a chain (see CSame): the operation, the type the returned object denotes (printed from the
   object; None = the operation raised) and what the implementation reports for that object *)
Inductive sstep :=
| SOp (op : sameop) (res : option ty) (ob : option bound) (oopq : option (option bound)) (oser : option (list bound)).

Inductive case :=
(* a type; observed: type_bound() (None = raised), the bound inside _to_opaque() (outer None = not an
   ExtType), the bounds of all serial Opaque records of _to_serial() in document order *)
| CTy (t : ty) (ob : option bound) (oopq : option (option bound)) (oser : option (list bound))
(* StaticArray(elem): accepted / ValueError / another exception; bound of the constructed type *)
| CStatic (elem : ty) (acc : option bool) (ob : option bound)
(* TypeBound.join of the list bs *)
| CJoin (bs : list bound) (r : option bound)
(* a history of ONE object graph: build, observe, change it through its public attributes (element
   of a row / argument list assigned or appended, args / variant_rows / type_def / bound attribute
   re-assigned, possibly on a copy.copy / copy.deepcopy of the root), observe again, ...  Every entry
   is the type the object graph denotes AT THAT MOMENT (printed from the objects) with what the
   implementation reported at that moment.  The property speaks about "the bound reported for any
   type" and "the bound written into a serialized extension type": both are functions of the type's
   current value, so every entry must satisfy exactly what a freshly built type satisfies. *)
| CSeq (steps : list step)
(* a chain of operations that hand "the same" type back: the type t is built and observed, then each
   operation (resolve against the registry reg — through Type.resolve, TypeTypeArg.resolve or
   SequenceArg.resolve —, copy.copy, copy.deepcopy, dataclasses.replace, _to_serial().deserialize()) is
   applied to the object the previous one returned, and the returned object is printed and observed.  The
   property says that variables, aliases and opaque types report their DECLARED bound and that the written
   bound is the computed one: a type that comes back from such an operation is still that type. *)
| CSame (reg : registry) (t : ty) (ob : option bound) (oopq : option (option bound)) (oser : option (list bound))
        (steps : list sstep).

Definition ob_eqb := option_eqb bound_eqb.
Definition opaque_bound (t : ty) : option bound :=
  match to_opaque t with Some (TOpaque _ _ _ b) => Some b | _ => None end.
Definition is_ext (t : ty) : bool := match t with TExt _ _ _ => true | _ => false end.

(* the std StaticArray type as the constructor builds it, over whichever definition the harness read *)
Definition corr_ty (t : ty) (ob : option bound) (oopq : option (option bound)) (oser : option (list bound)) : bool :=
  ob_eqb ob (tbound t) &&
  match oopq with
  | Some o => is_ext t && ob_eqb o (opaque_bound t)
  | None => negb (is_ext t)
  end &&
  option_eqb (list_eqb bound_eqb) oser (ser_bounds t).
Definition corr_static (elem : ty) (acc : option bool) (ob : option bound) : bool :=
  option_eqb Bool.eqb acc (static_array_accepts elem) &&
  ob_eqb ob (match static_array_accepts elem with Some true => tbound elem | _ => None end).
Definition corr_step (s : step) : bool :=
  match s with
  | STy t ob oopq oser => corr_ty t ob oopq oser
  | SStatic elem acc ob => corr_static elem acc ob
  end.
(* the returned object denotes exactly the type the model computes, and reports what the model reports for it;
   after an operation that raised nothing follows *)
Fixpoint corr_chain (reg : registry) (prev : ty) (steps : list sstep) : bool :=
  match steps with
  | [] => true
  | SOp op res ob oopq oser :: r =>
      match apply_op reg op prev, res with
      | Some m, Some t' => same_b Exact m t' && corr_ty t' ob oopq oser && corr_chain reg t' r
      | None, None => match r with [] => true | _ => false end
      | _, _ => false
      end
  end.
Definition corr (c : case) : bool :=
  match c with
  | CTy t ob oopq oser => corr_ty t ob oopq oser
  | CStatic elem acc ob => corr_static elem acc ob
  | CJoin bs r => ob_eqb r (Some (join bs))
  | CSeq steps => forallb corr_step steps
  | CSame reg t ob oopq oser steps => corr_ty t ob oopq oser && corr_chain reg t steps
  end.

(* ---- monitor: the specification (copy_b, wf_b of spec/TypesS.v) on the implementation's observations ---- *)
Definition spec_bound (t : ty) : bound := if copy_b t then Copyable else Any.
Definition mon_bound (t : ty) (ob : option bound) : bool :=
  match ob with
  | Some b => bound_eqb b (spec_bound t)        (* Copyable exactly when every constituent can be copied *)
  | None => negb (wf_b t)                       (* a bound is reported for every well-formed type *)
  end.
Definition mon_ty (t : ty) (ob : option bound) (oopq : option (option bound)) (oser : option (list bound)) : bool :=
  mon_bound t ob &&
  match oopq with Some o => ob_eqb o ob | None => true end &&       (* written bound = computed bound *)
  match oser with
  | Some bs => list_eqb bound_eqb bs (map spec_bound (ser_exts t))
  | None => negb (wf_b t)
  end.
Definition mon_static (elem : ty) (acc : option bool) (ob : option bound) : bool :=
  match acc with
  | Some a => Bool.eqb a (copy_b elem) && (if a then ob_eqb ob (Some Copyable) else true)
  | None => negb (wf_b elem)
  end.
(* an entry of a history is judged by the type the objects denote at that moment, never by an earlier one *)
Definition mon_step (s : step) : bool :=
  match s with
  | STy t ob oopq oser => mon_ty t ob oopq oser
  | SStatic elem acc ob => mon_static elem acc ob
  end.
(* what an operation may change between the type handed in (prev) and the type handed back (t'), and what
   the returned object must report (spec/TypesSameS.v: same_b; nothing here refers to model/TypesSame.v):
   - copies: nothing changes;
   - resolve: opaque types may become extension types of the same extension and name, nothing else; if the
     registry knows none of the type's opaque types, nothing changes at all;
   - serialisation round trip: extension types come back as opaque types of the same extension and name; the
     returned type reports the bound of the ORIGINAL and a document written from it carries the original's bounds;
   in every case the returned object is judged like a freshly built type of the value it denotes. *)
Definition mon_rel (reg : registry) (op : sameop) (prev t' : ty) (ob : option bound) (oser : option (list bound)) : bool :=
  match op with
  | OCopy | ODeepcopy | OReplace => same_b Exact prev t'
  | OResolve => same_b Resolved prev t' && (negb (unknown_b reg prev) || same_b Exact prev t')
  | ORoundtrip => same_b Serial prev t' && mon_ty prev ob None oser
  end.
Fixpoint mon_chain (reg : registry) (prev : ty) (steps : list sstep) : bool :=
  match steps with
  | [] => true
  | SOp op res ob oopq oser :: r =>
      match res with
      | Some t' => mon_rel reg op prev t' ob oser && mon_ty t' ob oopq oser && mon_chain reg t' r
      | None =>       (* only writing an ill-formed type may raise *)
          match op with ORoundtrip => negb (wf_b prev) | _ => false end &&
          match r with [] => true | _ => false end
      end
  end.
Definition mon (c : case) : bool :=
  match c with
  | CTy t ob oopq oser => mon_ty t ob oopq oser
  | CStatic elem acc ob => mon_static elem acc ob
  | CJoin bs r => ob_eqb r (Some (if forallb (fun b => bound_eqb b Copyable) bs then Copyable else Any))
  | CSeq steps => forallb mon_step steps
  | CSame reg t ob oopq oser steps => mon_ty t ob oopq oser && mon_chain reg t steps
  end.
