(* Correspondence and monitor for C05, evaluated on cases written by harness/props/c05.py. *)
From Coq Require Import ZArith NArith List Bool Arith.
Import ListNotations.
From HV Require Export lib.Harness model.Types model.SerialTypes model.Codec spec.CodecS.

Definition obound_eqb := option_eqb bound_eqb.

Inductive case :=
(* a type built with the public constructors: raised?, walk of _to_serial_root(), walk of its deserialize(),
   walk of the decoded object's _to_serial_root(), type_bound() before / after, pydantic dump/validate identity *)
| CTy (t : ty) (raised : bool) (ser : sty) (deser : ty) (reser : sty) (b1 b2 : option bound) (json_ok : bool)
| CArg (a : tyarg) (raised : bool) (ser : starg) (deser : tyarg) (reser : starg) (json_ok : bool)
| CParam (p : typaram) (ser : stparam) (deser : typaram) (reser : stparam) (json_ok : bool)
(* a sugar object against the general Sum with the same rows: Python == (both directions, and of the
   bounds), encodings, bounds, variant_rows walk *)
| CSugar (s : sumsugar) (py_eq : bool) (ser_s ser_g : sty) (b_s b_g : option bound) (rows : list (list sty))
(* a foreign serial term (validated from JSON): deserialize(), re-encoding *)
| CSTy (s : sty) (deser : ty) (reser : sty).

Definition corr (c : case) : bool :=
  match c with
  | CTy t raised ser deser reser b1 b2 _ =>
      if ty_ok t then
        negb raised && sty_eqb ser (ty_to_serial t) && ty_eqb deser (ty_deserialize (ty_to_serial t)) &&
        sty_eqb reser (ty_to_serial (ty_deserialize (ty_to_serial t))) &&
        obound_eqb b1 (tbound t) && obound_eqb b2 (tbound (ty_deserialize (ty_to_serial t)))
      else raised
  | CArg a raised ser deser reser _ =>
      if targ_ok a then
        negb raised && starg_eqb ser (arg_to_serial a) && tyarg_eqb deser (arg_deserialize (arg_to_serial a)) &&
        starg_eqb reser (arg_to_serial (arg_deserialize (arg_to_serial a)))
      else raised
  | CParam p ser deser reser _ =>
      stparam_eqb ser (param_to_serial p) && typaram_eqb deser (param_deserialize (param_to_serial p)) &&
      stparam_eqb reser (param_to_serial (param_deserialize (param_to_serial p)))
  | CSugar s py_eq ser_s ser_g b_s b_g rows =>
      py_eq && sty_eqb ser_s (ty_to_serial (sugar_ty s)) && sty_eqb ser_g (ty_to_serial (TSum (sugar_rows s))) &&
      obound_eqb b_s (tbound (sugar_ty s)) && obound_eqb b_g (tbound (TSum (sugar_rows s))) &&
      list_eqb (list_eqb sty_eqb) rows (map (map ty_to_serial) (sugar_rows s))
  | CSTy s deser reser =>
      ty_eqb deser (ty_deserialize s) && sty_eqb reser (ty_to_serial (ty_deserialize s))
  end.

(* the specification evaluated on what the implementation did *)
Definition is_unitsum (s : sumsugar) : bool := match s with SgUnitSum _ => true | _ => false end.
Definition mon (c : case) : bool :=
  match c with
  | CTy t raised ser deser reser b1 b2 json_ok =>
      if ty_ok t then
        negb raised && json_ok &&
        sty_eqb reser ser &&                       (* encodes to the same document *)
        obound_eqb b2 b1 &&                        (* same derived fact *)
        opaque_form_b t deser                      (* attribute by attribute, extension types opaque *)
      else true
  | CArg a raised ser deser reser json_ok =>
      if targ_ok a then negb raised && json_ok && starg_eqb reser ser && opaque_form_a_b a deser else true
  | CParam p ser deser reser json_ok => json_ok && stparam_eqb reser ser && tp_eqb deser p
  | CSugar s py_eq ser_s ser_g b_s b_g rows =>
      py_eq && obound_eqb b_s b_g && (is_unitsum s || sty_eqb ser_s ser_g) &&
      sty_eqb (sty_canon ser_s) (sty_canon ser_g)
  | CSTy s deser reser => sty_eqb reser s
  end.
