(* Correspondence and monitor for C05, evaluated on cases written by harness/props/c05.py. *)
From Coq Require Import ZArith NArith List Bool Arith.
Import ListNotations.
From HV Require Export lib.Harness model.Types model.SerialTypes model.Codec spec.CodecS.

Definition obound_eqb := option_eqb bound_eqb.

Inductive tcase :=
(* a type built with the public constructors: raised?, walk of _to_serial_root(), walk of its deserialize(),
   walk of the decoded object's _to_serial_root(), type_bound() before / after, pydantic dump/validate identity *)
| CTy (t : ty) (raised : bool) (ser : sty) (deser : ty) (reser : sty) (b1 b2 : option bound) (json_ok : bool)
| CArg (a : tyarg) (raised : bool) (ser : starg) (deser : tyarg) (reser : starg) (json_ok : bool)
| CParam (p : typaram) (ser : stparam) (deser : typaram) (reser : stparam) (json_ok : bool)
(* a sugar object against the general Sum with the same rows: Python == (both directions, and of the
   bounds), encodings, bounds, variant_rows walk *)
| CSugar (s : sumsugar) (py_eq : bool) (ser_s ser_g : sty) (b_s b_g : option bound) (rows : list (list sty))
(* a foreign serial term (validated from JSON): deserialize(), re-encoding *)
| CSTy (s : sty) (deser : ty) (reser : sty).

Definition tcorr (c : tcase) : bool :=
  match c with
  | CTy t raised ser deser reser b1 b2 _ =>
      if ty_ok t then
        negb raised && sty_eqb ser (ty_to_serial t) && ty_eqb deser (ty_deserialize (ty_to_serial t)) &&
        sty_eqb reser (ty_to_serial (ty_deserialize (ty_to_serial t))) &&
        obound_eqb b1 (tbound t) && obound_eqb b2 (tbound (ty_deserialize (ty_to_serial t)))
      else raised
  | CArg a raised ser deser reser _ =>
      if targ_ok a then
        negb raised && starg_eqb ser (arg_to_serial a) && tyarg_eqb deser (arg_deserialize (arg_to_serial a)) &&
        starg_eqb reser (arg_to_serial (arg_deserialize (arg_to_serial a)))
      else raised
  | CParam p ser deser reser _ =>
      stparam_eqb ser (param_to_serial p) && typaram_eqb deser (param_deserialize (param_to_serial p)) &&
      stparam_eqb reser (param_to_serial (param_deserialize (param_to_serial p)))
  | CSugar s py_eq ser_s ser_g b_s b_g rows =>
      py_eq && sty_eqb ser_s (ty_to_serial (sugar_ty s)) && sty_eqb ser_g (ty_to_serial (TSum (sugar_rows s))) &&
      obound_eqb b_s (tbound (sugar_ty s)) && obound_eqb b_g (tbound (TSum (sugar_rows s))) &&
      list_eqb (list_eqb sty_eqb) rows (map (map ty_to_serial) (sugar_rows s))
  | CSTy s deser reser =>
      ty_eqb deser (ty_deserialize s) && sty_eqb reser (ty_to_serial (ty_deserialize s))
  end.

(* the specification evaluated on what the implementation did *)
Definition is_unitsum (s : sumsugar) : bool := match s with SgUnitSum _ => true | _ => false end.
Definition tmon (c : tcase) : bool :=
  match c with
  | CTy t raised ser deser reser b1 b2 json_ok =>
      if ty_ok t then
        negb raised && json_ok &&
        sty_eqb reser ser &&                       (* encodes to the same document *)
        obound_eqb b2 b1 &&                        (* same derived fact *)
        opaque_form_b t deser                      (* attribute by attribute, extension types opaque *)
      else true
  | CArg a raised ser deser reser json_ok =>
      if targ_ok a then negb raised && json_ok && starg_eqb reser ser && opaque_form_a_b a deser else true
  | CParam p ser deser reser json_ok => json_ok && stparam_eqb reser ser && tp_eqb deser p
  | CSugar s py_eq ser_s ser_g b_s b_g rows =>
      py_eq && obound_eqb b_s b_g && (is_unitsum s || sty_eqb ser_s ser_g) &&
      sty_eqb (sty_canon ser_s) (sty_canon ser_g)
  | CSTy s deser reser => sty_eqb reser s
  end.

(* ---------------------------------------------------------------------------------------------------
   values and operations.  The payload of a function-valued constant is represented on both layers by the
   interned canonical JSON of the embedded HUGR (its encoded form): encoder and decoder are the identity
   here; what loading and saving does to a whole document is the business of the document cases below. *)
From HV Require Export model.CodecVals model.CodecOps.
Definition HP := N.
Definition hp_type_tab := list (N * functype).          (* payload -> its root's inner signature, as observed *)
Definition value' := value HP.
Definition svalue' := svalue HP.
Definition op' := op HP.
Definition sop' := sop HP.
Definition hid (x : HP) : HP := x.
Definition hp_type (tab : hp_type_tab) (h : HP) : functype :=
  match find (fun p => N.eqb (fst p) h) tab with Some p => snd p | None => FT [] [] [] end.
Definition hp_ok (h : HP) : bool := true.
Definition v_ser := value_to_serial HP HP hid.
Definition v_des := value_deserialize HP HP hid.
Definition v_ok := value_ok HP hp_ok.
Definition v_eqb := value_eqb HP N.eqb.
Definition sv_eqb := svalue_eqb HP N.eqb.
Definition o_ser := op_to_serial HP HP hid.
Definition o_des := op_deserialize HP HP hid.
Definition o_eqb := op_eqb HP N.eqb.
Definition so_eqb := sop_eqb HP N.eqb.
(* every type written into the operation's encoding must itself be encodable ([ty_ok]: a definition-backed
   type whose arguments do not fit its definition makes `_to_serial` raise in `type_bound`) *)
Definition row_ok := forallb ty_ok.
Definition poly_ok (p : polytype) : bool := func_ok (pt_body p).
Definition op_tys_ok (o : op') : bool :=
  match o with
  | OFuncDefn _ i _ os => row_ok i && row_ok os
  | OFuncDecl _ sig => poly_ok sig
  | ODataflowBlock i s oo _ => row_ok i && ty_ok s && row_ok oo
  | OExitBlock os | OInput os | OOutput os => row_ok os
  | OCall sig inst ta | OLoadFunc sig inst ta => poly_ok sig && func_ok inst && forallb targ_ok ta
  | OCallIndirect sig => func_ok sig
  | OLoadConst t | OAliasDefn _ t => ty_ok t
  | ODFG i os _ | OCase i os | OCFG i os => row_ok i && row_ok os
  | OConditional s oi os => ty_ok s && row_ok oi && row_ok os
  | OTailLoop ji rest jo _ => row_ok ji && row_ok rest && row_ok jo
  | OCustom _ sig _ _ args => func_ok sig && forallb targ_ok args
  | OExtOp d sig args =>
      match sig with Some f => func_ok f | None => match od_poly d with Some p => poly_ok p | None => true end end &&
      forallb targ_ok args
  | OTag _ s => ty_ok s
  | _ => true
  end.
Definition o_ok (o : op') : bool :=
  op_ok HP hp_ok o && op_tys_ok o &&
  match o with OCall s i a | OLoadFunc s i a => call_wf s i a | _ => true end.

(* attribute-by-attribute comparison of a decoded value / operation with the original, extension types in
   opaque form (spec side: uses opaque_form_b of spec/CodecS.v, not the model's normal form) *)
Definition rows_of_b (l m : list ty) : bool := list_eqb opaque_form_b l m.
Fixpoint value_same_b (a b : value') : bool :=
  let fix go (l m : list value') : bool :=
    match l, m with [], [] => true | p :: r, q :: s => value_same_b p q && go r s | _, _ => false end in
  match a, b with
  | VSum t x l, VSum t' y m => N.eqb t t' && opaque_form_b x y && go l m
  | VTuple l, VTuple m => go l m
  | VFunction h, VFunction h' => N.eqb h h'
  | VExtension n t p e, VExtension n' t' p' e' => N.eqb n n' && opaque_form_b t t' && N.eqb p p' && names_eqb e e'
  | _, _ => false
  end.
Definition func_same_b (a b : functype) : bool :=
  rows_of_b (ft_in a) (ft_in b) && rows_of_b (ft_out a) (ft_out b) && names_eqb (ft_reqs a) (ft_reqs b).
Definition poly_same_b (a b : polytype) : bool :=
  list_eqb tp_eqb (pt_params a) (pt_params b) && func_same_b (pt_body a) (pt_body b).
Definition args_same_b := list_eqb opaque_form_a_b.
(* a sum-typed attribute comes back as the general Sum over the same rows *)
Definition sum_same_b (s u : ty) : bool :=
  match variant_rows s, u with
  | Some r, TSum r' => list_eqb rows_of_b r r'
  | _, _ => false
  end.
Definition op_same_b (a b : op') : bool :=
  match a, b with
  | OModule, OModule => true
  | OFuncDefn n i ps o, OFuncDefn n' i' ps' o' => N.eqb n n' && rows_of_b i i' && list_eqb tp_eqb ps ps' && rows_of_b o o'
  | OFuncDecl n s, OFuncDecl n' s' => N.eqb n n' && poly_same_b s s'
  | OConst v, OConst v' => value_same_b v v'
  | ODataflowBlock i s o d, ODataflowBlock i' s' o' d' => rows_of_b i i' && sum_same_b s s' && rows_of_b o o' && names_eqb d d'
  | OExitBlock o, OExitBlock o' | OInput o, OInput o' | OOutput o, OOutput o' => rows_of_b o o'
  | OCall s i a, OCall s' i' a' | OLoadFunc s i a, OLoadFunc s' i' a' => poly_same_b s s' && func_same_b i i' && args_same_b a a'
  | OCallIndirect s, OCallIndirect s' => func_same_b s s'
  | OLoadConst t, OLoadConst t' => opaque_form_b t t'
  | ODFG i o d, ODFG i' o' d' => rows_of_b i i' && rows_of_b o o' && names_eqb d d'
  | OConditional s i o, OConditional s' i' o' => sum_same_b s s' && rows_of_b i i' && rows_of_b o o'
  | OCase i o, OCase i' o' | OCFG i o, OCFG i' o' => rows_of_b i i' && rows_of_b o o'
  | OTailLoop a b c d, OTailLoop a' b' c' d' => rows_of_b a a' && rows_of_b b b' && rows_of_b c c' && names_eqb d d'
  | OCustom n s d e a, OCustom n' s' d' e' a' => N.eqb n n' && func_same_b s s' && N.eqb d d' && N.eqb e e' && args_same_b a a'
  (* an extension operation comes back opaque: same extension, name, signature, type arguments, description *)
  | OExtOp df s a, OCustom n' s' d' e' a' =>
      N.eqb (od_name df) n' && N.eqb (od_descr df) d' && N.eqb (od_ext df) e' && args_same_b a a' &&
      match extop_sig df s with Some f => func_same_b f s' | None => false end
  | OTag t s, OTag t' s' => N.eqb t t' && sum_same_b s s'
  | OAliasDecl n b, OAliasDecl n' b' => N.eqb n n' && bound_eqb b b'
  | OAliasDefn n t, OAliasDefn n' t' => N.eqb n n' && opaque_form_b t t'
  | _, _ => false
  end.

(* observed derived facts: signature rows walked as serial types, compared up to Python equality *)
Definition canon_sig (o : option (list sty * list sty)) := option_map (fun p => (map sty_canon (fst p), map sty_canon (snd p))) o.
Definition ofacts := facts.
Definition facts_canon (f : facts) : facts :=
  {| f_outer := canon_sig (f_outer f); f_inner := canon_sig (f_inner f); f_num_out := f_num_out f;
     f_static := option_map sty_canon (f_static f) |}.

(* LoadFunc.num_out is, in the code as it stands, not an int (a dataclasses.Field left in a class that is not a
   dataclass; C06's business): the correspondence does not pin it either way, the monitor still demands that
   original and decoded operation agree on it *)
Definition mask_num_out (o : op') (f : facts) : facts := f.   (* LoadFunc.num_out is 1 since fix 11b9f10: nothing masked *)

Inductive vocase :=
(* a value: input, type table of the function payloads, raised?, walk of _to_serial_root(), decoded object,
   its re-encoding, type_() of original and decoded (walked as serial types), bounds, JSON identity *)
| CVal (tab : hp_type_tab) (v : value') (raised : bool) (ser : svalue') (deser : value') (reser : svalue')
       (ty1 ty2 : sty) (b1 b2 : option bound) (json_ok : bool)
(* sugar value against the general form: Python ==, encodings, types, bounds *)
| CValSugar (tab : hp_type_tab) (s : valsugar HP) (py_eq : bool) (ser_s ser_g : svalue') (ty_s ty_g : sty) (b_s b_g : option bound)
(* an operation: input, raised?, encoding (parent 7), decoded object, re-encoding, facts of original and
   decoded (num_out, signatures, static port type), port kinds of both as interned descriptions .
   Also used for the harness case kind "hop": the operation sits on the child node of a module that goes through
   the JSON text path Hugr.to_json -> Hugr.load_json; then deser / reser / f2 / kinds2 are taken from the operation
   found on the loaded node, raised also covers to_json / load_json raising, and json_ok says that the written
   document holds the encoding ser, that the loaded HUGR writes the same document and kept the node's metadata.
   Variant "wire" of that kind: a dataflow operation sits between Input and Output of a DFG built through the public
   API, a value link on every value port and a state-order link on BOTH sides of its node; json_ok then also says that
   the HUGR read back has exactly the links of the HUGR written, between the same ports, the state-order links as
   state-order links (Hugr.links / outgoing_order_links / incoming_order_links).
   Cases with an iteration mode ("it"): [o] (and [v], [t], [a] of CVal / CTy / CArg) is the term as requested from the
   constructor -- the walk of the object built with every `Iterable`-typed constructor argument given as a list --,
   everything observed comes from the object built with those arguments handed over as a generator / iterator / map
   object / tuple / re-iterable non-sequence; raised also covers that constructor raising. *)
| COp (tab : hp_type_tab) (o : op') (raised : bool) (ser : sop') (deser : op') (reser : sop') (f1 f2 : facts)
      (kinds1 kinds2 : list N) (json_ok : bool)
(* a sugar tag operation against ops.Tag with the same tag and sum: encodings, facts *)
| CTagSugar (s : tagsugar) (ser_s ser_g : sop') (f_s f_g : facts) (is_tag : bool)
(* a foreign serial operation: decoded object, re-encoding *)
| CSOp (s : sop') (deser : op') (reser : sop').

Definition vcorr (c : vocase) : bool :=
  match c with
  | CVal tab v raised ser deser reser ty1 ty2 b1 b2 _ =>
      if v_ok v then
        negb raised && sv_eqb ser (v_ser v) && v_eqb deser (v_des (v_ser v)) && sv_eqb reser (v_ser (v_des (v_ser v))) &&
        sty_eqb ty1 (ty_to_serial (type_of HP (hp_type tab) v)) &&
        sty_eqb ty2 (ty_to_serial (type_of HP (hp_type tab) (v_des (v_ser v)))) &&
        obound_eqb b1 (tbound (type_of HP (hp_type tab) v)) && obound_eqb b2 (tbound (type_of HP (hp_type tab) (v_des (v_ser v))))
      else raised
  | CValSugar tab s py_eq ser_s ser_g ty_s ty_g b_s b_g =>
      let sv := sugar_val HP (hp_type tab) s in let gv := general_val HP (hp_type tab) s in
      py_eq && sv_eqb ser_s (v_ser sv) && sv_eqb ser_g (v_ser gv) &&
      sty_eqb ty_s (ty_to_serial (type_of HP (hp_type tab) sv)) && sty_eqb ty_g (ty_to_serial (type_of HP (hp_type tab) gv)) &&
      obound_eqb b_s (tbound (type_of HP (hp_type tab) sv)) && obound_eqb b_g (tbound (type_of HP (hp_type tab) gv))
  | COp tab o raised ser deser reser f1 f2 _ _ _ =>
      if o_ok o then
        negb raised && so_eqb ser (o_ser o 7%N) && o_eqb deser (o_des (o_ser o 7%N)) &&
        so_eqb reser (o_ser (o_des (o_ser o 7%N)) 7%N) &&
        facts_eqb (mask_num_out o (facts_canon f1)) (mask_num_out o (op_facts HP (hp_type tab) o)) &&
        facts_eqb (mask_num_out o (facts_canon f2)) (mask_num_out o (op_facts HP (hp_type tab) (o_des (o_ser o 7%N))))
      else raised
  | CTagSugar s ser_s ser_g f_s f_g is_tag =>
      is_tag && so_eqb ser_s (o_ser (sugar_tag HP s) 7%N) && so_eqb ser_g ser_s &&
      facts_eqb (facts_canon f_s) (op_facts HP (hp_type []) (sugar_tag HP s)) && facts_eqb (facts_canon f_g) (facts_canon f_s)
  | CSOp s deser reser => o_eqb deser (o_des s) && so_eqb reser (o_ser (o_des s) (sop_parent HP s))
  end.

Definition vmon (c : vocase) : bool :=
  match c with
  | CVal tab v raised ser deser reser ty1 ty2 b1 b2 json_ok =>
      if v_ok v then
        negb raised && json_ok && sv_eqb reser ser && sty_eqb ty2 ty1 && obound_eqb b2 b1 && value_same_b v deser
      else true
  | CValSugar tab s py_eq ser_s ser_g ty_s ty_g b_s b_g =>
      py_eq && obound_eqb b_s b_g && sty_eqb (sty_canon ty_s) (sty_canon ty_g) &&
      match s with VgUnitSum _ _ | VgTuple _ => true | _ => sv_eqb ser_s ser_g end
  | COp tab o raised ser deser reser f1 f2 k1 k2 json_ok =>
      if o_ok o then
        negb raised && json_ok && so_eqb reser ser && facts_eqb (facts_canon f2) (facts_canon f1) &&
        list_eqb N.eqb k2 k1 && op_same_b o deser
      else true
  | CTagSugar s ser_s ser_g f_s f_g is_tag => is_tag && so_eqb ser_g ser_s && facts_eqb (facts_canon f_g) (facts_canon f_s)
  | CSOp s deser reser => so_eqb reser (sop_norm HP s)
  end.

(* ---------------------------------------------------------------------------------------------------
   whole documents that were not produced by this library: load, re-save *)
From HV Require Export model.CodecDoc.
Definition sdoc' := sdoc HP.
Definition d_load := from_serial HP HP hid (hp_type []).
Definition d_save := to_serial HP HP hid (hp_type []).
Definition d_norm := sdoc_norm HP HP hid (hp_type []) (sop_norm HP).
Definition d_eqb := sdoc_eqb HP N.eqb.
(* The property promises every node, every edge and all metadata of the document, not the place of an edge in the
   `edges` array (the format gives that place no meaning, and the text says "every edge", a statement about the
   collection).  Documents are therefore compared with [sdoc_sameb]: nodes and metadata position by position -- a node
   of a document IS its index: parents, edges and metadata refer to it and the order of the children of a node is
   index order; which index a node has after loading / saving is fixed by C02 / C03, C05 adds nothing to it -- and
   the edge lists as MULTISETS ([perm_eqb]: an edge lost, duplicated, invented or moved to other ports / nodes still
   fails).  props/C05.v: [C05_doc_monitor_sound] says what a passing clause means, [C05_reserial_preserves_any_order]
   that every implementation listing the links in any order passes, [C05_doc_positional_implies_multiset] that nothing
   accepted before is rejected now.  Embedded documents (function constants) are interned by the harness from a
   canonical form with the edge list sorted, for the same reason. *)
Definition d_same := sdoc_sameb HP N.eqb.
Inductive dcase :=
(* input document (walk of the validated SerialHugr), load raised?, walk of the re-saved document, and the
   public-API check that every edge written without a source offset is an order link of the loaded HUGR *)
| CDoc (s : sdoc') (raised : bool) (reser : sdoc') (order_links_ok : bool).
Definition dcorr (c : dcase) : bool :=
  match c with CDoc s raised reser _ => negb raised && d_same reser (d_save (d_load s)) end.
Definition dmon (c : dcase) : bool :=
  match c with
  | CDoc s raised reser ok =>
      if edges_wf HP HP hid (hp_type []) s then negb raised && ok && d_same reser (d_norm s) &&
         Nat.eqb (length (sd_edges HP reser)) (length (sd_edges HP s))
      else true
  end.

Inductive case := KT (c : tcase) | KV (c : vocase) | KD (c : dcase).
Definition corr (c : case) : bool := match c with KT x => tcorr x | KV x => vcorr x | KD x => dcorr x end.
Definition mon (c : case) : bool := match c with KT x => tmon x | KV x => vmon x | KD x => dmon x end.
