(* Correspondence and monitor for C10, evaluated on cases written by harness/props/c10.py.
   Payloads (type expressions, constant values, misc values) are JSON trees; the codec is the
   identity: what is compared is hugr-py's own serial form of them before and after. *)
From Coq Require Import NArith ZArith List Bool Arith.
Import ListNotations.
From HV Require Export lib.PyDict lib.Harness model.Types model.ExtDefs spec.ExtDefsS gen.StdExt.

(* ---- short constructors for the literals ---- *)
Definition mkT (n d : name) (ps : list typaram) (b : defbound) : jcmd :=
  AddType {| atd_owner := None; atd_name := n; atd_descr := d; atd_params := ps; atd_bound := b |}.
Definition mkPoly (ps : list typaram) (i o : list json) (r : list name) : polyfunc json :=
  {| pf_params := ps; pf_input := i; pf_output := o; pf_reqs := r |}.
Definition mkO (n d : name) (misc : list (name * json)) (sg : option (polyfunc json)) (binary : bool) : jcmd :=
  AddOp {| aod_owner := None; aod_name := n; aod_sig := {| sig_poly := sg; sig_binary := binary |};
           aod_descr := d; aod_misc := misc |}.
Definition mkV (n : name) (v : json) : jcmd := AddValue {| av_owner := None; av_name := n; av_val := v |}.

(* an observed result: a document, one of the modelled exception classes, or anything else *)
Inductive ores := OOk (s : jext) | OErr (e : err) | OOther.
Definition err_eqb (a b : err) : bool :=
  match a, b with
  | NoParentExtension, NoParentExtension | AssertionError, AssertionError | ValueError, ValueError => true
  | _, _ => false
  end.
Definition jext_eqb : jext -> jext -> bool := sext_eqb json_eqb json_eqb json_eqb.
Definition ores_eqb (o : ores) (r : res jext) : bool :=
  match o, r with
  | OOk a, Ok b => jext_eqb a b
  | OErr a, Err b => err_eqb a b
  | _, _ => false
  end.

(* per operation held by an API-level extension: key, `op.get_extension() is e`, the requirement set
   of its signature (None: no signature) *)
Definition owner_obs := list (name * bool * option (list name)).
Definition oo_eqb : owner_obs -> owner_obs -> bool :=
  list_eqb (pair_eqb (pair_eqb N.eqb Bool.eqb) (option_eqb (list_eqb N.eqb))).
Definition held_obs := list (name * option nat * option (list name)).
Definition ho_eqb : held_obs -> held_obs -> bool :=
  list_eqb (pair_eqb (pair_eqb N.eqb (option_eqb Nat.eqb)) (option_eqb (list_eqb N.eqb))).
(* name, version and requirement set of an API-level extension *)
Definition api_obs := (name * version * list name)%type.

Inductive case :=
(* an extension built through the public API, serialised, loaded back, serialised again *)
| CHist (n : name) (v : version) (reqs : list name) (cmds : list jcmd)
        (before after : ores) (own1 own2 : owner_obs) (api2 : option api_obs)
(* a document loaded (r1), written, loaded and written again (r2) *)
| CDoc (must_load : bool) (doc : jext) (r1 r2 : ores) (own1 : owner_obs)
(* several extensions (distinct names) and definition objects added to them, possibly the same object to
   several extensions; per extension: document, document after a round trip, owners *)
| CShared (hdrs : list (name * version * list name)) (objs : list jcmd) (prog : list (nat * nat))
          (obs : list (ores * ores * owner_obs))
(* the same with object identity: the Extension objects may carry the SAME name; per Extension object:
   document, document after a round trip, and per operation it holds (key, index of the Extension object
   that `get_extension()` returns, None if it is none of them or raises; requirement set) *)
| CWorld (hdrs : list (name * version * list name)) (objs : list jcmd) (prog : list (nat * nat))
         (obs : list (ores * ores * held_obs)).

(* ---- model side ---- *)
Definition m_to_serial : extension json json json -> res jext := to_serial jid jid.
Definition m_deserialize : jext -> res (extension json json json) := deserialize jid jid.
Definition m_reload : jext -> res jext := reload jid jid jid jid.
Definition m_owners (e : extension json json json) : owner_obs :=
  map (fun ko : name * aopdef json json =>
         (fst ko, option_eqb N.eqb (aod_owner (snd ko)) (Some (e_name e)),
          option_map (@pf_reqs json) (sig_poly (aod_sig (snd ko))))) (e_ops e).
Definition m_api (e : extension json json json) : api_obs := (e_name e, e_version e, e_reqs e).
Definition api_eqb (a b : api_obs) : bool :=
  N.eqb (fst (fst a)) (fst (fst b)) && version_eqb (snd (fst a)) (snd (fst b)) &&
  list_eqb N.eqb (snd a) (snd b).

Definition obj_of_cmd (c : jcmd) : obj json json json :=
  match c with AddType t => OType t | AddOp d => OOp d | AddValue v => OValue v end.
Definition m_world (hdrs : list (name * version * list name)) (objs : list jcmd) (prog : list (nat * nat)) :=
  share_run {| w_exts := map (fun h => new_ext (fst (fst h)) (snd (fst h)) (snd h)) hdrs;
               w_objs := map obj_of_cmd objs |} prog.

Definition corr (c : case) : bool :=
  match c with
  | CHist n v reqs cmds before after own1 own2 api2 =>
      let e := build (new_ext n v reqs) cmds in
      let s := m_to_serial e in
      ores_eqb before s && ores_eqb after (bind s m_reload) && oo_eqb own1 (m_owners e) &&
      match bind s m_deserialize with
      | Ok e2 => oo_eqb own2 (m_owners e2) && option_eqb api_eqb api2 (Some (m_api e2))
      | Err _ => match api2 with None => true | Some _ => false end
      end
  | CShared hdrs objs prog obs =>
      let w := m_world hdrs objs prog in
      Nat.eqb (length obs) (length (w_exts w)) &&
      forallb (fun oe : (ores * ores * owner_obs) * extension json json json =>
                 let s := m_to_serial (snd oe) in
                 ores_eqb (fst (fst (fst oe))) s && ores_eqb (snd (fst (fst oe))) (bind s m_reload) &&
                 oo_eqb (snd (fst oe)) (m_owners (snd oe)))
              (combine obs (w_exts w))
  | CWorld hdrs objs prog obs =>
      (* the heap model (identity) and, for the documents, the value model as well *)
      let w := hrun (new_heapw hdrs (map obj_of_cmd objs)) prog in
      let vw := m_world hdrs objs prog in
      Nat.eqb (length obs) (length (hw_exts w)) && Nat.eqb (length obs) (length (w_exts vw)) &&
      forallb (fun ox : (ores * ores * held_obs) * (rext * extension json json json) =>
                 let s := m_to_serial (view (hw_heap w) (fst (snd ox))) in
                 ores_eqb (fst (fst (fst ox))) s && ores_eqb (snd (fst (fst ox))) (bind s m_reload) &&
                 ores_eqb (fst (fst (fst ox))) (m_to_serial (snd (snd ox))) &&
                 ho_eqb (snd (fst ox)) (held_owners (hw_heap w) (fst (snd ox))))
              (combine obs (combine (hw_exts w) (w_exts vw)))
  | CDoc _ doc r1 r2 own1 =>
      ores_eqb r1 (m_reload doc) && ores_eqb r2 (bind (m_reload doc) m_reload) &&
      match m_deserialize doc with
      | Ok e => oo_eqb own1 (m_owners e)
      | Err _ => match own1 with [] => true | _ => false end
      end
  end.

(* ---- monitor: the specification on the implementation's observations ---- *)
Definition owners_ok (n : name) (o : owner_obs) : bool :=
  forallb (fun x : name * bool * option (list name) =>
    snd (fst x) && match snd x with Some rs => mem N.eqb n rs | None => true end) o.
Definition ores_same (a b : ores) : bool :=
  match a, b with OOk x, OOk y => jext_eqb x y | _, _ => false end.
Definition ores_owner (a : ores) : bool :=
  match a with OOk x => s_names_owner_b x && s_defs_owner_b x | _ => false end.

(* what loading a foreign document must keep (written without the model): everything, except that
   owner fields become the extension's name, the owner joins each signature's requirement set, an
   absent misc dictionary is written as {}, and requirement sets are sets *)
Definition op_kept (n : name) (a b : sopdef json json) : bool :=
  N.eqb (so_name a) (so_name b) && N.eqb (so_descr a) (so_descr b) &&
  misc_eqb json_eqb (match so_misc a with Some m => m | None => [] end)
                    (match so_misc b with Some m => m | None => [] end) &&
  match so_misc b with Some _ => true | None => false end &&
  Bool.eqb (so_binary a) (so_binary b) && N.eqb (so_extension b) n &&
  match so_signature a, so_signature b with
  | None, None => true
  | Some p, Some q =>
      list_eqb sparam_eqb (sp_params p) (sp_params q) &&
      list_eqb json_eqb (sf_input (sp_body p)) (sf_input (sp_body q)) &&
      list_eqb json_eqb (sf_output (sp_body p)) (sf_output (sp_body q)) &&
      seteq_b N.eqb (n :: sf_reqs (sp_body p)) (sf_reqs (sp_body q)) && nodupb N.eqb (sf_reqs (sp_body q))
  | _, _ => false
  end.
Definition doc_kept (a b : jext) : bool :=
  version_eqb (se_version a) (se_version b) && N.eqb (se_name a) (se_name b) &&
  seteq_b N.eqb (se_reqs a) (se_reqs b) && nodupb N.eqb (se_reqs b) &&
  list_eqb (fun x y : name * stypedef =>
              N.eqb (fst x) (fst y) && N.eqb (std_extension (snd y)) (se_name a) &&
              N.eqb (std_name (snd x)) (std_name (snd y)) && N.eqb (std_descr (snd x)) (std_descr (snd y)) &&
              list_eqb sparam_eqb (std_params (snd x)) (std_params (snd y)) &&
              sbound_eqb (std_bound (snd x)) (std_bound (snd y))) (se_types a) (se_types b) &&
  list_eqb (fun x y : name * svalue json =>
              N.eqb (fst x) (fst y) && N.eqb (sv_extension (snd y)) (se_name a) &&
              N.eqb (sv_name (snd x)) (sv_name (snd y)) &&
              json_eqb (sv_typed_value (snd x)) (sv_typed_value (snd y))) (se_values a) (se_values b) &&
  list_eqb (fun x y : name * sopdef json json =>
              N.eqb (fst x) (fst y) && op_kept (se_name a) (snd x) (snd y)) (se_ops a) (se_ops b).
(* when a document is refused: a key differs from the name of its entry, or an operation has neither
   a signature nor the binary flag *)
Definition doc_loadable (s : jext) : bool :=
  forallb (fun x : name * stypedef => N.eqb (fst x) (std_name (snd x))) (se_types s) &&
  forallb (fun x : name * svalue json => N.eqb (fst x) (sv_name (snd x))) (se_values s) &&
  forallb (fun x : name * sopdef json json =>
             N.eqb (fst x) (so_name (snd x)) &&
             match so_signature (snd x) with Some _ => true | None => so_binary (snd x) end) (se_ops s).

(* what the document of a history-built extension must say, read off the commands without the model:
   per kind, the keys are the definition names in order of first addition and each entry shows the
   definition LAST added under that name; operations additionally list the extension among their
   requirements; every entry carries the extension's name *)
Definition last_of {A} (nm : A -> name) (k : name) (l : list A) : option A :=
  fold_left (fun acc x => if N.eqb (nm x) k then Some x else acc) l None.
Definition first_keys (l : list name) : list name :=
  rev (fold_left (fun acc k => if mem N.eqb k acc then acc else k :: acc) l []).
Definition tcmds (cs : list jcmd) := flat_map (fun c : jcmd => match c with AddType t => [t] | _ => [] end) cs.
Definition ocmds (cs : list jcmd) := flat_map (fun c : jcmd => match c with AddOp d => [d] | _ => [] end) cs.
Definition vcmds (cs : list jcmd) := flat_map (fun c : jcmd => match c with AddValue v => [v] | _ => [] end) cs.
Definition hist_doc_ok (n : name) (cs : list jcmd) (s : jext) : bool :=
  list_eqb N.eqb (map fst (se_types s)) (first_keys (map atd_name (tcmds cs))) &&
  forallb (fun kt : name * stypedef =>
    match last_of atd_name (fst kt) (tcmds cs) with
    | Some t => N.eqb (std_name (snd kt)) (fst kt) && N.eqb (std_descr (snd kt)) (atd_descr t) &&
                list_eqb sparam_eqb (std_params (snd kt)) (map param_ser (atd_params t)) &&
                sbound_eqb (std_bound (snd kt)) (bound_ser (atd_bound t)) && N.eqb (std_extension (snd kt)) n
    | None => false
    end) (se_types s) &&
  list_eqb N.eqb (map fst (se_values s)) (first_keys (map (@av_name json) (vcmds cs))) &&
  forallb (fun kv : name * svalue json =>
    match last_of (@av_name json) (fst kv) (vcmds cs) with
    | Some v => N.eqb (sv_name (snd kv)) (fst kv) && json_eqb (sv_typed_value (snd kv)) (av_val v) &&
                N.eqb (sv_extension (snd kv)) n
    | None => false
    end) (se_values s) &&
  list_eqb N.eqb (map fst (se_ops s)) (first_keys (map (@aod_name json json) (ocmds cs))) &&
  forallb (fun ko : name * sopdef json json =>
    match last_of (@aod_name json json) (fst ko) (ocmds cs) with
    | Some d => N.eqb (so_name (snd ko)) (fst ko) && N.eqb (so_descr (snd ko)) (aod_descr d) &&
                option_eqb (misc_eqb json_eqb) (so_misc (snd ko)) (Some (aod_misc d)) &&
                Bool.eqb (so_binary (snd ko)) (sig_binary (aod_sig d)) && N.eqb (so_extension (snd ko)) n &&
                match so_signature (snd ko), sig_poly (aod_sig d) with
                | None, None => true
                | Some q, Some p =>
                    list_eqb sparam_eqb (sp_params q) (map param_ser (pf_params p)) &&
                    list_eqb json_eqb (sf_input (sp_body q)) (pf_input p) &&
                    list_eqb json_eqb (sf_output (sp_body q)) (pf_output p) &&
                    seteq_b N.eqb (sf_reqs (sp_body q)) (n :: pf_reqs p) && nodupb N.eqb (sf_reqs (sp_body q))
                | _, _ => false
                end
    | None => false
    end) (se_ops s).

Definition mon (c : case) : bool :=
  match c with
  | CHist n v reqs cmds before after own1 own2 api2 =>
      ores_same before after && ores_owner before &&
      owners_ok n own1 && owners_ok n own2 &&
      match api2 with
      | Some (n2, v2, r2) => N.eqb n2 n && version_eqb v2 v && seteq_b N.eqb r2 reqs
      | None => false
      end &&
      match before with OOk s => N.eqb (se_name s) n && version_eqb (se_version s) v &&
                                 seteq_b N.eqb (se_reqs s) reqs && nodupb N.eqb (se_reqs s) &&
                                 hist_doc_ok n cmds s
                   | _ => false end
  | CShared hdrs objs prog obs =>
      Nat.eqb (length obs) (length hdrs) &&
      forallb (fun oh : (ores * ores * owner_obs) * (name * version * list name) =>
                 let '(before, after, own) := fst oh in
                 let n := fst (fst (snd oh)) in
                 ores_same before after && ores_owner before && owners_ok n own &&
                 match before with OOk s => N.eqb (se_name s) n | _ => false end)
              (combine obs hdrs)
  | CWorld hdrs objs prog obs =>
      Nat.eqb (length obs) (length hdrs) &&
      forallb (fun ioh : nat * ((ores * ores * held_obs) * (name * version * list name)) =>
                 let '(before, after, own) := fst (snd ioh) in
                 let '(n, v, reqs) := snd (snd ioh) in
                 ores_same before after && ores_owner before && held_obs_ok (fst ioh) n own &&
                 match before with
                 | OOk s => N.eqb (se_name s) n && version_eqb (se_version s) v &&
                            seteq_b N.eqb (se_reqs s) reqs && nodupb N.eqb (se_reqs s)
                 | _ => false
                 end)
              (combine (seq 0 (length hdrs)) (combine obs hdrs))
  | CDoc must_load doc r1 r2 own1 =>
      match r1 with
      | OOk s => doc_loadable doc && doc_kept doc s && s_names_owner_b s && ores_same r1 r2 &&
                 owners_ok (se_name doc) own1
      | OErr _ => negb must_load && negb (doc_loadable doc)
      | OOther => false
      end
  end.

(* ---- helper rows (extra check): evaluated one by one so that a failing helper is named ---- *)
Definition hok (h : helper) : bool := helper_ok (map snd std_docs) h.
Definition std_doc_loads (d : path * jext) : bool :=
  match m_deserialize (snd d) with Ok _ => true | Err _ => false end.
