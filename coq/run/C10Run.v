(* Correspondence and monitor for C10, evaluated on cases written by harness/props/c10.py.
   Payloads (type expressions, constant values, misc values) are JSON trees; the codec is the
   identity: what is compared is hugr-py's own serial form of them before and after. *)
From Coq Require Import NArith ZArith List Bool Arith.
Import ListNotations.
From HV Require Export lib.PyDict lib.Harness model.Types model.ExtDefs spec.ExtDefsS gen.StdExt.

(* ---- short constructors for the literals ---- *)
Definition mkT (n d : name) (ps : list typaram) (b : defbound) : jcmd :=
  AddType {| atd_owner := None; atd_name := n; atd_descr := d; atd_params := ps; atd_bound := b |}.
Definition mkPoly (ps : list typaram) (i o : list json) (r : list name) : polyfunc json :=
  {| pf_params := ps; pf_input := i; pf_output := o; pf_reqs := r |}.
Definition mkO (n d : name) (misc : list (name * json)) (sg : option (polyfunc json)) (binary : bool) : jcmd :=
  AddOp {| aod_owner := None; aod_name := n; aod_sig := {| sig_poly := sg; sig_binary := binary |};
           aod_descr := d; aod_misc := misc |}.
Definition mkV (n : name) (v : json) : jcmd := AddValue {| av_owner := None; av_name := n; av_val := v |}.

(* an observed result: a document, or an exception.  The CLASS of an exception is never compared: where the
   property applies the implementation must not raise at all, and outside the property's domain (documents that
   are not the serialisation of an extension) the class is unspecified. *)
Inductive ores := OOk (s : jext) | ORaised.

(* ---- equality of documents up to what the property does not promise ----
   JSON objects are unordered maps (DESIGN 2.2): the three dictionaries and every misc dictionary compare as
   multisets of entries (keys are unique); an absent/null misc is the empty dictionary; requirement lists are
   SETS written as arrays: `req_eq` decides how two of them compare (as multisets when two documents of the
   implementation are compared with each other -- a requirement list that grows on reload is then seen --, as
   sets when a document is compared with the model, whose sets are duplicate-free by construction). *)
Definition omisc (m : option (list (name * json))) : list (name * json) :=
  match m with Some l => l | None => [] end.
Definition misc_sim : list (name * json) -> list (name * json) -> bool := perm_eqb (pair_eqb N.eqb json_eqb).
Section Sim.
  Variable req_eq : list name -> list name -> bool.
  Definition spoly_sim (p q : spoly json) : bool :=
    list_eqb sparam_eqb (sp_params p) (sp_params q) &&
    list_eqb json_eqb (sf_input (sp_body p)) (sf_input (sp_body q)) &&
    list_eqb json_eqb (sf_output (sp_body p)) (sf_output (sp_body q)) &&
    req_eq (sf_reqs (sp_body p)) (sf_reqs (sp_body q)).
  Definition sopdef_sim (a b : sopdef json json) : bool :=
    N.eqb (so_extension a) (so_extension b) && N.eqb (so_name a) (so_name b) &&
    N.eqb (so_descr a) (so_descr b) && misc_sim (omisc (so_misc a)) (omisc (so_misc b)) &&
    option_eqb spoly_sim (so_signature a) (so_signature b) && Bool.eqb (so_binary a) (so_binary b).
  Definition sext_sim (a b : jext) : bool :=
    version_eqb (se_version a) (se_version b) && N.eqb (se_name a) (se_name b) &&
    req_eq (se_reqs a) (se_reqs b) &&
    perm_eqb (pair_eqb N.eqb stypedef_eqb) (se_types a) (se_types b) &&
    perm_eqb (pair_eqb N.eqb (svalue_eqb json_eqb)) (se_values a) (se_values b) &&
    perm_eqb (pair_eqb N.eqb sopdef_sim) (se_ops a) (se_ops b).
End Sim.
Definition set_eq : list name -> list name -> bool := seteq_b N.eqb.
Definition doc_same : jext -> jext -> bool := sext_sim (perm_eqb N.eqb).     (* implementation vs implementation *)
Definition doc_corr : jext -> jext -> bool := sext_sim set_eq.               (* implementation vs model *)
(* observation against the model: where both fail the classes are not compared (the monitor rejects a failure
   inside the property's domain whatever its class) *)
Definition ores_eqb (o : ores) (r : res jext) : bool :=
  match o, r with
  | OOk a, Ok b => doc_corr a b
  | ORaised, Err _ => true
  | _, _ => false
  end.

(* per operation held by an API-level extension: key, `op.get_extension() is e`, the requirement set
   of its signature (None: no signature).  Compared as a map from keys (no order), requirements as sets. *)
Definition owner_obs := list (name * bool * option (list name)).
Definition oo_eqb : owner_obs -> owner_obs -> bool :=
  perm_eqb (pair_eqb (pair_eqb N.eqb Bool.eqb) (option_eqb set_eq)).
Definition held_obs := list (name * option nat * option (list name)).
Definition ho_eqb : held_obs -> held_obs -> bool :=
  perm_eqb (pair_eqb (pair_eqb N.eqb (option_eqb Nat.eqb)) (option_eqb set_eq)).
(* name, version and requirement set of an API-level extension *)
Definition api_obs := (name * version * list name)%type.

(* one observation point of a history that is observed several times (seeded round 4): the commands run since the
   previous point, whether the session goes on with the LOADED object, and the same observations as for CHist *)
Record seg := mkSeg { sg_cmds : list jcmd; sg_reload : bool; sg_before : ores; sg_after : ores;
                      sg_own1 : owner_obs; sg_own2 : owner_obs; sg_api2 : option api_obs;
                      (* the Extension OBJECT (built / loaded) read through its public attributes and put into the
                         shape of a document by the harness, before anything is written at this point *)
                      sg_view1 : ores; sg_view2 : ores }.

Inductive case :=
(* an extension built through the public API, serialised, loaded back, serialised again *)
| CHist (n : name) (v : version) (reqs : list name) (cmds : list jcmd)
        (before after : ores) (own1 own2 : owner_obs) (api2 : option api_obs)
(* a document loaded (r1), written, loaded and written again (r2); must_load: one of the published files *)
| CDoc (must_load : bool) (doc : jext) (r1 r2 : ores) (own1 : owner_obs)
(* several extensions (distinct names) and definition objects added to them, possibly the same object to
   several extensions; per extension: document, document after a round trip, owners *)
| CShared (hdrs : list (name * version * list name)) (objs : list jcmd) (prog : list (nat * nat))
          (obs : list (ores * ores * owner_obs))
(* the same with object identity: the Extension objects may carry the SAME name; per Extension object:
   document, document after a round trip, and per operation it holds (key, index of the Extension object
   that `get_extension()` returns, None if it is none of them or raises; requirement set) *)
| CWorld (hdrs : list (name * version * list name)) (objs : list jcmd) (prog : list (nat * nat))
         (obs : list (ores * ores * held_obs))
(* ONE Extension object over time: commands, observation (serialise, load back, serialise again, owners), more
   commands on the same object (or on the loaded one), observation, ...: every observation is judged as the CHist
   observation of the commands run so far *)
| CSeq (n : name) (v : version) (reqs : list name) (segs : list seg).

(* ---- what the document of a history-built extension must say, read off the commands without the model ----
   per kind, the keys are exactly the definition names that were added, and each entry shows ONE of the
   definitions added under that name (description, parameters, bound / misc, binary flag, signature with the
   owner added to the requirement set / constant) and carries the extension's name.  WHICH of several
   definitions added under one name is held (the last, the first, ...) is the business of add_*, on which
   the property is silent. *)
Definition tcmds (cs : list jcmd) := flat_map (fun c : jcmd => match c with AddType t => [t] | _ => [] end) cs.
Definition ocmds (cs : list jcmd) := flat_map (fun c : jcmd => match c with AddOp d => [d] | _ => [] end) cs.
Definition vcmds (cs : list jcmd) := flat_map (fun c : jcmd => match c with AddValue v => [v] | _ => [] end) cs.
Definition type_entry_ok (n : name) (t : atypedef) (kt : name * stypedef) : bool :=
  N.eqb (atd_name t) (fst kt) && N.eqb (std_name (snd kt)) (fst kt) && N.eqb (std_descr (snd kt)) (atd_descr t) &&
  list_eqb sparam_eqb (std_params (snd kt)) (map param_ser (atd_params t)) &&
  sbound_eqb (std_bound (snd kt)) (bound_ser (atd_bound t)) && N.eqb (std_extension (snd kt)) n.
Definition value_entry_ok (n : name) (v : avalue json) (kv : name * svalue json) : bool :=
  N.eqb (av_name v) (fst kv) && N.eqb (sv_name (snd kv)) (fst kv) &&
  json_eqb (sv_typed_value (snd kv)) (av_val v) && N.eqb (sv_extension (snd kv)) n.
Definition op_entry_ok (n : name) (d : aopdef json json) (ko : name * sopdef json json) : bool :=
  N.eqb (aod_name d) (fst ko) && N.eqb (so_name (snd ko)) (fst ko) && N.eqb (so_descr (snd ko)) (aod_descr d) &&
  misc_sim (omisc (so_misc (snd ko))) (aod_misc d) &&
  Bool.eqb (so_binary (snd ko)) (sig_binary (aod_sig d)) && N.eqb (so_extension (snd ko)) n &&
  match so_signature (snd ko), sig_poly (aod_sig d) with
  | None, None => true
  | Some q, Some p =>
      list_eqb sparam_eqb (sp_params q) (map param_ser (pf_params p)) &&
      list_eqb json_eqb (sf_input (sp_body q)) (pf_input p) &&
      list_eqb json_eqb (sf_output (sp_body q)) (pf_output p) &&
      set_eq (sf_reqs (sp_body q)) (n :: pf_reqs p)
  | _, _ => false
  end.
Definition hist_doc_ok (n : name) (cs : list jcmd) (s : jext) : bool :=
  set_eq (map fst (se_types s)) (map atd_name (tcmds cs)) && nodupb N.eqb (map fst (se_types s)) &&
  forallb (fun kt => existsb (fun t => type_entry_ok n t kt) (tcmds cs)) (se_types s) &&
  set_eq (map fst (se_values s)) (map (@av_name json) (vcmds cs)) && nodupb N.eqb (map fst (se_values s)) &&
  forallb (fun kv => existsb (fun v => value_entry_ok n v kv) (vcmds cs)) (se_values s) &&
  set_eq (map fst (se_ops s)) (map (@aod_name json json) (ocmds cs)) && nodupb N.eqb (map fst (se_ops s)) &&
  forallb (fun ko => existsb (fun d => op_entry_ok n d ko) (ocmds cs)) (se_ops s).

(* ---- the implementation's choice among definitions added under one name, as an oracle for the model ----
   `held n s c`: the document s shows command c's definition under c's name.  A command is dropped from the
   history given to the model when another command of the same kind and name is the one the document shows
   (the last such command if several are shown equally); when the document shows none of them the history
   is left alone (the model's own choice, the last, is then compared and the difference is seen). *)
Definition held (n : name) (s : jext) (c : jcmd) : bool :=
  match c with
  | AddType t => existsb (type_entry_ok n t) (se_types s)
  | AddOp d => existsb (op_entry_ok n d) (se_ops s)
  | AddValue v => existsb (value_entry_ok n v) (se_values s)
  end.
Definition same_slot (c d : jcmd) : bool :=
  match c, d with
  | AddType a, AddType b => N.eqb (atd_name a) (atd_name b)
  | AddOp a, AddOp b => N.eqb (aod_name a) (aod_name b)
  | AddValue a, AddValue b => N.eqb (av_name a) (av_name b)
  | _, _ => false
  end.
Fixpoint resolve_from (n : name) (s : jext) (all : list jcmd) (l : list jcmd) : list jcmd :=
  match l with
  | [] => []
  | c :: r =>
      let slot_shown := existsb (fun d => same_slot c d && held n s d) in
      if negb (slot_shown all) || (held n s c && negb (slot_shown r))
      then c :: resolve_from n s all r else resolve_from n s all r
  end.
Definition resolve (n : name) (before : ores) (cs : list jcmd) : list jcmd :=
  match before with OOk s => resolve_from n s cs cs | ORaised => cs end.

(* ---- model side ---- *)
Definition m_to_serial : extension json json json -> res jext := to_serial jid jid.
Definition m_deserialize : jext -> res (extension json json json) := deserialize jid jid.
Definition m_reload : jext -> res jext := reload jid jid jid jid.
Definition m_owners (e : extension json json json) : owner_obs :=
  map (fun ko : name * aopdef json json =>
         (fst ko, option_eqb N.eqb (aod_owner (snd ko)) (Some (e_name e)),
          option_map (@pf_reqs json) (sig_poly (aod_sig (snd ko))))) (e_ops e).
Definition m_api (e : extension json json json) : api_obs := (e_name e, e_version e, e_reqs e).
Definition api_eqb (a b : api_obs) : bool :=
  N.eqb (fst (fst a)) (fst (fst b)) && version_eqb (snd (fst a)) (snd (fst b)) &&
  set_eq (snd a) (snd b).

Definition obj_of_cmd (c : jcmd) : obj json json json :=
  match c with AddType t => OType t | AddOp d => OOp d | AddValue v => OValue v end.
Definition m_world (hdrs : list (name * version * list name)) (objs : list jcmd) (prog : list (nat * nat)) :=
  share_run {| w_exts := map (fun h => new_ext (fst (fst h)) (snd (fst h)) (snd h)) hdrs;
               w_objs := map obj_of_cmd objs |} prog.

(* ---- the property's domain among documents (written without the model) ----
   The property speaks of documents obtained by SERIALISING an extension (and of the published files, flagged
   must_load).  Such a document stores every definition under its own name, every entry names the extension
   as its owner, every operation has a signature or the binary flag (OpDefSig refuses anything else), has a
   misc dictionary, and lists the extension among its signature's requirements; requirement sets have no
   repeated member.  On any other document the property promises nothing: neither whether it loads, nor the
   class of the exception, nor what it turns into. *)
Definition doc_wf (s : jext) : bool :=
  nodupb N.eqb (se_reqs s) &&
  forallb (fun x : name * stypedef =>
             N.eqb (fst x) (std_name (snd x)) && N.eqb (std_extension (snd x)) (se_name s)) (se_types s) &&
  forallb (fun x : name * svalue json =>
             N.eqb (fst x) (sv_name (snd x)) && N.eqb (sv_extension (snd x)) (se_name s)) (se_values s) &&
  forallb (fun x : name * sopdef json json =>
             N.eqb (fst x) (so_name (snd x)) && N.eqb (so_extension (snd x)) (se_name s) &&
             match so_misc (snd x) with Some _ => true | None => false end &&
             match so_signature (snd x) with
             | Some p => mem N.eqb (se_name s) (sf_reqs (sp_body p)) && nodupb N.eqb (sf_reqs (sp_body p))
             | None => so_binary (snd x)
             end) (se_ops s).
Definition in_domain (must_load : bool) (doc : jext) : bool := must_load || doc_wf doc.

Definition corr_hist (n : name) (v : version) (reqs : list name) (cmds : list jcmd)
                     (before after : ores) (own1 own2 : owner_obs) (api2 : option api_obs) : bool :=
  let e := build (new_ext n v reqs) (resolve n before cmds) in
  let s := m_to_serial e in
  ores_eqb before s && ores_eqb after (bind s m_reload) && oo_eqb own1 (m_owners e) &&
  match bind s m_deserialize with
  | Ok e2 => oo_eqb own2 (m_owners e2) && option_eqb api_eqb api2 (Some (m_api e2))
  | Err _ => match api2 with None => true | Some _ => false end
  end.
(* every observation point of a CSeq with the commands run up to it *)
Fixpoint seq_all (f : list jcmd -> seg -> bool) (acc : list jcmd) (segs : list seg) : bool :=
  match segs with
  | [] => true
  | s :: r => let acc' := acc ++ sg_cmds s in f acc' s && seq_all f acc' r
  end.
(* the same case as a program of the session model (model/ExtDefs.v Section Session).  When no two commands
   share a (kind, name) slot nothing is left to the oracle `resolve`, and the documents are also compared with the
   session model run literally (observation points and reloads included); that the two agree in general is
   theorem C10_session_documents *)
Definition seq_prog (segs : list seg) : list (sstep json json json) :=
  flat_map (fun s => map (@SAdd json json json) (sg_cmds s) ++ [if sg_reload s then @SLoad json json json else @SSer json json json]) segs.
Definition m_session (n : name) (v : version) (reqs : list name) (segs : list seg) : list (res jext) :=
  session jid jid jid jid (new_ext n v reqs) (seq_prog segs).
Fixpoint all2 {A B} (f : A -> B -> bool) (a : list A) (b : list B) : bool :=
  match a, b with
  | [], [] => true
  | x :: r, y :: s => f x y && all2 f r s
  | _, _ => false
  end.

Definition corr (c : case) : bool :=
  match c with
  | CHist n v reqs cmds before after own1 own2 api2 => corr_hist n v reqs cmds before after own1 own2 api2
  | CSeq n v reqs segs =>
      seq_all (fun cs s => corr_hist n v reqs cs (sg_before s) (sg_after s) (sg_own1 s) (sg_own2 s) (sg_api2 s)) [] segs &&
      (* the objects themselves against the model (same judgement, object views in place of the documents) *)
      seq_all (fun cs s => corr_hist n v reqs cs (sg_view1 s) (sg_view2 s) (sg_own1 s) (sg_own2 s) (sg_api2 s)) [] segs &&
      (if nodupb same_slot (flat_map sg_cmds segs)
       then all2 ores_eqb (map sg_before segs) (m_session n v reqs segs) else true)
  | CShared hdrs objs prog obs =>
      let w := m_world hdrs objs prog in
      Nat.eqb (length obs) (length (w_exts w)) &&
      forallb (fun oe : (ores * ores * owner_obs) * extension json json json =>
                 let s := m_to_serial (snd oe) in
                 ores_eqb (fst (fst (fst oe))) s && ores_eqb (snd (fst (fst oe))) (bind s m_reload) &&
                 oo_eqb (snd (fst oe)) (m_owners (snd oe)))
              (combine obs (w_exts w))
  | CWorld hdrs objs prog obs =>
      (* the heap model (identity) and, for the documents, the value model as well *)
      let w := hrun (new_heapw hdrs (map obj_of_cmd objs)) prog in
      let vw := m_world hdrs objs prog in
      Nat.eqb (length obs) (length (hw_exts w)) && Nat.eqb (length obs) (length (w_exts vw)) &&
      forallb (fun ox : (ores * ores * held_obs) * (rext * extension json json json) =>
                 let s := m_to_serial (view (hw_heap w) (fst (snd ox))) in
                 ores_eqb (fst (fst (fst ox))) s && ores_eqb (snd (fst (fst ox))) (bind s m_reload) &&
                 ores_eqb (fst (fst (fst ox))) (m_to_serial (snd (snd ox))) &&
                 ho_eqb (snd (fst ox)) (held_owners (hw_heap w) (fst (snd ox))))
              (combine obs (combine (hw_exts w) (w_exts vw)))
  | CDoc must_load doc r1 r2 own1 =>
      if in_domain must_load doc then
        ores_eqb r1 (m_reload doc) && ores_eqb r2 (bind (m_reload doc) m_reload) &&
        match m_deserialize doc with
        | Ok e => oo_eqb own1 (m_owners e)
        | Err _ => match own1 with [] => true | _ => false end
        end
      else
        (* outside the domain the model's outcome on `doc` is not a yardstick; whatever the implementation made
           of the document (s) IS the serialisation of an extension, and from there on the model applies *)
        match r1 with
        | OOk s => ores_eqb r2 (m_reload s) &&
                   match m_deserialize s with
                   | Ok e => oo_eqb own1 (m_owners e)
                   | Err _ => false
                   end
        | ORaised => true
        end
  end.

(* ---- monitor: the specification on the implementation's observations ---- *)
Definition owners_ok (n : name) (o : owner_obs) : bool :=
  forallb (fun x : name * bool * option (list name) =>
    snd (fst x) && match snd x with Some rs => mem N.eqb n rs | None => true end) o.
Definition ores_same (a b : ores) : bool :=
  match a, b with OOk x, OOk y => doc_same x y | _, _ => false end.
Definition ores_owner (a : ores) : bool :=
  match a with OOk x => s_names_owner_b x && s_defs_owner_b x | _ => false end.

(* what loading one of the published files must keep (written without the model): everything, except that
   owner fields become the extension's name, the owner joins each signature's requirement set, an
   absent misc dictionary is the empty one, and requirement sets are sets; dictionaries are unordered *)
Definition op_kept (n : name) (a b : sopdef json json) : bool :=
  N.eqb (so_name a) (so_name b) && N.eqb (so_descr a) (so_descr b) &&
  misc_sim (omisc (so_misc a)) (omisc (so_misc b)) &&
  Bool.eqb (so_binary a) (so_binary b) && N.eqb (so_extension b) n &&
  match so_signature a, so_signature b with
  | None, None => true
  | Some p, Some q =>
      list_eqb sparam_eqb (sp_params p) (sp_params q) &&
      list_eqb json_eqb (sf_input (sp_body p)) (sf_input (sp_body q)) &&
      list_eqb json_eqb (sf_output (sp_body p)) (sf_output (sp_body q)) &&
      set_eq (n :: sf_reqs (sp_body p)) (sf_reqs (sp_body q))
  | _, _ => false
  end.
Definition doc_kept (a b : jext) : bool :=
  version_eqb (se_version a) (se_version b) && N.eqb (se_name a) (se_name b) &&
  set_eq (se_reqs a) (se_reqs b) &&
  perm_eqb (fun x y : name * stypedef =>
              N.eqb (fst x) (fst y) && N.eqb (std_extension (snd y)) (se_name a) &&
              N.eqb (std_name (snd x)) (std_name (snd y)) && N.eqb (std_descr (snd x)) (std_descr (snd y)) &&
              list_eqb sparam_eqb (std_params (snd x)) (std_params (snd y)) &&
              sbound_eqb (std_bound (snd x)) (std_bound (snd y))) (se_types a) (se_types b) &&
  perm_eqb (fun x y : name * svalue json =>
              N.eqb (fst x) (fst y) && N.eqb (sv_extension (snd y)) (se_name a) &&
              N.eqb (sv_name (snd x)) (sv_name (snd y)) &&
              json_eqb (sv_typed_value (snd x)) (sv_typed_value (snd y))) (se_values a) (se_values b) &&
  perm_eqb (fun x y : name * sopdef json json =>
              N.eqb (fst x) (fst y) && op_kept (se_name a) (snd x) (snd y)) (se_ops a) (se_ops b).
Definition ores_view (doc view : ores) : bool :=
  match doc, view with OOk x, OOk y => doc_corr x y | _, _ => false end.
Definition mon_hist (n : name) (v : version) (reqs : list name) (cmds : list jcmd)
                    (before after : ores) (own1 own2 : owner_obs) (api2 : option api_obs) : bool :=
  ores_same before after && ores_owner before &&
  owners_ok n own1 && owners_ok n own2 &&
  match api2 with
  | Some (n2, v2, r2) => N.eqb n2 n && version_eqb v2 v && set_eq r2 reqs
  | None => false
  end &&
  match before with OOk s => N.eqb (se_name s) n && version_eqb (se_version s) v &&
                             set_eq (se_reqs s) reqs && hist_doc_ok n cmds s
               | _ => false end.
Definition mon (c : case) : bool :=
  match c with
  | CHist n v reqs cmds before after own1 own2 api2 => mon_hist n v reqs cmds before after own1 own2 api2
  (* the document written at a point -- whatever was written or loaded before on the same object -- shows
     exactly the definitions added up to that point, loads back, is written again unchanged, names the owner *)
  | CSeq n v reqs segs =>
      seq_all (fun cs s => mon_hist n v reqs cs (sg_before s) (sg_after s) (sg_own1 s) (sg_own2 s) (sg_api2 s) &&
                           (* "serializing an extension": the document is the document OF THE OBJECT as it is now
                              (not one it wrote earlier), and what is loaded back shows what its document says *)
                           ores_view (sg_before s) (sg_view1 s) && ores_view (sg_after s) (sg_view2 s)) [] segs
  | CShared hdrs objs prog obs =>
      Nat.eqb (length obs) (length hdrs) &&
      forallb (fun oh : (ores * ores * owner_obs) * (name * version * list name) =>
                 let '(before, after, own) := fst oh in
                 let n := fst (fst (snd oh)) in
                 ores_same before after && ores_owner before && owners_ok n own &&
                 match before with OOk s => N.eqb (se_name s) n | _ => false end)
              (combine obs hdrs)
  | CWorld hdrs objs prog obs =>
      Nat.eqb (length obs) (length hdrs) &&
      forallb (fun ioh : nat * ((ores * ores * held_obs) * (name * version * list name)) =>
                 let '(before, after, own) := fst (snd ioh) in
                 let '(n, v, reqs) := snd (snd ioh) in
                 ores_same before after && ores_owner before && held_obs_ok (fst ioh) n own &&
                 match before with
                 | OOk s => N.eqb (se_name s) n && version_eqb (se_version s) v && set_eq (se_reqs s) reqs
                 | _ => false
                 end)
              (combine (seq 0 (length hdrs)) (combine obs hdrs))
  | CDoc must_load doc r1 r2 own1 =>
      if in_domain must_load doc then
        (* the serialisation of an extension, or a published file: it loads, everything is kept, the written
           document is a fixed point, the loaded extension owns its operations *)
        match r1 with
        | OOk s => doc_kept doc s && ores_owner r1 && ores_same r1 r2 &&
                   owners_ok (se_name doc) own1
        | ORaised => false
        end
      else
        (* not the serialisation of any extension: refusing it (with whatever exception) is as good as
           accepting it; if it is accepted, the result is an extension, and the property speaks about THAT:
           its document is a fixed point of load-and-write and it owns its operations *)
        match r1 with
        | OOk s => ores_owner r1 && ores_same r1 r2 && owners_ok (se_name s) own1
        | ORaised => true
        end
  end.

(* ---- helper rows (extra check): evaluated one by one so that a failing helper is named ---- *)
Definition hok (h : helper) : bool := helper_ok (map snd std_docs) h.
Definition std_doc_loads (d : path * jext) : bool :=
  match m_deserialize (snd d) with Ok _ => true | Err _ => false end.
