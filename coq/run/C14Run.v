(* Correspondence and monitor for C14, evaluated on cases written by harness/props/c14.py. *)
From Coq Require Import ZArith NArith List Bool Arith.
Import ListNotations.
From HV Require Export lib.Harness model.Types model.TypesEq model.Values spec.TypesS spec.ValuesS.

(* one observation of a constant: v.type_(), v._to_serial_root(), and every place that must offer the reported type *)
Inductive moment :=
| MVal (e : vexpr)                (* the value held at this moment (printed from the description of that moment) *)
       (oty : option ty)          (* v.type_() (API object); None = building the value or type_() raised *)
       (oser : option sval)       (* v._to_serial_root(), decoded from its JSON dump *)
       (docs : list sval)         (* the `v` the graph document holds for the Const nodes, decoded (those whose
                                     decoding differs from oser; each is judged like oser, none is compared with it) *)
       (ports : option (list ty)) (* every place that must offer the reported type: Const static out-port kind,
                                     LoadConst static in-port kind, its value out-port kind, its signature output,
                                     the serial LoadConstant datatype — for load(value) and add_const + load(node) *)
       (nin : nat)                (* number of inputs of the LoadConst signatures (must be 0) *)
       (linked : bool).           (* Const out-port 0 is linked to LoadConst in-port 0 *)

Inductive case :=
| CVal (std : stddefs) (e : vexpr) (oty : option ty) (oser : option sval) (docs : list sval)
       (ports : option (list ty)) (nin : nat) (linked : bool)                      (* a freshly built value, observed once (fields as in MVal) *)
| CSeq (std : stddefs) (ms : list moment).              (* a history on ONE Const node / value object: the value is
                                                           changed between the observations (in place, op.val
                                                           re-assigned, op replaced); the second load is always a
                                                           NEW load(node) of the node that lived through the history *)

Definition cname_eqb (a b : cname) : bool :=
  match a, b with
  | CInt, CInt | CF64, CF64 | CString, CString | CArray, CArray | CList, CList | CStatic, CStatic => true
  | COther x, COther y => N.eqb x y
  | _, _ => false
  end.
Definition fsig_eqb (a b : fsig) : bool :=
  rows_sameb (fs_in a) (fs_in b) && rows_sameb (fs_out a) (fs_out b) && list_eqb N.eqb (fs_reqs a) (fs_reqs b).

(* serial values compared with types up to the normal form (the model keeps API types, the observation is
   decoded from JSON where extension types are opaque).  a = the observation, b = the model's.  Both are first
   brought to the general spelling (`general`, spec/ValuesS.v): the model writes a tuple in the shorthand the
   code uses today, the property speaks of the value the serialized form denotes.
   Extension lists: the property promises that a std constant "names its defining extension AMONG the extensions
   it uses" — the list the model writes (the defining extension) must be included in the observed one, which may
   name more (e.g. the requirements of nested element values, as hugr-core's extension_reqs does); no order is
   promised.  Of the list of a raw val.Extension (payload SPOther) the property says nothing: not compared (the
   harness counts changed lists in the evidence). *)
Fixpoint sval_eqb (a b : sval) {struct a} : bool :=
  let fix all (l m : list sval) : bool :=
    match l, m with [], [] => true | x :: r, y :: s => sval_eqb x y && all r s | _, _ => false end in
  match a, b with
  | SSum t1 ty1 v1, SSum t2 ty2 v2 => Nat.eqb t1 t2 && same_tyb ty1 ty2 && all v1 v2
  | STuple v1, STuple v2 => all v1 v2
  (* a tuple left in the shorthand on one side only: `general` could not give it a type because the enclosing value
     is ill typed (a field the variant row has no type for — outside the property's domain, where mon does not
     judge inhabitation); the two spellings are then matched without the type the shorthand does not carry *)
  | SSum t1 ty1 v1, STuple v2 => Nat.eqb t1 0 && match sum_rows ty1 with Some [_] => all v1 v2 | _ => false end
  | STuple v1, SSum t2 ty2 v2 => Nat.eqb t2 0 && match sum_rows ty2 with Some [_] => all v1 v2 | _ => false end
  | SFunc d1 i1 o1, SFunc d2 i2 o2 => fsig_eqb d1 d2 && rows_sameb i1 i2 && rows_sameb o1 o2
  | SExt n1 t1 p1 e1, SExt n2 t2 p2 e2 =>
      cname_eqb n1 n2 && same_tyb t1 t2 && payload_eqb p1 p2 &&
      match p2 with SPOther => true | _ => incl_b N.eqb e2 e1 end
  | _, _ => false
  end
with payload_eqb (a b : spayload) {struct a} : bool :=
  let fix all (l m : list sval) : bool :=
    match l, m with [], [] => true | x :: r, y :: s => sval_eqb x y && all r s | _, _ => false end in
  match a, b with
  | SPInt w1 v1, SPInt w2 v2 => Nat.eqb w1 w2 && Z.eqb v1 v2
  | SPFloat, SPFloat | SPString, SPString | SPOther, SPOther => true
  | SPSeq v1 e1, SPSeq v2 e2 => all v1 v2 && same_tyb e1 e2
  | SPStatic v1 e1 n1, SPStatic v2 e2 n2 => all v1 v2 && same_tyb e1 e2 && N.eqb n1 n2
  | _, _ => false
  end.

(* A description outside the property's domain (not wf_expr: raw Sum / UnitSum tag out of range, caller-chosen field /
   element type that is not the fields', width above 6) that the implementation REFUSES (building the value,
   type_() or serialising raises) is an accepted observation: the model mirrors constructors that do not check,
   and a constructor that does check breaks nothing the property says.  Inside the domain, and whenever a value
   IS built, the comparison is strict. *)
Definition refused (oty : option ty) (oser : option sval) : bool :=
  match oty, oser with Some _, Some _ => false | _, _ => true end.

(* the observed serial value a (read at the observed type ta) and the model's b (at the model's type tb) denote
   the same value *)
Definition ser_same (a : sval) (ta : ty) (b : sval) (tb : ty) : bool := sval_eqb (general a ta) (general b tb).

Definition corr_obs (std : stddefs) (e : vexpr) (o : hobs) (oty : option ty) (oser : option sval) (docs : list sval)
                    (ports : option (list ty)) (nin : nat) (linked : bool) : bool :=
  (* outside the domain: refusing the value, or refusing to put it on a Const / LoadConst / into a document *)
  (negb (wf_expr std e) && (refused oty oser || match ports with None => true | Some _ => false end)) ||
  (* the reported type, up to the identity of types of the specification (which Python class spells it — UnitSum
     or Sum of empty rows, a std subclass or the generic ExtType, resolved or opaque — is not promised) *)
  (match oty, ho_type o with
   | Some t, Some tm =>
       same_tyb t tm &&
       match oser, ho_ser o with
       | Some s, Some sm => ser_same s t sm tm && forallb (fun d => ser_same d t sm tm) docs
       | None, None => true
       | _, _ => false
       end
   | None, None => match oser, ho_ser o with None, None => true | _, _ => false end
   | _, _ => false
   end &&
   match ports, ho_port o, ho_load o with
   | Some ps, Some t, Some (i, [o]) =>
       forallb (same_tyb t) ps && same_tyb o t && Nat.eqb nin (length i) && linked
   | None, None, None => true
   | _, _, _ => false
   end).
Definition corr_moment (std : stddefs) (o : hobs) (m : moment) : bool :=
  match m with MVal e oty oser docs ports nin linked => corr_obs std e o oty oser docs ports nin linked end.
Definition moment_expr (m : moment) : vexpr := match m with MVal e _ _ _ _ _ _ => e end.
Fixpoint all2 {A B} (f : A -> B -> bool) (l : list A) (m : list B) : bool :=
  match l, m with [], [] => true | x :: r, y :: s => f x y && all2 f r s | _, _ => false end.

Definition corr (c : case) : bool :=
  match c with
  | CVal std e oty oser docs ports nin linked => corr_obs std e (observe_const std e) oty oser docs ports nin linked
  | CSeq std ms =>
      (* the model's history: the node is made to hold the value of each moment, then observed *)
      match ms with
      | [] => false
      | m0 :: _ =>
          all2 (corr_moment std) (run_hist std (moment_expr m0) (flat_map (fun m => [HSet (moment_expr m); HObs]) ms)) ms
      end
  end.

(* ---- monitor ---- *)
(* StaticArrayVal over an element type that cannot be copied cannot be built (the only legitimate failure) *)
Fixpoint constructible (e : vexpr) : bool :=
  match e with
  | ESum _ _ vs | ETuple vs | ESome vs | ELeft vs _ | ERight _ vs | EArray vs _ | EList vs _ => forallb constructible vs
  | EStatic vs elem _ => copy_b elem && forallb constructible vs
  | _ => true
  end.

Definition len_eq {A B} (l : list A) (m : list B) : bool := Nat.eqb (length l) (length m).
(* the clauses "helpers build the corresponding sum type with the right tag" and "std constants report the
   matching std type, name their extension, embed elements with the element type", on the observation.
   s is the GENERAL spelling of the observed value (mon_ser): a tuple is a sum value with tag 0 whose embedded type
   is the one-row sum it reports, whichever way it was written; a general-form value with another tag or another
   type fails here (and in has_type_b). *)
Definition shape_ok (std : stddefs) (e : vexpr) (t : ty) (s : sval) : bool :=
  match e, s with
  | ESum tag typ vs, SSum tag' typ' ss => Nat.eqb tag tag' && same_tyb typ typ' && same_tyb t typ && len_eq ss vs
  | EUnitSum tag n, SSum tag' _ ss => Nat.eqb tag tag' && same_tyb t (TUnitSum n) && len_eq ss (@nil nat)
  | EBool b, SSum tag' _ ss => Nat.eqb tag' (if b then 1 else 0) && same_tyb t (TUnitSum 2) && len_eq ss (@nil nat)
  | ETuple vs, SSum tag' typ' ss =>
      Nat.eqb tag' 0 && same_tyb typ' t && len_eq ss vs &&
      match sum_rows t with Some [row] => len_eq row vs | _ => false end
  | ESome vs, SSum tag' _ ss =>
      Nat.eqb tag' 1 && len_eq ss vs && match sum_rows t with Some [[]; row] => len_eq row vs | _ => false end
  | ENone ts, SSum tag' _ ss =>
      Nat.eqb tag' 0 && len_eq ss (@nil nat) && match sum_rows t with Some [[]; row] => rows_sameb row ts | _ => false end
  | ELeft vs rts, SSum tag' _ ss =>
      Nat.eqb tag' 0 && len_eq ss vs &&
      match sum_rows t with Some [l; r] => len_eq l vs && rows_sameb r rts | _ => false end
  | ERight lts vs, SSum tag' _ ss =>
      Nat.eqb tag' 1 && len_eq ss vs &&
      match sum_rows t with Some [l; r] => len_eq r vs && rows_sameb l lts | _ => false end
  | EFunc sig, SFunc _ _ _ => same_tyb t (TFunc (fs_in sig) (fs_out sig) (fs_reqs sig))
  | EExt nm typ exts, SExt nm' typ' SPOther exts' =>
      cname_eqb nm nm' && same_tyb typ typ' && same_tyb t typ
  | EInt v w, SExt CInt _ (SPInt w' v') exts =>
      Nat.eqb w w' && Z.eqb v v' && same_tyb t (s_int std w) && has_ext (td_ext (d_int std)) exts
  | EFloat, SExt CF64 _ SPFloat exts => same_tyb t (s_float std) && has_ext (td_ext (d_float std)) exts
  | EString, SExt CString _ SPString exts => same_tyb t (s_string std) && has_ext (td_ext (d_string std)) exts
  | EArray vs elem, SExt CArray _ (SPSeq ss elem') exts =>
      same_tyb t (s_array std (length vs) elem) && len_eq ss vs && same_tyb elem elem' &&
      has_ext (td_ext (d_array std)) exts
  | EList vs elem, SExt CList _ (SPSeq ss elem') exts =>
      same_tyb t (s_list std elem) && len_eq ss vs && same_tyb elem elem' && has_ext (td_ext (d_list std)) exts
  | EStatic vs elem nm, SExt CStatic _ (SPStatic ss elem' nm') exts =>
      same_tyb t (s_static std elem) && len_eq ss vs && same_tyb elem elem' && N.eqb nm nm' &&
      has_ext (td_ext (d_static std)) exts
  | _, _ => false
  end.

(* The same clauses at every level of a helper tower (seeded C14-h): every constant held inside a constant
   is a constant value too, so the field the enclosing value embeds for the sub-expression x must be the value x's
   constructor was asked for, at the type the enclosing variant row / element type gives it.  Read on the general
   spelling.  A helper that unpacks, flattens or collapses an argument which is itself sugar (None_(Option T) built
   as None_(T), Some(Some x) as Some x, Tuple(Tuple x) as Tuple x) reports a type its serialized form does
   inhabit - consistently one level too shallow - and can keep every length of the root clause; it fails here, on
   the sub-expression.  Only inside the property's domain (wf_expr): for a field the declared row has no type for,
   nothing is promised. *)
Fixpoint shape_deep (std : stddefs) (e : vexpr) (t : ty) (s : sval) {struct e} : bool :=
  let fix fields (es : list vexpr) (row : list ty) (ss : list sval) : bool :=
    match es, row, ss with
    | [], [], [] => true
    | x :: er, t' :: tr, s' :: sr => shape_deep std x t' s' && fields er tr sr
    | _, _, _ => false
    end in
  let fix elems (es : list vexpr) (elem : ty) (ss : list sval) : bool :=
    match es, ss with
    | [], [] => true
    | x :: er, s' :: sr => shape_deep std x elem s' && elems er elem sr
    | _, _ => false
    end in
  shape_ok std e t s &&
  match e, s with
  | ESum tag _ vs, SSum _ _ ss =>
      match sum_rows t with
      | Some rows => match nth_error rows tag with Some row => fields vs row ss | None => false end
      | None => false
      end
  | ETuple vs, SSum _ _ ss => match sum_rows t with Some [row] => fields vs row ss | _ => false end
  | ESome vs, SSum _ _ ss => match sum_rows t with Some [[]; row] => fields vs row ss | _ => false end
  | ELeft vs _, SSum _ _ ss => match sum_rows t with Some [l; _] => fields vs l ss | _ => false end
  | ERight _ vs, SSum _ _ ss => match sum_rows t with Some [_; r] => fields vs r ss | _ => false end
  | EArray vs elem, SExt _ _ (SPSeq ss _) _ | EList vs elem, SExt _ _ (SPSeq ss _) _ => elems vs elem ss
  | EStatic vs elem _, SExt _ _ (SPStatic ss _ _) _ => elems vs elem ss
  | _, _ => true
  end.

(* one serialized form s of the value (its own, or the one a graph document holds for a Const node) against the
   reported type t: it inhabits t (the judgment reads both spellings), and it is the value the constructor was
   asked for - inside the domain at every level, outside it at the root *)
Definition mon_ser (std : stddefs) (e : vexpr) (t : ty) (s : sval) : bool :=
  if wf_expr std e then has_type_b std s t && shape_deep std e t (general s t)
  else shape_ok std e t (general s t).

Definition mon_val (std : stddefs) (e : vexpr) (oty : option ty) (oser : option sval) (docs : list sval)
                   (ports : option (list ty)) (nin : nat) (linked : bool) : bool :=
  std_okb std &&
  match oty, oser with
  | Some t, Some s =>
      mon_ser std e t s && forallb (mon_ser std e t) docs &&       (* the value inhabits the type it reports *)
      match ports with
      | Some ps => forallb (fun p => same_tyb p t) ps && Nat.eqb nin 0 && linked
      (* the value could not be put on a Const node / loaded / written into a document: accepted only for a
         description outside the property's domain *)
      | None => negb (wf_expr std e)
      end
  (* nothing was built: legitimate only for a StaticArrayVal over a linear element, or for a description outside
     the property's domain that the implementation refuses (see `refused`) *)
  | None, _ => negb (constructible e) || negb (wf_expr std e)
  | Some _, None => negb (wf_expr std e)
  end.

Definition mon (c : case) : bool :=
  match c with
  | CVal std e oty oser docs ports nin linked => mon_val std e oty oser docs ports nin linked
  (* every moment of a history is judged like a fresh value of the description of that moment: what is reported /
     offered / emitted NOW is about the value held NOW *)
  | CSeq std ms =>
      negb (Nat.eqb (length ms) 0) &&
      forallb (fun m => match m with MVal e oty oser docs ports nin linked => mon_val std e oty oser docs ports nin linked end) ms
  end.

(* ---- the verdict functions on the spellings of one tuple (checked at every build) ----
   Tuple(TRUE, IntVal(5, 3)) reporting the one-row sum [[bool; int<3>]]: the shorthand and the general form are
   accepted by mon and by corr; a general form with another tag, another embedded type, or fields in another order
   is rejected by mon (and by corr). *)
From HV Require proofs.ValuesP.
Module SpellingExamples.
  Import HV.proofs.ValuesP.
  Definition std := ex_std.
  Definition e := ETuple [EBool true; EInt 5 3].
  Definition t := TSum [[TUnitSum 2; int_t std 3]].
  Definition i3 := SExt CInt (int_t std 3) (SPInt 3 5) [td_ext (d_int std)].
  Definition tt := SSum 1 (TUnitSum 2) [].
  Definition verdicts (s : sval) : bool * bool :=
    (mon (CVal std e (Some t) (Some s) [s] (Some [t; t]) 0 true),
     corr (CVal std e (Some t) (Some s) [s] (Some [t; t]) 0 true)).
  Example shorthand_accepted : verdicts (STuple [tt; i3]) = (true, true).
  Proof. vm_compute. reflexivity. Qed.
  Example general_accepted : verdicts (SSum 0 t [tt; i3]) = (true, true).
  Proof. vm_compute. reflexivity. Qed.
  Example general_unit_type_spelt_out_accepted :
    verdicts (SSum 0 (TSum [[TSum [[]; []]; int_t std 3]]) [SSum 1 (TSum [[]; []]) []; i3]) = (true, true).
  Proof. vm_compute. reflexivity. Qed.
  Example general_wrong_tag_rejected : verdicts (SSum 1 t [tt; i3]) = (false, false).
  Proof. vm_compute. reflexivity. Qed.
  Example general_wrong_type_rejected : verdicts (SSum 0 (TSum [[int_t std 3; TUnitSum 2]]) [tt; i3]) = (false, false).
  Proof. vm_compute. reflexivity. Qed.
  Example general_option_type_rejected : verdicts (SSum 1 (TSum [[]; [TUnitSum 2; int_t std 3]]) [tt; i3]) = (false, false).
  Proof. vm_compute. reflexivity. Qed.
  Example general_fields_swapped_rejected : verdicts (SSum 0 t [i3; tt]) = (false, false).
  Proof. vm_compute. reflexivity. Qed.
  (* a document value is judged on its own: a good `oser` does not excuse a bad Const document *)
  Example bad_document_rejected :
    mon (CVal std e (Some t) (Some (STuple [tt; i3])) [SSum 1 t [tt; i3]] (Some [t]) 0 true) = false.
  Proof. vm_compute. reflexivity. Qed.
  (* the unit value in the shorthand is the empty tuple; a bool in the shorthand is not a bool *)
  Example unit_shorthand_accepted :
    mon (CVal std (EUnitSum 0 1) (Some (TUnitSum 1)) (Some (STuple [])) [] (Some [TUnitSum 1]) 0 true) = true.
  Proof. vm_compute. reflexivity. Qed.
  Example bool_shorthand_rejected :
    mon (CVal std (EBool false) (Some (TUnitSum 2)) (Some (STuple [])) [] (Some [TUnitSum 2]) 0 true) = false.
  Proof. vm_compute. reflexivity. Qed.
End SpellingExamples.

(* ---- helpers over sugar: the verdicts on a helper that looks into an argument which is itself sugar (checked at
   every build).  In each rejected observation the reported type IS inhabited by the serialized form (the value is
   consistently one level too shallow) and the root clause holds where it only counts fields; the clause applied to
   the sub-expression rejects it. ---- *)
Module SugarExamples.
  Import HV.proofs.ValuesP.
  Definition std := ex_std.
  Definition B := TUnitSum 2.
  Definition opt (t : ty) := TSum [[]; [t]].
  Definition verdicts (e : vexpr) (t : ty) (s : sval) : bool * bool :=
    (mon (CVal std e (Some t) (Some s) [] (Some [t; t]) 0 true),
     corr (CVal std e (Some t) (Some s) [] (Some [t; t]) 0 true)).
  (* None_(Option(Bool)) : Option(Option(Bool)) *)
  Example none_of_option_accepted : verdicts (ENone [opt B]) (opt (opt B)) (SSum 0 (opt (opt B)) []) = (true, true).
  Proof. vm_compute. reflexivity. Qed.
  (* seeded C14-h: the payload row of the option is unpacked - None_(Bool) is built *)
  Example none_of_option_unpacked_rejected : verdicts (ENone [opt B]) (opt B) (SSum 0 (opt B) []) = (false, false).
  Proof. vm_compute. reflexivity. Qed.
  Example unpacked_none_is_consistent : has_type_b std (SSum 0 (opt B) []) (opt B) = true.
  Proof. vm_compute. reflexivity. Qed.
  (* the same under a Some: Some(None_(Option(Bool))) : Option(Option(Option(Bool))) *)
  Example nested_accepted :
    verdicts (ESome [ENone [opt B]]) (opt (opt (opt B))) (SSum 1 (opt (opt (opt B))) [SSum 0 (opt (opt B)) []]) = (true, true).
  Proof. vm_compute. reflexivity. Qed.
  Example nested_unpacked_rejected :
    verdicts (ESome [ENone [opt B]]) (opt (opt B)) (SSum 1 (opt (opt B)) [SSum 0 (opt B) []]) = (false, false).
  Proof. vm_compute. reflexivity. Qed.
  Example nested_unpacked_is_consistent_and_passes_the_root_clause :
    has_type_b std (SSum 1 (opt (opt B)) [SSum 0 (opt B) []]) (opt (opt B)) &&
    shape_ok std (ESome [ENone [opt B]]) (opt (opt B)) (SSum 1 (opt (opt B)) [SSum 0 (opt B) []]) = true.
  Proof. vm_compute. reflexivity. Qed.
  (* Some(Some(TRUE)) collapsed to Some(TRUE): one field either way *)
  Example some_of_some_accepted :
    verdicts (ESome [ESome [EBool true]]) (opt (opt B)) (SSum 1 (opt (opt B)) [SSum 1 (opt B) [SSum 1 B []]]) = (true, true).
  Proof. vm_compute. reflexivity. Qed.
  Example some_of_some_collapsed_rejected :
    verdicts (ESome [ESome [EBool true]]) (opt B) (SSum 1 (opt B) [SSum 1 B []]) = (false, false).
  Proof. vm_compute. reflexivity. Qed.
  (* Tuple(Tuple(TRUE)) flattened to Tuple(TRUE), in the shorthand *)
  Example tuple_of_tuple_accepted :
    verdicts (ETuple [ETuple [EBool true]]) (TSum [[TSum [[B]]]]) (STuple [STuple [SSum 1 B []]]) = (true, true).
  Proof. vm_compute. reflexivity. Qed.
  Example tuple_of_tuple_flattened_rejected :
    verdicts (ETuple [ETuple [EBool true]]) (TSum [[B]]) (STuple [SSum 1 B []]) = (false, false).
  Proof. vm_compute. reflexivity. Qed.
  (* inside a collection that declares the element type: ListVal([Some(Some TRUE)], Option(Option Bool)) whose
     element was collapsed does not inhabit the list type (has_type_b) *)
  Example in_list_rejected :
    fst (verdicts (EList [ESome [ESome [EBool true]]] (opt (opt B))) (s_list std (opt (opt B)))
           (SExt CList (s_list std (opt (opt B))) (SPSeq [SSum 1 (opt B) [SSum 1 B []]] (opt (opt B))) [td_ext (d_list std)])) = false.
  Proof. vm_compute. reflexivity. Qed.
End SugarExamples.
