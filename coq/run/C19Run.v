(* Correspondence and monitor for C19, evaluated on cases written by harness/props/c19.py. *)
From Coq Require Import ZArith List Bool Arith.
Import ListNotations.
From HV Require Export lib.PyDict lib.Harness model.Shots spec.ShotsS.

Definition str := list Z.                       (* observed strings: code points *)
Definition render (bs : list bool) : str := map (fun b : bool => if b then 49%Z else 48%Z) bs.
Definition str_eqb : str -> str -> bool := list_eqb Z.eqb.

(* ---- one QsysResult object observed several times while its shots are changed in between ----
   The state of the object is the list of its shots' entry lists; the public mutators are list operations on it
   (an index out of range: no effect; the harness does not emit such a step).  A query is one of the four
   observations below, made on the object in its CURRENT state; the property promises that each of them is the
   conversion of the entries the shots hold at that moment, whatever was asked or changed before. *)
Inductive mut :=
| MAppend (i : nat) (e : entry)                  (* results[i].append(tag, data) / results[i].entries.append(...) *)
| MSetEntry (i j : nat) (e : entry)              (* results[i].entries[j] = (tag, data) *)
| MSetData (i j : nat) (d : data)                (* the value of entry j changed (list value edited in place) *)
| MDelEntry (i j : nat)                          (* del results[i].entries[j] *)
| MInsEntry (i j : nat) (e : entry)              (* results[i].entries.insert(j, ...) *)
| MSetEntries (i : nat) (es : list entry)        (* results[i].entries = [...] / [:] = ... / results[i] = QsysShot(...) *)
| MInsShot (i : nat) (es : list entry)           (* results.insert(i, QsysShot(...)) / results.append(...) *)
| MDelShot (i : nat)                             (* del results[i] *)
| MSwap (i j : nat).                             (* results[i], results[j] = results[j], results[i] *)
Inductive query :=
| QBits (i : nat) (obs : res (list (tag * str)))                       (* results[i].to_register_bits() *)
| QStrings (sn sl : bool) (obs : res (list (tag * list str)))          (* register_bitstrings(sn, sl) *)
| QCounts (sn sl : bool) (obs : res (list (tag * list (str * nat))))   (* register_counts(sn, sl) *)
| QCollate (obs : res (list (list (tag * str) * nat))).                (* collated_counts() *)
Inductive step := SMut (m : mut) | SQuery (q : query).

Inductive case :=
| CParse (t : tag) (obs : option (tag * N))
| CBits (es : list entry) (obs : res (list (tag * str)))
| CMulti (sn sl : bool) (shots : list (list entry))
         (obs : res (list (tag * list str))) (counts : res (list (tag * list (str * nat))))
| CCollate (shots : list (list entry)) (obs : res (list (list (tag * str) * nat)))
| CSeq (shots : list (list entry)) (steps : list step).

Fixpoint upd_nth {A} (l : list A) (n : nat) (f : A -> A) : list A :=
  match l, n with
  | [], _ => []
  | x :: r, O => f x :: r
  | x :: r, S k => x :: upd_nth r k f
  end.
Fixpoint del_nth {A} (l : list A) (n : nat) : list A :=
  match l, n with
  | [], _ => []
  | _ :: r, O => r
  | x :: r, S k => x :: del_nth r k
  end.
Definition ins_nth {A} (l : list A) (n : nat) (x : A) : list A :=
  if n <=? length l then firstn n l ++ x :: skipn n l else l.
Definition state := list (list entry).
Definition apply_mut (st : state) (m : mut) : state :=
  match m with
  | MAppend i e => upd_nth st i (fun es => es ++ [e])
  | MSetEntry i j e => upd_nth st i (fun es => upd_nth es j (fun _ => e))
  | MSetData i j d => upd_nth st i (fun es => upd_nth es j (fun e => (fst e, d)))
  | MDelEntry i j => upd_nth st i (fun es => del_nth es j)
  | MInsEntry i j e => upd_nth st i (fun es => ins_nth es j e)
  | MSetEntries i es => upd_nth st i (fun _ => es)
  | MInsShot i es => ins_nth st i es
  | MDelShot i => del_nth st i
  | MSwap i j =>
      match nth_error st i, nth_error st j with
      | Some a, Some b => upd_nth (upd_nth st i (fun _ => b)) j (fun _ => a)
      | _, _ => st
      end
  end.
(* every query is checked against the state reached by the mutations made before it *)
Fixpoint run_steps (chk : state -> query -> bool) (st : state) (steps : list step) : bool :=
  match steps with
  | [] => true
  | SMut m :: r => run_steps chk (apply_mut st m) r
  | SQuery q :: r => chk st q && run_steps chk st r
  end.

Definition res_eqb {A} (eqb : A -> A -> bool) (a b : res A) : bool :=
  match a, b with Ok x, Ok y => eqb x y | ValueError, ValueError => true | _, _ => false end.
Definition is_err {A} (a : res A) : bool := match a with ValueError => true | _ => false end.
Definition ts_eqb := pair_eqb tag_eqb str_eqb.
Definition count {A} (eqb : A -> A -> bool) (x : A) (l : list A) : nat := length (filter (eqb x) l).

(* dictionaries are compared as unordered maps: the property does not promise an order *)
Definition model_bits (es : list entry) : res (list (tag * str)) :=
  bind (to_register_bits es) (fun rb => Ok (map (fun '(r, bs) => (r, render bs)) rb)).
Definition counts_ok (obs : list (tag * list (str * nat))) (sd : list (tag * list str)) : bool :=
  Nat.eqb (length obs) (length sd) &&
  forallb (fun '(r, cs) =>
    match dget tag_eqb sd r with
    | Some l => forallb (fun '(s, n) => Nat.eqb (count str_eqb s l) n && negb (Nat.eqb n 0)) cs &&
                Nat.eqb (fold_right (fun sn acc => snd sn + acc) 0 cs) (length l) &&
                nodupb str_eqb (map fst cs)
    | None => false
    end) obs.
Definition model_multi (sn sl : bool) (shots : list (list entry)) : res (list (tag * list str)) :=
  bind (register_bitstrings sn sl shots) (fun sd => Ok (map (fun '(r, l) => (r, map render l)) sd)).
Definition tuple_eqb := list_eqb ts_eqb.
Definition model_collate (shots : list (list entry)) : res (list (list (tag * str))) :=
  mapM (fun es => bind (collated_shot es) (fun l => Ok (map (fun '(t, bs) => (t, render bs)) l))) shots.
(* the Counter's keys are tuples of (tag, string) pairs in the order the tags first occur in the shot: two shots
   with the same pairs in another order give two keys.  The property speaks of the per-tag strings, not of the
   order of the pairs inside a key, so keys are compared up to that order and the counts of keys that are
   permutations of each other are added up (thorough tier, seed 0: shots [a[0],zz9] and [zz9,a[0]]) *)
Definition merged (obs : list (list (tag * str) * nat)) (tp : list (tag * str)) : nat :=
  fold_right (fun tn acc => if perm_eqb ts_eqb (fst tn) tp then snd tn + acc else acc) 0 obs.
Definition collate_ok (obs : list (list (tag * str) * nat)) (tuples : list (list (tag * str))) : bool :=
  forallb (fun '(tp, n) => Nat.eqb (count (perm_eqb ts_eqb) tp tuples) (merged obs tp) && negb (Nat.eqb n 0)) obs &&
  Nat.eqb (fold_right (fun tn acc => snd tn + acc) 0 obs) (length tuples).

Definition counts_vs (counts : res (list (tag * list (str * nat)))) (m : res (list (tag * list str))) : bool :=
  match counts, m with
  | Ok cs, Ok sd => counts_ok cs sd
  | ValueError, ValueError => true
  | _, _ => false
  end.
Definition strings_eqb := res_eqb (perm_eqb (pair_eqb tag_eqb (list_eqb str_eqb))).
Definition corr_bits (es : list entry) (obs : res (list (tag * str))) : bool :=
  res_eqb (perm_eqb ts_eqb) obs (model_bits es).
Definition corr_collate (shots : list (list entry)) (obs : res (list (list (tag * str) * nat))) : bool :=
  match obs, model_collate shots with
  | Ok o, Ok tuples => collate_ok o tuples
  | ValueError, ValueError => true
  | _, _ => false
  end.
Definition corr_query (st : state) (q : query) : bool :=
  match q with
  | QBits i obs => match nth_error st i with Some es => corr_bits es obs | None => false end
  | QStrings sn sl obs => strings_eqb obs (model_multi sn sl st)
  | QCounts sn sl counts => counts_vs counts (model_multi sn sl st)
  | QCollate obs => corr_collate st obs
  end.

Definition corr (c : case) : bool :=
  match c with
  | CParse t obs => option_eqb (pair_eqb tag_eqb N.eqb) obs (parse_tag_n t)
  | CBits es obs => corr_bits es obs
  | CMulti sn sl shots obs counts =>
      let m := model_multi sn sl shots in
      strings_eqb obs m && counts_vs counts m
  | CCollate shots obs => corr_collate shots obs
  | CSeq shots steps => run_steps corr_query shots steps
  end.

(* ---- monitor: the specification on the implementation's observations ---- *)
Definition is_bitstr (s : str) : bool := forallb (fun c => Z.eqb c 48 || Z.eqb c 49) s.
Definition mon_bits (es : list entry) (obs : res (list (tag * str))) : bool :=
  match mapM entry_write es, obs with
  | ValueError, ValueError => true
  | Ok ws, Ok l =>
      nodupb tag_eqb (map fst l) &&
      forallb (fun '(r, s) => is_bitstr s &&
                 match reg_spec ws r with Some bs => str_eqb s (render bs) | None => false end) l &&
      forallb (fun tw => mem tag_eqb (fst tw) (map fst l)) ws
  | _, _ => false
  end.
Definition spec_multi (sn sl : bool) (shots : list (list entry)) : res (list (tag * list str)) :=
  match mapM to_register_bits shots with
  | ValueError => ValueError
  | Ok bits =>
      if (sn && names_differ bits) || (sl && lengths_differ bits) then ValueError
      else Ok (map (fun r => (r, map render (per_register bits r)))
                   (nodup (list_eq_dec Z.eq_dec) (flat_map (map fst) bits)))
  end.
(* collation spec: per shot, per tag in the shot, the concatenation of its flattened values *)
Definition spec_collate_shot (es : list entry) : res (list (tag * str)) :=
  mapM (fun t => bind (mapM cast (flatten (values_of es t))) (fun bs => Ok (t, render bs)))
       (nodup (list_eq_dec Z.eq_dec) (map fst es)).
Definition mon_collate (shots : list (list entry)) (obs : res (list (list (tag * str) * nat))) : bool :=
  match obs, mapM spec_collate_shot shots with
  | Ok o, Ok tuples =>
      (* tuples compared up to the order of their (tag, string) pairs *)
      forallb (fun '(tp, n) => Nat.eqb (count (perm_eqb ts_eqb) tp tuples) (merged o tp)) o &&
      Nat.eqb (fold_right (fun tn acc => snd tn + acc) 0 o) (length tuples)
  | ValueError, ValueError => true
  | _, _ => false
  end.
(* the specification of each query on the entries the shots hold when it is made *)
Definition mon_query (st : state) (q : query) : bool :=
  match q with
  | QBits i obs => match nth_error st i with Some es => mon_bits es obs | None => false end
  | QStrings sn sl obs => strings_eqb obs (spec_multi sn sl st)
  | QCounts sn sl counts => counts_vs counts (spec_multi sn sl st)
  | QCollate obs => mon_collate st obs
  end.
Definition mon (c : case) : bool :=
  match c with
  | CParse t obs => true
  | CBits es obs => mon_bits es obs
  | CMulti sn sl shots obs counts =>
      let m := spec_multi sn sl shots in
      strings_eqb obs m && counts_vs counts m
  | CCollate shots obs => mon_collate shots obs
  | CSeq shots steps => run_steps mon_query shots steps
  end.
