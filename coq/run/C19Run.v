(* Correspondence and monitor for C19, evaluated on cases written by harness/props/c19.py. *)
From Coq Require Import ZArith List Bool Arith.
Import ListNotations.
From HV Require Export lib.PyDict lib.Harness model.Shots spec.ShotsS.

Definition str := list Z.                       (* observed strings: code points *)
Definition render (bs : list bool) : str := map (fun b : bool => if b then 49%Z else 48%Z) bs.
Definition str_eqb : str -> str -> bool := list_eqb Z.eqb.

Inductive case :=
| CParse (t : tag) (obs : option (tag * N))
| CBits (es : list entry) (obs : res (list (tag * str)))
| CMulti (sn sl : bool) (shots : list (list entry))
         (obs : res (list (tag * list str))) (counts : res (list (tag * list (str * nat))))
| CCollate (shots : list (list entry)) (obs : res (list (list (tag * str) * nat))).

Definition res_eqb {A} (eqb : A -> A -> bool) (a b : res A) : bool :=
  match a, b with Ok x, Ok y => eqb x y | ValueError, ValueError => true | _, _ => false end.
Definition is_err {A} (a : res A) : bool := match a with ValueError => true | _ => false end.
Definition ts_eqb := pair_eqb tag_eqb str_eqb.
Definition count {A} (eqb : A -> A -> bool) (x : A) (l : list A) : nat := length (filter (eqb x) l).

(* dictionaries are compared as unordered maps: the property does not promise an order *)
Definition model_bits (es : list entry) : res (list (tag * str)) :=
  bind (to_register_bits es) (fun rb => Ok (map (fun '(r, bs) => (r, render bs)) rb)).
Definition counts_ok (obs : list (tag * list (str * nat))) (sd : list (tag * list str)) : bool :=
  Nat.eqb (length obs) (length sd) &&
  forallb (fun '(r, cs) =>
    match dget tag_eqb sd r with
    | Some l => forallb (fun '(s, n) => Nat.eqb (count str_eqb s l) n && negb (Nat.eqb n 0)) cs &&
                Nat.eqb (fold_right (fun sn acc => snd sn + acc) 0 cs) (length l) &&
                nodupb str_eqb (map fst cs)
    | None => false
    end) obs.
Definition model_multi (sn sl : bool) (shots : list (list entry)) : res (list (tag * list str)) :=
  bind (register_bitstrings sn sl shots) (fun sd => Ok (map (fun '(r, l) => (r, map render l)) sd)).
Definition tuple_eqb := list_eqb ts_eqb.
Definition model_collate (shots : list (list entry)) : res (list (list (tag * str))) :=
  mapM (fun es => bind (collated_shot es) (fun l => Ok (map (fun '(t, bs) => (t, render bs)) l))) shots.
(* the Counter's keys are tuples of (tag, string) pairs in the order the tags first occur in the shot: two shots
   with the same pairs in another order give two keys.  The property speaks of the per-tag strings, not of the
   order of the pairs inside a key, so keys are compared up to that order and the counts of keys that are
   permutations of each other are added up (thorough tier, seed 0: shots [a[0],zz9] and [zz9,a[0]]) *)
Definition merged (obs : list (list (tag * str) * nat)) (tp : list (tag * str)) : nat :=
  fold_right (fun tn acc => if perm_eqb ts_eqb (fst tn) tp then snd tn + acc else acc) 0 obs.
Definition collate_ok (obs : list (list (tag * str) * nat)) (tuples : list (list (tag * str))) : bool :=
  forallb (fun '(tp, n) => Nat.eqb (count (perm_eqb ts_eqb) tp tuples) (merged obs tp) && negb (Nat.eqb n 0)) obs &&
  Nat.eqb (fold_right (fun tn acc => snd tn + acc) 0 obs) (length tuples).

Definition corr (c : case) : bool :=
  match c with
  | CParse t obs => option_eqb (pair_eqb tag_eqb N.eqb) obs (parse_tag_n t)
  | CBits es obs => res_eqb (perm_eqb ts_eqb) obs (model_bits es)
  | CMulti sn sl shots obs counts =>
      let m := model_multi sn sl shots in
      res_eqb (perm_eqb (pair_eqb tag_eqb (list_eqb str_eqb))) obs m &&
      match counts, m with
      | Ok cs, Ok sd => counts_ok cs sd
      | ValueError, ValueError => true
      | _, _ => false
      end
  | CCollate shots obs =>
      match obs, model_collate shots with
      | Ok o, Ok tuples => collate_ok o tuples
      | ValueError, ValueError => true
      | _, _ => false
      end
  end.

(* ---- monitor: the specification on the implementation's observations ---- *)
Definition is_bitstr (s : str) : bool := forallb (fun c => Z.eqb c 48 || Z.eqb c 49) s.
Definition mon_bits (es : list entry) (obs : res (list (tag * str))) : bool :=
  match mapM entry_write es, obs with
  | ValueError, ValueError => true
  | Ok ws, Ok l =>
      nodupb tag_eqb (map fst l) &&
      forallb (fun '(r, s) => is_bitstr s &&
                 match reg_spec ws r with Some bs => str_eqb s (render bs) | None => false end) l &&
      forallb (fun tw => mem tag_eqb (fst tw) (map fst l)) ws
  | _, _ => false
  end.
Definition spec_multi (sn sl : bool) (shots : list (list entry)) : res (list (tag * list str)) :=
  match mapM to_register_bits shots with
  | ValueError => ValueError
  | Ok bits =>
      if (sn && names_differ bits) || (sl && lengths_differ bits) then ValueError
      else Ok (map (fun r => (r, map render (per_register bits r)))
                   (nodup (list_eq_dec Z.eq_dec) (flat_map (map fst) bits)))
  end.
(* collation spec: per shot, per tag in the shot, the concatenation of its flattened values *)
Definition spec_collate_shot (es : list entry) : res (list (tag * str)) :=
  mapM (fun t => bind (mapM cast (flatten (values_of es t))) (fun bs => Ok (t, render bs)))
       (nodup (list_eq_dec Z.eq_dec) (map fst es)).
Definition mon (c : case) : bool :=
  match c with
  | CParse t obs => true
  | CBits es obs => mon_bits es obs
  | CMulti sn sl shots obs counts =>
      let m := spec_multi sn sl shots in
      res_eqb (perm_eqb (pair_eqb tag_eqb (list_eqb str_eqb))) obs m &&
      match counts, m with
      | Ok cs, Ok sd => counts_ok cs sd
      | ValueError, ValueError => true
      | _, _ => false
      end
  | CCollate shots obs =>
      match obs, mapM spec_collate_shot shots with
      | Ok o, Ok tuples =>
          (* tuples compared up to the order of their (tag, string) pairs *)
          forallb (fun '(tp, n) => Nat.eqb (count (perm_eqb ts_eqb) tp tuples) (merged o tp)) o &&
          Nat.eqb (fold_right (fun tn acc => snd tn + acc) 0 o) (length tuples)
      | ValueError, ValueError => true
      | _, _ => false
      end
  end.
