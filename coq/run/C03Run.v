(* C03 uses the cases and the model instantiation of run/C02Run.v.  Its correspondence is the document
   part only (to_serial of the HUGR and of the reloaded HUGR); its monitor is mon3.
   The order in which the live nodes are listed is the writer's choice for C03 (r_ord / r_ord2, found by the harness,
   checked here: it must hold exactly the live nodes); documents are compared up to the order of the edges array and
   the writing of the metadata table (serial_sameb). *)
From Coq Require Import List Bool.
From HV Require Export run.C02Run.
Definition M_to_serial_in (L : list nat) (h : hugrT) : option serialT :=
  if order_admissible_b h L then to_serial_in o_enc o_ndp md_is_nil L h else None.
Definition corr3_rt (r : rt) : bool :=
  option_eqb serial_sameb (M_to_serial_in (r_ord r) (r_h r)) (r_doc r) &&
  match r_load r with
  | Some (h2, s2) => option_eqb serial_sameb (M_to_serial_in (r_ord2 r) h2) s2
  | None => true
  end.
Definition corr (c : case) : bool :=
  match c with
  | CHugr r | CHist _ _ _ _ r | CMut _ _ _ r => corr3_rt r
  | CPkg mods _ _ => forallb corr3_rt mods
  | CExt _ _ => true
  end.
Definition mon := mon3.
