(* C03 uses the cases, model instantiation and correspondence of run/C02Run.v; its monitor is mon3. *)
From HV Require Export run.C02Run.
Definition mon := mon3.
