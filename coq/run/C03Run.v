(* C03 uses the cases and the model instantiation of run/C02Run.v.  Its correspondence is the document
   part only (to_serial of the HUGR and of the reloaded HUGR); its monitor is mon3. *)
From Coq Require Import List Bool.
From HV Require Export run.C02Run.
Definition corr3_rt (r : rt) : bool :=
  option_eqb serial_eqb (M_to_serial (r_h r)) (r_doc r) &&
  match r_load r with
  | Some (h2, s2) => option_eqb serial_eqb (M_to_serial h2) s2
  | None => true
  end.
Definition corr (c : case) : bool :=
  match c with
  | CHugr r | CHist _ _ _ _ r | CMut _ _ _ r => corr3_rt r
  | CPkg mods _ _ => forallb corr3_rt mods
  | CExt _ _ => true
  end.
Definition mon := mon3.
