(* Correspondence and monitor for C04 (and the observation vocabulary shared with C08),
   evaluated on cases written by harness/props/c04.py.  Operations and metadata are interned to N. *)
From Coq Require Import List Bool Arith ZArith NArith.
Import ListNotations.
From HV Require Export lib.PyDict lib.Harness model.BiMapM model.Graph spec.GraphS.
From HV Require Import proofs.GraphInvP proofs.InsertP.

Definition zhugr := hugr N N.
Definition zgraph := agraph N N.
Definition zcmd := cmd N N.
Definition zbcmd := bcmd N N.

(* what the harness observes for one live node: self[n].op / .parent / .children / .metadata, num_in/out_ports *)
Record nobs := { n_op : N; n_parent : option nid; n_children : list nid; n_meta : N; n_nin : Z; n_nout : Z }.
Definition nobs_eqb (a b : nobs) : bool :=
  N.eqb (n_op a) (n_op b) && option_eqb Nat.eqb (n_parent a) (n_parent b) &&
  list_eqb Nat.eqb (n_children a) (n_children b) && N.eqb (n_meta a) (n_meta b) &&
  Z.eqb (n_nin a) (n_nin b) && Z.eqb (n_nout a) (n_nout b).

(* all public queries, asked over a universe of node indices / offsets / probe pairs fixed by the case;
   per-port listings keep only the ports with at least one link (DESIGN: the implementation lists no
   ports at all while the HUGR has zero links, a quirk the property does not speak about) *)
Record obs := {
  o_iter : list nid;                                   (* list(h) *)
  o_len : nat;                                         (* len(h) *)
  o_root : nid;
  o_get : list (option nobs);                          (* h[Node(i)] for i in the universe; None = KeyError *)
  o_links : list (port * port);                        (* links() *)
  o_lout : list (port * list port);                    (* linked_ports(out port), non-empty ones *)
  o_lin : list (port * list port);                     (* linked_ports(in port), non-empty ones *)
  o_outgoing : list (nid * list (port * list port));   (* outgoing_links(n), live n, non-empty ports *)
  o_incoming : list (nid * list (port * list port));
  o_ord_out : list (nid * list nid);                   (* outgoing_order_links(n), non-empty ones *)
  o_ord_in : list (nid * list nid);
  o_has : list bool }.                                 (* has_link on the probe pairs *)

Record universe := { u_ids : list nid; u_offs : list Z; u_probes : list (port * port) }.

(* one query interface, instantiated by the model and by the specification *)
Record queries := {
  k_iter : list nid; k_len : nat; k_root : nid; k_get : nid -> option nobs; k_links : list (port * port);
  k_lout : port -> list port; k_lin : port -> list port;
  k_outgoing : nid -> option (list (port * list port)); k_incoming : nid -> option (list (port * list port));
  k_ord_out : nid -> list nid; k_ord_in : nid -> list nid; k_has : port -> port -> bool }.

Definition nonempty {A B} (l : list (A * list B)) : list (A * list B) :=
  filter (fun x => match snd x with [] => false | _ => true end) l.
Definition all_ports (u : universe) : list port :=
  flat_map (fun n => map (fun o => (n, o)) (u_offs u)) (u_ids u).
Definition mk_obs (u : universe) (q : queries) : obs :=
  {| o_iter := k_iter q; o_len := k_len q; o_root := k_root q;
     o_get := map (k_get q) (u_ids u);
     o_links := k_links q;
     o_lout := nonempty (map (fun p => (p, k_lout q p)) (all_ports u));
     o_lin := nonempty (map (fun p => (p, k_lin q p)) (all_ports u));
     o_outgoing := flat_map (fun n => match k_outgoing q n with Some l => [(n, nonempty l)] | None => [] end) (u_ids u);
     o_incoming := flat_map (fun n => match k_incoming q n with Some l => [(n, nonempty l)] | None => [] end) (u_ids u);
     o_ord_out := nonempty (map (fun n => (n, k_ord_out q n)) (u_ids u));
     o_ord_in := nonempty (map (fun n => (n, k_ord_in q n)) (u_ids u));
     o_has := map (fun st => k_has q (fst st) (snd st)) (u_probes u) |}.

(* orders that the property does not promise are compared as multisets *)
Definition plist_eqb := list_eqb (pair_eqb port_eqb (perm_eqb port_eqb)).
Definition obs_eqb (a b : obs) : bool :=
  perm_eqb Nat.eqb (o_iter a) (o_iter b) && Nat.eqb (o_len a) (o_len b) && Nat.eqb (o_root a) (o_root b) &&
  list_eqb (option_eqb nobs_eqb) (o_get a) (o_get b) &&
  perm_eqb link_eqb (o_links a) (o_links b) &&
  plist_eqb (o_lout a) (o_lout b) && plist_eqb (o_lin a) (o_lin b) &&
  list_eqb (pair_eqb Nat.eqb plist_eqb) (o_outgoing a) (o_outgoing b) &&
  list_eqb (pair_eqb Nat.eqb plist_eqb) (o_incoming a) (o_incoming b) &&
  list_eqb (pair_eqb Nat.eqb (perm_eqb Nat.eqb)) (o_ord_out a) (o_ord_out b) &&
  list_eqb (pair_eqb Nat.eqb (perm_eqb Nat.eqb)) (o_ord_in a) (o_ord_in b) &&
  list_eqb Bool.eqb (o_has a) (o_has b).

Definition nobs_of_data (d : node_data N N) : nobs :=
  {| n_op := nd_op d; n_parent := nd_parent d; n_children := nd_children d; n_meta := nd_meta d;
     n_nin := nd_inps d; n_nout := nd_outs d |}.
Definition model_queries (h : zhugr) : queries :=
  {| k_iter := iter_nodes h; k_len := num_nodes h; k_root := root h;
     k_get := fun n => option_map nobs_of_data (get_node h n);
     k_links := q_links h; k_lout := linked_out h; k_lin := linked_in h;
     k_outgoing := outgoing_links h; k_incoming := incoming_links h;
     k_ord_out := outgoing_order_links h; k_ord_in := incoming_order_links h; k_has := has_link h |}.
Definition nobs_of_anode (a : anode N N) : nobs :=
  {| n_op := a_op a; n_parent := a_parent a; n_children := a_children a; n_meta := a_meta a;
     n_nin := a_nin a; n_nout := a_nout a |}.
Definition spec_queries (g : zgraph) : queries :=
  {| k_iter := sq_nodes g; k_len := length (a_nodes g); k_root := a_root g;
     k_get := fun n => option_map nobs_of_anode (dget Nat.eqb (a_nodes g) n);
     k_links := a_links g; k_lout := sq_linked_out g; k_lin := sq_linked_in g;
     k_outgoing := sq_outgoing g; k_incoming := sq_incoming g;
     k_ord_out := fun n => map fst (sq_linked_out g (n, (-1)%Z));
     k_ord_in := fun n => map fst (sq_linked_in g (n, (-1)%Z));
     k_has := s_has_link g |}.
Definition model_obs (u : universe) (h : zhugr) : obs := mk_obs u (model_queries h).
Definition spec_obs (u : universe) (g : zgraph) : obs := mk_obs u (spec_queries g).

Definition ret_eqb (a b : @ret) : bool :=
  match a, b with
  | RUnit, RUnit => true
  | RNode x, RNode y => Nat.eqb x y
  | RMap x, RMap y => perm_eqb (pair_eqb Nat.eqb Nat.eqb) x y        (* a dict: compared as a map *)
  | _, _ => false
  end.

Record case := { c_u : universe; c_rootop : N; c_rootmeta : N; c_init : obs;
                 c_steps : list (zcmd * (ret * res * obs)) }.

(* the property's guard, judged on the MODEL's state: the specification accepts the call on the abstraction of
   the state (live node arguments, offsets >= -1, deletion of a non-root leaf, insertion under a live parent of a
   HUGR itself built inside the guard -- its history re-annotated with the model's own return values).  This is
   [guarded1] of proofs/InsertP.v as a boolean. *)
Definition reannot (c : zcmd) : zcmd :=
  match c with
  | Basic _ => c
  | Insert o m _ src p => Insert o m 0 (trace_at (init o m) src) p
  end.
Definition in_guard (h : zhugr) (c : zcmd) (rt' : ret) : bool :=
  match s_step (abs h) (reannot c) rt' with OutOfScope => false | _ => true end.

(* correspondence: the implementation's return value, outcome class and observation == the model's.
   WHICH index a new node gets (and which indices the copies of an insertion get, in which order) is not prescribed
   by the property: the model takes the implementation's return value as the oracle of that choice ([step rt]) and
   follows it when it is admissible (any index that is not live: a freed one, the next fresh one, or one further beyond
   the end of the table; for an insertion: a mapping that is injective onto such indices); an inadmissible choice
   shows as a different return value.
   A call outside the property's guard ends the comparison: its exception class and effect are unspecified. *)
Fixpoint corr_steps (u : universe) (h : zhugr) (l : list (zcmd * (ret * res * obs))) : bool :=
  match l with
  | [] => true
  | (c, (rt, r, ob)) :: rest =>
      let '(h', rt', r') := step rt h c in
      if in_guard h c rt' then
        res_eqb r r' && (match r with Ok => ret_eqb rt rt' | _ => true end) &&
        obs_eqb ob (model_obs u h') && corr_steps u h' rest
      else true
  end.
Definition corr (c : case) : bool :=
  let h := init (c_rootop c) (c_rootmeta c) in
  obs_eqb (c_init c) (model_obs (c_u c) h) && corr_steps (c_u c) h (c_steps c).

(* monitor: the specification run on the same history, fed with the values the implementation
   returned, against the implementation's own observations.  A call outside the property's guard
   (dead node argument, non-leaf or root deletion, offset below -1) ends the monitored history. *)
Fixpoint mon_steps (u : universe) (g : zgraph) (l : list (zcmd * (ret * res * obs))) : bool :=
  match l with
  | [] => true
  | (c, (rt, r, ob)) :: rest =>
      match s_step g c rt with
      | OutOfScope => true
      | Bad => false
      | Next g' => res_eqb r Ok && obs_eqb ob (spec_obs u g') && counts_cover g' && mon_steps u g' rest
      end
  end.
Definition mon (c : case) : bool :=
  let g := s_init (o_root (c_init c)) (c_rootop c) (c_rootmeta c) in
  obs_eqb (c_init c) (spec_obs (c_u c) g) && mon_steps (c_u c) g (c_steps c).
