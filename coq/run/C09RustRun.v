(* C09, documented header as regenerated data: checks evaluated by `extra()` of harness/props/c09.py.
   Imports definitions only (gen/EnvelopeRust.v, gen/EnvelopePy.v, model/EnvelopeRustM.v): this module builds
   whatever the scanned constants are, so that a differing constant can be NAMED (`RData`) and a concrete
   byte string on which the documented (Rust) reader and hugr-py differ can be CONFIRMED (`RRow`, `RHdr`,
   `RWrite`) even when the theorems of proofs/EnvelopeRustP.v no longer hold. *)
From Coq Require Import NArith String List Bool Arith.
Import ListNotations.
From HV Require Export lib.Harness model.Envelope gen.EnvelopeRust gen.EnvelopePy model.EnvelopeRustM.
Open Scope N_scope.

Inductive rcase :=
(* the boolean content of one theorem on the regenerated constants (index = position in `data_checks`) *)
| RData (k : nat)
(* EnvelopeHeader.from_bytes (hugr-py, really run) on MAGIC_NUMBERS ++ [fb; fl] for one format byte fb and
   all 256 flag bytes: the accepted flag bytes with the decoded (format value, zstd) *)
| RRow (fb : N) (accepted : list (N * (N * bool))) (n_value_errors n_other : N)
(* EnvelopeHeader.from_bytes (hugr-py) on one byte string: Some (format value, zstd) | None = ValueError;
   `other` = another exception class was raised *)
| RHdr (input : bytes) (obs : option (N * bool)) (other : bool)
(* EnvelopeHeader(format = the member named py_name f, zstd).to_bytes() of hugr-py *)
| RWrite (f : format) (zstd : bool) (written : bytes).

Definition data_checks : list bool :=
  [chk_rust_magic; chk_rust_formats; chk_rust_printable; chk_rust_flags; chk_rust_lengths;
   chk_py_magic; chk_py_formats; chk_py_printable].

(* what the documented reader answers, in the vocabulary of the observation *)
Definition rust_obs (d : bytes) : option (N * bool) :=
  match rust_read d with
  | ROk v z => match rust_discriminant v with Some fv => Some (fv, z) | None => None end
  | RErr _ => None
  end.
Definition obs_eqb := option_eqb (pair_eqb N.eqb Bool.eqb).
Definition all_bytes : list N := map N.of_nat (seq 0 256).

Definition rok (c : rcase) : bool :=
  match c with
  | RData k => nth k data_checks false
  | RRow fb acc nve nother =>
      let expect := flat_map (fun fl => match rust_obs (rust_magic ++ [fb; fl]) with
                                        | Some o => [(fl, o)] | None => [] end) all_bytes in
      list_eqb (pair_eqb N.eqb (pair_eqb N.eqb Bool.eqb)) acc expect &&
      (nve =? 256 - N.of_nat (length expect)) && (nother =? 0)
  | RHdr input obs other => negb other && obs_eqb obs (rust_obs input)
  | RWrite f z written =>
      match rust_write (rust_name f) z with Some w => bytes_eqb w written | None => false end
  end.
