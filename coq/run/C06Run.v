(* Correspondence and monitor for C06, evaluated on cases written by harness/props/c06.py.
   Constants are represented by the type their value reports (V := ty, val.type_() = Ret). *)
From Coq Require Import ZArith NArith List Bool Arith.
Import ListNotations.
From HV Require Export lib.Harness model.Types model.TyEq model.Ops spec.OpsS.
Local Open Scope Z_scope.

Definition opT := op ty.
Definition vt (t : ty) : result ty := Ret t.
Definition ct (t : ty) : option ty := Some t.

(* observed signature: rows and extension requirements (sorted by the harness) *)
Definition sigobs := (list ty * list ty * list name)%type.

Inductive case :=
(* construction of Call (true) / LoadFunc (false): resulting attributes or the exception *)
| CNew (call : bool) (sig : polyfunc) (inst : option functy) (targs : option (list tyarg))
       (obs : result (polyfunc * functy * nat))
(* per operation: outer_signature(), inner_signature(), num_out, _function_port_offset(), .instantiation *)
| CSig (o : result opT) (outer inner : result sigobs) (nout fpo : result Z) (inst : option sigobs)
(* per port: op.port_kind, op.port_type, Hugr.port_kind, Hugr.port_type on a node holding the op *)
| CPort (o : result opT) (d : dir) (z : Z) (k : result kind) (t : result ty) (hk : result kind)
        (ht : result (option ty))
(* Conditional.nth_inputs(n) / DataflowBlock.nth_outputs(n) *)
| CNth (o : result opT) (n : Z) (ins outs : result (list ty)).

(* exception classes are not part of the property: any exception equals any exception *)
Definition res_eqv {A B} (eqb : A -> B -> bool) (a : result A) (b : result B) : bool :=
  match a, b with Ret x, Ret y => eqb x y | Raise _, Raise _ => true | _, _ => false end.
Definition raised {A} (a : result A) : bool := match a with Raise _ => true | _ => false end.
Definition kind_eqv (a b : kind) : bool :=
  match a, b with
  | ValueKind x, ValueKind y | ConstKind x, ConstKind y => ty_eqv x y
  | FunctionKind p, FunctionKind q => ty_eqv (pty p) (pty q)
  | CFKind, CFKind | OrderKind, OrderKind => true
  | _, _ => false
  end.
Definition rows_eqv (a b : list ty * list ty) : bool := row_eqv (fst a) (fst b) && row_eqv (snd a) (snd b).
Definition obs_rows (s : sigobs) : list ty * list ty := (fst (fst s), snd (fst s)).
Definition f_rows (f : functy) : list ty * list ty := (f_in f, f_out f).
Definition functy_eqv (a b : functy) : bool := ty_eqv (fty a) (fty b).

(* ---- correspondence: the implementation's observation equals the model's output ---- *)
Definition corr (c : case) : bool :=
  match c with
  | CNew call sig inst targs obs =>
      let m := if call then call_new sig inst targs else loadfunc_new sig inst targs in
      res_eqv (fun (x : polyfunc * functy * nat) (mo : opT) =>
                 match mo with
                 | OCall s i ta | OLoadFunc s i ta =>
                     ty_eqv (pty (fst (fst x))) (pty s) && functy_eqv (snd (fst x)) i && Nat.eqb (snd x) (length ta)
                 | _ => false
                 end) obs m
  (* the model refuses to construct the operation: so did the implementation (the harness then writes
     exceptions everywhere) *)
  | CSig (Raise _) outer inner nout fpo inst =>
      raised outer && raised inner && raised nout && raised fpo && match inst with None => true | _ => false end
  | CPort (Raise _) _ _ k t hk ht => raised k && raised t && raised hk && raised ht
  | CNth (Raise _) _ ins outs => raised ins && raised outs
  | CSig (Ret o) outer inner nout fpo inst =>
      res_eqv (fun s f => rows_eqv (obs_rows s) (f_rows f)) outer (outer_sig o) &&
      res_eqv (fun s f => rows_eqv (obs_rows s) (f_rows f)) inner (inner_sig o) &&
      res_eqv Z.eqb nout (num_out o) &&
      res_eqv Z.eqb fpo (function_port_offset o) &&
      match inst, o with
      | Some s, OCall _ i _ | Some s, OLoadFunc _ i _ => rows_eqv (obs_rows s) (f_rows i)
      | None, OCall _ _ _ | None, OLoadFunc _ _ _ => false
      | Some _, _ => false
      | None, _ => true
      end
  | CPort (Ret o) d z k t hk ht =>
      res_eqv kind_eqv k (port_kind vt o d z) &&
      res_eqv ty_eqv t (op_port_type o d z) &&
      res_eqv kind_eqv hk (port_kind vt o d z) &&
      res_eqv (option_eqb ty_eqv) ht (hugr_port_type vt o d z)
  | CNth (Ret o) n ins outs =>
      res_eqv row_eqv ins (nth_inputs o n) && res_eqv row_eqv outs (nth_outputs o n)
  end.

(* ---- monitor: the specification (spec/OpsS.v) evaluated on the implementation's observations ---- *)
Definition is_call (o : opT) : bool := match o with OCall _ _ _ => true | _ => false end.
Definition no_method {A} (a : result A) : bool := match a with Raise ENoMethod => true | _ => false end.
Definition not_typed (k : result kind) : bool :=
  match k with Ret (ValueKind _) | Ret (ConstKind _) | Ret (FunctionKind _) => false | _ => true end.

Definition mon_kind (sp : pspec) (k : result kind) : bool :=
  match sp with
  | Port k0 => res_eqv kind_eqv k (Ret k0)
  | NoPort => not_typed k
  | Unspecified => true
  end.

Definition mon (c : case) : bool :=
  match c with
  | CNew call sig inst targs obs =>
      match obs with
      | Raise _ => true
      | Ret (s, i, n) =>
          (* the operation keeps the function's signature; a monomorphic function is its own instance *)
          ty_eqv (pty s) (pty sig) &&
          match p_params sig, inst with
          | [], _ => functy_eqv i (p_body sig) && Nat.eqb n 0
          | _ :: _, Some i0 => functy_eqv i i0 && Nat.eqb n (length (p_params sig))
          | _ :: _, None => false
          end
      end
  | CSig (Raise _) _ _ _ _ _ | CPort (Raise _) _ _ _ _ _ _ | CNth (Raise _) _ _ _ => true
  | CSig (Ret o) outer inner nout fpo inst =>
      match spec_sig o with
      | Some s =>
          (if is_call o then match inst with Some i => rows_eqv (obs_rows i) s | None => false end
           else res_eqv (fun x y => rows_eqv (obs_rows x) y) outer (Ret s)) &&
          (* Call: the function port comes right after the value inputs *)
          (if is_call o then res_eqv Z.eqb fpo (Ret (zlen (fst s))) else true) &&
          (* LoadFunction exposes the instantiation too *)
          match o, inst with
          | OLoadFunc _ _ _, Some i => match snd s with [t] => ty_eqv t (TFunc (fst (fst i)) (snd (fst i)) (snd i)) | _ => false end
          | OLoadFunc _ _ _, None => false
          | _, _ => true
          end
      | None => true
      end &&
      match spec_inner_sig o with
      | Some s => res_eqv (fun x y => rows_eqv (obs_rows x) y) inner (Ret s)
      | None => true
      end &&
      match spec_num_out o with
      | Some n => res_eqv Z.eqb nout (Ret (Z.of_nat n))
      | None => true
      end
  | CPort (Ret o) d z k t hk ht =>
      let sp := spec_port_kind ct o d z in
      mon_kind sp k && mon_kind sp hk &&
      (* op.port_type (only the DataflowOp classes have the method) *)
      match sp with
      | Port (ValueKind t0) => no_method t || res_eqv ty_eqv t (Ret t0)
      | Port _ | NoPort => raised t
      | Unspecified => true
      end &&
      (* Hugr.port_type: the type of a value port, no type otherwise; on value INPUT ports "no type" is
         tolerated (the property only speaks about value outputs) *)
      match sp with
      | Port (ValueKind t0) =>
          match d with
          | Out => res_eqv (option_eqb ty_eqv) ht (Ret (Some t0))
          | In => res_eqv (option_eqb ty_eqv) ht (Ret (Some t0)) || res_eqv (option_eqb ty_eqv) ht (Ret None)
          end
      | Port _ | NoPort => match ht with Ret (Some _) => false | _ => true end
      | Unspecified => true
      end &&
      (* the type reported for a value output port equals the payload of that port's kind *)
      match d, hk with
      | Out, Ret (ValueKind t0) => res_eqv (option_eqb ty_eqv) ht (Ret (Some t0))
      | _, _ => true
      end
  | CNth (Ret o) n ins outs =>
      if n <? 0 then true
      else
        match spec_case_inputs o (Z.to_nat n) with Some r => res_eqv row_eqv ins (Ret r) | None => true end &&
        match spec_successor_inputs o (Z.to_nat n) with Some r => res_eqv row_eqv outs (Ret r) | None => true end
  end.
