(* Correspondence and monitor for C06, evaluated on cases written by harness/props/c06.py.
   Constants are represented by the type their value reports (V := ty, val.type_() = Ret). *)
From Coq Require Import ZArith NArith List Bool Arith.
Import ListNotations.
From HV Require Export lib.Harness model.Types model.TyEq model.Ops spec.OpsS model.OpsStore spec.OpsStoreS.
Local Open Scope Z_scope.

Definition opT := op ty.
Definition vt (t : ty) : result ty := Ret t.
Definition ct (t : ty) : option ty := Some t.

(* observed signature: rows and extension requirements (sorted by the harness) *)
Definition sigobs := (list ty * list ty * list name)%type.

(* An answer to a port-TYPE query (op.port_type, Hugr.port_type): [Ret (Some t)] = the type t is reported;
   [Ret None] and [Raise _] both mean that NO type is reported (whether "no type" is said by returning None or by
   raising, and with which exception class, is not part of the property). *)
Definition ptobs := result (option ty).
Definition reported (a : ptobs) : option ty := match a with Ret (Some t) => Some t | _ => None end.
Definition no_type (a : ptobs) : bool := match reported a with None => true | Some _ => false end.
Definition reports (a : ptobs) (t0 : ty) : bool := match reported a with Some t => ty_eqv t t0 | None => false end.
Definition same_report (a b : ptobs) : bool := option_eqb ty_eqv (reported a) (reported b).

(* one event of a history on ONE Hugr (harness: raw add_node / delete_node / `hugr[n].op = ..` / in-place
   mutation, or a builder program); after every step of the history the harness reads back the operation of
   every live node and queries it again *)
Inductive hev :=
| HPut (n : Z) (o : result opT)          (* index n now holds this operation (new node, op assigned / completed) *)
| HDel (n : Z)                           (* index n no longer holds a node *)
(* hugr[n].op.port_kind / .port_type, Hugr.port_kind / Hugr.port_type at port (n, d, z) *)
| HPort (n : Z) (d : dir) (z : Z) (k : result kind) (t : ptobs) (hk : result kind) (ht : ptobs)
(* hugr[n].op.outer_signature() / .inner_signature() / .num_out *)
| HSig (n : Z) (outer inner : result sigobs) (nout : result Z).

Inductive case :=
(* construction of Call (true) / LoadFunc (false): resulting attributes or the exception.  [inst_ok]: the
   harness built the instantiation handed to the constructor as an instance of [sig] at [targs] (or handed none
   for a monomorphic signature) -- only then is "the instantiated signature" of the specification known. *)
| CNew (call : bool) (sig : polyfunc) (inst : option functy) (targs : option (list tyarg)) (inst_ok : bool)
       (obs : result (polyfunc * functy * nat))
(* per operation: outer_signature(), inner_signature(), num_out, _function_port_offset(), .instantiation;
   [o] = [Raise _]: the implementation refused to construct the operation (no operation, nothing to judge) *)
| CSig (o : result opT) (outer inner : result sigobs) (nout fpo : result Z) (inst : option sigobs)
(* per port: op.port_kind, op.port_type, Hugr.port_kind, Hugr.port_type on a node holding the op *)
| CPort (o : result opT) (d : dir) (z : Z) (k : result kind) (t : ptobs) (hk : result kind) (ht : ptobs)
(* Conditional.nth_inputs(n) / DataflowBlock.nth_outputs(n) *)
| CNth (o : result opT) (n : Z) (ins outs : result (list ty))
(* a history of one Hugr with the answers observed after each step *)
| CHist (l : list hev).

(* exception classes are not part of the property: any exception equals any exception *)
Definition res_eqv {A B} (eqb : A -> B -> bool) (a : result A) (b : result B) : bool :=
  match a, b with Ret x, Ret y => eqb x y | Raise _, Raise _ => true | _, _ => false end.
Definition raised {A} (a : result A) : bool := match a with Raise _ => true | _ => false end.
Definition kind_eqv (a b : kind) : bool :=
  match a, b with
  | ValueKind x, ValueKind y | ConstKind x, ConstKind y => ty_eqv x y
  | FunctionKind p, FunctionKind q => ty_eqv (pty p) (pty q)
  | CFKind, CFKind | OrderKind, OrderKind => true
  | _, _ => false
  end.
Definition rows_eqv (a b : list ty * list ty) : bool := row_eqv (fst a) (fst b) && row_eqv (snd a) (snd b).
Definition obs_rows (s : sigobs) : list ty * list ty := (fst (fst s), snd (fst s)).
Definition f_rows (f : functy) : list ty * list ty := (f_in f, f_out f).
Definition functy_eqv (a b : functy) : bool := ty_eqv (fty a) (fty b).
Definition is_call (o : opT) : bool := match o with OCall _ _ _ => true | _ => false end.
(* AttributeError: the class has no such method / attribute, i.e. the question was not answered at all *)
Definition no_method {A} (a : result A) : bool := match a with Raise ENoMethod => true | _ => false end.
Definition not_typed (k : result kind) : bool :=
  match k with Ret (ValueKind _) | Ret (ConstKind _) | Ret (FunctionKind _) => false | _ => true end.
Definition sig_eqv (a : result sigobs) (s : list ty * list ty) : bool :=
  match a with Ret x => rows_eqv (obs_rows x) s | Raise _ => false end.

(* ---- correspondence: the implementation's observation equals the model's output ----
   The comparison is made on the property's domain, i.e. where the specification (spec/OpsS.v) speaks:
     * the specification gives the answer (a port it has, the signature of a complete operation, ...): the
       observation must be the MODEL's answer; where the model's answer is "nothing reported" (a class without the
       method: Call.outer_signature / Call.port_type; Hugr.port_type = None on the value inputs of a Call) the
       answer the specification assigns is equally right -- a wrong answer never is;
     * the specification has no such port: only an answer claiming a typed port / a type contradicts it (which
       untyped answer is given -- an exception of whatever class, None, OrderKind, CFKind -- is not prescribed);
     * the specification is silent (incomplete operation, offset below -1, index out of range, an operation the
       implementation refuses to construct): nothing is compared. *)
Definition corr_kind (sp : pspec) (k m : result kind) : bool :=
  match sp with
  | Port _ => res_eqv kind_eqv k m
  | NoPort => not_typed k
  | Unspecified => true
  end.
(* [none_ok_in]: on a value INPUT port "no type" is an admissible answer (Hugr.port_type; the property's
   statement about reported types is about value outputs) *)
Definition corr_ptype (none_ok_in : bool) (sp : pspec) (d : dir) (a m : ptobs) : bool :=
  match sp with
  | Port (ValueKind t0) =>
      same_report a m || reports a t0 ||
      match d with In => none_ok_in && no_type a | Out => false end
  | Port _ | NoPort => no_type a
  | Unspecified => true
  end.
(* [mk], [mt], [mht]: the model's answers (port_kind, op.port_type, Hugr.port_type) *)
Definition corr_port_ans (o : opT) (d : dir) (z : Z) (k : result kind) (t : ptobs) (hk : result kind) (ht : ptobs)
           (mk : result kind) (mt : result ty) (mht : ptobs) : bool :=
  let sp := spec_port_kind ct o d z in
  corr_kind sp k mk && corr_ptype false sp d t (rmap Some mt) && corr_kind sp hk mk && corr_ptype true sp d ht mht.
Definition corr_port (o : opT) (d : dir) (z : Z) (k : result kind) (t : ptobs) (hk : result kind) (ht : ptobs)
  : bool :=
  corr_port_ans o d z k t hk ht (port_kind vt o d z) (op_port_type o d z) (hugr_port_type vt o d z).
(* a signature: the model's answer, or (where the model's class has no such method) the specification's *)
Definition corr_sig (sp : option (list ty * list ty)) (a : result sigobs) (m : result functy) : bool :=
  match sp with
  | Some s => res_eqv (fun x f => rows_eqv (obs_rows x) (f_rows f)) a m || sig_eqv a s
  | None => true
  end.
Definition corr_sig3_ans (o : opT) (outer inner : result sigobs) (nout : result Z)
           (mo mi : result functy) (mn : result Z) : bool :=
  corr_sig (spec_sig o) outer mo &&
  corr_sig (spec_inner_sig o) inner mi &&
  match spec_num_out o with Some _ => res_eqv Z.eqb nout mn | None => true end.
Definition corr_sig3 (o : opT) (outer inner : result sigobs) (nout : result Z) : bool :=
  corr_sig3_ans o outer inner nout (outer_sig o) (inner_sig o) (num_out o).
(* an index that holds no node: no typed kind, no type (a remembered answer would be one) *)
Definition vacant_port (k : result kind) (t : ptobs) (hk : result kind) (ht : ptobs) : bool :=
  not_typed k && no_type t && not_typed hk && no_type ht.
Definition vacant_sig (outer inner : result sigobs) (nout : result Z) : bool :=
  raised outer && raised inner && raised nout.

(* histories: the model's node store (model/OpsStore.v) is run along the events; every observation is compared
   with the store's answer at that moment ([None] = KeyError: the index holds no node); the operation the store
   holds there only tells where the specification speaks *)
Fixpoint corr_hist (s : store ty) (l : list hev) : bool :=
  match l with
  | [] => true
  | HPut n (Ret o) :: r => corr_hist (apply s (SPut n o)) r
  | HPut n (Raise _) :: r => false          (* the harness only writes operations it could construct *)
  | HDel n :: r => corr_hist (apply s (SDel n)) r
  | HPort n d z k t hk ht :: r =>
      match lookup s n, store_port_kind vt s n d z, store_op_port_type s n d z, store_port_type vt s n d z with
      | Some o, Some mk, Some mt, Some mht => corr_port_ans o d z k t hk ht mk mt mht
      | None, None, None, None => vacant_port k t hk ht
      | _, _, _, _ => false
      end && corr_hist s r
  | HSig n outer inner nout :: r =>
      match lookup s n, store_outer_sig s n, store_inner_sig s n, store_num_out s n with
      | Some o, Some mo, Some mi, Some mn => corr_sig3_ans o outer inner nout mo mi mn
      | None, None, None, None => vacant_sig outer inner nout
      | _, _, _, _ => false
      end && corr_hist s r
  end.

Definition corr (c : case) : bool :=
  match c with
  | CHist l => corr_hist [] l
  | CNew call sig inst targs inst_ok obs =>
      let m : result opT := if call then call_new sig inst targs else loadfunc_new sig inst targs in
      match obs, m with
      | Ret x, Ret (OCall s i _) | Ret x, Ret (OLoadFunc s i _) =>
          ty_eqv (pty (fst (fst x))) (pty s) && (negb inst_ok || functy_eqv (snd (fst x)) i)
      | Ret _, Ret _ => false
      (* a refusal (by the implementation, or by the model of today's constructor): no operation exists, the
         property promises nothing about which arguments a constructor accepts *)
      | _, _ => true
      end
  | CSig (Raise _) _ _ _ _ _ | CPort (Raise _) _ _ _ _ _ _ | CNth (Raise _) _ _ _ => true
  | CSig (Ret o) outer inner nout fpo inst =>
      corr_sig3 o outer inner nout &&
      (* _function_port_offset is a private helper of Call: absent is fine, a wrong answer is not *)
      (if is_call o then no_method fpo || res_eqv Z.eqb fpo (function_port_offset o) else true) &&
      match inst, o with
      | Some s, OCall _ i _ | Some s, OLoadFunc _ i _ => rows_eqv (obs_rows s) (f_rows i)
      | None, OCall _ _ _ | None, OLoadFunc _ _ _ => false
      | _, _ => true
      end
  | CPort (Ret o) d z k t hk ht => corr_port o d z k t hk ht
  | CNth (Ret o) n ins outs =>
      if n <? 0 then true
      else
        match spec_case_inputs o (Z.to_nat n) with Some _ => res_eqv row_eqv ins (nth_inputs o n) | None => true end &&
        match spec_successor_inputs o (Z.to_nat n) with Some _ => res_eqv row_eqv outs (nth_outputs o n) | None => true end
  end.

(* ---- monitor: the specification (spec/OpsS.v) evaluated on the implementation's observations ---- *)
Definition mon_kind (sp : pspec) (k : result kind) : bool :=
  match sp with
  | Port k0 => res_eqv kind_eqv k (Ret k0)
  | NoPort => not_typed k
  | Unspecified => true
  end.

Definition mon_port (o : opT) (d : dir) (z : Z) (k : result kind) (t : ptobs) (hk : result kind)
           (ht : ptobs) : bool :=
  let sp := spec_port_kind ct o d z in
  mon_kind sp k && mon_kind sp hk &&
  (* op.port_type (only the DataflowOp classes have the method) *)
  match sp with
  | Port (ValueKind t0) => no_method t || reports t t0
  | Port _ | NoPort => no_type t
  | Unspecified => true
  end &&
  (* Hugr.port_type: the type of a value port, no type otherwise; on value INPUT ports "no type" is
     tolerated (the property only speaks about value outputs), a wrong type is not *)
  match sp with
  | Port (ValueKind t0) =>
      match d with
      | Out => reports ht t0
      | In => reports ht t0 || no_type ht
      end
  | Port _ | NoPort => no_type ht
  | Unspecified => true
  end &&
  (* the type reported for a value output port equals the payload of that port's kind *)
  match d, hk with
  | Out, Ret (ValueKind t0) => reports ht t0
  | _, _ => true
  end.

(* signatures and output count of the operation a node holds (for Call, which has no outer_signature(), the
   method may be absent) *)
Definition mon_sig3 (o : opT) (outer inner : result sigobs) (nout : result Z) : bool :=
  match spec_sig o with
  | Some s => (is_call o && no_method outer) || sig_eqv outer s
  | None => true
  end &&
  match spec_inner_sig o with
  | Some s => sig_eqv inner s
  | None => true
  end &&
  match spec_num_out o with
  | Some n => res_eqv Z.eqb nout (Ret (Z.of_nat n))
  | None => true
  end.

(* histories: the operation the specification is asked about is the one the LAST event touching the index put
   there (spec/OpsStoreS.v, [last_touch] on the events read backwards -- not the model's store); an index
   without a node gives no answer *)
Definition cur_op (rl : list (sstep ty)) (n : Z) : option opT :=
  match last_touch rl n with Some (SPut _ o) => Some o | _ => None end.
Fixpoint mon_hist (rl : list (sstep ty)) (l : list hev) : bool :=
  match l with
  | [] => true
  | HPut n (Ret o) :: r => mon_hist (SPut n o :: rl) r
  | HPut n (Raise _) :: r => true
  | HDel n :: r => mon_hist (SDel n :: rl) r
  | HPort n d z k t hk ht :: r =>
      match cur_op rl n with
      | Some o => mon_port o d z k t hk ht
      | None => vacant_port k t hk ht
      end && mon_hist rl r
  | HSig n outer inner nout :: r =>
      match cur_op rl n with
      | Some o => mon_sig3 o outer inner nout
      | None => vacant_sig outer inner nout
      end && mon_hist rl r
  end.

Definition mon (c : case) : bool :=
  match c with
  | CHist l => mon_hist [] l
  | CNew call sig inst targs inst_ok obs =>
      match obs with
      | Raise _ => true
      | Ret (s, i, _) =>
          (* the operation keeps the function's signature; a monomorphic function is its own instance; the
             instantiation handed over (an instance of the signature) is the one exposed *)
          ty_eqv (pty s) (pty sig) &&
          (negb inst_ok ||
           match p_params sig, inst with
           | [], _ => functy_eqv i (p_body sig)
           | _ :: _, Some i0 => functy_eqv i i0
           | _ :: _, None => true
           end)
      end
  | CSig (Raise _) _ _ _ _ _ | CPort (Raise _) _ _ _ _ _ _ | CNth (Raise _) _ _ _ => true
  | CSig (Ret o) outer inner nout fpo inst =>
      mon_sig3 o outer inner nout &&
      match spec_sig o with
      | Some s =>
          (* Call / LoadFunction expose the instantiated signature (public attribute [instantiation]) *)
          (if is_call o then match inst with Some i => rows_eqv (obs_rows i) s | None => false end else true) &&
          (* Call: the function port comes right after the value inputs (private helper; the public face of
             this clause is port_kind at that offset, judged by the port cases) *)
          (if is_call o then no_method fpo || res_eqv Z.eqb fpo (Ret (zlen (fst s))) else true) &&
          match o, inst with
          | OLoadFunc _ _ _, Some i => match snd s with [t] => ty_eqv t (TFunc (fst (fst i)) (snd (fst i)) (snd i)) | _ => false end
          | OLoadFunc _ _ _, None => false
          | _, _ => true
          end
      | None => true
      end
  | CPort (Ret o) d z k t hk ht => mon_port o d z k t hk ht
  | CNth (Ret o) n ins outs =>
      if n <? 0 then true
      else
        match spec_case_inputs o (Z.to_nat n) with Some r => res_eqv row_eqv ins (Ret r) | None => true end &&
        match spec_successor_inputs o (Z.to_nat n) with Some r => res_eqv row_eqv outs (Ret r) | None => true end
  end.
