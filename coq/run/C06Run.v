(* Correspondence and monitor for C06, evaluated on cases written by harness/props/c06.py.
   Constants are represented by the type their value reports (V := ty, val.type_() = Ret). *)
From Coq Require Import ZArith NArith List Bool Arith.
Import ListNotations.
From HV Require Export lib.Harness model.Types model.TyEq model.Ops spec.OpsS model.OpsStore spec.OpsStoreS.
Local Open Scope Z_scope.

Definition opT := op ty.
Definition vt (t : ty) : result ty := Ret t.
Definition ct (t : ty) : option ty := Some t.

(* observed signature: rows and extension requirements (sorted by the harness) *)
Definition sigobs := (list ty * list ty * list name)%type.

(* one event of a history on ONE Hugr (harness: raw add_node / delete_node / `hugr[n].op = ..` / in-place
   mutation, or a builder program); after every step of the history the harness reads back the operation of
   every live node and queries it again *)
Inductive hev :=
| HPut (n : Z) (o : result opT)          (* index n now holds this operation (new node, op assigned / completed) *)
| HDel (n : Z)                           (* index n no longer holds a node *)
(* hugr[n].op.port_kind / .port_type, Hugr.port_kind / Hugr.port_type at port (n, d, z) *)
| HPort (n : Z) (d : dir) (z : Z) (k : result kind) (t : result ty) (hk : result kind) (ht : result (option ty))
(* hugr[n].op.outer_signature() / .inner_signature() / .num_out *)
| HSig (n : Z) (outer inner : result sigobs) (nout : result Z).

Inductive case :=
(* construction of Call (true) / LoadFunc (false): resulting attributes or the exception *)
| CNew (call : bool) (sig : polyfunc) (inst : option functy) (targs : option (list tyarg))
       (obs : result (polyfunc * functy * nat))
(* per operation: outer_signature(), inner_signature(), num_out, _function_port_offset(), .instantiation *)
| CSig (o : result opT) (outer inner : result sigobs) (nout fpo : result Z) (inst : option sigobs)
(* per port: op.port_kind, op.port_type, Hugr.port_kind, Hugr.port_type on a node holding the op *)
| CPort (o : result opT) (d : dir) (z : Z) (k : result kind) (t : result ty) (hk : result kind)
        (ht : result (option ty))
(* Conditional.nth_inputs(n) / DataflowBlock.nth_outputs(n) *)
| CNth (o : result opT) (n : Z) (ins outs : result (list ty))
(* a history of one Hugr with the answers observed after each step *)
| CHist (l : list hev).

(* exception classes are not part of the property: any exception equals any exception *)
Definition res_eqv {A B} (eqb : A -> B -> bool) (a : result A) (b : result B) : bool :=
  match a, b with Ret x, Ret y => eqb x y | Raise _, Raise _ => true | _, _ => false end.
Definition raised {A} (a : result A) : bool := match a with Raise _ => true | _ => false end.
Definition kind_eqv (a b : kind) : bool :=
  match a, b with
  | ValueKind x, ValueKind y | ConstKind x, ConstKind y => ty_eqv x y
  | FunctionKind p, FunctionKind q => ty_eqv (pty p) (pty q)
  | CFKind, CFKind | OrderKind, OrderKind => true
  | _, _ => false
  end.
Definition rows_eqv (a b : list ty * list ty) : bool := row_eqv (fst a) (fst b) && row_eqv (snd a) (snd b).
Definition obs_rows (s : sigobs) : list ty * list ty := (fst (fst s), snd (fst s)).
Definition f_rows (f : functy) : list ty * list ty := (f_in f, f_out f).
Definition functy_eqv (a b : functy) : bool := ty_eqv (fty a) (fty b).

(* ---- correspondence: the implementation's observation equals the model's output ---- *)
(* an answer of the node store (None = KeyError: the index holds no node) against an observed answer *)
Definition opt_eqv {A B} (eqb : A -> B -> bool) (a : result A) (m : option (result B)) : bool :=
  match m with Some b => res_eqv eqb a b | None => raised a end.

(* histories: the model's node store (model/OpsStore.v) is run along the events; every observation is compared
   with the store's answer at that moment *)
Fixpoint corr_hist (s : store ty) (l : list hev) : bool :=
  match l with
  | [] => true
  | HPut n (Ret o) :: r => corr_hist (apply s (SPut n o)) r
  | HPut n (Raise _) :: r => false          (* the harness only writes operations it could construct *)
  | HDel n :: r => corr_hist (apply s (SDel n)) r
  | HPort n d z k t hk ht :: r =>
      opt_eqv kind_eqv k (store_port_kind vt s n d z) &&
      opt_eqv ty_eqv t (store_op_port_type s n d z) &&
      opt_eqv kind_eqv hk (store_port_kind vt s n d z) &&
      opt_eqv (option_eqb ty_eqv) ht (store_port_type vt s n d z) &&
      corr_hist s r
  | HSig n outer inner nout :: r =>
      opt_eqv (fun x f => rows_eqv (obs_rows x) (f_rows f)) outer (store_outer_sig s n) &&
      opt_eqv (fun x f => rows_eqv (obs_rows x) (f_rows f)) inner (store_inner_sig s n) &&
      opt_eqv Z.eqb nout (store_num_out s n) &&
      corr_hist s r
  end.

Definition corr (c : case) : bool :=
  match c with
  | CHist l => corr_hist [] l
  | CNew call sig inst targs obs =>
      let m := if call then call_new sig inst targs else loadfunc_new sig inst targs in
      res_eqv (fun (x : polyfunc * functy * nat) (mo : opT) =>
                 match mo with
                 | OCall s i ta | OLoadFunc s i ta =>
                     ty_eqv (pty (fst (fst x))) (pty s) && functy_eqv (snd (fst x)) i && Nat.eqb (snd x) (length ta)
                 | _ => false
                 end) obs m
  (* the model refuses to construct the operation: so did the implementation (the harness then writes
     exceptions everywhere) *)
  | CSig (Raise _) outer inner nout fpo inst =>
      raised outer && raised inner && raised nout && raised fpo && match inst with None => true | _ => false end
  | CPort (Raise _) _ _ k t hk ht => raised k && raised t && raised hk && raised ht
  | CNth (Raise _) _ ins outs => raised ins && raised outs
  | CSig (Ret o) outer inner nout fpo inst =>
      res_eqv (fun s f => rows_eqv (obs_rows s) (f_rows f)) outer (outer_sig o) &&
      res_eqv (fun s f => rows_eqv (obs_rows s) (f_rows f)) inner (inner_sig o) &&
      res_eqv Z.eqb nout (num_out o) &&
      res_eqv Z.eqb fpo (function_port_offset o) &&
      match inst, o with
      | Some s, OCall _ i _ | Some s, OLoadFunc _ i _ => rows_eqv (obs_rows s) (f_rows i)
      | None, OCall _ _ _ | None, OLoadFunc _ _ _ => false
      | Some _, _ => false
      | None, _ => true
      end
  | CPort (Ret o) d z k t hk ht =>
      res_eqv kind_eqv k (port_kind vt o d z) &&
      res_eqv ty_eqv t (op_port_type o d z) &&
      res_eqv kind_eqv hk (port_kind vt o d z) &&
      res_eqv (option_eqb ty_eqv) ht (hugr_port_type vt o d z)
  | CNth (Ret o) n ins outs =>
      res_eqv row_eqv ins (nth_inputs o n) && res_eqv row_eqv outs (nth_outputs o n)
  end.

(* ---- monitor: the specification (spec/OpsS.v) evaluated on the implementation's observations ---- *)
Definition is_call (o : opT) : bool := match o with OCall _ _ _ => true | _ => false end.
Definition no_method {A} (a : result A) : bool := match a with Raise ENoMethod => true | _ => false end.
Definition not_typed (k : result kind) : bool :=
  match k with Ret (ValueKind _) | Ret (ConstKind _) | Ret (FunctionKind _) => false | _ => true end.

Definition mon_kind (sp : pspec) (k : result kind) : bool :=
  match sp with
  | Port k0 => res_eqv kind_eqv k (Ret k0)
  | NoPort => not_typed k
  | Unspecified => true
  end.

Definition mon_port (o : opT) (d : dir) (z : Z) (k : result kind) (t : result ty) (hk : result kind)
           (ht : result (option ty)) : bool :=
  let sp := spec_port_kind ct o d z in
  mon_kind sp k && mon_kind sp hk &&
  (* op.port_type (only the DataflowOp classes have the method) *)
  match sp with
  | Port (ValueKind t0) => no_method t || res_eqv ty_eqv t (Ret t0)
  | Port _ | NoPort => raised t
  | Unspecified => true
  end &&
  (* Hugr.port_type: the type of a value port, no type otherwise; on value INPUT ports "no type" is
     tolerated (the property only speaks about value outputs) *)
  match sp with
  | Port (ValueKind t0) =>
      match d with
      | Out => res_eqv (option_eqb ty_eqv) ht (Ret (Some t0))
      | In => res_eqv (option_eqb ty_eqv) ht (Ret (Some t0)) || res_eqv (option_eqb ty_eqv) ht (Ret None)
      end
  | Port _ | NoPort => match ht with Ret (Some _) => false | _ => true end
  | Unspecified => true
  end &&
  (* the type reported for a value output port equals the payload of that port's kind *)
  match d, hk with
  | Out, Ret (ValueKind t0) => res_eqv (option_eqb ty_eqv) ht (Ret (Some t0))
  | _, _ => true
  end.

(* signatures and output count of the operation a node holds (histories; for Call, which has no
   outer_signature(), only the output count) *)
Definition mon_sig3 (o : opT) (outer inner : result sigobs) (nout : result Z) : bool :=
  match spec_sig o with
  | Some s => if is_call o then true else res_eqv (fun x y => rows_eqv (obs_rows x) y) outer (Ret s)
  | None => true
  end &&
  match spec_inner_sig o with
  | Some s => res_eqv (fun x y => rows_eqv (obs_rows x) y) inner (Ret s)
  | None => true
  end &&
  match spec_num_out o with
  | Some n => res_eqv Z.eqb nout (Ret (Z.of_nat n))
  | None => true
  end.

(* histories: the operation the specification is asked about is the one the LAST event touching the index put
   there (spec/OpsStoreS.v, [last_touch] on the events read backwards -- not the model's store); an index
   without a node gives no answer *)
Definition cur_op (rl : list (sstep ty)) (n : Z) : option opT :=
  match last_touch rl n with Some (SPut _ o) => Some o | _ => None end.
Fixpoint mon_hist (rl : list (sstep ty)) (l : list hev) : bool :=
  match l with
  | [] => true
  | HPut n (Ret o) :: r => mon_hist (SPut n o :: rl) r
  | HPut n (Raise _) :: r => true
  | HDel n :: r => mon_hist (SDel n :: rl) r
  | HPort n d z k t hk ht :: r =>
      match cur_op rl n with
      | Some o => mon_port o d z k t hk ht
      | None => raised k && raised t && raised hk && raised ht
      end && mon_hist rl r
  | HSig n outer inner nout :: r =>
      match cur_op rl n with
      | Some o => mon_sig3 o outer inner nout
      | None => raised outer && raised inner && raised nout
      end && mon_hist rl r
  end.

Definition mon (c : case) : bool :=
  match c with
  | CHist l => mon_hist [] l
  | CNew call sig inst targs obs =>
      match obs with
      | Raise _ => true
      | Ret (s, i, n) =>
          (* the operation keeps the function's signature; a monomorphic function is its own instance *)
          ty_eqv (pty s) (pty sig) &&
          match p_params sig, inst with
          | [], _ => functy_eqv i (p_body sig) && Nat.eqb n 0
          | _ :: _, Some i0 => functy_eqv i i0 && Nat.eqb n (length (p_params sig))
          | _ :: _, None => false
          end
      end
  | CSig (Raise _) _ _ _ _ _ | CPort (Raise _) _ _ _ _ _ _ | CNth (Raise _) _ _ _ => true
  | CSig (Ret o) outer inner nout fpo inst =>
      match spec_sig o with
      | Some s =>
          (if is_call o then match inst with Some i => rows_eqv (obs_rows i) s | None => false end
           else res_eqv (fun x y => rows_eqv (obs_rows x) y) outer (Ret s)) &&
          (* Call: the function port comes right after the value inputs *)
          (if is_call o then res_eqv Z.eqb fpo (Ret (zlen (fst s))) else true) &&
          (* LoadFunction exposes the instantiation too *)
          match o, inst with
          | OLoadFunc _ _ _, Some i => match snd s with [t] => ty_eqv t (TFunc (fst (fst i)) (snd (fst i)) (snd i)) | _ => false end
          | OLoadFunc _ _ _, None => false
          | _, _ => true
          end
      | None => true
      end &&
      match spec_inner_sig o with
      | Some s => res_eqv (fun x y => rows_eqv (obs_rows x) y) inner (Ret s)
      | None => true
      end &&
      match spec_num_out o with
      | Some n => res_eqv Z.eqb nout (Ret (Z.of_nat n))
      | None => true
      end
  | CPort (Ret o) d z k t hk ht => mon_port o d z k t hk ht
  | CNth (Ret o) n ins outs =>
      if n <? 0 then true
      else
        match spec_case_inputs o (Z.to_nat n) with Some r => res_eqv row_eqv ins (Ret r) | None => true end &&
        match spec_successor_inputs o (Z.to_nat n) with Some r => res_eqv row_eqv outs (Ret r) | None => true end
  end.
