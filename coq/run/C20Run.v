(* Correspondence and monitor for C20, evaluated on cases written by harness/props/c20.py. *)
From Coq Require Import ZArith NArith List Bool Arith.
Import ListNotations.
From HV Require Export lib.Harness model.Render spec.RenderS.

(* one HUGR (as read through the public queries), its renderings under several configurations
   (None = render raised), and whether the HUGR was left unchanged by rendering *)
Inductive case := CRender (h : hview) (rs : list (config * option dot)) (unchanged : bool).

(* the drawing has the promised content of the model's: equal up to the order of the edge statements and of the sibling
   statements inside a cluster, colours, the metadata text, the labels of non-value edges and which of its two display names (with or
   without extension prefix) a statement shows - the monitor demands one of the two - (the property promises
   one statement per node/link with name, cells, endpoints, value-edge type labels, and the nesting - none of these) *)
Definition corr (c : case) : bool :=
  match c with
  | CRender h rs _ =>
      forallb (fun cd => match snd cd with
                         | Some d => dot_peqb (erase true (promised (hv_links h) d))
                                             (erase true (promised (hv_links h) (render (fst cd) (hv_tree h) (hv_links h))))
                         | None => false
                         end) rs
  end.

Definition all_some (rs : list (config * option dot)) : list (config * dot) :=
  flat_map (fun cd => match snd cd with Some d => [(fst cd, d)] | None => [] end) rs.

Definition mon (c : case) : bool :=
  match c with
  | CRender h rs unchanged =>
      unchanged &&
      forallb (fun cd => match snd cd with Some d => spec_p_b (fst cd) h d | None => false end) rs &&
      match all_some rs with
      | [] => true
      | (c0, d0) :: r =>
          (* independent of the options except for colours and (when qualification differs) operation names;
             statement order is not part of what the property lists, so it is not compared here either *)
          forallb (fun cd => dot_peqb (erase true d0) (erase true (snd cd)) &&
                             (negb (Bool.eqb (c_qualify c0) (c_qualify (fst cd))) ||
                              dot_peqb (erase false d0) (erase false (snd cd)))) r
      end &&
      (* a drawing is determined by the HUGR and the options of that rendering: any two renderings of the case made
         under equal options (before / after other renderers were created, customised and used) are the same drawing,
         colours and names included *)
      determined_b (all_some rs)
  end.
