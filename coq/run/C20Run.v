(* Correspondence and monitor for C20, evaluated on cases written by harness/props/c20.py. *)
From Coq Require Import ZArith NArith List Bool Arith.
Import ListNotations.
From HV Require Export lib.Harness model.Render spec.RenderS.

(* one HUGR (as read through the public queries), its renderings under several configurations
   (None = render raised), and whether the HUGR was left unchanged by rendering *)
Inductive case := CRender (h : hview) (rs : list (config * option dot)) (unchanged : bool).

(* the drawing equals the model's up to the order of the edge statements and of the sibling statements inside a
   cluster (the property promises one statement per node/link and the nesting, not these orders) *)
Definition corr (c : case) : bool :=
  match c with
  | CRender h rs _ =>
      forallb (fun cd => match snd cd with
                         | Some d => dot_peqb d (render (fst cd) (hv_tree h) (hv_links h))
                         | None => false
                         end) rs
  end.

Definition all_some (rs : list (config * option dot)) : list (config * dot) :=
  flat_map (fun cd => match snd cd with Some d => [(fst cd, d)] | None => [] end) rs.

Definition mon (c : case) : bool :=
  match c with
  | CRender h rs unchanged =>
      unchanged &&
      forallb (fun cd => match snd cd with Some d => spec_b (fst cd) h d | None => false end) rs &&
      match all_some rs with
      | [] => true
      | (c0, d0) :: r =>
          forallb (fun cd => dot_eqb (erase true d0) (erase true (snd cd)) &&
                             (negb (Bool.eqb (c_qualify c0) (c_qualify (fst cd))) ||
                              dot_eqb (erase false d0) (erase false (snd cd)))) r
      end
  end.
