(* Correspondence and monitor for C12, evaluated on cases written by harness/props/c12.py. *)
From Coq Require Import ZArith NArith List Bool Arith.
Import ListNotations.
From HV Require Export lib.Harness model.Export model.ExportNum spec.ExportS spec.ExportCanon.
Open Scope Z_scope.

(* a case: the HUGR as read through the public API, what Hugr.to_model() returned (None = raised),
   whether the generator claims the HUGR is a valid module, and (for the numbering diagnostic only) the
   number each interned link name spells *)
Inductive case := CExport (h : hugr) (obs : option (eregion N N)) (expect_valid : bool) (nm : list (N * N)).

(* ---- comparison up to renaming: spec/ExportCanon.v (canon) *)

Definition op_eqb (a b : eop nat) : bool :=
  match a, b with
  | ODfg, ODfg | OCfg, OCfg | OBlock, OBlock | OCond, OCond | OLoop, OLoop
  | OCustom, OCustom | OInvalid, OInvalid => true
  | ODefFunc s, ODefFunc s' | ODeclFunc s, ODeclFunc s' | ODefAlias s, ODefAlias s'
  | ODeclAlias s, ODeclAlias s' | OCall s, OCall s' | OLoadFunc s, OLoadFunc s' => Nat.eqb s s'
  | OLoadConst v, OLoadConst v' => Z.eqb v v'
  | _, _ => false
  end.

(* the comparison is parametrised by the comparison of the hint lists of a region:
   - the verdict (corr) compares them as SETS: the order of region metadata is not promised, and one hint
     per pair of nodes says all the property asks for (parallel order edges between the same two nodes need not
     be repeated);
   - the drift diagnostic compares them as multisets (what the model emits: one hint per order link).
   Keys are compared after the per-region renaming of spec/ExportCanon.v (canon_keys): no numbering of keys is
   promised; for the verdict the keys no hint mentions are dropped first (prune_keys). *)
Section Cmp.
Variable hints_eqb : list (Z * Z) -> list (Z * Z) -> bool.
Fixpoint node_eqb (a b : enode nat nat) : bool :=
  match a, b with
  | ENode o s i ou r k m, ENode o' s' i' ou' r' k' m' =>
      op_eqb o o' && Z.eqb s s' && list_eqb Nat.eqb i i' && list_eqb Nat.eqb ou ou' &&
      list_eqb Z.eqb k k' && list_eqb zz_eqb m m' &&
      (fix regs (x y : list (eregion nat nat)) : bool :=
         match x, y with
         | [], [] => true
         | ERegion k1 s1 t1 c1 h1 :: x', ERegion k2 s2 t2 c2 h2 :: y' =>
             rkind_eqb k1 k2 && list_eqb Nat.eqb s1 s2 && list_eqb Nat.eqb t1 t2 &&
             hints_eqb h1 h2 &&
             (fix nodes (u v : list (enode nat nat)) : bool :=
                match u, v with
                | [], [] => true
                | n1 :: u', n2 :: v' => node_eqb n1 n2 && nodes u' v'
                | _, _ => false
                end) c1 c2 &&
             regs x' y'
         | _, _ => false
         end) r r'
  end.
Definition region_eqb (a b : eregion nat nat) : bool :=
  node_eqb (ENode OInvalid 0 [] [] [a] [] []) (ENode OInvalid 0 [] [] [b] [] []).
End Cmp.
(* verdict: what the property promises *)
Definition same_export (m : eregion port Z) (o : eregion N N) : bool :=
  region_eqb (seteq_b zz_eqb) (canon_cmp port_eqb Z.eqb m) (canon_cmp N.eqb N.eqb o).
(* diagnostic ("model drift"): the implementation makes the model's unprescribed choices too — a key exactly
   on the nodes the model keys, one hint per order link *)
Definition same_export_strict (m : eregion port Z) (o : eregion N N) : bool :=
  region_eqb (perm_eqb zz_eqb) (canon_full port_eqb Z.eqb m) (canon_full N.eqb N.eqb o).

(* the guard of the theorems of props/C12.v, all of it: valid_b (clauses 1-5, 7), valid_order_b and
   order_ports_b (clause 6), stars_b (clause 4), cfg_entries_b (totality: with valid_b the export raises
   exactly when this fails, C12_export_total_iff) *)
Definition valid_all (h : hugr) : bool :=
  valid_b h && valid_order_b h && stars_b h && order_ports_b h && cfg_entries_b h.

(* correspondence: on a HUGR that meets the guard of the theorems the implementation's module equals the
   model's up to renaming (and the export does not raise); a HUGR the generator built as a valid module meets
   that guard.  Outside the guard (not a module root, a CFG without entry block, an order port linked to a value
   port, ...) the property promises nothing: whether the export raises, and what it returns, is not judged
   (diagnostic g_outside_agree). *)
Definition corr (c : case) : bool :=
  match c with
  | CExport h obs ev _ =>
      implb ev (valid_all h) &&
      (if valid_all h then
         match to_model h, obs with
         | Some m, Some o =>
             same_export m o &&
             (* clause 6 (a theorem since the second pass) stays evaluated on the model's module *)
             order_hints_complete_and_keyed h m
         (* totality (C12_export_total): under the guard neither the model nor the implementation fails *)
         | _, _ => false
         end
       else true)
  end.

(* monitor: the specification evaluated on what the implementation returned *)
Definition mon (c : case) : bool :=
  match c with
  | CExport h obs ev _ =>
      if valid_all h
      then match obs with Some o => spec_b N.eqb N.eqb h o | None => false end
      else true
  end.

(* diagnostic: which clause fails (1..7), 0 = none, 8 = export raised *)
Definition clause (c : case) : nat :=
  match c with
  | CExport h obs ev _ =>
      if negb (valid_all h) then 9%nat else
      match obs with
      | None => 8%nat
      | Some o =>
          if negb (regions_mirror_hierarchy h o) then 1%nat
          else if negb (ports_exactly_signature h o) then 2%nat
          else if negb (link_names_iff_connected_b N.eqb h o) then 3%nat
          else if negb (single_producer_or_single_consumer N.eqb h o) then 4%nat
          else if negb (applied_symbols_defined N.eqb h o) then 5%nat
          else if negb (order_hints_complete_and_keyed h o) then 6%nat
          else if negb (metadata_carried h o) then 7%nat
          else 0%nat
      end
  end.

(* per-clause monitors, used by the harness to classify a failure *)
Definition on_obs (f : hugr -> eregion N N -> bool) (c : case) : bool :=
  match c with
  | CExport h (Some o) _ _ => if valid_all h then f h o else true
  | _ => true
  end.
Definition k1 := on_obs (fun h o => regions_mirror_hierarchy h o).
Definition k2 := on_obs (fun h o => ports_exactly_signature h o).
Definition k3 := on_obs (fun h o => link_names_iff_connected_b N.eqb h o).
Definition k4 := on_obs (fun h o => single_producer_or_single_consumer N.eqb h o).
Definition k5 := on_obs (fun h o => applied_symbols_defined N.eqb h o).
Definition k6 := on_obs (fun h o => order_hints_complete_and_keyed h o).
Definition k7 := on_obs (fun h o => metadata_carried h o).

(* which part of the guard a case meets (reported per run by the harness: how many generated modules
   satisfy the guard of which theorem) *)
Definition on_h (f : hugr -> bool) (c : case) : bool := match c with CExport h _ _ _ => f h end.
Definition g_valid := on_h valid_b.
Definition g_order := on_h valid_order_b.
Definition g_ports := on_h order_ports_b.
Definition g_stars := on_h stars_b.
Definition g_cfg := on_h cfg_entries_b.
Definition g_hints := on_h valid_hints_b.
Definition g_total := on_h valid_total_b.
Definition g_all := on_h valid_all.
Definition g_noerr := on_h (fun h => negb (export_err h)).

(* diagnostics, never an alarm ("model drift"):
   g_outside_agree — outside the guard model and implementation fail together or return the same module
   (strict comparison); g_strict — under the guard the implementation's module equals the model's also in the
   choices the property leaves open (which nodes carry a key, one hint per order link) *)
Definition g_outside_agree (c : case) : bool :=
  match c with
  | CExport h obs _ _ =>
      if valid_all h then true else
      match to_model h, obs with
      | None, None => true
      | Some m, Some o => same_export_strict m o
      | _, _ => false
      end
  end.
Definition g_strict (c : case) : bool :=
  match c with
  | CExport h (Some o) _ _ =>
      if valid_all h then match to_model h with Some m => same_export_strict m o | None => false end else true
  | _ => true
  end.

(* diagnostic, never an alarm: does the implementation spell exactly the first-use numbers of
   model/ExportNum.v (same tree traversal, names compared as numbers)?  corr compares up to renaming, so
   a harmless change of the numbering scheme only changes this count. *)
Definition region_names {L Sy} (m : eregion L Sy) : list L :=
  match m with ERegion _ s t ch _ => s ++ t ++ flat_map names_node ch end.
Definition lookupN (nm : list (N * N)) (x : N) : N :=
  match find (fun p => N.eqb (fst p) x) nm with Some p => snd p | None => 4294967295%N end.
Definition g_numexact (c : case) : bool :=
  match c with
  | CExport h (Some o) _ nm =>
      valid_all h &&
      list_eqb N.eqb (map (lookupN nm) (region_names o)) (map N.of_nat (region_names (export_numbered h)))
  | _ => false
  end.
