(* Cross-check of the two hand-written harness printers of operations (harness/c05ops.py lit_op_obj: a hugr
   operation object as a literal of C05's model/CodecOps.v; harness/props/c06.py op_literal: the same object as a
   literal of C06's model/Ops.v) through the translation [to_c06] of model/OpsBridge.v, and the composed
   statement C06_codec_facts_are_specified evaluated on the implementation's own answers.
   Evaluated on cases written by harness/c06bridge.py (called from C06's extra()).  No proofs. *)
From Coq Require Import ZArith NArith List Bool Arith.
Import ListNotations.
From HV Require Export lib.Harness model.Types model.TyEq model.SerialTypes model.Codec model.CodecVals model.CodecOps.
From HV Require Export model.Ops spec.OpsS model.OpsBridge.

(* ---- equality of C06 operations up to Python equality of types (TyEq.ty_eqv: UnitSum = general Sum) and up
   to the order / multiplicity of extension sets (hugr passes them through Python sets; one printer sorts them,
   the other keeps the object's order) ---- *)
Fixpoint ins_name (x : N) (l : list N) : list N :=
  match l with
  | [] => [x]
  | y :: r => if N.ltb x y then x :: l else if N.eqb x y then l else y :: ins_name x r
  end.
Definition sort_names (l : list N) : list N := fold_right ins_name [] l.
Fixpoint creq_ty (t : ty) : ty :=
  let fix row (l : list ty) : list ty := match l with [] => [] | x :: r => creq_ty x :: row r end in
  let fix rows (l : list (list ty)) : list (list ty) := match l with [] => [] | x :: r => row x :: rows r end in
  let fix args (l : list tyarg) : list tyarg := match l with [] => [] | x :: r => creq_arg x :: args r end in
  match t with
  | TSum rs => TSum (rows rs)
  | TFunc i o r => TFunc (row i) (row o) (sort_names r)
  | TPoly ps i o r => TPoly ps (row i) (row o) (sort_names r)
  | TOpaque e id a b => TOpaque e id (args a) b
  | TExt d a c => TExt d (args a) c
  | _ => t
  end
with creq_arg (a : tyarg) : tyarg :=
  let fix args (l : list tyarg) : list tyarg := match l with [] => [] | x :: r => creq_arg x :: args r end in
  match a with
  | AType t => AType (creq_ty t)
  | ASeq l => ASeq (args l)
  | AExts es => AExts (sort_names es)
  | _ => a
  end.
Definition ty_sim (a b : ty) : bool := ty_eqv (creq_ty a) (creq_ty b).
Definition row_sim := list_eqb ty_sim.
Definition orow_sim := option_eqb row_sim.
Definition arg_sim (a b : tyarg) : bool := TyEq.tyarg_eqb (norm_arg (creq_arg a)) (norm_arg (creq_arg b)).
Definition args_sim := list_eqb arg_sim.
Definition names_sim (a b : list N) : bool := list_eqb N.eqb (sort_names a) (sort_names b).
Definition f_sim (a b : functy) : bool := ty_sim (fty a) (fty b).
Definition p_sim (a b : polyfunc) : bool := ty_sim (pty a) (pty b).
Definition op6_sim (a b : op ty) : bool :=
  match a, b with
  | OInput x, OInput y => row_sim x y
  | OOutput x, OOutput y | OMakeTuple x, OMakeTuple y | OUnpackTuple x, OUnpackTuple y | OExit x, OExit y => orow_sim x y
  | OCustom e n d s a, OCustom e' n' d' s' a' => N.eqb e e' && N.eqb n n' && N.eqb d d' && f_sim s s' && args_sim a a'
  | OExtOp e n d s a, OExtOp e' n' d' s' a' =>
      N.eqb e e' && N.eqb n n' && option_eqb p_sim d d' && option_eqb f_sim s s' && args_sim a a'
  | ONoop x, ONoop y | OLoadConst x, OLoadConst y => option_eqb ty_sim x y
  | OTag z s, OTag z' s' => Z.eqb z z' && ty_sim s s'
  | ODFG i o d, ODFG i' o' d' => row_sim i i' && orow_sim o o' && names_sim d d'
  | OCFG i o, OCFG i' o' | OCase i o, OCase i' o' => row_sim i i' && orow_sim o o'
  | OBlock i s o d, OBlock i' s' o' d' => row_sim i i' && option_eqb ty_sim s s' && orow_sim o o' && names_sim d d'
  | OConst t, OConst t' => ty_sim t t'
  | OConditional s i o, OConditional s' i' o' => ty_sim s s' && row_sim i i' && orow_sim o o'
  | OTailLoop a b c d, OTailLoop a' b' c' d' => row_sim a a' && row_sim b b' && orow_sim c c' && names_sim d d'
  | OFuncDefn n i ps o, OFuncDefn n' i' ps' o' =>
      N.eqb n n' && row_sim i i' && list_eqb TyEq.typaram_eqb ps ps' && orow_sim o o'
  | OFuncDecl n s, OFuncDecl n' s' => N.eqb n n' && p_sim s s'
  | OModule, OModule => true
  | OCall s i a, OCall s' i' a' | OLoadFunc s i a, OLoadFunc s' i' a' => p_sim s s' && f_sim i i' && args_sim a a'
  | OCallIndirect s, OCallIndirect s' => option_eqb f_sim s s'
  | OAliasDecl n b, OAliasDecl n' b' => N.eqb n n' && bound_eqb b b'
  | OAliasDefn n t, OAliasDefn n' t' => N.eqb n n' && ty_sim t t'
  | _, _ => false
  end.

(* ---- payloads as in run/C05Run.v: a function constant is the interned encoding of its HUGR ---- *)
Definition HP := N.
Definition hp_type_tab := list (N * functype).
Definition hp_type (tab : hp_type_tab) (h : HP) : functype :=
  match find (fun p => N.eqb (fst p) h) tab with Some p => snd p | None => FT [] [] [] end.
Definition ct6 (t : ty) : option ty := Some t.          (* C06's cases carry the type the constant reports *)
Definition as6 (tab : hp_type_tab) (o : op (V HP)) : op ty := op_mapV (type_of HP (hp_type tab)) o.

(* what the specification assigns to a C06 literal *)
Definition assigned6 (o : op ty) : assigned :=
  {| a_sig := spec_sig o; a_inner := spec_inner_sig o; a_num_out := spec_num_out o;
     a_static := first_some (static_port ct6 o In) (static_port ct6 o Out) |}.
Definition canon_sig (o : option (list sty * list sty)) :=
  option_map (fun p => (map sty_canon (fst p), map sty_canon (snd p))) o.
Definition facts_canon (f : facts) : facts :=
  {| f_outer := canon_sig (f_outer f); f_inner := canon_sig (f_inner f); f_num_out := f_num_out f;
     f_static := option_map sty_canon (f_static f) |}.
(* extension sets inside encoded types: sorted on both sides before comparing *)
Fixpoint sty_creq (s : sty) : sty :=
  match s with
  | SFunctionType i o r => SFunctionType (map sty_creq i) (map sty_creq o) (sort_names r)
  | SGeneralSum rs => SGeneralSum (map (map sty_creq) rs)
  | SOpaque e id a b => SOpaque e id (map sarg_creq a) b
  | _ => s
  end
with sarg_creq (a : starg) : starg :=
  match a with
  | SATy t => SATy (sty_creq t)
  | SASeq l => SASeq (map sarg_creq l)
  | SAExts es => SAExts (sort_names es)
  | _ => a
  end.
Definition creq_sig (o : option (list sty * list sty)) :=
  option_map (fun p => (map sty_creq (fst p), map sty_creq (snd p))) o.
Definition facts_creq (f : facts) : facts :=
  {| f_outer := creq_sig (f_outer f); f_inner := creq_sig (f_inner f); f_num_out := f_num_out f;
     f_static := option_map sty_creq (f_static f) |}.
Definition facts_sim (a b : facts) : bool := facts_eqb (facts_creq a) (facts_creq b).
Definition rows_sim (a b : list ty * list ty) : bool := row_sim (fst a) (fst b) && row_sim (snd a) (snd b).

Inductive case :=
(* one hugr operation object: its C05 literal (with the type table of function payloads), its C06 literal,
   and the derived facts observed through the public accessors (C05's observer) *)
| CB (tab : hp_type_tab) (o5 : CodecOps.op HP) (o6 : result (op ty)) (f1 : facts)
(* an object C05 prints but C06 models as a class of its own (MakeTuple / UnpackTuple / Noop: an ExtOp to C05) *)
| CBExt (tab : hp_type_tab) (o5 : CodecOps.op HP) (o6 : result (op ty))
(* an object C05's printer has no literal for: C06's literal must be outside the translation's image *)
| CBOnly (o6 : result (op ty)).

(* printer agreement: the C06 literal IS the translation of the C05 literal *)
Definition drift (c : case) : bool :=
  match c with
  | CB tab o5 (Ret o6) _ => op6_sim (as6 tab (to_c06 o5)) o6
  | CBExt tab o5 (Ret o6) =>
      c06_only o6 && negb (c06_only (to_c06 o5)) &&
      (* same dataflow signature and output count under either reading *)
      option_eqb rows_sim (spec_sig (as6 tab (to_c06 o5))) (spec_sig o6) &&
      option_eqb Nat.eqb (spec_num_out (as6 tab (to_c06 o5))) (spec_num_out o6)
  | CBOnly (Ret o6) => c06_only o6
  | _ => false
  end.

(* the composed statement on the implementation's answers: the facts observed through the public accessors are
   the specification's for the translation of the C05 literal, and for the C06 literal *)
Definition bmon (c : case) : bool :=
  match c with
  | CB tab o5 (Ret o6) f1 =>
      if bridge_ok o5 && tag_in_range o5 then
        facts_sim (facts_canon f1) (enc_assigned (c06_assigned HP (hp_type tab) (to_c06 o5))) &&
        facts_sim (facts_canon f1) (enc_assigned (assigned6 o6))
      else true
  | _ => true
  end.
