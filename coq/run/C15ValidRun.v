(* C15 x C01 — the premises and the conclusion of C15_tracked_programs_valid evaluated on tracked-builder programs
   that harness/props/c15.py takes from C01's generator (harness/progs.py gen_tracked_program) and runs on the real
   TrackedDfg.  A case holds the type table of the serialised document, the input row, the typed description of
   the operation of every added node in creation order, the tracked program in C15's language and the document
   hugr-py serialised. *)
From Coq Require Import ZArith NArith List Bool Arith.
Import ListNotations.
From HV Require Export lib.Harness model.Tracked spec.TrackedS model.Validity model.Builder spec.BuilderWFS
  model.TrackedBuilder spec.TrackedWFS.
From HV Require Import run.C01Run.

Inductive tcase :=
| TCase (tys : list tyinfo) (ins : row) (specs : list opspec) (track : bool) (p : list cmd) (doc : graph).

Definition the_prog (ins : row) (specs : list opspec) (track : bool) (p : list cmd) : prog :=
  to_builder ins specs (explicit_prog (lenN ins) track p).

(* the premises of C15_tracked_programs_valid: consistent type table, the fragment, C01's well-formedness of the
   explicit translation, and the tracked-builder model runs to the end *)
Definition tprem (c : tcase) : bool :=
  match c with
  | TCase tys ins specs track p _ =>
      r_table tys && tfrag p && wf_prog tys (the_prog ins specs track p) &&
      match run_tracked (lenN ins) track p with (_, _, None) => true | _ => false end
  end.

(* its conclusion against the implementation: C01's builder model run on the explicit translation gives the
   document the real TrackedDfg serialised (nodes in index order, edges as a multiset), and that document is the
   tracked-builder model's HUGR: three nodes more than were added, the model's links port for port *)
Definition ttie (c : tcase) : bool :=
  match c with
  | TCase tys ins specs track p doc =>
      match Builder.run tys (the_prog ins specs track p), run_tracked (lenN ins) track p with
      | Ok g, (h, _, None) =>
          graph_eqb g doc &&
          Nat.eqb (length (g_nodes doc)) (3 + length (h_nodes h)) &&
          perm_eqb edge_eqb (g_edges doc) (map shift_link (h_links h)) &&
          forallb (fun nd => N.eqb (n_parent nd) 0) (g_nodes doc)
      | _, _ => false
      end
  end.

(* the validity predicate on the implementation's document (C01's monitor, here for TrackedDfg documents) *)
Definition tvalid (c : tcase) : bool :=
  match c with
  | TCase tys _ _ _ _ doc => valid {| v_tys := tys; v_main := doc; v_subs := [] |}
  end.

(* the tracked-level premise of C15_wellformed_tracked_programs_valid (spec/TrackedWFS.v) *)
Definition ttwf (c : tcase) : bool :=
  match c with
  | TCase tys ins specs track p _ => r_table tys && twf tys ins specs track p
  end.
