(* C03 — the cases of run/C02Run.v (harness/props/c02.py) extended with the JSON side of every document:
   * docs: every document the case emitted (HUGR: to_json(); package: the Package document; extension: the
     Extension document and the lowering HUGRs inside it) with the definition it must satisfy and the verdict of
     python-jsonschema.  The monitor evaluates the validator of model/Schema.v (in its short-circuit form,
     model/SchemaFast.v, proved equal in proofs/SchemaFastP.v) on the REGENERATED published strict schema.
   * ties: per HUGR of the case, the JSON document the implementation emitted; the correspondence renders the
     MODEL's document (to_serial of the API-level dump) with model/DocJson.v and compares, operations and metadata
     dicts looked up in the tables `ops` / `mds` (code -> members, from the public-API dump, not from the document).
   Depends on the models and the regenerated constants only (not on the proofs). *)
From Coq Require Import List Bool String ZArith NArith Arith.
Import ListNotations.
From HV Require Export run.C03Run model.Schema model.SchemaFast model.DocJson model.DocJsonEnc spec.DocJsonS spec.StaticWiringS gen.Schemas.
Open Scope nat_scope.

Definition fuel := default_fuel.

(* ---- compact JSON: strings by index into a table, shared sub-values by index into the list of definitions ---- *)
Inductive sj :=
| SN | SB (b : bool) | SI (z : Z) | SF (s : N) | SS (s : N) | SA (l : list sj) | SO (kvs : list (N * sj)) | SR (i : N).
Definition P (k : N) (v : sj) : N * sj := (k, v).
Section Expand.
  Variable strs : list string.
  Variable env : list json.             (* the definitions expanded so far, newest first *)
  Variable n : nat.                     (* length env *)
  Definition str_at (i : N) : string := nth (N.to_nat i) strs EmptyString.
  Fixpoint expand (x : sj) : json :=
    match x with
    | SN => JNull
    | SB b => JBool b
    | SI z => JNum z
    | SF s => JFlt (str_at s)
    | SS s => JStr (str_at s)
    | SA l => JArr (map expand l)
    | SO kvs => JObj (map (fun p => (str_at (fst p), expand (snd p))) kvs)
    | SR i => nth (n - 1 - N.to_nat i) env JNull
    end.
End Expand.
Fixpoint expand_defs (strs : list string) (defs : list sj) (env : list json) (n : nat) : list json :=
  match defs with
  | [] => env
  | d :: r => expand_defs strs r (expand strs env n d :: env) (S n)
  end.
(* the table of expanded definitions, in definition order *)
Definition expand_all (strs : list string) (defs : list sj) : list json := rev (expand_defs strs defs [] 0).

Record sdoc := { d_entry : string; d_doc : N; d_py : bool }.      (* d_doc: index of the document's definition *)
Definition Sd := Build_sdoc.
Record tie := { t_enc : option string; t_doc : option N;         (* None: to_json() raised *)
                (* which static-port clauses apply to this HUGR (spec/StaticWiringS.v): all static links were made by the
                   builder API / no static input was unwired by a deletion *)
                t_sedges : bool; t_swired : bool }.
Definition Ti := Build_tie.
Record jcase := {
  j_case : case;                           (* the C02/C03 case *)
  j_strs : list string;
  j_defs : list sj;
  j_ops : list (N * N);                    (* operation code -> definition of the encoded operation object, without parent *)
  j_mds : list (N * N);                    (* metadata code -> definition of the dict *)
  j_docs : list sdoc;
  j_ties : list tie;                       (* one per HUGR of the case (CHugr: 1, CPkg: the modules), in order *)
  j_pkg : option (list N * N)              (* package: the extension documents and the Package document *)
}.
Definition J3 := Build_jcase.
Definition Pr (a b : N) : N * N := (a, b).

Definition def_at (tab : list json) (i : N) : json := nth (N.to_nat i) tab JNull.
Definition tab_get (tab : list json) (codes : list (N * N)) (c : N) : obj :=
  match find (fun p => N.eqb (fst p) c) codes with
  | Some p => match def_at tab (snd p) with JObj kvs => kvs | _ => [] end
  | None => []
  end.

Definition rts_of (c : case) : list rt :=
  match c with
  | CHugr r | CHist _ _ _ _ r | CMut _ _ _ r => [r]
  | CPkg mods _ _ => mods
  | CExt _ _ => []
  end.

(* the model's document in the PRESENTATION the implementation chose: the order of the `edges` array and the writing
   of the metadata table (null / list of nulls) are taken from the typed document the implementation wrote, each only
   if admissible (the same multiset of edges / the same dictionaries as a reader takes them); the listing order of the
   nodes is r_ord, admissible or the model has no document (C03Run.M_to_serial_in) *)
Definition present (sm so : serialT) : serialT :=
  Sr (s_nodes sm)
     (if perm_eqb sedge_eqb (s_edges sm) (s_edges so) then s_edges so else s_edges sm)
     (if list_eqb (option_eqb N.eqb) (meta_view (List.length (s_nodes sm)) (s_meta sm)) (meta_view (List.length (s_nodes sm)) (s_meta so))
      then s_meta so else s_meta sm).
Definition M_doc (r : rt) : option serialT :=
  match M_to_serial_in (r_ord r) (r_h r), r_doc r with
  | Some sm, Some so => Some (present sm so)
  | x, _ => x
  end.
(* the model's document, rendered, is the JSON value the implementation wrote (objects as maps); the `encoder` string
   is copied from the implementation (t_enc) *)
Definition tie_ok (j : jcase) (tab : list json) (r : rt) (t : tie) : bool :=
  match t_doc t with
  | None => true
  | Some d =>
      match M_doc r with
      | Some s => data_equiv (doc_json (tab_get tab (j_ops j)) (tab_get tab (j_mds j)) (t_enc t) s) (def_at tab d)
      | None => false
      end
  end.
Fixpoint ties_ok (j : jcase) (tab : list json) (rs : list rt) (ts : list tie) : bool :=
  match rs, ts with
  | [], [] => true
  | r :: rs', t :: ts' => tie_ok j tab r t && ties_ok j tab rs' ts'
  | _, _ => false
  end.
Fixpoint all_some {A} (l : list (option A)) : option (list A) :=
  match l with
  | [] => Some []
  | Some x :: r => match all_some r with Some xs => Some (x :: xs) | None => None end
  | None :: _ => None
  end.
(* the Package document with the optional `encoder` member of every module as the implementation wrote it (null or a
   string: neither C03 nor the schema says which): pkg_json_e of model/DocJsonEnc.v *)
Definition pkg_ok (j : jcase) (tab : list json) : bool :=
  match j_pkg j with
  | None => true
  | Some (exts, d) =>
      match all_some (map M_doc (rts_of (j_case j))) with
      | Some ss => (List.length ss =? List.length (j_ties j)) &&
                   data_equiv (pkg_json_e (tab_get tab (j_ops j)) (tab_get tab (j_mds j))
                                          (combine (map t_enc (j_ties j)) ss) (map (def_at tab) exts))
                              (def_at tab d)
      | None => false
      end
  end.

Definition coq_ok (tab : list json) (d : sdoc) : bool :=
  faccepts fuel published_hugr_strict (d_entry d) (def_at tab (d_doc d)).

(* correspondence: C03's (model's typed document == implementation's) and the rendered model document == the JSON
   value the implementation wrote *)
Definition corr (j : jcase) : bool :=
  let tab := expand_all (j_strs j) (j_defs j) in
  C03Run.corr (j_case j) && ties_ok j tab (rts_of (j_case j)) (j_ties j) && pkg_ok j tab.
(* monitor: mon3 (python-jsonschema's verdict, index sanity, node order, port addressing), and every document is
   accepted by the published strict schema according to the Coq validator AND python-jsonschema.  (The validator runs
   once per document: here.  When a case fails, the harness evaluates mon_typed / mon_coq / mon_py on it to say which
   part failed and whether the two validators disagree.) *)
Definition mon_typed (j : jcase) : bool := C03Run.mon (j_case j).
Definition mon_coq (j : jcase) : bool :=
  let tab := expand_all (j_strs j) (j_defs j) in forallb (coq_ok tab) (j_docs j).
Definition mon_py (j : jcase) : bool := forallb d_py (j_docs j).
(* index sanity read off the JSON text itself (spec/DocJsonS.v), for every HUGR document of the case: the HUGR's own
   document, lowering HUGRs inside extensions, every module of a Package document *)
Definition jdoc_index_sane (entry : string) (d : json) : bool :=
  if String.eqb entry "SerialHugr" then json_index_sane d
  else if String.eqb entry "Package" then
    match jget "modules" d with Some (JArr ms) => forallb json_index_sane ms | _ => false end
  else true.
Definition mon_jidx (j : jcase) : bool :=
  let tab := expand_all (j_strs j) (j_defs j) in
  forallb (fun d => jdoc_index_sane (d_entry d) (def_at tab (d_doc d))) (j_docs j).
(* the static port sits immediately after the value inputs: on the implementation's document, with the port counts
   the reader's contract assigns to the ENCODED operations (opinfo of the case, harness reader_ports) *)
Definition info_of (h : hugrT) : list opinfo :=
  flat_map (fun n : option nodeT => match n with Some x => [n_op x] | None => [] end) (h_nodes h).
Definition c_has_sout (tab : list opinfo) (c : N) : bool := let o := o_dec tab c in negb (o_ord o) && (o_sout o =? 1).
Definition c_sin_port (tab : list opinfo) (c : N) : option nat := let o := o_dec tab c in if o_sin o =? 1 then Some (o_vin o) else None.
Definition static_ok (r : rt) (t : tie) : bool :=
  match r_doc r with
  | Some s =>
      let tab := info_of (r_h r) in
      (* as for port_addressing_b: only for HUGRs whose links attach to ports their operations have *)
      negb (ports_exist_b o_v o_s o_ord (r_h r)) ||
      (negb (t_sedges t) || static_edges_ok (c_has_sout tab) (c_sin_port tab) s) &&
      (negb (t_swired t) || static_wired_ok (c_has_sout tab) (c_sin_port tab) s)
  | None => true
  end.
Fixpoint statics_ok (rs : list rt) (ts : list tie) : bool :=
  match rs, ts with
  | r :: rs', t :: ts' => static_ok r t && statics_ok rs' ts'
  | _, _ => true
  end.
Definition mon_static (j : jcase) : bool := statics_ok (rts_of (j_case j)) (j_ties j).
Definition mon (j : jcase) : bool := mon_typed j && mon_py j && mon_coq j && mon_jidx j && mon_static j.

(* the case literals are read with strings as `string` and unannotated numbers as `nat` (gen/Schemas.v opens Z_scope) *)
Open Scope string_scope.
Open Scope nat_scope.
