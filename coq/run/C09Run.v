(* Correspondence and monitor for C09, evaluated on cases written by harness/props/c09.py. *)
From Coq Require Import NArith List Bool Arith.
Import ListNotations.
From HV Require Export lib.Harness model.Envelope.
Open Scope N_scope.

Inductive outcome := OOk (same_docs : bool) | OValueError | OZstdError | ODecodeError | OOther.
Definition outcome_eqb (a b : outcome) : bool :=
  match a, b with
  | OOk x, OOk y => Bool.eqb x y | OValueError, OValueError | OZstdError, OZstdError
  | ODecodeError, ODecodeError | OOther, OOther => true | _, _ => false
  end.

Inductive case :=
(* Package.to_bytes(config): the serialised payload, pyzstd's output for it, the envelope produced *)
| CMake (zstd : option N) (payload compressed envelope : bytes)
(* Package.to_str(config): format, zstd, outcome class (Ok = string equals the bytes decoded) *)
| CStr (f : format) (zstd : option N) (utf8 : bool) (obs : outcome)
(* Package.from_bytes(input): oracle answers for this input, observed outcome *)
| CRead (valid : bool) (input : bytes) (dec_ok : bool) (parse_plain parse_dec : option bool) (obs : outcome)
(* EnvelopeHeader.from_bytes on MAGIC + every (format, flags) pair: the accepted ones *)
| CSweep (accepted : list (N * N * (N * bool))) (n_value_errors n_other : N)
(* EnvelopeHeader.from_bytes on every prefix of an envelope: lengths that were accepted *)
| CTrunc (envelope : bytes) (accepted_lengths : list nat) (n_value_errors : nat).

Definition marker : bytes := [0].
Definition oracle_parse (pp pd : option bool) (b : bytes) : option bool :=
  if bytes_eqb b marker then pd else pp.
Definition read_model (input : bytes) (dec_ok : bool) (pp pd : option bool) : outcome :=
  match read_envelope bool (oracle_parse pp pd) (fun _ => if dec_ok then Some marker else None) input with
  | Ok b => OOk b
  | Err ValueError => OValueError
  | Err ZstdError => OZstdError
  | Err DecodeError => ODecodeError
  | Err Unsupported => OOther
  end.

Definition pairs256 : list (N * N) :=
  flat_map (fun a => map (fun b => (a, b)) (map N.of_nat (seq 0 256))) (map N.of_nat (seq 0 256)).
Definition model_accepted : list (N * N * (N * bool)) :=
  flat_map (fun '(fb, fl) =>
    match header_from_bytes (MAGIC ++ [fb; fl]) with
    | Ok h => [(fb, fl, (fmt_value (hformat h), hzstd h))]
    | Err _ => []
    end) pairs256.
Definition acc_eqb := pair_eqb (pair_eqb N.eqb N.eqb) (pair_eqb N.eqb Bool.eqb).

Definition corr (c : case) : bool :=
  match c with
  | CMake z payload compressed envelope =>
      match make_envelope unit (fun _ => payload) (fun _ _ => compressed) tt {| cformat := JSON; czstd := z |} with
      | Ok e => bytes_eqb e envelope
      | Err _ => false
      end
  | CStr f z utf8 obs =>
      outcome_eqb obs
        (match f with
         | JSON => if utf8 then OOk true else ODecodeError
         | _ => OValueError
         end)
  | CRead valid input dec_ok pp pd obs => outcome_eqb obs (read_model input dec_ok pp pd)
  | CSweep acc nve nother =>
      list_eqb acc_eqb acc model_accepted && (nve =? 65536 - N.of_nat (length model_accepted)) && (nother =? 0)
  | CTrunc env lens nve =>
      let ok := filter (fun n => match header_from_bytes (firstn n env) with Ok _ => true | _ => false end)
                       (seq 0 (S (length env))) in
      list_eqb Nat.eqb lens ok && Nat.eqb nve (S (length env) - length ok)
  end.

(* monitor: the documented format, stated directly on the observations *)
Definition mon (c : case) : bool :=
  match c with
  | CMake z payload compressed envelope =>
      bytes_eqb (firstn 8 envelope) MAGIC && (nth 8 envelope 0 =? 63) &&
      Bool.eqb (N.testbit (nth 9 envelope 0) 0) (match z with Some _ => true | None => false end) &&
      negb (N.testbit (nth 9 envelope 0) 7) && N.testbit (nth 9 envelope 0) 6 &&
      bytes_eqb (skipn 10 envelope) (match z with Some _ => compressed | None => payload end)
  | CStr f z utf8 obs =>
      match f with JSON => true | _ => outcome_eqb obs OValueError end
  | CRead valid input dec_ok pp pd obs =>
      if valid then outcome_eqb obs (OOk true) else
      if Nat.ltb (length input) 10 || negb (bytes_eqb (firstn 8 input) MAGIC) ||
         negb (mem N.eqb (nth 8 input 0) [1; 2; 63])
      then outcome_eqb obs OValueError
      else match obs with OOk same => same | _ => true end
  | CSweep acc nve nother =>
      forallb (fun '(fb, fl, (fv, z)) => mem N.eqb fb [1; 2; 63] && (fv =? fb) && Bool.eqb z (N.odd fl)) acc &&
      (N.of_nat (length acc) =? 768) && (nve =? 65536 - 768) && (nother =? 0) &&
      nodupb (pair_eqb N.eqb N.eqb) (map fst acc)
  | CTrunc env lens nve =>
      forallb (fun n => Nat.leb 10 n) lens
  end.
