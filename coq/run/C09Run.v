(* Correspondence and monitor for C09, evaluated on cases written by harness/props/c09.py. *)
From Coq Require Import NArith List Bool Arith.
Import ListNotations.
From HV Require Export lib.Harness model.Envelope.
Open Scope N_scope.

Inductive outcome := OOk (same_docs : bool) | OValueError | OZstdError | ODecodeError | OOther.
Definition outcome_eqb (a b : outcome) : bool :=
  match a, b with
  | OOk x, OOk y => Bool.eqb x y | OValueError, OValueError | OZstdError, OZstdError
  | ODecodeError, ODecodeError | OOther, OOther => true | _, _ => false
  end.

(* one step of a history on a package object: a change, or to_bytes / to_str (str = true) with a zstd level *)
Inductive hstep := HMut | HEnc (str : bool) (zstd : option N).

Inductive case :=
(* Package.to_bytes(config): the envelope produced, and the oracles' answers for it (computed by the harness):
   `dec_ok` pyzstd.decompress accepts the bytes after the header, `parse_plain` / `parse_dec` the JSON codec's
   answer for those bytes as they are / decompressed (Some true: a package whose modules and extensions, in
   order, re-serialise to the original's documents; Some false: another package; None: not decodable).
   zstd and the JSON text codec are oracles: ANY byte string that decompresses to a payload is a compressed
   payload, ANY text the codec reads back as the same documents is a serialised payload; the bytes a reference
   compressor / serialiser would have produced are not part of the promise and not part of the case *)
| CMake (zstd : option N) (envelope : bytes) (dec_ok : bool) (parse_plain parse_dec : option bool)
(* Package.to_str(config): format, zstd, outcome class (Ok = string equals the bytes decoded) *)
| CStr (f : format) (zstd : option N) (utf8 : bool) (obs : outcome)
(* Package.from_bytes(input): oracle answers for this input, observed outcome *)
| CRead (valid : bool) (input : bytes) (dec_ok : bool) (parse_plain parse_dec : option bool) (obs : outcome)
(* EnvelopeHeader.from_bytes on MAGIC + every (format, flags) pair: the accepted ones *)
| CSweep (accepted : list (N * N * (N * bool))) (n_value_errors n_other : N)
(* EnvelopeHeader.from_bytes on every prefix of an envelope: lengths that were accepted, lengths at which
   something other than ValueError was raised, number of ValueErrors *)
| CTrunc (envelope : bytes) (accepted_lengths other_lengths : list nat) (n_value_errors : nat)
(* a history on ONE package object (and, when shared, one EnvelopeConfig object): encodings and changes of the
   module list / modules / extensions / config, ending in an encoding.  Observed for the LAST encoding:
   `envelope` what the object returned, the oracles' answers for it as in CMake — where "the original's
   documents" are those of a fresh, never-encoded package built with the same contents — and the outcome of
   decoding that envelope (Package.from_bytes / from_str), compared with the fresh package's documents *)
| CSeq (hist : list hstep) (envelope : bytes) (dec_ok : bool) (parse_plain parse_dec : option bool) (obs : outcome)
(* an encoding of a JSON configuration (or building the package) raised: exception class only *)
| CRaised (obs : outcome).

Definition marker : bytes := [0].
Definition oracle_parse (pp pd : option bool) (b : bytes) : option bool :=
  if bytes_eqb b marker then pd else pp.
Definition read_model (input : bytes) (dec_ok : bool) (pp pd : option bool) : outcome :=
  match read_envelope bool (oracle_parse pp pd) (fun _ => if dec_ok then Some marker else None) input with
  | Ok b => OOk b
  | Err ValueError => OValueError
  | Err ZstdError => OZstdError
  | Err DecodeError => ODecodeError
  | Err Unsupported => OOther
  end.

Definition pairs256 : list (N * N) :=
  flat_map (fun a => map (fun b => (a, b)) (map N.of_nat (seq 0 256))) (map N.of_nat (seq 0 256)).
Definition model_accepted : list (N * N * (N * bool)) :=
  flat_map (fun '(fb, fl) =>
    match header_from_bytes (MAGIC ++ [fb; fl]) with
    | Ok h => [(fb, fl, (fmt_value (hformat h), hzstd h))]
    | Err _ => []
    end) pairs256.
Definition acc_eqb := pair_eqb (pair_eqb N.eqb N.eqb) (pair_eqb N.eqb Bool.eqb).

(* the history run through the model: contents = number of changes so far.  The oracles answer with the
   implementation's own bytes (`body` = what follows the header of the last envelope): the serialiser for the
   final contents, the compressor for every input; their laws are checked by `payload_ok` *)
Definition hist_steps (h : list hstep) : list (step N) :=
  map (fun s => match s with
                | HMut => SMutate N N.succ
                | HEnc false z => SEncode N {| cformat := JSON; czstd := z |}
                | HEnc true z => SEncodeStr N {| cformat := JSON; czstd := z |}
                end) h.
Definition n_muts (h : list hstep) : N :=
  N.of_nat (length (filter (fun s => match s with HMut => true | _ => false end) h)).
Definition hist_last (h : list hstep) (body : bytes) : option (N * res bytes) :=
  let final := n_muts h in
  last (map Some (run_steps N (fun v => if v =? final then body else []) (fun _ _ => body)
                            (fun _ => true) 0 (hist_steps h))) None.
Definition hist_zstd (h : list hstep) : option (option N) :=
  match last (map Some h) None with Some (HEnc _ z) => Some z | _ => None end.

Definition is_true (o : option bool) : bool := match o with Some true => true | _ => false end.
(* the oracle laws on this case.  No compression asked: what follows the header IS a serialised payload of the
   package (the JSON codec reads the same documents back from it).  Compression asked: what follows the
   header is zstd-compressed (pyzstd.decompress accepts it) and decompresses to such a payload *)
Definition payload_ok (z : option N) (dec_ok : bool) (pp pd : option bool) : bool :=
  match z with
  | None => is_true pp
  | Some _ => dec_ok && is_true pd
  end.
(* the documented header: magic, format byte, flags (bit 0 = compressed, bits 7,6 = 0,1) *)
Definition header_documented (z : option N) (envelope : bytes) : bool :=
  Nat.leb 10 (length envelope) &&
  bytes_eqb (firstn 8 envelope) MAGIC && (nth 8 envelope 0 =? 63) &&
  Bool.eqb (N.testbit (nth 9 envelope 0) 0) (match z with Some _ => true | None => false end) &&
  negb (N.testbit (nth 9 envelope 0) 7) && N.testbit (nth 9 envelope 0) 6.
Definition known_format (b : N) : bool := mem N.eqb b [1; 2; 63].

Definition corr (c : case) : bool :=
  match c with
  | CMake z envelope dec_ok pp pd =>
      (* the model's serialiser and compressor oracles answer with the implementation's own bytes; their laws
         (parse (dump p) = p, decompress (compress x) = x) are checked on those answers *)
      match make_envelope unit (fun _ => skipn 10 envelope) (fun _ _ => skipn 10 envelope) tt
                          {| cformat := JSON; czstd := z |} with
      | Ok e => bytes_eqb e envelope
      | Err _ => false
      end && payload_ok z dec_ok pp pd
  | CStr f z utf8 obs =>
      outcome_eqb obs
        (match f with
         | JSON => if utf8 then OOk true else ODecodeError
         | _ => OValueError
         end)
  | CRead valid input dec_ok pp pd obs => outcome_eqb obs (read_model input dec_ok pp pd)
  | CSweep acc nve nother =>
      list_eqb acc_eqb acc model_accepted && (nve =? 65536 - N.of_nat (length model_accepted)) && (nother =? 0)
  | CTrunc env lens others nve =>
      let ok := filter (fun n => match header_from_bytes (firstn n env) with Ok _ => true | _ => false end)
                       (seq 0 (S (length env))) in
      list_eqb Nat.eqb lens ok && Nat.eqb nve (S (length env) - length ok) &&
      match others with [] => true | _ => false end
  | CSeq h envelope dec_ok pp pd obs =>
      match hist_last h (skipn 10 envelope) with
      | Some (v, Ok e) => (v =? n_muts h) && bytes_eqb e envelope
      | _ => false
      end &&
      match hist_zstd h with Some z => payload_ok z dec_ok pp pd | None => false end &&
      outcome_eqb obs (read_model envelope dec_ok pp pd)
  | CRaised _ => false          (* the model encodes every JSON configuration *)
  end.

(* monitor: the documented format, stated directly on the observations *)
Definition mon (c : case) : bool :=
  match c with
  | CMake z envelope dec_ok pp pd => header_documented z envelope && payload_ok z dec_ok pp pd
  | CStr f z utf8 obs =>
      match f with JSON => true | _ => outcome_eqb obs OValueError end
  | CRead valid input dec_ok pp pd obs =>
      if valid then outcome_eqb obs (OOk true) else
      if Nat.ltb (length input) 10 || negb (bytes_eqb (firstn 8 input) MAGIC) ||
         negb (mem N.eqb (nth 8 input 0) [1; 2; 63])
      then outcome_eqb obs OValueError
      else match obs with OOk same => same | _ => true end
  | CSweep acc nve nother =>
      forallb (fun '(fb, fl, (fv, z)) => mem N.eqb fb [1; 2; 63] && (fv =? fb) && Bool.eqb z (N.odd fl)) acc &&
      (N.of_nat (length acc) =? 768) && (nve =? 65536 - 768) && (nother =? 0) &&
      nodupb (pair_eqb N.eqb N.eqb) (map fst acc)
  | CTrunc env lens others nve =>
      (* every prefix: shorter than a header, other magic number or unknown format byte => ValueError (not
         decoded, and no other exception class); otherwise decoded *)
      forallb (fun n => let d := firstn n env in
                 Bool.eqb (mem Nat.eqb n lens)
                          (Nat.leb 10 n && bytes_eqb (firstn 8 d) MAGIC && known_format (nth 8 d 0)) &&
                 negb (mem Nat.eqb n others))
              (seq 0 (S (length env))) &&
      nodupb Nat.eqb lens && forallb (fun n => Nat.leb n (length env)) lens &&
      Nat.eqb nve (S (length env) - length lens)
  | CSeq h envelope dec_ok pp pd obs =>
      (* the envelope an object gives after any history carries the documented header and a payload of its
         CURRENT contents (compressed iff asked), and decodes to a package with the same documents *)
      match hist_zstd h with
      | Some z => header_documented z envelope && payload_ok z dec_ok pp pd && outcome_eqb obs (OOk true)
      | None => false
      end
  | CRaised _ => false
  end.
