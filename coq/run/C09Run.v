(* Correspondence and monitor for C09, evaluated on cases written by harness/props/c09.py. *)
From Coq Require Import NArith List Bool Arith.
Import ListNotations.
From HV Require Export lib.Harness model.Envelope.
Open Scope N_scope.

Inductive outcome := OOk (same_docs : bool) | OValueError | OZstdError | ODecodeError | OOther.
Definition outcome_eqb (a b : outcome) : bool :=
  match a, b with
  | OOk x, OOk y => Bool.eqb x y | OValueError, OValueError | OZstdError, OZstdError
  | ODecodeError, ODecodeError | OOther, OOther => true | _, _ => false
  end.

(* one step of a history on a package object: a change, or to_bytes / to_str (str = true) with a zstd level *)
Inductive hstep := HMut | HEnc (str : bool) (zstd : option N).

Inductive case :=
(* Package.to_bytes(config): the envelope produced, and the oracles' answers for it (computed by the harness):
   `dec_ok` pyzstd.decompress accepts the bytes after the header, `parse_plain` / `parse_dec` the JSON codec's
   answer for those bytes as they are / decompressed (Some true: a package whose modules and extensions, in
   order, re-serialise to the original's documents; Some false: another package; None: not decodable).
   zstd and the JSON text codec are oracles: ANY byte string that decompresses to a payload is a compressed
   payload, ANY text the codec reads back as the same documents is a serialised payload; the bytes a reference
   compressor / serialiser would have produced are not part of the promise and not part of the case *)
| CMake (zstd : option N) (envelope : bytes) (dec_ok : bool) (parse_plain parse_dec : option bool)
(* Package.to_str(config): format, zstd, and what happened: OOk same = a string was returned, and
   Package.from_str of it gave a package with the same documents (same = false: it did not, or raised);
   any other outcome = to_str itself raised (class).  The property prescribes no exception class here *)
| CStr (f : format) (zstd : option N) (obs : outcome)
(* Package.from_bytes(input): oracle answers for this input, observed outcome *)
| CRead (valid : bool) (input : bytes) (dec_ok : bool) (parse_plain parse_dec : option bool) (obs : outcome)
(* EnvelopeHeader.from_bytes on MAGIC + every (format, flags) pair: the accepted ones with the decoded
   fields, the pairs at which something other than ValueError was raised, the number of ValueErrors *)
| CSweep (accepted : list (N * N * (N * bool))) (others : list (N * N)) (n_value_errors : N)
(* EnvelopeHeader.from_bytes on every prefix of an envelope: lengths that were accepted, lengths at which
   something other than ValueError was raised, number of ValueErrors *)
| CTrunc (envelope : bytes) (accepted_lengths other_lengths : list nat) (n_value_errors : nat)
(* a history on ONE package object (and, when shared, one EnvelopeConfig object): encodings and changes of the
   module list / modules / extensions / config, ending in an encoding.  Observed for the LAST encoding:
   `envelope` what the object returned, the oracles' answers for it as in CMake — where "the original's
   documents" are those of a fresh, never-encoded package built with the same contents — and the outcome of
   decoding that envelope (Package.from_bytes / from_str), compared with the fresh package's documents *)
| CSeq (hist : list hstep) (envelope : bytes) (dec_ok : bool) (parse_plain parse_dec : option bool) (obs : outcome)
(* an encoding with a JSON configuration raised: exception class only *)
| CRaised (obs : outcome)
(* nothing to judge: the change kind is not available in this implementation (a configuration object that
   refuses in-place assignment is replaced, not skipped; this is for: a default configuration that is not a
   JSON one / not readable and cannot be encoded offline, a package that could not be built) *)
| CSkip.

Definition marker : bytes := [0].
Definition oracle_parse (pp pd : option bool) (b : bytes) : option bool :=
  if bytes_eqb b marker then pd else pp.
Definition read_model (input : bytes) (dec_ok : bool) (pp pd : option bool) : outcome :=
  match read_envelope bool (oracle_parse pp pd) (fun _ => if dec_ok then Some marker else None) input with
  | Ok b => OOk b
  | Err ValueError => OValueError
  | Err ZstdError => OZstdError
  | Err DecodeError => ODecodeError
  | Err Unsupported => OOther
  end.

Definition pairs256 : list (N * N) :=
  flat_map (fun a => map (fun b => (a, b)) (map N.of_nat (seq 0 256))) (map N.of_nat (seq 0 256)).
Definition model_accepted : list (N * N * (N * bool)) :=
  flat_map (fun '(fb, fl) =>
    match header_from_bytes (MAGIC ++ [fb; fl]) with
    | Ok h => [(fb, fl, (fmt_value (hformat h), hzstd h))]
    | Err _ => []
    end) pairs256.
Definition acc_eqb := pair_eqb (pair_eqb N.eqb N.eqb) (pair_eqb N.eqb Bool.eqb).
Definition key_eqb := pair_eqb N.eqb N.eqb.
(* the two headers the encoder writes for a JSON configuration *)
Definition json_headers : list (N * N) := [(63, 64); (63, 65)].
(* bits 1-5 of the flags byte are reserved: the property fixes bit 0 and bits 7,6 only.  Envelopes are compared
   with the model's up to those bits *)
Definition flags_mask : N := 193.   (* 0b11000001 *)
Fixpoint mask_flags_at (n : nat) (e : bytes) : bytes :=
  match e, n with
  | [], _ => []
  | b :: r, O => N.land b flags_mask :: r
  | b :: r, S n => b :: mask_flags_at n r
  end.
Definition envelope_eqb (a b : bytes) : bool := bytes_eqb (mask_flags_at 9 a) (mask_flags_at 9 b).

(* the history run through the model: contents = number of changes so far.  The oracles answer with the
   implementation's own bytes (`body` = what follows the header of the last envelope): the serialiser for the
   final contents, the compressor for every input; their laws are checked by `payload_ok` *)
Definition hist_steps (h : list hstep) : list (step N) :=
  map (fun s => match s with
                | HMut => SMutate N N.succ
                | HEnc false z => SEncode N {| cformat := JSON; czstd := z |}
                | HEnc true z => SEncodeStr N {| cformat := JSON; czstd := z |}
                end) h.
Definition n_muts (h : list hstep) : N :=
  N.of_nat (length (filter (fun s => match s with HMut => true | _ => false end) h)).
Definition hist_last (h : list hstep) (body : bytes) : option (N * res bytes) :=
  let final := n_muts h in
  last (map Some (run_steps N (fun v => if v =? final then body else []) (fun _ _ => body)
                            (fun _ => true) 0 (hist_steps h))) None.
Definition hist_zstd (h : list hstep) : option (option N) :=
  match last (map Some h) None with Some (HEnc _ z) => Some z | _ => None end.

Definition is_true (o : option bool) : bool := match o with Some true => true | _ => false end.
(* the oracle laws on this case.  No compression asked: what follows the header IS a serialised payload of the
   package (the JSON codec reads the same documents back from it).  Compression asked: what follows the
   header is zstd-compressed (pyzstd.decompress accepts it) and decompresses to such a payload *)
Definition payload_ok (z : option N) (dec_ok : bool) (pp pd : option bool) : bool :=
  match z with
  | None => is_true pp
  | Some _ => dec_ok && is_true pd
  end.
(* the documented header: magic, format byte, flags (bit 0 = compressed, bits 7,6 = 0,1) *)
Definition header_documented (z : option N) (envelope : bytes) : bool :=
  Nat.leb 10 (length envelope) &&
  bytes_eqb (firstn 8 envelope) MAGIC && (nth 8 envelope 0 =? 63) &&
  Bool.eqb (N.testbit (nth 9 envelope 0) 0) (match z with Some _ => true | None => false end) &&
  negb (N.testbit (nth 9 envelope 0) 7) && N.testbit (nth 9 envelope 0) 6.
Definition known_format (b : N) : bool := mem N.eqb b [1; 2; 63].

Definition corr (c : case) : bool :=
  match c with
  | CMake z envelope dec_ok pp pd =>
      (* the model's serialiser and compressor oracles answer with the implementation's own bytes; their laws
         (parse (dump p) = p, decompress (compress x) = x) are checked on those answers *)
      match make_envelope unit (fun _ => skipn 10 envelope) (fun _ _ => skipn 10 envelope) tt
                          {| cformat := JSON; czstd := z |} with
      | Ok e => envelope_eqb e envelope
      | Err _ => false
      end && payload_ok z dec_ok pp pd
  | CStr f z obs =>
      (* the model's make_envelope_str with the oracles of this case: refuses a format that is not
         ASCII-printable; an uncompressed JSON envelope is text and reads back; a compressed one is outside the
         property (no text encoding of it exists: any refusal; if a string does come back it must read back) *)
      match make_envelope_str unit (fun _ => []) (fun _ _ => []) (fun _ => true) tt
                              {| cformat := f; czstd := z |} with
      | Ok _ => match z with
                | None => outcome_eqb obs (OOk true)
                | Some _ => match obs with OOk same => same | _ => true end
                end
      | Err _ => match obs with OOk _ => false | _ => true end
      end
  | CRead valid input dec_ok pp pd obs =>
      (* what the model's header decoder rejects is a ValueError; a valid envelope decodes as the model says
         with the oracles' answers; any other input (a header the decoder accepts in front of a damaged or
         foreign payload) is outside the property: outcome and exception class are not compared *)
      match header_from_bytes input with
      | Err _ => outcome_eqb obs OValueError
      | Ok _ => if valid then outcome_eqb obs (read_model input dec_ok pp pd) else true
      end
  | CSweep acc others nve =>
      (* compared with the model on what the property promises: every pair the model rejects (unknown format
         byte) is a ValueError, every accepted pair is accepted by the model with the same decoded fields, the
         encoder's own headers are accepted.  Whether the pairs with a known format byte and unusual flags are
         all accepted (the model: yes, 768 pairs) is a diagnostic of the harness, not a verdict *)
      forallb (fun a => mem acc_eqb a model_accepted) acc &&
      forallb (fun k => mem key_eqb k (map fst model_accepted)) others &&
      nodupb key_eqb (map fst acc) &&
      (nve + N.of_nat (length acc) + N.of_nat (length others) =? 65536) &&
      forallb (fun k => mem key_eqb k (map fst acc)) json_headers
  | CTrunc env lens others nve =>
      let ok := filter (fun n => match header_from_bytes (firstn n env) with Ok _ => true | _ => false end)
                       (seq 0 (S (length env))) in
      list_eqb Nat.eqb lens ok && Nat.eqb nve (S (length env) - length ok) &&
      match others with [] => true | _ => false end
  | CSeq h envelope dec_ok pp pd obs =>
      match hist_last h (skipn 10 envelope) with
      | Some (v, Ok e) => (v =? n_muts h) && envelope_eqb e envelope
      | _ => false
      end &&
      match hist_zstd h with Some z => payload_ok z dec_ok pp pd | None => false end &&
      outcome_eqb obs (read_model envelope dec_ok pp pd)
  | CRaised _ => false          (* the model encodes every JSON configuration *)
  | CSkip => true
  end.

(* monitor: the documented format, stated directly on the observations *)
Definition mon (c : case) : bool :=
  match c with
  | CMake z envelope dec_ok pp pd => header_documented z envelope && payload_ok z dec_ok pp pd
  | CStr f z obs =>
      (* text encoding is offered only for ASCII-printable formats: no string comes back for the others (HOW
         it is refused is not prescribed); a string that does come back decodes to the same documents; the
         uncompressed JSON configuration can be encoded as text *)
      match f, z with
      | JSON, None => outcome_eqb obs (OOk true)
      | JSON, Some _ => match obs with OOk same => same | _ => true end
      | _, _ => match obs with OOk _ => false | _ => true end
      end
  | CRead valid input dec_ok pp pd obs =>
      if valid then outcome_eqb obs (OOk true) else
      if Nat.ltb (length input) 10 || negb (bytes_eqb (firstn 8 input) MAGIC) ||
         negb (mem N.eqb (nth 8 input 0) [1; 2; 63])
      then outcome_eqb obs OValueError
      else true      (* a damaged or foreign envelope behind an acceptable header: nothing is promised *)
  | CSweep acc others nve =>
      (* unknown format byte => ValueError (neither accepted nor another exception class); an accepted header
         decodes to its format byte and to bit 0 of the flags; the headers the encoder writes are accepted *)
      forallb (fun '(fb, fl, (fv, z)) => known_format fb && (fv =? fb) && Bool.eqb z (N.odd fl)) acc &&
      forallb (fun '(fb, fl) => known_format fb) others &&
      nodupb key_eqb (map fst acc) &&
      (nve + N.of_nat (length acc) + N.of_nat (length others) =? 65536) &&
      forallb (fun k => mem key_eqb k (map fst acc)) json_headers
  | CTrunc env lens others nve =>
      (* every prefix: shorter than a header, other magic number or unknown format byte => ValueError (not
         decoded, and no other exception class); otherwise decoded *)
      forallb (fun n => let d := firstn n env in
                 Bool.eqb (mem Nat.eqb n lens)
                          (Nat.leb 10 n && bytes_eqb (firstn 8 d) MAGIC && known_format (nth 8 d 0)) &&
                 negb (mem Nat.eqb n others))
              (seq 0 (S (length env))) &&
      nodupb Nat.eqb lens && forallb (fun n => Nat.leb n (length env)) lens &&
      Nat.eqb nve (S (length env) - length lens)
  | CSeq h envelope dec_ok pp pd obs =>
      (* the envelope an object gives after any history carries the documented header and a payload of its
         CURRENT contents (compressed iff asked), and decodes to a package with the same documents *)
      match hist_zstd h with
      | Some z => header_documented z envelope && payload_ok z dec_ok pp pd && outcome_eqb obs (OOk true)
      | None => false
      end
  | CRaised _ => false
  | CSkip => true
  end.
