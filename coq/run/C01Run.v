(* Correspondence and monitor for C01, evaluated on cases written by harness/props/c01.py. *)
From Coq Require Import NArith List Bool Arith.
Import ListNotations.
From HV Require Export lib.Harness model.Validity model.Builder spec.BuilderWFS model.Builder2 spec.Builder2WFS spec.Builder2LiveS model.Builder3 spec.Builder3S.
Local Open Scope N_scope.

(* ------------------------------------------------------------------ equality of literals *)
Fixpoint value_eqb (a b : value) {struct a} : bool :=
  let fix go (l l' : list value) {struct l} : bool :=
    match l, l' with
    | [], [] => true
    | x :: r, y :: s => value_eqb x y && go r s
    | _, _ => false
    end in
  match a, b with
  | VSum t g vs, VSum t' g' vs' => (t =? t') && (g =? g') && go vs vs'
  | VTuple t vs, VTuple t' vs' => (t =? t') && go vs vs'
  | VExt t, VExt t' => t =? t'
  | VFun t k, VFun t' k' => (t =? t') && (k =? k')
  | _, _ => false
  end.
Definition vop_eqb (a b : vop) : bool :=
  match a, b with
  | Module, Module | AliasDecl, AliasDecl | AliasDefn, AliasDefn => true
  | FuncDefn f i o, FuncDefn f' i' o' => (f =? f') && row_eqb i i' && row_eqb o o'
  | FuncDecl f, FuncDecl f' => f =? f'
  | Const v, Const v' => value_eqb v v'
  | Input t, Input t' | Output t, Output t' | ExitB t, ExitB t' => row_eqb t t'
  | Call f i o, Call f' i' o' => (f =? f') && row_eqb i i' && row_eqb o o'
  | CallIndirect i o f, CallIndirect i' o' f' => row_eqb i i' && row_eqb o o' && (f =? f')
  | LoadConst t, LoadConst t' => t =? t'
  | LoadFunc f i o t, LoadFunc f' i' o' t' => (f =? f') && row_eqb i i' && row_eqb o o' && (t =? t')
  | DFG i o, DFG i' o' | CFG i o, CFG i' o' | Case i o, Case i' o' | ExtOp i o, ExtOp i' o' =>
      row_eqb i i' && row_eqb o o'
  | Block i r o s, Block i' r' o' s' => row_eqb i i' && rows_eqb r r' && row_eqb o o' && (s =? s')
  | Conditional r a o s, Conditional r' a' o' s' => rows_eqb r r' && row_eqb a a' && row_eqb o o' && (s =? s')
  | TailLoop a b c s, TailLoop a' b' c' s' => row_eqb a a' && row_eqb b b' && row_eqb c c' && (s =? s')
  | Tag t r s, Tag t' r' s' => (t =? t') && rows_eqb r r' && (s =? s')
  | _, _ => false
  end.
Definition vnode_eqb (a b : vnode) : bool := vop_eqb (n_op a) (n_op b) && (n_parent a =? n_parent b).
Definition edge_eqb (a b : edge) : bool :=
  (e_src a =? e_src b) && optN_eqb (e_soff a) (e_soff b) && (e_dst a =? e_dst b) && optN_eqb (e_doff a) (e_doff b).
(* nodes in index order; the order of the edge list of a document is not promised: multiset *)
Definition graph_eqb (a b : graph) : bool :=
  list_eqb vnode_eqb (g_nodes a) (g_nodes b) && perm_eqb edge_eqb (g_edges a) (g_edges b).

(* CDoc: a document the implementation serialised (h), whether the document obtained through the package
   envelope is the same document, and the verdict of the design-time transcription (diagnostic only).
   CProg: the same for a program inside the builder model of model/Builder.v.
   CNeg: a valid document with rule k violated by mutation (self-test of the transcription).
   CSkip: the builders raised (reported separately by the harness).
   CPrem: the type table and the program of a CProg case alone: do the decidable premises of the theorems of
   props/C01.v hold of the programs the correspondence is sampled on?
   CProg2 (third pass): as CProg for a program inside the extended builder model of model/Builder2.v (TailLoop,
   Conditional, insert_*, CallIndirect; Dfg / TailLoop / Conditional roots). *)
Inductive case :=
| CDoc (h : vhugr) (same : bool) (fake : bool)
| CProg (p : prog) (h : vhugr) (same : bool) (fake : bool)
| CNeg (h : vhugr) (k : N)
| CSkip
| CPrem (tys : list tyinfo) (p : prog)
| CProg2 (p : prog2) (h : vhugr) (same : bool) (fake : bool)
| CPrem2 (tys : list tyinfo) (p : prog2)
(* fourth pass: a program inside the third builder model of model/Builder3.v (functions, modules, control-flow graphs),
   with the table of interned polymorphic signatures *)
| CProg3 (sigs : list sinfo) (p : prog3) (subs : list prog3) (h : vhugr) (same : bool) (fake : bool)
(* the program of a CProg3 case alone: the premise of C01_builder3_child_tags (spec/Builder3S.v) *)
| CPrem3 (p : prog3) (subs : list prog3).

(* the model run on the program gives the implementation's document *)
Definition corr (c : case) : bool :=
  match c with
  | CProg p h _ _ => match run (v_tys h) p with Ok g => graph_eqb g (v_main h) | Err _ => false end
  | CProg2 p h _ _ => match run2 (v_tys h) p with Ok g => graph_eqb g (v_main h) | Err _ => false end
  | CProg3 sigs p subs h _ _ =>
      match run3s (v_tys h) sigs p subs with
      | Ok gs => graph_eqb (fst gs) (v_main h) && list_eqb graph_eqb (snd gs) (v_subs h)
      | Err _ => false
      end
  | _ => true
  end.

Definition mon (c : case) : bool :=
  match c with
  | CDoc h same _ => same && valid h
  | CProg _ h same _ => same && valid h
  | CNeg h k => negb (match nthN (rules (v_tys h) (v_subs h) (v_main h)) k with Some b => b | None => true end)
  | CSkip => true
  | CPrem _ _ => true
  | CProg2 _ h same _ => same && valid h
  | CPrem2 _ _ => true
  | CProg3 _ _ _ h same _ => same && valid h
  | CPrem3 _ _ => true
  end.

(* the premises of C01_builder_valid (spec/BuilderWFS.v: wf_prog; and the type table) on an in-model program *)
Definition prem (c : case) : bool :=
  match c with
  | CPrem tys p => wf_prog tys p && r_table tys &&
                   (* fourth pass: the embedded program also meets the premises of C01_builder2_valid *)
                   wf_prog2 tys (emb p)
  (* the premises of the theorems about the extended language (spec/Builder2WFS.v) *)
  | CPrem2 tys p => croot_ok p && wt_prog2 tys p && r_table tys &&
                     (* fourth pass: the liveness-aware premises of rules 9, 10, 11 (spec/Builder2LiveS.v) *)
                     ord_prog2 p && lin_prog2 tys p
  (* the premise of rule 1 for the third language (spec/Builder3S.v) *)
  | CPrem3 p subs => croot3s p subs
  | _ => true
  end.
(* diagnostics: which of the fourth-pass premises fails *)
Definition prem_ord (c : case) : bool := match c with CPrem2 _ p => ord_prog2 p | _ => true end.
Definition prem_lin (c : case) : bool := match c with CPrem2 tys p => negb (wt_prog2 tys p) || lin_prog2 tys p | _ => true end.

(* diagnostic: agreement with the design-time transcription *)
Definition agree (c : case) : bool :=
  match c with
  | CDoc h _ fake => Bool.eqb (valid h) fake
  | CProg _ h _ fake => Bool.eqb (valid h) fake
  | CProg2 _ h _ fake => Bool.eqb (valid h) fake
  | CProg3 _ _ _ h _ fake => Bool.eqb (valid h) fake
  | _ => true
  end.
