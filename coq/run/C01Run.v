(* Correspondence and monitor for C01, evaluated on cases written by harness/props/c01.py. *)
From Coq Require Import NArith List Bool Arith.
Import ListNotations.
From HV Require Export lib.Harness model.Validity model.DocIso model.Builder spec.BuilderWFS model.Builder2 spec.Builder2WFS spec.Builder2LiveS model.Builder3 spec.Builder3S.
Local Open Scope N_scope.

(* ------------------------------------------------------------------ equality of literals *)
(* value_eqb_with / vop_eqb_with (model/DocIso.v) compare operations; the index of a function constant's nested HUGR is
   compared by the relation given (N.eqb: same position in the side list) *)
Definition value_eqb : value -> value -> bool := value_eqb_with N.eqb.
Definition vop_eqb : vop -> vop -> bool := vop_eqb_with N.eqb.
Definition vnode_eqb (a b : vnode) : bool := vop_eqb (n_op a) (n_op b) && (n_parent a =? n_parent b).
(* index-exact comparison: nodes in index order; the order of the edge list of a document is not promised: multiset.
   No longer used by `corr` (the property does not constrain the numbering of the nodes); kept for run/C15ValidRun.v *)
Definition graph_eqb (a b : graph) : bool :=
  list_eqb vnode_eqb (g_nodes a) (g_nodes b) && perm_eqb edge_eqb (g_edges a) (g_edges b).

(* ------------------------------------------------------------------ comparison up to the numbering of the nodes *)
(* model/DocIso.v: the two documents are the same ordered tree of operations with the same port graph on top
   (proofs/DocIsoP.v: graph_isob_sound; props/C01.v: C01_corr_is_isomorphism_check).  A function constant refers to its
   nested HUGR by position in the side list; the positions follow the numbering too, so the two nested HUGRs named
   are compared (up to numbering) instead of the positions. *)
Definition doc_isob (g : graph) (gs : list graph) (h : graph) (hs : list graph) : bool :=
  graph_isob (vop_eqb_with (fun k k' => match nthN gs k, nthN hs k' with
                                        | Some a, Some b => graph_isob vop_eqb a b
                                        | _, _ => false
                                        end)) g h.

(* CDoc: a document the implementation serialised (h), whether the document obtained through the package
   envelope is the same document, and the verdict of the design-time transcription (diagnostic only).
   CProg: the same for a program inside the builder model of model/Builder.v.
   CNeg: a valid document with rule k violated by mutation (self-test of the transcription).
   CSkip: the builders raised (reported separately by the harness).
   CPrem: the type table and the program of a CProg case alone: do the decidable premises of the theorems of
   props/C01.v hold of the programs the correspondence is sampled on?
   CProg2 (third pass): as CProg for a program inside the extended builder model of model/Builder2.v (TailLoop,
   Conditional, insert_*, CallIndirect; Dfg / TailLoop / Conditional roots). *)
Inductive case :=
| CDoc (h : vhugr) (same : bool) (fake : bool)
| CProg (p : prog) (h : vhugr) (same : bool) (fake : bool)
| CNeg (h : vhugr) (k : N)
| CSkip
| CPrem (tys : list tyinfo) (p : prog)
| CProg2 (p : prog2) (h : vhugr) (same : bool) (fake : bool)
| CPrem2 (tys : list tyinfo) (p : prog2)
(* fourth pass: a program inside the third builder model of model/Builder3.v (functions, modules, control-flow graphs),
   with the table of interned polymorphic signatures *)
| CProg3 (sigs : list sinfo) (p : prog3) (subs : list prog3) (h : vhugr) (same : bool) (fake : bool)
(* the program of a CProg3 case alone: the premise of C01_builder3_child_tags (spec/Builder3S.v) *)
| CPrem3 (p : prog3) (subs : list prog3)
(* the document obtained through the package envelope DIFFERS from the one to_json gives (the property promises that
   what is serialised is valid, not that the two serialisations are the same text): c is the case of the to_json
   document, h2 the envelope's document; both have to be valid *)
| CBoth (c : case) (h2 : vhugr).

(* the model run on the program gives the implementation's document, up to the numbering of the nodes
   (model/DocIso.v; the property does not say which index a node gets) *)
Fixpoint corr (c : case) : bool :=
  match c with
  | CProg p h _ _ => match run (v_tys h) p with Ok g => graph_isob vop_eqb g (v_main h) | Err _ => false end
  | CProg2 p h _ _ => match run2 (v_tys h) p with Ok g => graph_isob vop_eqb g (v_main h) | Err _ => false end
  | CProg3 sigs p subs h _ _ =>
      match run3s (v_tys h) sigs p subs with
      | Ok gs => doc_isob (fst gs) (snd gs) (v_main h) (v_subs h) && (lenN (snd gs) =? lenN (v_subs h))
      | Err _ => false
      end
  | CBoth c _ => corr c
  | _ => true
  end.

(* `same` (the envelope's document is literally the to_json document) is a diagnostic since CBoth exists: the harness
   passes true and wraps the case in CBoth when the documents differ *)
Fixpoint mon (c : case) : bool :=
  match c with
  | CDoc h same _ => same && valid h
  | CProg _ h same _ => same && valid h
  | CNeg h k => negb (match nthN (rules (v_tys h) (v_subs h) (v_main h)) k with Some b => b | None => true end)
  | CSkip => true
  | CPrem _ _ => true
  | CProg2 _ h same _ => same && valid h
  | CPrem2 _ _ => true
  | CProg3 _ _ _ h same _ => same && valid h
  | CPrem3 _ _ => true
  | CBoth c h2 => mon c && valid h2
  end.

(* the premises of C01_builder_valid (spec/BuilderWFS.v: wf_prog; and the type table) on an in-model program *)
Definition prem (c : case) : bool :=
  match c with
  | CPrem tys p => wf_prog tys p && r_table tys &&
                   (* fourth pass: the embedded program also meets the premises of C01_builder2_valid *)
                   wf_prog2 tys (emb p)
  (* the premises of the theorems about the extended language (spec/Builder2WFS.v) *)
  | CPrem2 tys p => croot_ok p && wt_prog2 tys p && r_table tys &&
                     (* fourth pass: the liveness-aware premises of rules 9, 10, 11 (spec/Builder2LiveS.v) *)
                     ord_prog2 p && lin_prog2 tys p
  (* the premise of rule 1 for the third language (spec/Builder3S.v) *)
  | CPrem3 p subs => croot3s p subs
  | _ => true
  end.
(* diagnostics: which of the fourth-pass premises fails *)
Definition prem_ord (c : case) : bool := match c with CPrem2 _ p => ord_prog2 p | _ => true end.
Definition prem_lin (c : case) : bool := match c with CPrem2 tys p => negb (wt_prog2 tys p) || lin_prog2 tys p | _ => true end.

(* diagnostic: agreement with the design-time transcription *)
Definition agree (c : case) : bool :=
  match c with
  | CDoc h _ fake => Bool.eqb (valid h) fake
  | CProg _ h _ fake => Bool.eqb (valid h) fake
  | CProg2 _ h _ fake => Bool.eqb (valid h) fake
  | CProg3 _ _ _ h _ fake => Bool.eqb (valid h) fake
  | _ => true
  end.
