(* Correspondence and monitor for C01, evaluated on cases written by harness/props/c01.py. *)
From Coq Require Import NArith List Bool Arith.
Import ListNotations.
From HV Require Export lib.Harness model.Validity.
Local Open Scope N_scope.

(* CDoc: a document the implementation serialised (h), whether the document obtained through the package
   envelope is the same document, and the verdict of the design-time transcription (diagnostic only).
   CNeg: a valid document with rule k violated by mutation (self-test of the transcription).
   CSkip: the builders raised (reported separately by the harness). *)
Inductive case :=
| CDoc (h : vhugr) (same : bool) (fake : bool)
| CNeg (h : vhugr) (k : N)
| CSkip.

Definition corr (c : case) : bool := true.

Definition mon (c : case) : bool :=
  match c with
  | CDoc h same _ => same && valid h
  | CNeg h k => negb (match nthN (rules (v_tys h) (v_subs h) (v_main h)) k with Some b => b | None => true end)
  | CSkip => true
  end.

(* diagnostic: agreement with the design-time transcription *)
Definition agree (c : case) : bool :=
  match c with CDoc h _ fake => Bool.eqb (valid h) fake | _ => true end.
