(* Correspondence and monitor for C18, evaluated on cases written by harness/props/c18.py. *)
From Coq Require Import List Bool Arith ZArith.
Import ListNotations.
From HV Require Export lib.PyDict lib.Harness model.BiMapM spec.BiMapS model.BiMapHeap spec.BiMapWorldS.

Definition zop := @op Z Z.
Definition out_eqb (a b : out) : bool :=
  match a, b with Done, Done | KeyError, KeyError | NotBijection, NotBijection => true | _, _ => false end.
Definition zz_eqb := pair_eqb Z.eqb Z.eqb.
Definition oz_eqb := option_eqb Z.eqb.

(* what the harness observes after construction and after every step *)
Record obs := { o_items : list (Z * Z); o_len : nat; o_iter : list Z;
                o_getr : list (option Z);   (* get_right k, k over the key universe *)
                o_getl : list (option Z);   (* get_left v, v over the value universe *)
                o_geti : list (option Z) }. (* self[k] : None = KeyError *)
Record hcase := { c_keys : list Z; c_vals : list Z; c_init : list (Z * Z);
                 c_init_obs : option obs;                    (* None = NotBijection raised *)
                 c_steps : list (zop * (out * obs)) }.

Definition model_obs (c : hcase) (b : @bimap Z Z) : obs :=
  {| o_items := items b; o_len := len b; o_iter := iter b;
     o_getr := map (get_right Z.eqb b) (c_keys c);
     o_getl := map (get_left Z.eqb b) (c_vals c);
     o_geti := map (getitem Z.eqb b) (c_keys c) |}.

(* order of items()/iteration is not promised by the property: compared as multisets *)
Definition obs_eqb (a b : obs) : bool :=
  perm_eqb zz_eqb (o_items a) (o_items b) && Nat.eqb (o_len a) (o_len b) &&
  perm_eqb Z.eqb (o_iter a) (o_iter b) && list_eqb oz_eqb (o_getr a) (o_getr b) &&
  list_eqb oz_eqb (o_getl a) (o_getl b) && list_eqb oz_eqb (o_geti a) (o_geti b).

Fixpoint corr_steps (c : hcase) (b : @bimap Z Z) (l : list (zop * (out * obs))) : bool :=
  match l with
  | [] => true
  | (o, (r, ob)) :: rest =>
      let '(b', r') := step Z.eqb Z.eqb b o in
      out_eqb r r' && obs_eqb ob (model_obs c b') && corr_steps c b' rest
  end.
Definition hcorr (c : hcase) : bool :=
  match init Z.eqb (c_init c), c_init_obs c with
  | None, None => match c_steps c with [] => true | _ => false end
  | Some b, Some ob => obs_eqb ob (model_obs c b) && corr_steps c b (c_steps c)
  | _, _ => false
  end.

(* monitor: the specification evaluated on the implementation's own observations *)
Definition obs_consistent (c : hcase) (ob : obs) : bool :=
  let p := o_items ob in
  wf_pairs_b Z.eqb Z.eqb p && Nat.eqb (o_len ob) (length p) &&
  perm_eqb Z.eqb (o_iter ob) (map fst p) &&
  list_eqb oz_eqb (o_getr ob) (map (a_get_right Z.eqb p) (c_keys c)) &&
  list_eqb oz_eqb (o_getl ob) (map (a_get_left Z.eqb p) (c_vals c)) &&
  list_eqb oz_eqb (o_geti ob) (map (a_get_right Z.eqb p) (c_keys c)).
Fixpoint mon_steps (c : hcase) (p : list (Z * Z)) (l : list (zop * (out * obs))) : bool :=
  match l with
  | [] => true
  | (o, (r, ob)) :: rest =>
      let '(p', r') := a_step Z.eqb Z.eqb p o in
      out_eqb r r' && perm_eqb zz_eqb (o_items ob) p' && obs_consistent c ob && mon_steps c (o_items ob) rest
  end.
Definition hmon (c : hcase) : bool :=
  match a_init Z.eqb (c_init c), c_init_obs c with
  | None, None => match c_steps c with [] => true | _ => false end
  | Some p, Some ob => perm_eqb zz_eqb (o_items ob) p && obs_consistent c ob && mon_steps c (o_items ob) (c_steps c)
  | _, _ => false
  end.

(* ---------- several maps and the caller's seed mappings (ownership of state; model/BiMapHeap.v) ---------- *)
Definition zsrc := src.
Definition zwop := @wop Z Z.
Definition sNone : zsrc := SrcNone.
Definition sSeed (s : nat) : zsrc := SrcSeed s.
Definition sMap (i : nat) : zsrc := SrcMap i.
Definition wNew (j : nat) (s : zsrc) : zwop := WNew j s.
Definition wOp (i : nat) (o : zop) : zwop := WOp i o.
Definition wSeedSet (s : nat) (k v : Z) : zwop := WSeedSet s k v.
Definition wSeedDel (s : nat) (k : Z) : zwop := WSeedDel s k.
Definition wSeedClear (s : nat) : zwop := WSeedClear s.

(* observed after construction of the seeds and after every step: the items of every seed mapping and the
   full observation of every map variable (None = not constructed yet) *)
Record wobs := { wo_seeds : list (list (Z * Z)); wo_slots : list (option obs) }.
Record wcase := { wc_keys : list Z; wc_vals : list Z; wc_seeds : list (list (Z * Z)); wc_nm : nat;
                  wc_init_obs : wobs; wc_steps : list (zwop * (out * wobs)) }.

Definition kv_obs (ks vs : list Z) (b : @bimap Z Z) : obs :=
  {| o_items := items b; o_len := len b; o_iter := iter b;
     o_getr := map (get_right Z.eqb b) ks; o_getl := map (get_left Z.eqb b) vs; o_geti := map (getitem Z.eqb b) ks |}.
Definition wmodel_obs (ks vs : list Z) (w : @world Z Z) : wobs :=
  {| wo_seeds := map (seed_content w) (seq 0 (w_ns w));
     wo_slots := map (fun i => option_map (kv_obs ks vs) (slot_value w i)) (seq 0 (length (w_slots w))) |}.
Definition items_eqb := perm_eqb zz_eqb.
Definition wobs_eqb (a b : wobs) : bool :=
  list_eqb items_eqb (wo_seeds a) (wo_seeds b) && list_eqb (option_eqb obs_eqb) (wo_slots a) (wo_slots b).
Fixpoint wcorr_steps (ks vs : list Z) (w : @world Z Z) (l : list (zwop * (out * wobs))) : bool :=
  match l with
  | [] => true
  | (o, (r, ob)) :: rest =>
      let '(w', r') := wstep Z.eqb Z.eqb w o in
      out_eqb r r' && wobs_eqb ob (wmodel_obs ks vs w') && wcorr_steps ks vs w' rest
  end.
Definition wcorr (c : wcase) : bool :=
  let w := world0 (wc_seeds c) (wc_nm c) in
  wobs_eqb (wc_init_obs c) (wmodel_obs (wc_keys c) (wc_vals c) w) && wcorr_steps (wc_keys c) (wc_vals c) w (wc_steps c).

(* monitor: the value-level world specification stepped from the implementation's own previous observation;
   a step may change only the component it addresses (frame), every map variable stays internally
   consistent, a constructed map holds the pairs its source showed at that moment *)
Definition kv_consistent (ks vs : list Z) (ob : obs) : bool :=
  let p := o_items ob in
  wf_pairs_b Z.eqb Z.eqb p && Nat.eqb (o_len ob) (length p) &&
  perm_eqb Z.eqb (o_iter ob) (map fst p) &&
  list_eqb oz_eqb (o_getr ob) (map (a_get_right Z.eqb p) ks) &&
  list_eqb oz_eqb (o_getl ob) (map (a_get_left Z.eqb p) vs) &&
  list_eqb oz_eqb (o_geti ob) (map (a_get_right Z.eqb p) ks).
Definition aw_of (o : wobs) : @aworld Z Z :=
  {| a_seeds := wo_seeds o; a_slots := map (option_map o_items) (wo_slots o) |}.
Definition wobs_ok (ks vs : list Z) (o : wobs) (aw : @aworld Z Z) : bool :=
  list_eqb items_eqb (wo_seeds o) (a_seeds aw) &&
  list_eqb (option_eqb items_eqb) (map (option_map o_items) (wo_slots o)) (a_slots aw) &&
  forallb (fun s => match s with None => true | Some ob => kv_consistent ks vs ob end) (wo_slots o).
Fixpoint wmon_steps (ks vs : list Z) (prev : wobs) (l : list (zwop * (out * wobs))) : bool :=
  match l with
  | [] => true
  | (o, (r, ob)) :: rest =>
      let '(aw', r') := a_wstep Z.eqb Z.eqb (aw_of prev) o in
      out_eqb r r' && wobs_ok ks vs ob aw' && wmon_steps ks vs ob rest
  end.
Definition wmon (c : wcase) : bool :=
  wobs_ok (wc_keys c) (wc_vals c) (wc_init_obs c) (aworld0 (wc_seeds c) (wc_nm c)) &&
  wmon_steps (wc_keys c) (wc_vals c) (wc_init_obs c) (wc_steps c).

Inductive case := CH (c : hcase) | CW (c : wcase).
Definition corr (c : case) : bool := match c with CH c => hcorr c | CW c => wcorr c end.
Definition mon (c : case) : bool := match c with CH c => hmon c | CW c => wmon c end.
