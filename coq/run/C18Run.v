(* Correspondence and monitor for C18, evaluated on cases written by harness/props/c18.py. *)
From Coq Require Import List Bool Arith ZArith.
Import ListNotations.
From HV Require Export lib.PyDict lib.Harness model.BiMapM spec.BiMapS.

Definition zop := @op Z Z.
Definition out_eqb (a b : out) : bool :=
  match a, b with Done, Done | KeyError, KeyError | NotBijection, NotBijection => true | _, _ => false end.
Definition zz_eqb := pair_eqb Z.eqb Z.eqb.
Definition oz_eqb := option_eqb Z.eqb.

(* what the harness observes after construction and after every step *)
Record obs := { o_items : list (Z * Z); o_len : nat; o_iter : list Z;
                o_getr : list (option Z);   (* get_right k, k over the key universe *)
                o_getl : list (option Z);   (* get_left v, v over the value universe *)
                o_geti : list (option Z) }. (* self[k] : None = KeyError *)
Record case := { c_keys : list Z; c_vals : list Z; c_init : list (Z * Z);
                 c_init_obs : option obs;                    (* None = NotBijection raised *)
                 c_steps : list (zop * (out * obs)) }.

Definition model_obs (c : case) (b : @bimap Z Z) : obs :=
  {| o_items := items b; o_len := len b; o_iter := iter b;
     o_getr := map (get_right Z.eqb b) (c_keys c);
     o_getl := map (get_left Z.eqb b) (c_vals c);
     o_geti := map (getitem Z.eqb b) (c_keys c) |}.

(* order of items()/iteration is not promised by the property: compared as multisets *)
Definition obs_eqb (a b : obs) : bool :=
  perm_eqb zz_eqb (o_items a) (o_items b) && Nat.eqb (o_len a) (o_len b) &&
  perm_eqb Z.eqb (o_iter a) (o_iter b) && list_eqb oz_eqb (o_getr a) (o_getr b) &&
  list_eqb oz_eqb (o_getl a) (o_getl b) && list_eqb oz_eqb (o_geti a) (o_geti b).

Fixpoint corr_steps (c : case) (b : @bimap Z Z) (l : list (zop * (out * obs))) : bool :=
  match l with
  | [] => true
  | (o, (r, ob)) :: rest =>
      let '(b', r') := step Z.eqb Z.eqb b o in
      out_eqb r r' && obs_eqb ob (model_obs c b') && corr_steps c b' rest
  end.
Definition corr (c : case) : bool :=
  match init Z.eqb (c_init c), c_init_obs c with
  | None, None => match c_steps c with [] => true | _ => false end
  | Some b, Some ob => obs_eqb ob (model_obs c b) && corr_steps c b (c_steps c)
  | _, _ => false
  end.

(* monitor: the specification evaluated on the implementation's own observations *)
Definition obs_consistent (c : case) (ob : obs) : bool :=
  let p := o_items ob in
  wf_pairs_b Z.eqb Z.eqb p && Nat.eqb (o_len ob) (length p) &&
  perm_eqb Z.eqb (o_iter ob) (map fst p) &&
  list_eqb oz_eqb (o_getr ob) (map (a_get_right Z.eqb p) (c_keys c)) &&
  list_eqb oz_eqb (o_getl ob) (map (a_get_left Z.eqb p) (c_vals c)) &&
  list_eqb oz_eqb (o_geti ob) (map (a_get_right Z.eqb p) (c_keys c)).
Fixpoint mon_steps (c : case) (p : list (Z * Z)) (l : list (zop * (out * obs))) : bool :=
  match l with
  | [] => true
  | (o, (r, ob)) :: rest =>
      let '(p', r') := a_step Z.eqb Z.eqb p o in
      out_eqb r r' && perm_eqb zz_eqb (o_items ob) p' && obs_consistent c ob && mon_steps c (o_items ob) rest
  end.
Definition mon (c : case) : bool :=
  match a_init Z.eqb (c_init c), c_init_obs c with
  | None, None => match c_steps c with [] => true | _ => false end
  | Some p, Some ob => perm_eqb zz_eqb (o_items ob) p && obs_consistent c ob && mon_steps c (o_items ob) (c_steps c)
  | _, _ => false
  end.
