(* Correspondence and monitor for C08, evaluated on cases written by harness/props/c08.py. *)
From Coq Require Import List Bool Arith ZArith NArith.
Import ListNotations.
From HV Require Export run.C04Run spec.InsertS.
From HV Require Import proofs.InsertP.

(* how a HUGR of the case is given: by its history of public calls, every call with the value the implementation
   returned (the oracle of the free-index choices, model/Graph.v [step]), or (builder programs, no deletions, so
   no index is free and links() is in sub-offset order) by its observation *)
Inductive src := FromHist (rootop rootmeta : N) (cmds : list (zcmd * ret)) | FromObs (o : obs).

Definition data_of_nobs (x : nobs) : node_data N N :=
  {| nd_op := n_op x; nd_parent := n_parent x; nd_inps := n_nin x; nd_outs := n_nout x;
     nd_children := n_children x; nd_meta := n_meta x |}.
Fixpoint drop_none {A} (l : list (option A)) : list (option A) :=
  match l with None :: r => drop_none r | _ => l end.
(* the universe of the observation extends beyond the node table: trailing KeyErrors are not table entries *)
Definition hugr_of_obs (o : obs) : zhugr :=
  {| nodes := rev (drop_none (rev (map (option_map data_of_nobs) (o_get o))));
     links := fold_left (fun b l => match lm_add b (fst l) (snd l) with Some b' => b' | None => b end)
                        (o_links o) {| fwd := []; bck := [] |};
     free := []; root := o_root o |}.
(* None: some call of the history is outside C04's guard (the pair is outside this property's domain) *)
Fixpoint run_in_guard (h : zhugr) (cs : list (zcmd * ret)) : option zhugr :=
  match cs with
  | [] => Some h
  | (c, rt) :: r => let '(h', rt', _) := step rt h c in if in_guard h c rt' then run_in_guard h' r else None
  end.
Definition build (s : src) : option zhugr :=
  match s with
  | FromHist o m cs => run_in_guard (init o m) cs
  | FromObs o => Some (hugr_of_obs o)
  end.
(* the same judged by the sequential specification on the implementation's own return values: false when a call
   is outside the guard; a call whose return value the specification rejects (a live index handed out again) is a
   broken store, not a call outside the guard: the pair is then judged as it stands *)
Fixpoint spec_accepts (g : zgraph) (cs : list (zcmd * ret)) : bool :=
  match cs with
  | [] => true
  | (c, rt) :: r => match s_step g c rt with Next g' => spec_accepts g' r | OutOfScope => false | Bad => true end
  end.
Definition src_in_guard (s : src) (o : obs) : bool :=
  match s with
  | FromHist ro rm cs => spec_accepts (s_init (o_root o) ro rm) cs
  | FromObs _ => true
  end.

(* the abstract graph an observation describes *)
Definition anode_of_nobs (x : nobs) : anode N N :=
  {| a_op := n_op x; a_parent := n_parent x; a_children := n_children x; a_meta := n_meta x;
     a_nin := n_nin x; a_nout := n_nout x |}.
Definition graph_of_obs (u : universe) (o : obs) : zgraph :=
  {| a_nodes := flat_map (fun ix => match snd ix with Some x => [(fst ix, anode_of_nobs x)] | None => [] end)
                         (combine (u_ids u) (o_get o));
     a_links := o_links o; a_root := o_root o |}.
(* every query of the observation answers as the specification does on that graph *)
Definition consistent (u : universe) (o : obs) : bool := obs_eqb o (spec_obs u (graph_of_obs u o)).

Record case := {
  k_uA : universe; k_uB : universe; k_A : src; k_B : src; k_obsA : obs; k_obsB : obs;
  k_parent : option nid;
  k_wires : option (list port * (option Z * option Z));     (* Some: through a builder wrapper *)
  k_map : list (nid * nid); k_res : res; k_obsA' : obs; k_obsB' : obs }.

(* the indices the copies receive are not prescribed by the property: the returned mapping is the oracle of the
   model's choices, followed where admissible (an index that is not live in A and not yet taken by another copy);
   the model's mapping is then compared with it, i.e. the returned mapping must be injective onto such indices.
   The property quantifies over insertion parents OF A (and, for the wrappers, over wires the builder accepts): a
   parent that is not a live node of A, or a wire whose source has no sibling among the ancestors of the inserted
   root, is outside the guard -- the guard of C08_insert_iso_and_frame / C08_insert_wrappers_attach_wires, judged
   on the MODEL's A -- and then neither the exception class nor what the call leaves behind is compared (hugr-py
   allocates the copy of B's root before it notices; refusing up front is as good). *)
Definition call_in_guard (A : zhugr) (c : case) : bool :=
  let p := match k_parent c with Some p => p | None => root A end in
  a_live (abs A) p && match k_wires c with Some (ws, _) => wires_guard (abs A) p ws | None => true end.
Definition corr (c : case) : bool :=
  match build (k_A c), build (k_B c) with
  | Some A, Some B =>
      obs_eqb (k_obsA c) (model_obs (k_uA c) A) && obs_eqb (k_obsB c) (model_obs (k_uB c) B) &&
      if call_in_guard A c then
        let '(A', mp, r) :=
          match k_wires c, k_parent c with
          | Some (ws, (ki, ko)), Some p => insert_wrapped (k_map c) A B p ws ki ko
          | _, _ => insert_hugr (k_map c) A B (k_parent c)
          end in
        res_eqb (k_res c) r &&
        (match r with Ok => perm_eqb (pair_eqb Nat.eqb Nat.eqb) (k_map c) mp | _ => true end) &&
        obs_eqb (k_obsA' c) (model_obs (k_uA c) A') && obs_eqb (k_obsB' c) (model_obs (k_uB c) B)
      else true
  | _, _ => true
  end.

(* the wires of a wrapper call as links of A': one link per wire into the image of B's root, and the state order
   links that accompany wires from enclosing regions (spec/InsertS.v wires_extra, read off A's observation) *)
Definition wires_links (c : case) : list (port * port) :=
  match k_wires c with
  | Some (ws, _) =>
      let gA := graph_of_obs (k_uA c) (k_obsA c) in
      let p := match k_parent c with Some p => p | None => a_root gA end in
      wires_extra gA p (mapn (k_map c) (o_root (k_obsB c))) ws
  | None => []
  end.

(* monitor: all observations are self-consistent (every query reads the same multigraph), B is not modified,
   and (A, B, A', mapping) satisfy isomorphism + frame.  Outside the guard (a history of A or B that leaves C04's
   guard, dead parent, a wire whose source has no sibling among the ancestors of the inserted root) nothing is asked. *)
Definition mon (c : case) : bool :=
  let gA := graph_of_obs (k_uA c) (k_obsA c) in
  let gB := graph_of_obs (k_uB c) (k_obsB c) in
  let gA' := graph_of_obs (k_uA c) (k_obsA' c) in
  let p := match k_parent c with Some p => p | None => a_root gA end in
  if src_in_guard (k_A c) (k_obsA c) && src_in_guard (k_B c) (k_obsB c) &&
     a_live gA p && match k_wires c with Some (ws, _) => wires_guard gA p ws | None => true end then
    res_eqb (k_res c) Ok &&
    consistent (k_uA c) (k_obsA c) && consistent (k_uB c) (k_obsB c) && consistent (k_uA c) (k_obsA' c) &&
    obs_eqb (k_obsB c) (k_obsB' c) &&
    insert_spec_b N.eqb N.eqb gA gB gA' (k_map c) p (match k_wires c with Some _ => true | None => false end)
                  (wires_links c) &&
    counts_cover gA'
  else true.
