(* Correspondence and monitor for C13, evaluated on cases written by harness/props/c13.py.
   Every case is one refusing (or accepting) call on a real builder, together with the part of the
   builder state the call reads (hierarchy as a parent table, case table, exit type, declared outputs,
   type parameters, port kind, tracked table, guarded fields of the operations) and the observed
   exception class.  Only what the property promises is a verdict: an error (of the documented class where
   one is documented) for an inconsistent call, none for a consistent one, anything outside the property's
   domain.  The state after a refusal, the order edges of accepted wires and the builders' private
   bookkeeping are diagnostics of the harness, not part of a case.
   Builders are also used as context managers: a statement of a conditional session is a body of calls (not
   caught one by one) inside `with` blocks, and any other call may sit inside `with` blocks of its enclosing
   builders (KIn); the observation is the exception that reached the caller of the outermost block. *)
From Coq Require Import ZArith NArith List Bool Arith.
Import ListNotations.
From HV Require Export lib.Harness model.Tracked model.BuilderErr spec.BuilderErrS model.BuilderParts spec.BuilderPartsS.

Inductive oexc := XNone | XErr (e : eclass) | XOther.

(* Types are numbers 16 * c + s: c = class of the type under Python's == (the comparison the builders use),
   s = its spelling.  Rows that are == but spelled differently (Unit / Tuple(), Bool / Sum([[], []])) neither
   clearly agree nor clearly disagree: the property does not say which spellings denote the same type, so
   any outcome is admitted for them. *)
Definition rowN := row N.
Inductive case :=
| KWire (blk : option (nat * nat)) (pt : ptable) (src tgt : nat) (k : pkind) (obs : oexc)
| KCond (n : nat) (ss : list (cond_stmt N)) (obs : list oexc)   (* per statement: what reached the caller *)
| KExit (outs : list rowN) (obs : list oexc)
| KFnOut (declared : option rowN) (given : rowN) (obs : oexc)
| KCall (k : pkind) (np : nat) (inst : bool) (nt : nat) (obs : oexc)
| KPlainAdd (args : list arg) (obs : oexc)
| KTrackedIdx (tr : tracked) (i : Z) (obs : oexc)
| KSerialise (nodes : list (opfields N)) (obs : oexc)
(* a program given by WHAT IT DID (which containers it opened, which finishing calls it made, which functions'
   outputs it only declared, which partial operations it never wired), then one of the serialisers *)
| KSerParts (ps : list part) (obs : oexc)
(* the call(s) of c made inside `depth` nested `with` blocks of builders whose __exit__ has nothing to check
   (DfBase: Dfg / Function / Case / Block / TailLoop, Cfg, a Conditional whose cases were all requested);
   obs inside c = what reached the caller of the outermost block *)
| KIn (depth : nat) (c : case).

Definition eclass_eqb (a b : eclass) : bool :=
  match a, b with
  | NoSiblingAncestor, NoSiblingAncestor | NotInSameCfg, NotInSameCfg | ConditionalError, ConditionalError
  | MismatchedExit, MismatchedExit | ValueError, ValueError | NoConcreteFunc, NoConcreteFunc
  | IndexError, IndexError | IncompleteOp, IncompleteOp | InvalidPort, InvalidPort | OutOfFuel, OutOfFuel => true
  | _, _ => false
  end.
Definition is_err (o : oexc) : bool := match o with XNone => false | _ => true end.
Definition is_none (o : oexc) : bool := match o with XNone => true | _ => false end.
Definition of_res {A} (r : res A) : option eclass := match r with Ok _ => None | Err e => Some e end.

(* "the documented one wherever one is documented": hugr-py documents a class for the sibling / CFG /
   conditional / exit / instantiation / tracked-index / incomplete-op refusals (dedicated exception classes or
   a Raises section).  The ValueErrors (a non-dataflow or non-function port, an integer in a plain builder,
   outputs different from the declared ones) and the InvalidPort of port_kind are documented nowhere: there
   the property demands an error, of any class. *)
Definition documented (e : eclass) : bool := match e with ValueError | InvalidPort => false | _ => true end.

(* what the property demands of one call *)
Inductive demand :=
| DAccept                          (* consistent: no error *)
| DRefuse (classes : list eclass)  (* inconsistent: an error of one of these (documented) classes *)
| DRefuseAny                       (* inconsistent: an error; no class is documented *)
| DFree.                           (* outside the property: any outcome *)
(* from the list of classes of the inconsistencies present (two at once may raise either) *)
Definition refuse (classes : list eclass) : demand :=
  match classes with
  | [] => DAccept
  | _ => if forallb documented classes then DRefuse classes else DRefuseAny
  end.
Definition meets (d : demand) (obs : oexc) : bool :=
  match d with
  | DAccept => is_none obs
  | DRefuse cl => match obs with XErr e => existsb (eclass_eqb e) cl | _ => false end
  | DRefuseAny => is_err obs
  | DFree => true
  end.
(* the model's decision against the observed one, with the same reading of "documented" *)
Definition agree (m : option eclass) (obs : oexc) : bool :=
  match m with
  | None => is_none obs
  | Some e => if documented e then match obs with XErr x => eclass_eqb e x | _ => false end else is_err obs
  end.
Definition is_free (d : demand) : bool := match d with DFree => true | _ => false end.

Definition sem (x : N) : N := (x / 16)%N.
Definition sem_eqb (a b : N) : bool := N.eqb (sem a) (sem b).       (* Python's == *)
Definition row_same : rowN -> rowN -> bool := list_eqb N.eqb.       (* same types, same spelling *)
Definition row_sem_eqb : rowN -> rowN -> bool := list_eqb sem_eqb.
(* two rows that must agree: clearly equal / clearly different / equal only up to spelling *)
Definition rows_demand (a b : rowN) (cl : list eclass) : demand :=
  if row_same a b then DAccept else if row_sem_eqb a b then DFree else refuse cl.

Definition wire_model (blk : option (nat * nat)) pt src tgt k : res (option (nat * nat)) :=
  match blk with
  | None => wire_up_dfg pt src tgt k
  | Some (root, cfg) => wire_up_block pt root cfg src tgt k
  end.
Definition cond0 (n : nat) : cond N := mkCond (repeat false n) None.

Definition parent_first_b (pt : ptable) : bool :=
  forallb (fun n => match parent_of pt n with Some p => Nat.ltb p n | None => true end) (seq 0 (length pt)).
Definition kvalue_b (k : pkind) : bool := match k with KValue => true | _ => false end.
Definition kfunction_b (k : pkind) : bool := match k with KFunction => true | _ => false end.

(* ---- the specification's side: what each call must do ---- *)
(* A source that has a parent and is itself an ancestor of the target (a container's own output port wired
   into its own body) is formally "its own sibling"; whether that counts as an ancestor-sibling relation the
   property text does not decide: any outcome.  A source WITHOUT parent (the root) has no sibling at all. *)
Definition own_body_b (pt : ptable) (src tgt : nat) : bool :=
  match parent_of pt src with
  | None => false
  | Some _ => existsb (Nat.eqb src) (ancestors_or_self pt tgt)
  end.
Definition wire_demand (blk : option (nat * nat)) (pt : ptable) (src tgt : nat) (k : pkind) : demand :=
  if own_body_b pt src tgt then DFree else
  let sib := sibling_ancestor_b pt src tgt in
  let reach := match blk with
               | None => sib
               | Some (root, cfg) => sib || inside_cfg_b pt cfg src
               end in
  let e1 := if reach then [] else [match blk with None => NoSiblingAncestor | Some _ => NotInSameCfg end] in
  let e2 := if kvalue_b k then [] else [ValueError] in
  refuse (e1 ++ e2).

(* a conditional session, written on the history of accepted calls:
   add_case i is consistent iff 0 <= i < n and no accepted add_case i came before; set_outputs r (at most one
   per case) must agree with the first accepted set_outputs; exit iff all n cases were accepted *)
Definition all_added (n : nat) (added : list Z) : bool := forallb (fun k => mem Z.eqb (Z.of_nat k) added) (seq 0 n).
Definition op_spec (n : nat) (added : list Z) (outs : option rowN) (o : cond_op N) : demand * list Z * option rowN :=
  match o with
  | OAddCase i =>
      if ((0 <=? i) && (i <? Z.of_nat n))%Z && negb (mem Z.eqb i added)
      then (DAccept, i :: added, outs) else (DRefuse [ConditionalError], added, outs)
  | OSetOutputs x =>
      match outs with
      | None => (DAccept, added, Some x)
      | Some y => (rows_demand y x [ConditionalError], added, outs)
      end
  | OExit => (if all_added n added then DAccept else DRefuse [ConditionalError], added, outs)
  end.
(* the body of a `with` block: calls in sequence, not caught - the first inconsistent call ends it with its error
   (what follows never runs).  Result: demand on the body as a whole, the history when it is left, and `lost`:
   a call outside the property (any outcome) was followed by more calls, so whether those ran is unknown *)
Fixpoint body_spec (n : nat) (added : list Z) (outs : option rowN) (os : list (cond_op N))
  : demand * list Z * option rowN * bool :=
  match os with
  | [] => (DAccept, added, outs, false)
  | o :: r => let '(d, a', o') := op_spec n added outs o in
              match d with
              | DAccept => body_spec n a' o' r
              | DFree => (DFree, a', o', match r with [] => false | _ => true end)
              | _ => (d, added, outs, false)
              end
  end.
Definition is_cxcond (k : ctxk) : bool := match k with CxCond => true | CxPlain => false end.
(* the contexts around the body: an error raised inside must reach the caller (no context may swallow it); a
   Conditional context left with unbuilt cases raises ConditionalError itself (either error may be the one that
   arrives); contexts of other builders demand nothing *)
Definition stmt_demand (n : nat) (ctxs : list ctxk) (d : demand) (added : list Z) : demand :=
  if existsb is_cxcond ctxs && negb (all_added n added) then
    match d with
    | DAccept => DRefuse [ConditionalError]
    | DRefuse cl => DRefuse (ConditionalError :: cl)
    | _ => DRefuseAny
    end
  else d.
Fixpoint cond_spec (n : nat) (added : list Z) (outs : option rowN) (lost : bool) (ss : list (cond_stmt N)) : list demand :=
  match ss with
  | [] => []
  | s :: r =>
      if lost then DFree :: cond_spec n added outs true r else
      let '(d, a', o', l) := body_spec n added outs (s_body s) in
      stmt_demand n (s_ctx s) d a' :: cond_spec n a' o' l r
  end.
Fixpoint exit_spec (first : option rowN) (outs : list rowN) : list demand :=
  match outs with
  | [] => []
  | o :: r => match first with
              | None => DAccept :: exit_spec (Some o) r
              | Some f => rows_demand f o [MismatchedExit] :: exit_spec first r
              end
  end.
Definition fnout_demand (d : option rowN) (g : rowN) : demand :=
  match d with Some r => rows_demand r g [ValueError] | None => DAccept end.
(* surplus type arguments for a monomorphic function are outside the property (it speaks of polymorphic ones) *)
Definition call_demand (k : pkind) (np : nat) (inst : bool) (nt : nat) : demand :=
  match k with
  | KInvalid => DRefuseAny                           (* port_kind itself refuses: any exception *)
  | _ => if Nat.eqb np 0 && negb (Nat.eqb nt 0) then DFree else
         refuse ((if kfunction_b k then [] else [ValueError]) ++
                 (if negb (Nat.eqb np 0) && (negb inst || negb (Nat.eqb nt np)) then [NoConcreteFunc] else []))
  end.
Definition plainadd_demand (args : list arg) : demand :=
  refuse (if existsb (fun a => match a with AI _ => true | AW _ => false end) args then [ValueError] else []).
Definition tidx_demand (tr : tracked) (i : Z) : demand :=
  let untracked := (i <? 0)%Z || match nth_error tr (Z.to_nat i) with Some (Some _) => false | _ => true end in
  refuse (if untracked then [IndexError] else []).
Definition serialise_demand (nodes : list (opfields N)) : demand :=
  refuse (if existsb (existsb (fun f : option rowN => match f with None => true | Some _ => false end)) nodes
          then [IncompleteOp] else []).

(* the specification's side for a program of parts: something left unfinished (spec/BuilderPartsS.v: stated on the
   calls made - a declaration of outputs finishes nothing) => IncompleteOp; all finished => it serialises *)
Definition serparts_demand (ps : list part) : demand :=
  refuse (if left_unfinished_b ps then [IncompleteOp] else []).

Fixpoint all2 {A B} (f : A -> B -> bool) (a : list A) (b : list B) : bool :=
  match a, b with
  | [], [] => true
  | x :: r, y :: s => f x y && all2 f r s
  | _, _ => false
  end.
(* model vs observation along a session; positions outside the property are not compared (neither outcome
   changes the state the later calls read) *)
Fixpoint agree_list (ds : list demand) (ms : list (option eclass)) (os : list oexc) : bool :=
  match ds, ms, os with
  | [], [], [] => true
  | d :: ds', m :: ms', o :: os' => (is_free d || agree m o) && agree_list ds' ms' os'
  | _, _, _ => false
  end.

(* ---- corr: the model's decision == the observed one (inside the property's domain) ---- *)
Fixpoint corr (c : case) : bool :=
  match c with
  | KWire blk pt src tgt k obs =>
      is_free (wire_demand blk pt src tgt k) ||
      match of_res (wire_model blk pt src tgt k) with
      | None => is_none obs
      | Some e => if kvalue_b k then agree (Some e) obs else is_err obs   (* two inconsistencies: either error *)
      end
  | KCond n ss obs => agree_list (cond_spec n [] None false ss) (fst (stmt_run N sem_eqb (cond0 n) ss)) obs
  | KExit outs obs => agree_list (exit_spec None outs) (fst (exit_run N sem_eqb None outs)) obs
  | KFnOut d g obs => is_free (fnout_demand d g) || agree (of_res (fn_set_outputs N sem_eqb d g)) obs
  | KCall k np inst nt obs =>
      is_free (call_demand k np inst nt) ||
      match k with
      | KInvalid => is_err obs
      | _ => agree (of_res (dfg_call k np inst nt)) obs
      end
  | KPlainAdd args obs => agree (of_res (plain_add_decision args)) obs
  | KTrackedIdx tr i obs => agree (of_res (tracked_index_decision tr i)) obs
  | KSerialise nodes obs => agree (of_res (serialise N nodes)) obs
  | KSerParts ps obs => agree (of_res (serialise_parts N ps)) obs      (* the model of the builders' bookkeeping *)
  (* the model's `with` of builders whose __exit__ returns None hands on what the body did
     (with_plain depth fl = fl, C13_plain_contexts_transparent): the decision is the call's own *)
  | KIn _ c' => corr c'
  end.

(* ---- mon: the specification's demand on the observed behaviour ---- *)
Fixpoint mon (c : case) : bool :=
  match c with
  | KWire blk pt src tgt k obs => parent_first_b pt && meets (wire_demand blk pt src tgt k) obs
  | KCond n ss obs => all2 meets (cond_spec n [] None false ss) obs
  | KExit outs obs => all2 meets (exit_spec None outs) obs
  | KFnOut d g obs => meets (fnout_demand d g) obs
  | KCall k np inst nt obs => meets (call_demand k np inst nt) obs
  | KPlainAdd args obs => meets (plainadd_demand args) obs
  | KTrackedIdx tr i obs => meets (tidx_demand tr i) obs
  | KSerialise nodes obs => meets (serialise_demand nodes) obs
  | KSerParts ps obs => meets (serparts_demand ps) obs
  (* an error raised inside `with` blocks must reach the caller, a consistent call stays accepted: the demand
     on what leaves the outermost block is the demand on the call *)
  | KIn _ c' => mon c'
  end.
