(* Correspondence and monitor for C13, evaluated on cases written by harness/props/c13.py.
   Every case is one refusing (or accepting) call on a real builder, together with the part of the
   builder state the call reads (hierarchy as a parent table, case table, exit type, declared outputs,
   type parameters, port kind, tracked table, guarded fields of the operations) and the observed
   exception class.  Types are interned by Python's == (T := N). *)
From Coq Require Import ZArith NArith List Bool Arith.
Import ListNotations.
From HV Require Export lib.Harness model.Tracked model.BuilderErr spec.BuilderErrS.

Inductive oexc := XNone | XErr (e : eclass) | XOther.

Definition rowN := row N.
Inductive case :=
| KWire (blk : option (nat * nat)) (pt : ptable) (src tgt : nat) (k : pkind) (obs : oexc) (order : option (nat * nat))
| KCond (n : nat) (ops : list (cond_op N)) (obs : list oexc) (built : list bool)
| KExit (outs : list rowN) (obs : list oexc)
| KFnOut (declared : option rowN) (given : rowN) (obs : oexc)
| KCall (k : pkind) (np : nat) (inst : bool) (nt : nat) (obs : oexc)
| KPlainAdd (args : list arg) (obs : oexc) (grew : bool)
| KTrackedIdx (tr : tracked) (i : Z) (obs : oexc) (changed : bool)
| KSerialise (nodes : list (opfields N)) (obs : oexc).

Definition eclass_eqb (a b : eclass) : bool :=
  match a, b with
  | NoSiblingAncestor, NoSiblingAncestor | NotInSameCfg, NotInSameCfg | ConditionalError, ConditionalError
  | MismatchedExit, MismatchedExit | ValueError, ValueError | NoConcreteFunc, NoConcreteFunc
  | IndexError, IndexError | IncompleteOp, IncompleteOp | InvalidPort, InvalidPort | OutOfFuel, OutOfFuel => true
  | _, _ => false
  end.
Definition oexc_eqb (a b : oexc) : bool :=
  match a, b with XNone, XNone => true | XErr x, XErr y => eclass_eqb x y | XOther, XOther => true | _, _ => false end.
Definition of_res {A} (r : res A) : oexc := match r with Ok _ => XNone | Err e => XErr e end.
Definition of_status (s : option eclass) : oexc := match s with None => XNone | Some e => XErr e end.
Definition onn_eqb : option (nat * nat) -> option (nat * nat) -> bool := option_eqb (pair_eqb Nat.eqb Nat.eqb).

Definition wire_model (blk : option (nat * nat)) pt src tgt k : res (option (nat * nat)) :=
  match blk with
  | None => wire_up_dfg pt src tgt k
  | Some (root, cfg) => wire_up_block pt root cfg src tgt k
  end.
Definition cond0 (n : nat) : cond N := mkCond (repeat false n) None.

Definition corr (c : case) : bool :=
  match c with
  | KWire blk pt src tgt k obs order =>
      let r := wire_model blk pt src tgt k in
      oexc_eqb (of_res r) obs && match r with Ok o => onn_eqb o order | Err _ => true end
  | KCond n ops obs built =>
      let '(l, fin) := cond_run N N.eqb (cond0 n) ops in
      list_eqb oexc_eqb (map of_status l) obs && list_eqb Bool.eqb (c_built fin) built
  | KExit outs obs => list_eqb oexc_eqb (map of_status (fst (exit_run N N.eqb None outs))) obs
  | KFnOut d g obs => oexc_eqb (of_res (fn_set_outputs N N.eqb d g)) obs
  | KCall k np inst nt obs =>
      match k with
      | KInvalid => negb (oexc_eqb obs XNone)       (* port_kind itself refuses: any exception *)
      | _ => oexc_eqb (of_res (dfg_call k np inst nt)) obs
      end
  | KPlainAdd args obs grew =>
      let r := plain_add_decision args in
      oexc_eqb (of_res r) obs && Bool.eqb grew (match r with Ok _ => true | Err _ => false end)
  | KTrackedIdx tr i obs changed =>
      let r := tracked_index_decision tr i in
      oexc_eqb (of_res r) obs && match r with Err _ => negb changed | Ok _ => true end
  | KSerialise nodes obs => oexc_eqb (of_res (serialise N nodes)) obs
  end.

(* ---- monitor: the inconsistency predicates of the specification decide what must be observed ---- *)
Definition parent_first_b (pt : ptable) : bool :=
  forallb (fun n => match parent_of pt n with Some p => Nat.ltb p n | None => true end) (seq 0 (length pt)).
(* obs must be an error of one of the listed classes when the list is not empty, and no error otherwise *)
Definition expect (classes : list eclass) (obs : oexc) : bool :=
  match classes with
  | [] => oexc_eqb obs XNone
  | _ => match obs with XErr e => existsb (eclass_eqb e) classes | _ => false end
  end.
Definition rowN_eqb : rowN -> rowN -> bool := list_eqb N.eqb.
Definition kvalue_b (k : pkind) : bool := match k with KValue => true | _ => false end.
Definition kfunction_b (k : pkind) : bool := match k with KFunction => true | _ => false end.

(* specification of a conditional session, written on the history of accepted calls:
   add_case i is consistent iff 0 <= i < n and no accepted add_case i came before; set_outputs r is
   consistent iff every accepted set_outputs before gave r; exit iff all n cases were accepted *)
Fixpoint cond_spec (n : nat) (added : list Z) (outs : option rowN) (ops : list (cond_op N)) : list (list eclass) :=
  match ops with
  | [] => []
  | OAddCase i :: r =>
      if ((0 <=? i) && (i <? Z.of_nat n))%Z && negb (mem Z.eqb i added)
      then [] :: cond_spec n (i :: added) outs r
      else [ConditionalError] :: cond_spec n added outs r
  | OSetOutputs x :: r =>
      match outs with
      | None => [] :: cond_spec n added (Some x) r
      | Some y => if rowN_eqb x y then [] :: cond_spec n added outs r
                  else [ConditionalError] :: cond_spec n added outs r
      end
  | OExit :: r =>
      (if forallb (fun k => mem Z.eqb (Z.of_nat k) added) (seq 0 n) then [] else [ConditionalError])
      :: cond_spec n added outs r
  end.
Fixpoint exit_spec (first : option rowN) (outs : list rowN) : list (list eclass) :=
  match outs with
  | [] => []
  | o :: r => match first with
              | None => [] :: exit_spec (Some o) r
              | Some f => (if rowN_eqb f o then [] else [MismatchedExit]) :: exit_spec first r
              end
  end.
Fixpoint all2 {A B} (f : A -> B -> bool) (a : list A) (b : list B) : bool :=
  match a, b with
  | [], [] => true
  | x :: r, y :: s => f x y && all2 f r s
  | _, _ => false
  end.

Definition mon (c : case) : bool :=
  match c with
  | KWire blk pt src tgt k obs order =>
      parent_first_b pt &&
      let sib := sibling_ancestor_b pt src tgt in
      let reach := match blk with
                   | None => sib
                   | Some (root, cfg) => sib || inside_cfg_b pt cfg src
                   end in
      let e1 := if reach then [] else [match blk with None => NoSiblingAncestor | Some _ => NotInSameCfg end] in
      let e2 := if kvalue_b k then [] else [ValueError] in
      expect (e1 ++ e2) obs
  | KCond n ops obs built => all2 expect (cond_spec n [] None ops) obs
  | KExit outs obs => all2 expect (exit_spec None outs) obs
  | KFnOut d g obs =>
      expect (match d with Some r => if rowN_eqb r g then [] else [ValueError] | None => [] end) obs
  | KCall k np inst nt obs =>
      match k with
      | KInvalid => negb (oexc_eqb obs XNone)
      | _ => expect ((if kfunction_b k then [] else [ValueError]) ++
                     (if negb (Nat.eqb np 0) && (negb inst || negb (Nat.eqb nt np)) then [NoConcreteFunc] else [])) obs
      end
  | KPlainAdd args obs grew =>
      let has_int := existsb (fun a => match a with AI _ => true | AW _ => false end) args in
      expect (if has_int then [ValueError] else []) obs && (negb has_int || negb grew)
  | KTrackedIdx tr i obs changed =>
      let untracked := (i <? 0)%Z || match nth_error tr (Z.to_nat i) with Some (Some _) => false | _ => true end in
      expect (if untracked then [IndexError] else []) obs && (negb untracked || negb changed)
  | KSerialise nodes obs =>
      expect (if existsb (existsb (fun f : option rowN => match f with None => true | Some _ => false end)) nodes
              then [IncompleteOp] else []) obs
  end.
