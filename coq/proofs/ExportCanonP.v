(* C12, second pass — the comparison up to renaming used by the correspondence check (spec/ExportCanon.v:
   canon) does not see the difference between naming the ports of the export by their component
   representative (model/Export.v: export) and by the first-use numbers of link_name
   (model/ExportNum.v: export_numbered). *)
From Coq Require Import ZArith List Bool Arith Lia.
Import ListNotations.
From HV Require Import lib.Harness model.Export model.ExportNum spec.ExportS spec.ExportCanon
  proofs.ExportP proofs.ExportOrderP proofs.ExportNumP.
Open Scope Z_scope.

(* ------------------------------------------------------------------ induction over exported trees *)

Section EInd.
  Context {L S : Type} (P : enode L S -> Prop) (Q : eregion L S -> Prop).
  Hypothesis HN : forall op sg ins outs regs keys meta, Forall Q regs -> P (ENode op sg ins outs regs keys meta).
  Hypothesis HR : forall k s t ch h, Forall P ch -> Q (ERegion k s t ch h).
  Fixpoint enode_ind2 (e : enode L S) : P e :=
    match e with
    | ENode op sg ins outs regs keys meta =>
        HN op sg ins outs regs keys meta
          ((fix go (rs : list (eregion L S)) : Forall Q rs :=
              match rs with
              | [] => Forall_nil _
              | r :: rs' => Forall_cons r (eregion_ind2 r) (go rs')
              end) regs)
    end
  with eregion_ind2 (r : eregion L S) : Q r :=
    match r with
    | ERegion k s t ch h =>
        HR k s t ch h
          ((fix go (es : list (enode L S)) : Forall P es :=
              match es with
              | [] => Forall_nil _
              | e :: es' => Forall_cons e (enode_ind2 e) (go es')
              end) ch)
    end.
End EInd.

Definition rnames {L S} (r : eregion L S) : list L :=
  match r with ERegion _ s t ch _ => s ++ t ++ flat_map names_node ch end.
Definition rsyms {L S} (r : eregion L S) : list S :=
  match r with ERegion _ _ _ ch _ => flat_map syms_node ch end.

Lemma names_node_unfold {L S} op sg ins outs (regs : list (eregion L S)) keys meta :
  names_node (ENode op sg ins outs regs keys meta) = ins ++ outs ++ flat_map rnames regs.
Proof. reflexivity. Qed.
Lemma syms_node_unfold {L S} (op : eop S) sg (ins outs : list L) (regs : list (eregion L S)) keys meta :
  syms_node (ENode op sg ins outs regs keys meta) = op_syms op ++ flat_map rsyms regs.
Proof. reflexivity. Qed.
Lemma map_node_unfold {L S L' S'} (f : L -> L') (g : S -> S') op sg ins outs regs keys meta :
  map_node f g (ENode op sg ins outs regs keys meta) =
  ENode (map_op g op) sg (map f ins) (map f outs) (map (map_region f g) regs) keys meta.
Proof. reflexivity. Qed.

Lemma fm_commute {A B C D} (hh : A -> B) (k : B -> list D) (k' : A -> list C) (f : C -> D) l :
  Forall (fun a => k (hh a) = map f (k' a)) l -> flat_map k (map hh l) = map f (flat_map k' l).
Proof.
  induction l as [|a r IH]; [reflexivity|]. intros H. inversion H as [|? ? Ha Hr]; subst.
  cbn [map flat_map]. rewrite map_app, Ha, IH by exact Hr. reflexivity.
Qed.

Lemma map_ext_Forall2 {A B C D} (k1 : A -> list C) (k2 : A -> list D) (P1 : C -> Prop) (P2 : D -> Prop)
  (h1 h2 : A -> B) l :
  Forall (fun a => (forall x, In x (k1 a) -> P1 x) -> (forall s, In s (k2 a) -> P2 s) -> h1 a = h2 a) l ->
  (forall x, In x (flat_map k1 l) -> P1 x) -> (forall s, In s (flat_map k2 l) -> P2 s) -> map h1 l = map h2 l.
Proof.
  induction l as [|a r IH]; [reflexivity|]. intros H Hx Hs. inversion H as [|? ? Ha Hr]; subst.
  cbn [map flat_map] in *. f_equal.
  - apply Ha; [intros x Hin; apply Hx | intros y Hin; apply Hs]; apply in_or_app; left; exact Hin.
  - apply IH; [exact Hr | intros x Hin; apply Hx | intros y Hin; apply Hs]; apply in_or_app; right; exact Hin.
Qed.

Section Rename.
  Context {L S L' S' : Type} (f : L -> L') (g : S -> S').

  Lemma op_syms_map (o : eop S) : op_syms (map_op g o) = map g (op_syms o).
  Proof. destruct o; reflexivity. Qed.

  Lemma names_map : forall e : enode L S, names_node (map_node f g e) = map f (names_node e).
  Proof.
    apply (enode_ind2 (fun e => names_node (map_node f g e) = map f (names_node e))
                      (fun r => rnames (map_region f g r) = map f (rnames r))).
    - intros op sg ins outs regs keys meta IH. rewrite map_node_unfold, !names_node_unfold, !map_app.
      rewrite (fm_commute (map_region f g) rnames rnames f regs IH). reflexivity.
    - intros k s t ch hh IH. cbn [map_region rnames]. rewrite !map_app.
      rewrite (fm_commute (map_node f g) names_node names_node f ch IH). reflexivity.
  Qed.
  Lemma rnames_map (r : eregion L S) : rnames (map_region f g r) = map f (rnames r).
  Proof.
    destruct r as [k s t ch hh]. cbn [map_region rnames]. rewrite !map_app.
    rewrite (fm_commute (map_node f g) names_node names_node f ch); [reflexivity|].
    apply Forall_forall. intros e _. apply names_map.
  Qed.

  Lemma syms_map : forall e : enode L S, syms_node (map_node f g e) = map g (syms_node e).
  Proof.
    apply (enode_ind2 (fun e => syms_node (map_node f g e) = map g (syms_node e))
                      (fun r => rsyms (map_region f g r) = map g (rsyms r))).
    - intros op sg ins outs regs keys meta IH. rewrite map_node_unfold, !syms_node_unfold, !map_app, op_syms_map.
      rewrite (fm_commute (map_region f g) rsyms rsyms g regs IH). reflexivity.
    - intros k s t ch hh IH. cbn [map_region rsyms].
      rewrite (fm_commute (map_node f g) syms_node syms_node g ch IH). reflexivity.
  Qed.
  Lemma rsyms_map (r : eregion L S) : rsyms (map_region f g r) = map g (rsyms r).
  Proof.
    destruct r as [k s t ch hh]. cbn [map_region rsyms].
    rewrite (fm_commute (map_node f g) syms_node syms_node g ch); [reflexivity|].
    apply Forall_forall. intros e _. apply syms_map.
  Qed.
End Rename.

(* renaming twice *)
Lemma map_op_comp {S S' S''} (g : S -> S') (g' : S' -> S'') (o : eop S) :
  map_op g' (map_op g o) = map_op (fun s => g' (g s)) o.
Proof. destruct o; reflexivity. Qed.

Lemma map_map_Forall {A B} (h1 : A -> B) (h2 : A -> B) l : Forall (fun a => h1 a = h2 a) l -> map h1 l = map h2 l.
Proof. induction 1 as [|a r Ha _ IH]; [reflexivity|]. cbn [map]. rewrite Ha, IH. reflexivity. Qed.

Lemma map_node_comp {L S L' S' L'' S''} (f : L -> L') (g : S -> S') (f' : L' -> L'') (g' : S' -> S'') :
  forall e : enode L S, map_node f' g' (map_node f g e) = map_node (fun x => f' (f x)) (fun s => g' (g s)) e.
Proof.
  apply (enode_ind2 (fun e => map_node f' g' (map_node f g e) = map_node (fun x => f' (f x)) (fun s => g' (g s)) e)
                    (fun r => map_region f' g' (map_region f g r) = map_region (fun x => f' (f x)) (fun s => g' (g s)) r)).
  - intros op sg ins outs regs keys meta IH. rewrite !map_node_unfold, !map_map, map_op_comp.
    rewrite (map_map_Forall _ _ regs IH). reflexivity.
  - intros k s t ch hh IH. cbn [map_region]. rewrite !map_map. rewrite (map_map_Forall _ _ ch IH). reflexivity.
Qed.
Lemma map_region_comp {L S L' S' L'' S''} (f : L -> L') (g : S -> S') (f' : L' -> L'') (g' : S' -> S'')
  (r : eregion L S) :
  map_region f' g' (map_region f g r) = map_region (fun x => f' (f x)) (fun s => g' (g s)) r.
Proof.
  destruct r as [k s t ch hh]. cbn [map_region]. rewrite !map_map. f_equal.
  apply map_map_Forall. apply Forall_forall. intros e _. apply map_node_comp.
Qed.

(* two renamings that agree on the names and symbols of a tree give the same tree *)
Lemma map_op_ext {S S'} (g1 g2 : S -> S') (o : eop S) :
  (forall s, In s (op_syms o) -> g1 s = g2 s) -> map_op g1 o = map_op g2 o.
Proof. destruct o; cbn; intros H; try reflexivity; rewrite H by (left; reflexivity); reflexivity. Qed.

Lemma map_node_ext_in {L S L' S'} (f1 f2 : L -> L') (g1 g2 : S -> S') :
  forall e : enode L S,
    (forall x, In x (names_node e) -> f1 x = f2 x) -> (forall s, In s (syms_node e) -> g1 s = g2 s) ->
    map_node f1 g1 e = map_node f2 g2 e.
Proof.
  apply (enode_ind2
    (fun e => (forall x, In x (names_node e) -> f1 x = f2 x) -> (forall s, In s (syms_node e) -> g1 s = g2 s) ->
              map_node f1 g1 e = map_node f2 g2 e)
    (fun r => (forall x, In x (rnames r) -> f1 x = f2 x) -> (forall s, In s (rsyms r) -> g1 s = g2 s) ->
              map_region f1 g1 r = map_region f2 g2 r)).
  - intros op sg ins outs regs keys meta IH Hf Hg. rewrite !map_node_unfold.
    rewrite names_node_unfold in Hf. rewrite syms_node_unfold in Hg.
    assert (E1 : map f1 ins = map f2 ins).
    { apply map_ext_in. intros x Hx. apply Hf. apply in_or_app. left. exact Hx. }
    assert (E2 : map f1 outs = map f2 outs).
    { apply map_ext_in. intros x Hx. apply Hf. apply in_or_app. right. apply in_or_app. left. exact Hx. }
    assert (E3 : map_op g1 op = map_op g2 op).
    { apply map_op_ext. intros s Hs. apply Hg. apply in_or_app. left. exact Hs. }
    assert (E4 : map (map_region f1 g1) regs = map (map_region f2 g2) regs).
    { apply (map_ext_Forall2 rnames rsyms (fun x => f1 x = f2 x) (fun y => g1 y = g2 y) _ _ regs IH).
      - intros x Hx. apply Hf. apply in_or_app. right. apply in_or_app. right. exact Hx.
      - intros y Hy. apply Hg. apply in_or_app. right. exact Hy. }
    rewrite E1, E2, E3, E4. reflexivity.
  - intros k s t ch hh IH Hf Hg. cbn [map_region]. cbn [rnames] in Hf. cbn [rsyms] in Hg.
    assert (E1 : map f1 s = map f2 s).
    { apply map_ext_in. intros x Hx. apply Hf. apply in_or_app. left. exact Hx. }
    assert (E2 : map f1 t = map f2 t).
    { apply map_ext_in. intros x Hx. apply Hf. apply in_or_app. right. apply in_or_app. left. exact Hx. }
    assert (E4 : map (map_node f1 g1) ch = map (map_node f2 g2) ch).
    { apply (map_ext_Forall2 names_node syms_node (fun x => f1 x = f2 x) (fun y => g1 y = g2 y) _ _ ch IH).
      - intros x Hx. apply Hf. apply in_or_app. right. apply in_or_app. right. exact Hx.
      - exact Hg. }
    rewrite E1, E2, E4. reflexivity.
Qed.

Lemma map_region_ext_in {L S L' S'} (f1 f2 : L -> L') (g1 g2 : S -> S') (r : eregion L S) :
  (forall x, In x (rnames r) -> f1 x = f2 x) -> (forall s, In s (rsyms r) -> g1 s = g2 s) ->
  map_region f1 g1 r = map_region f2 g2 r.
Proof.
  destruct r as [k s t ch hh]. cbn [rnames rsyms map_region]. intros Hf Hg.
  rewrite (map_ext_in f1 f2 s), (map_ext_in f1 f2 t).
  - f_equal. apply map_ext_in. intros e He. apply map_node_ext_in.
    + intros x Hx. apply Hf. apply in_or_app. right. apply in_or_app. right. apply in_flat_map. exists e. tauto.
    + intros s0 Hs. apply Hg. apply in_flat_map. exists e. tauto.
  - intros x Hx. apply Hf. apply in_or_app. right. apply in_or_app. left. exact Hx.
  - intros x Hx. apply Hf. apply in_or_app. left. exact Hx.
Qed.

(* ------------------------------------------------------------------ canon of a renamed tree *)

Lemma rank_map2 {A B1 B2} (e1 : B1 -> B1 -> bool) (e2 : B2 -> B2 -> bool) (f1 : A -> B1) (f2 : A -> B2) x l :
  (forall y, In y l -> e1 (f1 x) (f1 y) = e2 (f2 x) (f2 y)) ->
  rank e1 (f1 x) (map f1 l) = rank e2 (f2 x) (map f2 l).
Proof.
  induction l as [|y r IH]; [reflexivity|]. intros H. cbn [map rank]. rewrite (H y (or_introl eq_refl)).
  destruct (e2 (f2 x) (f2 y)); [reflexivity|]. f_equal. apply IH. intros z Hz. apply H. right. exact Hz.
Qed.

Lemma canon_map {L S L' S'} (leqb : L' -> L' -> bool) (seqb : S' -> S' -> bool) (f : L -> L') (g : S -> S')
  (P : eregion L S) :
  canon leqb seqb (map_region f g P) =
  map_region (fun p => rank leqb (f p) (map f (rnames P))) (fun s => rank seqb (g s) (map g (rsyms P))) P.
Proof.
  pose proof (rnames_map f g P) as Hn. pose proof (rsyms_map f g P) as Hs.
  destruct P as [k s t ch hh]. unfold canon. cbn [map_region] in *. cbv zeta.
  change (map f s ++ map f t ++ flat_map names_node (map (map_node f g) ch))
    with (rnames (ERegion k (map f s) (map f t) (map (map_node f g) ch) hh)).
  change (flat_map syms_node (map (map_node f g) ch))
    with (rsyms (ERegion k (map f s) (map f t) (map (map_node f g) ch) hh)).
  rewrite Hn, Hs.
  exact (map_region_comp f g _ _ (ERegion k s t ch hh)).
Qed.

(* two namings of the same tree that identify the same pairs of listed names are equal up to canon *)
Theorem canon_renaming {L S L1 L2 : Type} (e1 : L1 -> L1 -> bool) (e2 : L2 -> L2 -> bool)
  (seqb : S -> S -> bool) (f1 : L -> L1) (f2 : L -> L2) (P : eregion L S) :
  (forall p q, In p (rnames P) -> In q (rnames P) -> e1 (f1 p) (f1 q) = e2 (f2 p) (f2 q)) ->
  canon e1 seqb (map_region f1 (fun s => s) P) = canon e2 seqb (map_region f2 (fun s => s) P).
Proof.
  intros H. rewrite !canon_map. apply map_region_ext_in; [|reflexivity].
  intros p Hp. apply rank_map2. intros q Hq. apply H; assumption.
Qed.

(* ------------------------------------------------------------------ the names of the export are visited ports *)

Lemma kids_names_incl keep ch (F : htree -> enode port Z) (V : htree -> list port) (W : list port) :
  (forall c, In c ch -> keep (kind_t c) = true -> incl (names_node (F c)) (V c)) ->
  (forall c, In c ch -> keep (kind_t c) = true -> incl (V c) W) ->
  incl (flat_map names_node (kids keep ch (map F ch))) W.
Proof.
  induction ch as [|c r IH]; intros H1 H2; [intros x []|].
  cbn [map]. rewrite kids_cons. destruct (keep (kind_t c)) eqn:K.
  - cbn [flat_map]. intros x Hx. apply in_app_or in Hx. destruct Hx as [Hx|Hx].
    + apply (H2 c (or_introl eq_refl) K). apply (H1 c (or_introl eq_refl) K). exact Hx.
    + apply IH; [| |exact Hx]; intros d Hd; [apply H1 | apply H2]; right; exact Hd.
  - apply IH; intros d Hd; [apply H1 | apply H2]; right; exact Hd.
Qed.

Lemma dfg_srcs_incl f ch : incl (dfg_srcs ch) (vdfg f ch).
Proof.
  unfold dfg_srcs, last_such. destruct (find (fun c => is_input (kind_t c)) (rev ch)) eqn:Ef; [|intros x []].
  apply find_some in Ef. destruct Ef as [A B]. apply in_rev in A. apply (vdfg_incl_input f ch _ A B).
Qed.
Lemma dfg_tgts_incl f ch : incl (dfg_tgts ch) (vdfg f ch).
Proof.
  unfold dfg_tgts, last_such. destruct (find (fun c => is_output (kind_t c)) (rev ch)) eqn:Ef; [|intros x []].
  apply find_some in Ef. destruct Ef as [A B]. apply in_rev in A. apply (vdfg_incl_output f ch _ A B).
Qed.

Section Names.
  Variable ns : list ninfo.
  Variable ls : list link.

  (* the names of a dataflow region of the port tree *)
  Lemma dfg_region_names ch :
    (forall c, In c ch -> exported (kind_t c) = true -> incl (names_node (exp_node ns ls c)) (visits_node c)) ->
    incl (rnames (dfg_region ns ls ch (map (exp_node ns ls) ch))) (vdfg visits_node ch).
  Proof.
    intros H. unfold dfg_region. cbn [rnames]. intros x Hx. apply in_app_or in Hx. destruct Hx as [Hx|Hx].
    - apply (dfg_srcs_incl visits_node ch x Hx).
    - apply in_app_or in Hx. destruct Hx as [Hx|Hx]; [apply (dfg_tgts_incl visits_node ch x Hx)|].
      revert x Hx. apply (kids_names_incl exported ch (exp_node ns ls) visits_node); [exact H|].
      intros c Hc Ex. apply (vdfg_incl_child visits_node ch c Hc Ex).
  Qed.

  Lemma names_visited : forall t, tree_wf t = true ->
    (kind_t t <> KCase -> incl (names_node (exp_node ns ls t)) (visits_node t)) /\
    (forallb (fun c => df_child (kind_t c)) (children t) = true ->
     incl (rnames (dfg_region ns ls (children t) (map (exp_node ns ls) (children t)))) (vdfg visits_node (children t))).
  Proof.
    apply (htree_ind2 (fun t => tree_wf t = true ->
      (kind_t t <> KCase -> incl (names_node (exp_node ns ls t)) (visits_node t)) /\
      (forallb (fun c => df_child (kind_t c)) (children t) = true ->
       incl (rnames (dfg_region ns ls (children t) (map (exp_node ns ls) (children t)))) (vdfg visits_node (children t))))).
    intros i ch IH Hwf. rewrite Forall_forall in IH.
    pose proof Hwf as Hwf'. cbn [tree_wf] in Hwf'. apply andb_true_iff in Hwf'. destruct Hwf' as [Hn Hch].
    rewrite forallb_forall in Hch. cbn [children].
    assert (P2 : forallb (fun c => df_child (kind_t c)) ch = true ->
                 incl (rnames (dfg_region ns ls ch (map (exp_node ns ls) ch))) (vdfg visits_node ch)).
    { intros Hdf. rewrite forallb_forall in Hdf. apply dfg_region_names. intros c Hc _.
      destruct (IH c Hc (Hch c Hc)) as [P1c _]. apply P1c. apply df_child_not_case. apply Hdf. exact Hc. }
    split; [|exact P2].
    intros Hk. unfold kind_t in Hk. cbn [info] in Hk.
    assert (Hdfk : match n_kind i with KDFG | KLoop | KBlock | KFuncDefn | KCase => True | _ => False end ->
                   forallb (fun c => df_child (kind_t c)) ch = true).
    { intros Hk'. apply (wf_df_children (HNode i ch) Hwf). exact Hk'. }
    cbn [exp_node visits_node]. unfold exp_shallow.
    destruct (n_kind i) eqn:K; try congruence; rewrite names_node_unfold;
      try (intros x []; fail);
      try (apply incl_app3; intros x []; fail);
      try (apply incl_app3; cbn [flat_map]; rewrite app_nil_r; apply (P2 (Hdfk I))).
    - (* CFG *)
      apply incl_app3. cbn [flat_map]. rewrite app_nil_r. unfold cfg_region. cbn [rnames].
      intros x Hx. apply in_app_or in Hx. destruct Hx as [Hx|Hx].
      + apply (cfg_ports_incl visits_node ch). unfold cfg_ports. apply in_or_app. left. exact Hx.
      + apply in_app_or in Hx. destruct Hx as [Hx|Hx].
        * unfold cfg_tgts, last_such in Hx.
          destruct (find (fun c => is_exit (kind_t c)) (rev ch)) eqn:Ef; [|destruct Hx].
          apply find_some in Ef. destruct Ef as [A B]. apply in_rev in A.
          apply (vcfg_exit visits_node ch true _ A B x Hx).
        * revert x Hx. apply (kids_names_incl is_block ch (exp_node ns ls) visits_node).
          -- intros c Hc Hb. destruct (IH c Hc (Hch c Hc)) as [P1c _]. apply P1c.
             intros E. rewrite E in Hb. discriminate.
          -- intros c Hc Hb. apply (vcfg_child visits_node ch true c Hc Hb).
    - (* Conditional *)
      apply incl_app3.
      pose proof (wf_cond_cases (HNode i ch) Hwf K) as Hcs. cbn [children] in Hcs. rewrite forallb_forall in Hcs.
      intros x Hx. apply in_flat_map in Hx. destruct Hx as [r [Hr Hx]].
      apply in_flat_map in Hr. destruct Hr as [e [He Hr]]. apply in_map_iff in He. destruct He as [c [<- Hc]].
      apply in_flat_map. exists c. split; [exact Hc|].
      destruct (IH c Hc (Hch c Hc)) as [_ P2c].
      assert (Hdfc : forallb (fun d => df_child (kind_t d)) (children c) = true).
      { apply (wf_df_children c (Hch c Hc)). specialize (Hcs c Hc). destruct (kind_t c); try discriminate; exact I. }
      specialize (Hcs c Hc). destruct c as [ci cch]. unfold kind_t in Hcs. cbn [info children] in *.
      cbn [exp_node] in Hr. unfold exp_shallow in Hr. destruct (n_kind ci); try discriminate.
      cbn [e_regs] in Hr. destruct Hr as [<-|[]]. apply (P2c Hdfc x Hx).
  Qed.
End Names.

Section CanonNumbered.
  Variable h : hugr.
  Hypothesis Hv : valid_b h = true.

  Lemma export_names_visited : incl (rnames (export_ports h)) (visits h).
  Proof.
    destruct (valid_parts h Hv) as (Hk & _). destruct (root_children_wf h Hv) as [Hch Hn].
    unfold node_wf in Hn. unfold kind_t in Hk. rewrite Hk in Hn. rewrite forallb_forall in Hn, Hch.
    unfold export_ports, module_region, visits. cbn [rnames app].
    apply (kids_names_incl exported _ _ visits_node).
    - intros c Hc _. destruct (names_visited (nodes_of (h_root h)) (h_links h) c (Hch c Hc)) as [P1 _]. apply P1.
      intros E. specialize (Hn c Hc). rewrite E in Hn. discriminate.
    - intros c Hc _ x Hx. apply in_flat_map. exists c. split; assumption.
  Qed.

  (* the correspondence check cannot tell the representative-named export from the numbered one *)
  Theorem canon_numbered :
    canon Nat.eqb Z.eqb (export_numbered h) = canon port_eqb Z.eqb (export h).
  Proof.
    unfold export_numbered, export. cbv zeta. apply canon_renaming. intros p q Hp Hq.
    apply export_names_visited in Hp, Hq.
    destruct (num_visited h p q Hp Hq) as [A B].
    destruct (port_eqb (rep (h_links h) p) (rep (h_links h) q)) eqn:E.
    - apply port_eqb_spec in E. apply Nat.eqb_eq. apply B. exact E.
    - apply Nat.eqb_neq. intros En. apply A in En. apply port_eqb_spec in En. congruence.
  Qed.
End CanonNumbered.
