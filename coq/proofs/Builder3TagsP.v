(* C01 (fourth pass) — rule 1 (only permitted parent/child operation pairs) for EVERY program of the third builder language
   (model/Builder3.v) under the premise croot3 (computed from the program text): no constant is placed at the root of a Hugr
   rooted in a Conditional (as croot_ok for the second language), and no separately built MODULE is inserted.

   r_child_tags reads only the skeleton (constructor, parent) of the nodes: it is monotone under appends (tags_app) and
   invariant under the in-place completion of operations (canon).  What has to be carried through the induction is the
   KIND of the node every add_node call puts its child under: the open container (DFG / Case / TailLoop / FuncDefn /
   DataflowBlock: all accept every dataflow child), the Conditional for Case nodes, the CFG for blocks and the exit block,
   the Module for declarations / definitions / constants, the root for constants asked to be placed there. *)
From Coq Require Import NArith List Bool Arith Lia.
Import ListNotations.
From HV Require Import lib.Harness model.Validity model.Builder model.Builder2 model.Builder3 spec.BuilderS
  proofs.BuilderP proofs.BuilderExtP proofs.BuilderFrameP proofs.BuilderRulesP proofs.Builder2UnfoldP proofs.Builder2InvP proofs.Builder2P
  spec.Builder2WFS spec.Builder3S proofs.Builder2FrameP proofs.Builder3UnfoldP proofs.Builder3IndexP.
Local Open Scope N_scope.

(* ------------------------------------------------------------------ kinds *)
Definition dfk3 (o : vop) : bool :=
  match o with DFG _ _ | Case _ _ | TailLoop _ _ _ _ | FuncDefn _ _ _ | Block _ _ _ _ => true | _ => false end.
Definition rootc (o : vop) : bool :=
  match o with DFG _ _ | Case _ _ | TailLoop _ _ _ _ | FuncDefn _ _ _ | Block _ _ _ _ | CFG _ _ | Module => true | _ => false end.
Definition is_module (o : vop) : bool := match o with Module => true | _ => false end.
Lemma dfk3_canon o : dfk3 (canon o) = dfk3 o. Proof. now destruct o. Qed.
Lemma dfk3_allowed p c : dfk3 p = true -> allowed_child p c = dataflow_child c. Proof. now destruct p. Qed.
Lemma rootc_const p v : rootc p = true -> allowed_child p (Const v) = true. Proof. now destruct p. Qed.
Lemma allowed_canon_l p c : allowed_child (canon p) c = allowed_child p c.
Proof. rewrite <- (allowed_child_canon (canon p) c), <- (allowed_child_canon p c). now destruct p. Qed.

Definition Tg (st : store) : Prop := r_child_tags (Gn (s_nodes st)) = true.
Definition KB3 (st : store) (b : dfb) : Prop := kindp dfk3 (s_nodes st) (b_parent b) /\ kindp is_output (s_nodes st) (b_out b).
Definition RootC (strict : bool) (st : store) : Prop := strict = false -> kindp rootc (s_nodes st) 0.

Lemma KB3_ext st st' b : Ext st st' -> KB3 st b -> KB3 st' b.
Proof. intros X [A B]. split; eapply kindp_Ext; eauto. Qed.
Lemma RootC_ext strict st st' : Ext st st' -> RootC strict st -> RootC strict st'.
Proof. intros X H E. eapply kindp_Ext; eauto. Qed.
Lemma Tg_Same st st' : Same st st' -> Tg st -> Tg st'.
Proof. intros [E _] T. unfold Tg in *. now rewrite <- tags_canon, E, tags_canon. Qed.

(* add_node under a node of a known kind *)
Lemma Tg_add (P : vop -> bool) st o p st' n :
  add_node st o p = Ok (st', n) -> Tg st -> kindp P (s_nodes st) p -> (forall q, P (canon q) = true -> allowed_child q o = true) ->
  Tg st' /\ Ext st st' /\ n = s_len st /\ s_nodes st' = s_nodes st ++ [mk o p].
Proof.
  intros H T (pn & Hp & Hk) Hal. apply add_node_ok in H. destruct H as (_ & -> & En & _).
  split; [|split; [exists (map cnode [mk o p]); now rewrite En, map_app|auto]]. unfold Tg. rewrite En. eapply tags_app; eauto.
Qed.
Lemma kindp_new (P : vop -> bool) st st' o p : s_nodes st' = s_nodes st ++ [mk o p] -> P (canon o) = true -> kindp P (s_nodes st') (s_len st).
Proof. intros En H. exists (mk o p). split; [rewrite En; unfold s_len; apply nthN_len|exact H]. Qed.

(* a dataflow container with its Input / Output nodes under a node of a known kind *)
Lemma Tg_triple (P : vop -> bool) st p co ti st1 d st2 i st3 o :
  add_node st co p = Ok (st1, d) -> add_node st1 (Input ti) d = Ok (st2, i) -> add_node st2 (Output []) d = Ok (st3, o) ->
  Tg st -> kindp P (s_nodes st) p -> (forall q, P (canon q) = true -> allowed_child q co = true) -> dfk3 co = true ->
  Tg st3 /\ Ext st st3 /\ KB3 st3 (mkb d i o) /\ d = s_len st.
Proof.
  intros A1 A2 A3 T K Hal Hco.
  destruct (Tg_add P _ _ _ _ _ A1 T K Hal) as (T1 & X1 & -> & En1).
  assert (K1 : kindp dfk3 (s_nodes st1) (s_len st)) by (eapply kindp_new; [exact En1|now rewrite dfk3_canon]).
  assert (Hdf : forall c, dataflow_child c = true -> forall q, dfk3 (canon q) = true -> allowed_child q c = true).
  { intros c Hc q Hq. rewrite dfk3_canon in Hq. now rewrite dfk3_allowed. }
  destruct (Tg_add dfk3 _ _ _ _ _ A2 T1 K1 (Hdf (Input ti) eq_refl)) as (T2 & X2 & -> & En2).
  destruct (Tg_add dfk3 _ _ _ _ _ A3 T2 (kindp_Ext _ _ _ _ X2 K1) (Hdf (Output []) eq_refl)) as (T3 & X3 & -> & En3).
  split; [exact T3|]. split; [eapply Ext_trans; [exact X1|eapply Ext_trans; eauto]|]. split; [|reflexivity].
  split; cbn [b_parent b_out mkb].
  - eapply kindp_Ext; [exact (Ext_trans _ _ _ X2 X3)|exact K1].
  - eapply kindp_new; [exact En3|reflexivity].
Qed.

Lemma wire_up_from_blk_nodes cfg node : forall ws st i st' ts, wire_up_from_blk cfg st node i ws = Ok (st', ts) -> s_nodes st' = s_nodes st.
Proof.
  induction ws as [|w r IH]; intros st i st' ts H; cbn [wire_up_from_blk] in H; [now inversion H|].
  bd H. destruct v as [st1 t]. cbn [fst snd] in H. bd H. destruct v as [st2 ts2]. cbn [fst snd] in H. inversion H; subst; clear H.
  rewrite (IH _ _ _ _ E0). unfold wire_up_port_blk in E. destruct (anc_sib st (fst w) node) as [a|].
  - bd E. rename v into sta. bd E. rename v into stb. bd E. inversion E; subst; clear E.
    apply add_link_ok in E2. rewrite (proj1 E2). destruct (a =? node); [now inversion E1|].
    exact (proj1 (add_order_link_cases _ _ _ _ E1)).
  - destruct (up_to_cfg _ _ _ _); [|discriminate]. bd E. bd E. inversion E; subst. apply add_link_ok in E1. exact (proj1 E1).
Qed.
Lemma wire_up3_nodes cf st node ws st' ts : wire_up3 cf st node ws = Ok (st', ts) -> s_nodes st' = s_nodes st.
Proof. destruct cf as [cfg|]; cbn [wire_up3]; intros H; [eapply wire_up_from_blk_nodes; eauto|exact (proj1 (wire_up_spec _ _ _ _ _ H))]. Qed.
Lemma Ext_nodes st st' : s_nodes st' = s_nodes st -> Ext st st'.
Proof. apply Ext_nodes_eq. Qed.
Lemma Tg_nodes st st' : s_nodes st' = s_nodes st -> Tg st -> Tg st'.
Proof. unfold Tg. now intros ->. Qed.

(* set_op keeping the constructor *)
Lemma set_op_sk st n o o0 st' : set_op st n o = Ok st' -> s_op st n = Some o0 -> canon o = canon o0 ->
  map cnode (s_nodes st') = map cnode (s_nodes st).
Proof.
  intros H E C. destruct (set_op_ok _ _ _ _ H) as (nd & Hn & En & _). unfold s_op in E. rewrite Hn in E. inversion E; subst o0.
  rewrite En. apply (map_set_nth cnode _ _ _ nd); [exact Hn|]. unfold cnode. cbn. now rewrite C.
Qed.
Lemma Tg_sk st st' : map cnode (s_nodes st') = map cnode (s_nodes st) -> Tg st -> Tg st'.
Proof. intros E T. unfold Tg in *. now rewrite <- tags_canon, E, tags_canon. Qed.
Lemma Ext_sk st st' : map cnode (s_nodes st') = map cnode (s_nodes st) -> Ext st st'.
Proof. intros E. exists []. now rewrite E, app_nil_r. Qed.
Lemma kindp_s_op (P : vop -> bool) st n : kindp P (s_nodes st) n -> exists o, s_op st n = Some o /\ P (canon o) = true.
Proof. intros (nd & Hn & Hk). exists (n_op nd). unfold s_op. now rewrite Hn. Qed.

Section Tags3.
  Variable tys : list tyinfo.
  Variable sigs : list sinfo.

  Lemma set_out_types3_canon o outs o' : set_out_types3 tys sigs o outs = Ok o' -> canon o' = canon o.
  Proof.
    destruct o; cbn [set_out_types3]; try (apply set_out_types2_canon).
    - destruct (fsig <? lenN sigs); [destruct (row_eqb outs0 outs); intros H; inversion H; reflexivity|].
      destruct (find_sig sigs _ _ _); intros H; inversion H; reflexivity.
    - destruct outs as [|t r]; [discriminate|]. destruct (nthN tys t) as [[c rows| |]|]; try discriminate. intros H. inversion H; reflexivity.
  Qed.
  Lemma new_funcdefn_kind params ins douts o : new_funcdefn sigs params ins douts = Ok o -> canon o = FuncDefn 0 [] [].
  Proof.
    unfold new_funcdefn. destruct douts as [d|]; [destruct (find_sig sigs params ins d)|]; intros H; inversion H; reflexivity.
  Qed.

  Lemma Tg_set_outputs3 cf st b ws st' : set_outputs3 tys sigs cf st b ws = Ok st' -> KB3 st b -> Tg st -> Tg st' /\ Ext st st'.
  Proof.
    unfold set_outputs3. intros H [Kp Ko] T. bd H. destruct v as [st0 ts]. cbn [fst snd] in H. bd H. rename v into st1.
    destruct (s_op st1 (b_parent b)) as [po|] eqn:Ep; [|discriminate]. bd H. rename v into po'.
    pose proof (wire_up3_nodes _ _ _ _ _ _ E) as En0.
    destruct (kindp_s_op _ _ _ (kindp_Ext _ _ _ _ (Ext_nodes _ _ En0) Ko)) as (oo & Eo & Hk).
    assert (S1 : map cnode (s_nodes st1) = map cnode (s_nodes st0)).
    { eapply set_op_sk; [exact E0|exact Eo|]. destruct oo; try discriminate Hk; reflexivity. }
    assert (S2 : map cnode (s_nodes st') = map cnode (s_nodes st1)).
    { eapply set_op_sk; [exact H|exact Ep|]. eapply set_out_types3_canon; eauto. }
    split.
    - eapply Tg_sk; [exact S2|]. eapply Tg_sk; [exact S1|]. eapply Tg_nodes; eauto.
    - eapply Ext_trans; [apply Ext_nodes; exact En0|]. eapply Ext_trans; [apply Ext_sk; exact S1|apply Ext_sk; exact S2].
  Qed.

  Lemma Tg_make_cases others : forall rows st c st' bs, make_cases st c rows others = Ok (st', bs) -> Tg st ->
    kindp is_cond (s_nodes st) c -> Tg st' /\ Ext st st' /\ forall cb f, In (cb, f) bs -> KB3 st' cb.
  Proof.
    induction rows as [|r rest IH]; intros st c st' bs H T K; cbn [make_cases] in H.
    - inversion H; subst. split; [exact T|]. split; [apply Ext_refl|intros cb f []].
    - bd H. destruct v as [st1 n]. cbn [fst snd] in H. bd H. destruct v as [st3 io]. cbn [fst snd] in H.
      bd H. destruct v as [st4 bs4]. cbn [fst snd] in H. inversion H; subst; clear H.
      destruct (init_io_inv _ _ _ _ _ E0) as (st2 & i & o & A1 & A2 & ->).
      destruct (Tg_triple is_cond _ _ _ _ _ _ _ _ _ _ E A1 A2 T K) as (T3 & X3 & KB & _); [|reflexivity|].
      { intros q Hq. rewrite is_cond_canon in Hq. destruct q; try discriminate; reflexivity. }
      destruct (IH _ _ _ _ E1 T3 (kindp_Ext _ _ _ _ X3 K)) as (T4 & X4 & F4).
      split; [exact T4|]. split; [eapply Ext_trans; eauto|]. intros cb f [Hin|Hin]; [inversion Hin; subst; eapply KB3_ext; eauto|eauto].
  Qed.


  Lemma new_funcdefn_is params ins douts o : new_funcdefn sigs params ins douts = Ok o -> exists a b c, o = FuncDefn a b c.
  Proof.
    unfold new_funcdefn. destruct douts as [d|]; [destruct (find_sig sigs params ins d)|]; intros H; inversion H; eauto.
  Qed.

  (* ---------------------------------------------------------------- Cfg *)
  Record CK (st : store) (cb : cfgb) : Prop := {
    ck_cfg : kindp is_cfg (s_nodes st) (c_node cb); ck_entry : KB3 st (c_entry cb); ck_exit : kindp is_exit (s_nodes st) (c_exit cb) }.
  Lemma CK_ext st st' cb : Ext st st' -> CK st cb -> CK st' cb.
  Proof. intros X [A B C]. constructor; [eapply kindp_Ext; eauto|eapply KB3_ext; eauto|eapply kindp_Ext; eauto]. Qed.

  Lemma cfg_child c : (match c with Block _ _ _ _ | ExitB _ => true | _ => false end) = true ->
    forall q, is_cfg (canon q) = true -> allowed_child q c = true.
  Proof. intros Hc q Hq. destruct q; try discriminate. destruct c; try discriminate; reflexivity. Qed.

  Lemma Tg_block st cfg ins st1 n st3 bb : add_node st (Block ins [] [] 0) cfg = Ok (st1, n) -> init_io st1 n ins = Ok (st3, bb) ->
    Tg st -> kindp is_cfg (s_nodes st) cfg -> Tg st3 /\ Ext st st3 /\ KB3 st3 bb.
  Proof.
    intros E E0 T K. destruct (init_io_inv _ _ _ _ _ E0) as (st2 & i & o & A1 & A2 & ->).
    destruct (Tg_triple is_cfg _ _ _ _ _ _ _ _ _ _ E A1 A2 T K (cfg_child (Block ins [] [] 0) eq_refl) eq_refl) as (T3 & X3 & KB & _). auto.
  Qed.

  Lemma Tg_init_cfg st cfg ins st' cb : init_cfg st cfg ins = Ok (st', cb) -> Tg st -> kindp is_cfg (s_nodes st) cfg ->
    Tg st' /\ Ext st st' /\ CK st' cb.
  Proof.
    unfold init_cfg. intros H T K. bd H. destruct v as [st1 n]. cbn [fst snd] in H. bd H. destruct v as [st3 io]. cbn [fst snd] in H.
    bd H. destruct v as [st4 x]. cbn [fst snd] in H. inversion H; subst; clear H.
    destruct (Tg_block _ _ _ _ _ _ _ E E0 T K) as (T3 & X3 & KB).
    destruct (Tg_add is_cfg _ _ _ _ _ E1 T3 (kindp_Ext _ _ _ _ X3 K) (cfg_child (ExitB []) eq_refl)) as (T4 & X4 & -> & En4).
    split; [exact T4|]. split; [eapply Ext_trans; eauto|]. constructor; cbn [c_node c_entry c_exit].
    - eapply kindp_Ext; [exact (Ext_trans _ _ _ X3 X4)|exact K].
    - eapply KB3_ext; eauto.
    - eapply kindp_new; [exact En4|reflexivity].
  Qed.

  Lemma Tg_branch_exit st cb cs p st' cs' : branch_exit st cb cs p = Ok (st', cs') -> CK st cb -> Tg st -> Tg st' /\ Ext st st'.
  Proof.
    unfold branch_exit. intros H CKb T. bd H. rename v into st1. bd H. rename v into rows.
    pose proof (proj1 (add_link_ok _ _ _ _ _ _ E)) as En1.
    destruct (cs_outs cs) as [o|]; [destruct (row_eqb o rows); inversion H; subst; split; [eapply Tg_nodes; eauto|now apply Ext_nodes]|].
    bd H. rename v into st2. destruct (s_op st2 (c_node cb)) as [[]|] eqn:Ec; try discriminate. bd H. inversion H; subst; clear H.
    destruct (kindp_s_op _ _ _ (kindp_Ext _ _ _ _ (Ext_nodes _ _ En1) (ck_exit _ _ CKb))) as (oo & Eo & Hk).
    assert (S1 : map cnode (s_nodes st2) = map cnode (s_nodes st1)).
    { eapply set_op_sk; [exact E1|exact Eo|]. destruct oo; try discriminate Hk; reflexivity. }
    assert (S2 : map cnode (s_nodes st') = map cnode (s_nodes st2)).
    { eapply set_op_sk; [exact E2|exact Ec|reflexivity]. }
    split.
    - eapply Tg_sk; [exact S2|]. eapply Tg_sk; [exact S1|]. eapply Tg_nodes; eauto.
    - eapply Ext_trans; [apply Ext_nodes; exact En1|]. eapply Ext_trans; [apply Ext_sk; exact S1|apply Ext_sk; exact S2].
  Qed.
  Lemma Tg_do_branches : forall l st e cb cs st' cs', do_branches st e cb cs l = Ok (st', cs') -> CK st cb -> Tg st -> Tg st' /\ Ext st st'.
  Proof.
    induction l as [|br r IH]; intros st e cb cs st' cs' H CKb T; cbn [do_branches] in H; [inversion H; subst; split; [exact T|apply Ext_refl]|].
    bd H. destruct v as [st1 cs1]. cbn [fst snd] in H.
    assert (X : Tg st1 /\ Ext st st1).
    { unfold do_branch in E. bd E. rename v into p. destruct (snd br) as [s|]; [|eapply Tg_branch_exit; eauto].
      destruct (lookup (e_stmts (e_env e)) s) as [n|] eqn:En; [|discriminate].
      destruct (n =? c_exit cb); [eapply Tg_branch_exit; eauto|]. bd E. inversion E; subst.
      pose proof (proj1 (add_link_ok _ _ _ _ _ _ E1)) as En1. split; [eapply Tg_nodes; eauto|now apply Ext_nodes]. }
    destruct X as [T1 X1]. destruct (IH _ _ _ _ _ _ H (CK_ext _ _ _ X1 CKb) T1) as [T2 X2]. split; [exact T2|eapply Ext_trans; eauto].
  Qed.

  (* ---------------------------------------------------------------- Module *)
  Lemma module_child c : (scoped_defn c || match c with FuncDecl _ => true | _ => false end) = true ->
    forall q, is_module (canon q) = true -> allowed_child q c = true.
  Proof. intros Hc q Hq. destruct q; try discriminate. exact Hc. Qed.
  Lemma Tg_add_consts : forall vs st e st' e', add_consts vs st e = Ok (st', e') -> Tg st -> kindp is_module (s_nodes st) 0 -> Tg st' /\ Ext st st'.
  Proof.
    induction vs as [|v r IH]; intros st e st' e' H T K; cbn [add_consts] in H; [inversion H; subst; split; [exact T|apply Ext_refl]|].
    bd H. destruct v0 as [st1 n]. cbn [fst snd] in H.
    destruct (Tg_add is_module _ _ _ _ _ E T K (module_child (Const v) eq_refl)) as (T1 & X1 & _ & _).
    destruct (IH _ _ _ _ H T1 (kindp_Ext _ _ _ _ X1 K)) as [T2 X2]. split; [exact T2|eapply Ext_trans; eauto].
  Qed.
  Lemma Tg_decl_funcs : forall fs st e st' e' bs, decl_funcs sigs fs st e = Ok (st', e', bs) -> Tg st -> kindp is_module (s_nodes st) 0 ->
    Tg st' /\ Ext st st' /\ forall b, In (Some b) bs -> KB3 st' b.
  Proof.
    induction fs as [|f sg rest IH|f params ins douts body rest IH]; intros st e st' e' bs H T K; cbn [decl_funcs] in H.
    - inversion H; subst. split; [exact T|]. split; [apply Ext_refl|intros b []].
    - bd H. destruct v as [st1 n]. cbn [fst snd] in H. bd H. destruct v as [[st2 e2] bs2]. inversion H; subst; clear H.
      destruct (Tg_add is_module _ _ _ _ _ E T K (module_child (FuncDecl sg) eq_refl)) as (T1 & X1 & _ & _).
      destruct (IH _ _ _ _ _ E0 T1 (kindp_Ext _ _ _ _ X1 K)) as (T2 & X2 & F2).
      split; [exact T2|]. split; [eapply Ext_trans; eauto|]. intros b [Q|Q]; [discriminate Q|eauto].
    - bd H. rename v into o. bd H. destruct v as [st1 n]. cbn [fst snd] in H. bd H. destruct v as [st3 io]. cbn [fst snd] in H.
      bd H. destruct v as [[st4 e4] bs4]. inversion H; subst; clear H.
      destruct (new_funcdefn_is _ _ _ _ E) as (fa & fb & fc & ->).
      destruct (init_io_inv _ _ _ _ _ E1) as (st2 & i & oo & A1 & A2 & ->).
      destruct (Tg_triple is_module _ _ _ _ _ _ _ _ _ _ E0 A1 A2 T K (module_child (FuncDefn fa fb fc) eq_refl) eq_refl) as (T3 & X3 & KB & _).
      destruct (IH _ _ _ _ _ E2 T3 (kindp_Ext _ _ _ _ X3 K)) as (T4 & X4 & F4).
      split; [exact T4|]. split; [eapply Ext_trans; eauto|]. intros b [Q|Q]; [inversion Q; subst; eapply KB3_ext; eauto|eauto].
  Qed.
End Tags3.

(* ------------------------------------------------------------------ Hugr.insert_hugr keeps the parent/child pairs *)
Lemma insert_nodes_nodes base parent : forall l st m i st' m',
  insert_nodes st parent m l i = Ok (st', m') -> MapOK base m -> lenN m = i -> s_len st = base + i ->
  s_nodes st' = s_nodes st ++ map (shiftn base parent) (index_from l i).
Proof.
  induction l as [|nd r IH]; intros st m i st' m' H HM Hlen Hs; cbn [insert_nodes] in H.
  - inversion H; subst. cbn. now rewrite app_nil_r.
  - bd H. rename v into p. bd H. destruct v as [st1 n]. cbn [fst snd] in H.
    apply add_node_ok in E0. destruct E0 as (Hlt & Hn & En & El).
    assert (Hp : p = if i =? 0 then parent else base + n_parent nd).
    { destruct (N.eqb_spec i 0); [now inversion E|].
      destruct (nthN m (n_parent nd)) as [q|] eqn:Eq; [|discriminate E]. inversion E; subst q.
      pose proof (nthN_lt _ _ _ Eq) as Hq. rewrite (HM _ Hq) in Eq. now inversion Eq. }
    assert (HM1 : MapOK base (m ++ [n])) by (rewrite Hn, Hs, <- Hlen; now apply MapOK_snoc).
    rewrite (IH st1 (m ++ [n]) (i + 1) st' m' H HM1).
    + cbn [index_from map]. rewrite En, <- app_assoc. cbn [app]. unfold shiftn at 2. cbn [fst snd]. now rewrite Hp.
    + rewrite lenN_app, Hlen. reflexivity.
    + unfold s_len. rewrite En, lenN_app. fold (s_len st). rewrite Hs. cbn. lia.
Qed.
Lemma insert_links_nodes : forall l st m st', insert_links st m l = Ok st' -> s_nodes st' = s_nodes st.
Proof.
  induction l as [|e r IH]; intros st m st' H; cbn [insert_links] in H; [now inversion H|].
  destruct (nthN m (e_src e)); [|discriminate]. destruct (nthN m (e_dst e)); [|discriminate]. bd H.
  rewrite (IH _ _ _ H). exact (proj1 (add_link_ok _ _ _ _ _ _ E)).
Qed.
Lemma insert_hugr_nodes st inner parent st' m : insert_hugr st inner parent = Ok (st', m) ->
  s_nodes st' = s_nodes st ++ map (shiftn (s_len st) parent) (indexed (s_nodes inner)).
Proof.
  intros H. destruct (insert_hugr_inv _ _ _ _ _ H) as (st1 & E1 & E2). rewrite (insert_links_nodes _ _ _ _ E2).
  unfold indexed. apply (insert_nodes_nodes (s_len st) parent _ _ _ _ _ _ E1).
  - intros j Hj. unfold lenN in Hj. cbn in Hj. lia.
  - reflexivity.
  - lia.
Qed.

Lemma dataflow_child_canon o : dataflow_child (canon o) = dataflow_child o. Proof. now destruct o. Qed.

Lemma Tg_insert st sti st1 parent m :
  insert_hugr st sti parent = Ok (st1, m) -> Tg st -> Tg sti -> kindp dfk3 (s_nodes st) parent -> kindp dataflow_child (s_nodes sti) 0 ->
  Tg st1 /\ Ext st st1.
Proof.
  intros H T Ti (pn & Hp & Hpk) (ro & Hr & Hrk). pose proof (insert_hugr_nodes _ _ _ _ _ H) as A.
  split; [|exists (map cnode (map (shiftn (s_len st) parent) (indexed (s_nodes sti)))); now rewrite A, map_app].
  rewrite dfk3_canon in Hpk. rewrite dataflow_child_canon in Hrk.
  unfold Tg in *. rewrite A. unfold s_len. set (l := s_nodes st) in *. set (inner := s_nodes sti) in *.
  unfold r_child_tags in *. cbn [Gn g_nodes] in *. rewrite indexed_app, forallb_app. apply andb_true_iff. split.
  - revert T. apply forallb_impl_in. intros [i x] Hin. cbn [fst snd].
    destruct (i =? 0); [reflexivity|]. cbn [orb]. unfold op_of. cbn [Gn g_nodes].
    destruct (nthN l (n_parent x)) as [pp|] eqn:E; cbn [option_map]; intros Hc; [|discriminate Hc].
    now rewrite (nthN_app1 _ _ _ _ E).
  - rewrite (index_from_sh l inner parent), forallb_map. apply forallb_forall. intros [j nd] Hin. cbn [fst snd].
    apply orb_true_iff. right. unfold op_of. cbn [Gn g_nodes].
    change (n_parent (shiftn (lenN l) parent (j, nd))) with (if j =? 0 then parent else lenN l + n_parent nd).
    change (n_op (shiftn (lenN l) parent (j, nd))) with (n_op nd).
    destruct (N.eqb_spec j 0) as [->|Hj].
    + rewrite (nthN_app1 _ _ _ _ Hp). cbn [option_map].
      apply in_indexed in Hin. rewrite Hr in Hin. inversion Hin; subst. now rewrite dfk3_allowed.
    + rewrite forallb_forall in Ti. specialize (Ti _ Hin). cbn [fst snd] in Ti.
      replace (j =? 0) with false in Ti by (symmetry; now apply N.eqb_neq). cbn [orb] in Ti.
      unfold op_of in Ti. cbn [Gn g_nodes] in Ti.
      destruct (nthN inner (n_parent nd)) as [pnd|] eqn:E; cbn [option_map] in Ti; [|discriminate Ti].
      rewrite (nthN_comb_new l inner parent _ _ E). cbn [option_map]. exact Ti.
Qed.

(* ------------------------------------------------------------------ the induction *)
Lemma kindp_root_new (P : vop -> bool) o : P (canon o) = true -> kindp P (s_nodes (new_store o)) 0.
Proof. intros H. exists (mk o 0). split; [reflexivity|exact H]. Qed.
Lemma Tg_new o : Tg (new_store o).
Proof. reflexivity. Qed.
Lemma df_child c : dataflow_child c = true -> forall q, dfk3 (canon q) = true -> allowed_child q c = true.
Proof. intros Hc q Hq. rewrite dfk3_canon in Hq. now rewrite dfk3_allowed. Qed.
Lemma root_const v : forall q, rootc (canon q) = true -> allowed_child q (Const v) = true.
Proof. intros q Hq. apply rootc_const. now destruct q. Qed.

Section Main3.
  Variable tys : list tyinfo.
  Variable sigs : list sinfo.

  Definition T_stmt (s : stmt3) : Prop := forall strict cf b st e st' e',
    exec_stmt3 tys sigs s cf b st e = Ok (st', e') -> croot3_stmt strict s = true -> Tg st -> KB3 st b -> RootC strict st ->
    Tg st' /\ Ext st st'.
  Definition T_region (r : region3) : Prop := forall strict single cf b st e st' e',
    exec_region3 tys sigs r single cf b st e = Ok (st', e') -> croot3_region strict r = true -> Tg st -> KB3 st b -> RootC strict st ->
    Tg st' /\ Ext st st'.
  Definition T_stmts (l : stmts3) : Prop := forall strict cf b st e st' e',
    exec_stmts3 tys sigs l cf b st e = Ok (st', e') -> croot3_stmts strict l = true -> Tg st -> KB3 st b -> RootC strict st ->
    Tg st' /\ Ext st st'.
  Definition T_cases (cs : cases3) : Prop := forall strict c bs cur st e st' e' bs' cur',
    exec_cases3 tys sigs cs c bs cur st e = Ok (st', e', bs', cur') -> croot3_cases strict cs = true -> Tg st ->
    (forall cb f, In (cb, f) bs -> KB3 st cb) -> RootC strict st -> Tg st' /\ Ext st st'.
  Definition T_blocks (bl : blocks3) : Prop := forall strict cb ent st e st' e' ent',
    exec_blocks3 tys sigs bl cb ent st e = Ok (st', e', ent') -> croot3_blocks strict bl = true -> Tg st -> CK st cb -> RootC strict st ->
    Tg st' /\ Ext st st'.
  Definition T_prog (p : prog3) : Prop := forall e st' e',
    exec_prog3 tys sigs p e = Ok (st', e') -> croot3 p = true ->
    Tg st' /\ (is_module_prog p = false -> kindp dataflow_child (s_nodes st') 0).
  Definition T_funcs (fs : funcs3) : Prop := forall bs st e st' e',
    exec_funcs3 tys sigs fs bs st e = Ok (st', e') -> croot3_funcs fs = true -> Tg st -> (forall b, In (Some b) bs -> KB3 st b) ->
    RootC false st -> Tg st' /\ Ext st st'.

  (* a leaf: one node under the open container, then wiring and completion in place *)
  Lemma Tg_leaf cf st b o st1 n ws st2 ts op' st' :
    add_node st o (b_parent b) = Ok (st1, n) -> wire_up3 cf st1 n ws = Ok (st2, ts) -> set_op st2 n op' = Ok st' ->
    canon op' = canon o -> dataflow_child o = true -> Tg st -> KB3 st b -> Tg st' /\ Ext st st'.
  Proof.
    intros A Wu S Hc Hd T [Kp _]. destruct (Tg_add dfk3 _ _ _ _ _ A T Kp (df_child _ Hd)) as (T1 & X1 & -> & En1).
    pose proof (wire_up3_nodes _ _ _ _ _ _ Wu) as En2.
    assert (Eo : s_op st2 (s_len st) = Some o).
    { unfold s_op. rewrite En2, En1. unfold s_len. now rewrite nthN_len. }
    pose proof (set_op_sk _ _ _ _ _ S Eo Hc) as S3.
    split; [eapply Tg_sk; [exact S3|]; eapply Tg_nodes; eauto|].
    eapply Ext_trans; [exact X1|]. eapply Ext_trans; [apply Ext_nodes; exact En2|apply Ext_sk; exact S3].
  Qed.
  (* a node that is complete when added, and links *)
  Lemma Tg_node st b o st1 n : add_node st o (b_parent b) = Ok (st1, n) -> dataflow_child o = true -> Tg st -> KB3 st b ->
    Tg st1 /\ Ext st st1.
  Proof. intros A Hd T [Kp _]. destruct (Tg_add dfk3 _ _ _ _ _ A T Kp (df_child _ Hd)) as (T1 & X1 & _ & _). auto. Qed.
  Lemma Tg_link st s so d do_ st' : add_link st s so d do_ = Ok st' -> Tg st -> Tg st' /\ Ext st st'.
  Proof. intros H T. pose proof (proj1 (add_link_ok _ _ _ _ _ _ H)) as En. split; [eapply Tg_nodes; eauto|now apply Ext_nodes]. Qed.
  Lemma Tg_wire cf st n ws st' ts : wire_up3 cf st n ws = Ok (st', ts) -> Tg st -> Tg st' /\ Ext st st'.
  Proof. intros H T. pose proof (wire_up3_nodes _ _ _ _ _ _ H) as En. split; [eapply Tg_nodes; eauto|now apply Ext_nodes]. Qed.
  (* a dataflow container under the open container *)
  Lemma Tg_container st b co ti st1 d st3 io : add_node st co (b_parent b) = Ok (st1, d) -> init_io st1 d ti = Ok (st3, io) ->
    dfk3 co = true -> dataflow_child co = true -> Tg st -> KB3 st b -> Tg st3 /\ Ext st st3 /\ KB3 st3 io.
  Proof.
    intros A I Hk Hd T [Kp _]. destruct (init_io_inv _ _ _ _ _ I) as (st2 & i & o & A1 & A2 & ->).
    destruct (Tg_triple dfk3 _ _ _ _ _ _ _ _ _ _ A A1 A2 T Kp (df_child _ Hd) Hk) as (T3 & X3 & KB & _). auto.
  Qed.

  Lemma Tg_root_io o ins st0 io : init_io (new_store o) 0 ins = Ok (st0, io) -> dfk3 o = true ->
    Tg st0 /\ Ext (new_store o) st0 /\ KB3 st0 io.
  Proof.
    intros I Hk. destruct (init_io_inv _ _ _ _ _ I) as (st2 & i & oo & A1 & A2 & ->).
    assert (K0 : kindp dfk3 (s_nodes (new_store o)) 0) by (apply kindp_root_new; now rewrite dfk3_canon).
    destruct (Tg_add dfk3 _ _ _ _ _ A1 (Tg_new o) K0 (df_child (Input ins) eq_refl)) as (T1 & X1 & _ & _).
    destruct (Tg_add dfk3 _ _ _ _ _ A2 T1 (kindp_Ext _ _ _ _ X1 K0) (df_child (Output []) eq_refl)) as (T2 & X2 & -> & En2).
    split; [exact T2|]. split; [eapply Ext_trans; eauto|]. split; cbn [b_parent b_out mkb].
    - eapply kindp_Ext; [exact (Ext_trans _ _ _ X1 X2)|exact K0].
    - eapply kindp_new; [exact En2|reflexivity].
  Qed.

  Lemma exec3_tags : (forall s, T_stmt s) /\ (forall r, T_region r) /\ (forall l, T_stmts l) /\ (forall cs, T_cases cs) /\
    (forall bl, T_blocks bl) /\ (forall p, T_prog p) /\ (forall fs, T_funcs fs).
  Proof.
    apply prog3_mutind; unfold T_stmt, T_region, T_stmts, T_cases, T_blocks, T_prog, T_funcs.
    - (* UOp *)
      intros id o args rs strict cf b st e st' e' H C T KB RC. rewrite exec_stmt3_UOp in H. bd H. rename v into ws. bd H. destruct v as [st1 n].
      cbn [fst snd] in H. bd H. destruct v as [st2 ts]. cbn [fst snd] in H. bd H. bd H. inversion H; subst; clear H.
      eapply Tg_leaf; eauto.
      + exact (completed_canon tys _ _ _ E2).
      + apply initial_dfchild.
    - (* ULoad *)
      intros id v cp r strict cf b st e st' e' H C T KB RC. rewrite exec_stmt3_ULoad in H. bd H. destruct v0 as [st1 c]. cbn [fst snd] in H.
      bd H. destruct v0 as [st2 l]. cbn [fst snd] in H. bd H. inversion H; subst; clear H.
      assert (X : Tg st1 /\ Ext st st1).
      { destruct cp.
        - eapply Tg_node; eauto.
        - assert (Hs : strict = false) by (destruct strict; [discriminate C|reflexivity]).
          destruct (Tg_add rootc _ _ _ _ _ E T (RC Hs) (root_const v)) as (T1 & X1 & _ & _). auto. }
      destruct X as [T1 X1]. destruct (Tg_node _ _ _ _ _ E0 eq_refl T1 (KB3_ext _ _ _ X1 KB)) as [T2 X2].
      destruct (Tg_link _ _ _ _ _ _ E1 T2) as [T3 X3]. split; [exact T3|]. eapply Ext_trans; [exact X1|eapply Ext_trans; eauto].
    - (* UNested *)
      intros id args body IH rs strict cf b st e st' e' H C T KB RC. rewrite exec_stmt3_UNested in H. bd H. rename v into ws. bd H. bd H.
      destruct v0 as [st1 d]. cbn [fst snd] in H. bd H. destruct v0 as [st3 io]. cbn [fst snd] in H. bd H. destruct v0 as [st4 ts4].
      cbn [fst snd] in H. bd H. destruct v0 as [st5 e5]. cbn [fst snd] in H. inversion H; subst; clear H.
      destruct (Tg_container _ _ _ _ _ _ _ _ E1 E2 eq_refl eq_refl T KB) as (T3 & X3 & KBi).
      destruct (Tg_wire _ _ _ _ _ _ E3 T3) as [T4 X4]. pose proof (Ext_trans _ _ _ X3 X4) as X04.
      destruct (IH strict _ _ _ _ _ _ _ E4 C T4 (KB3_ext _ _ _ X4 KBi) (RootC_ext _ _ _ X04 RC)) as [T5 X5].
      split; [exact T5|eapply Ext_trans; eauto].
    - (* UOrder *)
      intros src dst strict cf b st e st' e' H C T KB RC. rewrite exec_stmt3_UOrder in H. bd H. bd H. bd H. inversion H; subst; clear H.
      pose proof (proj1 (add_order_link_cases _ _ _ _ E1)) as En. split; [eapply Tg_nodes; eauto|now apply Ext_nodes].
    - (* ULoop *)
      intros id just rest body IH rs strict cf b st e st' e' H C T KB RC. rewrite exec_stmt3_ULoop in H. bd H. rename v into jw. bd H. rename v into rw.
      bd H. bd H. bd H. destruct v1 as [st1 d]. cbn [fst snd] in H. bd H. destruct v1 as [st3 io]. cbn [fst snd] in H.
      bd H. destruct v1 as [st4 ts4]. cbn [fst snd] in H. bd H. destruct v1 as [st5 e5]. cbn [fst snd] in H. inversion H; subst; clear H.
      destruct (Tg_container _ _ _ _ _ _ _ _ E3 E4 eq_refl eq_refl T KB) as (T3 & X3 & KBi).
      destruct (Tg_wire _ _ _ _ _ _ E5 T3) as [T4 X4]. pose proof (Ext_trans _ _ _ X3 X4) as X04.
      destruct (IH strict _ _ _ _ _ _ _ E6 C T4 (KB3_ext _ _ _ X4 KBi) (RootC_ext _ _ _ X04 RC)) as [T5 X5].
      split; [exact T5|eapply Ext_trans; eauto].
    - (* UCond *)
      intros id cond args cs IH rs strict cf b st e st' e' H C T KB RC. rewrite exec_stmt3_UCond in H. bd H. rename v into cw. bd H. rename v into ws.
      bd H. destruct v as [|t others]; [discriminate|]. destruct (nthN tys t) as [[cp rows| |]|]; try discriminate.
      bd H. destruct v as [st1 c]. cbn [fst snd] in H. bd H. destruct v as [st2 bs]. cbn [fst snd] in H. bd H. destruct v as [st3 ts3].
      cbn [fst snd] in H. bd H. destruct v as [[[st4 e4] bs'] cur']. destruct (cases_done bs' cur'); [|discriminate]. inversion H; subst; clear H.
      destruct (Tg_add dfk3 _ _ _ _ _ E2 T (proj1 KB) (df_child (Conditional rows others [] t) eq_refl)) as (T1 & X1 & -> & En1).
      destruct (Tg_make_cases _ _ _ _ _ _ E3 T1 (kindp_new is_cond _ _ _ _ En1 eq_refl)) as (T2 & X2 & F2).
      destruct (Tg_wire _ _ _ _ _ _ E4 T2) as [T3 X3]. pose proof (Ext_trans _ _ _ X1 (Ext_trans _ _ _ X2 X3)) as X03.
      destruct (IH strict _ _ _ _ _ _ _ _ _ E5 C T3 (fun cb f Hin => KB3_ext _ _ _ X3 (F2 cb f Hin)) (RootC_ext _ _ _ X03 RC)) as [T4 X4].
      split; [exact T4|eapply Ext_trans; eauto].
    - (* UInsert *)
      intros id sub IH args rs strict cf b st e st' e' H C T KB RC. rewrite exec_stmt3_UInsert in H. bd H. destruct v as [sti e1]. cbn [fst snd] in H.
      bd H. rename v into ws. bd H. destruct v as [st1 m]. cbn [fst snd] in H. destruct (nthN m 0) as [r|] eqn:Er; [|discriminate].
      bd H. destruct v as [st2 ts]. cbn [fst snd] in H. inversion H; subst; clear H.
      assert (C' : croot3 sub && negb (is_module_prog sub) = true) by exact C. apply andb_true_iff in C'. destruct C' as [C1 C2].
      apply negb_true_iff in C2. destruct (IH _ _ _ E C1) as [Ti Hroot].
      destruct (Tg_insert _ _ _ _ _ E1 T Ti (proj1 KB) (Hroot C2)) as [T1 X1].
      destruct (Tg_wire _ _ _ _ _ _ E2 T1) as [T2 X2]. split; [exact T2|eapply Ext_trans; eauto].
    - (* UCallInd *)
      intros id args rs strict cf b st e st' e' H C T KB RC. rewrite exec_stmt3_UCallInd in H. bd H. rename v into ws. bd H. destruct v as [st1 n].
      cbn [fst snd] in H. bd H. destruct v as [st2 ts]. cbn [fst snd] in H. bd H. bd H. inversion H; subst; clear H.
      eapply Tg_leaf; eauto. rewrite (completed_callind_canon _ _ _ E2). reflexivity.
    - (* UCall *)
      intros id f args rs inst strict cf b st e st' e' H C T KB RC. rewrite exec_stmt3_UCall in H. bd H. rename v into fn. bd H. rename v into ws.
      bd H. bd H. bd H. destruct v1 as [st1 n]. cbn [fst snd] in H. bd H. rename v1 into st2. bd H. destruct v1 as [st3 ts]. cbn [fst snd] in H.
      inversion H; subst; clear H.
      destruct (Tg_node _ _ _ _ _ E3 eq_refl T KB) as [T1 X1]. destruct (Tg_link _ _ _ _ _ _ E4 T1) as [T2 X2].
      destruct (Tg_wire _ _ _ _ _ _ E5 T2) as [T3 X3]. split; [exact T3|]. eapply Ext_trans; [exact X1|eapply Ext_trans; eauto].
    - (* ULoadFn *)
      intros id f r inst fnty strict cf b st e st' e' H C T KB RC. rewrite exec_stmt3_ULoadFn in H. bd H. rename v into fn. bd H. bd H.
      bd H. destruct v1 as [st1 n]. cbn [fst snd] in H. bd H. inversion H; subst; clear H.
      destruct (Tg_node _ _ _ _ _ E2 eq_refl T KB) as [T1 X1]. destruct (Tg_link _ _ _ _ _ _ E3 T1) as [T2 X2].
      split; [exact T2|eapply Ext_trans; eauto].
    - (* ULoadC *)
      intros id c r strict cf b st e st' e' H C T KB RC. rewrite exec_stmt3_ULoadC in H. destruct (nthN (e_consts e) c) as [cn|] eqn:Ec; [|discriminate].
      destruct (s_op st cn) as [[]|]; try discriminate. bd H. destruct v0 as [st1 l]. cbn [fst snd] in H. bd H. inversion H; subst; clear H.
      destruct (Tg_node _ _ _ _ _ E eq_refl T KB) as [T1 X1]. destruct (Tg_link _ _ _ _ _ _ E0 T1) as [T2 X2].
      split; [exact T2|eapply Ext_trans; eauto].
    - (* ULocalFn *)
      intros id f params ins douts body IH strict cf b st e st' e' H C T KB RC. rewrite exec_stmt3_ULocalFn in H. bd H. rename v into o.
      bd H. destruct v as [st1 n]. cbn [fst snd] in H. bd H. destruct v as [st3 io]. cbn [fst snd] in H. bd H. destruct v as [st5 e5].
      cbn [fst snd] in H. inversion H; subst; clear H. destruct (new_funcdefn_is _ _ _ _ _ E) as (fa & fb & fc & ->).
      destruct (Tg_container _ _ _ _ _ _ _ _ E0 E1 eq_refl eq_refl T KB) as (T3 & X3 & KBi).
      destruct (IH strict _ _ _ _ _ _ _ E2 C T3 KBi (RootC_ext _ _ _ X3 RC)) as [T5 X5].
      split; [exact T5|eapply Ext_trans; eauto].
    - (* UCfg *)
      intros id args blocks IH branches rs strict cf b st e st' e' H C T KB RC. rewrite exec_stmt3_UCfg in H. bd H. rename v into ws. bd H.
      bd H. destruct v0 as [st1 c]. cbn [fst snd] in H. bd H. destruct v0 as [st2 cb]. cbn [fst snd] in H. bd H. destruct v0 as [st3 ts3].
      cbn [fst snd] in H. bd H. destruct v0 as [[st4 e4] ent]. bd H. destruct v0 as [st5 cs5]. cbn [fst snd] in H.
      destruct (cfg_done cs5); [|discriminate]. inversion H; subst; clear H.
      destruct (Tg_add dfk3 _ _ _ _ _ E1 T (proj1 KB) (df_child (CFG v []) eq_refl)) as (T1 & X1 & -> & En1).
      destruct (Tg_init_cfg _ _ _ _ _ E2 T1 (kindp_new is_cfg _ _ _ _ En1 eq_refl)) as (T2 & X2 & CK2).
      destruct (Tg_wire _ _ _ _ _ _ E3 T2) as [T3 X3]. pose proof (Ext_trans _ _ _ X1 (Ext_trans _ _ _ X2 X3)) as X03.
      destruct (IH strict _ _ _ _ _ _ _ E4 C T3 (CK_ext _ _ _ X3 CK2) (RootC_ext _ _ _ X03 RC)) as [T4 X4].
      destruct (Tg_do_branches _ _ _ _ _ _ _ E5 (CK_ext _ _ _ (Ext_trans _ _ _ X3 X4) CK2) T4) as [T5 X5].
      split; [exact T5|]. eapply Ext_trans; [exact X03|eapply Ext_trans; eauto].
    - (* Rg *)
      intros ins body IH outs strict single cf b st e st' e' H C T KB RC. rewrite exec_region3_Rg in H. bd H. destruct v as [st1 e1]. cbn [fst snd] in H.
      bd H. rename v into ws. destruct (IH strict _ _ _ _ _ _ E C T KB RC) as [T1 X1]. pose proof (KB3_ext _ _ _ X1 KB) as KB1.
      destruct single.
      + bd H. bd H. destruct v0 as [st2 c]. cbn [fst snd] in H. bd H. destruct v0 as [st3 l]. cbn [fst snd] in H. bd H. bd H.
        inversion H; subst; clear H.
        destruct (Tg_node _ _ _ _ _ E2 eq_refl T1 KB1) as [T2 X2]. destruct (Tg_node _ _ _ _ _ E3 eq_refl T2 (KB3_ext _ _ _ X2 KB1)) as [T3 X3].
        destruct (Tg_link _ _ _ _ _ _ E4 T3) as [T4 X4]. pose proof (Ext_trans _ _ _ X2 (Ext_trans _ _ _ X3 X4)) as X14.
        destruct (Tg_set_outputs3 _ _ _ _ _ _ _ E5 (KB3_ext _ _ _ X14 KB1) T4) as [T5 X5].
        split; [exact T5|]. eapply Ext_trans; [exact X1|eapply Ext_trans; eauto].
      + bd H. inversion H; subst; clear H. destruct (Tg_set_outputs3 _ _ _ _ _ _ _ E1 KB1 T1) as [T5 X5].
        split; [exact T5|eapply Ext_trans; eauto].
    - (* UNil *)
      intros strict cf b st e st' e' H C T KB RC. rewrite exec_stmts3_UNil in H. inversion H; subst. split; [exact T|apply Ext_refl].
    - (* UCons *)
      intros s IHs r IHr strict cf b st e st' e' H C T KB RC. rewrite exec_stmts3_UCons in H. bd H. destruct v as [st1 e1]. cbn [fst snd] in H.
      assert (C' : croot3_stmt strict s && croot3_stmts strict r = true) by exact C. apply andb_true_iff in C'. destruct C' as [C1 C2].
      destruct (IHs strict _ _ _ _ _ _ E C1 T KB RC) as [T1 X1].
      destruct (IHr strict _ _ _ _ _ _ H C2 T1 (KB3_ext _ _ _ X1 KB) (RootC_ext _ _ _ X1 RC)) as [T2 X2].
      split; [exact T2|eapply Ext_trans; eauto].
    - (* KNil *)
      intros strict c bs cur st e st' e' bs' cur' H C T F RC. rewrite exec_cases3_KNil in H. inversion H; subst. split; [exact T|apply Ext_refl].
    - (* KCons *)
      intros i r IHr rest IHrest strict c bs cur st e st' e' bs' cur' H C T F RC. rewrite exec_cases3_KCons in H.
      destruct (nthN bs i) as [[cb [|]]|] eqn:Eb; try discriminate. bd H. destruct v as [st1 e1]. cbn [fst snd] in H. bd H. bd H.
      destruct v0 as [st2 cur2]. cbn [fst snd] in H.
      assert (C' : croot3_region strict r && croot3_cases strict rest = true) by exact C. apply andb_true_iff in C'. destruct C' as [C1 C2].
      destruct (IHr strict _ _ _ _ _ _ _ E C1 T (F _ _ (nthN_In _ _ _ Eb)) RC) as [T1 X1].
      pose proof (update_outputs_same _ _ _ _ _ _ E1) as S2. pose proof (Ext_trans _ _ _ X1 (Same_Ext _ _ S2)) as X02.
      destruct (IHrest strict _ _ _ _ _ _ _ _ _ H C2 (Tg_Same _ _ S2 T1)) as [T3 X3].
      + intros cb' f Hin. apply in_set_nth in Hin. eapply KB3_ext; [exact X02|].
        destruct Hin as [Hin|Hin]; [inversion Hin; subst; exact (F _ _ (nthN_In _ _ _ Eb))|eauto].
      + eapply RootC_ext; eauto.
      + split; [exact T3|eapply Ext_trans; eauto].
    - (* BNil *)
      intros strict cb ent st e st' e' ent' H C T CKb RC. rewrite exec_blocks3_BNil in H. inversion H; subst. split; [exact T|apply Ext_refl].
    - (* BCons *)
      intros id k body IHb single bw rest IHrest strict cb ent st e st' e' ent' H C T CKb RC. rewrite exec_blocks3_BCons in H.
      bd H. destruct v as [st1 bb]. cbn [fst snd] in H. bd H. destruct v as [st2 e2]. cbn [fst snd] in H.
      assert (C' : croot3_region strict body && croot3_blocks strict rest = true) by exact C. apply andb_true_iff in C'. destruct C' as [C1 C2].
      assert (X : Tg st1 /\ Ext st st1 /\ KB3 st1 bb).
      { destruct k as [|ins|pred].
        - inversion E; subst. split; [exact T|]. split; [apply Ext_refl|exact (ck_entry _ _ CKb)].
        - bd E. destruct v as [sta n]. cbn [fst snd] in E. eapply Tg_block; eauto. exact (ck_cfg _ _ CKb).
        - bd E. rename v into p. bd E. bd E. destruct v0 as [sta n]. cbn [fst snd] in E. bd E. destruct v0 as [stb io]. cbn [fst snd] in E.
          bd E. inversion E; subst; clear E. destruct (Tg_block _ _ _ _ _ _ _ E3 E4 T (ck_cfg _ _ CKb)) as (T3 & X3 & KBb).
          destruct (Tg_link _ _ _ _ _ _ E5 T3) as [T4 X4]. split; [exact T4|]. split; [eapply Ext_trans; eauto|eapply KB3_ext; eauto]. }
      destruct X as (T1 & X1 & KBb).
      destruct (IHb strict _ _ _ _ _ _ _ E0 C1 T1 KBb (RootC_ext _ _ _ X1 RC)) as [T2 X2]. pose proof (Ext_trans _ _ _ X1 X2) as X02.
      destruct (IHrest strict _ _ _ _ _ _ _ H C2 T2 (CK_ext _ _ _ X02 CKb) (RootC_ext _ _ _ X02 RC)) as [T3 X3].
      split; [exact T3|eapply Ext_trans; eauto].
    - (* RDfg *)
      intros ins body IH e st' e' H C. rewrite exec_prog3_RDfg in H. bd H. destruct v as [st0 io]. cbn [fst snd] in H.
      destruct (Tg_root_io _ _ _ _ E eq_refl) as (T0 & X0 & KB0).
      destruct (IH false _ _ _ _ _ _ _ H C T0 KB0 (fun _ => kindp_Ext _ _ _ _ X0 (kindp_root_new rootc (DFG ins []) eq_refl))) as [T1 X1].
      split; [exact T1|]. intros _. eapply kindp_Ext; [exact (Ext_trans _ _ _ X0 X1)|]. exact (kindp_root_new dataflow_child (DFG ins []) eq_refl).
    - (* RLoop *)
      intros just rest body IH e st' e' H C. rewrite exec_prog3_RLoop in H. bd H. destruct v as [st0 io]. cbn [fst snd] in H.
      destruct (Tg_root_io _ _ _ _ E eq_refl) as (T0 & X0 & KB0).
      destruct (IH false _ _ _ _ _ _ _ H C T0 KB0 (fun _ => kindp_Ext _ _ _ _ X0 (kindp_root_new rootc (TailLoop (just ++ rest) [] [] (lenN just)) eq_refl))) as [T1 X1].
      split; [exact T1|]. intros _. eapply kindp_Ext; [exact (Ext_trans _ _ _ X0 X1)|]. exact (kindp_root_new dataflow_child (TailLoop (just ++ rest) [] [] (lenN just)) eq_refl).
    - (* RCond *)
      intros rows others sumty cs IH e st' e' H C. rewrite exec_prog3_RCond in H. bd H. destruct v as [st1 bs]. cbn [fst snd] in H.
      bd H. destruct v as [[[st4 e4] bs'] cur']. destruct (cases_done bs' cur'); [|discriminate]. inversion H; subst; clear H.
      destruct (Tg_make_cases _ _ _ _ _ _ E (Tg_new _) (kindp_root_new is_cond (Conditional rows others [] sumty) eq_refl)) as (T1 & X1 & F1).
      destruct (IH true _ _ _ _ _ _ _ _ _ E0 C T1 F1) as [T2 X2]; [intros Q; discriminate Q|].
      split; [exact T2|]. intros _. eapply kindp_Ext; [exact (Ext_trans _ _ _ X1 X2)|]. exact (kindp_root_new dataflow_child (Conditional rows others [] sumty) eq_refl).
    - (* RFunc *)
      intros params ins douts body IH e st' e' H C. rewrite exec_prog3_RFunc in H. bd H. bd H. destruct v0 as [st0 io]. cbn [fst snd] in H.
      destruct (new_funcdefn_is _ _ _ _ _ E) as (fa & fb & fc & ->).
      destruct (Tg_root_io _ _ _ _ E0 eq_refl) as (T0 & X0 & KB0).
      destruct (IH false _ _ _ _ _ _ _ H C T0 KB0 (fun _ => kindp_Ext _ _ _ _ X0 (kindp_root_new rootc (FuncDefn fa fb fc) eq_refl))) as [T1 X1].
      split; [exact T1|]. intros _. eapply kindp_Ext; [exact (Ext_trans _ _ _ X0 X1)|]. exact (kindp_root_new dataflow_child (FuncDefn fa fb fc) eq_refl).
    - (* RCfg *)
      intros ins blocks IH branches e st' e' H C. rewrite exec_prog3_RCfg in H. bd H. destruct v as [st1 cb]. cbn [fst snd] in H.
      bd H. destruct v as [[st2 e2] ent]. bd H. destruct v as [st3 cs3]. cbn [fst snd] in H. destruct (cfg_done cs3); [|discriminate].
      inversion H; subst; clear H.
      destruct (Tg_init_cfg _ _ _ _ _ E (Tg_new _) (kindp_root_new is_cfg (CFG ins []) eq_refl)) as (T1 & X1 & CK1).
      destruct (IH false _ _ _ _ _ _ _ E0 C T1 CK1 (fun _ => kindp_Ext _ _ _ _ X1 (kindp_root_new rootc (CFG ins []) eq_refl))) as [T2 X2].
      destruct (Tg_do_branches _ _ _ _ _ _ _ E1 (CK_ext _ _ _ X2 CK1) T2) as [T3 X3].
      split; [exact T3|]. intros _. eapply kindp_Ext; [exact (Ext_trans _ _ _ X1 (Ext_trans _ _ _ X2 X3))|]. exact (kindp_root_new dataflow_child (CFG ins []) eq_refl).
    - (* RModule *)
      intros consts funcs IH e st' e' H C. rewrite exec_prog3_RModule in H. bd H. destruct v as [st1 e1]. cbn [fst snd] in H.
      bd H. destruct v as [[st2 e2] bs].
      destruct (Tg_add_consts _ _ _ _ _ E (Tg_new _) (kindp_root_new is_module (Module) eq_refl)) as [T1 X1].
      destruct (Tg_decl_funcs _ _ _ _ _ _ _ E0 T1 (kindp_Ext _ _ _ _ X1 (kindp_root_new is_module (Module) eq_refl))) as (T2 & X2 & F2).
      destruct (IH _ _ _ _ _ H C T2 F2 (fun _ => kindp_Ext _ _ _ _ (Ext_trans _ _ _ X1 X2) (kindp_root_new rootc (Module) eq_refl))) as [T3 X3].
      split; [exact T3|intros Q; discriminate Q].
    - (* FNil *)
      intros bs st e st' e' H C T F RC. rewrite exec_funcs3_FNil in H. inversion H; subst. split; [exact T|apply Ext_refl].
    - (* FDecl *)
      intros f sg rest IH bs st e st' e' H C T F RC. destruct bs as [|b0 bs]; [discriminate H|]. rewrite exec_funcs3_FDecl in H.
      eapply IH; eauto. intros b Hb. apply F. now right.
    - (* FDefn *)
      intros f params ins douts body IHb rest IH bs st e st' e' H C T F RC. destruct bs as [|[b0|] bs]; try discriminate H.
      rewrite exec_funcs3_FDefn in H. bd H. destruct v as [st1 e1]. cbn [fst snd] in H.
      assert (C' : croot3_region false body && croot3_funcs rest = true) by exact C. apply andb_true_iff in C'. destruct C' as [C1 C2].
      destruct (IHb false _ _ _ _ _ _ _ E C1 T (F _ (or_introl eq_refl)) RC) as [T1 X1].
      destruct (IH _ _ _ _ _ H C2 T1) as [T2 X2].
      + intros b Hb. eapply KB3_ext; [exact X1|]. apply F. now right.
      + eapply RootC_ext; eauto.
      + split; [exact T2|eapply Ext_trans; eauto].
  Qed.
End Main3.

(* ------------------------------------------------------------------ the theorems *)
Theorem run3_child_tags tys sigs p g : run3 tys sigs p = Ok g -> croot3 p = true -> r_child_tags g = true.
Proof.
  unfold run3. intros H C. bd H. destruct v as [st e1]. cbn [fst] in H. inversion H; subst; clear H.
  destruct (exec3_tags tys sigs) as (_ & _ & _ & _ & _ & HP & _). rewrite tags_to_serial. exact (proj1 (HP p _ _ _ E C)).
Qed.
(* also for the sub-programs of function-valued constants *)
Theorem run3s_child_tags tys sigs p subs g gs : run3s tys sigs p subs = Ok (g, gs) -> croot3s p subs = true ->
  r_child_tags g = true /\ forall x, In x gs -> r_child_tags x = true.
Proof.
  unfold run3s, croot3s. intros H C0. apply andb_true_iff in C0. destruct C0 as [C Cs]. bd H. rename v into g0. bd H. rename v into gs0. inversion H; subst; clear H.
  split; [eapply run3_child_tags; eauto|]. clear E C. revert gs E0 Cs. induction subs as [|q r IH]; intros gs H Cs; cbn [run3_list] in H.
  - inversion H; subst. intros x [].
  - bd H. bd H. inversion H; subst. cbn [forallb] in Cs. apply andb_true_iff in Cs. destruct Cs as [C1 C2].
    intros x [<-|Hx]; [eapply run3_child_tags; eauto|eapply IH; eauto].
Qed.

(* the premise holds on the program of proofs/Builder3EmbP.v's example, and is refuted on a constant placed at the root of a
   Conditional-rooted Hugr (the builder accepts the call and produces a Const child of a Conditional: rule 1 fails) *)
From HV Require Import proofs.Builder3EmbP.
Example ex9_croot3 : croot3 ex9_prog = true. Proof. reflexivity. Qed.
Example ex_croot3_refuted : croot3 (emb2 ex_croot) = false /\
  exists g, run3 ex_croot_tys [] (emb2 ex_croot) = Ok g /\ r_child_tags g = false.
Proof. split; [reflexivity|]. eexists. split; [vm_compute; reflexivity|vm_compute; reflexivity]. Qed.
(* a separately built Module inserted under a DFG: the builder accepts it; a Module is no dataflow child *)
Definition ex10_prog : prog3 := RDfg [] (Rg [] (UCons (UInsert 1 (RModule [] FNil) [] []) UNil) []).
Example ex10_module_refuted : croot3 ex10_prog = false /\
  exists g, run3 [] [] ex10_prog = Ok g /\ r_child_tags g = false.
Proof. split; [reflexivity|]. eexists. split; [vm_compute; reflexivity|vm_compute; reflexivity]. Qed.
