(* Proofs over model/SerialHugrGen.v / spec/SerialHugrGenS.v: the C02 / C03 theorems of proofs/SerialHugrP.v
   generalised over what the wire format leaves to the writer (false alarms on harmless changes).
   A. C03 for ANY admissible listing order of the live nodes that puts the root first and parents earlier
      (to_serial_in): serialization is total, the document is index-sane, every edge is the link with its nodes at their
      listing positions and its ports addressed by the operation.  to_serial is the instance L = live h, and the
      guard's index_ordered_b makes that order admissible and hierarchy-respecting.
   B. C02 for ANY presentation of the document (to_serial_p pres; SameDoc (pres s) s: edges rearranged, metadata table
      written as null / with {} entries): the presented document loads, the loaded HUGR is Iso to the original and
      serializes to a document that is the same up to presentation; to the very same document when the presentation is
      canonical (a function of the SameDoc class: sorted edges, "null when no node has metadata"). *)
From Coq Require Import List Bool Arith Lia Permutation.
Import ListNotations.
From HV Require Import lib.Harness model.SerialHugr spec.SerialHugrS proofs.SerialHugrP.
From HV Require Import model.SerialHugrGen spec.SerialHugrGenS.

(* ------------------------------------------------------------------ lists *)
Lemma find_pos_index_of i L : find_pos i L = index_of i L.
Proof. induction L as [|y r IH]; cbn; [reflexivity|]. now rewrite IH. Qed.
Lemma index_of_In i L : In i L -> exists k, index_of i L = Some k.
Proof.
  induction L as [|y r IH]; cbn; [tauto|]. intros H. destruct (Nat.eqb_spec i y); [eauto|].
  destruct H as [->|H]; [congruence|]. destruct (IH H) as [k ->]. cbn. eauto.
Qed.
Lemma index_of_lt i L k : index_of i L = Some k -> k < length L.
Proof. intros H. apply index_of_nth in H. apply nth_error_Some. congruence. Qed.
Lemma index_of_nodup L : NoDup L -> forall k i, nth_error L k = Some i -> index_of i L = Some k.
Proof.
  induction 1 as [|y r Hy Hnd IH]; intros [|k] i; cbn; try discriminate.
  - intros [= <-]. now rewrite Nat.eqb_refl.
  - intros Hk. destruct (Nat.eqb_spec i y) as [->|_]; [exfalso; apply Hy; eapply nth_error_In; eauto|].
    now rewrite (IH k i Hk).
Qed.
Lemma pos_in_index L i k : index_of i L = Some k -> pos_in L i = k.
Proof. intros H. unfold pos_in. pose proof (find_pos_index_of i L) as E. rewrite H in E. now rewrite E. Qed.
Lemma mapM_In {A B} (f : A -> option B) l l' y :
  mapM f l = Some l' -> In y l' -> exists x, In x l /\ f x = Some y.
Proof.
  intros H Hy. destruct (mapM_nth f l l' H) as [Hl Hn]. apply In_nth_error in Hy. destruct Hy as [k Hk].
  assert (Hk' : k < length l) by (rewrite <- Hl; apply nth_error_Some; congruence).
  destruct (nth_error l k) as [x|] eqn:Ex; [|apply nth_error_None in Ex; lia].
  destruct (Hn k x Ex) as [y' [Hf Hy']]. exists x. split; [eapply nth_error_In; eauto|congruence].
Qed.

(* the boolean multiset comparison of lib/Harness.v means Permutation (as in proofs/CodecDocP.v, re-proved here so that
   this file does not depend on C05's development) *)
Lemma remove1_perm' {A} (eqb : A -> A -> bool) (Heq : forall a b, eqb a b = true -> a = b) x :
  forall l l', remove1 eqb x l = Some l' -> Permutation l (x :: l').
Proof.
  induction l as [|y r IH]; intros l' E; cbn in E; [discriminate|].
  destruct (eqb x y) eqn:Exy.
  - apply Heq in Exy. inversion E. subst. reflexivity.
  - destruct (remove1 eqb x r) as [r'|] eqn:Er; [|discriminate]. inversion E. subst.
    rewrite (IH r' eq_refl). apply perm_swap.
Qed.
Lemma perm_eqb_sound' {A} (eqb : A -> A -> bool) (Heq : forall a b, eqb a b = true -> a = b) :
  forall a b, perm_eqb eqb a b = true -> Permutation a b.
Proof.
  induction a as [|x r IH]; intros b E; cbn in E.
  - destruct b; [constructor|discriminate].
  - destruct (remove1 eqb x b) as [b'|] eqn:Eb; [|discriminate].
    rewrite (remove1_perm' eqb Heq x b b' Eb). constructor. now apply IH.
Qed.

Section GenProofs.
  Variables op sop md : Type.
  Variable enc : op -> sop.
  Variable dec : sop -> op.
  Variable ndp : op -> dir -> option nat.
  Variable md_nil : md.
  Variable md_is_nil : md -> bool.
  Variables vports sports : op -> dir -> nat.
  Variable has_order : op -> bool.
  Hypothesis ndp_spec : forall o d, ndp o d = if has_order o then Some (vports o d + sports o d) else None.

  Notation node := (node op md).
  Notation hugr := (hugr op md).
  Notation snode := (snode sop).
  Notation serial := (serial sop md).
  Notation to_serial := (to_serial enc ndp md_is_nil).
  Notation to_serial_in := (to_serial_in enc ndp md_is_nil).
  Notation from_serial := (from_serial dec ndp md_nil).
  Notation guard_b := (guard_b vports sports has_order).
  Notation ports_exist_b := (ports_exist_b vports sports has_order).
  Notation port_exists := (port_exists vports sports has_order).
  Notation addr := (addr vports sports).
  Notation expected_edge_pos := (expected_edge_pos vports sports).

  (* ================================================================ A. C03 under a listing order *)
  (* to_serial is the instance "increasing index" *)
  Lemma meta_in_live (h : hugr) : meta_in md_is_nil (live h) h = meta_of op md md_is_nil (h_nodes h).
  Proof.
    unfold meta_in. apply map_eq_nth.
    - unfold live. now rewrite (meta_of_length op md md_is_nil (h_nodes h) 0).
    - intros j i Hj. unfold live in Hj. destruct (meta_of_nth op md md_is_nil (h_nodes h) 0 j i Hj) as [n [Hn Hm]].
      rewrite Nat.sub_0_r in Hn. unfold get_node. now rewrite Hn.
  Qed.
  Theorem to_serial_in_live (h : hugr) : to_serial_in (live h) h = to_serial h.
  Proof. unfold SerialHugrGen.to_serial_in, SerialHugr.to_serial. now rewrite meta_in_live. Qed.

  Section Order.
    Variable h : hugr.
    Variable L : list nat.
    Hypothesis Hadm : OrderAdmissible h L.
    Hypothesis Hord : order_ok_b h L = true.

    Lemma rekey_in_live i : is_live h i = true -> rekey_in L i = Some (pos_in L i) /\ pos_in L i < length L.
    Proof.
      intros Hi. destruct Hadm as [_ HL]. destruct (index_of_In i L (proj2 (HL i) Hi)) as [k Hk].
      unfold rekey_in. rewrite (pos_in_index L i k Hk). split; [exact Hk|]. eapply index_of_lt; eauto.
    Qed.
    Lemma pos_nth k i : nth_error L k = Some i -> pos_in L i = k.
    Proof. intros Hk. destruct Hadm as [Hnd _]. apply pos_in_index. now apply index_of_nodup. Qed.
    Lemma order_facts : (exists r, L = h_root h :: r) /\
      forall i, In i L -> exists n, get_node h i = Some n /\
        match n_parent n with
        | None => i = h_root h
        | Some p => is_live h p = true /\ pos_in L p < pos_in L i /\ i <> h_root h
        end.
    Proof.
      unfold order_ok_b in Hord. apply andb_prop in Hord. destruct Hord as [H0 Hall]. split.
      - destruct L as [|r0 r]; [discriminate|]. apply Nat.eqb_eq in H0. subst r0. eauto.
      - intros i Hi. rewrite forallb_forall in Hall. specialize (Hall i Hi).
        destruct (get_node h i) as [n|]; [|discriminate]. exists n. split; [reflexivity|].
        destruct (n_parent n) as [p|]; [|now apply Nat.eqb_eq].
        apply andb_prop in Hall. destruct Hall as [Hall Hne]. apply andb_prop in Hall. destruct Hall as [Hl Hlt].
        split; [exact Hl|]. split; [now apply Nat.ltb_lt|]. intros E. rewrite E, Nat.eqb_refl in Hne. discriminate.
    Qed.
    Lemma root_pos : pos_in L (h_root h) = 0.
    Proof. destruct order_facts as [[r Hr] _]. apply pos_nth. now rewrite Hr. Qed.
    Definition snode_in (i : nat) (n : node) : snode :=
      {| s_op := enc (n_op n); s_parent := pos_in L (match n_parent n with Some p => p | None => i end) |}.
    Lemma ser_node_in_ok i : In i L -> exists n, get_node h i = Some n /\
      ser_node_in op sop md enc L h i = Some (snode_in i n).
    Proof.
      intros Hi. destruct order_facts as [_ F]. destruct (F i Hi) as [n [Hn Hp]]. exists n. split; [exact Hn|].
      unfold SerialHugrGen.ser_node_in, snode_in. rewrite Hn. destruct (n_parent n) as [p|].
      - destruct Hp as [Hl _]. now rewrite (proj1 (rekey_in_live p Hl)).
      - destruct Hadm as [_ HL]. now rewrite (proj1 (rekey_in_live i (proj1 (HL i) Hi))).
    Qed.
    Lemma ser_link_in_ok l : port_exists h (fst l) DOut = true -> port_exists h (snd l) DIn = true ->
      ser_link_in op md ndp L h l = Some (expected_edge_pos h L l) /\
      pos_in L (fst (fst l)) < length L /\ pos_in L (fst (snd l)) < length L /\
      addr h (fst l) DOut <> None /\ addr h (snd l) DIn <> None.
    Proof.
      intros Ho Hi. destruct (ser_link_guarded op md ndp md_nil md_is_nil vports sports has_order ndp_spec h l Ho Hi)
        as [a [b [Ea [Eb _]]]].
      pose proof (port_exists_live op md vports sports has_order h _ _ Ho) as Lo.
      pose proof (port_exists_live op md vports sports has_order h _ _ Hi) as Li.
      destruct (rekey_in_live _ Lo) as [Ro Bo]. destruct (rekey_in_live _ Li) as [Ri Bi].
      unfold SerialHugrGen.ser_link_in, SerialHugrGenS.expected_edge_pos.
      rewrite (constrain_addr op md ndp vports sports has_order ndp_spec h _ _ Ho),
              (constrain_addr op md ndp vports sports has_order ndp_spec h _ _ Hi), Ea, Eb, Ro, Ri.
      repeat split; try assumption; congruence.
    Qed.

    Theorem to_serial_in_total : ports_exist_b h = true -> exists s, to_serial_in L h = Some s.
    Proof.
      intros Gp. unfold SerialHugrGen.to_serial_in.
      destruct (mapM_total (ser_node_in op sop md enc L h) L) as [ns ->].
      { intros i Hi. destruct (ser_node_in_ok i Hi) as [n [_ E]]. eauto. }
      destruct (mapM_total (ser_link_in op md ndp L h) (h_links h)) as [es ->]; [|eauto].
      intros l Hl. destruct (pe_facts op md vports sports has_order h Gp l Hl) as [Ho Hi].
      destruct (ser_link_in_ok l Ho Hi) as [E _]. eauto.
    Qed.

    (* the root is listed first; the document is index-sane; every edge is the link at the listing positions of its
       nodes with its ports addressed by the operation (addr reads neither recorded port counts nor the link set) *)
    Theorem serial_in_sane (s : serial) : ports_exist_b h = true -> to_serial_in L h = Some s ->
      pos_in L (h_root h) = 0 /\ IndexSane s /\ s_edges s = map (expected_edge_pos h L) (h_links h).
    Proof.
      intros Gp. unfold SerialHugrGen.to_serial_in.
      destruct (mapM (ser_node_in op sop md enc L h) L) as [ns|] eqn:En; [|discriminate].
      destruct (mapM (ser_link_in op md ndp L h) (h_links h)) as [es|] eqn:Ee; [|discriminate]. intros [= <-]. cbn.
      destruct (mapM_nth _ _ _ En) as [Hl Hn]. destruct order_facts as [[r Hr] F].
      assert (Hnode : forall k i, nth_error L k = Some i -> exists n, get_node h i = Some n /\
                nth_error ns k = Some (snode_in i n) /\
                match n_parent n with
                | None => i = h_root h
                | Some p => is_live h p = true /\ pos_in L p < pos_in L i /\ i <> h_root h
                end).
      { intros k i Hk. assert (Hi : In i L) by (eapply nth_error_In; eauto).
        destruct (Hn k i Hk) as [y [Hy Hy']]. destruct (ser_node_in_ok i Hi) as [n [Hg E]].
        destruct (F i Hi) as [n' [Hg' Hp]]. rewrite Hg in Hg'. injection Hg' as <-.
        exists n. repeat split; [assumption|congruence|assumption]. }
      assert (Ees : es = map (expected_edge_pos h L) (h_links h)).
      { rewrite (mapM_map (ser_link_in op md ndp L h) (expected_edge_pos h L)) in Ee; [now injection Ee as <-|].
        intros l Hl'. destruct (pe_facts op md vports sports has_order h Gp l Hl') as [Ho Hi].
        exact (proj1 (ser_link_in_ok l Ho Hi)). }
      split; [exact root_pos|]. split; [|exact Ees]. repeat split.
      - assert (H0 : nth_error L 0 = Some (h_root h)) by now rewrite Hr.
        destruct (Hnode 0 _ H0) as [n [Hg [Hx Hp]]]. exists (snode_in (h_root h) n). split; [exact Hx|].
        unfold snode_in. cbn. destruct (n_parent n) as [p|]; [destruct Hp as [_ [_ Hne]]; congruence|exact root_pos].
      - intros k x Hk Hx. cbn [s_nodes] in Hx. assert (Hk' : k < length L) by (rewrite <- Hl; apply nth_error_Some; congruence).
        destruct (nth_error L k) as [i|] eqn:Ei; [|apply nth_error_None in Ei; lia].
        destruct (Hnode k i Ei) as [n [Hg [Hx' Hp]]]. rewrite Hx in Hx'. injection Hx' as ->.
        unfold snode_in. cbn. pose proof (pos_nth k i Ei) as Epos. destruct (n_parent n) as [p|].
        + destruct Hp as [_ [Hlt _]]. lia.
        + subst i. rewrite root_pos in Epos. lia.
      - cbn in H. rewrite Ees in H. apply in_map_iff in H. destruct H as [l [<- Hl']]. cbn. rewrite Hl.
        destruct (pe_facts op md vports sports has_order h Gp l Hl') as [Ho Hi].
        exact (proj1 (proj2 (ser_link_in_ok l Ho Hi))).
      - cbn in H. rewrite Ees in H. apply in_map_iff in H. destruct H as [l [<- Hl']]. cbn. rewrite Hl.
        destruct (pe_facts op md vports sports has_order h Gp l Hl') as [Ho Hi].
        exact (proj1 (proj2 (proj2 (ser_link_in_ok l Ho Hi)))).
    Qed.
  End Order.


  (* ================================================================ B. C02 under a presentation *)
  Notation get_meta := (get_meta sop md md_nil).
  Notation meta_at := (meta_at md_nil).
  Notation SameDoc := (SameDoc md_nil).
  Notation load_nodes := (load_nodes op sop md dec md_nil).
  Notation Built := (Built op sop md dec md_nil).
  Notation skel := (skel op md).
  Notation dec_edge := (dec_edge op md ndp).
  Notation dec_off := (dec_off op md ndp).
  Notation Canonical := (Canonical op sop md enc dec md_is_nil).

  (* the spec's reading of the metadata table is the loader's *)
  Lemma meta_at_get_meta (s : serial) j : meta_at s j = get_meta s j.
  Proof.
    unfold SerialHugrGenS.meta_at, SerialHugr.get_meta. destruct (s_meta s) as [[|x l]|]; try reflexivity.
    destruct j; reflexivity.
  Qed.
  Lemma SameDoc_refl (s : serial) : SameDoc s s.
  Proof. repeat split; auto. Qed.
  Lemma SameDoc_sym (a b : serial) : SameDoc a b -> SameDoc b a.
  Proof.
    intros [H1 [H2 H3]]. split; [now symmetry|]. split; [now apply Permutation_sym|].
    intros j Hj. symmetry. apply H3. now rewrite <- H1.
  Qed.
  Lemma SameDoc_trans (a b c : serial) : SameDoc a b -> SameDoc b c -> SameDoc a c.
  Proof.
    intros [H1 [H2 H3]] [K1 [K2 K3]]. split; [congruence|]. split; [eapply Permutation_trans; eauto|].
    intros j Hj. rewrite H3 by (rewrite K1; exact Hj). now apply K3.
  Qed.

  (* what the loader needs of a document: node 0 the root, parents earlier, edges between listed nodes with explicit
     offsets (Canonical of SerialHugrP.v without its clauses on operations and on the metadata table) *)
  Definition Loadable (s : serial) : Prop :=
    s_nodes s <> [] /\ PE sop (s_nodes s) /\ (forall e, In e (s_edges s) -> edge_ok (length (s_nodes s)) e).
  Lemma canonical_loadable (s : serial) : Canonical s -> Loadable s.
  Proof. intros [H1 [H2 [H3 _]]]. split; [exact H1|]. split; [exact H2|exact H3]. Qed.
  Lemma loadable_same (s s' : serial) : Loadable s -> SameDoc s' s -> Loadable s'.
  Proof.
    intros [H1 [H2 H3]] [E1 [E2 _]]. unfold Loadable. rewrite E1. split; [exact H1|]. split; [exact H2|].
    intros e He. apply H3. eapply Permutation_in; eauto.
  Qed.
  Lemma from_serial_loadable (s : serial) : Loadable s ->
    exists ns ns', from_serial s = Some {| h_nodes := map Some ns'; h_root := 0;
                                           h_links := map (dec_edge ns) (s_edges s) |} /\
                   Built s (s_nodes s) ns /\ skel ns ns'.
  Proof.
    intros [Hne [HPE Hed]]. destruct (load_nodes_built op sop md dec md_nil s (s_nodes s) HPE) as [ns [Hload HB]].
    pose proof HB as [Hlen _].
    destruct (load_links_spec op md ndp (s_edges s) ns ns [] (skel_refl op md ns)) as [ns' [Hl Hsk]].
    { intros e He. rewrite Hlen. now apply Hed. }
    exists ns, ns'. split; [|split; assumption]. unfold SerialHugr.from_serial.
    destruct (s_nodes s) eqn:E; [congruence|]. rewrite Hload, Hl. reflexivity.
  Qed.

  (* ---- the loader reads a document only through its node list, its edge list and get_meta ---- *)
  Lemma load_nodes_meta_ext (s s' : serial) n : (forall j, j < n -> get_meta s j = get_meta s' j) ->
    forall SN ns r, length ns + length SN <= n -> load_nodes s SN ns r = load_nodes s' SN ns r.
  Proof.
    intros Hm. induction SN as [|x SN IH]; intros ns r Hlen; [reflexivity|]. cbn [SerialHugr.load_nodes]. cbn in Hlen.
    rewrite (Hm (length ns)) by lia.
    destruct (s_parent x =? length ns).
    - apply IH. rewrite app_length. cbn. lia.
    - destruct (nth_error _ (s_parent x)); [|reflexivity]. apply IH.
      rewrite length_set_nth, app_length. cbn. lia.
  Qed.
  Lemma from_serial_meta_ext (s s' : serial) : s_nodes s' = s_nodes s -> s_edges s' = s_edges s ->
    (forall j, j < length (s_nodes s) -> get_meta s' j = get_meta s j) -> from_serial s' = from_serial s.
  Proof.
    intros E1 E2 Hm. unfold SerialHugr.from_serial. rewrite E1, E2.
    rewrite (load_nodes_meta_ext s' s (length (s_nodes s)) Hm (s_nodes s) [] 0) by (cbn; lia). reflexivity.
  Qed.

  (* ---- the document the loaded HUGR serializes to: the same nodes and edges, the metadata table written in full ---- *)
  Definition norm_doc (s : serial) : serial :=
    {| s_nodes := s_nodes s; s_edges := s_edges s;
       s_meta := Some (map (fun j => if md_is_nil (get_meta s j) then None else Some (get_meta s j))
                           (seq 0 (length (s_nodes s)))) |}.
  Hypothesis md_nil_is_nil : md_is_nil md_nil = true.
  Hypothesis md_nil_unique : forall m, md_is_nil m = true -> m = md_nil.
  Lemma norm_doc_meta (s : serial) j : j < length (s_nodes s) -> get_meta (norm_doc s) j = get_meta s j.
  Proof.
    intros Hj. unfold SerialHugr.get_meta at 1. cbn [s_meta norm_doc].
    set (f := fun j => if md_is_nil (get_meta s j) then None else Some (get_meta s j)).
    assert (Hn : nth_error (map f (seq 0 (length (s_nodes s)))) j = Some (f j)).
    { rewrite nth_error_map, (nth_error_nth' _ 0) by (now rewrite seq_length). now rewrite seq_nth. }
    destruct (map f (seq 0 (length (s_nodes s)))) as [|x l] eqn:El; [destruct j; discriminate|].
    rewrite Hn. unfold f. destruct (md_is_nil (get_meta s j)) eqn:E; [symmetry; now apply md_nil_unique|reflexivity].
  Qed.
  Lemma norm_doc_same (s : serial) : SameDoc (norm_doc s) s.
  Proof.
    split; [reflexivity|]. split; [apply Permutation_refl|]. intros j Hj.
    rewrite !meta_at_get_meta. now apply norm_doc_meta.
  Qed.
  Lemma norm_doc_canonical (s : serial) : Loadable s -> (forall y, In y (s_nodes s) -> enc (dec (s_op y)) = s_op y) ->
    Canonical (norm_doc s).
  Proof.
    intros [H1 [H2 H3]] Henc. unfold SerialHugrP.Canonical. cbn [s_nodes s_edges s_meta norm_doc].
    split; [exact H1|]. split; [exact H2|]. split; [exact H3|]. split; [exact Henc|].
    eexists. split; [reflexivity|]. split; [now rewrite map_length, seq_length|].
    intros m Hm. apply in_map_iff in Hm. destruct Hm as [j [Hj _]].
    destruct (md_is_nil (get_meta s j)) eqn:E; [discriminate|]. now injection Hj as <-.
  Qed.
  Theorem reload_serializes_to_norm (s : serial) h' : Loadable s ->
    (forall y, In y (s_nodes s) -> enc (dec (s_op y)) = s_op y) ->
    from_serial s = Some h' -> to_serial h' = Some (norm_doc s).
  Proof.
    intros HL Henc Hfs. apply (canonical_fixpoint op sop md enc dec ndp md_nil md_is_nil md_nil_is_nil).
    - now apply norm_doc_canonical.
    - rewrite (from_serial_meta_ext s (norm_doc s)); [exact Hfs|reflexivity|reflexivity|].
      intros j Hj. now apply norm_doc_meta.
  Qed.

  (* ---- loading two presentations of a document gives the same HUGR up to the order of links() and the recorded
     port counts ---- *)
  Record SameH (h1 h2 : hugr) : Prop := {
    sh_root : h_root h2 = h_root h1;
    sh_live : forall j, is_live h2 j = is_live h1 j;
    sh_node : forall j n1, get_node h1 j = Some n1 -> exists n2, get_node h2 j = Some n2 /\
        n_op n2 = n_op n1 /\ n_parent n2 = n_parent n1 /\ n_children n2 = n_children n1 /\ n_md n2 = n_md n1;
    sh_links : Permutation (h_links h2) (h_links h1)
  }.
  Lemma dec_off_ops (a b : list node) : length a = length b ->
    (forall j x y, nth_error a j = Some x -> nth_error b j = Some y -> n_op y = n_op x) ->
    forall i x d, dec_off b i x d = dec_off a i x d.
  Proof.
    intros Hl H i x d. unfold SerialHugrP.dec_off. destruct (nth_error a i) as [na|] eqn:Ea.
    - destruct (nth_error b i) as [nb|] eqn:Eb; [now rewrite (H i na nb Ea Eb)|].
      apply nth_error_None in Eb. assert (i < length a) by (apply nth_error_Some; congruence). lia.
    - apply nth_error_None in Ea. rewrite Hl in Ea. apply nth_error_None in Ea. now rewrite Ea.
  Qed.
  Theorem load_respects_presentation (s s' : serial) h1 : Loadable s -> SameDoc s' s ->
    from_serial s = Some h1 -> exists h2, from_serial s' = Some h2 /\ SameH h1 h2.
  Proof.
    intros HL HS Hfs. pose proof (loadable_same s s' HL HS) as HL'. destruct HS as [E1 [E2 E3]].
    destruct (from_serial_loadable s HL) as [ns1 [ns1' [F1 [[Hlen1 HB1] [Hl1 Hs1]]]]].
    destruct (from_serial_loadable s' HL') as [ns2 [ns2' [F2 [[Hlen2 HB2] [Hl2 Hs2]]]]].
    rewrite Hfs in F1. injection F1 as ->. eexists. split; [exact F2|]. rewrite E1 in *.
    assert (Hnode : forall j n1, nth_error ns1' j = Some n1 -> exists n2, nth_error ns2' j = Some n2 /\
              n_op n2 = n_op n1 /\ n_parent n2 = n_parent n1 /\ n_children n2 = n_children n1 /\ n_md n2 = n_md n1).
    { intros j n1 Hn1. assert (Hj : j < length (s_nodes s)) by (rewrite <- Hlen1, Hl1; apply nth_error_Some; congruence).
      destruct (nth_error (s_nodes s) j) as [y|] eqn:Ey; [|apply nth_error_None in Ey; lia].
      destruct (HB1 j y Ey) as [a [Ha [A1 [A2 [A3 [A4 _]]]]]]. destruct (HB2 j y Ey) as [b [Hb [B1 [B2 [B3 [B4 _]]]]]].
      destruct (Hs1 j a Ha) as [a' [Ha' [P1 [P2 [P3 P4]]]]]. destruct (Hs2 j b Hb) as [b' [Hb' [Q1 [Q2 [Q3 Q4]]]]].
      rewrite Hn1 in Ha'. injection Ha' as <-. exists b'. split; [exact Hb'|].
      specialize (E3 j Hj). rewrite !meta_at_get_meta in E3. repeat split; congruence. }
    constructor; cbn [h_root h_nodes h_links].
    - reflexivity.
    - intros j. unfold is_live. cbn [h_nodes]. rewrite !nth_error_map.
      assert (Hl : length ns2' = length ns1') by congruence.
      destruct (nth_error ns1' j) eqn:A; destruct (nth_error ns2' j) eqn:B; try reflexivity.
      + apply nth_error_None in B. assert (j < length ns1') by (apply nth_error_Some; congruence). lia.
      + apply nth_error_None in A. assert (j < length ns2') by (apply nth_error_Some; congruence). lia.
    - intros j n1. unfold get_node. cbn [h_nodes]. rewrite !nth_error_map.
      destruct (nth_error ns1' j) as [a|] eqn:A; [|discriminate]. cbn. intros [= <-].
      destruct (Hnode j a A) as [b [Hb Hf]]. exists b. rewrite Hb. split; [reflexivity|exact Hf].
    - assert (Ed : forall e, dec_edge ns2 e = dec_edge ns1 e).
      { intros e. unfold SerialHugrP.dec_edge. rewrite !(dec_off_ops ns1 ns2); try reflexivity; try congruence;
          intros j x y Hx Hy;
          (assert (Hj : j < length (s_nodes s)) by (rewrite <- Hlen1; apply nth_error_Some; congruence));
          (destruct (nth_error (s_nodes s) j) as [z|] eqn:Ez; [|apply nth_error_None in Ez; lia]);
          destruct (HB1 j z Ez) as [a [Ha [A1 _]]]; destruct (HB2 j z Ez) as [b [Hb [B1 _]]]; congruence. }
      rewrite (map_ext _ _ Ed). now apply Permutation_map.
  Qed.
  Theorem iso_respects_presentation (h h1 h2 : hugr) : Iso enc h h1 -> SameH h1 h2 -> Iso enc h h2.
  Proof.
    intros [I1 I2 I3 I4] [S1 S2 S3 S4]. constructor.
    - intros k. rewrite S2. apply I1.
    - intros i n Hn. destruct (I2 i n Hn) as [n1 [Hn1 [A1 [A2 [A3 A4]]]]].
      destruct (S3 _ _ Hn1) as [n2 [Hn2 [B1 [B2 [B3 B4]]]]]. exists n2. split; [exact Hn2|]. repeat split; congruence.
    - congruence.
    - eapply Permutation_trans; eauto.
  Qed.

  (* ---- C02 for any presentation ---- *)
  Hypothesis enc_dec_enc : forall o, enc (dec (enc o)) = enc o.
  Hypothesis ndp_dec_enc : forall o d, ndp (dec (enc o)) d = ndp o d.
  Section Presentation.
    Variable pres : serial -> serial.
    Hypothesis pres_same : forall s, SameDoc (pres s) s.
    Notation to_serial_p := (to_serial_p enc ndp md_is_nil pres).

    (* the presented document loads; the loaded HUGR shows the same observable structure (Iso) and serializes to a
       document that differs from the first at most in presentation *)
    Theorem roundtrip_any_presentation (h : hugr) : guard_b h = true ->
      exists s h', to_serial_p h = Some s /\ from_serial s = Some h' /\ Iso enc h h' /\
                   exists s2, to_serial_p h' = Some s2 /\ SameDoc s2 s /\
                              (* ... to the SAME document when the presentation is canonical *)
                              ((forall a b, SameDoc a b -> pres a = pres b) -> s2 = s).
    Proof.
      intros G. destruct (to_serial_total op sop md enc ndp md_nil md_is_nil vports sports has_order ndp_spec h G) as [s0 Hs0].
      pose proof (doc_canonical op sop md enc dec ndp md_nil md_is_nil vports sports has_order ndp_spec enc_dec_enc h s0 G Hs0) as HC.
      destruct (roundtrip_iso op sop md enc dec ndp md_nil md_is_nil vports sports has_order ndp_spec enc_dec_enc ndp_dec_enc
                  md_nil_unique h s0 G Hs0) as [h1 [Hf1 Hiso]].
      pose proof (canonical_loadable s0 HC) as HL0. pose proof (pres_same s0) as HS.
      destruct (load_respects_presentation s0 (pres s0) h1 HL0 HS Hf1) as [h2 [Hf2 HSH]].
      exists (pres s0), h2. unfold SerialHugrGen.to_serial_p. rewrite Hs0. cbn [option_map].
      split; [reflexivity|]. split; [exact Hf2|]. split; [eapply iso_respects_presentation; eauto|].
      assert (Henc : forall y, In y (s_nodes (pres s0)) -> enc (dec (s_op y)) = s_op y).
      { destruct HS as [E1 _]. rewrite E1. destruct HC as [_ [_ [_ [He _]]]]. exact He. }
      rewrite (reload_serializes_to_norm (pres s0) h2 (loadable_same s0 _ HL0 HS) Henc Hf2). cbn [option_map].
      eexists. split; [reflexivity|]. split.
      - eapply SameDoc_trans; [apply pres_same|apply norm_doc_same].
      - intros Hcan. apply Hcan. eapply SameDoc_trans; [apply norm_doc_same|exact HS].
    Qed.
  End Presentation.

  (* ---- C03 for any presentation: index sanity does not depend on it, the edges are a permutation ---- *)
  Lemma index_sane_same (a b : serial) : SameDoc a b -> IndexSane b -> IndexSane a.
  Proof.
    intros [E1 [E2 _]] [H1 [H2 H3]]. unfold IndexSane. rewrite E1. repeat split; try assumption;
      apply H3; eapply Permutation_in; eauto.
  Qed.

  (* the guard of SerialHugrS.v makes increasing index order such an order *)
  Lemma live_admissible (h : hugr) : OrderAdmissible h (live h).
  Proof.
    rewrite (live_lives op md). split.
    - unfold lives. apply NoDup_filter, seq_NoDup.
    - intros i. apply (lives_In op md md_nil md_is_nil).
  Qed.
  (* what the monitor's admissibility test establishes *)
  Lemma order_admissible_b_sound (h : hugr) L : order_admissible_b h L = true -> OrderAdmissible h L.
  Proof.
    unfold order_admissible_b. intros H. apply (perm_eqb_sound' Nat.eqb (fun a b => proj1 (Nat.eqb_eq a b))) in H.
    destruct (live_admissible h) as [Hnd HL]. rewrite (live_lives op md) in Hnd, HL. split.
    - eapply Permutation_NoDup; [apply Permutation_sym; exact H|exact Hnd].
    - intros i. rewrite <- HL. split; intros Hi; [exact (Permutation_in i H Hi)|exact (Permutation_in i (Permutation_sym H) Hi)].
  Qed.
End GenProofs.

(* ------------------------------------------------------------------ non-vacuity *)
Module GenWitness.
  Import Witness.
  (* A. the index-reuse witness of SerialHugrP.v (node 1 is a child of node 2; listed by index its document is not
     index-sane and does not load) listed in hierarchy order [0; 2; 1]: the premises of serial_in_sane hold, the
     document is index-sane and loads *)
  Lemma reuse_child_hierarchy_order :
    order_admissible_b reuse_child [0; 2; 1] = true /\ order_ok_b reuse_child [0; 2; 1] = true /\
    ports_exist_b vports sports has_order reuse_child = true /\
    exists s h', to_serial_in enc ndp md_is_nil [0; 2; 1] reuse_child = Some s /\ index_sane_b s = true /\
                 map (@s_parent nat) (s_nodes s) = [0; 0; 1] /\ from_s s = Some h'.
  Proof. split; [reflexivity|]. split; [reflexivity|]. split; [reflexivity|]. eexists. eexists. vm_compute. repeat split. Qed.
  Lemma good_index_order :
    order_ok_b good (live good) = true /\ to_serial_in enc ndp md_is_nil (live good) good = to_s good.
  Proof. split; reflexivity. Qed.

  (* B. a presentation: the edges array reversed, the metadata table null when no node has metadata *)
  Definition all_none (l : list (option nat)) : bool := forallb (fun e => match e with None => true | Some _ => false end) l.
  Definition pres_ex (s : serial nat nat) : serial nat nat :=
    {| s_nodes := s_nodes s; s_edges := rev (s_edges s);
       s_meta := match s_meta s with Some l => if all_none l then None else Some l | None => None end |}.
  Lemma pres_ex_same s : SameDoc 0 (pres_ex s) s.
  Proof.
    split; [reflexivity|]. split; [apply Permutation_sym, Permutation_rev|]. intros j _.
    unfold meta_at, pres_ex. cbn [s_meta]. destruct (s_meta s) as [l|]; [|reflexivity].
    destruct (all_none l) eqn:E; [|reflexivity]. destruct (nth_error l j) as [[m|]|] eqn:En; try reflexivity.
    unfold all_none in E. rewrite forallb_forall in E. specialize (E _ (nth_error_In _ _ En)). discriminate.
  Qed.
  Lemma presentation_example :
    exists s h', to_serial_p enc ndp md_is_nil pres_ex good = Some s /\
                 s_edges s = [((1, Some 1), (2, Some 1)); ((1, Some 0), (2, Some 0))] /\
                 from_s s = Some h' /\ h_links h' = [((1, AOrder), (2, AOrder)); ((1, APort 0), (2, APort 0))].
  Proof. eexists. eexists. vm_compute. repeat split. Qed.
  Definition no_md : hugr nat nat :=
    {| h_nodes := [Some (nd 10 None [1] 0); Some (nd 11 (Some 0) [] 0)]; h_root := 0; h_links := [] |}.
  Lemma null_metadata_example :
    exists s h', to_serial_p enc ndp md_is_nil pres_ex no_md = Some s /\ s_meta s = None /\
                 from_s s = Some h' /\ to_serial_p enc ndp md_is_nil pres_ex h' = Some s.
  Proof. eexists. eexists. vm_compute. repeat split. Qed.
End GenWitness.
