(* Proofs for C05, type layer: round trips of TypeParam / Type / TypeArg / FunctionType / PolyFuncType
   through the serial models, normal forms, sugar equalities, and the converse for foreign serial terms. *)
From Coq Require Import NArith List Bool Arith Lia.
Import ListNotations.
From HV Require Import lib.Harness model.Types model.SerialTypes model.Codec spec.CodecS.

(* ---------- list helpers ---------- *)
Lemma map_ext_ok {A B} (ok : A -> bool) (f g : A -> B) l :
  Forall (fun x => ok x = true -> f x = g x) l -> forallb ok l = true -> map f l = map g l.
Proof.
  induction 1 as [|x r Hx _ IH]; cbn; [reflexivity|]. intros H. apply andb_prop in H as [H1 H2].
  rewrite (Hx H1), (IH H2). reflexivity.
Qed.
Lemma map_ext_F {A B} (f g : A -> B) l : Forall (fun x => f x = g x) l -> map f l = map g l.
Proof. induction 1 as [|x r Hx _ IH]; cbn; congruence. Qed.
Lemma map_id_F {A} (f : A -> A) l : Forall (fun x => f x = x) l -> map f l = l.
Proof. induction 1 as [|x r Hx _ IH]; cbn; congruence. Qed.
Lemma mapmap_ext_ok {A B} (ok : A -> bool) (f g : A -> B) l :
  Forall (Forall (fun x => ok x = true -> f x = g x)) l -> forallb (forallb ok) l = true ->
  map (map f) l = map (map g) l.
Proof.
  induction 1 as [|x r Hx _ IH]; cbn; [reflexivity|]. intros H. apply andb_prop in H as [H1 H2].
  rewrite (map_ext_ok ok f g x Hx H1), (IH H2). reflexivity.
Qed.
Lemma Forall_impl_ok {A} (ok : A -> bool) (P Q : A -> Prop) l :
  (forall x, P x -> Q x) -> Forall (fun x => ok x = true -> P x) l -> Forall (fun x => ok x = true -> Q x) l.
Proof. intros H. induction 1; constructor; auto. Qed.
Lemma Forall2_map_ok {A} (ok : A -> bool) (R : A -> A -> Prop) (f : A -> A) l :
  Forall (fun x => ok x = true -> R x (f x)) l -> forallb ok l = true -> Forall2 R l (map f l).
Proof.
  induction 1 as [|x r Hx _ IH]; cbn; [constructor|]. intros H. apply andb_prop in H as [H1 H2].
  constructor; auto.
Qed.

(* ---------- TypeParam ---------- *)
Lemma param_roundtrip : forall p, param_deserialize (param_to_serial p) = p.
Proof.
  induction p as [b|ub| |p IH|ps IH| ] using typaram_ind2; cbn; try reflexivity.
  - now rewrite IH.
  - rewrite map_map, (map_id_F _ ps IH). reflexivity.
Qed.
Lemma param_reserial : forall s, param_to_serial (param_deserialize s) = s.
Proof.
  induction s as [b|ub| |p IH|ps IH| ] using stparam_ind2; cbn; try reflexivity.
  - now rewrite IH.
  - rewrite map_map, (map_id_F _ ps IH). reflexivity.
Qed.

(* ---------- the bound of a sum, unfolded ---------- *)
Fixpoint row_b (l : list ty) : option (list bound) :=
  match l with
  | [] => Some []
  | x :: r => match tbound x, row_b r with Some b, Some bs => Some (b :: bs) | _, _ => None end
  end.
Fixpoint rows_b (l : list (list ty)) : option (list bound) :=
  match l with
  | [] => Some []
  | x :: r => match row_b x, rows_b r with Some b, Some bs => Some (b ++ bs) | _, _ => None end
  end.
Lemma tbound_sum rs : tbound (TSum rs) = match rows_b rs with Some bs => Some (join bs) | None => None end.
Proof.
  cbn [tbound].
  match goal with |- match ?X with _ => _ end = _ => assert (E : X = rows_b rs) end; [|now rewrite E].
  induction rs as [|x r IH]; [reflexivity|]. cbn [rows_b]. rewrite <- IH.
  match goal with |- match ?Y with _ => _ end = _ => assert (E : Y = row_b x) end; [|now rewrite E].
  clear. induction x as [|y s IH]; [reflexivity|]. cbn [row_b]. rewrite <- IH. reflexivity.
Qed.
Lemma row_b_ext (f : ty -> ty) l : Forall (fun x => tbound (f x) = tbound x) l -> row_b (map f l) = row_b l.
Proof. induction 1 as [|x r Hx _ IH]; cbn; [reflexivity|]. now rewrite Hx, IH. Qed.
Lemma rows_b_ext (f : ty -> ty) l :
  Forall (Forall (fun x => tbound (f x) = tbound x)) l -> rows_b (map (map f) l) = rows_b l.
Proof. induction 1 as [|x r Hx _ IH]; cbn; [reflexivity|]. now rewrite (row_b_ext f x Hx), IH. Qed.
Lemma rows_b_unit n : rows_b (repeat [] n) = Some [].
Proof. induction n; cbn; [reflexivity|]. now rewrite IHn. Qed.
Lemma Forall_ok_drop {A} (ok : A -> bool) (P : A -> Prop) l :
  Forall (fun x => ok x = true -> P x) l -> forallb ok l = true -> Forall P l.
Proof.
  induction 1 as [|x r Hx _ IH]; cbn; [constructor|]. intros H. apply andb_prop in H as [H1 H2]. constructor; auto.
Qed.
Lemma Forall2_ok_drop {A} (ok : A -> bool) (P : A -> Prop) l :
  Forall (Forall (fun x => ok x = true -> P x)) l -> forallb (forallb ok) l = true -> Forall (Forall P) l.
Proof.
  induction 1 as [|x r Hx _ IH]; cbn; [constructor|]. intros H. apply andb_prop in H as [H1 H2].
  constructor; [eapply Forall_ok_drop; eauto|auto].
Qed.

(* ---------- decode-after-encode and re-encode, unconditionally (they hold even where the Python raises) ---------- *)
Lemma map_AB {A B} (f : A -> B) (g : B -> A) (n : A -> A) l :
  Forall (fun x => g (f x) = n x /\ f (n x) = f x) l -> map g (map f l) = map n l /\ map f (map n l) = map f l.
Proof. induction 1 as [|x r [Hx Hx'] _ [IH IH']]; cbn; [now split|]. now rewrite Hx, Hx', IH, IH'. Qed.
Lemma ty_AB : forall t, ty_deserialize (ty_to_serial t) = ty_nf t /\ ty_to_serial (ty_nf t) = ty_to_serial t.
Proof.
  intro t. induction t using ty_ind2 with
    (Q := fun a => arg_deserialize (arg_to_serial a) = arg_nf a /\ arg_to_serial (arg_nf a) = arg_to_serial a);
    cbn [ty_to_serial ty_nf ty_deserialize arg_to_serial arg_nf arg_deserialize]; rewrite ?Nnat.Nat2N.id; try (split; reflexivity).
  - assert (E : map (map ty_deserialize) (map (map ty_to_serial) rows) = map (map ty_nf) rows /\
                map (map ty_to_serial) (map (map ty_nf) rows) = map (map ty_to_serial) rows).
    { induction H as [|l r Hl _ [IH IH']]; cbn; [now split|]. destruct (map_AB _ _ _ l Hl) as [A B]. now rewrite A, B, IH, IH'. }
    destruct E as [A B]. now rewrite A, B.
  - destruct (map_AB _ _ _ i H) as [A B], (map_AB _ _ _ o H0) as [A' B']. now rewrite A, B, A', B'.
  - destruct (map_AB _ _ _ i H) as [A B], (map_AB _ _ _ o H0) as [A' B']. now rewrite A, B, A', B'.
  - destruct (map_AB _ _ _ args H) as [A B]. now rewrite A, B.
  - destruct (map_AB _ _ _ args H) as [A B]. now rewrite A, B.
  - destruct IHt as [A B]. now rewrite A, B.
  - destruct (map_AB _ _ _ l H) as [A B]. now rewrite A, B.
  - now rewrite param_roundtrip.
Qed.
Lemma arg_AB : forall a, arg_deserialize (arg_to_serial a) = arg_nf a /\ arg_to_serial (arg_nf a) = arg_to_serial a.
Proof. intro a. destruct (ty_AB (TOpaque 0%N 0%N [a] Copyable)) as [A B]. cbn in A, B. split; congruence. Qed.
Lemma row_AB l : map ty_deserialize (map ty_to_serial l) = map ty_nf l /\ map ty_to_serial (map ty_nf l) = map ty_to_serial l.
Proof. apply map_AB, Forall_forall. intros x _. apply ty_AB. Qed.
Lemma rows_AB l : map (map ty_deserialize) (map (map ty_to_serial) l) = map (map ty_nf) l /\
                  map (map ty_to_serial) (map (map ty_nf) l) = map (map ty_to_serial) l.
Proof. induction l as [|x r [IH IH']]; cbn; [now split|]. destruct (row_AB x) as [A B]. now rewrite A, B, IH, IH'. Qed.
Lemma args_AB l : map arg_deserialize (map arg_to_serial l) = map arg_nf l /\ map arg_to_serial (map arg_nf l) = map arg_to_serial l.
Proof. apply map_AB, Forall_forall. intros x _. apply arg_AB. Qed.
Lemma func_AB f : func_deserialize (func_to_serial f) = func_nf f /\ func_to_serial (func_nf f) = func_to_serial f.
Proof.
  destruct f as [i o r]. unfold func_deserialize, func_to_serial, func_nf. cbn.
  destruct (row_AB i) as [A B], (row_AB o) as [A' B']. now rewrite A, B, A', B'.
Qed.

(* ---------- Type / TypeArg: the round trip ---------- *)
Definition ty_rt (t : ty) : Prop :=
  ty_deserialize (ty_to_serial t) = ty_nf t /\ ty_to_serial (ty_nf t) = ty_to_serial t /\
  tbound (ty_nf t) = tbound t /\ OpaqueForm t (ty_nf t).
Definition arg_rt (a : tyarg) : Prop :=
  arg_deserialize (arg_to_serial a) = arg_nf a /\ arg_to_serial (arg_nf a) = arg_to_serial a /\
  OpaqueFormA a (arg_nf a).

Lemma rt_row l : Forall (fun x => ty_ok x = true -> ty_rt x) l -> forallb ty_ok l = true ->
  map ty_deserialize (map ty_to_serial l) = map ty_nf l /\ map ty_to_serial (map ty_nf l) = map ty_to_serial l /\
  row_b (map ty_nf l) = row_b l /\ Forall2 OpaqueForm l (map ty_nf l).
Proof.
  induction 1 as [|x r Hx _ IH]; cbn; [repeat split; constructor|]. intros H. apply andb_prop in H as [H1 H2].
  destruct (Hx H1) as (A & B & C & D). destruct (IH H2) as (A' & B' & C' & D').
  rewrite A, A', B, B', C, C'. repeat split. now constructor.
Qed.
Lemma rt_rows l : Forall (Forall (fun x => ty_ok x = true -> ty_rt x)) l -> forallb (forallb ty_ok) l = true ->
  map (map ty_deserialize) (map (map ty_to_serial) l) = map (map ty_nf) l /\
  map (map ty_to_serial) (map (map ty_nf) l) = map (map ty_to_serial) l /\
  rows_b (map (map ty_nf) l) = rows_b l /\ Forall2 (Forall2 OpaqueForm) l (map (map ty_nf) l).
Proof.
  induction 1 as [|x r Hx _ IH]; cbn; [repeat split; constructor|]. intros H. apply andb_prop in H as [H1 H2].
  destruct (rt_row x Hx H1) as (A & B & C & D). destruct (IH H2) as (A' & B' & C' & D').
  rewrite A, A', B, B', C, C'. repeat split. now constructor.
Qed.
Lemma rt_args l : Forall (fun x => targ_ok x = true -> arg_rt x) l -> forallb targ_ok l = true ->
  map arg_deserialize (map arg_to_serial l) = map arg_nf l /\ map arg_to_serial (map arg_nf l) = map arg_to_serial l /\
  Forall2 OpaqueFormA l (map arg_nf l).
Proof.
  induction 1 as [|x r Hx _ IH]; cbn; [repeat split; constructor|]. intros H. apply andb_prop in H as [H1 H2].
  destruct (Hx H1) as (A & B & D). destruct (IH H2) as (A' & B' & D').
  rewrite A, A', B, B'. repeat split. now constructor.
Qed.

Lemma ty_roundtrip_all : forall t, ty_ok t = true -> ty_rt t.
Proof.
  intro t. induction t using ty_ind2 with (Q := fun a => targ_ok a = true -> arg_rt a);
    intro OK; cbn [ty_ok targ_ok] in OK.
  - (* TSum *)
    destruct (rt_rows rows H OK) as (A & B & C & D). unfold ty_rt. cbn [ty_to_serial ty_nf ty_deserialize].
    rewrite A, B, !tbound_sum, C. repeat split. now constructor.
  - unfold ty_rt; cbn. rewrite Nnat.Nat2N.id. repeat split; constructor.
  - unfold ty_rt; cbn. rewrite Nnat.Nat2N.id. repeat split; constructor.
  - unfold ty_rt; cbn. rewrite Nnat.Nat2N.id. repeat split; constructor.
  - unfold ty_rt; cbn. repeat split; constructor.
  - unfold ty_rt; cbn. repeat split; constructor.
  - unfold ty_rt; cbn. repeat split; constructor.
  - (* TFunc *)
    apply andb_prop in OK as [O1 O2].
    destruct (rt_row i H O1) as (A & B & _ & D). destruct (rt_row o H0 O2) as (A' & B' & _ & D').
    unfold ty_rt. cbn [ty_to_serial ty_nf ty_deserialize tbound]. rewrite A, A', B, B'. repeat split. now constructor.
  - discriminate.
  - (* TOpaque *)
    destruct (rt_args args H OK) as (A & B & D).
    unfold ty_rt. cbn [ty_to_serial ty_nf ty_deserialize tbound]. rewrite A, B. repeat split. now constructor.
  - (* TExt *)
    apply andb_prop in OK as [OK OKb]. destruct (tbound (TExt d args c)) as [b|] eqn:Eb; [|discriminate].
    destruct (rt_args args H OK) as (A & B & D).
    unfold ty_rt. cbn [ty_to_serial ty_nf ty_deserialize]. rewrite Eb. cbn [bound_or_any tbound]. rewrite A, B.
    repeat split. now constructor.
  - (* AType *) destruct (IHt OK) as (A & B & C & D). unfold arg_rt; cbn. rewrite A, B. repeat split. now constructor.
  - unfold arg_rt; cbn; repeat split; constructor.
  - unfold arg_rt; cbn; repeat split; constructor.
  - (* ASeq *)
    destruct (rt_args l H OK) as (A & B & D). unfold arg_rt. cbn [arg_to_serial arg_nf arg_deserialize].
    rewrite A, B. repeat split. now constructor.
  - unfold arg_rt; cbn; repeat split; constructor.
  - unfold arg_rt; cbn. rewrite Nnat.Nat2N.id, param_roundtrip. repeat split; constructor.
Qed.

Lemma arg_roundtrip_all : forall a, targ_ok a = true -> arg_rt a.
Proof.
  intros a OK. assert (OK' : ty_ok (TOpaque 0%N 0%N [a] Copyable) = true) by (cbn; now rewrite OK).
  destruct (ty_roundtrip_all _ OK') as (A & B & _ & D). cbn in A, B.
  unfold arg_rt. repeat split; [congruence|congruence|].
  inversion D as [| | | | | | | | |e id x x' b F| ]; subst. now inversion F.
Qed.

(* ---------- core types come back identical ---------- *)
Lemma map_id_FP {A} (P : A -> Prop) (f : A -> A) l : Forall (fun x => P x -> f x = x) l -> Forall P l -> map f l = l.
Proof. induction 1 as [|x r Hx _ IH]; cbn; [reflexivity|]. intro F. inversion F; subst. now rewrite Hx, IH. Qed.
Lemma mapmap_id_FP {A} (P : A -> Prop) (f : A -> A) l :
  Forall (Forall (fun x => P x -> f x = x)) l -> Forall (Forall P) l -> map (map f) l = l.
Proof.
  induction 1 as [|x r Hx _ IH]; cbn; [reflexivity|]. intro F. inversion F; subst.
  now rewrite (map_id_FP P f x), IH.
Qed.
Lemma core_nf_id : forall t, Core t -> ty_nf t = t.
Proof.
  intro t. induction t using ty_ind2 with (Q := fun a => CoreA a -> arg_nf a = a); intro C; inversion C; subst; cbn;
    try reflexivity.
  - f_equal. eapply mapmap_id_FP; eassumption.
  - f_equal; eapply map_id_FP; eassumption.
  - f_equal; eapply map_id_FP; eassumption.
  - now rewrite IHt.
  - f_equal; eapply map_id_FP; eassumption.
Qed.

(* ---------- converse: a serial term that did not come from this library ---------- *)
Lemma ty_reserial_all : forall s, ty_to_serial (ty_deserialize s) = s /\ ty_ok (ty_deserialize s) = true.
Proof.
  intro s. induction s using sty_ind2 with
    (Q := fun a => arg_to_serial (arg_deserialize a) = a /\ targ_ok (arg_deserialize a) = true); cbn;
    rewrite ?Nnat.N2Nat.id; try (split; reflexivity).
  - assert (A : map ty_to_serial (map ty_deserialize i) = i /\ forallb ty_ok (map ty_deserialize i) = true)
      by (clear - H; induction H as [|x r [Hx Hx'] _ [IH IH']]; cbn; [now split|]; now rewrite Hx, Hx', IH, IH').
    assert (B : map ty_to_serial (map ty_deserialize o) = o /\ forallb ty_ok (map ty_deserialize o) = true)
      by (clear - H0; induction H0 as [|x r [Hx Hx'] _ [IH IH']]; cbn; [now split|]; now rewrite Hx, Hx', IH, IH').
    destruct A as [A A'], B as [B B']. now rewrite A, A', B, B'.
  - assert (A : map (map ty_to_serial) (map (map ty_deserialize) rows) = rows /\
                forallb (forallb ty_ok) (map (map ty_deserialize) rows) = true).
    { clear - H. induction H as [|l r Hl _ [IH IH']]; cbn; [now split|]. rewrite IH, IH'.
      assert (A : map ty_to_serial (map ty_deserialize l) = l /\ forallb ty_ok (map ty_deserialize l) = true)
        by (clear - Hl; induction Hl as [|x r [Hx Hx'] _ [IH IH']]; cbn; [now split|]; now rewrite Hx, Hx', IH, IH').
      destruct A as [A A']. now rewrite A, A'. }
    destruct A as [A A']. now rewrite A, A'.
  - assert (A : map arg_to_serial (map arg_deserialize a) = a /\ forallb targ_ok (map arg_deserialize a) = true)
      by (clear - H; induction H as [|x r [Hx Hx'] _ [IH IH']]; cbn; [now split|]; now rewrite Hx, Hx', IH, IH').
    destruct A as [A A']. now rewrite A, A'.
  - destruct IHs as [A A']. now rewrite A, A'.
  - assert (A : map arg_to_serial (map arg_deserialize l) = l /\ forallb targ_ok (map arg_deserialize l) = true)
      by (clear - H; induction H as [|x r [Hx Hx'] _ [IH IH']]; cbn; [now split|]; now rewrite Hx, Hx', IH, IH').
    destruct A as [A A']. now rewrite A, A'.
  - now rewrite param_reserial.
Qed.
Lemma arg_reserial_all : forall a, arg_to_serial (arg_deserialize a) = a /\ targ_ok (arg_deserialize a) = true.
Proof.
  intro a. destruct (ty_reserial_all (SOpaque 0%N 0%N [a] Copyable)) as [A B]. cbn in A, B.
  split; [congruence|]. now rewrite andb_true_r in B.
Qed.
Lemma row_reserial l : map ty_to_serial (map ty_deserialize l) = l /\ forallb ty_ok (map ty_deserialize l) = true.
Proof.
  induction l as [|x r [IH IH']]; cbn; [now split|]. destruct (ty_reserial_all x) as [A B]. now rewrite A, B, IH, IH'.
Qed.
Lemma params_roundtrip l : map param_deserialize (map param_to_serial l) = l.
Proof. induction l; cbn; [reflexivity|]. now rewrite param_roundtrip, IHl. Qed.
Lemma params_reserial l : map param_to_serial (map param_deserialize l) = l.
Proof. induction l; cbn; [reflexivity|]. now rewrite param_reserial, IHl. Qed.

(* ---------- FunctionType / PolyFuncType as classes of their own ---------- *)
Lemma row_roundtrip l : forallb ty_ok l = true ->
  map ty_deserialize (map ty_to_serial l) = map ty_nf l /\ map ty_to_serial (map ty_nf l) = map ty_to_serial l.
Proof.
  intro OK. destruct (rt_row l) as (A & B & _); [|assumption|now split].
  apply Forall_forall. intros x _. apply ty_roundtrip_all.
Qed.
Lemma func_roundtrip f : func_ok f = true ->
  func_deserialize (func_to_serial f) = func_nf f /\ func_to_serial (func_nf f) = func_to_serial f.
Proof.
  destruct f as [i o r]. unfold func_ok, func_deserialize, func_to_serial, func_nf. cbn. intro OK.
  apply andb_prop in OK as [O1 O2]. destruct (row_roundtrip i O1) as [A B], (row_roundtrip o O2) as [A' B'].
  now rewrite A, A', B, B'.
Qed.
Lemma poly_roundtrip p : func_ok (pt_body p) = true ->
  poly_deserialize (poly_to_serial p) = poly_nf p /\ poly_to_serial (poly_nf p) = poly_to_serial p.
Proof.
  destruct p as [ps f]. unfold poly_deserialize, poly_to_serial, poly_nf. cbn. intro OK.
  destruct (func_roundtrip f OK) as [A B]. now rewrite A, B, params_roundtrip.
Qed.
Lemma func_reserial s : func_to_serial (func_deserialize s) = s.
Proof.
  destruct s as [i o r]. unfold func_to_serial, func_deserialize. cbn.
  destruct (row_reserial i) as [A _], (row_reserial o) as [B _]. now rewrite A, B.
Qed.
Lemma poly_reserial s : poly_to_serial (poly_deserialize s) = s.
Proof. destruct s as [ps f]. unfold poly_to_serial, poly_deserialize. cbn. now rewrite func_reserial, params_reserial. Qed.

(* ---------- sugar: Tuple / Option / Either / UnitSum against the general Sum ---------- *)
Lemma tbound_unit_rows n : tbound (TSum (repeat [] n)) = Some Copyable.
Proof. rewrite tbound_sum, rows_b_unit. reflexivity. Qed.
Lemma canon_unit_rows n : map (map ty_canon) (repeat [] n) = repeat [] n.
Proof. induction n; cbn; congruence. Qed.
Lemma sugar_eq_all : forall s,
  variant_rows (sugar_ty s) = Some (sugar_rows s) /\
  ty_canon (sugar_ty s) = ty_canon (TSum (sugar_rows s)) /\            (* Python == *)
  tbound (sugar_ty s) = tbound (TSum (sugar_rows s)) /\                (* same bound *)
  match s with SgUnitSum _ => True | _ => sugar_ty s = TSum (sugar_rows s) end.   (* same type, same encoding *)
Proof.
  intros [l|l|l r|n]; cbn [sugar_ty sugar_rows variant_rows]; repeat split.
  - cbn. now rewrite canon_unit_rows.
  - now rewrite tbound_unit_rows.
Qed.

(* ---------- non-vacuity ---------- *)
Example ty_roundtrip_example :
  let d := {| td_ext := 7%N; td_name := 8%N; td_descr := 9%N; td_params := [PType Any]; td_bound := FromParams [0] |} in
  let t := TSum [[TExt d [AType TQubit] Generic; TUnitSum 2]; []] in
  ty_ok t = true /\ ty_nf t = TSum [[TOpaque 7 8 [AType TQubit] Any; TUnitSum 2]; []]%N /\ ty_nf t <> t.
Proof. cbn. repeat split. discriminate. Qed.
