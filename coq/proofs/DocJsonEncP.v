(* C03 -- schema validity of Package documents for ANY `encoder` member of the modules (model/DocJsonEnc.v): the
   generalisation of proofs/DocJsonP.v pkg_accepted / proofs/DocJsonSchemasP.v published_*_pkg_accepted, which fix
   "encoder": null.  (doc_accepted already holds for every encoder and every serial document, whatever the order of its
   edges and the writing of its metadata table.) *)
From Coq Require Import List Bool Arith String ZArith Lia.
Import ListNotations.
From HV Require Import lib.Harness model.Schema model.SchemaStrip model.SerialHugr model.DocJson model.DocJsonEnc model.NodeParent
  proofs.SchemaP proofs.SchemaStripP proofs.DocJsonP proofs.NodeParentP proofs.DataEquivP proofs.DocJsonSchemasP gen.Schemas.
Open Scope string_scope.
Open Scope nat_scope.

Lemma pkg_json_e_none {sop md} (op_fields : sop -> obj) (md_fields : md -> obj) (mods : list (serial sop md)) exts :
  pkg_json_e op_fields md_fields (map (fun s => (None, s)) mods) exts = pkg_json op_fields md_fields mods exts.
Proof. unfold pkg_json_e, pkg_json. now rewrite map_map. Qed.

Section File.
  Variable root : json.
  Hypothesis Hself : self_equiv root = true.
  Hypothesis Hdoc : def_matches root "SerialHugr" shape_SerialHugr = true.
  Hypothesis Hpkg : def_matches root "Package" shape_Package = true.
  Variables sop md : Type.
  Variable op_fields : sop -> obj.
  Variable md_fields : md -> obj.
  Theorem pkg_e_accepted : forall f (mods : list (option string * serial sop md)) (exts : list json),
    4 <= f -> ops_valid root sop op_fields f ->
    (forall e, In e exts -> accepts (3 + f) root "Extension" e = true) ->
    accepts (6 + f) root "Package" (pkg_json_e op_fields md_fields mods exts) = true.
  Proof.
    intros f mods exts Hf Hop Hext. change (6 + f) with (S (S (S (3 + f)))).
    rewrite (accepts_via_shape _ _ _ _ _ Hpkg Hself). unfold shape_Package, pkg_json_e.
    rewrite validates_S. apply chk_Package.
    - unfold sch_modules, sch_array. rewrite validates_S. apply chk_array_of. apply forallb_map_true. intros m.
      now apply (doc_accepted root Hself Hdoc).
    - unfold sch_extensions, sch_array. rewrite validates_S. apply chk_array_of. apply forallb_forall. exact Hext.
  Qed.
End File.

Section Published.
  Variables sop md : Type.
  Variable op_fields : sop -> obj.
  Variable md_fields : md -> obj.
  Theorem published_pkg_e_accepted : forall (f : nat) (mods : list (option string * serial sop md)) (exts : list json),
    4 <= f -> ops_valid0 published_hugr_strict sop op_fields f ->
    (forall e, In e exts -> accepts (3 + f) published_hugr_strict "Extension" e = true) ->
    accepts (6 + f) published_hugr_strict "Package" (pkg_json_e op_fields md_fields mods exts) = true.
  Proof.
    intros f mods exts Hf Hop He.
    apply (pkg_e_accepted _ strict_self_equiv strict_SerialHugr_shape strict_Package_shape); [exact Hf| |exact He].
    now apply ops_valid0_all; [exact strict_OpType_parent_cert|].
  Qed.
  Theorem published_emitted_pkg_e_accepted : forall (f : nat) (mods : list (option string * serial sop md)) (exts : list json)
      (emitted : json),
    4 <= f -> ops_valid0 published_hugr_strict sop op_fields f ->
    (forall e, In e exts -> accepts (3 + f) published_hugr_strict "Extension" e = true) ->
    data_equiv (pkg_json_e op_fields md_fields mods exts) emitted = true ->
    accepts (6 + f) published_hugr_strict "Package" emitted = true.
  Proof.
    intros f mods exts j Hf Hop He Hj. rewrite <- (accepts_data_equiv _ _ _ _ _ Hj).
    exact (published_pkg_e_accepted f mods exts Hf Hop He).
  Qed.
End Published.
