(* C01 — the tables of the hand-transcribed validator (model/Validity.v) agree with the tables of the Rust sources.

   gen/RustTables.v is regenerated on every run from hugr-core/src/ops/tag.rs, ops.rs, ops/*.rs and hugr/validate.rs by
   harness/translators/rust_tables.py (fail closed).  This file
     1. defines OpTag::is_superset over the regenerated lattice (the Rust recursion, on fuel = number of tags), proves it
        equal to the fuel-free reflexive-transitive closure `Sup`, antisymmetric (the lattice has no cycle: the Rust
        recursion terminates) and insensitive to more fuel;
     2. names, for every operation of Validity.v, the OpType variant(s) it stands for (`rnames`; the only hand-written
        table of this file) and proves every table has a row for each of them, and every OpType variant is modelled;
     3. proves, for ALL operations / pairs of operations / child lists / graphs, that the booleans of Validity.v are the
        ones the regenerated tables give: rule 1 (permitted parent/child pairs), rule 2 (first/second child, containers
        non-empty, inner Input/Output/Exit), which regions must be acyclic, which operations have a dataflow signature,
        an inner signature, a static input/output, "other" ports and how many, where the other port sits, and the tag
        tests the edge rules make.
   Deviations of Validity.v from a reading of the tables alone are explicit in the statements (search "DEVIATION"). *)
From Coq Require Import NArith List Bool Arith String Lia.
Import ListNotations.
From HV Require Import lib.Harness model.Validity gen.RustTables.
Local Open Scope string_scope.

(* ------------------------------------------------------------------ helpers *)
Fixpoint slookup {A} (k : string) (l : list (string * A)) : option A :=
  match l with
  | [] => None
  | (k', v) :: r => if String.eqb k k' then Some v else slookup k r
  end.
Definition smem (x : string) (l : list string) : bool := existsb (String.eqb x) l.

Lemma slookup_In : forall A k (l : list (string * A)) v, slookup k l = Some v -> In (k, v) l.
Proof.
  induction l as [|[k' v'] r IH]; cbn; intros v H; [discriminate|].
  destruct (String.eqb k k') eqn:E.
  - apply String.eqb_eq in E. subst. injection H as ->. now left.
  - right. now apply IH.
Qed.
Lemma smem_In : forall x l, smem x l = true <-> In x l.
Proof.
  intros x l. unfold smem. rewrite existsb_exists. split.
  - intros (y & Hy & E). apply String.eqb_eq in E. now subst.
  - intros H. exists x. split; [assumption|apply String.eqb_refl].
Qed.
Lemma forallb_pointwise : forall A (f g : A -> bool) l, (forall x, f x = g x) -> forallb f l = forallb g l.
Proof. intros A f g l H. induction l as [|x r IH]; cbn; [reflexivity|]. now rewrite H, IH. Qed.
Lemma forallb_pointwise_in : forall A (f g : A -> bool) l, (forall x, In x l -> f x = g x) -> forallb f l = forallb g l.
Proof.
  intros A f g l H. induction l as [|x r IH]; cbn; [reflexivity|].
  rewrite H by now left. rewrite IH; [reflexivity|]. intros y Hy. apply H. now right.
Qed.
Lemma forallb_flat_map : forall A B (h : A -> list B) (f : B -> bool) l,
  forallb f (flat_map h l) = forallb (fun x => forallb f (h x)) l.
Proof. intros. induction l as [|x r IH]; cbn; [reflexivity|]. now rewrite forallb_app, IH. Qed.
Lemma rt_in_index_from : forall A (l : list A) k i x,
  In (i, x) (index_from l k) -> exists j, i = (k + N.of_nat j)%N /\ nth_error l j = Some x.
Proof.
  induction l as [|a r IH]; intros k i x H; cbn in H; [contradiction|]. destruct H as [H|H].
  - injection H as <- <-. exists O. split; [cbn; lia|reflexivity].
  - apply IH in H as (j & -> & Hj). exists (S j). split; [lia|exact Hj].
Qed.
Lemma rt_in_indexed : forall A (l : list A) i x, In (i, x) (indexed l) -> nthN l i = Some x.
Proof.
  intros A l i x H. apply rt_in_index_from in H as (j & -> & Hj). unfold nthN.
  replace (N.to_nat (0 + N.of_nat j)) with j by lia. exact Hj.
Qed.
Lemma forallb_map' : forall A B (h : A -> B) (f : B -> bool) l, forallb f (map h l) = forallb (fun x => f (h x)) l.
Proof. intros. induction l as [|x r IH]; cbn; [reflexivity|]. now rewrite IH. Qed.

(* ================================================================== 1. the OpTag lattice *)
(* immediate_supersets *)
Definition imm (t : string) : list string := match slookup t rs_lattice with Some l => l | None => [] end.

(* `a.is_superset(b)` of ops/tag.rs: equal, or a is a superset of one of b's immediate supersets.  The scanner pins the
   text of the Rust function; the recursion is on fuel here. *)
Fixpoint sup_fuel (fuel : nat) (a b : string) : bool :=
  match fuel with
  | O => false
  | S f => String.eqb a b || existsb (sup_fuel f a) (imm b)
  end.
Definition is_superset (a b : string) : bool := sup_fuel (List.length rs_tags) a b.

(* the fuel-free meaning: reflexive-transitive closure of "is an immediate superset of" *)
Inductive Sup (a : string) : string -> Prop :=
| Sup_refl : Sup a a
| Sup_step : forall b p, In p (imm b) -> Sup a p -> Sup a b.

Lemma sup_fuel_S : forall f a b, sup_fuel (S f) a b = String.eqb a b || existsb (sup_fuel f a) (imm b).
Proof. reflexivity. Qed.

Lemma sup_fuel_sound : forall f a b, sup_fuel f a b = true -> Sup a b.
Proof.
  induction f as [|f IH]; intros a b H; [discriminate|].
  rewrite sup_fuel_S in H. apply orb_true_iff in H as [H|H].
  - apply String.eqb_eq in H. subst. constructor.
  - apply existsb_exists in H as (p & Hp & Hs). eapply Sup_step; eauto.
Qed.

Lemma sup_fuel_mono1 : forall f a b, sup_fuel f a b = true -> sup_fuel (S f) a b = true.
Proof.
  induction f as [|f IH]; intros a b H; [discriminate|].
  rewrite sup_fuel_S in H. rewrite sup_fuel_S. apply orb_true_iff in H as [H|H]; apply orb_true_iff; [now left|right].
  apply existsb_exists in H as (p & Hp & Hs). apply existsb_exists. exists p. split; [assumption|now apply IH].
Qed.
Lemma sup_fuel_mono : forall k f a b, sup_fuel f a b = true -> sup_fuel (f + k) a b = true.
Proof.
  induction k as [|k IH]; intros f a b H.
  - now rewrite Nat.add_0_r.
  - rewrite Nat.add_succ_r. apply sup_fuel_mono1. now apply IH.
Qed.

(* the lattice is well formed: tags are distinct, there is exactly one arm per tag (in the order of the enum), every tag
   named in an arm is a tag *)
Definition lattice_wf_b : bool :=
  nodupb String.eqb rs_tags && list_eqb String.eqb (map fst rs_lattice) rs_tags &&
  forallb (fun bl => forallb (fun p => smem p rs_tags) (snd bl)) rs_lattice.
Lemma lattice_wf : lattice_wf_b = true.
Proof. vm_compute. reflexivity. Qed.

Lemma imm_in_tags : forall b p, In p (imm b) -> In p rs_tags.
Proof.
  intros b p H. unfold imm in H. destruct (slookup b rs_lattice) as [l|] eqn:E; [|contradiction].
  apply slookup_In in E. pose proof lattice_wf as W. unfold lattice_wf_b in W.
  apply andb_true_iff in W as [_ W]. rewrite forallb_forall in W. specialize (W _ E). cbn [fst snd] in W.
  rewrite forallb_forall in W. apply smem_In. now apply W.
Qed.

(* the set { b | a.is_superset(b) } computed with fuel = number of tags is closed under "b has an immediate superset in
   the set": checked for every tag a and every arm *)
Definition lattice_closed_b : bool :=
  forallb (fun a => forallb (fun bl => forallb (fun p => implb (is_superset a p) (is_superset a (fst bl))) (snd bl))
                            rs_lattice) rs_tags.
Lemma lattice_closed : lattice_closed_b = true.
Proof. vm_compute. reflexivity. Qed.

Lemma is_superset_refl : forall a, is_superset a a = true.
Proof.
  intros a. unfold is_superset. change (List.length rs_tags) with (S (pred (List.length rs_tags))).
  rewrite sup_fuel_S, String.eqb_refl. reflexivity.
Qed.

Lemma sup_complete : forall a, In a rs_tags -> forall b, Sup a b -> is_superset a b = true.
Proof.
  intros a Ha b H. induction H as [|b p Hp _ IH]; [apply is_superset_refl|].
  unfold imm in Hp. destruct (slookup b rs_lattice) as [l|] eqn:E; [|contradiction].
  apply slookup_In in E. pose proof lattice_closed as C. unfold lattice_closed_b in C.
  rewrite forallb_forall in C. specialize (C a Ha). rewrite forallb_forall in C. specialize (C _ E). cbn [fst snd] in C.
  rewrite forallb_forall in C. specialize (C p Hp). rewrite IH in C. exact C.
Qed.

(* is_superset is the closure, whatever the fuel *)
Theorem is_superset_spec : forall a b, In a rs_tags -> (is_superset a b = true <-> Sup a b).
Proof. intros a b Ha. split; [apply sup_fuel_sound|now apply sup_complete]. Qed.

Theorem is_superset_fuel_enough : forall k a b, In a rs_tags ->
  sup_fuel (List.length rs_tags + k) a b = is_superset a b.
Proof.
  intros k a b Ha. apply eq_true_iff_eq. split; intros H.
  - apply sup_complete; [assumption|]. eapply sup_fuel_sound; eauto.
  - now apply sup_fuel_mono.
Qed.

(* no cycle: two tags that contain each other are equal (so the Rust recursion terminates, and PartialOrd is an order) *)
Definition lattice_antisym_b : bool :=
  forallb (fun a => forallb (fun b => implb (is_superset a b && is_superset b a) (String.eqb a b)) rs_tags) rs_tags.
Lemma lattice_antisym : lattice_antisym_b = true.
Proof. vm_compute. reflexivity. Qed.
Theorem is_superset_antisym : forall a b, In a rs_tags -> In b rs_tags ->
  is_superset a b = true -> is_superset b a = true -> a = b.
Proof.
  intros a b Ha Hb H1 H2. pose proof lattice_antisym as C. unfold lattice_antisym_b in C.
  rewrite forallb_forall in C. specialize (C a Ha). rewrite forallb_forall in C. specialize (C b Hb).
  rewrite H1, H2 in C. cbn in C. now apply String.eqb_eq.
Qed.
Corollary Sup_antisym : forall a b, In a rs_tags -> In b rs_tags -> Sup a b -> Sup b a -> a = b.
Proof. intros a b Ha Hb H1 H2. apply is_superset_antisym; auto using sup_complete. Qed.

(* "Any" is the top, "None" contains nothing else (is_empty) *)
Definition lattice_top_b : bool :=
  forallb (fun b => is_superset "Any" b && (negb (is_superset "None" b) || String.eqb b "None")) rs_tags.
Lemma lattice_top : lattice_top_b = true.
Proof. vm_compute. reflexivity. Qed.

(* ================================================================== 2. operations of Validity.v <-> OpType variants *)
(* The OpType variant an operation of Validity.v stands for.  This is the ONE hand-written table of this file. *)
Definition rname (o : vop) : string :=
  match o with
  | Module => "Module"
  | FuncDefn _ _ _ => "FuncDefn"
  | FuncDecl _ => "FuncDecl"
  | AliasDecl => "AliasDecl"
  | AliasDefn => "AliasDefn"
  | Const _ => "Const"
  | Input _ => "Input"
  | Output _ => "Output"
  | Call _ _ _ => "Call"
  | CallIndirect _ _ _ => "CallIndirect"
  | LoadConst _ => "LoadConstant"
  | LoadFunc _ _ _ _ => "LoadFunction"
  | DFG _ _ => "DFG"
  | CFG _ _ => "CFG"
  | Block _ _ _ _ => "DataflowBlock"
  | ExitB _ => "ExitBlock"
  | Conditional _ _ _ _ => "Conditional"
  | Case _ _ => "Case"
  | TailLoop _ _ _ _ => "TailLoop"
  | Tag _ _ _ => "Tag"
  | ExtOp _ _ => "ExtensionOp"
  end.
(* DEVIATION (documented in Validity.v's header / design.d/C01.md "Not in valid: extension resolution"): ExtOp stands for
   both ExtensionOp and OpaqueOp.  Their rows are identical in every table (vrow_total below); hugr/validate.rs
   validate_node additionally rejects every OpaqueOp (`if let OpType::OpaqueOp(opaque) = op_type { Err(UnresolvedOp) }`),
   which Validity.v does not model. *)
Definition rnames (o : vop) : list string :=
  match o with ExtOp _ _ => ["ExtensionOp"; "OpaqueOp"] | _ => [rname o] end.

Record rrow := {
  rw_tag : string;                 (* OpTrait::tag *)
  rw_allowed : string;             (* validity_flags: allowed_children *)
  rw_first : string;               (*   allowed_first_child *)
  rw_second : string;              (*   allowed_second_child *)
  rw_req_children : bool;          (*   requires_children *)
  rw_req_dag : bool;               (*   requires_dag *)
  rw_edge_check : option string;   (*   edge_check *)
  rw_check : string;               (* which impl supplies validate_op_children *)
  rw_sig : bool;                   (* dataflow_signature is Some *)
  rw_dfparent : bool;              (* implements DataflowParent *)
  rw_static_in : option string;
  rw_static_out : option string;
  rw_other_in : option string;
  rw_other_out : option string;
  rw_cnt_in : string;              (* non_df_port_count(Incoming) *)
  rw_cnt_out : string }.

Definition obind {A B} (x : option A) (f : A -> option B) : option B := match x with Some a => f a | None => None end.
Notation "'olet' x := a 'in' b" := (obind a (fun x => b)) (at level 200, x name, a at level 100, b at level 200).

(* the row of an OpType variant: None as soon as one table lacks it *)
Definition krow (k : string) : option rrow :=
  olet a := slookup k rs_op_tag in
  olet b := slookup k rs_allowed_children in
  olet c := slookup k rs_allowed_first_child in
  olet d := slookup k rs_allowed_second_child in
  olet e := slookup k rs_requires_children in
  olet f := slookup k rs_requires_dag in
  olet g := slookup k rs_edge_check in
  olet h := slookup k rs_children_check in
  olet i := slookup k rs_has_signature in
  olet si := slookup k rs_static_input in
  olet so := slookup k rs_static_output in
  olet oi := slookup k rs_other_input in
  olet oo := slookup k rs_other_output in
  olet ci := slookup k rs_non_df_in in
  olet co := slookup k rs_non_df_out in
  Some {| rw_tag := a; rw_allowed := b; rw_first := c; rw_second := d; rw_req_children := e; rw_req_dag := f;
          rw_edge_check := g; rw_check := h; rw_sig := i; rw_dfparent := smem k rs_dataflow_parents;
          rw_static_in := si; rw_static_out := so; rw_other_in := oi; rw_other_out := oo;
          rw_cnt_in := ci; rw_cnt_out := co |}.

Definition no_row : rrow :=
  {| rw_tag := "?"; rw_allowed := "?"; rw_first := "?"; rw_second := "?"; rw_req_children := false; rw_req_dag := false;
     rw_edge_check := None; rw_check := "?"; rw_sig := false; rw_dfparent := false; rw_static_in := None;
     rw_static_out := None; rw_other_in := None; rw_other_out := None; rw_cnt_in := "?"; rw_cnt_out := "?" |}.
(* the row of an operation of Validity.v (no_row is never used: vrow_total) *)
Definition vrow (o : vop) : rrow := match krow (rname o) with Some r => r | None => no_row end.
Definition vtag (o : vop) : string := rw_tag (vrow o).

(* every table has a row for every variant an operation stands for, and it is the same row *)
Theorem vrow_total : forall o k, In k (rnames o) -> krow k = Some (vrow o).
Proof.
  intros o k H.
  destruct o; cbn [rnames rname] in H;
    repeat (destruct H as [<-|H]; [vm_compute; reflexivity|]); contradiction.
Qed.

(* one operation per constructor *)
Definition all_wits : list vop :=
  [ Module; FuncDefn 0 [] []; FuncDecl 0; AliasDecl; AliasDefn; Const (VExt 0); Input []; Output []; Call 0 [] [];
    CallIndirect [] [] 0; LoadConst 0; LoadFunc 0 [] [] 0; DFG [] []; CFG [] []; Block [] [] [] 0; ExitB [];
    Conditional [] [] [] 0; Case [] []; TailLoop [] [] [] 0; Tag 0 [] 0; ExtOp [] [] ]%N.
Definition wit (o : vop) : vop :=
  match o with
  | Module => Module | FuncDefn _ _ _ => FuncDefn 0 [] [] | FuncDecl _ => FuncDecl 0 | AliasDecl => AliasDecl
  | AliasDefn => AliasDefn | Const _ => Const (VExt 0) | Input _ => Input [] | Output _ => Output []
  | Call _ _ _ => Call 0 [] [] | CallIndirect _ _ _ => CallIndirect [] [] 0 | LoadConst _ => LoadConst 0
  | LoadFunc _ _ _ _ => LoadFunc 0 [] [] 0 | DFG _ _ => DFG [] [] | CFG _ _ => CFG [] []
  | Block _ _ _ _ => Block [] [] [] 0 | ExitB _ => ExitB [] | Conditional _ _ _ _ => Conditional [] [] [] 0
  | Case _ _ => Case [] [] | TailLoop _ _ _ _ => TailLoop [] [] [] 0 | Tag _ _ _ => Tag 0 [] 0
  | ExtOp _ _ => ExtOp [] []
  end%N.
Lemma wit_in : forall o, In (wit o) all_wits.
Proof. destruct o; cbn; repeat (first [left; reflexivity | right]). Qed.
Lemma rname_wit : forall o, rname (wit o) = rname o.
Proof. destruct o; reflexivity. Qed.
Lemma vrow_wit : forall o, vrow (wit o) = vrow o.
Proof. intros o. unfold vrow. now rewrite rname_wit. Qed.
Lemma vtag_wit : forall o, vtag (wit o) = vtag o.
Proof. intros o. unfold vtag. now rewrite vrow_wit. Qed.

(* every variant of enum OpType is modelled by an operation of Validity.v, and nothing else is *)
Definition optypes_covered_b : bool :=
  forallb (fun k => existsb (fun o => smem k (rnames o)) all_wits) rs_optypes &&
  forallb (fun o => forallb (fun k => smem k rs_optypes) (rnames o)) all_wits &&
  nodupb String.eqb (flat_map rnames all_wits).
Lemma optypes_covered : optypes_covered_b = true.
Proof. vm_compute. reflexivity. Qed.
Theorem optypes_modelled : forall k, In k rs_optypes -> exists o, In k (rnames o).
Proof.
  intros k H. pose proof optypes_covered as C. unfold optypes_covered_b in C.
  apply andb_true_iff in C as [C _]. apply andb_true_iff in C as [C _].
  rewrite forallb_forall in C. specialize (C k H). apply existsb_exists in C as (o & _ & Ho).
  exists o. now apply smem_In.
Qed.
Theorem rnames_are_optypes : forall o k, In k (rnames o) -> In k rs_optypes.
Proof.
  intros o k H. pose proof optypes_covered as C. unfold optypes_covered_b in C.
  apply andb_true_iff in C as [C _]. apply andb_true_iff in C as [_ C].
  rewrite forallb_forall in C. specialize (C (wit o) (wit_in o)). rewrite forallb_forall in C.
  apply smem_In. apply C. destruct o; exact H.
Qed.
(* the tags and flag tags of every row are tags of the lattice *)
Definition rows_in_lattice_b : bool :=
  forallb (fun o => let r := vrow o in
                    smem (rw_tag r) rs_tags && smem (rw_allowed r) rs_tags && smem (rw_first r) rs_tags &&
                    smem (rw_second r) rs_tags) all_wits &&
  smem rs_static_input_tag rs_tags && smem rs_dom_parent_tag rs_tags && smem rs_unconnected_ok_tag rs_tags.
Lemma rows_in_lattice : rows_in_lattice_b = true.
Proof. vm_compute. reflexivity. Qed.
Theorem flag_tags_in_lattice : forall o,
  In (vtag o) rs_tags /\ In (rw_allowed (vrow o)) rs_tags /\ In (rw_first (vrow o)) rs_tags /\ In (rw_second (vrow o)) rs_tags.
Proof.
  intros o. pose proof rows_in_lattice as C. unfold rows_in_lattice_b in C.
  do 3 (apply andb_true_iff in C as [C _]). rewrite forallb_forall in C. specialize (C (wit o) (wit_in o)).
  cbv zeta in C. rewrite vrow_wit in C. unfold vtag.
  apply andb_true_iff in C as [C H4]. apply andb_true_iff in C as [C H3]. apply andb_true_iff in C as [H1 H2].
  repeat split; now apply smem_In.
Qed.

(* ================================================================== 3a. rule 1: permitted parent/child pairs *)
Lemma allowed_child_wit : forall p c, allowed_child p c = allowed_child (wit p) (wit c).
Proof. destruct p, c; reflexivity. Qed.
Definition allowed_b : bool :=
  forallb (fun p => forallb (fun c => Bool.eqb (allowed_child p c) (is_superset (rw_allowed (vrow p)) (vtag c))) all_wits)
          all_wits.
Lemma allowed_ok : allowed_b = true.
Proof. vm_compute. reflexivity. Qed.

(* hugr/validate.rs validate_node: `parent_optype.validity_flags().allowed_children.is_superset(op_type.tag())`.
   For every pair of operations, no exception: in particular "FuncDecl only under Module" and "Const/FuncDefn/Alias
   under Module, dataflow parents and CFG" are what the lattice of tag.rs gives. *)
Theorem allowed_child_matches : forall p c,
  allowed_child p c = is_superset (rw_allowed (vrow p)) (vtag c).
Proof.
  intros p c. rewrite allowed_child_wit, <- (vrow_wit p), <- (vtag_wit c).
  pose proof allowed_ok as C. unfold allowed_b in C.
  rewrite forallb_forall in C. specialize (C _ (wit_in p)). rewrite forallb_forall in C. specialize (C _ (wit_in c)).
  now apply eqb_prop.
Qed.

(* the whole rule, for every graph *)
Theorem r_child_tags_matches : forall g,
  r_child_tags g =
  forallb (fun x => (fst x =? 0)%N ||
                    match op_of g (n_parent (snd x)) with
                    | Some p => is_superset (rw_allowed (vrow p)) (vtag (n_op (snd x)))
                    | None => false
                    end) (indexed (g_nodes g)).
Proof.
  intros g. unfold r_child_tags. apply forallb_pointwise. intros x.
  destruct (op_of g (n_parent (snd x))); [now rewrite allowed_child_matches|reflexivity].
Qed.

(* ================================================================== 3b. rule 2: children of a node *)
(* What hugr/validate.rs validate_children and ops/validate.rs validate_op_children decide from the tags ts of the
   children (in order), given the row r of the parent:
     no children:   ContainerWithoutChildren iff requires_children;
     children:      NonContainerWithChildren iff allowed_children.is_empty() (= OpTag::None);
                    the first child's tag must be in allowed_first_child, the second's (if any) in allowed_second_child;
                    validate_op_children of DataflowParent (validate_io_nodes) rejects a tag of rs_internal_io_tags after
                    the second child, that of CFG rejects a tag of rs_internal_exit_tags there;
     DEVIATION made explicit: both of these take `children.next().unwrap()` twice (ops/validate.rs, first lines of
                    validate_io_nodes and of CFG::validate_op_children): a single child panics, i.e. is not accepted;
                    `inner` is false then.  The row/arity conditions of the three children checks are rule 3 (r_io_rows).
   None = a check name the tables do not know. *)
Definition r_children_ok (r : rrow) (ts : list string) : option bool :=
  match ts with
  | [] => Some (negb (rw_req_children r))
  | a :: rest =>
      let flags_ok := negb (String.eqb (rw_allowed r) "None") && is_superset (rw_first r) a &&
                      match rest with [] => true | b :: _ => is_superset (rw_second r) b end in
      let inner := fun bad : list string =>
                     match rest with [] => false | _ :: rest' => forallb (fun t => negb (smem t bad)) rest' end in
      if String.eqb (rw_check r) "default" then Some flags_ok
      else if String.eqb (rw_check r) "Conditional" then Some flags_ok
      else if String.eqb (rw_check r) "DataflowParent" then Some (flags_ok && inner rs_internal_io_tags)
      else if String.eqb (rw_check r) "CFG" then Some (flags_ok && inner rs_internal_exit_tags)
      else None
  end.

Lemma sup_any : forall a, is_superset "Any" (vtag a) = true.
Proof. intros a. rewrite <- vtag_wit. destruct a; vm_compute; reflexivity. Qed.
Lemma sup_input : forall a, is_superset "Input" (vtag a) = is_input a.
Proof. intros a. rewrite <- vtag_wit. destruct a; vm_compute; reflexivity. Qed.
Lemma sup_output : forall a, is_superset "Output" (vtag a) = is_output a.
Proof. intros a. rewrite <- vtag_wit. destruct a; vm_compute; reflexivity. Qed.
Lemma sup_block : forall a, is_superset "DataflowBlock" (vtag a) = is_block a.
Proof. intros a. rewrite <- vtag_wit. destruct a; vm_compute; reflexivity. Qed.
Lemma sup_exit : forall a, is_superset "BasicBlockExit" (vtag a) = is_exit a.
Proof. intros a. rewrite <- vtag_wit. destruct a; vm_compute; reflexivity. Qed.
Lemma inner_io : forall c, negb (smem (vtag c) rs_internal_io_tags) = negb (is_input c) && negb (is_output c).
Proof. intros c. rewrite <- vtag_wit. destruct c; vm_compute; reflexivity. Qed.
Lemma inner_exit : forall c, negb (smem (vtag c) rs_internal_exit_tags) = negb (is_exit c).
Proof. intros c. rewrite <- vtag_wit. destruct c; vm_compute; reflexivity. Qed.

Ltac eval_vrow :=
  repeat match goal with
         | |- context [vrow ?o] => let r := eval vm_compute in (vrow o) in change (vrow o) with r
         end.

(* rule 2 of Validity.v (fs_check: one node, the operations of its children in order) is that decision, for every
   operation and every list of children that rule 1 admits (a non-container with children is rejected by rule 1:
   its allowed_children is OpTag::None, which contains no operation's tag). *)
Theorem fs_check_matches : forall o cs,
  forallb (allowed_child o) cs = true ->
  r_children_ok (vrow o) (map vtag cs) = Some (fs_check o cs).
Proof.
  intros o cs H.
  destruct cs as [|a [|b rest]]; cbn [map]; unfold r_children_ok.
  - destruct o; vm_compute; reflexivity.
  - destruct o; eval_vrow; cbv beta iota zeta delta [rw_allowed rw_first rw_second rw_check rw_req_children];
      try (cbn in H; discriminate H);
      rewrite ?sup_any, ?sup_input, ?sup_output, ?sup_block, ?sup_exit; cbn; rewrite ?andb_false_r; reflexivity.
  - destruct o; eval_vrow; cbv beta iota zeta delta [rw_allowed rw_first rw_second rw_check rw_req_children];
      try (cbn in H; discriminate H);
      rewrite ?sup_any, ?sup_input, ?sup_output, ?sup_block, ?sup_exit; cbn [String.eqb Ascii.eqb Bool.eqb negb andb];
      rewrite ?forallb_map';
      rewrite ?(forallb_pointwise _ _ _ rest inner_io), ?(forallb_pointwise _ _ _ rest inner_exit);
      cbn [fs_check is_dfparent inner_sig is_some is_cfg is_cond]; reflexivity.
Qed.

(* the whole rule, for every graph that satisfies rule 1 *)
Lemma children_allowed : forall g i n, r_child_tags g = true -> In (i, n) (indexed (g_nodes g)) ->
  forallb (allowed_child (n_op n)) (child_ops g i) = true.
Proof.
  intros g i n H Hi. unfold child_ops. rewrite forallb_flat_map. apply forallb_forall. intros [j y] Hy. cbn [fst snd].
  destruct (negb (j =? 0)%N && (n_parent y =? i)%N) eqn:E; [|reflexivity].
  cbn [forallb]. rewrite andb_true_r.
  unfold r_child_tags in H. rewrite forallb_forall in H. specialize (H _ Hy). cbn [fst snd] in H.
  apply andb_true_iff in E as [E1 E2]. apply N.eqb_eq in E2. rewrite E2 in H.
  apply negb_true_iff in E1. rewrite E1 in H. cbn [orb] in H.
  unfold op_of in H. rewrite (rt_in_indexed _ _ _ _ Hi) in H. exact H.
Qed.
Theorem r_first_second_matches : forall g, r_child_tags g = true ->
  r_first_second g =
  forallb (fun x => match r_children_ok (vrow (n_op (snd x))) (map vtag (child_ops g (fst x))) with
                    | Some b => b
                    | None => false
                    end) (indexed (g_nodes g)).
Proof.
  intros g H. unfold r_first_second. apply forallb_pointwise_in. intros [i n] Hi. cbn [fst snd].
  now rewrite (fs_check_matches _ _ (children_allowed g i n H Hi)).
Qed.

(* containers that must not be empty *)
Corollary requires_children_matches : forall o, fs_check o [] = negb (rw_req_children (vrow o)).
Proof. intros o. pose proof (fs_check_matches o [] eq_refl) as H. cbn in H. now injection H as <-. Qed.

(* ================================================================== 3c. regions that must be acyclic *)
Theorem requires_dag_matches : forall o, is_dfparent o = rw_req_dag (vrow o).
Proof. intros o. destruct o; vm_compute; reflexivity. Qed.
(* hugr/validate.rs validate_children: `if flags.requires_dag { self.validate_children_dag(..) }` *)
Theorem r_acyclic_matches : forall g,
  r_acyclic g =
  forallb (fun x => negb (rw_req_dag (vrow (n_op (snd x)))) || region_acyclic g (redges g) (fst x)) (indexed (g_nodes g)).
Proof. intros g. unfold r_acyclic. apply forallb_pointwise. intros x. now rewrite requires_dag_matches. Qed.

(* the per-container checks of Validity.v are keyed as the Rust ones *)
Theorem children_check_matches : forall o,
  String.eqb (rw_check (vrow o)) "DataflowParent" = is_dfparent o /\
  String.eqb (rw_check (vrow o)) "CFG" = is_cfg o /\
  String.eqb (rw_check (vrow o)) "Conditional" = is_cond o /\
  String.eqb (rw_check (vrow o)) "default" = negb (is_dfparent o || is_cfg o || is_cond o) /\
  is_some (rw_edge_check (vrow o)) = is_cfg o.
Proof. intros o. destruct o; vm_compute; repeat split; reflexivity. Qed.

(* ================================================================== 3d. signatures and non-dataflow ports *)
Definition kclass (k : option pkind) : option string :=
  match k with
  | None => None
  | Some (KValue _) => Some "Value"
  | Some (KConst _) => Some "Const"
  | Some (KFunc _) => Some "Function"
  | Some KOrder => Some "StateOrder"
  | Some KCF => Some "ControlFlow"
  end.
(* non_df_port_count: "default" = other_*().is_some() as usize; a literal; DataflowBlock's self.sum_rows.len() *)
Definition r_count (o : vop) (s : string) (kind : option string) : option N :=
  if String.eqb s "default" then Some (b2N (is_some kind))
  else if String.eqb s "0" then Some 0%N
  else if String.eqb s "1" then Some 1%N
  else if String.eqb s "sum_rows.len" then match o with Block _ rows _ _ => Some (lenN rows) | _ => None end
  else None.

Theorem signature_matches : forall o,
  is_some (df_sig o) = rw_sig (vrow o) /\          (* OpTrait::dataflow_signature is Some *)
  is_some (inner_sig o) = rw_dfparent (vrow o) /\  (* implements DataflowParent *)
  is_superset "DataflowParent" (vtag o) = rw_dfparent (vrow o).   (* and the lattice says the same *)
Proof. intros o. destruct o; vm_compute; repeat split; reflexivity. Qed.

Theorem static_ports_match : forall o,
  kclass (static_in o) = rw_static_in (vrow o) /\
  kclass (static_out o) = rw_static_out (vrow o) /\
  is_some (static_in o) = is_superset rs_static_input_tag (vtag o) /\     (* the test OpType::other_port makes *)
  is_some (static_out o) = is_superset "StaticOutput" (vtag o).
Proof. intros o. destruct o; vm_compute; repeat split; reflexivity. Qed.

Theorem other_ports_match : forall o,
  kclass (fst (other_in o)) = rw_other_in (vrow o) /\
  kclass (fst (other_out o)) = rw_other_out (vrow o) /\
  r_count o (rw_cnt_in (vrow o)) (rw_other_in (vrow o)) = Some (snd (other_in o)) /\
  r_count o (rw_cnt_out (vrow o)) (rw_other_out (vrow o)) = Some (snd (other_out o)).
Proof. intros o. destruct o; vm_compute; repeat split; reflexivity. Qed.

(* OpType::port_count = value ports + has static port + non_df_port_count, OpType::other_port = Some(value ports +
   (incoming && StaticInput.is_superset(tag))) if other_port_kind is Some and non_df_port_count >= 1.
   (Outgoing: the `static_input` summand of the Rust formula is 0.) *)
Definition r_cnt (o : vop) (s : string) (kind : option string) : N :=
  match r_count o s kind with Some n => n | None => 0%N end.
Theorem port_layout_matches : forall o,
  count_in o = (lenN (val_in o) + b2N (is_some (rw_static_in (vrow o))) + r_cnt o (rw_cnt_in (vrow o)) (rw_other_in (vrow o)))%N /\
  count_out o = (lenN (val_out o) + b2N (is_some (rw_static_out (vrow o))) + r_cnt o (rw_cnt_out (vrow o)) (rw_other_out (vrow o)))%N /\
  other_port_in o =
    (if is_some (rw_other_in (vrow o)) && (1 <=? r_cnt o (rw_cnt_in (vrow o)) (rw_other_in (vrow o)))%N
     then Some (lenN (val_in o) + b2N (is_superset rs_static_input_tag (vtag o)))%N else None) /\
  other_port_out o =
    (if is_some (rw_other_out (vrow o)) && (1 <=? r_cnt o (rw_cnt_out (vrow o)) (rw_other_out (vrow o)))%N
     then Some (lenN (val_out o)) else None).
Proof.
  intros o.
  destruct o; unfold count_in, count_out, other_port_in, other_port_out, base_in, base_out; eval_vrow;
    repeat split; try reflexivity.
Qed.

(* OpType::port_kind (ops.rs; text pinned by the scanner): value ports first, then the static port if there is one,
   then the other port kind.  kind_in / kind_out of Validity.v give the same class of kind for every port the
   operation has (the loader creates exactly port_count ports). *)
Definition r_port_kind (nvals : N) (static other : option string) (off : N) : option string :=
  if (off <? nvals)%N then Some "Value"
  else if is_some static && (off =? nvals)%N then static
  else other.
Lemma nthN_lt_some : forall A (l : list A) i, (i <? lenN l)%N = true -> exists x, nthN l i = Some x.
Proof.
  intros A l i H. apply N.ltb_lt in H. unfold nthN, lenN in *.
  destruct (nth_error l (N.to_nat i)) eqn:E; [eauto|]. apply nth_error_None in E. lia.
Qed.
Theorem kind_in_matches : forall o off, (off <? count_in o)%N = true ->
  kclass (kind_in o off) = r_port_kind (lenN (val_in o)) (rw_static_in (vrow o)) (rw_other_in (vrow o)) off.
Proof.
  intros o off H. unfold kind_in, r_port_kind. rewrite H.
  destruct (static_ports_match o) as (S1 & _). destruct (other_ports_match o) as (O1 & _).
  rewrite <- S1, <- O1. clear S1 O1.
  destruct (off <? lenN (val_in o))%N eqn:E1.
  - destruct (nthN_lt_some _ _ _ E1) as (t & ->). reflexivity.
  - destruct (static_in o) as [k|]; cbn [is_some kclass andb].
    + destruct k; cbn [is_some andb]; destruct (off =? lenN (val_in o))%N; reflexivity.
    + reflexivity.
Qed.
Theorem kind_out_matches : forall o off, (off <? count_out o)%N = true ->
  kclass (kind_out o off) = r_port_kind (lenN (val_out o)) (rw_static_out (vrow o)) (rw_other_out (vrow o)) off.
Proof.
  intros o off H. unfold kind_out, r_port_kind. rewrite H.
  destruct (static_ports_match o) as (_ & S1 & _). destruct (other_ports_match o) as (_ & O1 & _).
  rewrite <- S1, <- O1. clear S1 O1.
  destruct (off <? lenN (val_out o))%N eqn:E1.
  - destruct (nthN_lt_some _ _ _ E1) as (t & ->). reflexivity.
  - destruct (static_out o) as [k|]; cbn [is_some kclass andb].
    + destruct k; cbn [is_some andb]; destruct (off =? lenN (val_out o))%N; reflexivity.
    + reflexivity.
Qed.

(* ================================================================== 3e. the tag tests of the edge / port rules *)
Theorem tag_tests_match : forall o,
  (* validate_edge, dominator edge: `ancestor_parent_op.tag() != OpTag::Cfg` *)
  is_cfg o = String.eqb (vtag o) rs_dom_parent_tag /\
  (* validate_edge: `get_optype(ancestor).is_func_defn()` (impl_op_ref_try_into!(FuncDefn)) *)
  is_funcdefn o = String.eqb (rname o) "FuncDefn" /\
  (* validate_port: inputs of a Case need no link; a Case has no input port at all *)
  (String.eqb (vtag o) rs_unconnected_ok_tag = true -> count_in o = 0%N) /\
  (* inner children tests *)
  (is_input o || is_output o) = smem (vtag o) rs_internal_io_tags /\
  is_exit o = smem (vtag o) rs_internal_exit_tags.
Proof.
  intros o. destruct o; repeat split; try (vm_compute; reflexivity); vm_compute; intros; try discriminate; reflexivity.
Qed.

(* ================================================================== 3f. edge kinds *)
Definition kname (k : pkind) : string :=
  match k with KValue _ => "Value" | KConst _ => "Const" | KFunc _ => "Function" | KOrder => "StateOrder" | KCF => "ControlFlow" end.
Lemma kclass_kname : forall k, kclass (Some k) = Some (kname k).
Proof. destruct k; reflexivity. Qed.
Definition edge_kinds_covered_b : bool :=
  seteq_b String.eqb (map kname [KValue 0; KConst 0; KFunc 0; KOrder; KCF]%N) rs_edge_kinds &&
  nodupb String.eqb rs_edge_kinds &&
  forallb (fun s => smem s rs_edge_kinds) (rs_static_kinds ++ rs_unconnected_ok_kinds ++ rs_linear_out_extra_kinds).
Lemma edge_kinds_covered : edge_kinds_covered_b = true.
Proof. vm_compute. reflexivity. Qed.
(* the port kinds of Validity.v are the variants of enum EdgeKind; EdgeKind::is_static (validate_edge) and the
   ControlFlow test (validate_port's outgoing_is_linear, cf_succs, r_cfg_edges) select the same kinds *)
Theorem edge_kinds_match : forall k,
  In (kname k) rs_edge_kinds /\
  is_static k = smem (kname k) rs_static_kinds /\
  is_cf k = smem (kname k) rs_linear_out_extra_kinds.
Proof. intros k. destruct k; vm_compute; repeat split; auto 10. Qed.

(* validate_port: an incoming port must be linked unless its kind is StateOrder or ControlFlow (or the node is a Case,
   which has no port: tag_tests_match).  r_inputs_once of Validity.v demands a link exactly for the offsets below
   base_in: these are the same ports, for every operation and offset. *)
Lemma static_in_kind : forall o k, static_in o = Some k -> smem (kname k) rs_unconnected_ok_kinds = false.
Proof. intros o k H. destruct o; try discriminate H; injection H as <-; reflexivity. Qed.
Lemma other_in_kind : forall o k, fst (other_in o) = Some k -> smem (kname k) rs_unconnected_ok_kinds = true.
Proof. intros o k H. destruct o; cbn in H; try discriminate H; injection H as <-; reflexivity. Qed.
Theorem inputs_must_connect_matches : forall o off k,
  kind_in o off = Some k ->
  (off <? base_in o)%N = negb (smem (kname k) rs_unconnected_ok_kinds).
Proof.
  intros o off k H. unfold kind_in in H. unfold base_in.
  destruct (off <? lenN (val_in o))%N eqn:E1.
  - destruct (nthN (val_in o) off) as [t|]; [|discriminate H]. injection H as <-. cbn [kname].
    apply N.ltb_lt in E1. replace (smem "Value" rs_unconnected_ok_kinds) with false by reflexivity.
    apply N.ltb_lt. lia.
  - apply N.ltb_ge in E1. destruct (is_some (static_in o)) eqn:E2; cbn [andb b2N] in *.
    + destruct (off =? lenN (val_in o))%N eqn:E3.
      * rewrite (static_in_kind _ _ H). apply N.eqb_eq in E3. apply N.ltb_lt. lia.
      * apply N.eqb_neq in E3. destruct (off <? count_in o)%N; [|discriminate H].
        rewrite (other_in_kind _ _ H). apply N.ltb_ge. lia.
    + destruct (off <? count_in o)%N; [|discriminate H].
      rewrite (other_in_kind _ _ H). apply N.ltb_ge. lia.
Qed.

(* the whole of rule 8, for every graph: every incoming port the operation has, whose kind is not StateOrder or
   ControlFlow, has exactly one link.
   DEVIATION: validate_port only demands `links.peek().is_some()` for an incoming port (at least one link; a second link
   into the same port is not looked at); Validity.v demands exactly one.  Stricter, hence on the safe side for C01. *)
Lemma in_upto : forall n i, In i (upto n) -> (i < N.of_nat n)%N.
Proof.
  induction n as [|n IH]; intros i H; [contradiction|]. cbn [upto] in H. apply in_app_or in H as [H|[<-|[]]].
  - apply IH in H. lia.
  - lia.
Qed.
Lemma upto_forallb_le : forall (P : N -> bool) m n, n <= m ->
  forallb P (upto n) = forallb (fun i => negb (i <? N.of_nat n)%N || P i) (upto m).
Proof.
  induction m as [|m IH]; intros n H.
  - replace n with O by lia. reflexivity.
  - destruct (Nat.eq_dec n (S m)) as [->|Hne].
    + apply forallb_pointwise_in. intros i Hi. apply in_upto in Hi. apply N.ltb_lt in Hi. now rewrite Hi.
    + cbn [upto]. rewrite forallb_app. rewrite <- IH by lia. cbn [forallb].
      replace (N.of_nat m <? N.of_nat n)%N with false by (symmetry; apply N.ltb_ge; lia).
      cbn. now rewrite andb_true_r.
Qed.
Lemma other_in_pos : forall o, (0 <? snd (other_in o))%N = true -> exists k, fst (other_in o) = Some k.
Proof. intros o H. destruct o; cbn in H |- *; try discriminate H; eauto. Qed.
Lemma kind_in_some : forall o off, (off <? count_in o)%N = true -> exists k, kind_in o off = Some k.
Proof.
  intros o off H. unfold kind_in. rewrite H.
  destruct (off <? lenN (val_in o))%N eqn:E1.
  - destruct (nthN_lt_some _ _ _ E1) as (t & ->). cbn. eauto.
  - apply N.ltb_ge in E1. apply N.ltb_lt in H. unfold count_in, base_in in H.
    destruct (static_in o) as [k|] eqn:Es; cbn [is_some andb b2N] in *.
    + destruct (off =? lenN (val_in o))%N eqn:E2; [eauto|]. apply N.eqb_neq in E2.
      apply other_in_pos. apply N.ltb_lt. lia.
    + apply other_in_pos. apply N.ltb_lt. lia.
Qed.
Theorem r_inputs_once_matches : forall g,
  r_inputs_once g =
  forallb (fun x => (fst x =? 0)%N ||
     forallb (fun off => match kind_in (n_op (snd x)) off with
                         | Some k => smem (kname k) rs_unconnected_ok_kinds || (links_into (redges g) (fst x) off =? 1)%N
                         | None => true
                         end) (upto (N.to_nat (count_in (n_op (snd x)))))) (indexed (g_nodes g)).
Proof.
  intros g. unfold r_inputs_once. cbv zeta. apply forallb_pointwise. intros x. f_equal.
  rewrite (upto_forallb_le _ (N.to_nat (count_in (n_op (snd x))))) by (unfold count_in; lia).
  apply forallb_pointwise_in. intros off Hoff. apply in_upto in Hoff. rewrite N2Nat.id in *.
  apply N.ltb_lt in Hoff. destruct (kind_in_some _ _ Hoff) as (k & Hk). rewrite Hk.
  rewrite (inputs_must_connect_matches _ _ _ Hk). now rewrite negb_involutive.
Qed.

(* the whole of rule 9, for every graph: every outgoing port the operation has, whose kind is a non-copyable value
   (EdgeKind::is_linear) or ControlFlow (validate_port's outgoing_is_linear), has exactly one link (Rust: connected, and
   TooManyConnections on a second link). *)
Definition r_linear (tys : list tyinfo) (k : pkind) : bool :=
  match k with
  | KValue t => negb (ty_copy tys t)
  | _ => smem (kname k) rs_linear_out_extra_kinds
  end.
Lemma upto_forallb_split : forall (P : N -> bool) m n, n <= m ->
  forallb P (upto m) = forallb P (upto n) && forallb (fun i => (i <? N.of_nat n)%N || P i) (upto m).
Proof.
  induction m as [|m IH]; intros n H.
  - replace n with O by lia. reflexivity.
  - destruct (Nat.eq_dec n (S m)) as [->|Hne].
    + replace (forallb (fun i => (i <? N.of_nat (S m))%N || P i) (upto (S m))) with true; [now rewrite andb_true_r|].
      symmetry. apply forallb_forall. intros i Hi. apply in_upto in Hi. apply N.ltb_lt in Hi. now rewrite Hi.
    + cbn [upto]. rewrite !forallb_app. rewrite (IH n) by lia. cbn [forallb].
      replace (N.of_nat m <? N.of_nat n)%N with false by (symmetry; apply N.ltb_ge; lia).
      cbn [orb]. now rewrite <- !andb_assoc.
Qed.
Lemma rt_index_from_app : forall A (l r : list A) k, index_from (l ++ r)%list k = (index_from l k ++ index_from r (k + lenN l)%N)%list.
Proof.
  induction l as [|a l IH]; intros r k; cbn [index_from app].
  - f_equal. unfold lenN. cbn. lia.
  - rewrite IH. cbn [app]. do 3 f_equal. unfold lenN. cbn [List.length]. lia.
Qed.
Lemma forallb_indexed_upto : forall A (f : N * A -> bool) (l : list A),
  forallb f (indexed l) =
  forallb (fun i => match nthN l i with Some t => f (i, t) | None => true end) (upto (List.length l)).
Proof.
  intros A f l. induction l as [|a l IH] using rev_ind; [reflexivity|].
  unfold indexed in *. rewrite rt_index_from_app, app_length, Nat.add_1_r. cbn [upto index_from].
  rewrite !forallb_app, IH. cbn [forallb]. f_equal.
  - apply forallb_pointwise_in. intros i Hi. apply in_upto in Hi. unfold nthN.
    rewrite nth_error_app1 by lia. reflexivity.
  - unfold nthN. rewrite Nat2N.id, nth_error_app2 by lia. rewrite Nat.sub_diag. cbn.
    reflexivity.
Qed.
Lemma rest_linear : forall tys o (L : N -> bool),
  match o with Block _ rows _ _ => forallb L (upto (List.length rows)) | _ => true end =
  forallb (fun off => (off <? lenN (val_out o))%N ||
                      match kind_out o off with Some k => negb (r_linear tys k) || L off | None => true end)
          (upto (N.to_nat (count_out o))).
Proof.
  intros tys o L.
  destruct o;
    try (symmetry; apply forallb_forall; intros off _; unfold kind_out, count_out, base_out;
         cbn [static_out other_out val_out df_sig is_some b2N fst snd andb];
         destruct (off <? _)%N; cbn [orb]; try reflexivity;
         repeat match goal with |- context [if ?c then _ else _] => destruct c end; reflexivity).
  (* Block *)
  assert (E : N.to_nat (count_out (Block ins sum_rows others sumty)) = List.length sum_rows)
    by (unfold count_out, base_out; cbn [val_out df_sig static_out other_out is_some b2N snd]; unfold lenN;
        cbn [List.length]; lia).
  rewrite E.
  apply forallb_pointwise_in. intros off Hoff. apply in_upto in Hoff.
  unfold kind_out, count_out, base_out. cbn [static_out other_out val_out df_sig is_some b2N fst snd andb].
  change (lenN (@nil tyid)) with 0%N.
  assert (E1 : (off <? 0)%N = false) by (apply N.ltb_ge; lia). rewrite E1.
  assert (E2 : (off <? 0 + 0 + lenN sum_rows)%N = true) by (apply N.ltb_lt; unfold lenN; lia). rewrite E2.
  reflexivity.
Qed.
Theorem r_linear_once_matches : forall tys g,
  r_linear_once tys g =
  forallb (fun x => (fst x =? 0)%N ||
     forallb (fun off => match kind_out (n_op (snd x)) off with
                         | Some k => negb (r_linear tys k) || (links_from (redges g) (fst x) off =? 1)%N
                         | None => true
                         end) (upto (N.to_nat (count_out (n_op (snd x)))))) (indexed (g_nodes g)).
Proof.
  intros tys g. unfold r_linear_once. cbv zeta. apply forallb_pointwise. intros x. f_equal.
  set (o := n_op (snd x)). set (L := fun off => (links_from (redges g) (fst x) off =? 1)%N).
  rewrite (upto_forallb_split _ (N.to_nat (count_out o)) (List.length (val_out o)))
    by (unfold count_out, base_out, lenN; lia).
  f_equal.
  - rewrite forallb_indexed_upto. apply forallb_pointwise_in. intros off Hoff. apply in_upto in Hoff.
    unfold kind_out. fold (lenN (val_out o)) in Hoff. apply N.ltb_lt in Hoff. rewrite Hoff.
    destruct (nthN (val_out o) off) as [t|]; [|reflexivity]. cbn [option_map r_linear fst snd].
    now rewrite negb_involutive.
  - rewrite (rest_linear tys o L). reflexivity.
Qed.

(* ================================================================== summaries used by props/C01.v *)
Theorem tables_cover :
  (forall o k, In k (rnames o) -> krow k = Some (vrow o)) /\
  (forall o k, In k (rnames o) -> In k rs_optypes) /\
  (forall k, In k rs_optypes -> exists o, In k (rnames o)).
Proof. exact (conj vrow_total (conj rnames_are_optypes optypes_modelled)). Qed.

Theorem ports_match : forall o,
  is_some (df_sig o) = rw_sig (vrow o) /\
  is_some (inner_sig o) = rw_dfparent (vrow o) /\
  kclass (static_in o) = rw_static_in (vrow o) /\
  kclass (static_out o) = rw_static_out (vrow o) /\
  kclass (fst (other_in o)) = rw_other_in (vrow o) /\
  kclass (fst (other_out o)) = rw_other_out (vrow o) /\
  r_count o (rw_cnt_in (vrow o)) (rw_other_in (vrow o)) = Some (snd (other_in o)) /\
  r_count o (rw_cnt_out (vrow o)) (rw_other_out (vrow o)) = Some (snd (other_out o)).
Proof.
  intros o. destruct (signature_matches o) as (A & B & _). destruct (static_ports_match o) as (C & D & _).
  destruct (other_ports_match o) as (E & F & G & H). repeat split; assumption.
Qed.

(* ================================================================== non-vacuity *)
Example ex_lattice : is_superset "DataflowChild" "FuncDefn" = true /\ is_superset "DataflowChild" "Function" = false /\
                     is_superset "DataflowParent" "Case" = true /\ Sup "Any" "DataflowBlock".
Proof.
  repeat split; try (vm_compute; reflexivity).
  apply is_superset_spec; [apply smem_In|]; vm_compute; reflexivity.
Qed.
Example ex_children :
  r_children_ok (vrow (DFG [] [])) (map vtag [Input []; Output []; ExtOp [] []]) = Some true /\
  r_children_ok (vrow (DFG [] [])) (map vtag [Input []; Output []; Input []]) = Some false /\
  r_children_ok (vrow (CFG [] [])) (map vtag [Block [] [] [] 0%N]) = Some false /\
  r_children_ok (vrow Module) (map vtag [FuncDecl 0%N]) = Some true.
Proof. vm_compute. repeat split; reflexivity. Qed.
