(* C11, second pass — proofs about model/ResolveHugr.v against spec/ResolveHugrS.v: resolution on the whole HUGR.
   The per-operation theorems of proofs/ResolveP.v are used at every node; constants (and the HUGRs of their
   function values) are part of the frame. *)
From Coq Require Import NArith List Bool Arith Lia.
Import ListNotations.
From HV Require Import lib.Harness model.Types model.Resolve spec.ResolveS proofs.ResolveP.
From HV Require Import model.SerialHugr model.ResolveHugr spec.ResolveHugrS.

(* ------------------------------------------------------------------ induction over operations with nested HUGRs *)
Definition slot_all (P : hop -> Prop) (x : option nodeT) : Prop :=
  match x with Some n => P (n_op n) | None => True end.

Section HopInd.
  Variables (P : hop -> Prop) (Q : cval -> Prop).
  Hypothesis HOp_ : forall o, P (HOp o).
  Hypothesis HOther_ : forall k a b l, P (HOther k a b l).
  Hypothesis HConst_ : forall v, Q v -> P (HConst v).
  Hypothesis VFunc_ : forall b, Forall (slot_all P) (h_nodes b) -> Q (VFunc b).
  Hypothesis VSum_ : forall k vs, Forall Q vs -> Q (VSum k vs).
  Hypothesis VLeaf_ : forall k, Q (VLeaf k).
  Fixpoint hop_ind2 (o : hop) : P o :=
    match o with
    | HOp o => HOp_ o
    | HOther k a b l => HOther_ k a b l
    | HConst v => HConst_ v (cval_ind2 v)
    end
  with cval_ind2 (v : cval) : Q v :=
    match v with
    | VFunc b =>
        VFunc_ b ((fix go (l : list (option nodeT)) : Forall (slot_all P) l :=
                     match l with
                     | [] => Forall_nil _
                     | x :: r => Forall_cons x (match x return slot_all P x with
                                                | Some n => hop_ind2 (n_op n)
                                                | None => I
                                                end) (go r)
                     end) (h_nodes b))
    | VSum k vs =>
        VSum_ k vs ((fix go (l : list cval) : Forall Q l :=
                       match l with [] => Forall_nil _ | x :: r => Forall_cons x (cval_ind2 x) (go r) end) vs)
    | VLeaf k => VLeaf_ k
    end.
  Lemma hop_both_ind : (forall o, P o) /\ (forall v, Q v).
  Proof. split; [exact hop_ind2|exact cval_ind2]. Qed.
End HopInd.

(* ------------------------------------------------------------------ the node table mapped *)
Lemma with_op_map_node (f : hop -> hop) (n : nodeT) : with_op n (f (n_op n)) = map_node f n.
Proof. reflexivity. Qed.
Lemma map_node_id {A M} (f : A -> A) (n : node A M) : f (n_op n) = n_op n -> map_node f n = n.
Proof. destruct n; unfold map_node; cbn. intros ->. reflexivity. Qed.
Lemma map_hugr_ext {A B M} (f g : A -> B) (h : hugr A M) :
  Forall (fun x => match x with Some n => f (n_op n) = g (n_op n) | None => True end) (h_nodes h) ->
  map_hugr f h = map_hugr g h.
Proof.
  intros H. unfold map_hugr. f_equal. induction H as [|x l Hx _ IH]; cbn; [reflexivity|]. f_equal; [|exact IH].
  destruct x as [n|]; cbn; [|reflexivity]. unfold map_node. now rewrite Hx.
Qed.
Lemma map_hugr_id {A M} (f : A -> A) (h : hugr A M) :
  Forall (fun x => match x with Some n => f (n_op n) = n_op n | None => True end) (h_nodes h) -> map_hugr f h = h.
Proof.
  intros H. destruct h as [ns r ls]. unfold map_hugr. cbn in *. f_equal.
  induction H as [|x l Hx _ IH]; cbn; [reflexivity|]. f_equal; [|exact IH].
  destruct x as [n|]; cbn; [|reflexivity]. now rewrite map_node_id.
Qed.
Lemma map_hugr_map_hugr {A B C M} (f : A -> B) (g : B -> C) (h : hugr A M) :
  map_hugr g (map_hugr f h) = map_hugr (fun o => g (f o)) h.
Proof.
  unfold map_hugr. cbn. f_equal. rewrite map_map. apply map_ext. intros [n|]; reflexivity.
Qed.
Lemma map_fix_Forall {A} (g : A -> A) l : map g l = l -> Forall (fun x => g x = x) l.
Proof. induction l as [|x l IH]; cbn; intros H; constructor; injection H; auto. Qed.
Lemma map_hugr_fix (f : hop -> hop) (h : hugrT) :
  map_hugr f h = h -> Forall (slot_all (fun o => f o = o)) (h_nodes h).
Proof.
  destruct h as [ns r ls]. unfold map_hugr. cbn. intros H. injection H as H.
  apply map_fix_Forall in H. eapply Forall_impl; [|exact H]. intros [n|]; cbn; [|trivial].
  intros E. injection E as E. destruct n; cbn in *. injection E; auto.
Qed.

Lemma get_node_map {A B M} (f : A -> B) (h : hugr A M) i :
  get_node (map_hugr f h) i = option_map (map_node f) (get_node h i).
Proof.
  unfold get_node, map_hugr. cbn. rewrite nth_error_map. destruct (nth_error (h_nodes h) i) as [[n|]|]; reflexivity.
Qed.
Lemma live_from_map {A B M} (g : node A M -> node B M) l i : live_from (map (option_map g) l) i = live_from l i.
Proof. revert i. induction l as [|[n|] l IH]; intros i; cbn; [reflexivity| |]; now rewrite IH. Qed.
Lemma live_map {A B M} (f : A -> B) (h : hugr A M) : live (map_hugr f h) = live h.
Proof. apply live_from_map. Qed.
Lemma rekey_map {A B M} (f : A -> B) (h : hugr A M) i : rekey (map_hugr f h) i = rekey h i.
Proof. unfold rekey. now rewrite live_map. Qed.

(* ------------------------------------------------------------------ the loop of resolve_extensions is the map *)
Lemma nth_error_mid {A} (pre : list A) x r : nth_error (pre ++ x :: r) (length pre) = Some x.
Proof. induction pre; cbn; auto. Qed.
Lemma set_nth_mid {A} (pre : list A) x y r : set_nth (pre ++ x :: r) (length pre) y = pre ++ y :: r.
Proof. induction pre as [|a pre IH]; cbn; [reflexivity|]. now rewrite IH. Qed.

Lemma resolve_loop_from reg keep root ls l : forall pre,
  fold_left (resolve_step reg keep) (live_from l (length pre)) {| h_nodes := pre ++ l; h_root := root; h_links := ls |} =
  {| h_nodes := pre ++ map (option_map (map_node (resolve_hop reg keep))) l; h_root := root; h_links := ls |}.
Proof.
  induction l as [|[n|] l IH]; intros pre; cbn [live_from map fold_left option_map].
  - reflexivity.
  - assert (E : resolve_step reg keep {| h_nodes := pre ++ Some n :: l; h_root := root; h_links := ls |} (length pre) =
                {| h_nodes := (pre ++ [Some (map_node (resolve_hop reg keep) n)]) ++ l; h_root := root; h_links := ls |}).
    { unfold resolve_step, set_op, get_node. cbn [h_nodes h_root h_links]. rewrite nth_error_mid, set_nth_mid.
      rewrite <- app_assoc. reflexivity. }
    rewrite E. replace (S (length pre)) with (length (pre ++ [Some (map_node (resolve_hop reg keep) n)]))
      by (rewrite app_length; cbn; lia).
    rewrite IH. now rewrite <- app_assoc.
  - replace (pre ++ None :: l) with ((pre ++ [None]) ++ l) by now rewrite <- app_assoc.
    replace (S (length pre)) with (length (pre ++ [@None nodeT])) by (rewrite app_length; cbn; lia).
    rewrite IH. now rewrite <- app_assoc.
Qed.
Lemma resolve_extensions_map reg keep h : resolve_extensions reg keep h = map_hugr (resolve_hop reg keep) h.
Proof. destruct h as [ns r ls]. exact (resolve_loop_from reg keep r ls ns []). Qed.

(* ------------------------------------------------------------------ (a) the frame, and exactly the resolvable operations replaced *)
Lemma slots_map_rel (R : hop -> hop -> Prop) (f : hop -> hop) ns :
  Forall (slot_all (fun o => R o (f o))) ns ->
  Forall2 (slot_rel (fun n n' : nodeT => node_frame n n' /\ R (n_op n) (n_op n'))) ns (map (option_map (map_node f)) ns).
Proof.
  induction 1 as [|x l Hx _ IH]; cbn; constructor; [|exact IH].
  destruct x as [n|]; cbn; constructor. split; [repeat split|exact Hx].
Qed.

Lemma resolve_frame reg keep h : same_frame h (resolve_extensions reg keep h).
Proof.
  rewrite resolve_extensions_map. repeat split. cbn.
  induction (h_nodes h) as [|[n|] l IH]; cbn; constructor; auto; constructor. repeat split.
Qed.

Lemma resolve_hop_rel reg keep o : RegWF reg -> RHop reg o (resolve_hop reg keep o).
Proof.
  intros Hwf. destruct o as [o|k a b l|v]; cbn [resolve_hop]; constructor. now apply resolve_op_pointwise.
Qed.
Lemma resolve_hugr_rel reg keep h : RegWF reg -> RHugr reg h (resolve_extensions reg keep h).
Proof.
  intros Hwf. rewrite resolve_extensions_map. repeat split. cbn. apply slots_map_rel.
  apply Forall_forall. intros [n|] _; cbn; [|trivial]. now apply resolve_hop_rel.
Qed.

(* only `op` fields change, and only those of nodes whose operation is an opaque operation the registry defines *)
Lemma untouchable_op_fixed reg keep o : untouchable_op reg o = true -> resolve_op reg keep o = o.
Proof.
  destruct o as [c|x|k]; cbn; try reflexivity. intros H. unfold resolve_custom.
  destruct (lookup_op reg (c_ext c) (c_name c)) as [d|] eqn:E; [|reflexivity].
  apply lookup_op_defines in E. assert (R : resolvable_op reg (c_ext c) (c_name c)) by (now exists d).
  apply resolvable_op_b_spec in R. rewrite R in H. discriminate.
Qed.
Lemma fixed_untouchable_op reg keep o : RegWF reg -> resolve_op reg keep o = o -> untouchable_op reg o = true.
Proof.
  intros Hwf. destruct o as [c|x|k]; cbn; try reflexivity. unfold resolve_custom.
  destruct (lookup_op reg (c_ext c) (c_name c)) as [d|] eqn:E; [discriminate|]. intros _.
  apply (lookup_op_None _ _ _ Hwf) in E. destruct (resolvable_op_b reg (c_ext c) (c_name c)) eqn:R; [|reflexivity].
  apply resolvable_op_b_spec in R. contradiction.
Qed.

Lemma resolve_untouchable reg keep o : hop_holds (untouchable_op reg) o = true -> resolve_hop reg keep o = o.
Proof. destruct o as [o|k a b l|v]; cbn; try reflexivity. intros H. now rewrite untouchable_op_fixed. Qed.
Lemma resolve_fixed reg keep o : RegWF reg -> resolve_hop reg keep o = o -> hop_holds (untouchable_op reg) o = true.
Proof.
  intros Hwf. destruct o as [o|k a b l|v]; cbn; try reflexivity. intros H. injection H as H.
  now apply (fixed_untouchable_op reg keep).
Qed.
(* constants are never touched, whatever they hold *)
Lemma resolve_const reg keep v : resolve_hop reg keep (HConst v) = HConst v.
Proof. reflexivity. Qed.

(* node by node *)
Lemma resolve_node_at reg keep h i :
  get_node (resolve_extensions reg keep h) i = option_map (map_node (resolve_hop reg keep)) (get_node h i).
Proof. rewrite resolve_extensions_map. apply get_node_map. Qed.

(* ------------------------------------------------------------------ (b) idempotence *)
Lemma resolve_hop_idem reg keep keep' o : resolve_hop reg keep' (resolve_hop reg keep o) = resolve_hop reg keep o.
Proof. destruct o as [o|k a b l|v]; cbn; try reflexivity. now rewrite resolve_op_idem. Qed.
Lemma resolve_extensions_idem reg keep keep' h :
  resolve_extensions reg keep' (resolve_extensions reg keep h) = resolve_extensions reg keep h.
Proof.
  rewrite !resolve_extensions_map, map_hugr_map_hugr. apply map_hugr_ext.
  apply Forall_forall. intros [n|] _; [|trivial]. apply resolve_hop_idem.
Qed.

(* ------------------------------------------------------------------ Hugr._to_serial and a rewriting of the operations *)
(* stated for any encoder `enc`, any port-count function and any rewriting g of the operations: when g keeps the
   dataflow port counts and relates the encoded operations by R, the documents of h and of h with its operations
   rewritten both exist or both fail, have the same edges and metadata, and their node lists are related
   position by position (same parent, operations related by R) *)
Definition orel {A B} (R : A -> B -> Prop) (x : option A) (y : option B) : Prop :=
  match x, y with Some a, Some b => R a b | None, None => True | _, _ => False end.

Lemma mapM_rel {A B C} (R : B -> C -> Prop) (f : A -> option B) (g : A -> option C) l :
  Forall (fun x => orel R (f x) (g x)) l -> orel (Forall2 R) (mapM f l) (mapM g l).
Proof.
  induction 1 as [|x l Hx _ IH]; cbn; [constructor|].
  destruct (f x), (g x); cbn in Hx; try contradiction; [|exact I].
  destruct (mapM f l), (mapM g l); cbn in *; try contradiction; auto.
Qed.
Lemma mapM_ext {A B} (f g : A -> option B) l : Forall (fun x => f x = g x) l -> mapM f l = mapM g l.
Proof. induction 1 as [|x l Hx _ IH]; cbn; [reflexivity|]. now rewrite Hx, IH. Qed.

Section ToSerialMap.
  Context {A B S S' M : Type}.
  Variables (enc : A -> S) (enc' : B -> S') (ndp : A -> dir -> option nat) (ndp' : B -> dir -> option nat)
            (nil : M -> bool) (g : A -> B) (R : S -> S' -> Prop).
  Definition snode_rel (a : snode S) (b : snode S') : Prop := s_parent b = s_parent a /\ R (s_op a) (s_op b).
  Definition serial_rel (s : serial S M) (s' : serial S' M) : Prop :=
    s_edges s' = s_edges s /\ s_meta s' = s_meta s /\ Forall2 snode_rel (s_nodes s) (s_nodes s').
  Variable h : hugr A M.
  Hypothesis Hn :
    Forall (fun x => match x with
                     | Some n => (forall d, ndp' (g (n_op n)) d = ndp (n_op n) d) /\ R (enc (n_op n)) (enc' (g (n_op n)))
                     | None => True
                     end) (h_nodes h).

  Lemma get_node_In i n : get_node h i = Some n -> In (Some n) (h_nodes h).
  Proof.
    unfold get_node. destruct (nth_error (h_nodes h) i) as [[m|]|] eqn:E; try discriminate.
    intros H; injection H as ->. eapply nth_error_In; eauto.
  Qed.
  Lemma constrain_map p d : constrain B M ndp' (map_hugr g h) p d = constrain A M ndp h p d.
  Proof.
    unfold constrain. destruct (snd p); [|reflexivity]. rewrite get_node_map.
    destruct (get_node h (fst p)) as [n|] eqn:E; cbn; [|reflexivity].
    apply get_node_In in E. rewrite Forall_forall in Hn. specialize (Hn _ E). cbn in Hn. destruct Hn as [-> _].
    reflexivity.
  Qed.
  Lemma ser_link_map l : ser_link B M ndp' (map_hugr g h) l = ser_link A M ndp h l.
  Proof. unfold ser_link. now rewrite !constrain_map, !rekey_map. Qed.
  Lemma ser_node_map i : orel snode_rel (ser_node A S M enc h i) (ser_node B S' M enc' (map_hugr g h) i).
  Proof.
    unfold ser_node. rewrite get_node_map. destruct (get_node h i) as [n|] eqn:E; cbn [option_map]; [|exact I].
    rewrite rekey_map. cbn [map_node n_parent n_op]. destruct (rekey h _); cbn; [|exact I]. split; [reflexivity|].
    apply get_node_In in E. rewrite Forall_forall in Hn. apply (Hn _ E).
  Qed.
  Lemma meta_of_map l : meta_of B M nil (map (option_map (map_node g)) l) = meta_of A M nil l.
  Proof. induction l as [|[n|] l IH]; cbn; [reflexivity| |]; now rewrite IH. Qed.

  Lemma to_serial_map : orel serial_rel (to_serial enc ndp nil h) (to_serial enc' ndp' nil (map_hugr g h)).
  Proof.
    unfold to_serial. rewrite live_map.
    assert (E : mapM (ser_link B M ndp' (map_hugr g h)) (h_links (map_hugr g h)) = mapM (ser_link A M ndp h) (h_links h)).
    { cbn [map_hugr h_links]. apply mapM_ext. apply Forall_forall. intros; apply ser_link_map. }
    rewrite E.
    assert (Hm : orel (Forall2 snode_rel) (mapM (ser_node A S M enc h) (live h))
                      (mapM (ser_node B S' M enc' (map_hugr g h)) (live h))).
    { apply mapM_rel. apply Forall_forall. intros; apply ser_node_map. }
    destruct (mapM (ser_node A S M enc h) (live h)), (mapM (ser_node B S' M enc' (map_hugr g h)) (live h));
      cbn in Hm; try contradiction; [|exact I].
    destruct (mapM (ser_link A M ndp h) (h_links h)); cbn; [|exact I].
    repeat split; [|exact Hm]. cbn. now rewrite meta_of_map.
  Qed.
End ToSerialMap.

(* the structural form used in ser_val is Hugr._to_serial with the encoder ser_hop *)
Lemma to_serial_paired {A S M} (enc : A -> S) ndp nil (h : hugr A M) :
  to_serial (@snd A S) (fun p => ndp (fst p)) nil (map_hugr (fun o => (o, enc o)) h) = to_serial enc ndp nil h.
Proof.
  assert (H : orel (serial_rel eq) (to_serial enc ndp nil h)
                   (to_serial (@snd A S) (fun p => ndp (fst p)) nil (map_hugr (fun o => (o, enc o)) h))).
  { apply to_serial_map. apply Forall_forall. intros [n|] _; cbn; auto. }
  destruct (to_serial enc ndp nil h) as [s|];
    destruct (to_serial (@snd A S) (fun p => ndp (fst p)) nil (map_hugr (fun o => (o, enc o)) h)) as [s'|];
    cbn in H; try contradiction; [|reflexivity].
  destruct H as (He & Hm & Hn). destruct s as [n e m], s' as [n' e' m']; cbn in *. subst. f_equal. f_equal.
  clear -Hn. induction Hn as [|a b l l' [Hp Ho] _ IH]; [reflexivity|]. destruct a, b; cbn in *; subst. reflexivity.
Qed.
Lemma ser_val_func_eq b :
  ser_val (VFunc b) = match to_serial ser_hop hop_ndp md_is_nil b with
                      | Some d => option_map SVFunc (seq_serial d)
                      | None => None
                      end.
Proof. cbn [ser_val]. now rewrite (to_serial_paired ser_hop hop_ndp md_is_nil b). Qed.

(* ------------------------------------------------------------------ (c) the serialised document *)
Definition Ropt {A B} (R : A -> B -> Prop) (x : option A) (y : option B) : Prop :=
  forall s, x = Some s -> exists s', y = Some s' /\ R s s'.

Lemma seq_nodes_rel {S S'} (R : S -> S' -> Prop) (l : list (snode (option S))) (l' : list (snode (option S'))) :
  Forall2 (snode_rel (Ropt R)) l l' -> forall ns, omap seq_snode l = Some ns ->
  exists ns', omap seq_snode l' = Some ns' /\ Forall2 (snode_rel R) ns ns'.
Proof.
  induction 1 as [|a b l l' [Hp Ho] _ IH]; cbn; intros ns Hs.
  - injection Hs as <-. exists []. split; [reflexivity|constructor].
  - unfold seq_snode at 1 in Hs. destruct (s_op a) as [oa|] eqn:Ea; [|discriminate].
    destruct (omap seq_snode l) as [r|]; [|discriminate]. injection Hs as <-.
    destruct (Ho _ eq_refl) as [ob [Eb Hr]]. destruct (IH _ eq_refl) as [r' [Er' Hrr]].
    unfold seq_snode at 1. rewrite Eb, Er'. eexists. split; [reflexivity|]. constructor; [|exact Hrr].
    split; cbn; auto.
Qed.
Lemma seq_serial_rel {S S' M} (R : S -> S' -> Prop) (d : serial (option S) M) (d' : serial (option S') M) s :
  serial_rel (Ropt R) d d' -> seq_serial d = Some s ->
  exists s', seq_serial d' = Some s' /\ serial_rel R s s'.
Proof.
  intros (He & Hm & Hn). unfold seq_serial. destruct (omap seq_snode (s_nodes d)) as [ns|] eqn:E; [|discriminate].
  intros Hs. injection Hs as <-. destruct (seq_nodes_rel R _ _ Hn _ E) as [ns' [E' Hr]]. rewrite E'.
  eexists. split; [reflexivity|]. repeat split; cbn; auto.
Qed.

Lemma resolve_hop_ndp reg keep o d : hop_ndp (resolve_hop reg keep o) d = hop_ndp o d.
Proof.
  destruct o as [[c|x|k]|k a b l|v]; cbn; try reflexivity.
  unfold resolve_custom. destruct (lookup_op reg (c_ext c) (c_name c)); cbn; [|reflexivity].
  destruct d; now rewrite map_length.
Qed.

Lemma omap_rel {A B C} (R : B -> C -> Prop) (f : A -> option B) (g : A -> option C) l :
  Forall (fun x => Ropt R (f x) (g x)) l -> Ropt (Forall2 R) (omap f l) (omap g l).
Proof.
  induction 1 as [|x l Hx _ IH]; intros s Hs; cbn in *.
  - injection Hs as <-. exists []. split; [reflexivity|constructor].
  - destruct (f x) as [y|] eqn:Ey; [|discriminate]. destruct (omap f l) as [ys|] eqn:Eys; [|discriminate].
    injection Hs as <-. destruct (Hx _ eq_refl) as [y' [Ey' Hy]]. destruct (IH _ eq_refl) as [ys' [Eys' Hys]].
    rewrite Ey', Eys'. eexists. split; [reflexivity|]. now constructor.
Qed.

Lemma resolve_ser_hop reg keep o : RegWF reg -> hop_holds (consistent_op reg) o = true ->
  Ropt (SameSop reg) (ser_hop o) (ser_hop (resolve_hop reg keep o)).
Proof.
  intros Hwf Hc s Hs. destruct o as [o|k a b l|v]; cbn [resolve_hop hop_holds] in *.
  - cbn [ser_hop] in *. destruct (ser_op o) as [so|] eqn:Eo; [|discriminate]. injection Hs as <-.
    destruct (resolve_op_ser _ keep _ _ Hwf Hc Eo) as [so' [Eso' Hr]]. rewrite Eso'. eexists. split; [reflexivity|].
    now constructor.
  - exists s. split; [exact Hs|]. cbn in Hs. injection Hs as <-. constructor.
  - exists s. split; [exact Hs|]. cbn [ser_hop] in Hs. destruct (ser_val v); [|discriminate].
    injection Hs as <-. constructor.
Qed.

Lemma resolve_doc reg keep h s : RegWF reg -> consistent_hugr reg h = true -> hugr_doc h = Some s ->
  exists s', hugr_doc (resolve_extensions reg keep h) = Some s' /\ SameDoc reg s s'.
Proof.
  intros Hwf Hc Hs. rewrite resolve_extensions_map. unfold hugr_doc in *.
  unfold consistent_hugr, hugr_all in Hc. rewrite forallb_Forall in Hc.
  assert (H : orel (serial_rel (Ropt (SameSop reg))) (to_serial ser_hop hop_ndp md_is_nil h)
                   (to_serial ser_hop hop_ndp md_is_nil (map_hugr (resolve_hop reg keep) h))).
  { apply to_serial_map. eapply Forall_impl; [|exact Hc]. intros [n|]; cbn; [|trivial].
    intros Hcn. split; [intros d; apply resolve_hop_ndp|]. now apply resolve_ser_hop. }
  destruct (to_serial ser_hop hop_ndp md_is_nil h) as [d|]; [|discriminate].
  destruct (to_serial ser_hop hop_ndp md_is_nil (map_hugr (resolve_hop reg keep) h)) as [d'|]; cbn in H; [|contradiction].
  destruct (seq_serial_rel _ _ _ _ H Hs) as [sd' [Ed' Hr]]. exists sd'. split; [exact Ed'|exact Hr].
Qed.

(* the description clause in the other direction: where the implementation keeps the loaded descriptions the
   document is identical (also when serialisation raises) *)
Lemma orel_serial_eq {S M} (x y : option (serial S M)) : orel (serial_rel eq) x y -> x = y.
Proof.
  destruct x as [s|], y as [s'|]; cbn; try contradiction; [|reflexivity].
  intros (He & Hm & Hn). destruct s as [n e m], s' as [n' e' m']; cbn in *. subst. f_equal. f_equal.
  clear -Hn. induction Hn as [|a b l l' [Hp Ho] _ IH]; [reflexivity|]. destruct a, b; cbn in *; subst. reflexivity.
Qed.
Lemma resolve_ser_hop_keep reg keep o : RegWF reg -> hop_holds (consistent_op reg) o = true ->
  hop_holds (keeps_descr keep) o = true -> ser_hop (resolve_hop reg keep o) = ser_hop o.
Proof.
  intros Hwf Hc Hk. destruct o as [o|k a b l|v]; cbn [resolve_hop hop_holds] in *; try reflexivity.
  cbn [ser_hop]. rewrite (resolve_op_ser_keep reg keep o Hwf Hc); [reflexivity|].
  intros c ->. exact Hk.
Qed.
Lemma resolve_doc_keep reg keep h : RegWF reg -> consistent_hugr reg h = true ->
  hugr_all (keeps_descr keep) h = true -> hugr_doc (resolve_extensions reg keep h) = hugr_doc h.
Proof.
  intros Hwf Hc Hk. rewrite resolve_extensions_map. unfold hugr_doc.
  unfold consistent_hugr, hugr_all in Hc, Hk. rewrite forallb_forall in Hc, Hk.
  assert (H : orel (serial_rel eq) (to_serial ser_hop hop_ndp md_is_nil h)
                   (to_serial ser_hop hop_ndp md_is_nil (map_hugr (resolve_hop reg keep) h))).
  { apply to_serial_map. apply Forall_forall. intros [n|] Hin; cbn; [|trivial].
    split; [intros d; apply resolve_hop_ndp|]. symmetry. apply resolve_ser_hop_keep; auto.
    - exact (Hc _ Hin).
    - exact (Hk _ Hin). }
  now rewrite <- (orel_serial_eq _ _ H).
Qed.
Lemma resolve_ser_hop_take reg keep c d s' : RegWF reg -> defines_op reg (c_ext c) (c_name c) d -> keep c = false ->
  ser_hop (resolve_hop reg keep (HOp (OCustom c))) = Some (SOp (OCustom s')) -> c_descr s' = od_descr d.
Proof.
  intros Hwf Hd Hk. cbn [resolve_hop ser_hop]. destruct (ser_op _) as [so|] eqn:E; [|discriminate].
  cbn. intros H. injection H as ->. eapply resolve_op_ser_take; eauto.
Qed.

(* ------------------------------------------------------------------ (d) port types *)
Lemma op_out_type_resolve reg keep o k :
  op_out_type (resolve_hop reg keep o) k = op_out_type o k \/
  (exists c, o = HOp (OCustom c) /\ lookup_op reg (c_ext c) (c_name c) <> None /\
             op_out_type (resolve_hop reg keep o) k = option_map (resolve_ty reg) (op_out_type o k)).
Proof.
  destruct o as [[c|x|j]|j a b l|v]; cbn; auto.
  unfold resolve_custom. destruct (lookup_op reg (c_ext c) (c_name c)) as [d|] eqn:E; cbn; auto.
  right. exists c. rewrite E. split; [reflexivity|]. split; [discriminate|]. apply nth_error_map.
Qed.
Lemma port_type_resolve reg keep h i k :
  port_type (resolve_extensions reg keep h) i k = port_type h i k \/
  (exists n c, get_node h i = Some n /\ n_op n = HOp (OCustom c) /\ lookup_op reg (c_ext c) (c_name c) <> None /\
               port_type (resolve_extensions reg keep h) i k = option_map (resolve_ty reg) (port_type h i k)).
Proof.
  unfold port_type. rewrite resolve_node_at. destruct (get_node h i) as [n|]; cbn; auto.
  destruct (op_out_type_resolve reg keep (n_op n) k) as [E|(c & Ec & Hl & E)]; auto. right. exists n, c. auto.
Qed.
Lemma port_type_related reg keep h i k : RegWF reg ->
  port_type_rel reg (port_type h i k) (port_type (resolve_extensions reg keep h) i k).
Proof.
  intros Hwf. destruct (port_type_resolve reg keep h i k) as [E|(n & c & _ & _ & _ & E)]; [now left|].
  destruct (port_type h i k) as [t|]; cbn in E; [|now left]. right. exists t, (resolve_ty reg t).
  repeat split; auto. now apply resolve_pointwise.
Qed.
Lemma port_type_untouched reg keep h i n k : get_node h i = Some n -> hop_holds (untouchable_op reg) (n_op n) = true ->
  port_type (resolve_extensions reg keep h) i k = port_type h i k.
Proof.
  intros E H. unfold port_type. rewrite resolve_node_at, E. cbn.
  now rewrite (resolve_untouchable reg keep _ H).
Qed.
Lemma port_type_consistent reg keep h i k t : consistent_hugr reg h = true -> port_type h i k = Some t ->
  port_type (resolve_extensions reg keep h) i k = Some t \/ consistent reg t = true.
Proof.
  intros Hc Ht. destruct (port_type_resolve reg keep h i k) as [E|(n & c & En & Ec & _ & _)]; [left; congruence|]. right.
  unfold consistent_hugr, hugr_all in Hc. rewrite forallb_forall in Hc.
  assert (Hin : In (Some n) (h_nodes h)).
  { unfold get_node in En. destruct (nth_error (h_nodes h) i) as [[m|]|] eqn:E; try discriminate.
    injection En as ->. eapply nth_error_In; eauto. }
  specialize (Hc _ Hin). cbn in Hc. rewrite Ec in Hc. cbn in Hc. apply andb_true_iff in Hc as [Hf _].
  unfold consistent_ft in Hf. apply andb_true_iff in Hf as [_ Ho]. rewrite forallb_forall in Ho. apply Ho.
  unfold port_type in Ht. rewrite En, Ec in Ht. cbn in Ht. eapply nth_error_In; eauto.
Qed.
Lemma port_type_facts reg keep h i k : RegWF reg -> consistent_hugr reg h = true ->
  option_map tbound (port_type (resolve_extensions reg keep h) i k) = option_map tbound (port_type h i k) /\
  option_map ser_ty (port_type (resolve_extensions reg keep h) i k) = option_map ser_ty (port_type h i k).
Proof.
  intros Hwf Hc. destruct (port_type h i k) as [t|] eqn:Et.
  - destruct (port_type_consistent _ keep _ _ _ _ Hc Et) as [E|Ht]; [rewrite E; auto|].
    destruct (port_type_resolve reg keep h i k) as [E|(n & c & _ & _ & _ & E)]; rewrite E, ?Et; auto. cbn.
    now rewrite (resolve_bound _ _ Ht), (resolve_ser _ _ Hwf Ht).
  - destruct (port_type_resolve reg keep h i k) as [E|(n & c & _ & _ & _ & E)]; rewrite E, ?Et; auto.
Qed.

(* ------------------------------------------------------------------ the computing relations are sound *)
Lemma list_eqb_eq {A} (f : A -> A -> bool) : (forall a b, f a b = true -> a = b) ->
  forall l m, list_eqb f l m = true -> l = m.
Proof. intros H l m E. rewrite list_eqb_leq in E. eapply leq_eq; [|exact E]. apply Forall_forall. auto. Qed.
Lemma option_eqb_eq {A} (f : A -> A -> bool) : (forall a b, f a b = true -> a = b) ->
  forall x y, option_eqb f x y = true -> x = y.
Proof. intros H [a|] [b|]; cbn; try discriminate; auto. intros E. f_equal. auto. Qed.
Lemma nat_eqb_eq a b : Nat.eqb a b = true -> a = b.
Proof. apply Nat.eqb_eq. Qed.
Lemma N_eqb_eq a b : N.eqb a b = true -> a = b.
Proof. apply N.eqb_eq. Qed.

Lemma node_frame_b_sound {A B} (n : node A md) (n' : node B md) : node_frame_b n n' = true -> node_frame n n'.
Proof.
  unfold node_frame_b, node_frame. rewrite !andb_true_iff. intros ((((H1 & H2) & H3) & H4) & H5).
  apply (option_eqb_eq _ nat_eqb_eq) in H1. apply (list_eqb_eq _ nat_eqb_eq) in H2.
  apply N.eqb_eq in H3. apply Nat.eqb_eq in H4. apply Nat.eqb_eq in H5. auto.
Qed.
Lemma aoff_eqb_eq a b : aoff_eqb a b = true -> a = b.
Proof. destruct a, b; cbn; try discriminate; auto. intros E. apply Nat.eqb_eq in E. now subst. Qed.
Lemma port_eqb_eq (a b : port) : port_eqb a b = true -> a = b.
Proof.
  destruct a, b. unfold port_eqb. cbn. rewrite andb_true_iff. intros [H1 H2].
  apply Nat.eqb_eq in H1. apply aoff_eqb_eq in H2. now subst.
Qed.
Lemma link_eqb_eq (a b : link) : link_eqb a b = true -> a = b.
Proof.
  destruct a, b. unfold link_eqb. cbn. rewrite andb_true_iff. intros [H1 H2].
  apply port_eqb_eq in H1. apply port_eqb_eq in H2. now subst.
Qed.
Lemma links_eqb_eq a b : list_eqb link_eqb a b = true -> a = b.
Proof. apply list_eqb_eq. exact link_eqb_eq. Qed.

(* the local loops of cval_eqb / sval_rel as list functions *)
Definition slots_b (f : hop -> hop -> bool) : list (option nodeT) -> list (option nodeT) -> bool :=
  fix go l m :=
    match l, m with
    | [], [] => true
    | None :: r, None :: s => go r s
    | Some n :: r, Some n' :: s => node_frame_b n n' && f (n_op n) (n_op n') && go r s
    | _, _ => false
    end.
Lemma cval_eqb_func b b' :
  cval_eqb (VFunc b) (VFunc b') =
  Nat.eqb (h_root b') (h_root b) && list_eqb link_eqb (h_links b') (h_links b) &&
  slots_b hop_eqb (h_nodes b) (h_nodes b').
Proof. reflexivity. Qed.
Lemma cval_eqb_sum k vs k' vs' : cval_eqb (VSum k vs) (VSum k' vs') = N.eqb k k' && leq cval_eqb vs vs'.
Proof. reflexivity. Qed.
Lemma slots_b_sound (f : hop -> hop -> bool) (R : hop -> hop -> Prop) l :
  Forall (slot_all (fun o => forall o', f o o' = true -> R o o')) l ->
  forall m, slots_b f l m = true -> Forall2 (slot_rel (fun n n' : nodeT => node_frame n n' /\ R (n_op n) (n_op n'))) l m.
Proof.
  induction 1 as [|x l Hx _ IH]; intros [|y m]; try destruct x as [n|]; try destruct y as [n'|];
    cbn; try discriminate; [constructor| |].
  - rewrite !andb_true_iff. intros [[H1 H2] H3]. constructor; [|auto]. constructor.
    split; [now apply node_frame_b_sound|]. now apply Hx.
  - intros H. constructor; [constructor|auto].
Qed.
Lemma node_ext (n n' : nodeT) : node_frame n n' -> n_op n = n_op n' -> n = n'.
Proof. destruct n, n'. unfold node_frame. cbn. intros (-> & -> & -> & -> & ->) ->. reflexivity. Qed.
Lemma slots_eq (l m : list (option nodeT)) :
  Forall2 (slot_rel (fun n n' : nodeT => node_frame n n' /\ n_op n = n_op n')) l m -> l = m.
Proof.
  induction 1 as [|x y l m Hxy _ IH]; [reflexivity|]. f_equal; [|exact IH].
  destruct Hxy as [|n n' [Hf Ho]]; [reflexivity|]. f_equal. now apply node_ext.
Qed.

(* hop_eqb is equality, nested HUGRs included: a constant that passes the monitor is the same constant *)
Lemma hop_eqb_eq_both :
  (forall a b, hop_eqb a b = true -> a = b) /\ (forall v w, cval_eqb v w = true -> v = w).
Proof.
  apply hop_both_ind.
  - intros o [o'|? ? ? ?|?]; cbn; try discriminate. intros H. f_equal. now apply op_eqb_eq.
  - intros k a b l [?|k' a' b' l'|?]; cbn; try discriminate. rewrite !andb_true_iff. intros [[[H1 H2] H3] H4].
    apply N.eqb_eq in H1. apply (option_eqb_eq _ nat_eqb_eq) in H2. apply (option_eqb_eq _ nat_eqb_eq) in H3.
    apply (list_eqb_eq _ (option_eqb_eq _ ty_eqb_eq)) in H4. now subst.
  - intros v IH [?|? ? ? ?|w]; cbn; try discriminate. intros H. f_equal. now apply IH.
  - intros b IH [b'|? ?|?]; try (cbn; discriminate). rewrite cval_eqb_func, !andb_true_iff. intros [[H1 H2] H3].
    apply Nat.eqb_eq in H1. apply links_eqb_eq in H2. f_equal.
    pose proof (slots_b_sound hop_eqb eq _ IH _ H3) as Hs. apply slots_eq in Hs.
    destruct b, b'; cbn in *. now subst.
  - intros k vs IH [?|k' vs'|?]; try (cbn; discriminate). rewrite cval_eqb_sum, andb_true_iff. intros [H1 H2].
    apply N.eqb_eq in H1. subst. f_equal. eapply leq_eq; eauto.
  - intros k [?|? ?|k']; cbn; try discriminate. intros H. apply N.eqb_eq in H. now subst.
Qed.
Lemma hop_eqb_eq a b : hop_eqb a b = true -> a = b.
Proof. apply hop_eqb_eq_both. Qed.

Lemma rhop_b_sound reg a b : rhop_b reg a b = true -> RHop reg a b.
Proof.
  destruct a as [o|k x y l|v], b as [o'|k' x' y' l'|v']; unfold rhop_b;
    try (intros H; apply hop_eqb_eq in H; try discriminate; injection H; intros; subst; constructor).
  intros H. constructor. now apply rop_b_sound.
Qed.
Lemma rhugr_b_sound reg h h' : rhugr_b reg h h' = true -> RHugr reg h h'.
Proof.
  unfold rhugr_b, RHugr. rewrite !andb_true_iff. intros [[H1 H2] H3]. apply Nat.eqb_eq in H1. apply links_eqb_eq in H2.
  repeat split; auto. rewrite list_eqb_leq in H3. eapply leq_Forall2; [|exact H3]. apply Forall_forall.
  intros [n|] _ [n'|]; cbn; try discriminate; [|constructor]. rewrite andb_true_iff. intros [Ha Hb]. constructor.
  split; [now apply node_frame_b_sound|]. now apply rhop_b_sound.
Qed.
(* in particular: a constant (function values and their HUGRs included) that the monitor accepts is unchanged *)
Lemma rhop_b_const reg v o : rhop_b reg (HConst v) o = true -> o = HConst v.
Proof. intros H. unfold rhop_b in H. apply hop_eqb_eq in H. now subst. Qed.

(* documents *)
Lemma same_but_descr_b_sound reg a b : same_but_descr_b reg a b = true -> same_but_descr reg a b.
Proof.
  destruct a as [c|x|k], b as [c'|x'|k']; cbn [same_but_descr_b same_but_descr];
    try (intros H; apply op_eqb_eq in H; congruence).
  rewrite !andb_true_iff, orb_true_iff. intros [[[[H1 H2] H3] H4] H5].
  apply N.eqb_eq in H1. apply N.eqb_eq in H2. apply ft_eqb_eq in H3. apply tyargs_eqb_eq in H4.
  repeat split; auto. destruct H5 as [H5|H5]; [left; now apply N.eqb_eq|right].
  apply existsb_exists in H5 as [d [Hd E]]. exists d. split; [now apply In_defs_op|now apply N.eqb_eq].
Qed.

Section SopInd.
  Variables (P : sop -> Prop) (Q : sval -> Prop).
  Hypothesis SOp_ : forall o, P (SOp o).
  Hypothesis SOther_ : forall k, P (SOther k).
  Hypothesis SConst_ : forall v, Q v -> P (SConst v).
  Hypothesis SVFunc_ : forall d, Forall (fun n => P (s_op n)) (s_nodes d) -> Q (SVFunc d).
  Hypothesis SVSum_ : forall k vs, Forall Q vs -> Q (SVSum k vs).
  Hypothesis SVLeaf_ : forall k, Q (SVLeaf k).
  Fixpoint sop_ind2 (o : sop) : P o :=
    match o with
    | SOp o => SOp_ o
    | SOther k => SOther_ k
    | SConst v => SConst_ v (sval_ind2 v)
    end
  with sval_ind2 (v : sval) : Q v :=
    match v with
    | SVFunc d =>
        SVFunc_ d ((fix go (l : list (snode sop)) : Forall (fun n => P (s_op n)) l :=
                      match l with [] => Forall_nil _ | x :: r => Forall_cons x (sop_ind2 (s_op x)) (go r) end) (s_nodes d))
    | SVSum k vs =>
        SVSum_ k vs ((fix go (l : list sval) : Forall Q l :=
                        match l with [] => Forall_nil _ | x :: r => Forall_cons x (sval_ind2 x) (go r) end) vs)
    | SVLeaf k => SVLeaf_ k
    end.
  Lemma sop_both_ind : (forall o, P o) /\ (forall v, Q v).
  Proof. split; [exact sop_ind2|exact sval_ind2]. Qed.
End SopInd.

Definition snodes_b (f : sop -> sop -> bool) : list (snode sop) -> list (snode sop) -> bool :=
  leq (fun a b => Nat.eqb (s_parent b) (s_parent a) && f (s_op a) (s_op b)).
Lemma sval_rel_func rel d d' :
  sval_rel rel (SVFunc d) (SVFunc d') =
  list_eqb sedge_eqb (s_edges d') (s_edges d) && smeta_eqb (s_meta d') (s_meta d) &&
  snodes_b (sop_rel rel) (s_nodes d) (s_nodes d').
Proof. reflexivity. Qed.
Lemma sval_rel_sum rel k vs k' vs' : sval_rel rel (SVSum k vs) (SVSum k' vs') = N.eqb k k' && leq (sval_rel rel) vs vs'.
Proof. reflexivity. Qed.

Lemma sport_eqb_eq (a b : sport) : sport_eqb a b = true -> a = b.
Proof.
  destruct a, b. unfold sport_eqb. cbn. rewrite andb_true_iff. intros [H1 H2].
  apply Nat.eqb_eq in H1. apply (option_eqb_eq _ nat_eqb_eq) in H2. now subst.
Qed.
Lemma sedges_eqb_eq a b : list_eqb sedge_eqb a b = true -> a = b.
Proof.
  apply list_eqb_eq. intros [a1 a2] [b1 b2]. unfold sedge_eqb. cbn. rewrite andb_true_iff. intros [H1 H2].
  apply sport_eqb_eq in H1. apply sport_eqb_eq in H2. now subst.
Qed.
Lemma smeta_eqb_eq a b : smeta_eqb a b = true -> a = b.
Proof. apply option_eqb_eq. apply list_eqb_eq. apply option_eqb_eq. exact N_eqb_eq. Qed.

Lemma snodes_b_sound (f : sop -> sop -> bool) (R : sop -> sop -> Prop) l :
  Forall (fun n => forall o', f (s_op n) o' = true -> R (s_op n) o') l ->
  forall m, snodes_b f l m = true -> Forall2 (fun a b => s_parent b = s_parent a /\ R (s_op a) (s_op b)) l m.
Proof.
  intros H m Hm. unfold snodes_b in Hm. eapply leq_Forall2; [|exact Hm].
  eapply Forall_impl; [|exact H]. cbn. intros a Ha b. rewrite andb_true_iff. intros [H1 H2].
  apply Nat.eqb_eq in H1. auto.
Qed.

Lemma snode_ext (a b : snode sop) : s_parent b = s_parent a -> s_op a = s_op b -> a = b.
Proof. destruct a, b. cbn. intros -> ->. reflexivity. Qed.
(* sop_eqb is equality, the documents of function values included *)
Lemma sop_eqb_eq_both :
  (forall a b, sop_rel op_eqb a b = true -> a = b) /\ (forall v w, sval_rel op_eqb v w = true -> v = w).
Proof.
  apply sop_both_ind.
  - intros o [o'|?|?]; cbn; try discriminate. intros H. f_equal. now apply op_eqb_eq.
  - intros k [?|k'|?]; cbn; try discriminate. intros H. apply N.eqb_eq in H. now subst.
  - intros v IH [?|?|w]; cbn; try discriminate. intros H. f_equal. now apply IH.
  - intros d IH [d'|? ?|?]; try (cbn; discriminate). rewrite sval_rel_func, !andb_true_iff. intros [[H1 H2] H3].
    apply sedges_eqb_eq in H1. apply smeta_eqb_eq in H2. f_equal.
    pose proof (snodes_b_sound (sop_rel op_eqb) eq _ IH _ H3) as Hs.
    assert (E : s_nodes d = s_nodes d').
    { clear -Hs. induction Hs as [|a b l m [Hp Ho] _ IHs]; [reflexivity|]. f_equal; [now apply snode_ext|exact IHs]. }
    destruct d, d'; cbn in *. now subst.
  - intros k vs IH [?|k' vs'|?]; try (cbn; discriminate). rewrite sval_rel_sum, andb_true_iff. intros [H1 H2].
    apply N.eqb_eq in H1. subst. f_equal. eapply leq_eq; eauto.
  - intros k [?|? ?|k']; cbn; try discriminate. intros H. apply N.eqb_eq in H. now subst.
Qed.
Lemma sop_eqb_eq a b : sop_eqb a b = true -> a = b.
Proof. apply sop_eqb_eq_both. Qed.
Lemma same_sop_b_sound reg a b : same_sop_b reg a b = true -> SameSop reg a b.
Proof.
  destruct a as [o|k|v], b as [o'|k'|v']; unfold same_sop_b;
    try (intros H; apply sop_eqb_eq in H; try discriminate; injection H; intros; subst; constructor).
  intros H. constructor. now apply same_but_descr_b_sound.
Qed.
Lemma same_doc_b_sound reg d d' : same_doc_b reg d d' = true -> SameDoc reg d d'.
Proof.
  unfold same_doc_b, SameDoc. rewrite !andb_true_iff. intros [[H1 H2] H3].
  apply sedges_eqb_eq in H1. apply smeta_eqb_eq in H2. repeat split; auto.
  rewrite list_eqb_leq in H3. eapply leq_Forall2; [|exact H3]. apply Forall_forall. intros a _ b.
  rewrite andb_true_iff. intros [Ha Hb]. apply Nat.eqb_eq in Ha. split; auto. now apply same_sop_b_sound.
Qed.

(* ------------------------------------------------------------------ the hypotheses are satisfiable, non-trivially *)
Module ExH.
  (* a function body: DFG root, Input, Output, the opaque operation Ex.c (its definition is in Ex.reg) *)
  Definition body : hugrT :=
    {| h_nodes := [Some {| n_op := HOther 20 (Some 1) (Some 1) []; n_parent := None; n_children := [1; 2; 3]; n_md := 0%N;
                           n_nin := 0; n_nout := 0 |};
                   Some {| n_op := HOther 21 (Some 0) (Some 1) [Some Ex.tT]; n_parent := Some 0; n_children := []; n_md := 0%N;
                           n_nin := 0; n_nout := 1 |};
                   Some {| n_op := HOther 22 (Some 1) (Some 0) []; n_parent := Some 0; n_children := []; n_md := 0%N;
                           n_nin := 1; n_nout := 0 |};
                   Some {| n_op := HOp (OCustom Ex.c); n_parent := Some 0; n_children := []; n_md := 5%N;
                           n_nin := 1; n_nout := 1 |}];
       h_root := 0;
       h_links := [((1, APort 0), (3, APort 0)); ((3, APort 0), (2, APort 0)); ((1, AOrder), (3, AOrder))] |}.
  (* the HUGR: a root, a hole, the opaque operation, and a constant holding the function value inside a sum value *)
  Definition h : hugrT :=
    {| h_nodes := [Some {| n_op := HOther 10 None None []; n_parent := None; n_children := [2; 3]; n_md := 0%N;
                           n_nin := 0; n_nout := 0 |};
                   None;
                   Some {| n_op := HOp (OCustom Ex.c); n_parent := Some 0; n_children := []; n_md := 7%N;
                           n_nin := 1; n_nout := 2 |};
                   Some {| n_op := HConst (VSum 30 [VLeaf 31; VFunc body]); n_parent := Some 0; n_children := [];
                           n_md := 0%N; n_nin := 0; n_nout := 1 |}];
       h_root := 0;
       h_links := [((2, APort 0), (2, APort 0)); ((2, AOrder), (3, AOrder))] |}.
End ExH.
Example exh_nontrivial :
  RegWF Ex.reg /\ consistent_hugr Ex.reg ExH.h = true /\ hugr_all (untouchable_op Ex.reg) ExH.h = false /\
  get_node ExH.h 1 = None /\
  hugr_eqb (resolve_extensions Ex.reg take_definitions ExH.h) ExH.h = false /\ rhugr_b Ex.reg ExH.h (resolve_extensions Ex.reg take_definitions ExH.h) = true /\
  (exists s s', hugr_doc ExH.h = Some s /\ hugr_doc (resolve_extensions Ex.reg take_definitions ExH.h) = Some s' /\
                doc_eqb s s' = false /\ same_doc_b Ex.reg s s' = true) /\
  (exists t, port_type ExH.h 2 0 = Some t /\ port_type (resolve_extensions Ex.reg take_definitions ExH.h) 2 0 = Some (resolve_ty Ex.reg t) /\
             ty_eqb (resolve_ty Ex.reg t) t = false) /\
  port_type ExH.h 2 1 = None /\
  get_node (resolve_extensions Ex.reg take_definitions ExH.h) 3 = get_node ExH.h 3 /\ hugr_all (untouchable_op Ex.reg) ExH.body = false /\
  (* an implementation that keeps the loaded description: the operation is resolved all the same, the document is identical *)
  hugr_eqb (resolve_extensions Ex.reg keep_loaded ExH.h) ExH.h = false /\
  rhugr_b Ex.reg ExH.h (resolve_extensions Ex.reg keep_loaded ExH.h) = true /\
  hugr_doc (resolve_extensions Ex.reg keep_loaded ExH.h) = hugr_doc ExH.h /\ hugr_doc ExH.h <> None.
Proof.
  split; [exact ex_regwf|]. repeat split; try (vm_compute; reflexivity).
  - do 2 eexists. repeat split; vm_compute; reflexivity.
  - eexists. repeat split; vm_compute; reflexivity.
  - vm_compute. discriminate.
Qed.

(* ------------------------------------------------------------------ property-level statements *)
Lemma hugr_loop_is_map_thm : forall reg keep h,
  resolve_extensions reg keep h = map_hugr (resolve_hop reg keep) h /\
  (forall i, get_node (resolve_extensions reg keep h) i = option_map (map_node (resolve_hop reg keep)) (get_node h i)).
Proof. intros reg keep h. split; [apply resolve_extensions_map|intros i; apply resolve_node_at]. Qed.

Lemma hugr_frame_thm : forall reg keep h,
  same_frame h (resolve_extensions reg keep h) /\ live (resolve_extensions reg keep h) = live h /\
  length (h_nodes (resolve_extensions reg keep h)) = length (h_nodes h).
Proof.
  intros reg keep h. split; [apply resolve_frame|]. rewrite resolve_extensions_map. split; [apply live_map|].
  cbn. apply map_length.
Qed.

Lemma hugr_resolve_pointwise_thm : forall reg keep, RegWF reg ->
  (forall h, RHugr reg h (resolve_extensions reg keep h)) /\ (forall o, RHop reg o (resolve_hop reg keep o)).
Proof.
  intros reg keep Hwf. split; [intros h; now apply resolve_hugr_rel|intros o; now apply resolve_hop_rel].
Qed.

Lemma hugr_only_defined_ops_change_thm : forall reg keep,
  (forall o, hop_holds (untouchable_op reg) o = true -> resolve_hop reg keep o = o) /\
  (RegWF reg -> forall o, resolve_hop reg keep o = o -> hop_holds (untouchable_op reg) o = true) /\
  (forall h, hugr_all (untouchable_op reg) h = true -> resolve_extensions reg keep h = h) /\
  (forall h i n, get_node h i = Some n -> hop_holds (untouchable_op reg) (n_op n) = true ->
                 get_node (resolve_extensions reg keep h) i = Some n).
Proof.
  intros reg keep. split; [apply resolve_untouchable|]. split; [intros Hwf o; now apply resolve_fixed|]. split.
  - intros h H. rewrite resolve_extensions_map. apply map_hugr_id. unfold hugr_all in H. rewrite forallb_Forall in H.
    eapply Forall_impl; [|exact H]. intros [n|]; cbn; [|trivial]. apply resolve_untouchable.
  - intros h i n E H. rewrite resolve_node_at, E. cbn. f_equal. apply map_node_id. now apply resolve_untouchable.
Qed.

(* constants belong to the frame *)
Lemma hugr_constants_untouched_thm : forall reg keep,
  (forall v, resolve_hop reg keep (HConst v) = HConst v) /\
  (forall h i n v, get_node h i = Some n -> n_op n = HConst v -> get_node (resolve_extensions reg keep h) i = Some n) /\
  (forall v o, rhop_b reg (HConst v) o = true -> o = HConst v) /\
  (forall v o, RHop reg (HConst v) o -> o = HConst v).
Proof.
  intros reg keep. split; [reflexivity|]. split.
  - intros h i n v E Ho. rewrite resolve_node_at, E. cbn. f_equal. apply map_node_id. now rewrite Ho.
  - split; [apply rhop_b_const|]. intros v o H. inversion H. reflexivity.
Qed.

Lemma hugr_idempotent_thm : forall reg keep keep',
  (forall h, resolve_extensions reg keep' (resolve_extensions reg keep h) = resolve_extensions reg keep h) /\
  (forall o, resolve_hop reg keep' (resolve_hop reg keep o) = resolve_hop reg keep o).
Proof. intros reg keep keep'. split; [apply resolve_extensions_idem|apply resolve_hop_idem]. Qed.

Lemma hugr_document_thm : forall reg keep, RegWF reg ->
  (forall h s, consistent_hugr reg h = true -> hugr_doc h = Some s ->
     exists s', hugr_doc (resolve_extensions reg keep h) = Some s' /\ SameDoc reg s s') /\
  (forall b, ser_val (VFunc b) = match to_serial ser_hop hop_ndp md_is_nil b with
                                 | Some d => option_map SVFunc (seq_serial d)
                                 | None => None
                                 end) /\
  (forall h, consistent_hugr reg h = true -> hugr_all (keeps_descr keep) h = true ->
     hugr_doc (resolve_extensions reg keep h) = hugr_doc h) /\
  (forall c d s', defines_op reg (c_ext c) (c_name c) d -> keep c = false ->
     ser_hop (resolve_hop reg keep (HOp (OCustom c))) = Some (SOp (OCustom s')) -> c_descr s' = od_descr d).
Proof.
  intros reg keep Hwf. split; [intros h s; now apply resolve_doc|]. split; [apply ser_val_func_eq|].
  split; [intros h; now apply resolve_doc_keep|]. intros c d s'. now apply resolve_ser_hop_take.
Qed.

Lemma document_frame_through_enc_thm :
  forall (A S M : Type) (enc : A -> S) (ndp : A -> dir -> option nat) (nil : M -> bool) (f : A -> A)
         (R : S -> S -> Prop) (h : hugr A M),
  (forall n, In (Some n) (h_nodes h) ->
     (forall d, ndp (f (n_op n)) d = ndp (n_op n) d) /\ R (enc (n_op n)) (enc (f (n_op n)))) ->
  match to_serial enc ndp nil h, to_serial enc ndp nil (map_hugr f h) with
  | Some s, Some s' =>
      s_edges s' = s_edges s /\ s_meta s' = s_meta s /\
      Forall2 (fun a b => s_parent b = s_parent a /\ R (s_op a) (s_op b)) (s_nodes s) (s_nodes s')
  | None, None => True
  | _, _ => False
  end.
Proof.
  intros A S M enc ndp nil f R h H.
  assert (E : orel (serial_rel R) (to_serial enc ndp nil h) (to_serial enc ndp nil (map_hugr f h))).
  { apply to_serial_map. apply Forall_forall. intros [n|] Hin; [|trivial]. now apply H. }
  destruct (to_serial enc ndp nil h), (to_serial enc ndp nil (map_hugr f h)); exact E.
Qed.

Lemma hugr_port_types_thm : forall reg keep h i k,
  (port_type (resolve_extensions reg keep h) i k = port_type h i k \/
   exists n c, get_node h i = Some n /\ n_op n = HOp (OCustom c) /\ lookup_op reg (c_ext c) (c_name c) <> None /\
               port_type (resolve_extensions reg keep h) i k = option_map (resolve_ty reg) (port_type h i k)) /\
  (RegWF reg -> port_type_rel reg (port_type h i k) (port_type (resolve_extensions reg keep h) i k)) /\
  (forall n, get_node h i = Some n -> hop_holds (untouchable_op reg) (n_op n) = true ->
             port_type (resolve_extensions reg keep h) i k = port_type h i k) /\
  (RegWF reg -> consistent_hugr reg h = true ->
     option_map tbound (port_type (resolve_extensions reg keep h) i k) = option_map tbound (port_type h i k) /\
     option_map ser_ty (port_type (resolve_extensions reg keep h) i k) = option_map ser_ty (port_type h i k)) /\
  (forall d n, get_node h i = Some n -> hop_ndp (resolve_hop reg keep (n_op n)) d = hop_ndp (n_op n) d).
Proof.
  intros reg keep h i k. split; [apply port_type_resolve|]. split; [intros; now apply port_type_related|].
  split; [intros n; apply port_type_untouched|]. split; [intros; now apply port_type_facts|].
  intros d n _. apply resolve_hop_ndp.
Qed.

Lemma hugr_monitor_sound_thm : forall reg,
  (forall h h', rhugr_b reg h h' = true -> RHugr reg h h') /\
  (forall d d', same_doc_b reg d d' = true -> SameDoc reg d d') /\
  (forall a b, port_type_rel_b reg a b = true -> port_type_rel reg a b).
Proof.
  intros reg. split; [apply rhugr_b_sound|]. split; [apply same_doc_b_sound|].
  intros a b. unfold port_type_rel_b, port_type_rel. rewrite orb_true_iff. intros [H|H].
  - left. now apply (option_eqb_eq _ ty_eqb_eq).
  - destruct a as [t|], b as [t'|]; try discriminate. right. exists t, t'. repeat split. now apply rty_b_sound.
Qed.

(* ------------------------------------------------------------------ every depth, at HUGR level *)
Lemma resolve_op_deep reg keep o : RegWF reg -> op_loaded o = true -> op_clean reg (resolve_op reg keep o) = true.
Proof.
  intros Hwf. destruct o as [c|x|k]; cbn [resolve_op op_loaded]; try discriminate; [|reflexivity].
  rewrite !andb_true_iff. intros [[Hi Ho] Ha]. unfold resolve_custom.
  destruct (lookup_op reg (c_ext c) (c_name c)) as [d|]; [|reflexivity].
  cbn [op_clean x_sig x_args resolve_ft ft_in ft_out]. rewrite !forallb_map, !andb_true_iff.
  repeat split; apply forallb_forall; intros t Ht.
  - apply resolve_deep; auto. rewrite forallb_forall in Hi. auto.
  - apply resolve_deep; auto. rewrite forallb_forall in Ho. auto.
  - apply resolve_arg_deep; auto. rewrite forallb_forall in Ha. auto.
Qed.
Lemma hugr_reaches_every_depth_thm : forall reg keep, RegWF reg ->
  (forall h, hugr_all op_loaded h = true -> hugr_all (op_clean reg) (resolve_extensions reg keep h) = true) /\
  (forall o, op_loaded o = true -> op_clean reg (resolve_op reg keep o) = true).
Proof.
  intros reg keep Hwf. split; [|intros o; now apply resolve_op_deep].
  intros h H. rewrite resolve_extensions_map. unfold hugr_all in *. cbn [map_hugr h_nodes]. rewrite forallb_map.
  rewrite forallb_Forall in *. eapply Forall_impl; [|exact H]. intros [n|]; cbn; [|trivial].
  destruct (n_op n) as [o|k a b l|v]; cbn; auto. now apply resolve_op_deep.
Qed.
