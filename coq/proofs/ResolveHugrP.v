(* C11, second pass — proofs about model/ResolveHugr.v against spec/ResolveHugrS.v: resolution on the whole HUGR.
   The per-operation theorems of proofs/ResolveP.v are used at every node, and at every node of every HUGR held
   by a function value inside a constant. *)
From Coq Require Import NArith List Bool Arith Lia.
Import ListNotations.
From HV Require Import lib.Harness model.Types model.Resolve spec.ResolveS proofs.ResolveP.
From HV Require Import model.SerialHugr model.ResolveHugr spec.ResolveHugrS.

(* ------------------------------------------------------------------ induction over operations with nested HUGRs *)
Definition slot_all (P : hop -> Prop) (x : option nodeT) : Prop :=
  match x with Some n => P (n_op n) | None => True end.

Section HopInd.
  Variables (P : hop -> Prop) (Q : cval -> Prop).
  Hypothesis HOp_ : forall o, P (HOp o).
  Hypothesis HOther_ : forall k a b l, P (HOther k a b l).
  Hypothesis HConst_ : forall v, Q v -> P (HConst v).
  Hypothesis VFunc_ : forall b, Forall (slot_all P) (h_nodes b) -> Q (VFunc b).
  Hypothesis VSum_ : forall k vs, Forall Q vs -> Q (VSum k vs).
  Hypothesis VLeaf_ : forall k, Q (VLeaf k).
  Fixpoint hop_ind2 (o : hop) : P o :=
    match o with
    | HOp o => HOp_ o
    | HOther k a b l => HOther_ k a b l
    | HConst v => HConst_ v (cval_ind2 v)
    end
  with cval_ind2 (v : cval) : Q v :=
    match v with
    | VFunc b =>
        VFunc_ b ((fix go (l : list (option nodeT)) : Forall (slot_all P) l :=
                     match l with
                     | [] => Forall_nil _
                     | x :: r => Forall_cons x (match x return slot_all P x with
                                                | Some n => hop_ind2 (n_op n)
                                                | None => I
                                                end) (go r)
                     end) (h_nodes b))
    | VSum k vs =>
        VSum_ k vs ((fix go (l : list cval) : Forall Q l :=
                       match l with [] => Forall_nil _ | x :: r => Forall_cons x (cval_ind2 x) (go r) end) vs)
    | VLeaf k => VLeaf_ k
    end.
  Lemma hop_both_ind : (forall o, P o) /\ (forall v, Q v).
  Proof. split; [exact hop_ind2|exact cval_ind2]. Qed.
End HopInd.

(* ------------------------------------------------------------------ the node table mapped *)
Lemma with_op_map_node (f : hop -> hop) (n : nodeT) : with_op n (f (n_op n)) = map_node f n.
Proof. reflexivity. Qed.
Lemma map_node_id {A M} (f : A -> A) (n : node A M) : f (n_op n) = n_op n -> map_node f n = n.
Proof. destruct n; unfold map_node; cbn. intros ->. reflexivity. Qed.
Lemma map_hugr_ext {A B M} (f g : A -> B) (h : hugr A M) :
  Forall (fun x => match x with Some n => f (n_op n) = g (n_op n) | None => True end) (h_nodes h) ->
  map_hugr f h = map_hugr g h.
Proof.
  intros H. unfold map_hugr. f_equal. induction H as [|x l Hx _ IH]; cbn; [reflexivity|]. f_equal; [|exact IH].
  destruct x as [n|]; cbn; [|reflexivity]. unfold map_node. now rewrite Hx.
Qed.
Lemma map_hugr_id {A M} (f : A -> A) (h : hugr A M) :
  Forall (fun x => match x with Some n => f (n_op n) = n_op n | None => True end) (h_nodes h) -> map_hugr f h = h.
Proof.
  intros H. destruct h as [ns r ls]. unfold map_hugr. cbn in *. f_equal.
  induction H as [|x l Hx _ IH]; cbn; [reflexivity|]. f_equal; [|exact IH].
  destruct x as [n|]; cbn; [|reflexivity]. now rewrite map_node_id.
Qed.
Lemma map_hugr_map_hugr {A B C M} (f : A -> B) (g : B -> C) (h : hugr A M) :
  map_hugr g (map_hugr f h) = map_hugr (fun o => g (f o)) h.
Proof.
  unfold map_hugr. cbn. f_equal. rewrite map_map. apply map_ext. intros [n|]; reflexivity.
Qed.
Lemma map_fix_Forall {A} (g : A -> A) l : map g l = l -> Forall (fun x => g x = x) l.
Proof. induction l as [|x l IH]; cbn; intros H; constructor; injection H; auto. Qed.
Lemma map_hugr_fix (f : hop -> hop) (h : hugrT) :
  map_hugr f h = h -> Forall (slot_all (fun o => f o = o)) (h_nodes h).
Proof.
  destruct h as [ns r ls]. unfold map_hugr. cbn. intros H. injection H as H.
  apply map_fix_Forall in H. eapply Forall_impl; [|exact H]. intros [n|]; cbn; [|trivial].
  intros E. injection E as E. destruct n; cbn in *. injection E; auto.
Qed.

Lemma get_node_map {A B M} (f : A -> B) (h : hugr A M) i :
  get_node (map_hugr f h) i = option_map (map_node f) (get_node h i).
Proof.
  unfold get_node, map_hugr. cbn. rewrite nth_error_map. destruct (nth_error (h_nodes h) i) as [[n|]|]; reflexivity.
Qed.
Lemma live_from_map {A B M} (g : node A M -> node B M) l i : live_from (map (option_map g) l) i = live_from l i.
Proof. revert i. induction l as [|[n|] l IH]; intros i; cbn; [reflexivity| |]; now rewrite IH. Qed.
Lemma live_map {A B M} (f : A -> B) (h : hugr A M) : live (map_hugr f h) = live h.
Proof. apply live_from_map. Qed.
Lemma rekey_map {A B M} (f : A -> B) (h : hugr A M) i : rekey (map_hugr f h) i = rekey h i.
Proof. unfold rekey. now rewrite live_map. Qed.

(* ------------------------------------------------------------------ the loop of resolve_extensions is the map *)
Lemma nth_error_mid {A} (pre : list A) x r : nth_error (pre ++ x :: r) (length pre) = Some x.
Proof. induction pre; cbn; auto. Qed.
Lemma set_nth_mid {A} (pre : list A) x y r : set_nth (pre ++ x :: r) (length pre) y = pre ++ y :: r.
Proof. induction pre as [|a pre IH]; cbn; [reflexivity|]. now rewrite IH. Qed.

Lemma resolve_loop_from reg root ls l : forall pre,
  fold_left (resolve_step reg) (live_from l (length pre)) {| h_nodes := pre ++ l; h_root := root; h_links := ls |} =
  {| h_nodes := pre ++ map (option_map (map_node (resolve_hop reg))) l; h_root := root; h_links := ls |}.
Proof.
  induction l as [|[n|] l IH]; intros pre; cbn [live_from map fold_left option_map].
  - reflexivity.
  - assert (E : resolve_step reg {| h_nodes := pre ++ Some n :: l; h_root := root; h_links := ls |} (length pre) =
                {| h_nodes := (pre ++ [Some (map_node (resolve_hop reg) n)]) ++ l; h_root := root; h_links := ls |}).
    { unfold resolve_step, set_op, get_node. cbn [h_nodes h_root h_links]. rewrite nth_error_mid, set_nth_mid.
      rewrite <- app_assoc. reflexivity. }
    rewrite E. replace (S (length pre)) with (length (pre ++ [Some (map_node (resolve_hop reg) n)]))
      by (rewrite app_length; cbn; lia).
    rewrite IH. now rewrite <- app_assoc.
  - replace (pre ++ None :: l) with ((pre ++ [None]) ++ l) by now rewrite <- app_assoc.
    replace (S (length pre)) with (length (pre ++ [@None nodeT])) by (rewrite app_length; cbn; lia).
    rewrite IH. now rewrite <- app_assoc.
Qed.
Lemma resolve_extensions_map reg h : resolve_extensions reg h = map_hugr (resolve_hop reg) h.
Proof. destruct h as [ns r ls]. exact (resolve_loop_from reg r ls ns []). Qed.

(* ------------------------------------------------------------------ (a) the frame, and exactly the resolvable operations replaced *)
Lemma slots_map_rel (R : hop -> hop -> Prop) (f : hop -> hop) ns :
  Forall (slot_all (fun o => R o (f o))) ns ->
  Forall2 (slot_rel (fun n n' : nodeT => node_frame n n' /\ R (n_op n) (n_op n'))) ns (map (option_map (map_node f)) ns).
Proof.
  induction 1 as [|x l Hx _ IH]; cbn; constructor; [|exact IH].
  destruct x as [n|]; cbn; constructor. split; [repeat split|exact Hx].
Qed.

Lemma resolve_frame reg h : same_frame h (resolve_extensions reg h).
Proof.
  rewrite resolve_extensions_map. repeat split. cbn.
  induction (h_nodes h) as [|[n|] l IH]; cbn; constructor; auto; constructor. repeat split.
Qed.

Lemma resolve_hop_rel_both reg : RegWF reg ->
  (forall o, RHop reg o (resolve_hop reg o)) /\ (forall v, RVal reg v (resolve_val reg v)).
Proof.
  intros Hwf. apply hop_both_ind; cbn [resolve_hop resolve_val].
  - intros o. constructor. now apply resolve_op_pointwise.
  - constructor.
  - now constructor.
  - intros b IH. constructor; [reflexivity|reflexivity|]. cbn. now apply slots_map_rel.
  - intros k vs IH. constructor. now apply Forall_Forall2_map.
  - constructor.
Qed.
Lemma resolve_hugr_rel reg h : RegWF reg -> RHugr reg h (resolve_extensions reg h).
Proof.
  intros Hwf. rewrite resolve_extensions_map. repeat split. cbn. apply slots_map_rel.
  apply Forall_forall. intros [n|] _; cbn; [|trivial]. now apply resolve_hop_rel_both.
Qed.

(* only `op` fields change, and only those of nodes holding (at some depth) an opaque operation the registry defines *)
Lemma cval_all_func p b :
  cval_all p (VFunc b) = forallb (fun x => match x with Some n => hop_all p (n_op n) | None => true end) (h_nodes b).
Proof. cbn. induction (h_nodes b) as [|[n|] l IH]; cbn; [reflexivity| |]; now rewrite IH. Qed.
Lemma cval_all_sum p k vs : cval_all p (VSum k vs) = forallb (cval_all p) vs.
Proof. cbn. induction vs as [|x l IH]; cbn; [reflexivity|]. now rewrite IH. Qed.

Lemma untouchable_op_fixed reg o : untouchable_op reg o = true -> resolve_op reg o = o.
Proof.
  destruct o as [c|x|k]; cbn; try reflexivity. intros H. unfold resolve_custom.
  destruct (lookup_op reg (c_ext c) (c_name c)) as [d|] eqn:E; [|reflexivity].
  apply lookup_op_defines in E. assert (R : resolvable_op reg (c_ext c) (c_name c)) by (now exists d).
  apply resolvable_op_b_spec in R. rewrite R in H. discriminate.
Qed.
Lemma fixed_untouchable_op reg o : RegWF reg -> resolve_op reg o = o -> untouchable_op reg o = true.
Proof.
  intros Hwf. destruct o as [c|x|k]; cbn; try reflexivity. unfold resolve_custom.
  destruct (lookup_op reg (c_ext c) (c_name c)) as [d|] eqn:E; [discriminate|]. intros _.
  apply (lookup_op_None _ _ _ Hwf) in E. destruct (resolvable_op_b reg (c_ext c) (c_name c)) eqn:R; [|reflexivity].
  apply resolvable_op_b_spec in R. contradiction.
Qed.

Lemma resolve_untouchable_both reg :
  (forall o, hop_all (untouchable_op reg) o = true -> resolve_hop reg o = o) /\
  (forall v, cval_all (untouchable_op reg) v = true -> resolve_val reg v = v).
Proof.
  apply hop_both_ind.
  - intros o H. cbn in *. now rewrite untouchable_op_fixed.
  - reflexivity.
  - intros v IH H. cbn [resolve_hop]. cbn [hop_all] in H. now rewrite IH.
  - intros b IH H. rewrite cval_all_func in H. cbn [resolve_val]. f_equal. apply map_hugr_id.
    rewrite forallb_Forall in H. eapply Forall_impl2; [|exact IH|exact H]. intros [n|]; cbn; auto.
  - intros k vs IH H. rewrite cval_all_sum in H. cbn [resolve_val]. f_equal. apply Forall_map_id.
    rewrite forallb_Forall in H. eapply Forall_impl2; [|exact IH|exact H]. auto.
  - reflexivity.
Qed.
Lemma resolve_fixed_both reg : RegWF reg ->
  (forall o, resolve_hop reg o = o -> hop_all (untouchable_op reg) o = true) /\
  (forall v, resolve_val reg v = v -> cval_all (untouchable_op reg) v = true).
Proof.
  intros Hwf. apply hop_both_ind.
  - intros o H. cbn in *. injection H as H. now apply fixed_untouchable_op.
  - reflexivity.
  - intros v IH H. cbn in *. injection H as H. auto.
  - intros b IH H. rewrite cval_all_func. cbn [resolve_val] in H. injection H as H. apply map_hugr_fix in H.
    rewrite forallb_Forall. eapply Forall_impl2; [|exact IH|exact H]. intros [n|]; cbn; auto.
  - intros k vs IH H. rewrite cval_all_sum. cbn [resolve_val] in H. injection H as H. apply map_fix_Forall in H.
    rewrite forallb_Forall. eapply Forall_impl2; [|exact IH|exact H]. auto.
  - reflexivity.
Qed.

(* node by node *)
Lemma resolve_node_at reg h i :
  get_node (resolve_extensions reg h) i = option_map (map_node (resolve_hop reg)) (get_node h i).
Proof. rewrite resolve_extensions_map. apply get_node_map. Qed.

(* ------------------------------------------------------------------ (b) idempotence *)
Lemma resolve_hop_idem_both reg :
  (forall o, resolve_hop reg (resolve_hop reg o) = resolve_hop reg o) /\
  (forall v, resolve_val reg (resolve_val reg v) = resolve_val reg v).
Proof.
  apply hop_both_ind; cbn [resolve_hop resolve_val].
  - intros o. now rewrite resolve_op_idem.
  - reflexivity.
  - intros v IH. now rewrite IH.
  - intros b IH. f_equal. rewrite map_hugr_map_hugr. apply map_hugr_ext.
    eapply Forall_impl; [|exact IH]. intros [n|]; cbn; auto.
  - intros k vs IH. f_equal. rewrite map_map. now apply Forall_map_eq.
  - reflexivity.
Qed.
Lemma resolve_extensions_idem reg h :
  resolve_extensions reg (resolve_extensions reg h) = resolve_extensions reg h.
Proof.
  rewrite !resolve_extensions_map, map_hugr_map_hugr. apply map_hugr_ext.
  apply Forall_forall. intros [n|] _; [|trivial]. apply resolve_hop_idem_both.
Qed.
