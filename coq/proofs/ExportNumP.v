(* C12, second pass — proofs about the first-use numbering of link names (model/ExportNum.v):
   the numbers link_name hands out are a renaming of the component representatives on every port a
   valid export lists, so every clause proved for `export h` holds for `export_numbered h`. *)
From Coq Require Import ZArith List Bool Arith Lia Relations.
Import ListNotations.
From HV Require Import lib.Harness model.Export model.ExportNum spec.ExportS proofs.ExportP proofs.ExportOrderP.
Open Scope Z_scope.

(* ------------------------------------------------------------------ the dict of link_name *)

Lemma known_In r st : known r st = true <-> In r st.
Proof.
  unfold known. rewrite existsb_exists. split.
  - intros [x [Hx He]]. apply port_eqb_spec in He. subst. exact Hx.
  - intros H. exists r. split; [exact H | apply port_eqb_refl].
Qed.

Lemma idx_app r st ext : In r st -> idx r (st ++ ext) = idx r st.
Proof.
  induction st as [|a s IH]; [intros []|]. cbn [app idx]. intros Hin.
  destruct (port_eqb r a) eqn:E; [reflexivity|]. f_equal. apply IH.
  destruct Hin as [->|H]; [rewrite port_eqb_refl in E; discriminate | exact H].
Qed.

Lemma idx_fresh r st : ~ In r st -> idx r (st ++ [r]) = length st.
Proof.
  induction st as [|a s IH]; cbn [app idx length]; intros H.
  - rewrite port_eqb_refl. reflexivity.
  - destruct (port_eqb r a) eqn:E.
    + apply port_eqb_spec in E. exfalso. apply H. left. congruence.
    + f_equal. apply IH. intros Hin. apply H. right. exact Hin.
Qed.

Lemma idx_inj r r' st : In r st -> In r' st -> idx r st = idx r' st -> r = r'.
Proof.
  induction st as [|a s IH]; [intros []|]. cbn [idx]. intros H H' E.
  destruct (port_eqb r a) eqn:E1; destruct (port_eqb r' a) eqn:E2; try discriminate.
  - apply port_eqb_spec in E1, E2. congruence.
  - injection E as E. apply IH; try assumption.
    + destruct H as [->|H]; [rewrite port_eqb_refl in E1; discriminate | exact H].
    + destruct H' as [->|H']; [rewrite port_eqb_refl in E2; discriminate | exact H'].
Qed.

(* one call: the dict only grows, the root is in it afterwards, the returned name is the root's position *)
Lemma link_name_spec (R : port -> port) st p :
  (exists ext, snd (link_name R st p) = st ++ ext) /\
  In (R p) (snd (link_name R st p)) /\
  fst (link_name R st p) = idx (R p) (snd (link_name R st p)).
Proof.
  unfold link_name. cbv zeta. destruct (known (R p) st) eqn:K; cbn [fst snd].
  - split; [exists []; rewrite app_nil_r; reflexivity|]. split; [apply known_In; exact K | reflexivity].
  - split; [eexists; reflexivity|]. split; [apply in_or_app; right; left; reflexivity|].
    symmetry. apply idx_fresh. intros Hin. apply known_In in Hin. congruence.
Qed.

(* a sequence of calls: every name handed out is the position of the port's root in the final dict *)
Lemma link_names_spec (R : port -> port) : forall ps st,
  (exists ext, snd (link_names R st ps) = st ++ ext) /\
  (forall p, In p ps -> In (R p) (snd (link_names R st ps))) /\
  fst (link_names R st ps) = map (fun p => idx (R p) (snd (link_names R st ps))) ps.
Proof.
  induction ps as [|a ps IH]; intros st; cbn [link_names].
  - cbn [fst snd map]. split; [exists []; rewrite app_nil_r; reflexivity|]. split; [intros p []| reflexivity].
  - pose proof (link_name_spec R st a) as H1. destruct (link_name R st a) as [k st1]. cbn [fst snd] in H1.
    specialize (IH st1). destruct (link_names R st1 ps) as [ks st2]. cbn [fst snd] in *.
    destruct H1 as ([e1 E1] & Hin & Hk). destruct IH as ([e2 E2] & Hmem & Hks).
    split; [exists (e1 ++ e2); rewrite E2, E1, app_assoc; reflexivity|]. split.
    + intros p [<-|Hp]; [rewrite E2; apply in_or_app; left; exact Hin | apply Hmem; exact Hp].
    + cbn [map]. rewrite Hks, Hk. f_equal. rewrite E2. symmetry. apply idx_app. exact Hin.
Qed.

(* the names the code writes into the tree, call by call, are `num` of the ports *)
Theorem names_given_are_num h :
  fst (link_names (rep (h_links h)) [] (visits h)) = map (num h) (visits h).
Proof. destruct (link_names_spec (rep (h_links h)) (visits h) []) as (_ & _ & H). exact H. Qed.

Theorem num_visited h p q :
  In p (visits h) -> In q (visits h) ->
  (num h p = num h q <-> rep (h_links h) p = rep (h_links h) q).
Proof.
  intros Hp Hq. destruct (link_names_spec (rep (h_links h)) (visits h) []) as (_ & Hmem & _).
  unfold num, final_names. cbv zeta. split; [|intros ->; reflexivity].
  apply idx_inj; apply Hmem; assumption.
Qed.

(* ------------------------------------------------------------------ every listed port is visited *)

Lemma vdfg_incl_input f ch c :
  In c ch -> is_input (kind_t c) = true -> incl (out_ports (idx_t c) (n_out (info c))) (vdfg f ch).
Proof.
  intros Hc Hi p Hp. unfold vdfg. apply in_flat_map. exists c. split; [exact Hc|]. rewrite Hi. exact Hp.
Qed.
Lemma vdfg_incl_output f ch c :
  In c ch -> is_output (kind_t c) = true -> incl (in_ports (idx_t c) (n_in (info c))) (vdfg f ch).
Proof.
  intros Hc Ho p Hp. unfold vdfg. apply in_flat_map. exists c. split; [exact Hc|].
  destruct (kind_t c); try discriminate. exact Hp.
Qed.
Lemma vdfg_incl_child f ch c : In c ch -> exported (kind_t c) = true -> incl (f c) (vdfg f ch).
Proof.
  intros Hc Hx p Hp. unfold vdfg. apply in_flat_map. exists c. split; [exact Hc|].
  destruct (exported_not_io _ Hx) as [-> ->]. exact Hp.
Qed.
Lemma region_ports_incl f ch : incl (region_ports ch) (vdfg f ch).
Proof.
  unfold region_ports, s_first. intros p Hp. apply in_app_or in Hp. destruct Hp as [Hp|Hp].
  - destruct (find (fun c => is_input (kind_t c)) ch) eqn:Ef; [|destruct Hp]. apply find_some in Ef.
    destruct Ef as [A B]. exact (vdfg_incl_input f ch _ A B p Hp).
  - destruct (find (fun c => is_output (kind_t c)) ch) eqn:Ef; [|destruct Hp]. apply find_some in Ef.
    destruct Ef as [A B]. exact (vdfg_incl_output f ch _ A B p Hp).
Qed.

Lemma vcfg_first f : forall l c,
  find (fun c => is_block (kind_t c)) l = Some c -> In (inp (idx_t c) 0) (vcfg f l true).
Proof.
  induction l as [|a r IH]; [discriminate|]. cbn [find vcfg]. intros c. destruct (is_block (kind_t a)) eqn:B.
  - intros [= ->]. left. reflexivity.
  - intros H. destruct (is_exit (kind_t a)); [apply in_or_app; right|]; apply IH; exact H.
Qed.
Lemma vcfg_exit f : forall l first c,
  In c l -> is_exit (kind_t c) = true -> incl (in_ports (idx_t c) (n_in (info c))) (vcfg f l first).
Proof.
  induction l as [|a r IH]; [intros ? ? []|]. intros first c [->|Hc] Hx p Hp; cbn [vcfg].
  - assert (Hb : is_block (kind_t c) = false) by (destruct (kind_t c); try discriminate; reflexivity).
    rewrite Hb, Hx. apply in_or_app. left. exact Hp.
  - destruct (is_block (kind_t a)); [apply in_or_app; right; apply in_or_app; right |
      destruct (is_exit (kind_t a)); [apply in_or_app; right|]]; eapply IH; eassumption.
Qed.
Lemma vcfg_child f : forall l first c,
  In c l -> is_block (kind_t c) = true -> incl (f c) (vcfg f l first).
Proof.
  induction l as [|a r IH]; [intros ? ? []|]. intros first c [->|Hc] Hb p Hp; cbn [vcfg].
  - rewrite Hb. apply in_or_app. right. apply in_or_app. left. exact Hp.
  - destruct (is_block (kind_t a)); [apply in_or_app; right; apply in_or_app; right |
      destruct (is_exit (kind_t a)); [apply in_or_app; right|]]; eapply IH; eassumption.
Qed.
Lemma cfg_ports_incl f ch : incl (cfg_ports ch) (vcfg f ch true).
Proof.
  unfold cfg_ports, s_first. intros p Hp. apply in_app_or in Hp. destruct Hp as [Hp|Hp].
  - destruct (find (fun c => is_block (kind_t c)) ch) eqn:Ef; [|destruct Hp].
    destruct Hp as [<-|[]]. apply vcfg_first. exact Ef.
  - destruct (find (fun c => is_exit (kind_t c)) ch) eqn:Ef; [|destruct Hp]. apply find_some in Ef.
    destruct Ef as [A B]. exact (vcfg_exit f ch true _ A B p Hp).
Qed.

Lemma incl_app3 {A} (a b c c' : list A) : incl c c' -> incl (a ++ b ++ c) (a ++ b ++ c').
Proof.
  intros H x Hx. apply in_app_or in Hx. destruct Hx as [Hx|Hx]; [apply in_or_app; left; exact Hx|].
  apply in_or_app. right. apply in_app_or in Hx. destruct Hx as [Hx|Hx]; apply in_or_app; [left | right; apply H]; exact Hx.
Qed.
Lemma incl_tail3 {A} (a b c : list A) : incl c (a ++ b ++ c).
Proof. intros x Hx. apply in_or_app. right. apply in_or_app. right. exact Hx. Qed.

Lemma df_child_not_case k : df_child k = true -> k <> KCase.
Proof. destruct k; cbn; intros; congruence. Qed.

Lemma visits_cover : forall t, tree_wf t = true ->
  (kind_t t <> KCase -> forall s, In s (model_nodes t) -> incl (local_ports s) (visits_node t)) /\
  (forallb (fun c => df_child (kind_t c)) (children t) = true ->
   forall s, In s (fmk exported model_nodes (children t)) -> incl (local_ports s) (vdfg visits_node (children t))).
Proof.
  apply (htree_ind2 (fun t => tree_wf t = true ->
    (kind_t t <> KCase -> forall s, In s (model_nodes t) -> incl (local_ports s) (visits_node t)) /\
    (forallb (fun c => df_child (kind_t c)) (children t) = true ->
     forall s, In s (fmk exported model_nodes (children t)) -> incl (local_ports s) (vdfg visits_node (children t))))).
  intros i ch IH Hwf. rewrite Forall_forall in IH.
  pose proof Hwf as Hwf'. cbn [tree_wf] in Hwf'. apply andb_true_iff in Hwf'. destruct Hwf' as [Hn Hch].
  rewrite forallb_forall in Hch. cbn [children].
  assert (P2 : forallb (fun c => df_child (kind_t c)) ch = true ->
               forall s, In s (fmk exported model_nodes ch) -> incl (local_ports s) (vdfg visits_node ch)).
  { intros Hdf s Hs. rewrite forallb_forall in Hdf. apply fmk_in in Hs. destruct Hs as [c [Hc [Ex Hs]]].
    destruct (IH c Hc (Hch c Hc)) as [P1c _].
    intros p Hp. apply (vdfg_incl_child visits_node ch c Hc Ex).
    apply (P1c (df_child_not_case _ (Hdf c Hc)) s Hs p Hp). }
  split; [|exact P2].
  intros Hk s Hs. unfold kind_t in Hk. cbn [info] in Hk. cbn [model_nodes] in Hs.
  assert (Hdfk : match n_kind i with KDFG | KLoop | KBlock | KFuncDefn | KCase => True | _ => False end ->
                 forallb (fun c => df_child (kind_t c)) ch = true).
  { intros Hk'. apply (wf_df_children (HNode i ch) Hwf). exact Hk'. }
  destruct Hs as [<-|Hs].
  - (* the node itself *)
    unfold local_ports, idx_t, kind_t. cbn [info children visits_node]. apply incl_app3.
    destruct (n_kind i) eqn:K; try (intros p []); try apply region_ports_incl; try apply cfg_ports_incl.
    (* Conditional *)
    intros p Hp. apply in_flat_map in Hp. destruct Hp as [c [Hc Hp]]. apply in_flat_map. exists c.
    split; [exact Hc|]. destruct c as [ci cch]. cbn [children] in Hp. exact (region_ports_incl visits_node cch p Hp).
  - (* a model node below *)
    cbn [visits_node]. intros p Hp. apply incl_tail3.
    destruct (n_kind i) eqn:K; try (destruct Hs; fail); try congruence;
      try (apply (P2 (Hdfk I) s Hs p Hp)).
    + (* CFG *)
      apply fmk_in in Hs. destruct Hs as [c [Hc [Hb Hs]]]. destruct (IH c Hc (Hch c Hc)) as [P1c _].
      apply (vcfg_child visits_node ch true c Hc Hb).
      apply (P1c (fun E => ltac:(rewrite E in Hb; discriminate)) s Hs p Hp).
    + (* Conditional *)
      apply in_flat_map in Hs. destruct Hs as [c [Hc Hs]]. apply in_flat_map. exists c. split; [exact Hc|].
      destruct (IH c Hc (Hch c Hc)) as [_ P2c].
      assert (Hcase : is_case (kind_t c) = true).
      { pose proof (wf_cond_cases (HNode i ch) Hwf K) as Hcs. cbn [children] in Hcs.
        rewrite forallb_forall in Hcs. apply Hcs. exact Hc. }
      assert (Hdfc : forallb (fun d => df_child (kind_t d)) (children c) = true).
      { apply (wf_df_children c (Hch c Hc)). destruct (kind_t c); try discriminate; exact I. }
      destruct c as [ci cch]. cbn [children] in *. apply (P2c Hdfc s Hs p Hp).
Qed.

Section Numbered.
  Variable h : hugr.
  Hypothesis Hv : valid_b h = true.
  Notation ls := (h_links h).

  Theorem listed_visited : incl (listed_ports h) (visits h).
  Proof.
    destruct (valid_parts h Hv) as (Hk & _). destruct (root_children_wf h Hv) as [Hch Hn].
    unfold node_wf in Hn. unfold kind_t in Hk. rewrite Hk in Hn. rewrite forallb_forall in Hn, Hch.
    unfold listed_ports, visits. intros p Hp. apply in_flat_map in Hp. destruct Hp as [s [Hs Hp]].
    unfold all_model_nodes in Hs. apply fmk_in in Hs. destruct Hs as [c [Hc [Ex Hs]]].
    apply in_flat_map. exists c. split; [exact Hc|].
    destruct (visits_cover c (Hch c Hc)) as [P1 _]. apply (P1 (fun E => ltac:(specialize (Hn c Hc); rewrite E in Hn; discriminate)) s Hs p Hp).
  Qed.

  (* on the ports a valid export lists, the first-use numbers are a renaming of the components *)
  Theorem num_listed p q :
    In p (listed_ports h) -> In q (listed_ports h) -> (num h p = num h q <-> conn ls p q).
  Proof.
    intros Hp Hq. rewrite <- rep_spec. apply num_visited; apply listed_visited; assumption.
  Qed.

  Lemma numbered_named : export_numbered h = named_module h (num h) idZ.
  Proof. reflexivity. Qed.

  Theorem numbered_link_names_iff_connected : link_names_iff_connected Nat.eqb h (export_numbered h).
  Proof.
    unfold link_names_iff_connected. intros p n q n' Hp Hq. rewrite numbered_named in Hp, Hq.
    rewrite (all_occ_export h (num h) idZ Hv) in Hp, Hq.
    apply in_map_iff in Hp, Hq. destruct Hp as [p0 [Ep Hp]]. destruct Hq as [q0 [Eq Hq]].
    unfold pf in Ep, Eq. inversion Ep; inversion Eq; subst. rewrite Nat.eqb_eq. apply num_listed; assumption.
  Qed.

  (* producers / consumers per name: the count only depends on which listed ports share the name *)
  Lemma filter_occ {L} (f : port -> L) (leqb : L -> L -> bool) n X :
    map fst (filter (fun o => leqb (snd o) n) (map (pf f) X)) = filter (fun q => leqb (f q) n) X.
  Proof.
    induction X as [|x r IH]; [reflexivity|]. cbn [map filter pf snd]. destruct (leqb (f x) n); cbn [map fst]; rewrite IH; reflexivity.
  Qed.

  Theorem numbered_single_producer :
    stars_b h = true -> single_producer_or_single_consumer Nat.eqb h (export_numbered h) = true.
  Proof.
    intros Hs. unfold single_producer_or_single_consumer. cbv zeta.
    rewrite numbered_named, (all_occ_export h (num h) idZ Hv).
    unfold stars_b, ideal_occ in Hs. cbv zeta in Hs.
    change (map (fun p => (p, rep (h_links h) p)) (listed_ports h)) with (map (pf (rep ls)) (listed_ports h)) in Hs.
    rewrite forallb_forall in Hs. apply forallb_forall. intros o Ho. apply in_map_iff in Ho. destruct Ho as [p [<- Hp]].
    specialize (Hs (pf (rep ls) p) (in_map _ _ _ Hp)).
    cbn [pf snd] in Hs |- *. unfold sp_name in Hs |- *. cbv zeta in Hs |- *.
    rewrite filter_occ in Hs. rewrite filter_occ.
    rewrite (filter_ext_in (fun q => Nat.eqb (num h q) (num h p)) (fun q => port_eqb (rep ls q) (rep ls p))); [exact Hs|].
    intros q Hq. destruct (port_eqb (rep ls q) (rep ls p)) eqn:E.
    - apply port_eqb_spec in E. apply Nat.eqb_eq. apply num_listed; [assumption..|]. apply rep_spec. exact E.
    - apply Nat.eqb_neq. intros En. apply num_listed in En; [|assumption..]. apply rep_spec in En.
      apply port_eqb_spec in En. congruence.
  Qed.

  (* the clauses that do not depend on the naming hold for any naming of the ports *)
  Theorem numbered_regions_mirror_hierarchy : regions_mirror_hierarchy h (export_numbered h) = true.
  Proof. exact (model_regions_mirror_hierarchy h (num h) idZ Hv). Qed.
  Theorem numbered_ports_exactly_signature : ports_exactly_signature h (export_numbered h) = true.
  Proof. exact (model_ports_exactly_signature h (num h) idZ Hv). Qed.
  Theorem numbered_applied_symbols_defined : applied_symbols_defined Z.eqb h (export_numbered h) = true.
  Proof. exact (model_applied_symbols_defined h (num h) idZ Z.eqb Zeqb_spec' (fun a b H => H) Hv). Qed.
  Theorem numbered_metadata_carried : metadata_carried h (export_numbered h) = true.
  Proof. exact (model_metadata_carried h (num h) idZ Hv). Qed.
  Theorem numbered_order_hints :
    valid_order_b h = true -> order_ports_b h = true ->
    order_hints_complete_and_keyed h (export_numbered h) = true.
  Proof. intros Ho Hp. exact (model_order_hints_complete_and_keyed h (num h) idZ Hv Hp Ho). Qed.

  (* all clauses, as evaluated by the monitor *)
  Theorem numbered_spec :
    valid_order_b h = true -> order_ports_b h = true -> stars_b h = true ->
    spec_b Nat.eqb Z.eqb h (export_numbered h) = true.
  Proof.
    intros Ho Hp Hs. unfold spec_b.
    rewrite numbered_regions_mirror_hierarchy, numbered_ports_exactly_signature,
      (link_names_b_complete Nat.eqb h _ numbered_link_names_iff_connected),
      (numbered_single_producer Hs), numbered_applied_symbols_defined, (numbered_order_hints Ho Hp),
      numbered_metadata_carried. reflexivity.
  Qed.
End Numbered.

(* on the example (Input 3, Output 4, Call 5, Ext 6 in main): the calls of link_name in the order of the
   code are  Input.out0, Output.in0, Call.in0, Call.out0, Ext.in0, Ext.out0  and return *)
Example ex_numbered_names :
  fst (link_names (rep (h_links ex_hugr)) [] (visits ex_hugr)) = [0; 1; 0; 2; 2; 1]%nat.
Proof. vm_compute. reflexivity. Qed.
