(* C01 — proofs about the builder model (model/Builder.v) against the validity rules (model/Validity.v).
   Conjuncts of `valid` proved as invariants of `exec` for ALL programs of the modelled language (any
   nesting depth, any length): index sanity, permitted parent/child pairs, Input/Output positions. *)
From Coq Require Import NArith List Bool Arith Lia.
Import ListNotations.
From HV Require Import lib.Harness model.Validity model.Builder.
Local Open Scope N_scope.

(* ------------------------------------------------------------------ lists indexed by N *)
Lemma lenN_app {A} (l r : list A) : lenN (l ++ r) = lenN l + lenN r.
Proof. unfold lenN. rewrite app_length. lia. Qed.
Lemma lenN_cons {A} (x : A) (l : list A) : lenN (x :: l) = lenN l + 1.
Proof. unfold lenN. cbn [length]. lia. Qed.

Lemma nthN_app1 {A} (l r : list A) i x : nthN l i = Some x -> nthN (l ++ r) i = Some x.
Proof.
  unfold nthN. intros H. rewrite nth_error_app1; [exact H|].
  apply nth_error_Some. congruence.
Qed.
Lemma nthN_lt {A} (l : list A) i x : nthN l i = Some x -> i < lenN l.
Proof.
  unfold nthN, lenN. intros H.
  assert (N.to_nat i < length l)%nat by (apply nth_error_Some; congruence). lia.
Qed.
Lemma nthN_len {A} (l r : list A) x : nthN (l ++ x :: r) (lenN l) = Some x.
Proof.
  unfold nthN, lenN. rewrite Nat2N.id. rewrite nth_error_app2 by lia.
  replace (length l - length l)%nat with 0%nat by lia. reflexivity.
Qed.
Lemma nthN_some_lt {A} (l : list A) i : i < lenN l -> exists x, nthN l i = Some x.
Proof.
  unfold nthN, lenN. intros H. destruct (nth_error l (N.to_nat i)) eqn:E; [eauto|].
  apply nth_error_None in E. lia.
Qed.

Lemma index_from_app {A} (l r : list A) k :
  index_from (l ++ r) k = index_from l k ++ index_from r (k + lenN l).
Proof.
  revert k. induction l as [|x l IH]; intros k; cbn [index_from app].
  - unfold lenN. cbn. now rewrite N.add_0_r.
  - rewrite IH. rewrite lenN_cons. do 3 f_equal. lia.
Qed.
Lemma indexed_app {A} (l r : list A) : indexed (l ++ r) = indexed l ++ index_from r (lenN l).
Proof. unfold indexed. now rewrite index_from_app. Qed.

Lemma in_index_from {A} (l : list A) k i x :
  In (i, x) (index_from l k) -> k <= i /\ nthN l (i - k) = Some x.
Proof.
  revert k. induction l as [|y l IH]; intros k; cbn [index_from In]; [tauto|].
  intros [E|H].
  - inversion E; subst. split; [lia|]. rewrite N.sub_diag. reflexivity.
  - apply IH in H. destruct H as [Hk Hn]. split; [lia|].
    unfold nthN in *. replace (N.to_nat (i - k)) with (S (N.to_nat (i - (k + 1)))) by lia. exact Hn.
Qed.
Lemma in_indexed {A} (l : list A) i x : In (i, x) (indexed l) -> nthN l i = Some x.
Proof. intros H. apply in_index_from in H. now rewrite N.sub_0_r in H. Qed.

Lemma index_from_map {A B} (f : A -> B) (l : list A) k :
  index_from (map f l) k = map (fun x => (fst x, f (snd x))) (index_from l k).
Proof. revert k. induction l as [|x l IH]; intros k; cbn; [reflexivity|]. now rewrite IH. Qed.

Lemma forallb_map {A B} (f : A -> B) (p : B -> bool) (l : list A) :
  forallb p (map f l) = forallb (fun x => p (f x)) l.
Proof. induction l as [|x l IH]; cbn; [reflexivity|]. now rewrite IH. Qed.
Lemma forallb_ext_in {A} (p q : A -> bool) (l : list A) :
  (forall x, In x l -> p x = q x) -> forallb p l = forallb q l.
Proof.
  induction l as [|x l IH]; intros H; cbn; [reflexivity|].
  rewrite (H x (or_introl eq_refl)). rewrite IH; [reflexivity|]. intros y Hy. apply H. now right.
Qed.
Lemma forallb_impl_in {A} (p q : A -> bool) (l : list A) :
  (forall x, In x l -> p x = true -> q x = true) -> forallb p l = true -> forallb q l = true.
Proof.
  intros H Hp. apply forallb_forall. intros x Hx. apply H; [exact Hx|].
  rewrite forallb_forall in Hp. now apply Hp.
Qed.
Lemma flat_map_map {A B C} (f : A -> B) (g : B -> list C) (l : list A) :
  flat_map g (map f l) = flat_map (fun x => g (f x)) l.
Proof. induction l as [|x l IH]; cbn; [reflexivity|]. now rewrite IH. Qed.
Lemma map_flat_map {A B C} (f : B -> C) (g : A -> list B) (l : list A) :
  map f (flat_map g l) = flat_map (fun x => map f (g x)) l.
Proof. induction l as [|x l IH]; cbn; [reflexivity|]. now rewrite map_app, IH. Qed.
Lemma flat_map_ext_in {A B} (f g : A -> list B) (l : list A) :
  (forall x, In x l -> f x = g x) -> flat_map f l = flat_map g l.
Proof.
  induction l as [|x l IH]; intros H; cbn; [reflexivity|].
  rewrite (H x (or_introl eq_refl)), IH; [reflexivity|]. intros y Hy. apply H. now right.
Qed.

(* ------------------------------------------------------------------ the rules read only the skeleton *)
(* canon forgets everything but the constructor; the structural rules (parent/child pairs, first/second
   child) read only constructors and parents, so completing an operation in place (set_op) cannot
   change them *)
Definition canon (o : vop) : vop :=
  match o with
  | Module => Module | FuncDefn _ _ _ => FuncDefn 0 [] [] | FuncDecl _ => FuncDecl 0
  | AliasDecl => AliasDecl | AliasDefn => AliasDefn | Const _ => Const (VExt 0)
  | Input _ => Input [] | Output _ => Output [] | Call _ _ _ => Call 0 [] []
  | CallIndirect _ _ _ => CallIndirect [] [] 0 | LoadConst _ => LoadConst 0
  | LoadFunc _ _ _ _ => LoadFunc 0 [] [] 0 | DFG _ _ => DFG [] [] | CFG _ _ => CFG [] []
  | Block _ _ _ _ => Block [] [] [] 0 | ExitB _ => ExitB [] | Conditional _ _ _ _ => Conditional [] [] [] 0
  | Case _ _ => Case [] [] | TailLoop _ _ _ _ => TailLoop [] [] [] 0 | Tag _ _ _ => Tag 0 [] 0
  | ExtOp _ _ => ExtOp [] []
  end.
Definition cnode (n : vnode) : vnode := {| n_op := canon (n_op n); n_parent := n_parent n |}.
Definition Gn (l : list vnode) : graph := {| g_nodes := l; g_edges := [] |}.
Definition bounded (l : list vnode) : bool :=
  forallb (fun x => (fst x =? 0) || (n_parent (snd x) <? fst x)) (indexed l).

Lemma allowed_child_canon p c : allowed_child (canon p) (canon c) = allowed_child p c.
Proof. destruct p, c; reflexivity. Qed.
Lemma is_input_canon o : is_input (canon o) = is_input o. Proof. now destruct o. Qed.
Lemma is_output_canon o : is_output (canon o) = is_output o. Proof. now destruct o. Qed.
Lemma is_block_canon o : is_block (canon o) = is_block o. Proof. now destruct o. Qed.
Lemma is_exit_canon o : is_exit (canon o) = is_exit o. Proof. now destruct o. Qed.
Lemma is_dfparent_canon o : is_dfparent (canon o) = is_dfparent o. Proof. now destruct o. Qed.
Lemma is_cfg_canon o : is_cfg (canon o) = is_cfg o. Proof. now destruct o. Qed.
Lemma is_cond_canon o : is_cond (canon o) = is_cond o. Proof. now destruct o. Qed.

Lemma fs_check_canon o cs : fs_check (canon o) (map canon cs) = fs_check o cs.
Proof.
  unfold fs_check. rewrite is_dfparent_canon, is_cfg_canon, is_cond_canon.
  destruct cs as [|a [|b rest]]; cbn [map]; try reflexivity.
  rewrite !forallb_map, is_input_canon, is_output_canon, is_block_canon, is_exit_canon.
  assert (E1 : forallb (fun x => negb (is_input (canon x)) && negb (is_output (canon x))) rest =
               forallb (fun c => negb (is_input c) && negb (is_output c)) rest)
    by (apply forallb_ext_in; intros; now rewrite is_input_canon, is_output_canon).
  assert (E2 : forallb (fun x => negb (is_exit (canon x))) rest = forallb (fun c => negb (is_exit c)) rest)
    by (apply forallb_ext_in; intros; now rewrite is_exit_canon).
  now rewrite E1, E2.
Qed.

Lemma tags_canon l : r_child_tags (Gn (map cnode l)) = r_child_tags (Gn l).
Proof.
  unfold r_child_tags, Gn, op_of, indexed. cbn [g_nodes].
  rewrite index_from_map, forallb_map. apply forallb_ext_in. intros [i x] _. cbn [fst snd cnode n_parent n_op].
  f_equal. unfold nthN. rewrite nth_error_map.
  destruct (nth_error l (N.to_nat (n_parent x))); cbn; [apply allowed_child_canon|reflexivity].
Qed.

Lemma child_ops_canon l p : child_ops (Gn (map cnode l)) p = map canon (child_ops (Gn l) p).
Proof.
  unfold child_ops, Gn, indexed. cbn [g_nodes].
  rewrite index_from_map, flat_map_map, map_flat_map. apply flat_map_ext_in. intros [i x] _.
  cbn [fst snd cnode n_parent n_op]. now destruct (negb (i =? 0) && (n_parent x =? p)).
Qed.
Lemma fs_canon l : r_first_second (Gn (map cnode l)) = r_first_second (Gn l).
Proof.
  unfold r_first_second. cbn [Gn g_nodes]. unfold indexed.
  rewrite index_from_map, forallb_map. apply forallb_ext_in. intros [i x] _.
  cbn [fst snd cnode n_op]. fold (Gn (map cnode l)) (Gn l).
  change {| g_nodes := map cnode l; g_edges := [] |} with (Gn (map cnode l)).
  rewrite child_ops_canon. apply fs_check_canon.
Qed.
Lemma bounded_canon l : bounded (map cnode l) = bounded l.
Proof.
  unfold bounded, indexed. rewrite index_from_map, forallb_map. apply forallb_ext_in. now intros [i x] _.
Qed.

(* ------------------------------------------------------------------ appending nodes *)
Definition mk (o : vop) (p : N) : vnode := {| n_op := o; n_parent := p |}.
Definition sel (q : N) (x : N * vnode) : list vop :=
  if negb (fst x =? 0) && (n_parent (snd x) =? q) then [n_op (snd x)] else [].

Lemma child_ops_app l ext q :
  child_ops (Gn (l ++ ext)) q = child_ops (Gn l) q ++ flat_map (sel q) (index_from ext (lenN l)).
Proof. unfold child_ops. cbn [Gn g_nodes]. now rewrite indexed_app, flat_map_app. Qed.

Lemma flat_map_nil {A B} (f : A -> list B) l : (forall x, In x l -> f x = []) -> flat_map f l = [].
Proof.
  induction l as [|x l IH]; intros H; cbn; [reflexivity|].
  rewrite (H x (or_introl eq_refl)), IH; [reflexivity|]. intros; apply H; now right.
Qed.
Lemma bounded_in l i x : bounded l = true -> In (i, x) (indexed l) -> i = 0 \/ n_parent x < i.
Proof.
  unfold bounded. rewrite forallb_forall. intros H Hin. specialize (H _ Hin). cbn in H.
  apply orb_true_iff in H. destruct H as [H|H]; [left; now apply N.eqb_eq|right; now apply N.ltb_lt].
Qed.
Lemma child_ops_beyond l q : bounded l = true -> lenN l <= q -> child_ops (Gn l) q = [].
Proof.
  intros Hb Hq. unfold child_ops. cbn [Gn g_nodes]. apply flat_map_nil. intros [i x] Hin. cbn [fst snd].
  pose proof (bounded_in _ _ _ Hb Hin) as Hp. pose proof (nthN_lt _ _ _ (in_indexed _ _ _ Hin)) as Hi.
  destruct (N.eqb_spec i 0); [reflexivity|]. cbn [negb andb].
  destruct (N.eqb_spec (n_parent x) q); [lia|reflexivity].
Qed.

Lemma bounded_app l o p : bounded l = true -> p < lenN l -> bounded (l ++ [mk o p]) = true.
Proof.
  intros Hb Hp. unfold bounded. rewrite indexed_app, forallb_app. fold (bounded l). rewrite Hb.
  cbn [index_from forallb fst snd mk n_parent]. rewrite andb_true_r. apply orb_true_iff. right.
  now apply N.ltb_lt.
Qed.

Lemma tags_app l o p pn :
  r_child_tags (Gn l) = true -> nthN l p = Some pn -> allowed_child (n_op pn) o = true ->
  r_child_tags (Gn (l ++ [mk o p])) = true.
Proof.
  intros Ht Hp Ha. unfold r_child_tags in *. cbn [Gn g_nodes] in *. rewrite indexed_app, forallb_app.
  apply andb_true_iff. split.
  - revert Ht. apply forallb_impl_in. intros [i x] Hin. cbn [fst snd].
    destruct (i =? 0); [reflexivity|]. cbn [orb]. unfold op_of. cbn [Gn g_nodes].
    destruct (nthN l (n_parent x)) as [pp|] eqn:E; cbn [option_map]; intros Hc; [|discriminate Hc].
    now rewrite (nthN_app1 _ _ _ _ E).
  - cbn. rewrite andb_true_r. apply orb_true_iff. right. unfold op_of. cbn [Gn g_nodes].
    now rewrite (nthN_app1 _ _ _ _ Hp).
Qed.

Definition plain (o : vop) : bool :=
  negb (is_input o) && negb (is_output o) && negb (is_dfparent o) && negb (is_cfg o) && negb (is_cond o).
Lemma fs_check_plain o cs : plain o = true -> fs_check o cs = true.
Proof.
  unfold plain, fs_check. intros H. repeat (apply andb_true_iff in H; destruct H as [H ?]).
  destruct (is_dfparent o), (is_cfg o), (is_cond o); try discriminate; reflexivity.
Qed.
Lemma fs_check_snoc ox cs o :
  is_dfparent ox = true -> fs_check ox cs = true -> is_input o = false -> is_output o = false ->
  fs_check ox (cs ++ [o]) = true.
Proof.
  unfold fs_check. intros Hd. rewrite Hd. destruct cs as [|a [|b rest]]; try discriminate.
  cbn [app]. intros H Hi Ho. apply andb_true_iff in H. destruct H as [H1 H2]. rewrite H1. cbn [andb].
  rewrite forallb_app, H2. cbn. now rewrite Hi, Ho.
Qed.
Lemma canon_dfg_dfparent o : canon o = DFG [] [] -> is_dfparent o = true.
Proof. destruct o; try discriminate; reflexivity. Qed.

Lemma nthN_inj_indexed {A} (l : list A) i x y : In (i, x) (indexed l) -> nthN l i = Some y -> x = y.
Proof. intros H E. apply in_indexed in H. congruence. Qed.

(* one more child that is neither Input nor Output, under a dataflow parent *)
Lemma fs_app_leaf l o p pn :
  r_first_second (Gn l) = true -> bounded l = true -> nthN l p = Some pn -> is_dfparent (n_op pn) = true ->
  plain o = true -> r_first_second (Gn (l ++ [mk o p])) = true.
Proof.
  intros Hf Hb Hp Hd Hpl.
  assert (Hio : is_input o = false /\ is_output o = false).
  { unfold plain in Hpl. rewrite !andb_true_iff in Hpl. destruct Hpl as [[[[A B] _] _] _].
    split; now apply negb_true_iff. }
  unfold r_first_second in *. cbn [Gn g_nodes] in *. rewrite indexed_app, forallb_app.
  apply andb_true_iff. split.
  - revert Hf. apply forallb_impl_in. intros [i x] Hin. cbn [fst snd]. intros Hc.
    change {| g_nodes := l ++ [mk o p]; g_edges := [] |} with (Gn (l ++ [mk o p])).
    change {| g_nodes := l; g_edges := [] |} with (Gn l) in Hc.
    rewrite child_ops_app. cbn [index_from flat_map]. rewrite (app_nil_r (sel i (lenN l, mk o p))).
    unfold sel. cbn [fst snd mk n_parent n_op].
    destruct (negb (lenN l =? 0) && (p =? i)) eqn:E; [|now rewrite app_nil_r].
    apply andb_true_iff in E. destruct E as [_ E]. apply N.eqb_eq in E. subst i.
    rewrite (nthN_inj_indexed _ _ _ _ Hin Hp). apply fs_check_snoc; try tauto.
    now rewrite <- (nthN_inj_indexed _ _ _ _ Hin Hp).
  - cbn. rewrite andb_true_r. now apply fs_check_plain.
Qed.

(* a new nested dataflow container with its Input and Output nodes *)
Lemma fs_app_region l ts p pn :
  r_first_second (Gn l) = true -> bounded l = true -> nthN l p = Some pn -> is_dfparent (n_op pn) = true ->
  r_first_second (Gn (l ++ [mk (DFG ts []) p; mk (Input ts) (lenN l); mk (Output []) (lenN l)])) = true.
Proof.
  intros Hf Hb Hp Hd. pose proof (nthN_lt _ _ _ Hp) as Hlt.
  set (d := lenN l). set (ext := [mk (DFG ts []) p; mk (Input ts) d; mk (Output []) d]).
  unfold r_first_second in *. cbn [Gn g_nodes] in *. rewrite indexed_app, forallb_app.
  apply andb_true_iff. split.
  - revert Hf. apply forallb_impl_in. intros [i x] Hin. cbn [fst snd]. intros Hc.
    change {| g_nodes := l ++ ext; g_edges := [] |} with (Gn (l ++ ext)).
    change {| g_nodes := l; g_edges := [] |} with (Gn l) in Hc.
    pose proof (nthN_lt _ _ _ (in_indexed _ _ _ Hin)) as Hi. fold d in Hi.
    rewrite child_ops_app. fold d. subst ext. cbn [index_from flat_map]. unfold sel.
    cbn [fst snd mk n_parent n_op].
    replace (d =? i) with false by (symmetry; apply N.eqb_neq; lia). rewrite !andb_false_r. cbn [app].
    destruct (negb (d =? 0) && (p =? i)) eqn:E; [|now rewrite app_nil_r].
    apply andb_true_iff in E. destruct E as [_ E]. apply N.eqb_eq in E. subst i.
    rewrite (nthN_inj_indexed _ _ _ _ Hin Hp). apply fs_check_snoc; try reflexivity; try assumption.
    now rewrite <- (nthN_inj_indexed _ _ _ _ Hin Hp).
  - fold d. subst ext. cbn [index_from forallb fst snd mk n_op].
    change {| g_nodes := l ++ [mk (DFG ts []) p; mk (Input ts) d; mk (Output []) d]; g_edges := [] |}
      with (Gn (l ++ [mk (DFG ts []) p; mk (Input ts) d; mk (Output []) d])).
    rewrite !child_ops_app. fold d.
    rewrite (child_ops_beyond l d Hb) by (subst d; lia).
    cbn [index_from flat_map]. unfold sel. cbn [fst snd mk n_parent n_op app].
    replace (p =? d) with false by (symmetry; apply N.eqb_neq; lia).
    replace (d + 1 =? 0) with false by (symmetry; apply N.eqb_neq; lia).
    replace (d + 1 + 1 =? 0) with false by (symmetry; apply N.eqb_neq; lia).
    rewrite N.eqb_refl. rewrite !andb_false_r. cbn [negb andb app].
    reflexivity.
Qed.

(* ------------------------------------------------------------------ invariants of the store *)
Definition root_ok (l : list vnode) : Prop :=
  exists r rest, l = r :: rest /\ n_parent r = 0 /\ canon (n_op r) = DFG [] [].
Definition Good (l : list vnode) : Prop :=
  r_child_tags (Gn l) = true /\ r_first_second (Gn l) = true /\ bounded l = true /\ root_ok l.
Definition LinksOK (st : store) : Prop :=
  forallb (fun e => (e_src e <? s_len st) && (e_dst e <? s_len st)) (s_links st) = true.
Definition Inv (st : store) : Prop := Good (s_nodes st) /\ LinksOK st.

Definition kind_at (l : list vnode) (i : N) (k : vop) : Prop :=
  exists nd, nthN l i = Some nd /\ canon (n_op nd) = k.

(* link-only steps / steps that keep the skeleton / skeleton extension *)
Definition Frame (st st' : store) : Prop := s_nodes st' = s_nodes st /\ (LinksOK st -> LinksOK st').
Definition Same (st st' : store) : Prop :=
  map cnode (s_nodes st') = map cnode (s_nodes st) /\ (LinksOK st -> LinksOK st').
Definition Ext (st st' : store) : Prop :=
  exists ext, map cnode (s_nodes st') = map cnode (s_nodes st) ++ ext.

Lemma Frame_refl st : Frame st st. Proof. split; auto. Qed.
Lemma Frame_trans a b c : Frame a b -> Frame b c -> Frame a c.
Proof. intros [H1 H2] [H3 H4]. split; [congruence|auto]. Qed.
Lemma Frame_Same a b : Frame a b -> Same a b.
Proof. intros [H1 H2]. split; [now rewrite H1|exact H2]. Qed.
Lemma Same_trans a b c : Same a b -> Same b c -> Same a c.
Proof. intros [H1 H2] [H3 H4]. split; [congruence|auto]. Qed.
Lemma Same_Ext a b : Same a b -> Ext a b.
Proof. intros [H _]. exists []. now rewrite app_nil_r. Qed.
Lemma Ext_refl a : Ext a a. Proof. exists []. now rewrite app_nil_r. Qed.
Lemma Ext_trans a b c : Ext a b -> Ext b c -> Ext a c.
Proof. intros [x H1] [y H2]. exists (x ++ y). now rewrite H2, H1, app_assoc. Qed.

Lemma root_ok_sk l l' : map cnode l = map cnode l' -> root_ok l -> root_ok l'.
Proof.
  intros E (r & rest & -> & Hp & Hc). destruct l' as [|r' rest']; [discriminate|].
  cbn in E. inversion E as [[E1 E2]]. exists r', rest'. unfold cnode in E1. inversion E1. split; [reflexivity|].
  split; congruence.
Qed.
Lemma Good_sk l l' : map cnode l = map cnode l' -> Good l -> Good l'.
Proof.
  intros E (A & B & C & D). repeat split.
  - now rewrite <- tags_canon, <- E, tags_canon.
  - now rewrite <- fs_canon, <- E, fs_canon.
  - now rewrite <- bounded_canon, <- E, bounded_canon.
  - eapply root_ok_sk; eauto.
Qed.
Lemma Inv_Same st st' : Same st st' -> Inv st -> Inv st'.
Proof. intros [E L] [G K]. split; [eapply Good_sk; [symmetry; exact E|exact G]|auto]. Qed.

Lemma nthN_map {A B} (f : A -> B) l i : nthN (map f l) i = option_map f (nthN l i).
Proof. unfold nthN. now rewrite nth_error_map. Qed.
Lemma kind_at_ext l l' ext i k :
  map cnode l' = map cnode l ++ ext -> kind_at l i k -> kind_at l' i k.
Proof.
  intros E (nd & Hn & Hk).
  assert (H : nthN (map cnode l') i = Some (cnode nd)).
  { rewrite E. apply nthN_app1. rewrite nthN_map, Hn. reflexivity. }
  rewrite nthN_map in H. destruct (nthN l' i) as [nd'|] eqn:E'; [|discriminate].
  exists nd'. split; [exact E'|]. cbn in H. inversion H. congruence.
Qed.

(* ------------------------------------------------------------------ the primitives *)
Lemma add_node_ok st o p st' n : add_node st o p = Ok (st', n) ->
  p < s_len st /\ n = s_len st /\ s_nodes st' = s_nodes st ++ [mk o p] /\ s_links st' = s_links st.
Proof.
  unfold add_node. destruct (N.ltb_spec p (s_len st)) as [Hlt|Hge]; intros Hx; inversion Hx; subst; cbn; auto.
Qed.
Lemma LinksOK_grow st st' ext :
  s_nodes st' = s_nodes st ++ ext -> s_links st' = s_links st -> LinksOK st -> LinksOK st'.
Proof.
  unfold LinksOK, s_len. intros En El. rewrite El, En, lenN_app. apply forallb_impl_in. intros e _ H.
  apply andb_true_iff in H. destruct H as [A B]. apply N.ltb_lt in A, B.
  apply andb_true_iff. split; apply N.ltb_lt; lia.
Qed.
Lemma add_link_frame st s so d do_ st' : add_link st s so d do_ = Ok st' -> Frame st st'.
Proof.
  unfold add_link. destruct ((s <? s_len st) && (d <? s_len st)) eqn:E; intros H; inversion H; subst.
  split; [reflexivity|]. unfold LinksOK, s_len. cbn. intros K. rewrite forallb_app, K. cbn.
  unfold s_len in E. now rewrite E.
Qed.
Lemma add_order_link_frame st s d st' : add_order_link st s d = Ok st' -> Frame st st'.
Proof.
  unfold add_order_link. destruct (existsb _ _); intros H; [inversion H; apply Frame_refl|].
  eapply add_link_frame; eauto.
Qed.
Lemma wire_up_port_frame st node i w st' t : wire_up_port st node i w = Ok (st', t) -> Frame st st'.
Proof.
  unfold wire_up_port. destruct (anc_sib st (fst w) node) as [a|]; [|discriminate].
  destruct (a =? node).
  - cbn [bind]. destruct (add_link st _ _ _ _) as [st2|] eqn:E2; [|discriminate]. cbn [bind].
    destruct (port_type st2 w); [|discriminate]. cbn [bind]. intros H. inversion H; subst.
    eapply add_link_frame; eauto.
  - destruct (add_order_link st (fst w) a) as [st1|] eqn:E1; [|discriminate]. cbn [bind].
    destruct (add_link st1 _ _ _ _) as [st2|] eqn:E2; [|discriminate]. cbn [bind].
    destruct (port_type st2 w); [|discriminate]. cbn [bind]. intros H. inversion H; subst.
    eapply Frame_trans; [eapply add_order_link_frame|eapply add_link_frame]; eauto.
Qed.
Lemma wire_up_from_frame ws : forall st node i st' ts,
  wire_up_from st node i ws = Ok (st', ts) -> Frame st st'.
Proof.
  induction ws as [|w r IH]; intros st node i st' ts; cbn [wire_up_from].
  - intros H. inversion H. apply Frame_refl.
  - destruct (wire_up_port st node i w) as [[st1 t]|] eqn:E1; [|discriminate]. cbn [bind fst snd].
    destruct (wire_up_from st1 node (i + 1) r) as [[st2 ts2]|] eqn:E2; [|discriminate]. cbn [bind fst snd].
    intros H. inversion H; subst. eapply Frame_trans; [eapply wire_up_port_frame|eapply IH]; eauto.
Qed.

Lemma length_set_nth {A} (l : list A) n x : length (set_nth l n x) = length l.
Proof. revert n. induction l as [|a l IH]; intros [|n]; cbn; auto. Qed.
Lemma map_set_nth {A B} (f : A -> B) (l : list A) n x y :
  nth_error l n = Some y -> f x = f y -> map f (set_nth l n x) = map f l.
Proof.
  revert n. induction l as [|a l IH]; intros [|n]; cbn; try discriminate.
  - intros H E. inversion H. now rewrite E.
  - intros H E. now rewrite (IH n H E).
Qed.
Lemma set_op_same st n o st' : set_op st n o = Ok st' -> kind_at (s_nodes st) n (canon o) -> Same st st'.
Proof.
  unfold set_op. intros H (nd & Hn & Hk). rewrite Hn in H. inversion H; subst. clear H. split; cbn.
  - apply (map_set_nth cnode _ _ _ nd); [exact Hn|]. unfold cnode. cbn. now rewrite Hk.
  - unfold LinksOK, s_len, lenN. cbn. now rewrite length_set_nth.
Qed.

(* adding one plain node under a DFG-kind parent *)
Lemma Inv_add_leaf st st' o p n :
  add_node st o p = Ok (st', n) -> Inv st -> kind_at (s_nodes st) p (DFG [] []) ->
  plain o = true -> allowed_child (DFG [] []) (canon o) = true ->
  Inv st' /\ Ext st st' /\ n = s_len st /\ s_nodes st' = s_nodes st ++ [mk o p].
Proof.
  intros H [(A & B & C & D) K] (pn & Hp & Hk) Hpl Hal.
  apply add_node_ok in H. destruct H as (Hlt & Hn & En & El).
  split; [|split; [|split; assumption]].
  - split; [|eapply LinksOK_grow; eauto]. rewrite En. repeat split.
    + eapply tags_app; eauto. now rewrite <- allowed_child_canon, Hk.
    + eapply fs_app_leaf; eauto. apply canon_dfg_dfparent; assumption.
    + apply bounded_app; assumption.
    + destruct D as (r & rest & -> & D1 & D2). exists r, (rest ++ [mk o p]). auto.
  - exists [cnode (mk o p)]. now rewrite En, map_app.
Qed.

(* ------------------------------------------------------------------ the builders keep the invariants *)
Scheme stmt_mut := Induction for stmt Sort Prop
  with region_mut := Induction for region Sort Prop
  with stmts_mut := Induction for stmts Sort Prop.
Combined Scheme prog_mutind from stmt_mut, region_mut, stmts_mut.

Ltac bd H :=
  match type of H with
  | bind ?x _ = Ok _ =>
      let E := fresh "E" in let v := fresh "v" in
      destruct x as [v|] eqn:E; [cbn [bind] in H | discriminate H]
  end.

Section Main.
  Variable tys : list tyinfo.

  Definition WB (st : store) (b : dfb) : Prop :=
    kind_at (s_nodes st) (b_parent b) (DFG [] []) /\ kind_at (s_nodes st) (b_out b) (Output []).
  Lemma WB_ext st st' b : Ext st st' -> WB st b -> WB st' b.
  Proof. intros [ext E] [A B]. split; eapply kind_at_ext; eauto. Qed.

  Lemma completed_canon o ins op' : completed_op tys o ins = Ok op' -> canon op' = canon (initial_op o).
  Proof.
    destruct o; cbn; intros H.
    - inversion H; reflexivity.
    - inversion H; reflexivity.
    - destruct ins as [|t [|]]; inversion H; reflexivity.
    - destruct (find_sum tys [ins]); inversion H; reflexivity.
    - destruct ins as [|t [|]]; try discriminate.
      destruct (nthN tys t) as [[c rows| |]|]; try discriminate.
      destruct rows as [|rw [|]]; try discriminate. inversion H; reflexivity.
  Qed.
  Lemma initial_plain o : plain (initial_op o) = true. Proof. destruct o; reflexivity. Qed.
  Lemma initial_allowed o : allowed_child (DFG [] []) (canon (initial_op o)) = true.
  Proof. destruct o; reflexivity. Qed.
  Lemma canon_set_out_types o r : canon (set_out_types o r) = canon o.
  Proof. destruct o; reflexivity. Qed.

  Lemma set_outputs_same st b ws st' : set_outputs st b ws = Ok st' -> WB st b -> Same st st'.
  Proof.
    unfold set_outputs, wire_up. intros H W. bd H. destruct v as [st1 ts]. cbn [fst snd] in H.
    bd H. rename v into st2. destruct (s_op st2 (b_parent b)) as [po|] eqn:E3; [|discriminate].
    pose proof (Frame_Same _ _ (wire_up_from_frame _ _ _ _ _ _ E)) as S1.
    pose proof (WB_ext _ _ _ (Same_Ext _ _ S1) W) as [_ W1].
    pose proof (set_op_same _ _ _ _ E0 W1) as S2.
    assert (S3 : Same st2 st').
    { eapply set_op_same; [exact H|]. unfold s_op in E3.
      destruct (nthN (s_nodes st2) (b_parent b)) as [nd|] eqn:E4; [|discriminate]. cbn in E3. inversion E3; subst.
      exists nd. split; [exact E4|]. now rewrite canon_set_out_types. }
    eapply Same_trans; [exact S1|]. eapply Same_trans; eauto.
  Qed.

  Lemma new_region_inv st p ts st1 d st2 i st3 o :
    add_node st (DFG ts []) p = Ok (st1, d) -> add_node st1 (Input ts) d = Ok (st2, i) ->
    add_node st2 (Output []) d = Ok (st3, o) ->
    Inv st -> kind_at (s_nodes st) p (DFG [] []) ->
    Inv st3 /\ Ext st st3 /\ WB st3 {| b_parent := d; b_in := i; b_out := o |}.
  Proof.
    intros H1 H2 H3 [(A & B & C & D) K] (pn & Hp & Hk).
    apply add_node_ok in H1. destruct H1 as (L1 & N1 & E1 & K1).
    apply add_node_ok in H2. destruct H2 as (L2 & N2 & E2 & K2).
    apply add_node_ok in H3. destruct H3 as (L3 & N3 & E3 & K3).
    set (l := s_nodes st) in *.
    assert (Hd : d = lenN l) by (subst d; reflexivity).
    assert (X1 : nthN (l ++ [mk (DFG ts []) p]) d = Some (mk (DFG ts []) p)) by (rewrite Hd; apply nthN_len).
    assert (T1 : r_child_tags (Gn (l ++ [mk (DFG ts []) p])) = true).
    { eapply tags_app; eauto. now rewrite <- allowed_child_canon, Hk. }
    assert (T2 : r_child_tags (Gn ((l ++ [mk (DFG ts []) p]) ++ [mk (Input ts) d])) = true).
    { eapply tags_app; eauto. }
    assert (T3 : r_child_tags (Gn (((l ++ [mk (DFG ts []) p]) ++ [mk (Input ts) d]) ++ [mk (Output []) d])) = true).
    { eapply tags_app; [exact T2|apply nthN_app1; exact X1|reflexivity]. }
    assert (B1 : bounded (l ++ [mk (DFG ts []) p]) = true) by (apply bounded_app; assumption).
    assert (B2 : bounded ((l ++ [mk (DFG ts []) p]) ++ [mk (Input ts) d]) = true).
    { apply bounded_app; [assumption|]. rewrite <- E1. exact L2. }
    assert (B3 : bounded (((l ++ [mk (DFG ts []) p]) ++ [mk (Input ts) d]) ++ [mk (Output []) d]) = true).
    { apply bounded_app; [assumption|]. rewrite <- E1, <- E2. exact L3. }
    assert (EQ : s_nodes st3 = l ++ [mk (DFG ts []) p; mk (Input ts) (lenN l); mk (Output []) (lenN l)]).
    { rewrite E3, E2, E1, <- Hd, <- !app_assoc. reflexivity. }
    split; [|split].
    - split.
      + rewrite E3, E2, E1. repeat split; try assumption.
        * rewrite <- !app_assoc. cbn [app]. rewrite Hd. apply (fs_app_region l ts p pn); auto.
          apply canon_dfg_dfparent; assumption.
        * destruct D as (r & rest & Er & D1 & D2). rewrite Er. eexists r, _. cbn [app]. split; [reflexivity|auto].
      + unfold LinksOK in *. rewrite K3, K2, K1. unfold s_len. rewrite EQ, lenN_app.
        revert K. apply forallb_impl_in. intros e _ H. apply andb_true_iff in H. destruct H as [X Y].
        apply N.ltb_lt in X, Y. unfold s_len in X, Y. fold l in X, Y.
        apply andb_true_iff. split; apply N.ltb_lt; lia.
    - exists (map cnode [mk (DFG ts []) p; mk (Input ts) (lenN l); mk (Output []) (lenN l)]).
      now rewrite EQ, map_app.
    - split; cbn [b_parent b_out].
      + exists (mk (DFG ts []) p). split; [|reflexivity]. rewrite E3, E2, E1. do 2 apply nthN_app1. exact X1.
      + exists (mk (Output []) d). split; [|reflexivity]. rewrite E3, N3. unfold s_len. apply nthN_len.
  Qed.

  Definition P_stmt (s : stmt) : Prop := forall b st e st' e',
    exec_stmt tys s b st e = Ok (st', e') -> Inv st -> WB st b -> Inv st' /\ Ext st st'.
  Definition P_region (r : region) : Prop := forall b st e st' e',
    exec_region tys r b st e = Ok (st', e') -> Inv st -> WB st b -> Inv st' /\ Ext st st'.
  Definition P_stmts (l : stmts) : Prop := forall b st e st' e',
    exec_stmts tys l b st e = Ok (st', e') -> Inv st -> WB st b -> Inv st' /\ Ext st st'.

  Lemma exec_keeps_invariants :
    (forall s, P_stmt s) /\ (forall r, P_region r) /\ (forall l, P_stmts l).
  Proof.
    apply prog_mutind; unfold P_stmt, P_region, P_stmts.
    - (* SOp *)
      intros id o args rs b st e st' e' H I W. cbn [exec_stmt] in H.
      bd H. rename v into ws. bd H. destruct v as [st1 n1]. cbn [fst snd] in H.
      bd H. destruct v as [st2 ts]. cbn [fst snd] in H. bd H. rename v into op'. bd H. rename v into st3.
      inversion H; subst; clear H.
      destruct (Inv_add_leaf _ _ _ _ _ E0 I (proj1 W) (initial_plain o) (initial_allowed o)) as (I1 & X1 & N1 & L1).
      pose proof (wire_up_from_frame _ _ _ _ _ _ E1) as F2.
      assert (S3 : Same st2 st').
      { eapply set_op_same; [exact E3|]. exists (mk (initial_op o) (b_parent b)). split.
        - rewrite (proj1 F2), L1, N1. unfold s_len. apply nthN_len.
        - cbn. symmetry. eapply completed_canon; eauto. }
      pose proof (Same_trans _ _ _ (Frame_Same _ _ F2) S3) as S.
      split; [eapply Inv_Same; eauto|]. eapply Ext_trans; [exact X1|apply Same_Ext; exact S].
    - (* SLoad *)
      intros id v cp r b st e st' e' H I W. cbn [exec_stmt] in H.
      bd H. destruct v0 as [st1 c]. cbn [fst snd] in H. bd H. destruct v0 as [st2 l]. cbn [fst snd] in H.
      bd H. rename v0 into st3. inversion H; subst; clear H.
      assert (Kp : kind_at (s_nodes st) (match cp with CHere => b_parent b | CRoot => 0 end) (DFG [] [])).
      { destruct cp; [exact (proj1 W)|]. destruct I as [(_ & _ & _ & (r0 & rest & Er & D1 & D2)) _].
        exists r0. rewrite Er. split; [reflexivity|exact D2]. }
      destruct (Inv_add_leaf _ _ _ _ _ E I Kp eq_refl eq_refl) as (I1 & X1 & _ & _).
      pose proof (WB_ext _ _ _ X1 W) as W1.
      destruct (Inv_add_leaf _ _ _ _ _ E0 I1 (proj1 W1) eq_refl eq_refl) as (I2 & X2 & _ & _).
      pose proof (Frame_Same _ _ (add_link_frame _ _ _ _ _ _ E1)) as S3.
      split; [eapply Inv_Same; eauto|].
      eapply Ext_trans; [exact X1|]. eapply Ext_trans; [exact X2|apply Same_Ext; exact S3].
    - (* SNested *)
      intros id args body IH rs b st e st' e' H I W. cbn [exec_stmt] in H.
      bd H. rename v into ws. bd H. rename v into ts. bd H. destruct v as [st1 d]. cbn [fst snd] in H.
      unfold init_io in H. bd H. destruct v as [[st3 io]]. 
      unfold init_io in E2. bd E2. destruct v as [st2a i]. cbn [fst snd] in E2. bd E2. destruct v as [st2b o].
      cbn [fst snd] in E2. inversion E2; subst; clear E2. cbn [fst snd] in H.
      bd H. destruct v as [st4 ts4]. cbn [fst snd] in H. bd H. destruct v as [st5 e5]. cbn [fst snd] in H.
      inversion H; subst; clear H.
      destruct (new_region_inv _ _ _ _ _ _ _ _ _ E1 E3 E4 I (proj1 W)) as (I3 & X3 & W3).
      pose proof (Frame_Same _ _ (wire_up_from_frame _ _ _ _ _ _ E2)) as S4.
      pose proof (Inv_Same _ _ S4 I3) as I4.
      pose proof (WB_ext _ _ _ (Same_Ext _ _ S4) W3) as W4.
      destruct (IH _ _ _ _ _ E5 I4 W4) as (I5 & X5).
      split; [exact I5|]. eapply Ext_trans; [exact X3|]. eapply Ext_trans; [apply Same_Ext; exact S4|exact X5].
    - (* SOrder *)
      intros src dst b st e st' e' H I W. cbn [exec_stmt] in H.
      bd H. bd H. bd H. inversion H; subst; clear H.
      pose proof (Frame_Same _ _ (add_order_link_frame _ _ _ _ E1)) as S.
      split; [eapply Inv_Same; eauto|apply Same_Ext; exact S].
    - (* Region *)
      intros ins body IH outs b st e st' e' H I W. cbn [exec_region] in H.
      bd H. destruct v as [st1 e1]. cbn [fst snd] in H. bd H. rename v into ws. bd H. rename v into st2.
      inversion H; subst; clear H.
      destruct (IH _ _ _ _ _ E I W) as (I1 & X1).
      pose proof (set_outputs_same _ _ _ _ E1 (WB_ext _ _ _ X1 W)) as S.
      split; [eapply Inv_Same; eauto|]. eapply Ext_trans; [exact X1|apply Same_Ext; exact S].
    - (* SNil *)
      intros b st e st' e' H I W. cbn in H. inversion H; subst. split; [exact I|apply Ext_refl].
    - (* SCons *)
      intros s IHs r IHr b st e st' e' H I W. cbn [exec_stmts] in H.
      bd H. destruct v as [st1 e1]. cbn [fst snd] in H.
      destruct (IHs _ _ _ _ _ E I W) as (I1 & X1).
      destruct (IHr _ _ _ _ _ H I1 (WB_ext _ _ _ X1 W)) as (I2 & X2).
      split; [exact I2|eapply Ext_trans; eauto].
  Qed.
End Main.

(* ------------------------------------------------------------------ from the store to the serialised document *)
Lemma tags_to_serial st : r_child_tags (to_serial st) = r_child_tags (Gn (s_nodes st)).
Proof. reflexivity. Qed.
Lemma fs_to_serial st : r_first_second (to_serial st) = r_first_second (Gn (s_nodes st)).
Proof. reflexivity. Qed.
Lemma index_to_serial st : Inv st -> r_index (to_serial st) = true.
Proof.
  intros [(_ & _ & C & (r & rest & Er & D1 & _)) K]. unfold r_index, to_serial. cbn [g_nodes g_edges].
  rewrite Er. rewrite <- Er. apply andb_true_iff. split; [apply andb_true_iff; split|].
  - now apply N.eqb_eq.
  - exact C.
  - rewrite forallb_map. cbn [e_src e_dst]. exact K.
Qed.

Theorem run_structural tys p g :
  run tys p = Ok g -> r_index g = true /\ r_child_tags g = true /\ r_first_second g = true.
Proof.
  destruct p as [ins body]. unfold run, exec_prog. cbn [init_io new_store add_node s_len s_nodes lenN length N.of_nat].
  intros H. cbn in H. bd H. rename v into st'. bd E. destruct v as [st1 e1]. cbn [fst snd] in E.
  inversion E; subst; clear E. inversion H; subst; clear H.
  destruct (exec_keeps_invariants tys) as (_ & HR & _).
  match type of E0 with exec_region _ _ ?b ?st ?e = _ => assert (I0 : Inv st /\ WB st b) end.
  { split; [split; [repeat split|reflexivity]|split].
    - eexists _, _. split; [reflexivity|split; reflexivity].
    - eexists. split; reflexivity.
    - eexists. split; reflexivity. }
  destruct I0 as [I0 W0]. destruct (HR _ _ _ _ _ _ E0 I0 W0) as [I _].
  split; [now apply index_to_serial|]. rewrite tags_to_serial, fs_to_serial. destruct I as [(A & B & _) _]. auto.
Qed.

(* non-vacuity: a program with a nested region using an outer wire (Ext edge + order edge) runs, and the
   whole `valid` accepts its document *)
Definition ex_tys : list tyinfo := [TAtom true].
Definition ex_prog : prog :=
  PDfg [0] (Region [1]
    (SCons (SNested 1 [] (Region [] (SCons (SOp 2 ONoop [1] [2]) SNil) [2]) [3])
    (SCons (SOrder RIn (RStmt 1)) SNil)) [3]).
Example ex_runs : exists g, run ex_tys ex_prog = Ok g /\
  valid {| v_tys := ex_tys; v_main := g; v_subs := [] |} = true /\ length (g_edges g) = 4%nat.
Proof. eexists. split; [vm_compute; reflexivity|split; vm_compute; reflexivity]. Qed.
