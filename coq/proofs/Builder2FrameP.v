(* C01 (third pass) — frame layer for the extended builder language (model/Builder2.v), premise-free:
   closed forms of what each builder call does to the store; the invariants
     ModelOps2  only operations of the extended model occur (no FuncDefn, no CFG / blocks);
     CasePos    every Case node sits in the block its Conditional created (position cond + 1 + 3k, k < #variants);
     LinksPos   no link touches the root;
     EnvPos     the interpreter's environment never names the root;
     Keep       a builder call leaves the nodes that existed before untouched (except the open container and its
                Output node when a region is closed, and the Conditional when a case is closed);
   the open builder's placeholders (OpenB2), and closedness: every container a statement created is complete when
   the statement returns (strict Input/Output rows for DFG / Case, Output = ctl :: _ for TailLoop, every Case of a
   Conditional carries the Conditional's outputs).  Generalises proofs/BuilderFrameP.v. *)
From Coq Require Import NArith List Bool Arith Lia.
Import ListNotations.
From HV Require Import lib.Harness model.Validity model.Builder model.Builder2 spec.BuilderS proofs.BuilderP
  proofs.BuilderExtP proofs.BuilderFrameP proofs.Builder2UnfoldP proofs.Builder2InvP proofs.Builder2P spec.Builder2WFS.
Local Open Scope N_scope.

(* ------------------------------------------------------------------ operations of the extended model *)
Definition model_op2 (o : vop) : bool :=
  match o with
  | DFG _ _ | Input _ | Output _ | ExtOp _ _ | Tag _ _ _ | Const _ | LoadConst _
  | TailLoop _ _ _ _ | Conditional _ _ _ _ | Case _ _ | CallIndirect _ _ _ => true
  | _ => false
  end.
Definition ModelOps2 (l : list vnode) : Prop := forallb (fun nd => model_op2 (n_op nd)) l = true.
Definition is_case (o : vop) : bool := match o with Case _ _ => true | _ => false end.

Lemma model_op2_canon o : model_op2 (canon o) = model_op2 o. Proof. now destruct o. Qed.
Lemma ModelOps2_app l ext : ModelOps2 l -> ModelOps2 ext -> ModelOps2 (l ++ ext).
Proof. unfold ModelOps2. intros A B. now rewrite forallb_app, A, B. Qed.
Lemma ModelOps2_set l n x : ModelOps2 l -> model_op2 (n_op x) = true -> ModelOps2 (set_nth l n x).
Proof. intros A B. now apply forallb_set_nth. Qed.
Lemma initial_model2 o : model_op2 (initial_op o) = true. Proof. now destruct o. Qed.

(* ------------------------------------------------------------------ every Case node sits in its Conditional's block *)
Definition cond_rows (o : vop) : option (list row) :=
  match o with Conditional rows _ _ _ => Some rows | _ => None end.
Definition CasePos (l : list vnode) : Prop := forall j nd, nthN l j = Some nd -> is_case (n_op nd) = true ->
  exists pnd rows k, nthN l (n_parent nd) = Some pnd /\ cond_rows (n_op pnd) = Some rows /\
                     j = n_parent nd + 1 + 3 * k /\ k < lenN rows.

(* l' has the same skeleton as l on the nodes of l: parents, Case-ness, the rows of Conditionals *)
Definition Steady (l l' : list vnode) : Prop := forall j nd, nthN l j = Some nd ->
  exists nd', nthN l' j = Some nd' /\ n_parent nd' = n_parent nd /\ is_case (n_op nd') = is_case (n_op nd) /\
              cond_rows (n_op nd') = cond_rows (n_op nd).
Lemma Steady_refl l : Steady l l.
Proof. intros j nd H. exists nd. auto. Qed.
Lemma Steady_app l ext : Steady l (l ++ ext).
Proof. intros j nd H. exists nd. split; [now apply nthN_app1|auto]. Qed.
Lemma Steady_set l n nd x : nthN l n = Some nd -> n_parent x = n_parent nd -> is_case (n_op x) = is_case (n_op nd) ->
  cond_rows (n_op x) = cond_rows (n_op nd) -> Steady l (set_nth l (N.to_nat n) x).
Proof.
  intros E P C R j nd0 H. destruct (N.eq_dec j n) as [->|Hne].
  - exists x. split; [apply nthN_set_nth_eq; eapply nthN_lt; eauto|]. rewrite E in H. inversion H; subst. auto.
  - exists nd0. split; [now rewrite nthN_set_nth_neq|auto].
Qed.

(* CasePos survives a steady change that only adds nodes which are not Case nodes *)
Lemma CasePos_steady l l' : CasePos l -> Steady l l' -> lenN l' = lenN l ->
  (forall j nd', nthN l' j = Some nd' -> is_case (n_op nd') = true -> exists nd, nthN l j = Some nd /\ is_case (n_op nd) = true /\ n_parent nd = n_parent nd') ->
  CasePos l'.
Proof.
  intros CP S Hl Hback j nd' E C. destruct (Hback _ _ E C) as (nd & En & Cn & Pn).
  destruct (CP _ _ En Cn) as (pnd & rows & k & Ep & Er & Hj & Hk).
  destruct (S _ _ Ep) as (pnd' & Ep' & _ & _ & Er').
  exists pnd', rows, k. rewrite <- Pn. repeat split; auto. congruence.
Qed.

Lemma CasePos_set l n nd x : CasePos l -> nthN l n = Some nd -> n_parent x = n_parent nd ->
  is_case (n_op x) = is_case (n_op nd) -> cond_rows (n_op x) = cond_rows (n_op nd) ->
  CasePos (set_nth l (N.to_nat n) x).
Proof.
  intros CP E P C R. apply (CasePos_steady l); auto.
  - eapply Steady_set; eauto.
  - apply lenN_set_nth.
  - intros j nd' H Hc. destruct (N.eq_dec j n) as [->|Hne].
    + rewrite nthN_set_nth_eq in H by (eapply nthN_lt; eauto). inversion H; subst nd'. exists nd. rewrite <- C. auto.
    + rewrite nthN_set_nth_neq in H by exact Hne. exists nd'. auto.
Qed.

Lemma CasePos_app l ext : CasePos l -> forallb (fun nd => negb (is_case (n_op nd))) ext = true -> CasePos (l ++ ext).
Proof.
  intros CP Hx j nd E C. destruct (N.lt_ge_cases j (lenN l)) as [L|L].
  - rewrite nthN_app_lt in E by exact L. destruct (CP _ _ E C) as (pnd & rows & k & Ep & Er & Hj & Hk).
    exists pnd, rows, k. split; [now apply nthN_app1|auto].
  - rewrite nthN_app_ge in E by exact L. pose proof (forallb_nthN _ _ _ _ Hx E) as F. cbn beta in F. now rewrite C in F.
Qed.

(* ------------------------------------------------------------------ Conditional._init_impl: closed form *)
Fixpoint case_blocks (c : N) (others : row) (rows : list row) (pos : N) : list vnode :=
  match rows with
  | [] => []
  | r :: rest => mk (Case (r ++ others) []) c :: mk (Input (r ++ others)) pos :: mk (Output []) pos ::
                 case_blocks c others rest (pos + 3)
  end.
Fixpoint case_builders (rows : list row) (pos : N) : list (dfb * bool) :=
  match rows with
  | [] => []
  | _ :: rest => (mkb pos (pos + 1) (pos + 2), false) :: case_builders rest (pos + 3)
  end.

Lemma s_len_app2 st st' ext : s_nodes st' = s_nodes st ++ ext -> s_len st' = s_len st + lenN ext.
Proof. unfold s_len. intros ->. apply lenN_app. Qed.

Lemma make_cases_spec others : forall rows st c st' bs,
  make_cases st c rows others = Ok (st', bs) ->
  s_nodes st' = s_nodes st ++ case_blocks c others rows (s_len st) /\ s_links st' = s_links st /\
  bs = case_builders rows (s_len st).
Proof.
  induction rows as [|r rest IH]; intros st c st' bs H; cbn [make_cases] in H.
  - inversion H; subst. cbn. now rewrite app_nil_r.
  - bd H. destruct v as [st1 n]. cbn [fst snd] in H. bd H. destruct v as [st3 io]. cbn [fst snd] in H.
    bd H. destruct v as [st4 bs4]. cbn [fst snd] in H. inversion H; subst; clear H.
    destruct (init_io_inv _ _ _ _ _ E0) as (st2 & i & o & A1 & A2 & ->).
    apply add_node_ok in E. destruct E as (_ & -> & En1 & El1).
    apply add_node_ok in A1. destruct A1 as (_ & -> & En2 & El2).
    apply add_node_ok in A2. destruct A2 as (_ & -> & En3 & El3).
    destruct (IH _ _ _ _ E1) as (En4 & El4 & ->).
    assert (H1 : s_len st1 = s_len st + 1) by (rewrite (s_len_app2 _ _ _ En1); reflexivity).
    assert (H2 : s_len st2 = s_len st + 2) by (rewrite (s_len_app2 _ _ _ En2), H1; cbn; lia).
    assert (H3 : s_len st3 = s_len st + 3) by (rewrite (s_len_app2 _ _ _ En3), H2; cbn; lia).
    rewrite H1, H2, H3 in *. cbn [case_blocks case_builders]. split; [|split].
    + rewrite En4, En3, En2, En1, <- !app_assoc. reflexivity.
    + congruence.
    + unfold mkb. do 3 f_equal; lia.
Qed.

Lemma nthN_S3 {A} (a b c : A) l i : nthN (a :: b :: c :: l) (i + 3) = nthN l i.
Proof. replace (i + 3) with (((i + 1) + 1) + 1) by lia. now rewrite !nthN_S. Qed.

Lemma case_blocks_nth c others : forall rows pos k row, nthN rows k = Some row ->
  nthN (case_blocks c others rows pos) (3 * k) = Some (mk (Case (row ++ others) []) c) /\
  nthN (case_blocks c others rows pos) (3 * k + 1) = Some (mk (Input (row ++ others)) (pos + 3 * k)) /\
  nthN (case_blocks c others rows pos) (3 * k + 2) = Some (mk (Output []) (pos + 3 * k)).
Proof.
  induction rows as [|r rest IH]; intros pos k row H; [unfold nthN in H; destruct (N.to_nat k); discriminate|].
  destruct (N.eq_dec k 0) as [->|Hk].
  - cbn in H. inversion H; subst. cbn [case_blocks]. change (3 * 0) with 0. rewrite N.add_0_r. repeat split.
  - replace k with ((k - 1) + 1) in H by lia. rewrite nthN_S in H. destruct (IH (pos + 3) _ _ H) as (A & B & C).
    cbn [case_blocks].
    replace (3 * k) with (3 * (k - 1) + 3) by lia. replace (3 * (k - 1) + 3 + 1) with (3 * (k - 1) + 1 + 3) by lia.
    replace (3 * (k - 1) + 3 + 2) with (3 * (k - 1) + 2 + 3) by lia. rewrite !nthN_S3.
    replace (pos + (3 * (k - 1) + 3)) with (pos + 3 + 3 * (k - 1)) by lia. auto.
Qed.
Lemma case_blocks_len c others : forall rows pos, lenN (case_blocks c others rows pos) = 3 * lenN rows.
Proof.
  induction rows as [|r rest IH]; intros pos; cbn [case_blocks]; [reflexivity|].
  rewrite !lenN_cons, IH. lia.
Qed.
Lemma case_blocks_case c others : forall rows pos j nd, nthN (case_blocks c others rows pos) j = Some nd ->
  is_case (n_op nd) = true -> n_parent nd = c /\ exists k, j = 3 * k /\ k < lenN rows.
Proof.
  induction rows as [|r rest IH]; intros pos j nd H C; [unfold nthN in H; destruct (N.to_nat j); discriminate|].
  cbn [case_blocks] in H. destruct (N.eq_dec j 0) as [->|H0].
  - cbn in H. inversion H; subst. split; [reflexivity|]. exists 0. rewrite lenN_cons. lia.
  - destruct (N.eq_dec j 1) as [->|H1]; [cbn in H; inversion H; subst; discriminate|].
    destruct (N.eq_dec j 2) as [->|H2]; [cbn in H; inversion H; subst; discriminate|].
    replace j with ((j - 3) + 3) in H by lia. rewrite nthN_S3 in H. destruct (IH _ _ _ H C) as (P & k & Hj & Hk).
    split; [exact P|]. exists (k + 1). rewrite lenN_cons. lia.
Qed.
Lemma case_blocks_model c others : forall rows pos, ModelOps2 (case_blocks c others rows pos).
Proof. induction rows as [|r rest IH]; intros pos; [reflexivity|]. unfold ModelOps2 in *. cbn. apply IH. Qed.
Lemma case_builders_nth : forall rows pos k (row : row), nthN rows k = Some row ->
  nthN (case_builders rows pos) k = Some (mkb (pos + 3 * k) (pos + 3 * k + 1) (pos + 3 * k + 2), false).
Proof.
  induction rows as [|r rest IH]; intros pos k row H; [unfold nthN in H; destruct (N.to_nat k); discriminate|].
  destruct (N.eq_dec k 0) as [->|Hk].
  - cbn [case_builders]. change (3 * 0) with 0. rewrite N.add_0_r. reflexivity.
  - replace k with ((k - 1) + 1) in * by lia. rewrite nthN_S in H. cbn [case_builders]. rewrite nthN_S.
    rewrite (IH (pos + 3) _ _ H). unfold mkb. do 3 f_equal; lia.
Qed.
Lemma case_builders_len : forall rows pos, lenN (case_builders rows pos) = lenN rows.
Proof. induction rows as [|r rest IH]; intros pos; cbn [case_builders]; [reflexivity|]. now rewrite !lenN_cons, IH. Qed.

(* the Conditional node followed by its case blocks *)
Lemma CasePos_cond_block l rows others s pp :
  CasePos l -> CasePos (l ++ mk (Conditional rows others [] s) pp :: case_blocks (lenN l) others rows (lenN l + 1)).
Proof.
  intros CP j nd E C. destruct (N.lt_ge_cases j (lenN l)) as [L|L].
  - rewrite nthN_app_lt in E by exact L. destruct (CP _ _ E C) as (pnd & rows' & k & Ep & Er & Hj & Hk).
    exists pnd, rows', k. split; [now apply nthN_app1|auto].
  - rewrite nthN_app_ge in E by exact L. destruct (N.eq_dec j (lenN l)) as [->|Hne].
    + rewrite N.sub_diag in E. cbn in E. inversion E; subst. discriminate.
    + replace (j - lenN l) with ((j - lenN l - 1) + 1) in E by lia. rewrite nthN_S in E.
      destruct (case_blocks_case _ _ _ _ _ _ E C) as (P & k & Hj & Hk).
      exists (mk (Conditional rows others [] s) pp), rows, k. rewrite P. split; [apply nthN_len|].
      split; [reflexivity|]. split; [lia|exact Hk].
Qed.

(* ------------------------------------------------------------------ the inserted block *)
Lemma ModelOps2_shift base parent l : ModelOps2 l -> ModelOps2 (map (shiftn base parent) (indexed l)).
Proof.
  unfold ModelOps2. intros H. rewrite forallb_map. apply forallb_forall. intros [j nd] Hin. cbn.
  rewrite forallb_forall in H. apply H. unfold indexed in Hin. apply in_index_from in Hin. destruct Hin as [_ Hn].
  eapply nthN_In; eauto.
Qed.
Lemma nthN_shifted base parent l j : nthN (map (shiftn base parent) (indexed l)) j = option_map (fun nd => shiftn base parent (j, nd)) (nthN l j).
Proof. rewrite nthN_map, nthN_indexed. now destruct (nthN l j). Qed.

Lemma CasePos_insert l inner parent :
  CasePos l -> CasePos inner -> bounded inner = true ->
  CasePos (l ++ map (shiftn (lenN l) parent) (indexed inner)).
Proof.
  intros CP CPi Hb j nd E C. destruct (N.lt_ge_cases j (lenN l)) as [L|L].
  - rewrite nthN_app_lt in E by exact L. destruct (CP _ _ E C) as (pnd & rows & k & Ep & Er & Hj & Hk).
    exists pnd, rows, k. split; [now apply nthN_app1|auto].
  - rewrite nthN_app_ge in E by exact L. rewrite nthN_shifted in E.
    destruct (nthN inner (j - lenN l)) as [nd0|] eqn:E0; [|discriminate]. cbn in E. inversion E; subst nd; clear E.
    assert (C0 : is_case (n_op nd0) = true) by exact C.
    destruct (CPi _ _ E0 C0) as (pnd & rows & k & Ep & Er & Hj & Hk).
    assert (HP : n_parent (shiftn (lenN l) parent (j - lenN l, nd0)) = lenN l + n_parent nd0).
    { unfold shiftn. cbn [fst snd mk n_parent]. replace (j - lenN l =? 0) with false; [reflexivity|].
      symmetry. apply N.eqb_neq. lia. }
    rewrite HP.
    exists (shiftn (lenN l) parent (n_parent nd0, pnd)), rows, k. split; [|split; [exact Er|split; [lia|exact Hk]]].
    rewrite nthN_app_ge by lia. replace (lenN l + n_parent nd0 - lenN l) with (n_parent nd0) by lia.
    rewrite nthN_shifted, Ep. reflexivity.
Qed.

(* ------------------------------------------------------------------ open builders, closed containers *)
Definition open_op (o : vop) (ins : row) : Prop :=
  o = DFG ins [] \/ o = Case ins [] \/ exists n, o = TailLoop ins [] [] n.
Definition OpenB2 (l : list vnode) (b : dfb) : Prop :=
  b_in b = b_parent b + 1 /\ b_out b = b_parent b + 2 /\
  exists o ins pp, nthN l (b_parent b) = Some (mk o pp) /\ open_op o ins /\
    nthN l (b_parent b + 1) = Some (mk (Input ins) (b_parent b)) /\
    nthN l (b_parent b + 2) = Some (mk (Output []) (b_parent b)).

(* the rows rule 3 asks for, except that the `rest` part of a TailLoop's Output row is left open (hugr-py does not
   check it: that part needs the typing premise) *)
Definition io_strict (l : list vnode) (p : N) (o : vop) : Prop :=
  match o with
  | DFG i oo | Case i oo => nthN l (p + 1) = Some (mk (Input i) p) /\ nthN l (p + 2) = Some (mk (Output oo) p)
  | TailLoop ji jo rest c =>
      nthN l (p + 1) = Some (mk (Input (ji ++ rest)) p) /\ exists other, nthN l (p + 2) = Some (mk (Output (c :: other)) p)
  | Conditional rows others outs s =>
      forall k row, nthN rows k = Some row -> nthN l (p + 1 + 3 * k) = Some (mk (Case (row ++ others) outs) p)
  | _ => True
  end.
Definition ClosedFrom (lo : N) (l : list vnode) : Prop :=
  forall p nd, lo <= p -> nthN l p = Some nd -> io_strict l p (n_op nd).

Lemma io_strict_keep l l' p o : io_strict l p o ->
  (forall n, p <= n -> n < lenN l -> nthN l' n = nthN l n) -> io_strict l' p o.
Proof.
  intros H K.
  assert (T : forall q x, p <= q -> nthN l q = Some x -> nthN l' q = Some x).
  { intros q x Hq E. rewrite K; [exact E|exact Hq|eapply nthN_lt; eauto]. }
  destruct o; cbn [io_strict] in *; auto.
  - destruct H as [A B]. split; apply T; auto; lia.
  - intros k row Hk. apply T; [lia|now apply H].
  - destruct H as [A B]. split; apply T; auto; lia.
  - destruct H as [A [other B]]. split; [apply T; auto; lia|]. exists other. apply T; auto; lia.
Qed.
Lemma ClosedFrom_keep lo l l' : ClosedFrom lo l -> lenN l <= lenN l' ->
  (forall n, lo <= n -> n < lenN l -> nthN l' n = nthN l n) -> ClosedFrom (lenN l) l' -> ClosedFrom lo l'.
Proof.
  intros C1 L K C2 p nd Hp E. destruct (N.lt_ge_cases p (lenN l)) as [Lt|Ge].
  - rewrite K in E by assumption. eapply io_strict_keep; [exact (C1 _ _ Hp E)|]. intros n Hn Ln. apply K; lia.
  - exact (C2 _ _ Ge E).
Qed.
Lemma ClosedFrom_weaken lo lo' l : lo <= lo' -> ClosedFrom lo l -> ClosedFrom lo' l.
Proof. intros L C p nd Hp E. apply C; [lia|exact E]. Qed.
Lemma ClosedFrom_leaf l x lo : ClosedFrom lo l -> io_strict (l ++ [x]) (lenN l) (n_op x) -> ClosedFrom lo (l ++ [x]).
Proof.
  intros C Hx p nd Hp E. apply nthN_snoc_inv in E. destruct E as [E|[-> ->]]; [|exact Hx].
  eapply io_strict_keep; [exact (C _ _ Hp E)|]. intros n _ Ln. now apply nthN_app_lt.
Qed.

Lemma OpenB2_lt l b : OpenB2 l b -> b_parent b + 2 < lenN l.
Proof. intros (_ & _ & o & ins & pp & _ & _ & _ & Ho). eapply nthN_lt; eauto. Qed.
Lemma OpenB2_keep st st' b : Keep st st' -> OpenB2 (s_nodes st) b -> OpenB2 (s_nodes st') b.
Proof.
  intros K O. pose proof (OpenB2_lt _ _ O) as L. destruct O as (Ei & Eo & o & ins & pp & Hp & Hop & Hi & Ho).
  split; [exact Ei|]. split; [exact Eo|]. exists o, ins, pp. unfold s_len in K. rewrite !K by (unfold s_len; lia). auto.
Qed.
Lemma open_op_dfk o ins : open_op o ins -> dfk o = true.
Proof. intros [->|[->|(n & ->)]]; reflexivity. Qed.
Lemma OpenB2_WB2 st b : OpenB2 (s_nodes st) b -> WB2 st b.
Proof.
  intros (_ & Eo & o & ins & pp & Hp & Hop & _ & Ho). split.
  - eexists. split; [exact Hp|]. cbn. rewrite dfk_canon. eapply open_op_dfk; eauto.
  - rewrite Eo. eexists. split; [exact Ho|reflexivity].
Qed.

(* ------------------------------------------------------------------ the environment never names the root *)
Definition EnvPos (e : env) : Prop :=
  (forall w p, In (w, p) (e_wires e) -> 0 < fst p) /\ (forall s n, In (s, n) (e_stmts e) -> 0 < n).
Lemma EnvPos_bind e id n rs : EnvPos e -> 0 < n -> EnvPos (bind_outs (bind_stmt e id n) n rs).
Proof.
  intros [A B] P. unfold bind_outs. split.
  - intros w p H. apply bind_outs_from_wires in H. destruct H as [H|H]; [apply (A _ _ H)|]. now rewrite H.
  - intros s m H. rewrite bind_outs_from_stmts in H. cbn in H. destruct H as [H|H]; [inversion H; subst; auto|eauto].
Qed.
Lemma EnvPos_bind_in e n ws : EnvPos e -> 0 < n -> EnvPos (bind_outs e n ws).
Proof.
  intros [A B] P. unfold bind_outs. split.
  - intros w p H. apply bind_outs_from_wires in H. destruct H as [H|H]; [apply (A _ _ H)|]. now rewrite H.
  - intros s m H. rewrite bind_outs_from_stmts in H. eauto.
Qed.
Lemma get_wires_pos2 e args ws : EnvPos e -> get_wires e args = Ok ws -> forall w, In w ws -> 0 < fst w.
Proof. intros [A _] G w Hin. destruct (get_wires_In _ _ _ G _ Hin) as [x Hx]. eapply A; eauto. Qed.
Lemma get_wire_pos2 e w p : EnvPos e -> get_wire e w = Ok p -> 0 < fst p.
Proof.
  intros [A _]. unfold get_wire. destruct (lookup (e_wires e) w) as [q|] eqn:E; [|discriminate].
  intros H. inversion H; subst. apply lookup_In in E. eapply A; eauto.
Qed.
Lemma node_of_pos b e r n : node_of b e r = Ok n -> EnvPos e -> 0 < b_in b -> 0 < b_out b -> 0 < n.
Proof.
  intros H [_ B] I O. destruct r as [| |s]; cbn in H.
  - now inversion H; subst.
  - now inversion H; subst.
  - destruct (lookup (e_stmts e) s) as [m|] eqn:E; [|discriminate]. inversion H; subst.
    apply lookup_In in E. eauto.
Qed.

Lemma LinksPos_shift st st' inner :
  LinksPos st -> 0 < s_len st -> s_links st' = s_links st ++ map (shift_edge (s_len st)) (s_links inner) -> LinksPos st'.
Proof.
  unfold LinksPos. intros A P ->. rewrite forallb_app, A, forallb_map. cbn [andb]. apply forallb_forall.
  intros e _. cbn [shift_edge e_src e_dst]. apply andb_true_iff. split; apply negb_true_iff, N.eqb_neq; lia.
Qed.

(* ------------------------------------------------------------------ closed forms of the builder calls *)
Definition Fbase2 (st : store) : Prop := ModelOps2 (s_nodes st) /\ CasePos (s_nodes st) /\ LinksPos st.

Lemma exec_TOp_SOp tys id o args rs b st e : exec_stmt2 tys (TOp id o args rs) b st e = exec_stmt tys (SOp id o args rs) b st e.
Proof. reflexivity. Qed.
Lemma exec_TLoad_SLoad tys id v cp r b st e : exec_stmt2 tys (TLoad id v cp r) b st e = exec_stmt tys (SLoad id v cp r) b st e.
Proof. reflexivity. Qed.
Lemma exec_TOrder_SOrder tys src dst b st e : exec_stmt2 tys (TOrder src dst) b st e = exec_stmt tys (SOrder src dst) b st e.
Proof. reflexivity. Qed.

Lemma TCallInd_spec tys id args rs b st e st' e' :
  exec_stmt2 tys (TCallInd id args rs) b st e = Ok (st', e') ->
  exists ws ts op' new st1,
    get_wires e args = Ok ws /\ b_parent b < s_len st /\
    s_nodes st1 = s_nodes st ++ [mk (CallIndirect [] [] 0) (b_parent b)] /\ s_links st1 = s_links st /\
    WNew st1 (s_len st) 0 ws ts new /\ completed_callind tys ts = Ok op' /\
    s_nodes st' = s_nodes st ++ [mk op' (b_parent b)] /\ s_links st' = s_links st ++ new /\
    e' = bind_outs (bind_stmt e id (s_len st)) (s_len st) rs.
Proof.
  intros H. apply exec_TCallInd_inv in H. destruct H as (ws & st1 & n & st2 & ts & op' & G & A & W & C & S & Ee).
  apply add_node_ok in A. destruct A as (Lp & -> & En1 & El1).
  apply wire_up_spec in W. destruct W as (En2 & new & El2 & HW).
  destruct (set_op_ok _ _ _ _ S) as (nd & Hn & En3 & El3).
  exists ws, ts, op', new, st1. repeat split; auto.
  - rewrite En3, En2, En1. rewrite En2, En1 in Hn. unfold s_len in Hn. rewrite nthN_len in Hn. inversion Hn; subst nd.
    unfold s_len, lenN. rewrite Nat2N.id. cbn [mk n_parent]. apply set_nth_snoc.
  - rewrite El3, El2, El1. reflexivity.
Qed.

(* a new container with its Input / Output nodes, then the wiring of its inputs *)
Lemma container_spec st p co ti st1 d st2 i st3 o ws st4 ts4 :
  add_node st co p = Ok (st1, d) -> add_node st1 (Input ti) d = Ok (st2, i) -> add_node st2 (Output []) d = Ok (st3, o) ->
  wire_up st3 d ws = Ok (st4, ts4) ->
  exists new,
    p < s_len st /\ d = s_len st /\ i = s_len st + 1 /\ o = s_len st + 2 /\
    s_nodes st3 = s_nodes st ++ [mk co p; mk (Input ti) (s_len st); mk (Output []) (s_len st)] /\
    s_links st3 = s_links st /\ WNew st3 (s_len st) 0 ws ts4 new /\
    s_nodes st4 = s_nodes st3 /\ s_links st4 = s_links st ++ new /\ s_len st4 = s_len st + 3.
Proof.
  intros A1 A2 A3 W.
  apply add_node_ok in A1. destruct A1 as (Lp & -> & En1 & El1).
  apply add_node_ok in A2. destruct A2 as (_ & -> & En2 & El2).
  apply add_node_ok in A3. destruct A3 as (_ & -> & En3 & El3).
  apply wire_up_spec in W. destruct W as (En4 & new & El4 & HW).
  assert (H1 : s_len st1 = s_len st + 1) by (rewrite (s_len_app2 _ _ _ En1); reflexivity).
  assert (H2 : s_len st2 = s_len st + 2) by (rewrite (s_len_app2 _ _ _ En2), H1; cbn; lia).
  rewrite H1, H2 in *.
  assert (EQ : s_nodes st3 = s_nodes st ++ [mk co p; mk (Input ti) (s_len st); mk (Output []) (s_len st)]).
  { rewrite En3, En2, En1, <- !app_assoc. reflexivity. }
  exists new. repeat split; auto; try congruence.
  rewrite (s_len_nodes _ _ En4), (s_len_app2 _ _ _ EQ). reflexivity.
Qed.

Lemma set_outputs2_spec tys st b ws st' : set_outputs2 tys st b ws = Ok st' -> OpenB2 (s_nodes st) b ->
  exists ts new o ins pp o',
    WNew st (b_out b) 0 ws ts new /\ s_links st' = s_links st ++ new /\
    nthN (s_nodes st) (b_parent b) = Some (mk o pp) /\ open_op o ins /\ set_out_types2 tys o ts = Ok o' /\
    s_nodes st' = set_nth (set_nth (s_nodes st) (N.to_nat (b_parent b + 2)) (mk (Output ts) (b_parent b)))
                          (N.to_nat (b_parent b)) (mk o' pp).
Proof.
  intros H (Ei & Eo & o & ins & pp & Hp & Hop & Hi & Ho). apply set_outputs2_inv in H.
  destruct H as (st1 & ts & st2 & po & po' & W & S1 & Hpo & Hso & S2).
  apply wire_up_spec in W. destruct W as (En1 & new & El1 & HW).
  destruct (set_op_ok _ _ _ _ S1) as (nd1 & Hn1 & En2 & El2).
  destruct (set_op_ok _ _ _ _ S2) as (nd2 & Hn2 & En3 & El3).
  rewrite Eo, En1, Ho in Hn1. inversion Hn1; subst nd1. cbn [mk n_parent] in En2.
  rewrite En2, En1, Eo, nthN_set_nth_neq, Hp in Hn2 by lia. inversion Hn2; subst nd2. cbn [mk n_parent] in En3.
  unfold s_op in Hpo. rewrite En2, En1, Eo, nthN_set_nth_neq, Hp in Hpo by lia. cbn in Hpo. inversion Hpo; subst po.
  exists ts, new, o, ins, pp, po'. repeat split; auto.
  - rewrite El3, El2, El1. reflexivity.
  - rewrite En3, En2, En1, Eo. reflexivity.
Qed.

(* what closing does to the open container *)
Lemma closed_io_strict tys p o ins pp ts o' l' :
  open_op o ins -> set_out_types2 tys o ts = Ok o' ->
  nthN l' p = Some (mk o' pp) -> nthN l' (p + 1) = Some (mk (Input ins) p) -> nthN l' (p + 2) = Some (mk (Output ts) p) ->
  io_strict l' p o' /\ model_op2 o' = true /\ is_case o' = is_case o /\ cond_rows o' = cond_rows o.
Proof.
  intros Hop Hs E0 E1 E2. destruct Hop as [->|[->|(n & ->)]]; cbn in Hs.
  - inversion Hs; subst. cbn. auto.
  - inversion Hs; subst. cbn. auto.
  - destruct ts as [|t other]; [discriminate|]. destruct (nthN tys t) as [[c rows| |]|]; try discriminate.
    destruct rows as [|a [|jo [|]]]; try discriminate. destruct (row_eqb a _); [|discriminate].
    inversion Hs; subst. cbn [io_strict model_op2 is_case cond_rows]. rewrite firstn_skipn. repeat split; auto. eauto.
Qed.

(* ------------------------------------------------------------------ small facts *)
Definition leafk (o : vop) : bool :=
  match o with DFG _ _ | Case _ _ | TailLoop _ _ _ _ | Conditional _ _ _ _ => false | _ => true end.
Lemma leafk_canon o : leafk (canon o) = leafk o. Proof. now destruct o. Qed.
Lemma is_case_canon o : is_case (canon o) = is_case o. Proof. now destruct o. Qed.
Lemma io_strict_leaf l p o : leafk o = true -> io_strict l p o.
Proof. destruct o; try discriminate; intros _; exact I. Qed.
Lemma leafk_not_case o : leafk o = true -> is_case o = false. Proof. now destruct o. Qed.
Lemma canon_eq_facts o o' : canon o = canon o' ->
  model_op2 o = model_op2 o' /\ leafk o = leafk o' /\ is_case o = is_case o'.
Proof.
  intros H. rewrite <- (model_op2_canon o), <- (leafk_canon o), <- (is_case_canon o), H,
    model_op2_canon, leafk_canon, is_case_canon. auto.
Qed.

Lemma ClosedFrom_set lo l n x : ClosedFrom lo l -> n < lo -> ClosedFrom lo (set_nth l (N.to_nat n) x).
Proof.
  intros C Ln p nd Hp E. rewrite nthN_set_nth_neq in E by lia.
  eapply io_strict_keep; [exact (C _ _ Hp E)|]. intros m Hm _. apply nthN_set_nth_neq. lia.
Qed.
Lemma ClosedFrom_app_leaves lo l ext : ClosedFrom lo l -> forallb (fun nd => leafk (n_op nd)) ext = true -> ClosedFrom lo (l ++ ext).
Proof.
  intros C Hx p nd Hp E. destruct (N.lt_ge_cases p (lenN l)) as [L|L].
  - rewrite nthN_app_lt in E by exact L. eapply io_strict_keep; [exact (C _ _ Hp E)|]. intros n _ Ln. now apply nthN_app_lt.
  - rewrite nthN_app_ge in E by exact L. apply io_strict_leaf. exact (forallb_nthN _ _ _ _ Hx E).
Qed.
Lemma ClosedFrom_nil l : ClosedFrom (lenN l) l.
Proof. intros p nd Hp E. apply nthN_lt in E. lia. Qed.

Lemma Keep_s_len st st' : Keep st st' -> s_len st <= s_len st' -> forall n, n < lenN (s_nodes st) -> nthN (s_nodes st') n = nthN (s_nodes st) n.
Proof. intros K _ n Hn. apply K. exact Hn. Qed.

(* the inserted block is closed when the inserted program was *)
Lemma nthN_comb_shift l inner parent j o q : nthN inner j = Some (mk o q) -> j <> 0 ->
  nthN (l ++ map (shiftn (lenN l) parent) (indexed inner)) (lenN l + j) = Some (mk o (lenN l + q)).
Proof.
  intros E Hj. rewrite nthN_app_ge by lia. replace (lenN l + j - lenN l) with j by lia.
  rewrite nthN_shifted, E. cbn. unfold shiftn. cbn [fst snd mk n_op n_parent].
  replace (j =? 0) with false by (symmetry; now apply N.eqb_neq). reflexivity.
Qed.
Lemma ClosedFrom_insert l inner parent :
  ClosedFrom 0 inner -> ClosedFrom (lenN l) (l ++ map (shiftn (lenN l) parent) (indexed inner)).
Proof.
  intros C p nd Hp E. rewrite nthN_app_ge in E by exact Hp. rewrite nthN_shifted in E.
  destruct (nthN inner (p - lenN l)) as [nd0|] eqn:E0; [|discriminate]. cbn in E. inversion E; subst nd; clear E.
  pose proof (C _ _ (N.le_0_l _) E0) as H. unfold shiftn. cbn [snd mk n_op].
  set (q := p - lenN l) in *. replace p with (lenN l + q) by lia.
  destruct (n_op nd0); cbn [io_strict] in *; auto.
  - destruct H as [A B]. split.
    + replace (lenN l + q + 1) with (lenN l + (q + 1)) by lia. apply nthN_comb_shift; [exact A|lia].
    + replace (lenN l + q + 2) with (lenN l + (q + 2)) by lia. apply nthN_comb_shift; [exact B|lia].
  - intros k row Hk. replace (lenN l + q + 1 + 3 * k) with (lenN l + (q + 1 + 3 * k)) by lia.
    apply nthN_comb_shift; [now apply H|lia].
  - destruct H as [A B]. split.
    + replace (lenN l + q + 1) with (lenN l + (q + 1)) by lia. apply nthN_comb_shift; [exact A|lia].
    + replace (lenN l + q + 2) with (lenN l + (q + 2)) by lia. apply nthN_comb_shift; [exact B|lia].
  - destruct H as [A [other B]]. split.
    + replace (lenN l + q + 1) with (lenN l + (q + 1)) by lia. apply nthN_comb_shift; [exact A|lia].
    + exists other. replace (lenN l + q + 2) with (lenN l + (q + 2)) by lia. apply nthN_comb_shift; [exact B|lia].
Qed.

(* ------------------------------------------------------------------ the cases of a Conditional under construction *)
Definition CasesInv (l : list vnode) (c : N) (rows : list row) (others : row) (s pp : N) (cur : option row)
    (bs : list (dfb * bool)) : Prop :=
  nthN l c = Some (mk (Conditional rows others (match cur with Some o => o | None => [] end) s) pp) /\
  lenN bs = lenN rows /\
  forall k row, nthN rows k = Some row ->
    let p := c + 1 + 3 * k in
    exists f, nthN bs k = Some (mkb p (p + 1) (p + 2), f) /\
      nthN l (p + 1) = Some (mk (Input (row ++ others)) p) /\
      (if f then exists outs, cur = Some outs /\ nthN l p = Some (mk (Case (row ++ others) outs) c) /\
                              nthN l (p + 2) = Some (mk (Output outs) p)
       else nthN l p = Some (mk (Case (row ++ others) []) c) /\ nthN l (p + 2) = Some (mk (Output []) p)).

Lemma CasesInv_init l rows others s pp :
  CasesInv (l ++ mk (Conditional rows others [] s) pp :: case_blocks (lenN l) others rows (lenN l + 1))
           (lenN l) rows others s pp None (case_builders rows (lenN l + 1)).
Proof.
  split; [apply nthN_len|]. split; [apply case_builders_len|].
  intros k row Hk p. exists false. destruct (case_blocks_nth (lenN l) others rows (lenN l + 1) k row Hk) as (A & B & C).
  assert (T : forall j x, nthN (case_blocks (lenN l) others rows (lenN l + 1)) j = Some x ->
              nthN (l ++ mk (Conditional rows others [] s) pp :: case_blocks (lenN l) others rows (lenN l + 1)) (lenN l + 1 + j) = Some x).
  { intros j x E. rewrite nthN_app_ge by lia. replace (lenN l + 1 + j - lenN l) with (j + 1) by lia. now rewrite nthN_S. }
  subst p. split; [|split; [|split]].
  - rewrite (case_builders_nth _ _ _ _ Hk). unfold mkb. do 3 f_equal; lia.
  - replace (lenN l + 1 + 3 * k + 1) with (lenN l + 1 + (3 * k + 1)) by lia. rewrite (T _ _ B). reflexivity.
  - exact (T _ _ A).
  - replace (lenN l + 1 + 3 * k + 2) with (lenN l + 1 + (3 * k + 2)) by lia. rewrite (T _ _ C). reflexivity.
Qed.

Lemma forallb_snd_nth (bs : list (dfb * bool)) k cb f : forallb (fun x : dfb * bool => snd x) bs = true -> nthN bs k = Some (cb, f) -> f = true.
Proof. intros H E. exact (forallb_nthN _ _ _ _ H E). Qed.

(* when every case has been built, the whole block of the Conditional is closed *)
Lemma cond_block_closed l c rows others s pp outs bs :
  CasesInv l c rows others s pp (Some outs) bs -> forallb (fun x : dfb * bool => snd x) bs = true ->
  forall p nd, c <= p -> p < c + 1 + 3 * lenN rows -> nthN l p = Some nd -> io_strict l p (n_op nd).
Proof.
  intros (Hc & Hl & CI) Hall p nd Lp Up E.
  assert (Hk : forall k row, nthN rows k = Some row ->
     nthN l (c + 1 + 3 * k) = Some (mk (Case (row ++ others) outs) c) /\
     nthN l (c + 1 + 3 * k + 1) = Some (mk (Input (row ++ others)) (c + 1 + 3 * k)) /\
     nthN l (c + 1 + 3 * k + 2) = Some (mk (Output outs) (c + 1 + 3 * k))).
  { intros k row Hr. destruct (CI k row Hr) as (f & Hb & Hi & Hf). rewrite (forallb_snd_nth _ _ _ _ Hall Hb) in Hf.
    destruct Hf as (outs' & Eo & A & B). inversion Eo; subst outs'. auto. }
  destruct (N.eq_dec p c) as [->|Hne].
  - rewrite Hc in E. inversion E; subst nd. cbn [mk n_op io_strict]. intros k row Hr. exact (proj1 (Hk k row Hr)).
  - set (q := p - c - 1). pose proof (N.div_mod' q 3) as Hq. pose proof (N.mod_lt q 3 ltac:(lia)) as Hm.
    set (k := q / 3) in *. set (r := q mod 3) in *.
    assert (Lk : k < lenN rows) by lia. destruct (nthN_some_lt rows k Lk) as [row Hr].
    destruct (Hk k row Hr) as (A & B & C).
    assert (Hp : p = c + 1 + 3 * k + r) by lia.
    destruct (N.eq_dec r 0) as [R0|R0]; [|destruct (N.eq_dec r 1) as [R1|R1]].
    + rewrite Hp, R0, N.add_0_r in E. rewrite A in E. inversion E; subst nd. cbn [mk n_op io_strict].
      rewrite Hp, R0, N.add_0_r. auto.
    + rewrite Hp, R1 in E. rewrite B in E. inversion E; subst nd. exact I.
    + assert (r = 2) by lia. rewrite Hp, H in E. rewrite C in E. inversion E; subst nd. exact I.
Qed.

Section FrameMain2.
  Variable tys : list tyinfo.

  (* the open container after its region has been closed *)
  Definition ClosedB (st st' : store) (b : dfb) : Prop :=
    exists o ins pp ts o',
      nthN (s_nodes st) (b_parent b) = Some (mk o pp) /\ open_op o ins /\ set_out_types2 tys o ts = Ok o' /\
      nthN (s_nodes st') (b_parent b) = Some (mk o' pp) /\
      nthN (s_nodes st') (b_parent b + 1) = Some (mk (Input ins) (b_parent b)) /\
      nthN (s_nodes st') (b_parent b + 2) = Some (mk (Output ts) (b_parent b)).

  Definition FS2 (s : stmt2) : Prop := forall strict b st e st' e',
    exec_stmt2 tys s b st e = Ok (st', e') -> croot_stmt strict s = true ->
    Fbase2 st -> OpenB2 (s_nodes st) b -> EnvPos e ->
    Fbase2 st' /\ Keep st st' /\ s_len st <= s_len st' /\ EnvPos e' /\ ClosedFrom (s_len st) (s_nodes st').
  Definition FR2 (r : region2) : Prop := forall strict b st e st' e',
    exec_region2 tys r b st e = Ok (st', e') -> croot_region strict r = true ->
    Fbase2 st -> OpenB2 (s_nodes st) b -> EnvPos e ->
    Fbase2 st' /\ KeepX (b_parent b) (b_out b) st st' /\ s_len st <= s_len st' /\ EnvPos e' /\
    ClosedFrom (s_len st) (s_nodes st') /\ ClosedB st st' b.
  Definition FL2 (l : stmts2) : Prop := forall strict b st e st' e',
    exec_stmts2 tys l b st e = Ok (st', e') -> croot_stmts strict l = true ->
    Fbase2 st -> OpenB2 (s_nodes st) b -> EnvPos e ->
    Fbase2 st' /\ Keep st st' /\ s_len st <= s_len st' /\ EnvPos e' /\ ClosedFrom (s_len st) (s_nodes st').
  Definition FC2 (cs : cases2) : Prop := forall strict c rows others s pp bs cur st e st' e' bs' cur',
    exec_cases2 tys cs c bs cur st e = Ok (st', e', bs', cur') -> croot_cases strict cs = true ->
    Fbase2 st -> EnvPos e -> CasesInv (s_nodes st) c rows others s pp cur bs -> c + 1 + 3 * lenN rows <= s_len st ->
    Fbase2 st' /\ s_len st <= s_len st' /\ EnvPos e' /\ CasesInv (s_nodes st') c rows others s pp cur' bs' /\
    (forall n, n < s_len st -> n < c \/ c + 1 + 3 * lenN rows <= n -> nthN (s_nodes st') n = nthN (s_nodes st) n) /\
    ClosedFrom (s_len st) (s_nodes st').
  Definition FP2 (p : prog2) : Prop := forall e st' e',
    exec_prog2 tys p e = Ok (st', e') -> croot_ok p = true -> EnvPos e ->
    Fbase2 st' /\ EnvPos e' /\ ClosedFrom 0 (s_nodes st').

  Lemma initial_leafk o : leafk (initial_op o) = true. Proof. now destruct o. Qed.


  Lemma Fbase2_leaf st st' ws ts new st1 x :
    Fbase2 st -> 0 < s_len st -> (forall w, In w ws -> 0 < fst w) ->
    model_op2 (n_op x) = true -> leafk (n_op x) = true ->
    WNew st1 (s_len st) 0 ws ts new -> s_nodes st' = s_nodes st ++ [x] -> s_links st' = s_links st ++ new ->
    Fbase2 st' /\ Keep st st' /\ s_len st' = s_len st + 1 /\ ClosedFrom (s_len st) (s_nodes st').
  Proof.
    intros (M & CP & LP) P Hw Hm Hl HW En El. split; [split; [|split]|split; [|split]].
    - rewrite En. apply ModelOps2_app; [exact M|]. unfold ModelOps2. cbn. now rewrite Hm.
    - rewrite En. apply CasePos_app; [exact CP|]. cbn. now rewrite (leafk_not_case _ Hl).
    - eapply LinksPos_app; [exact El|exact LP|]. eapply WNew_pos; eauto.
    - eapply Keep_app; eauto.
    - rewrite (s_len_app2 _ _ _ En). reflexivity.
    - rewrite En. apply ClosedFrom_app_leaves; [apply ClosedFrom_nil|]. cbn. now rewrite Hl.
  Qed.

  (* a container with its Input / Output nodes appended and wired: the state at the entry of its region *)
  Lemma container_entry st p co ti ws ts4 new st3 st4 :
    Fbase2 st -> 0 < s_len st -> (forall w, In w ws -> 0 < fst w) ->
    open_op co ti -> is_case co = false ->
    s_nodes st3 = s_nodes st ++ [mk co p; mk (Input ti) (s_len st); mk (Output []) (s_len st)] ->
    WNew st3 (s_len st) 0 ws ts4 new -> s_nodes st4 = s_nodes st3 -> s_links st4 = s_links st ++ new ->
    Fbase2 st4 /\ OpenB2 (s_nodes st4) (mkb (s_len st) (s_len st + 1) (s_len st + 2)) /\ Keep st st4 /\
    s_len st4 = s_len st + 3.
  Proof.
    intros (M & CP & LP) P Hw Hop Hc En3 HW En4 El4.
    assert (Hm : model_op2 co = true) by (destruct Hop as [->|[->|(n & ->)]]; reflexivity).
    split; [split; [|split]|split; [|split]].
    - rewrite En4, En3. apply ModelOps2_app; [exact M|]. unfold ModelOps2. cbn. now rewrite Hm.
    - rewrite En4, En3. apply CasePos_app; [exact CP|]. cbn. now rewrite Hc.
    - eapply LinksPos_app; [exact El4|exact LP|]. eapply WNew_pos; eauto.
    - split; [reflexivity|]. split; [reflexivity|]. exists co, ti, p. cbn [b_parent mkb]. rewrite En4, En3. unfold s_len.
      split; [apply nthN_len|]. split; [exact Hop|]. split.
      + rewrite nthN_app_ge by lia. replace (lenN (s_nodes st) + 1 - lenN (s_nodes st)) with 1 by lia. reflexivity.
      + rewrite nthN_app_ge by lia. replace (lenN (s_nodes st) + 2 - lenN (s_nodes st)) with 2 by lia. reflexivity.
    - intros n Hn. rewrite En4, En3. now apply nthN_app_lt.
    - rewrite (s_len_nodes _ _ En4), (s_len_app2 _ _ _ En3). reflexivity.
  Qed.

  (* from the region's postcondition to the statement's *)
  Lemma container_exit st st4 st' d :
    d = s_len st -> Keep st st4 -> s_len st4 = s_len st + 3 ->
    KeepX d (d + 2) st4 st' -> s_len st4 <= s_len st' -> ClosedFrom (s_len st4) (s_nodes st') ->
    ClosedB st4 st' (mkb d (d + 1) (d + 2)) ->
    Keep st st' /\ s_len st <= s_len st' /\ ClosedFrom (s_len st) (s_nodes st').
  Proof.
    intros -> K4 L4 KX L' CF (o & ins & pp & ts & o' & _ & Hop & Hs & E0 & E1 & E2). cbn [b_parent mkb] in *.
    split; [|split; [lia|]].
    - intros n Hn. rewrite KX by lia. now apply K4.
    - intros p nd Hp E. destruct (N.lt_ge_cases p (s_len st4)) as [Lt|Ge]; [|exact (CF _ _ Ge E)].
      assert (Hc : p = s_len st \/ p = s_len st + 1 \/ p = s_len st + 2) by lia.
      destruct Hc as [->|[->| ->]].
      + rewrite E0 in E. inversion E; subst nd. cbn [mk n_op].
        exact (proj1 (closed_io_strict tys _ _ _ _ _ _ _ Hop Hs E0 E1 E2)).
      + rewrite E1 in E. inversion E; subst nd. exact I.
      + rewrite E2 in E. inversion E; subst nd. exact I.
  Qed.


  (* the builder of a case that has not been built yet *)
  Lemma case_open l c rows others s pp cur bs i cb :
    CasesInv l c rows others s pp cur bs -> nthN bs i = Some (cb, false) ->
    exists row, nthN rows i = Some row /\ cb = mkb (c + 1 + 3 * i) (c + 1 + 3 * i + 1) (c + 1 + 3 * i + 2) /\ OpenB2 l cb /\
      nthN l (c + 1 + 3 * i) = Some (mk (Case (row ++ others) []) c) /\ c < lenN l /\ c + 1 + 3 * i + 2 < lenN l.
  Proof.
    intros (Hcn & Hlen & CIk) Hn.
    assert (Li : i < lenN rows) by (rewrite <- Hlen; eapply nthN_lt; eauto).
    destruct (nthN_some_lt rows i Li) as [row Hrow]. exists row.
    destruct (CIk i row Hrow) as (f & Hb & Hin & Hf). cbv zeta in Hb, Hin, Hf.
    remember (c + 1 + 3 * i) as p eqn:Hp. rewrite Hn in Hb. inversion Hb; subst cb f; clear Hb.
    destruct Hf as [Hcase Hout]. split; [exact Hrow|]. split; [reflexivity|]. split; [|split; [exact Hcase|split]].
    - split; [reflexivity|]. split; [reflexivity|]. exists (Case (row ++ others) []), (row ++ others), c. cbn [b_parent mkb].
      split; [exact Hcase|]. split; [right; left; reflexivity|]. split; [exact Hin|exact Hout].
    - eapply nthN_lt; eauto.
    - eapply nthN_lt; eauto.
  Qed.

  (* a case has been built (its region closed) and Conditional._update_outputs has run *)
  Lemma cases_step st st1 st2 c rows others s pp cur bs i cb row ts cur2 :
    CasesInv (s_nodes st) c rows others s pp cur bs -> nthN bs i = Some (cb, false) -> nthN rows i = Some row ->
    cb = mkb (c + 1 + 3 * i) (c + 1 + 3 * i + 1) (c + 1 + 3 * i + 2) ->
    Fbase2 st1 -> KeepX (b_parent cb) (b_out cb) st st1 -> ClosedB st st1 cb ->
    out_types st1 cb = Ok ts -> update_outputs st1 c cur ts = Ok (st2, cur2) ->
    Fbase2 st2 /\ s_len st2 = s_len st1 /\ cur2 = Some ts /\
    CasesInv (s_nodes st2) c rows others s pp (Some ts) (set_nth bs (N.to_nat i) (cb, true)) /\
    (forall n, n <> c -> nthN (s_nodes st2) n = nthN (s_nodes st1) n) /\
    nthN (s_nodes st1) (b_parent cb) = Some (mk (Case (row ++ others) ts) c) /\
    nthN (s_nodes st1) (b_parent cb + 2) = Some (mk (Output ts) (b_parent cb)) /\
    ((cur = Some ts /\ st2 = st1) \/
     (cur = None /\ nthN (s_nodes st1) c = Some (mk (Conditional rows others [] s) pp) /\
      s_nodes st2 = set_nth (s_nodes st1) (N.to_nat c) (mk (Conditional rows others ts s) pp) /\ s_links st2 = s_links st1)).
  Proof.
    intros CI Hn Hrow Hcb F1 KX (o & ins0 & pp0 & ts0 & o' & Ha & Hop & Hs & Eb0 & Eb1 & Eb2) Xo X2.
    pose proof CI as (Hcn & Hlen & CIk).
    assert (Li : i < lenN bs) by (eapply nthN_lt; eauto).
    destruct (CIk i row Hrow) as (f & Hb & Hin & Hf). cbv zeta in Hb, Hin, Hf.
    remember (c + 1 + 3 * i) as p eqn:Hp. subst cb. rewrite Hn in Hb. inversion Hb; subst f; clear Hb.
    destruct Hf as [Hcase Hout].
    cbn [b_parent b_out mkb] in *. rewrite Hcase in Ha. inversion Ha; subst o pp0; clear Ha.
    cbn in Hs. inversion Hs; subst o'; clear Hs.
    assert (ins0 = row ++ others) by (destruct Hop as [Q|[Q|(n0 & Q)]]; inversion Q; reflexivity). subst ins0.
    assert (ts = ts0).
    { unfold out_types, s_op in Xo. cbn [b_out mkb] in Xo. rewrite Eb2 in Xo. cbn in Xo. now inversion Xo. }
    subst ts0.
    assert (Lc : c < s_len st) by (eapply nthN_lt; eauto).
    assert (Lp : p + 2 < s_len st) by (eapply nthN_lt; eauto).
    assert (Hcn1 : nthN (s_nodes st1) c = nthN (s_nodes st) c) by (apply KX; lia).
    assert (U : Fbase2 st2 /\ s_len st2 = s_len st1 /\ cur2 = Some ts /\
                nthN (s_nodes st2) c = Some (mk (Conditional rows others ts s) pp) /\
                (forall n, n <> c -> nthN (s_nodes st2) n = nthN (s_nodes st1) n) /\
                (forall outs, cur = Some outs -> outs = ts) /\
                ((cur = Some ts /\ st2 = st1) \/
                 (cur = None /\ nthN (s_nodes st1) c = Some (mk (Conditional rows others [] s) pp) /\
                  s_nodes st2 = set_nth (s_nodes st1) (N.to_nat c) (mk (Conditional rows others ts s) pp) /\ s_links st2 = s_links st1))).
    { destruct (update_outputs_inv _ _ _ _ _ _ X2) as [(-> & -> & rows' & others' & o0 & s' & Eop & Eset)|(-> & -> & ->)].
      - unfold s_op in Eop. rewrite Hcn1, Hcn in Eop. cbn in Eop. inversion Eop; subst rows' others' o0 s'; clear Eop.
        destruct (set_op_ok _ _ _ _ Eset) as (nd & Hnd & En2 & El2). rewrite Hcn1, Hcn in Hnd. inversion Hnd; subst nd.
        cbn [mk n_parent] in En2. destruct F1 as (M1 & CP1 & LP1).
        split; [split; [|split]|split; [|split; [|split; [|split; [|split]]]]].
        + rewrite En2. apply ModelOps2_set; [exact M1|reflexivity].
        + rewrite En2. eapply CasePos_set; [exact CP1|rewrite Hcn1; exact Hcn| | |]; reflexivity.
        + unfold LinksPos. now rewrite El2.
        + unfold s_len. now rewrite En2, lenN_set_nth.
        + reflexivity.
        + rewrite En2. apply nthN_set_nth_eq. rewrite <- Hcn1 in Hcn. eapply nthN_lt; eauto.
        + intros n Hne. rewrite En2. now apply nthN_set_nth_neq.
        + intros outs Q. discriminate Q.
        + right. rewrite Hcn1. auto.
      - split; [exact F1|]. split; [reflexivity|]. split; [reflexivity|]. split; [now rewrite Hcn1|].
        split; [auto|]. split; [intros outs Q; now inversion Q|]. left. auto. }
    destruct U as (F2 & L2 & -> & Hcn2 & K2 & Hcur & Hst).
    split; [exact F2|]. split; [exact L2|]. split; [reflexivity|]. split; [|split; [exact K2|split; [exact Eb0|split; [exact Eb2|exact Hst]]]].
    split; [exact Hcn2|]. split; [now rewrite lenN_set_nth|].
    intros k rowk Hrk. cbv zeta. destruct (N.eq_dec k i) as [->|Hki].
    - rewrite Hrow in Hrk. inversion Hrk; subst rowk. exists true. rewrite <- Hp.
      split; [apply nthN_set_nth_eq; lia|]. split; [rewrite K2 by lia; exact Eb1|].
      exists ts. split; [reflexivity|]. split; [rewrite K2 by lia; exact Eb0|rewrite K2 by lia; exact Eb2].
    - destruct (CIk k rowk Hrk) as (fk & Hbk & Hik & Hfk). cbv zeta in Hbk, Hik, Hfk. exists fk.
      remember (c + 1 + 3 * k) as pk eqn:Hpk.
      assert (Lk : k < lenN rows) by (eapply nthN_lt; eauto).
      assert (Lpk : pk + 2 < s_len st).
      { destruct fk; [destruct Hfk as (? & ? & ? & B)|destruct Hfk as [? B]]; eapply nthN_lt; eauto. }
      assert (T : forall q, pk <= q -> q <= pk + 2 -> nthN (s_nodes st2) q = nthN (s_nodes st) q).
      { intros q Q1 Q2. rewrite K2 by lia. apply KX; lia. }
      split; [rewrite nthN_set_nth_neq by exact Hki; exact Hbk|]. split; [rewrite T by lia; exact Hik|].
      destruct fk.
      + destruct Hfk as (outs & Ec & A & B). exists outs. rewrite (Hcur _ Ec) in *.
        split; [reflexivity|]. split; [rewrite T by lia; exact A|rewrite T by lia; exact B].
      + destruct Hfk as [A B]. split; [rewrite T by lia; exact A|rewrite T by lia; exact B].
  Qed.

  Lemma OpenB2_pos l b : OpenB2 l b -> 0 < lenN l /\ 0 < b_in b /\ 0 < b_out b.
  Proof. intros O. pose proof (OpenB2_lt _ _ O). destruct O as (Ei & Eo & _). lia. Qed.

  Lemma exec2_frame : (forall s, FS2 s) /\ (forall r, FR2 r) /\ (forall l, FL2 l) /\ (forall cs, FC2 cs) /\ (forall p, FP2 p).
  Proof.
    apply prog2_mutind; unfold FS2, FR2, FL2, FC2, FP2.
    - (* TOp *)
      intros id o args rs strict b st e st' e' H _ F OB EP.
      rewrite exec_TOp_SOp in H. apply SOp_spec in H.
      destruct H as (ws & ts & op' & new & st1 & G & Lp & En1 & El1 & HW & C & En' & El' & ->).
      pose proof (completed_canon tys _ _ _ C) as Hc. destruct (canon_eq_facts _ _ Hc) as (Hm & Hl & _).
      rewrite initial_model2 in Hm. rewrite initial_leafk in Hl.
      destruct (OpenB2_pos _ _ OB) as (P & _). fold (s_len st) in P.
      destruct (Fbase2_leaf st st' ws ts new st1 (mk op' (b_parent b)) F P (get_wires_pos2 _ _ _ EP G) Hm Hl HW En' El')
        as (F' & K & L & CF).
      split; [exact F'|]. split; [exact K|]. split; [lia|]. split; [apply EnvPos_bind; auto|exact CF].
    - (* TLoad *)
      intros id v cp r strict b st e st' e' H _ (M & CP & LP) OB EP.
      rewrite exec_TLoad_SLoad in H. apply SLoad_spec in H. destruct H as (En' & El' & ->).
      destruct (OpenB2_pos _ _ OB) as (P & _). fold (s_len st) in P.
      assert (Hl : s_len st' = s_len st + 2) by (rewrite (s_len_app2 _ _ _ En'); reflexivity).
      split; [split; [|split]|split; [|split; [|split]]].
      + rewrite En'. apply ModelOps2_app; [exact M|reflexivity].
      + rewrite En'. apply CasePos_app; [exact CP|reflexivity].
      + eapply LinksPos_app; [exact El'|exact LP|]. cbn. rewrite andb_true_r.
        apply andb_true_iff. split; apply negb_true_iff, N.eqb_neq; lia.
      + eapply Keep_app; eauto.
      + lia.
      + apply EnvPos_bind; [exact EP|lia].
      + rewrite En'. apply ClosedFrom_app_leaves; [apply ClosedFrom_nil|reflexivity].
    - (* TNested *)
      intros id args body IH rs strict b st e st' e' H Hc F OB EP.
      destruct (exec_TNested_inv _ _ _ _ _ _ _ _ _ _ H)
        as (ws & ts & st1 & d & st2 & i & st3 & o & st4 & ts4 & e5 & G & _ & E1 & E2 & E3 & E4 & E5 & ->).
      destruct (container_spec _ _ _ _ _ _ _ _ _ _ _ _ _ E1 E2 E3 E4) as (new & Lp & -> & -> & -> & En3 & El3 & HW & En4 & El4 & L4).
      destruct (OpenB2_pos _ _ OB) as (P & _). fold (s_len st) in P.
      destruct (container_entry st _ (DFG ts []) ts ws ts4 new st3 st4 F P (get_wires_pos2 _ _ _ EP G)
                  (or_introl eq_refl) eq_refl En3 HW En4 El4) as (F4 & O4 & K4 & _).
      destruct (IH strict _ _ _ _ _ E5 Hc F4 O4 EP) as (F' & KX & L' & EP' & CF & CB).
      destruct (container_exit st st4 st' (s_len st) eq_refl K4 L4 KX L' CF CB) as (K & L & CF').
      split; [exact F'|]. split; [exact K|]. split; [exact L|]. split; [apply EnvPos_bind; auto|exact CF'].
    - (* TOrder *)
      intros src dst strict b st e st' e' H _ (M & CP & LP) OB EP.
      rewrite exec_TOrder_SOrder in H. apply SOrder_spec in H. destruct H as (a & c & Na & Nc & En' & El' & ->).
      destruct (OpenB2_pos _ _ OB) as (P & Pi & Po).
      pose proof (node_of_pos _ _ _ _ Na EP Pi Po) as Ha. pose proof (node_of_pos _ _ _ _ Nc EP Pi Po) as Hc'.
      split; [split; [|split]|split; [|split; [|split]]].
      + now rewrite En'.
      + now rewrite En'.
      + destruct El' as [El'|El']; [unfold LinksPos; now rewrite El'|].
        eapply LinksPos_app; [exact El'|exact LP|]. cbn. rewrite andb_true_r.
        apply andb_true_iff. split; apply negb_true_iff, N.eqb_neq; lia.
      + now apply Keep_nodes.
      + rewrite (s_len_nodes _ _ En'). lia.
      + exact EP.
      + rewrite En'. apply ClosedFrom_nil.
    - (* TLoop *)
      intros id just rest body IH rs strict b st e st' e' H Hc F OB EP.
      destruct (exec_TLoop_inv _ _ _ _ _ _ _ _ _ _ _ H)
        as (jw & rw & jt & rt & st1 & d & st2 & i & st3 & o & st4 & ts4 & e5 & G1 & G2 & _ & _ & E1 & E2 & E3 & E4 & E5 & ->).
      destruct (container_spec _ _ _ _ _ _ _ _ _ _ _ _ _ E1 E2 E3 E4) as (new & Lp & -> & -> & -> & En3 & El3 & HW & En4 & El4 & L4).
      destruct (OpenB2_pos _ _ OB) as (P & _). fold (s_len st) in P.
      assert (Hws : forall w, In w (jw ++ rw) -> 0 < fst w).
      { intros w Hin. apply in_app_or in Hin. destruct Hin; [eapply get_wires_pos2; [exact EP|exact G1|]|eapply get_wires_pos2; [exact EP|exact G2|]]; assumption. }
      destruct (container_entry st _ (TailLoop (jt ++ rt) [] [] (lenN jt)) (jt ++ rt) (jw ++ rw) ts4 new st3 st4 F P Hws
                  (or_intror (or_intror (ex_intro _ (lenN jt) eq_refl))) eq_refl En3 HW En4 El4)
        as (F4 & O4 & K4 & _).
      destruct (IH strict _ _ _ _ _ E5 Hc F4 O4 EP) as (F' & KX & L' & EP' & CF & CB).
      destruct (container_exit st st4 st' (s_len st) eq_refl K4 L4 KX L' CF CB) as (K & L & CF').
      split; [exact F'|]. split; [exact K|]. split; [exact L|]. split; [apply EnvPos_bind; auto|exact CF'].
    - (* TCond *)
      intros id cond args cs IH rs strict b st e st' e' H Hc (M & CP & LP) OB EP.
      destruct (exec_TCond_inv _ _ _ _ _ _ _ _ _ _ _ H)
        as (cw & ws & t & others & cp & rows & st1 & c & st2 & bs & st3 & ts3 & e4 & bs' & cur' &
            G1 & G2 & _ & _ & E1 & E2 & E3 & E4 & Hd & ->).
      destruct (OpenB2_pos _ _ OB) as (P & _). fold (s_len st) in P.
      apply add_node_ok in E1. destruct E1 as (Lp & -> & En1 & El1).
      destruct (make_cases_spec _ _ _ _ _ _ E2) as (En2 & El2 & ->).
      apply wire_up_spec in E3. destruct E3 as (En3 & new & El3 & HW).
      assert (H1 : s_len st1 = s_len st + 1) by (rewrite (s_len_app2 _ _ _ En1); reflexivity).
      assert (EQ : s_nodes st3 = s_nodes st ++ mk (Conditional rows others [] t) (b_parent b) ::
                                 case_blocks (s_len st) others rows (s_len st + 1)).
      { rewrite En3, En2, En1, H1, <- app_assoc. reflexivity. }
      assert (L3 : s_len st3 = s_len st + 1 + 3 * lenN rows).
      { unfold s_len at 1. rewrite EQ, lenN_app, lenN_cons, case_blocks_len. unfold s_len. lia. }
      assert (F3 : Fbase2 st3).
      { split; [|split].
        - rewrite EQ. apply ModelOps2_app; [exact M|]. unfold ModelOps2. cbn [forallb mk n_op model_op2 andb]. apply case_blocks_model.
        - rewrite EQ. now apply CasePos_cond_block.
        - eapply LinksPos_app; [rewrite El3, El2, El1; reflexivity|exact LP|]. eapply WNew_pos; [exact HW| |exact P].
          intros w [<-|Hin]; [eapply get_wire_pos2; eauto|eapply get_wires_pos2; eauto]. }
      assert (CI3 : CasesInv (s_nodes st3) (s_len st) rows others t (b_parent b) None (case_builders rows (s_len st1))).
      { rewrite EQ, H1. apply CasesInv_init. }
      destruct (IH strict _ _ _ _ _ _ _ _ _ _ _ _ _ E4 Hc F3 EP CI3 ltac:(lia)) as (F' & L' & EP' & CI' & K' & CF').
      unfold cases_done in Hd. apply andb_true_iff in Hd. destruct Hd as [Hall Hsome].
      destruct cur' as [outs|]; [|discriminate].
      split; [exact F'|]. split; [|split; [lia|split; [apply EnvPos_bind; auto|]]].
      + intros n Hn. rewrite K' by lia. rewrite EQ. now apply nthN_app_lt.
      + intros p nd Hp E. destruct (N.lt_ge_cases p (s_len st3)) as [Lt|Ge]; [|exact (CF' _ _ Ge E)].
        eapply (cond_block_closed _ _ _ _ _ _ _ _ CI' Hall); eauto. lia.
    - (* TInsert *)
      intros id sub IH args rs strict b st e st' e' H Hc (M & CP & LP) OB EP.
      destruct (exec_TInsert_inv _ _ _ _ _ _ _ _ _ _ H) as (sti & e1 & ws & st1 & m & r & ts & E0 & G & E2 & Er & E4 & ->).
      destruct (IH _ _ _ E0 Hc EP) as ((Mi & CPi & LPi) & EP1 & CFi).
      destruct (exec2_keeps_invariants tys) as (_ & _ & _ & _ & HP). destruct (HP sub _ _ _ E0 Hc) as [[Gi Li] _].
      pose proof (proj1 (proj2 (proj2 Gi))) as Bi.
      destruct (insert_hugr_spec _ _ _ _ _ E2 Bi Li) as (A & B & MO & Lm).
      destruct (OpenB2_pos _ _ OB) as (P & _). fold (s_len st) in P.
      assert (Pi : 0 < s_len sti) by (destruct Gi as (_ & _ & _ & (r0 & rest0 & Er0 & _)); unfold s_len; rewrite Er0, lenN_cons; lia).
      assert (Hr : r = s_len st) by (rewrite (MO 0) in Er by lia; inversion Er; lia).
      apply wire_up_spec in E4. destruct E4 as (En4 & new & El4 & HW).
      split; [split; [|split]|split; [|split; [|split]]].
      + rewrite En4, A. apply ModelOps2_app; [exact M|now apply ModelOps2_shift].
      + rewrite En4, A. unfold s_len. now apply CasePos_insert.
      + eapply LinksPos_app; [exact El4|exact (LinksPos_shift st st1 sti LP P B)|]. eapply WNew_pos; [exact HW| |lia].
        eapply get_wires_pos2; eauto.
      + intros n Hn. rewrite En4, A. now apply nthN_app_lt.
      + rewrite (s_len_nodes _ _ En4), (s_len_app2 _ _ _ A). lia.
      + apply EnvPos_bind; [exact EP1|lia].
      + rewrite En4, A. unfold s_len. now apply ClosedFrom_insert.
    - (* TCallInd *)
      intros id args rs strict b st e st' e' H _ F OB EP.
      apply TCallInd_spec in H. destruct H as (ws & ts & op' & new & st1 & G & Lp & En1 & El1 & HW & C & En' & El' & ->).
      pose proof (completed_callind_canon tys _ _ C) as Hc.
      assert (Hm : model_op2 op' = true /\ leafk op' = true) by (rewrite <- model_op2_canon, <- leafk_canon, Hc; auto).
      destruct (OpenB2_pos _ _ OB) as (P & _). fold (s_len st) in P.
      destruct (Fbase2_leaf st st' ws ts new st1 (mk op' (b_parent b)) F P (get_wires_pos2 _ _ _ EP G) (proj1 Hm) (proj2 Hm) HW En' El')
        as (F' & K & L & CF).
      split; [exact F'|]. split; [exact K|]. split; [lia|]. split; [apply EnvPos_bind; auto|exact CF].
    - (* Reg *)
      intros ins body IH outs strict b st e st' e' H Hc F OB EP.
      destruct (exec_Reg_inv _ _ _ _ _ _ _ _ _ H) as (st1 & ws & X & G & SO).
      destruct (OpenB2_pos _ _ OB) as (P & Pi & Po).
      destruct (IH strict _ _ _ _ _ X Hc F OB (EnvPos_bind_in _ _ _ EP Pi)) as ((M1 & CP1 & LP1) & K1 & L1 & EP1 & CF1).
      pose proof (OpenB2_keep _ _ _ K1 OB) as OB1. pose proof (OpenB2_lt _ _ OB) as Lb. fold (s_len st) in Lb.
      destruct (set_outputs2_spec _ _ _ _ _ SO OB1) as (ts & new & o & ins0 & pp & o' & HW & El' & Hp1 & Hop & Hs & En').
      pose proof OB1 as (Ei & Eo & o1 & ins1 & pp1 & Hp1' & Hop1 & Hi1 & Ho1).
      rewrite Hp1 in Hp1'. inversion Hp1'; subst o1 pp1; clear Hp1'.
      assert (ins1 = ins0).
      { destruct Hop as [->|[->|(n & ->)]]; destruct Hop1 as [Q|[Q|(n' & Q)]]; inversion Q; reflexivity. }
      subst ins1.
      assert (Lp1 : b_parent b + 2 < lenN (s_nodes st1)) by (eapply nthN_lt; eauto).
      assert (E0 : nthN (s_nodes st') (b_parent b) = Some (mk o' pp)).
      { rewrite En'. apply nthN_set_nth_eq. rewrite lenN_set_nth. lia. }
      assert (E1 : nthN (s_nodes st') (b_parent b + 1) = Some (mk (Input ins0) (b_parent b))).
      { rewrite En', !nthN_set_nth_neq by lia. exact Hi1. }
      assert (E2 : nthN (s_nodes st') (b_parent b + 2) = Some (mk (Output ts) (b_parent b))).
      { rewrite En', nthN_set_nth_neq by lia. now apply nthN_set_nth_eq. }
      destruct (closed_io_strict tys _ _ _ _ _ _ _ Hop Hs E0 E1 E2) as (_ & Hm' & Hc' & Hr').
      assert (Hl : s_len st' = s_len st1) by (unfold s_len; now rewrite En', !lenN_set_nth).
      split; [split; [|split]|split; [|split; [|split; [|split]]]].
      + rewrite En'. apply ModelOps2_set; [apply ModelOps2_set; [exact M1|reflexivity]|exact Hm'].
      + rewrite En'. eapply CasePos_set; [eapply CasePos_set; [exact CP1|exact Ho1|reflexivity|reflexivity|reflexivity]| | | |].
        * rewrite nthN_set_nth_neq by lia. exact Hp1.
        * reflexivity.
        * exact Hc'.
        * exact Hr'.
      + eapply LinksPos_app; [exact El'|exact LP1|]. eapply WNew_pos; [exact HW| |lia]. eapply get_wires_pos2; eauto.
      + intros n Hn N1 N2. rewrite Eo in N2. rewrite En', !nthN_set_nth_neq by assumption. now apply K1.
      + lia.
      + exact EP1.
      + rewrite En'. apply ClosedFrom_set; [apply ClosedFrom_set; [exact CF1|lia]|lia].
      + exists o, ins0, pp, ts, o'. rewrite <- (K1 (b_parent b)) by lia. auto 7.
    - (* TNil *)
      intros strict b st e st' e' H _ F OB EP. apply exec_TNil_inv in H. destruct H as [-> ->].
      split; [exact F|]. split; [apply Keep_refl|]. split; [lia|]. split; [exact EP|apply ClosedFrom_nil].
    - (* TCons *)
      intros s IHs r IHr strict b st e st' e' H Hc F OB EP.
      destruct (exec_TCons_inv _ _ _ _ _ _ _ _ H) as (st1 & e1 & X1 & X2).
      cbn [croot_stmts] in Hc. apply andb_true_iff in Hc. destruct Hc as [Hc1 Hc2].
      destruct (IHs strict _ _ _ _ _ X1 Hc1 F OB EP) as (F1 & K1 & L1 & EP1 & CF1).
      destruct (IHr strict _ _ _ _ _ X2 Hc2 F1 (OpenB2_keep _ _ _ K1 OB) EP1) as (F2 & K2 & L2 & EP2 & CF2).
      split; [exact F2|]. split; [eapply Keep_trans; eauto|]. split; [lia|]. split; [exact EP2|].
      eapply ClosedFrom_keep; [exact CF1|exact L2| |exact CF2]. intros n _ Hn. now apply K2.
    - (* CNil *)
      intros strict c rows others s pp bs cur st e st' e' bs' cur' H _ F EP CI _. apply exec_CNil_inv in H. inversion H; subst.
      split; [exact F|]. split; [lia|]. split; [exact EP|]. split; [exact CI|]. split; [auto|apply ClosedFrom_nil].
    - (* CCons *)
      intros i r IHr rest IHrest strict c rows others s pp bs cur st e st' e' bs' cur' H Hc F EP CI Lblk.
      destruct (exec_CCons_inv _ _ _ _ _ _ _ _ _ _ H) as (cb & st1 & e1 & ts & st2 & cur2 & Hn & X0 & Xo & X2 & X3).
      cbn [croot_cases] in Hc. apply andb_true_iff in Hc. destruct Hc as [Hc1 Hc2].
      destruct (case_open _ _ _ _ _ _ _ _ _ _ CI Hn) as (row & Hrow & Hcb & OBc & Hcase & Lc & Lp).
      destruct (IHr strict _ _ _ _ _ X0 Hc1 F OBc EP) as (F1 & KX & L1 & EP1 & CF1 & CB).
      destruct (cases_step _ _ _ _ _ _ _ _ _ _ _ _ _ _ _ CI Hn Hrow Hcb F1 KX CB Xo X2) as (F2 & L2 & -> & CI2 & K2 & _ & _ & _).
      subst cb. cbn [b_parent b_out mkb] in KX. fold (s_len st) in Lc, Lp.
      assert (Li : i < lenN rows) by (eapply nthN_lt; eauto).
      destruct (IHrest strict _ _ _ _ _ _ _ _ _ _ _ _ _ X3 Hc2 F2 EP1 CI2 ltac:(lia)) as (F' & L' & EP' & CI' & K' & CF').
      split; [exact F'|]. split; [lia|]. split; [exact EP'|]. split; [exact CI'|]. split.
      + intros n Hn' Hout'. rewrite K' by lia. rewrite K2 by lia. apply KX; lia.
      + eapply ClosedFrom_keep; [| | |exact CF'].
        * intros q nd Hq E. rewrite K2 in E by lia. eapply io_strict_keep; [exact (CF1 _ _ Hq E)|].
          intros n Hn' _. apply K2. lia.
        * exact L'.
        * intros n Hn1 Hn2. fold (s_len st2) in Hn2. apply K'; [lia|right; lia].
    - (* QDfg *)
      intros ins body IH e st' e' H Hc EP. apply exec_QDfg_inv in H. cbn [croot_ok] in Hc.
      match type of H with exec_region2 _ _ ?b ?st _ = _ => assert (I0 : Fbase2 st /\ OpenB2 (s_nodes st) b) end.
      { split; [split; [reflexivity|split; [|reflexivity]]|].
        - apply (CasePos_app [] _); [intros j nd E; unfold nthN in E; destruct (N.to_nat j); discriminate|reflexivity].
        - split; [reflexivity|]. split; [reflexivity|]. exists (DFG ins []), ins, 0. cbn [b_parent mkb s_nodes].
          split; [reflexivity|]. split; [left; reflexivity|]. split; reflexivity. }
      destruct I0 as (F0 & O0).
      destruct (IH false _ _ _ _ _ H Hc F0 O0 EP) as (F' & KX & L' & EP' & CF & CB).
      split; [exact F'|]. split; [exact EP'|].
      match type of H with exec_region2 _ _ _ ?st _ = _ => set (st0 := st) in * end.
      assert (K0 : Keep {| s_nodes := []; s_links := [] |} st0) by (intros n Hn; cbn in Hn; lia).
      destruct (container_exit {| s_nodes := []; s_links := [] |} st0 st' 0 eq_refl K0 eq_refl KX L' CF CB) as (_ & _ & CF0).
      exact CF0.
    - (* QLoop *)
      intros just rest body IH e st' e' H Hc EP. apply exec_QLoop_inv in H. cbn [croot_ok] in Hc.
      match type of H with exec_region2 _ _ ?b ?st _ = _ => assert (I0 : Fbase2 st /\ OpenB2 (s_nodes st) b) end.
      { split; [split; [reflexivity|split; [|reflexivity]]|].
        - apply (CasePos_app [] _); [intros j nd E; unfold nthN in E; destruct (N.to_nat j); discriminate|reflexivity].
        - split; [reflexivity|]. split; [reflexivity|]. exists (TailLoop (just ++ rest) [] [] (lenN just)), (just ++ rest), 0. cbn [b_parent mkb s_nodes].
          split; [reflexivity|]. split; [right; right; eauto|]. split; reflexivity. }
      destruct I0 as (F0 & O0).
      destruct (IH false _ _ _ _ _ H Hc F0 O0 EP) as (F' & KX & L' & EP' & CF & CB).
      split; [exact F'|]. split; [exact EP'|].
      match type of H with exec_region2 _ _ _ ?st _ = _ => set (st0 := st) in * end.
      assert (K0 : Keep {| s_nodes := []; s_links := [] |} st0) by (intros n Hn; cbn in Hn; lia).
      destruct (container_exit {| s_nodes := []; s_links := [] |} st0 st' 0 eq_refl K0 eq_refl KX L' CF CB) as (_ & _ & CF0).
      exact CF0.
    - (* QCond *)
      intros rows others sumty cs IH e st' e' H Hc EP. cbn [croot_ok] in Hc.
      destruct (exec_QCond_inv _ _ _ _ _ _ _ _ H) as (st1 & bs & bs' & cur' & E0 & E1 & Hd).
      destruct (make_cases_spec _ _ _ _ _ _ E0) as (En1 & El1 & ->).
      cbn [new_store s_nodes s_links s_len lenN length N.of_nat app] in En1, El1, E1.
      assert (F1 : Fbase2 st1).
      { split; [|split].
        - rewrite En1. unfold ModelOps2. cbn [forallb mk n_op model_op2 andb]. apply case_blocks_model.
        - rewrite En1. apply (CasePos_cond_block [] rows others sumty 0). intros j nd E. unfold nthN in E. destruct (N.to_nat j); discriminate.
        - unfold LinksPos. now rewrite El1. }
      assert (CI1 : CasesInv (s_nodes st1) 0 rows others sumty 0 None (case_builders rows 1)).
      { rewrite En1. apply (CasesInv_init [] rows others sumty 0). }
      assert (L1 : s_len st1 = 1 + 3 * lenN rows).
      { unfold s_len. rewrite En1, lenN_cons, case_blocks_len. lia. }
      destruct (IH true _ _ _ _ _ _ _ _ _ _ _ _ _ E1 Hc F1 EP CI1 ltac:(lia)) as (F' & L' & EP' & CI' & K' & CF').
      unfold cases_done in Hd. apply andb_true_iff in Hd. destruct Hd as [Hall Hsome].
      destruct cur' as [outs|]; [|discriminate].
      split; [exact F'|]. split; [exact EP'|].
      intros p nd Hp E. destruct (N.lt_ge_cases p (s_len st1)) as [Lt|Ge]; [|exact (CF' _ _ Ge E)].
      eapply (cond_block_closed _ _ _ _ _ _ _ _ CI' Hall); eauto. lia.
  Qed.
End FrameMain2.
