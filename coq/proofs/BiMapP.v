(* Proofs for C18: bijection invariant and refinement to the live-pairs specification. *)
From Coq Require Import List Bool Arith Lia.
Import ListNotations.
From HV Require Import lib.PyDict lib.Harness model.BiMapM spec.BiMapS.

Section Proofs.
  Context {L R : Type} (leqb : L -> L -> bool) (reqb : R -> R -> bool).
  Hypothesis leqb_spec : forall a b, reflect (a = b) (leqb a b).
  Hypothesis reqb_spec : forall a b, reflect (a = b) (reqb a b).

  Notation bimap := (@bimap L R).
  Notation getf := (dget leqb). Notation getb := (dget reqb).
  Notation insert_left := (insert_left leqb reqb).
  Notation delete_left := (delete_left leqb reqb).
  Notation delete_right := (delete_right leqb reqb).
  Notation step := (step leqb reqb).
  Notation run := (run leqb reqb).

  Definition Bij (b : bimap) : Prop :=
    NoDup (keys (fwd b)) /\ NoDup (keys (bck b)) /\
    forall k v, getf (fwd b) k = Some v <-> getb (bck b) v = Some k.

  Lemma leqb_refl k : leqb k k = true.
  Proof. destruct (leqb_spec k k); congruence. Qed.
  Lemma reqb_refl k : reqb k k = true.
  Proof. destruct (reqb_spec k k); congruence. Qed.

  (* ---------- insert_left ---------- *)
  Section Ins.
    Variables (b : bimap) (k : L) (v : R).
    Hypothesis HB : Bij b.
    Let f1 := match getb (bck b) v with Some ek => ddel leqb (fwd b) ek | None => fwd b end.
    Let b1 := match getf f1 k with Some ev => ddel reqb (bck b) ev | None => bck b end.

    Lemma f1_nodup : NoDup (keys f1).
    Proof. destruct HB as (Hf & _). subst f1. destruct (getb (bck b) v); auto using nodup_ddel. Qed.
    Lemma b1_nodup : NoDup (keys b1).
    Proof. destruct HB as (_ & Hb & _). subst b1. destruct (getf f1 k); auto using nodup_ddel. Qed.

    Lemma f1_get k' v' : getf f1 k' = Some v' <-> getf (fwd b) k' = Some v' /\ v' <> v.
    Proof.
      destruct HB as (Hf & Hb & Hfb). subst f1. destruct (getb (bck b) v) as [ek|] eqn:E.
      - apply Hfb in E. rewrite (dget_ddel_iff leqb leqb_spec) by assumption.
        split.
        + intros [Hne H]. split; [assumption|]. intros ->. apply Hfb in H. apply Hfb in E. congruence.
        + intros [H Hne]. split; [|assumption]. intros ->. congruence.
      - split; [|tauto]. intros H; split; [assumption|]. intros ->. apply Hfb in H. congruence.
    Qed.

    Lemma b1_get v' k' : getb b1 v' = Some k' <-> getb (bck b) v' = Some k' /\ (k' <> k \/ v' = v).
    Proof.
      destruct HB as (Hf & Hb & Hfb). subst b1. destruct (getf f1 k) as [ev|] eqn:E.
      - apply f1_get in E. destruct E as [E Hev]. apply Hfb in E.
        rewrite (dget_ddel_iff reqb reqb_spec) by assumption. split.
        + intros [Hne H]. split; [assumption|].
          destruct (leqb_spec k' k) as [->|]; [|now left]. apply Hfb in H, E. congruence.
        + intros [H [Hk|Hv]]; (split; [|assumption]); intros Heq; congruence.
      - split; [|tauto]. intros H; split; [assumption|]. destruct (leqb_spec k' k) as [->|]; [|now left].
        right. destruct (reqb_spec v' v) as [|Hne]; [assumption|]. exfalso.
        apply Hfb in H. assert (getf f1 k = Some v') by (apply f1_get; split; auto). congruence.
    Qed.

    (* "inserting a pair displaces any pair that shared its key or its value and nothing else" *)
    Lemma ins_fwd_get k' v' :
      getf (fwd (insert_left b k v)) k' = Some v' <->
      (k' = k /\ v' = v) \/ (k' <> k /\ v' <> v /\ getf (fwd b) k' = Some v').
    Proof.
      unfold BiMapM.insert_left. cbn [fwd]. fold f1.
      rewrite (dget_dset_iff leqb leqb_spec), f1_get. tauto.
    Qed.
    Lemma ins_bck_get v' k' :
      getb (bck (insert_left b k v)) v' = Some k' <->
      (k' = k /\ v' = v) \/ (k' <> k /\ v' <> v /\ getb (bck b) v' = Some k').
    Proof.
      unfold BiMapM.insert_left. cbn [bck]. fold f1. fold b1.
      rewrite (dget_dset_iff reqb reqb_spec), b1_get. tauto.
    Qed.

    Lemma insert_left_bij : Bij (insert_left b k v).
    Proof.
      split; [|split].
      - unfold BiMapM.insert_left; cbn [fwd]. apply (nodup_dset leqb leqb_spec). exact f1_nodup.
      - unfold BiMapM.insert_left; cbn [bck]. apply (nodup_dset reqb reqb_spec). exact b1_nodup.
      - intros k' v'. rewrite ins_fwd_get, ins_bck_get. destruct HB as (_ & _ & Hfb). rewrite Hfb. tauto.
    Qed.
  End Ins.

  (* ---------- deletions ---------- *)
  Lemma delete_left_present b k v : Bij b -> getf (fwd b) k = Some v ->
    delete_left b k = ({| fwd := ddel leqb (fwd b) k; bck := ddel reqb (bck b) v |}, Done).
  Proof. intros (Hf & Hb & Hfb) H. unfold BiMapM.delete_left. rewrite H. apply Hfb in H. now rewrite H. Qed.
  Lemma delete_left_absent b k : getf (fwd b) k = None -> delete_left b k = (b, KeyError).
  Proof. intros H. unfold BiMapM.delete_left. now rewrite H. Qed.
  Lemma delete_right_present b k v : Bij b -> getb (bck b) v = Some k ->
    delete_right b v = ({| fwd := ddel leqb (fwd b) k; bck := ddel reqb (bck b) v |}, Done).
  Proof. intros (Hf & Hb & Hfb) H. unfold BiMapM.delete_right. rewrite H. apply Hfb in H. now rewrite H. Qed.
  Lemma delete_right_absent b v : getb (bck b) v = None -> delete_right b v = (b, KeyError).
  Proof. intros H. unfold BiMapM.delete_right. now rewrite H. Qed.

  Lemma delete_pair_bij b k v : Bij b -> getf (fwd b) k = Some v ->
    Bij {| fwd := ddel leqb (fwd b) k; bck := ddel reqb (bck b) v |}.
  Proof.
    intros (Hf & Hb & Hfb) H. split; [|split]; cbn [fwd bck].
    - now apply nodup_ddel.
    - now apply nodup_ddel.
    - intros k' v'. rewrite (dget_ddel_iff leqb leqb_spec), (dget_ddel_iff reqb reqb_spec) by assumption.
      rewrite <- Hfb. split; intros [Hne H']; (split; [|assumption]); intros ->.
      + apply Hfb in H, H'. congruence.
      + congruence.
  Qed.

  Lemma step_bij b o : Bij b -> Bij (fst (step b o)).
  Proof.
    intros HB. destruct o as [k v|v k|k|v|k v|k]; cbn [BiMapM.step fst];
      try (apply insert_left_bij; assumption).
    - destruct (getf (fwd b) k) as [v|] eqn:E.
      + rewrite (delete_left_present b k v) by assumption. now apply delete_pair_bij.
      + now rewrite delete_left_absent.
    - destruct (getb (bck b) v) as [k|] eqn:E.
      + rewrite (delete_right_present b k v) by assumption. apply delete_pair_bij; [assumption|].
        destruct HB as (_ & _ & Hfb). now apply Hfb.
      + now rewrite delete_right_absent.
    - destruct (getf (fwd b) k) as [v|] eqn:E.
      + rewrite (delete_left_present b k v) by assumption. now apply delete_pair_bij.
      + now rewrite delete_left_absent.
  Qed.

  Lemma run_bij ops : forall b, Bij b -> Bij (run b ops).
  Proof. induction ops as [|o ops IH]; intros b HB; cbn; [assumption|]. apply IH. now apply step_bij. Qed.

  (* ---------- constructor ---------- *)
  Lemma swap_keys (m : list (L * R)) : keys (map (fun kv => (snd kv, fst kv)) m) = map snd m.
  Proof. unfold keys. rewrite map_map. reflexivity. Qed.
  Lemma init_bij (m : list (L * R)) b : NoDup (map fst m) -> init reqb m = Some b -> Bij b.
  Proof.
    intros Hk. unfold init. destruct (nodupb_spec reqb reqb_spec (map snd m)) as [Hv|]; [|discriminate].
    intros [= <-]. split; [|split]; cbn [fwd bck].
    - exact Hk.
    - now rewrite swap_keys.
    - intros k v. rewrite (dget_In_iff leqb leqb_spec) by exact Hk.
      rewrite (dget_In_iff reqb reqb_spec) by now rewrite swap_keys.
      rewrite in_map_iff. split.
      + intros H. exists (k, v). auto.
      + intros ([k' v'] & [= -> ->] & H). exact H.
  Qed.
  Lemma init_rejects_iff (m : list (L * R)) : init reqb m = None <-> ~ NoDup (map snd m).
  Proof. unfold init. destruct (nodupb_spec reqb reqb_spec (map snd m)); split; try discriminate; tauto. Qed.

  Theorem bij_reachable (m : list (L * R)) b ops : NoDup (map fst m) -> init reqb m = Some b -> Bij (run b ops).
  Proof. intros Hk Hi. apply run_bij. eapply init_bij; eassumption. Qed.

  (* ---------- refinement to the live-pairs specification ---------- *)
  Notation a_insert := (a_insert leqb reqb).
  Notation a_step := (a_step leqb reqb).
  Notation a_run := (a_run leqb reqb).

  Definition Rep (b : bimap) (p : list (L * R)) : Prop :=
    Bij b /\ wf_pairs p /\ forall k v, getf (fwd b) k = Some v <-> In (k, v) p.

  Lemma nodup_map_filter {A B} (f : A -> B) g (l : list A) : NoDup (map f l) -> NoDup (map f (filter g l)).
  Proof.
    induction l as [|x r IH]; cbn; [auto|]. intros H; inversion H; subst.
    destruct (g x); cbn; [|auto]. constructor; [|auto].
    intros Hin. apply in_map_iff in Hin. destruct Hin as (y & Hy & Hin). apply filter_In in Hin.
    match goal with H : ~ In _ _ |- _ => apply H end. rewrite <- Hy. apply in_map. tauto.
  Qed.

  Lemma nodup_snoc {A} (l : list A) x : NoDup l -> ~ In x l -> NoDup (l ++ [x]).
  Proof.
    induction l as [|y r IH]; cbn; intros Hn Hx; [repeat constructor; auto|].
    inversion Hn; subst. constructor; [|apply IH; tauto].
    rewrite in_app_iff. cbn. intros [H|[H|[]]]; [contradiction|]. apply Hx. now left.
  Qed.

  Lemma a_insert_In p k v k' v' :
    In (k', v') (a_insert p k v) <-> (k' = k /\ v' = v) \/ (k' <> k /\ v' <> v /\ In (k', v') p).
  Proof.
    unfold BiMapS.a_insert. rewrite in_app_iff, filter_In. cbn [fst snd In].
    destruct (leqb_spec k' k) as [->|Hk]; destruct (reqb_spec v' v) as [->|Hv]; cbn;
      split; intros H; repeat match goal with
      | H : _ \/ _ |- _ => destruct H | H : _ /\ _ |- _ => destruct H | H : (_, _) = (_, _) |- _ => inversion H; subst; clear H
      end; try congruence; try tauto; auto.
  Qed.

  Lemma a_insert_wf p k v : wf_pairs p -> wf_pairs (a_insert p k v).
  Proof.
    intros [Hk Hv]. unfold BiMapS.a_insert, wf_pairs. rewrite !map_app. cbn [map fst snd]. split.
    - apply nodup_snoc; [now apply nodup_map_filter|].
      intros Hin. apply in_map_iff in Hin. destruct Hin as ([k' v'] & E & Hin). cbn in E. subst k'.
      apply filter_In in Hin. cbn in Hin. rewrite leqb_refl in Hin. cbn in Hin. destruct Hin; discriminate.
    - apply nodup_snoc; [now apply nodup_map_filter|].
      intros Hin. apply in_map_iff in Hin. destruct Hin as ([k' v'] & E & Hin). cbn in E. subst v'.
      apply filter_In in Hin. cbn in Hin. rewrite reqb_refl, andb_false_r in Hin. destruct Hin; discriminate.
  Qed.

  Lemma existsb_fst p k : existsb (fun kv : L * R => leqb (fst kv) k) p = true <-> exists v, In (k, v) p.
  Proof.
    rewrite existsb_exists. split.
    - intros ([k' v] & Hin & E). cbn in E. destruct (leqb_spec k' k); [subst; eauto|discriminate].
    - intros (v & Hin). exists (k, v). cbn. now rewrite leqb_refl.
  Qed.
  Lemma existsb_snd p v : existsb (fun kv : L * R => reqb (snd kv) v) p = true <-> exists k, In (k, v) p.
  Proof.
    rewrite existsb_exists. split.
    - intros ([k v'] & Hin & E). cbn in E. destruct (reqb_spec v' v); [subst; eauto|discriminate].
    - intros (k & Hin). exists (k, v). cbn. now rewrite reqb_refl.
  Qed.
  Lemma filter_fst_In p k k' v' :
    In (k', v') (filter (fun kv : L * R => negb (leqb (fst kv) k)) p) <-> In (k', v') p /\ k' <> k.
  Proof. rewrite filter_In. cbn. destruct (leqb_spec k' k); cbn; intuition congruence. Qed.
  Lemma filter_snd_In p v k' v' :
    In (k', v') (filter (fun kv : L * R => negb (reqb (snd kv) v)) p) <-> In (k', v') p /\ v' <> v.
  Proof. rewrite filter_In. cbn. destruct (reqb_spec v' v); cbn; intuition congruence. Qed.

  Lemma rep_delete b p k v : Rep b p -> getf (fwd b) k = Some v ->
    Rep {| fwd := ddel leqb (fwd b) k; bck := ddel reqb (bck b) v |}
        (filter (fun kv => negb (leqb (fst kv) k)) p) /\
    forall k' v', In (k', v') (filter (fun kv => negb (leqb (fst kv) k)) p) <->
                  In (k', v') (filter (fun kv => negb (reqb (snd kv) v)) p).
  Proof.
    intros (HB & [Hwk Hwv] & Hp) H. split; [split; [|split]|].
    - now apply delete_pair_bij.
    - split; now apply nodup_map_filter.
    - intros k' v'. cbn [fwd]. destruct HB as (Hf & _). rewrite (dget_ddel_iff leqb leqb_spec) by assumption.
      rewrite filter_fst_In, Hp. tauto.
    - intros k' v'. rewrite filter_fst_In, filter_snd_In. rewrite <- !Hp.
      destruct HB as (Hf & Hb & Hfb). split; intros [H' Hne]; (split; [assumption|]); intros ->.
      + apply Hfb in H, H'. congruence.
      + congruence.
  Qed.

  Lemma filter_ext_In_pairs (p : list (L * R)) f g :
    (forall x, In x p -> f x = g x) -> filter f p = filter g p.
  Proof. intros H. induction p as [|x r IH]; cbn; [reflexivity|].
         rewrite (H x) by now left. rewrite IH; [reflexivity|]. intros y Hy. apply H. now right. Qed.

  (* one step of the implementation model is one step of the specification, with the same outcome *)
  Lemma rep_step b p o : Rep b p ->
    Rep (fst (step b o)) (fst (a_step p o)) /\ snd (step b o) = snd (a_step p o).
  Proof.
    intros HR. pose proof HR as (HB & Hw & Hp).
    assert (Hins : forall k v, Rep (insert_left b k v) (a_insert p k v)).
    { intros k v. split; [now apply insert_left_bij|]. split; [now apply a_insert_wf|].
      intros k' v'. rewrite ins_fwd_get by assumption. rewrite a_insert_In, Hp. tauto. }
    assert (HdelL : forall k, Rep (fst (delete_left b k)) (fst (a_delete_left leqb p k)) /\
                              snd (delete_left b k) = snd (a_delete_left leqb p k)).
    { intros k. unfold a_delete_left. destruct (getf (fwd b) k) as [v|] eqn:E.
      - rewrite (delete_left_present b k v) by assumption.
        assert (Hex : existsb (fun kv => leqb (fst kv) k) p = true) by (apply existsb_fst; exists v; now apply Hp).
        rewrite Hex. cbn [fst snd]. split; [|reflexivity]. now apply rep_delete.
      - rewrite delete_left_absent by assumption.
        destruct (existsb (fun kv => leqb (fst kv) k) p) eqn:Hex; [|cbn; auto].
        apply existsb_fst in Hex. destruct Hex as (v & Hin). apply Hp in Hin. congruence. }
    destruct o as [k v|v k|k|v|k v|k]; cbn [BiMapM.step BiMapS.a_step fst snd];
      unfold BiMapM.insert_right; auto.
    unfold a_delete_right. destruct (getb (bck b) v) as [k|] eqn:E.
    - rewrite (delete_right_present b k v) by assumption.
      assert (Hkv : getf (fwd b) k = Some v) by (destruct HB as (_ & _ & Hfb); now apply Hfb).
      assert (Hex : existsb (fun kv => reqb (snd kv) v) p = true) by (apply existsb_snd; exists k; now apply Hp).
      rewrite Hex. cbn [fst snd]. split; [|reflexivity].
      destruct (rep_delete b p k v HR Hkv) as [(HB' & Hw' & Hp') Hsame].
      split; [assumption|]. split.
      + destruct Hw as [Hwk Hwv]. split; now apply nodup_map_filter.
      + intros k' v'. rewrite Hp'. apply Hsame.
    - rewrite delete_right_absent by assumption.
      destruct (existsb (fun kv => reqb (snd kv) v) p) eqn:Hex; [|cbn; auto].
      apply existsb_snd in Hex. destruct Hex as (k & Hin). apply Hp in Hin.
      destruct HB as (_ & _ & Hfb). apply Hfb in Hin. congruence.
  Qed.

  Theorem run_refines ops : forall b p, Rep b p -> Rep (run b ops) (a_run p ops).
  Proof.
    induction ops as [|o ops IH]; intros b p HR; cbn; [assumption|].
    apply IH. now apply rep_step.
  Qed.

  Lemma init_rep (m : list (L * R)) b : NoDup (map fst m) -> init reqb m = Some b -> Rep b m.
  Proof.
    intros Hk Hi. split; [eapply init_bij; eassumption|].
    unfold init in Hi. destruct (nodupb_spec reqb reqb_spec (map snd m)) as [Hv|]; [|discriminate].
    injection Hi as <-. split; [split; assumption|]. intros k v. cbn [fwd].
    now apply (dget_In_iff leqb leqb_spec).
  Qed.

  (* queries against the live pairs *)
  Lemma rep_get_right b p k v : Rep b p -> (get_right leqb b k = Some v <-> In (k, v) p).
  Proof. intros (_ & _ & Hp). apply Hp. Qed.
  Lemma rep_get_left b p k v : Rep b p -> (get_left reqb b v = Some k <-> In (k, v) p).
  Proof. intros ((_ & _ & Hfb) & _ & Hp). unfold get_left. rewrite <- Hfb. apply Hp. Qed.
  Lemma lookups_agree b k v : Bij b -> (get_right leqb b k = Some v <-> get_left reqb b v = Some k).
  Proof. intros (_ & _ & Hfb). apply Hfb. Qed.
  (* re-linking a pair that is already live changes nothing: both views answer every lookup as before.  Keys and
     values enter only through the equality, so this holds whichever of several equal objects the caller passes
     (seeded C18-g decided "is it the pair just written" by object identity and dropped the pair) *)
  Lemma reinsert_live_pair b k v : Bij b -> get_right leqb b k = Some v ->
    forall k' v', (get_right leqb (insert_left b k v) k' = Some v' <-> get_right leqb b k' = Some v') /\
                  (get_left reqb (insert_left b k v) v' = Some k' <-> get_left reqb b v' = Some k').
  Proof.
    intros HB Hkv k' v'.
    assert (HB' : Bij (insert_left b k v)) by (apply insert_left_bij; exact HB).
    assert (Hfwd : get_right leqb (insert_left b k v) k' = Some v' <-> get_right leqb b k' = Some v').
    { unfold get_right in *. rewrite (ins_fwd_get b k v HB k' v'). split.
      - intros [[Ek Ev]|(_ & _ & H)]; [subst; exact Hkv|exact H].
      - intros H. destruct (leqb_spec k' k) as [Ek|Hne].
        + left. subst k'. split; [reflexivity|congruence].
        + right. split; [exact Hne|]. split; [|exact H]. intros Ev. subst v'.
          destruct HB as (_ & _ & Hfb). apply Hfb in H. apply Hfb in Hkv. congruence. }
    split; [exact Hfwd|].
    rewrite <- (lookups_agree _ _ _ HB'), <- (lookups_agree _ _ _ HB). exact Hfwd.
  Qed.
  Lemma rep_items b p : Rep b p -> forall kv, In kv (items b) <-> In kv p.
  Proof. intros ((Hf & _) & _ & Hp) [k v]. unfold items. rewrite <- Hp.
         symmetry. now apply (dget_In_iff leqb leqb_spec). Qed.
  Lemma len_iter_items b : Bij b ->
    len b = length (items b) /\ iter b = map fst (items b) /\ NoDup (iter b) /\ NoDup (map snd (items b)).
  Proof.
    intros (Hf & Hb & Hfb). unfold len, iter, items. repeat split; [exact Hf|].
    (* distinct values: two entries with the same value have the same key *)
    assert (Hin : forall k v, In (k, v) (fwd b) -> getb (bck b) v = Some k).
    { intros k v H. apply Hfb. now apply (dget_In_iff leqb leqb_spec). }
    revert Hf Hin. generalize (fwd b) as l. induction l as [|[k v] r IH]; cbn; intros Hf Hin; [constructor|].
    inversion Hf; subst. constructor; [|apply IH; auto].
    intros Hv. apply in_map_iff in Hv. destruct Hv as ([k' v'] & E & Hr). cbn in E. subst v'.
    assert (getb (bck b) v = Some k) by (apply Hin; now left).
    assert (getb (bck b) v = Some k') by (apply Hin; now right).
    assert (k' = k) by congruence. subst k'.
    match goal with H : ~ In k _ |- _ => apply H end. change k with (fst (k, v)). now apply in_map.
  Qed.
End Proofs.
