(* C01 -> C02: builder programs yield HUGRs inside the guard of the C02 round-trip theorems.
   For the view (model/ComposeBuilder.v) of the store a builder program leaves behind:
     view_index_ordered   ANY program that runs: the hierarchy is consistent with index order (the builders only
                          append nodes under existing parents)                       [from C01's Inv: bounded, root_ok]
     view_ports_exist     well-typed programs (wt_prog): links attach only to ports the operations have
                                                                                      [from C01's LinkInv]
     view_to_serial       the C02 model of Hugr._to_serial on the view IS the builder model's document
                          (Builder.to_serial), up to the representation (N / nat, vnode / snode)
   all three generic in a translation f of the operations that respects the port counts. *)
From Coq Require Import NArith List Bool Arith Lia Permutation.
Import ListNotations.
From HV Require Import lib.Harness model.Validity model.Builder spec.BuilderS proofs.BuilderP proofs.BuilderFrameP
  proofs.BuilderRulesP spec.BuilderWFS proofs.BuilderTypeP.
From HV Require Import model.SerialHugr spec.SerialHugrS proofs.SerialHugrP proofs.SerialHugrOnP model.ComposeBuilder.

(* ------------------------------------------------------------------ lists *)
Lemma mapi_from_nth {A B} (f : nat -> A -> B) l : forall i k,
  nth_error (mapi_from f i l) k = option_map (f (i + k)) (nth_error l k).
Proof.
  induction l as [|x r IH]; intros i k; [now destruct k|]. destruct k as [|k]; cbn [mapi_from nth_error option_map].
  - now rewrite Nat.add_0_r.
  - rewrite IH. now rewrite Nat.add_succ_r.
Qed.
Lemma mapi_from_length {A B} (f : nat -> A -> B) l : forall i, length (mapi_from f i l) = length l.
Proof. induction l as [|x r IH]; intros i; cbn; [reflexivity|]. now rewrite IH. Qed.
Lemma nthN_nat {A} (l : list A) i : nthN l (N.of_nat i) = nth_error l i.
Proof. unfold nthN. now rewrite Nnat.Nat2N.id. Qed.
Lemma filter_all {A} (p : A -> bool) l : (forall x, In x l -> p x = true) -> filter p l = l.
Proof.
  induction l as [|x r IH]; intros H; cbn; [reflexivity|]. rewrite (H x (or_introl eq_refl)), IH; [reflexivity|].
  intros y Hy. apply H. now right.
Qed.
Lemma mapM_map2 {X Y Z} (g : Y -> option Z) (b : X -> Y) (k : X -> Z) l :
  (forall x, In x l -> g (b x) = Some (k x)) -> mapM g (map b l) = Some (map k l).
Proof.
  induction l as [|x r IH]; intros H; cbn; [reflexivity|]. rewrite (H x (or_introl eq_refl)), IH; [reflexivity|].
  intros y Hy. apply H. now right.
Qed.
Lemma map_const_mapi {X Y Z} (g : nat -> X -> Y) (c : Z) l : forall k,
  map (fun _ => c) (mapi_from g k l) = map (fun _ => c) l.
Proof. induction l as [|x r IH]; intros k; cbn [mapi_from map]; [reflexivity|]. now rewrite IH. Qed.
Lemma list_eqb_nat_refl l : list_eqb Nat.eqb l l = true.
Proof. induction l as [|x r IH]; cbn; [reflexivity|]. now rewrite Nat.eqb_refl. Qed.

Section ViewP.
  Variables A SA : Type.
  Variable f : vop -> A.
  Variable pc : nat -> nat * nat.
  Variable enc : A -> SA.
  Variable ndp : A -> dir -> option nat.
  Variables vports sports : A -> dir -> nat.
  Variable has_order : A -> bool.
  Hypothesis ndp_spec : forall o d, ndp o d = if has_order o then Some (vports o d + sports o d) else None.
  (* the operations of the store and what the translation must respect on them: the port counts *)
  Variable Q : vop -> Prop.
  Hypothesis f_ndp : forall o d, Q o -> ndp (f o) d = v_ndp o d.
  Definition QStore (st : store) : Prop := forall nd, In nd (Builder.s_nodes st) -> Q (Validity.n_op nd).

  Notation view := (bview A f pc).
  Notation l_of st := (Builder.s_nodes st).

  Lemma view_get st i :
    get_node (view st) i = option_map (bnode A f pc (l_of st) i) (nth_error (l_of st) i).
  Proof.
    unfold get_node, bview. cbn [h_nodes]. rewrite nth_error_map, mapi_from_nth. cbn [Nat.add].
    now destruct (nth_error (l_of st) i).
  Qed.
  Lemma view_is_live st i : is_live (view st) i = (i <? length (l_of st)).
  Proof.
    unfold is_live, bview. cbn [h_nodes]. rewrite nth_error_map, mapi_from_nth.
    destruct (nth_error (l_of st) i) eqn:E; cbn.
    - symmetry. apply Nat.ltb_lt. apply nth_error_Some. congruence.
    - symmetry. apply Nat.ltb_ge. now apply nth_error_None.
  Qed.
  Lemma view_lives st : lives (view st) = seq 0 (length (l_of st)).
  Proof.
    unfold lives. replace (length (h_nodes (view st))) with (length (l_of st)).
    - apply filter_all. intros i Hi. apply in_seq in Hi. rewrite view_is_live. apply Nat.ltb_lt. lia.
    - unfold bview. cbn [h_nodes]. now rewrite map_length, mapi_from_length.
  Qed.

  (* what the store invariant of C01 says in nat positions *)
  Lemma inv_facts st : BuilderP.Inv st ->
    (exists r, nth_error (l_of st) 0 = Some r /\ Validity.n_parent r = 0%N) /\
    (forall i nd, nth_error (l_of st) i = Some nd -> i <> 0 -> N.to_nat (Validity.n_parent nd) < i) /\
    (forall e, In e (s_links st) -> N.to_nat (e_src e) < length (l_of st) /\ N.to_nat (e_dst e) < length (l_of st)).
  Proof.
    intros [(_ & _ & Hb & (r & rest & Er & Hr & _)) HL]. split; [|split].
    - exists r. rewrite Er. split; [reflexivity|exact Hr].
    - intros i nd Hn Hi. rewrite <- nthN_nat in Hn. destruct (bounded_in _ _ _ Hb (nthN_in_indexed _ _ _ Hn)) as [E|E]; lia.
    - intros e He. unfold LinksOK in HL. rewrite forallb_forall in HL. specialize (HL e He).
      apply andb_true_iff in HL as [H1 H2]. apply N.ltb_lt in H1, H2. unfold s_len, lenN in *. lia.
  Qed.

  (* ---- ANY program that runs: the hierarchy is consistent with index order ---- *)
  Theorem view_index_ordered st : BuilderP.Inv st -> index_ordered_b (view st) = true.
  Proof.
    intros I. destruct (inv_facts st I) as [[r [Hr0 Hrp]] [Hpar _]].
    unfold index_ordered_b. cbv zeta. apply andb_true_iff. split.
    - cbn [h_root bview]. rewrite view_is_live. apply Nat.ltb_lt. apply nth_error_Some. congruence.
    - apply forallb_forall. intros i Hi. rewrite view_lives in Hi. apply in_seq in Hi. cbn [Nat.add] in Hi.
      unfold node_ordered. rewrite view_get.
      destruct (nth_error (l_of st) i) as [nd|] eqn:En; [|apply nth_error_None in En; lia]. cbn [option_map].
      apply andb_true_iff. split.
      + cbn [bnode SerialHugr.n_parent h_root bview]. destruct (Nat.eqb_spec i 0) as [->|Hi0]; [reflexivity|].
        specialize (Hpar i nd En Hi0). rewrite view_is_live.
        destruct (Nat.ltb_spec (N.to_nat (Validity.n_parent nd)) (length (l_of st))); [|lia].
        destruct (Nat.ltb_spec (N.to_nat (Validity.n_parent nd)) i); [|lia]. reflexivity.
      + rewrite children_in_spec, view_lives. cbn [bnode n_children]. unfold bchildren.
        erewrite filter_ext_in; [apply list_eqb_nat_refl|].
        intros c Hc. apply in_seq in Hc. unfold is_child, parent_of. rewrite view_get.
        destruct (nth_error (l_of st) c) as [nc|] eqn:Ec; [|apply nth_error_None in Ec; lia].
        cbn [option_map bnode SerialHugr.n_parent]. destruct (c =? 0); reflexivity.
  Qed.

  (* ---- well-typed programs: links attach only to ports the operations have ---- *)
  Lemma f_has_order o : Q o -> has_order (f o) = v_has_order o.
  Proof.
    intros HQ. pose proof (f_ndp o DIn HQ) as E. rewrite ndp_spec in E. unfold v_ndp in E.
    destruct (has_order (f o)), (v_has_order o); congruence.
  Qed.
  Lemma f_ports o d : Q o -> v_has_order o = true ->
    vports (f o) d + sports (f o) d = N.to_nat (match d with DIn => base_in o | DOut => base_out o end).
  Proof.
    intros HQ Ho. pose proof (f_ndp o d HQ) as E. rewrite ndp_spec, (f_has_order o HQ) in E. unfold v_ndp in E.
    rewrite Ho in E. congruence.
  Qed.
  Lemma ord_out_has_order o : ord_out o = true -> v_has_order o = true.
  Proof. now destruct o. Qed.
  Lemma ord_in_has_order o : ord_in o = true -> v_has_order o = true.
  Proof. now destruct o. Qed.

  Lemma link_ok_ports st e : QStore st -> link_okb (l_of st) e = true ->
    port_exists vports sports has_order (view st) (fst (blink e)) DOut = true /\
    port_exists vports sports has_order (view st) (snd (blink e)) DIn = true.
  Proof.
    intros HQ. unfold link_okb, op_at, nthN, port_exists, blink. cbn [fst snd]. rewrite !view_get.
    destruct (nth_error (l_of st) (N.to_nat (e_src e))) as [ns|] eqn:Es; [|discriminate].
    destruct (nth_error (l_of st) (N.to_nat (e_dst e))) as [nt|] eqn:Et; [|discriminate].
    cbn [option_map bnode SerialHugr.n_op].
    pose proof (HQ _ (nth_error_In _ _ Es)) as Qs. pose proof (HQ _ (nth_error_In _ _ Et)) as Qt.
    rewrite (f_has_order _ Qs), (f_has_order _ Qt).
    destruct (e_soff e) as [a|], (e_doff e) as [b|]; try discriminate; cbn [aoff_of].
    - intros H.
      assert (Hs : v_has_order (Validity.n_op ns) = true -> (a < base_out (Validity.n_op ns))%N).
      { intros _. destruct (nth_error (val_out (Validity.n_op ns)) (N.to_nat a)) as [t|] eqn:Ea.
        - assert (N.to_nat a < length (val_out (Validity.n_op ns))) by (apply nth_error_Some; congruence).
          unfold base_out, lenN. lia.
        - destruct (Validity.n_op ns); try discriminate; destruct (Validity.n_op nt); try discriminate.
          all: try (destruct (nth_error _ _); discriminate).
          apply andb_true_iff in H as [H _]. apply andb_true_iff in H as [H _]. apply N.eqb_eq in H. subst a. cbn. lia. }
      assert (Ht : v_has_order (Validity.n_op nt) = true -> (b < base_in (Validity.n_op nt))%N).
      { intros _. destruct (nth_error (val_in (Validity.n_op nt)) (N.to_nat b)) as [t|] eqn:Eb.
        - assert (N.to_nat b < length (val_in (Validity.n_op nt))) by (apply nth_error_Some; congruence).
          unfold base_in, lenN. lia.
        - destruct (nth_error (val_out (Validity.n_op ns)) (N.to_nat a)).
          + destruct (Validity.n_op ns); try discriminate; destruct (Validity.n_op nt); try discriminate.
            apply andb_true_iff in H as [H _]. apply andb_true_iff in H as [_ H]. apply N.eqb_eq in H. subst b. cbn. lia.
          + destruct (Validity.n_op ns); try discriminate; destruct (Validity.n_op nt); try discriminate.
            apply andb_true_iff in H as [H _]. apply andb_true_iff in H as [_ H]. apply N.eqb_eq in H. subst b. cbn. lia. }
      split.
      + destruct (v_has_order (Validity.n_op ns)) eqn:Eo; [|reflexivity].
        rewrite (f_ports _ DOut Qs Eo). apply Nat.ltb_lt. specialize (Hs eq_refl). lia.
      + destruct (v_has_order (Validity.n_op nt)) eqn:Eo; [|reflexivity].
        rewrite (f_ports _ DIn Qt Eo). apply Nat.ltb_lt. specialize (Ht eq_refl). lia.
    - intros H. apply andb_true_iff in H as [H1 H2].
      now rewrite (ord_out_has_order _ H1), (ord_in_has_order _ H2).
  Qed.

  Theorem view_ports_exist st : QStore st -> LinkInv st -> ports_exist_b vports sports has_order (view st) = true.
  Proof.
    intros HQ LI. unfold ports_exist_b, bview. cbn [h_links]. rewrite forallb_forall. intros l Hl.
    apply in_map_iff in Hl as [e [<- He]]. unfold LinkInv in LI. rewrite forallb_forall in LI.
    destruct (link_ok_ports st e HQ (LI e He)) as [H1 H2]. fold (bview A f pc st). now rewrite H1, H2.
  Qed.

  Theorem view_guard st : BuilderP.Inv st -> QStore st -> LinkInv st -> guard_b vports sports has_order (view st) = true.
  Proof.
    intros I HQ LI. unfold guard_b. now rewrite (view_index_ordered st I), (view_ports_exist st HQ LI).
  Qed.

  (* ---- the two models of Hugr._to_serial agree ---- *)
  Lemma view_rekey st i : i < length (l_of st) -> rekey (view st) i = Some i.
  Proof.
    intros Hi. unfold rekey, live, bview. cbn [h_nodes]. rewrite live_from_dense, mapi_from_length. now apply index_of_seq.
  Qed.

  Theorem view_to_serial st : BuilderP.Inv st -> QStore st -> LinkInv st ->
    SerialHugr.to_serial enc ndp unit_is_nil (view st) = Some (doc_of_graph A f SA enc (Builder.to_serial st)).
  Proof.
    intros I HQ LI. destruct (inv_facts st I) as [[r [Hr0 Hrp]] [Hpar Hlk]].
    unfold SerialHugr.to_serial.
    assert (E1 : mapM (ser_node A SA unit enc (view st)) (live (view st)) =
                 Some (SerialHugr.s_nodes (doc_of_graph A f SA enc (Builder.to_serial st)))).
    { unfold live, bview at 2. cbn [h_nodes]. rewrite live_from_dense, mapi_from_length.
      unfold doc_of_graph, Builder.to_serial. cbn [SerialHugr.s_nodes g_nodes].
      rewrite <- (map_length (fun nd => {| s_op := enc (f (Validity.n_op nd)); s_parent := N.to_nat (Validity.n_parent nd) |}) (l_of st)).
      apply mapM_seq_nth. intros j y Hy. cbn [Nat.add]. rewrite nth_error_map in Hy.
      destruct (nth_error (l_of st) j) as [nd|] eqn:En; [|discriminate]. injection Hy as <-.
      unfold ser_node. rewrite view_get, En. cbn [option_map bnode SerialHugr.n_parent SerialHugr.n_op].
      assert (Hj : j < length (l_of st)) by (apply nth_error_Some; congruence).
      destruct (Nat.eqb_spec j 0) as [->|Hj0].
      - rewrite (view_rekey st 0 Hj). rewrite Hr0 in En. injection En as <-. now rewrite Hrp.
      - specialize (Hpar j nd En Hj0).
        rewrite (view_rekey st (N.to_nat (Validity.n_parent nd))) by lia. reflexivity. }
    assert (E2 : mapM (ser_link A unit ndp (view st)) (h_links (view st)) =
                 Some (s_edges (doc_of_graph A f SA enc (Builder.to_serial st)))).
    { unfold bview at 2. cbn [h_links]. unfold doc_of_graph. cbn [s_edges]. rewrite to_serial_edges, !map_map.
      apply mapM_map2. intros e He. destruct (Hlk e He) as [Hs Ht].
      unfold LinkInv in LI. rewrite forallb_forall in LI. specialize (LI e He).
      unfold ser_link, blink, ser. cbn [fst snd e_src e_dst e_soff e_doff]. rewrite (view_rekey st _ Hs), (view_rekey st _ Ht).
      unfold link_okb, op_at, nthN in LI.
      destruct (nth_error (l_of st) (N.to_nat (e_src e))) as [ns|] eqn:Es; [|discriminate].
      destruct (nth_error (l_of st) (N.to_nat (e_dst e))) as [nt|] eqn:Et; [|discriminate]. cbn [option_map] in LI.
      pose proof (HQ _ (nth_error_In _ _ Es)) as Qs. pose proof (HQ _ (nth_error_In _ _ Et)) as Qt.
      unfold constrain, constrain_out, constrain_in, Builder.s_op, nthN. cbn [fst snd]. rewrite !view_get, Es, Et.
      cbn [option_map bnode SerialHugr.n_op].
      destruct (e_soff e) as [a|], (e_doff e) as [b|]; try discriminate; cbn [aoff_of option_map]; [reflexivity|].
      apply andb_true_iff in LI as [H1 H2].
      rewrite (f_ndp _ DOut Qs), (f_ndp _ DIn Qt). unfold v_ndp.
      now rewrite (ord_out_has_order _ H1), (ord_in_has_order _ H2). }
    rewrite E1, E2. f_equal. unfold doc_of_graph at 3. cbn [s_meta]. f_equal. f_equal. f_equal.
    unfold bview. cbn [h_nodes]. rewrite meta_of_dense. unfold unit_is_nil, Builder.to_serial. cbn [g_nodes].
    apply map_const_mapi.
  Qed.
End ViewP.

(* ------------------------------------------------------------------ instance 1: the builder's own operation literal *)
(* an operation is its own encoded form: enc = dec = the identity *)
Definition vid (o : vop) : vop := o.

Lemma v_ndp_spec o d : v_ndp o d = if v_has_order o then Some (v_vports o d + v_sports o d) else None.
Proof.
  unfold v_ndp, v_vports, v_sports, base_in, base_out. destruct (v_has_order o); [|reflexivity].
  destruct d; now rewrite Nnat.N2Nat.inj_add.
Qed.

Section BuilderRoundtrip.
  Variable pc : nat -> nat * nat.
  Notation view := (bview vop vid pc).
  Notation to_s := (SerialHugr.to_serial vid v_ndp unit_is_nil).
  Notation from_s := (SerialHugr.from_serial vid v_ndp tt).
  Notation guard := (guard_b v_vports v_sports v_has_order).

  Lemma unit_nil_unique : forall m : unit, unit_is_nil m = true -> m = tt.
  Proof. now intros []. Qed.

  (* ANY program of the modelled builder language that runs *)
  Theorem builder_index_ordered tys p st : exec_prog tys p = Ok st -> index_ordered_b (view st) = true.
  Proof. intros E. apply view_index_ordered. exact (proj1 (exec_prog_frame tys p st E)). Qed.

  (* well-typed programs that run: the whole guard *)
  Theorem builder_guard tys p st : wt_prog tys p = true -> exec_prog tys p = Ok st -> guard (view st) = true.
  Proof.
    intros W E. destruct (exec_prog_typed tys p st W E) as [LI _].
    apply (view_guard vop vid pc v_ndp v_vports v_sports v_has_order v_ndp_spec (fun _ => True)).
    - reflexivity.
    - exact (proj1 (exec_prog_frame tys p st E)).
    - intros nd _. exact I.
    - exact LI.
  Qed.

  (* the C02 model of _to_serial on the view is the document of the builder model *)
  Theorem builder_documents_agree tys p st g : wt_prog tys p = true -> exec_prog tys p = Ok st ->
    run tys p = Ok g -> to_s (view st) = Some (doc_of_graph vop vid vop vid g).
  Proof.
    intros W E R. unfold run in R. rewrite E in R. cbn in R. injection R as <-.
    destruct (exec_prog_typed tys p st W E) as [LI _].
    apply (view_to_serial vop vop vid pc vid v_ndp (fun _ => True)).
    - reflexivity.
    - exact (proj1 (exec_prog_frame tys p st E)).
    - intros nd _. exact I.
    - exact LI.
  Qed.

  (* every well-typed program that runs yields a HUGR whose document -- the one the builder model serialises -- loads
     back to an isomorphic HUGR and is a fixed point *)
  Theorem builder_roundtrip tys p g : wt_prog tys p = true -> run tys p = Ok g ->
    exists st h', exec_prog tys p = Ok st /\ guard (view st) = true /\
      to_s (view st) = Some (doc_of_graph vop vid vop vid g) /\
      from_s (doc_of_graph vop vid vop vid g) = Some h' /\
      to_s h' = Some (doc_of_graph vop vid vop vid g) /\ Iso vid (view st) h'.
  Proof.
    intros W R. unfold run in R. destruct (exec_prog tys p) as [st|e] eqn:E; [|discriminate]. cbn in R.
    exists st. pose proof (builder_guard tys p st W E) as G.
    assert (Hs : to_s (view st) = Some (doc_of_graph vop vid vop vid g)).
    { apply (builder_documents_agree tys p st g W E). unfold run. now rewrite E. }
    destruct (roundtrip_fixpoint vop vop unit vid vid v_ndp tt unit_is_nil v_vports v_sports v_has_order v_ndp_spec
                eq_refl (fun o => eq_refl) (view st) _ G Hs) as [h' [Hf Hs']].
    destruct (roundtrip_iso vop vop unit vid vid v_ndp tt unit_is_nil v_vports v_sports v_has_order v_ndp_spec
                (fun o => eq_refl) (fun o d => eq_refl) unit_nil_unique (view st) _ G Hs) as [h2 [Hf2 HI]].
    rewrite Hf in Hf2. injection Hf2 as <-. exists h'.
    split; [reflexivity|]. split; [exact G|]. split; [exact Hs|]. split; [exact Hf|]. split; [exact Hs'|exact HI].
  Qed.

  (* the C03 corollary: the document of the builder model is index-sane and port-addressed *)
  Theorem builder_wire_format tys p g : wt_prog tys p = true -> run tys p = Ok g ->
    exists st, exec_prog tys p = Ok st /\ IndexSane (doc_of_graph vop vid vop vid g) /\
      s_edges (doc_of_graph vop vid vop vid g) = map (expected_edge v_vports v_sports (view st)) (h_links (view st)).
  Proof.
    intros W R. destruct (builder_roundtrip tys p g W R) as [st [h' [E [G [Hs _]]]]]. exists st. split; [exact E|].
    split.
    - exact (proj2 (serial_index_sane vop vop unit vid v_ndp tt unit_is_nil v_vports v_sports v_has_order v_ndp_spec _ _ G Hs)).
    - exact (serial_port_addressing vop vop unit vid v_ndp tt unit_is_nil v_vports v_sports v_has_order v_ndp_spec _ _ G Hs).
  Qed.
End BuilderRoundtrip.
