(* C01 / C04 interface: the store a builder program leaves behind IS reachable in the store model of C04.
   For every store st of the builder model satisfying C01's invariant there is a state h0 of model/Graph.v --
   Hugr(root_op), then add_node for every further node in index order, then add_link for every link in order --
   that satisfies C04's invariant, has no freed index pending, and whose public view is the builder view of st (for
   the recorded port counts this replay leaves).  This discharges the interface premise of
   proofs/ComposeBuilderHistP.v: builder programs followed by mutation histories need no hypothesis on the state.
   (The builders reach the same public view through the same mutators, completing operations in place; recorded port
   counts are not part of the statement, the composed theorems hold for every pc.) *)
From Coq Require Import NArith List Bool Arith ZArith Lia Permutation.
Import ListNotations.
From HV Require Import lib.PyDict lib.Harness model.BiMapM proofs.BiMapP model.Graph spec.GraphS
     proofs.GraphP proofs.GraphInvP proofs.InsertP.
From HV Require Import model.SerialHugr spec.SerialHugrS proofs.SerialHugrP model.HugrHist spec.HugrHistS proofs.HugrHistP.
From HV Require model.Validity model.Builder proofs.BuilderP model.ComposeBuilder proofs.ComposeBuilderP.

Lemma nth_error_ext {X} (a b : list X) : length a = length b -> (forall i, i < length a -> nth_error a i = nth_error b i) -> a = b.
Proof.
  revert b. induction a as [|x r IH]; intros [|y s] L H; cbn in L; try discriminate; [reflexivity|].
  f_equal.
  - specialize (H 0 ltac:(cbn; lia)). cbn in H. congruence.
  - apply IH; [lia|]. intros i Hi. apply (H (S i)). cbn. lia.
Qed.

Section Replay.
  Variable A : Type.
  Variable f : Validity.vop -> A.
  Notation store := (Graph.hugr A unit).
  Notation gget := (@Graph.get_node A unit).
  Notation vnodeB := Validity.vnode.
  Notation bchildren := ComposeBuilder.bchildren.

  Definition zoff (o : option N) : Z := match o with Some k => Z.of_N k | None => (-1)%Z end.
  Definition ncmd (nd : vnodeB) : bcmd A unit :=
    AddNode (f (Validity.n_op nd)) (Some (N.to_nat (Validity.n_parent nd))) None tt.
  Definition glink (e : Validity.edge) : Graph.port * Graph.port :=
    ((N.to_nat (Validity.e_src e), zoff (Validity.e_soff e)), (N.to_nat (Validity.e_dst e), zoff (Validity.e_doff e))).
  Definition lcmd (e : Validity.edge) : bcmd A unit := AddLink (fst (glink e)) (snd (glink e)).
  Definition replay (st : Builder.store) : store :=
    match Builder.s_nodes st with
    | [] => init (f Validity.Module) tt
    | r :: rest => brun (init (f (Validity.n_op r)) tt) (map ncmd rest ++ map lcmd (Builder.s_links st))
    end.

  (* the shape of node i of a store whose node list is l *)
  Definition shape_ok (l : list vnodeB) (i : nat) (nd : vnodeB) (d : node_data A unit) : Prop :=
    nd_op d = f (Validity.n_op nd) /\
    nd_parent d = (if i =? 0 then None else Some (N.to_nat (Validity.n_parent nd))) /\
    nd_children d = bchildren l i /\ nd_meta d = tt.
  Definition NodesOK (l : list vnodeB) (h : store) : Prop :=
    Inv h /\ free h = [] /\ length (nodes h) = length l /\ root h = 0 /\
    forall i nd, nth_error l i = Some nd -> exists d, gget h i = Some d /\ shape_ok l i nd d.

  Lemma bchildren_snoc l x p : bchildren (l ++ [x]) p =
    bchildren l p ++ (if negb (length l =? 0) && (N.to_nat (Validity.n_parent x) =? p) then [length l] else []).
  Proof.
    unfold ComposeBuilder.bchildren. rewrite app_length. cbn [length]. rewrite Nat.add_1_r, seq_S, filter_app. cbn [Nat.add filter].
    rewrite nth_error_app2, Nat.sub_diag by lia. cbn [nth_error]. f_equal.
    apply filter_ext_in. intros c Hc. apply in_seq in Hc. now rewrite nth_error_app1 by lia.
  Qed.

  (* ---- the node phase ---- *)
  Lemma nodes_phase rest : forall l h, l <> [] -> NodesOK l h ->
    (forall i nd, nth_error (l ++ rest) i = Some nd -> i <> 0 -> N.to_nat (Validity.n_parent nd) < i) ->
    lm_links (links h) = [] ->
    NodesOK (l ++ rest) (brun h (map ncmd rest)) /\ lm_links (links (brun h (map ncmd rest))) = [].
  Proof.
    induction rest as [|x rest IH]; intros l h Hne HN Hb HL.
    - rewrite app_nil_r. cbn. auto.
    - destruct HN as (HI & Hf & Hlen & Hroot & Hsh).
      assert (Hlpos : length l <> 0) by (destruct l; [congruence|cbn; lia]).
      assert (Hpx : N.to_nat (Validity.n_parent x) < length l).
      { apply (Hb (length l) x); [|exact Hlpos]. rewrite nth_error_app2, Nat.sub_diag by lia. reflexivity. }
      set (pp := N.to_nat (Validity.n_parent x)) in *.
      destruct (nth_error l pp) as [pn|] eqn:Epn; [|apply nth_error_None in Epn; lia].
      destruct (Hsh pp pn Epn) as (pd & Epd & Spd).
      pose proof HI as (_ & HF & _).
      destruct (add_node_effect h (f (Validity.n_op x)) pp None tt pd HF Epd) as (h1 & n1 & Hadd & Hdead & Hget & Hlk & Hrt & _).
      unfold nid in *.
      assert (Hn : snd (fst (add_node_raw h (f (Validity.n_op x)) (Some pp) None tt)) = length (nodes h))
        by (apply add_fresh_index; exact Hf).
      rewrite Hadd in Hn. cbn in Hn.
      assert (Hf1 : free (fst (fst (add_node_raw h (f (Validity.n_op x)) (Some pp) None tt))) = [])
        by (apply add_node_raw_free_nil; exact Hf).
      rewrite Hadd in Hf1. cbn in Hf1.
      assert (Hl1 : length (nodes (fst (fst (add_node_raw h (f (Validity.n_op x)) (Some pp) None tt)))) = S (length (nodes h)))
        by (apply add_node_raw_length; exact Hf).
      rewrite Hadd in Hl1. cbn in Hl1.
      assert (Hstep : bstep h (ncmd x) = (h1, RNode n1, Ok)).
      { unfold ncmd. cbn [bstep]. unfold add_node. cbv beta iota. fold pp. unfold nid. now rewrite Hadd. }
      assert (HG : basic_in_guard h (ncmd x) = true).
      { unfold ncmd. cbn [basic_in_guard dfl]. fold pp. unfold s_live. now rewrite Epd. }
      destruct (guard_next h (ncmd x) h1 (RNode n1) Ok HI HG Hstep) as (_ & _ & _ & HI1 & _).
      cbn [map brun fold_left]. rewrite Hstep. cbn [fst].
      change (fold_left (fun s c => fst (fst (bstep s c))) (map ncmd rest) h1) with (brun h1 (map ncmd rest)).
      replace (l ++ x :: rest) with ((l ++ [x]) ++ rest) by (now rewrite <- app_assoc).
      apply IH.
      + destruct l; discriminate.
      + split; [exact HI1|]. split; [exact Hf1|]. split; [rewrite Hl1, app_length; cbn; lia|]. split; [congruence|].
        intros i nd Hi. rewrite Hget. subst n1. rewrite Hlen.
        destruct (Nat.eqb_spec i (length l)) as [->|Hil].
        * rewrite nth_error_app2, Nat.sub_diag in Hi by lia. cbn in Hi. injection Hi as <-.
          eexists. split; [reflexivity|]. unfold shape_ok. cbn.
          destruct (Nat.eqb_spec (length l) 0); [lia|]. repeat split.
          rewrite bchildren_snoc. fold pp.
          assert (E0 : bchildren l (length l) = []).
          { unfold ComposeBuilder.bchildren. apply SerialHugrP.filter_nil. intros c Hc. apply in_seq in Hc.
            destruct (nth_error l c) as [nc|] eqn:Ec; [|now rewrite andb_false_r].
            assert (N.to_nat (Validity.n_parent nc) < c \/ c = 0).
            { destruct (Nat.eq_dec c 0); [now right|left]. apply (Hb c nc); [|assumption]. now rewrite nth_error_app1 by lia. }
            destruct (Nat.eqb_spec c 0); [reflexivity|]. cbn. apply Nat.eqb_neq. lia. }
          rewrite E0. destruct (Nat.eqb_spec pp (length l)); [lia|]. now rewrite andb_false_r.
        * assert (Hi' : i < length l).
          { assert (i < length (l ++ [x])) by (apply nth_error_Some; congruence). rewrite app_length in H. cbn in H. lia. }
          rewrite nth_error_app1 in Hi by lia. destruct (Hsh i nd Hi) as (d & Ed & (S1 & S2 & S3 & S4)).
          destruct (Nat.eqb_spec i pp) as [->|Hip].
          -- assert (d = pd) by congruence. subst d. eexists. split; [reflexivity|].
             unfold shape_ok, add_child. cbn. repeat split; try assumption.
             rewrite bchildren_snoc, S3. fold pp. rewrite Nat.eqb_refl.
             destruct (Nat.eqb_spec (length l) 0); [lia|]. reflexivity.
          -- exists d. split; [exact Ed|]. unfold shape_ok. repeat split; try assumption.
             rewrite bchildren_snoc, S3. fold pp. destruct (Nat.eqb_spec pp i); [congruence|]. now rewrite andb_false_r, app_nil_r.
      + intros i nd Hi. apply Hb. now rewrite <- app_assoc in Hi.
      + now rewrite Hlk.
  Qed.

  (* ---- the link phase ---- *)
  Definition LinksOKs (l : list vnodeB) (es : list Validity.edge) : Prop :=
    forall e, In e es -> N.to_nat (Validity.e_src e) < length l /\ N.to_nat (Validity.e_dst e) < length l.

  Lemma zoff_ge o : (-1 <= zoff o)%Z.
  Proof. destruct o; cbn; lia. Qed.

  Lemma links_phase l es : forall h done, NodesOK l h -> LinksOKs l es -> lm_links (links h) = map glink done ->
    NodesOK l (brun h (map lcmd es)) /\ lm_links (links (brun h (map lcmd es))) = map glink (done ++ es).
  Proof.
    induction es as [|e es IH]; intros h done HN HL Hd.
    - rewrite app_nil_r. cbn. auto.
    - destruct HN as (HI & Hf & Hlen & Hroot & Hsh).
      destruct (HL e (or_introl eq_refl)) as [Hs Ht].
      set (s := fst (glink e)). set (t := snd (glink e)).
      destruct (nth_error l (fst s)) as [ns|] eqn:Ens; [|apply nth_error_None in Ens; cbn in Ens; lia].
      destruct (nth_error l (fst t)) as [nt|] eqn:Ent; [|apply nth_error_None in Ent; cbn in Ent; lia].
      destruct (Hsh _ _ Ens) as (ds & Es & _). destruct (Hsh _ _ Ent) as (dt & Et & _).
      pose proof HI as (HLI & _).
      destruct (lm_add_ok (links h) s t HLI) as (lk & Hadd & _ & Hlinks).
      pose proof (add_link_eq h s t lk ds dt Hadd Es Et) as Heq.
      assert (Hstep : bstep h (lcmd e) = (h_upd (h_upd (with_links h lk) (fst s) (fo s)) (fst t) (fi t), RUnit, Ok)).
      { unfold lcmd. cbn [bstep]. fold s t. now rewrite Heq. }
      assert (HG : basic_in_guard h (lcmd e) = true).
      { unfold lcmd. cbn [basic_in_guard]. fold s t. unfold pok, s_live. rewrite Es, Et. cbn [andb].
        apply andb_true_iff. split; apply Z.leb_le; apply zoff_ge. }
      destruct (guard_next h (lcmd e) _ RUnit Ok HI HG Hstep) as (_ & _ & _ & HI1 & _).
      cbn [map brun fold_left]. rewrite Hstep. cbn [fst].
      set (h1 := h_upd (h_upd (with_links h lk) (fst s) (fo s)) (fst t) (fi t)) in *.
      change (fold_left (fun s c => fst (fst (bstep s c))) (map lcmd es) h1) with (brun h1 (map lcmd es)).
      replace (done ++ e :: es) with ((done ++ [e]) ++ es) by (now rewrite <- app_assoc).
      apply IH.
      + split; [exact HI1|]. split; [subst h1; now rewrite !h_upd_free|]. split; [subst h1; now rewrite !h_upd_length|].
        split; [subst h1; now rewrite !h_upd_root|].
        intros i nd Hi. destruct (Hsh i nd Hi) as (d & Ed & Sd). subst h1. rewrite add_link_get.
        destruct (Nat.eqb_spec i (fst t)) as [->|Hit].
        * destruct (Nat.eqb_spec (fst t) (fst s)) as [Ets|Ets].
          -- rewrite Es. cbn [option_map]. rewrite Ets in Ed. assert (d = ds) by congruence. subst d.
             eexists. split; [reflexivity|]. exact Sd.
          -- rewrite Ed. cbn [option_map]. eexists. split; [reflexivity|]. exact Sd.
        * destruct (Nat.eqb_spec i (fst s)) as [->|His].
          -- rewrite Ed. cbn [option_map]. eexists. split; [reflexivity|]. exact Sd.
          -- exists d. auto.
      + intros e' He'. apply HL. now right.
      + subst h1. rewrite !h_upd_links. cbn [links with_links]. rewrite Hlinks, Hd, map_app. reflexivity.
  Qed.

  Lemma brun_app (h : store) a b : brun h (a ++ b) = brun (brun h a) b.
  Proof. unfold brun. apply fold_left_app. Qed.

  (* ---- the replayed state and its view ---- *)
  Definition pc_of (h : store) (i : nat) : nat * nat :=
    match gget h i with Some d => (Z.to_nat (nd_inps d), Z.to_nat (nd_outs d)) | None => (0, 0) end.

  Lemma vlink_glink e : vlink (glink e) = ComposeBuilder.blink e.
  Proof.
    unfold vlink, glink, ComposeBuilder.blink, vport. cbn [fst snd].
    assert (Ho : forall o, aoff_of (zoff o) = ComposeBuilder.aoff_of o).
    { intros [k|]; cbn; [|reflexivity]. unfold aoff_of. destruct (Z.eqb_spec (Z.of_N k) (-1)); [lia|]. f_equal. lia. }
    now rewrite !Ho.
  Qed.

  Theorem replay_view st : BuilderP.Inv st ->
    Inv (replay st) /\ free (replay st) = [] /\
    view (replay st) = ComposeBuilder.bview A f (pc_of (replay st)) st.
  Proof.
    intros I. destruct (ComposeBuilderP.inv_facts st I) as [[r [Hr0 Hrp]] [Hpar Hlk]].
    unfold replay. destruct (Builder.s_nodes st) as [|r0 rest] eqn:El; [discriminate|]. cbn in Hr0. injection Hr0 as ->.
    rewrite brun_app.
    assert (H0 : NodesOK [r] (init (f (Validity.n_op r)) tt)).
    { destruct (init_inv (f (Validity.n_op r)) tt) as [HI _]. split; [exact HI|]. repeat split.
      intros [|i] nd Hi; [|destruct i; discriminate]. cbn in Hi. injection Hi as <-.
      eexists. split; [reflexivity|]. repeat split. }
    destruct (nodes_phase rest [r] _ ltac:(discriminate) H0) as [HN1 HL1].
    { intros i nd Hi. apply Hpar. exact Hi. }
    { reflexivity. }
    destruct (links_phase (r :: rest) (Builder.s_links st) _ [] HN1) as [HN2 HL2].
    { intros e He. apply Hlk. exact He. }
    { exact HL1. }
    cbn [app] in HN2, HL2. set (h := brun (brun (init (f (Validity.n_op r)) tt) (map ncmd rest)) (map lcmd (Builder.s_links st))) in *.
    destruct HN2 as (HI & Hf & Hlen & Hroot & Hsh). split; [exact HI|]. split; [exact Hf|].
    unfold view, ComposeBuilder.bview. rewrite El. f_equal.
    - apply nth_error_ext.
      + now rewrite !map_length, ComposeBuilderP.mapi_from_length.
      + intros i Hi. rewrite map_length in Hi. rewrite !nth_error_map, ComposeBuilderP.mapi_from_nth. cbn [Nat.add].
        destruct (nth_error (r :: rest) i) as [nd|] eqn:En; [|apply nth_error_None in En; lia].
        destruct (Hsh i nd En) as (d & Ed & (S1 & S2 & S3 & S4)).
        assert (Eg : nth_error (nodes h) i = Some (Some d)).
        { unfold Graph.get_node in Ed. destruct (nth_error (nodes h) i) as [[d'|]|]; congruence. }
        rewrite Eg. cbn [option_map]. f_equal. f_equal.
        unfold vnode, ComposeBuilder.bnode, pc_of. rewrite Ed. cbn [fst snd]. rewrite S1, S2, S3. destruct (nd_meta d). reflexivity.
    - exact Hroot.
    - unfold q_links. rewrite HL2. cbn [app]. rewrite map_map. apply map_ext. intros e. apply vlink_glink.
  Qed.
End Replay.
