(* C03 — proofs about model/NodeParent.v: when the certificate `pclosed root names` holds, every definition named
   in `names` gives the same verdict on an object whatever integer its `parent` member holds (for every fuel). *)
From Coq Require Import List Bool ZArith String Ascii Arith Lia Wf_nat.
Import ListNotations.
From HV Require Import lib.Harness model.Schema proofs.SchemaP.
From HV Require Import model.NodeParent.
Open Scope string_scope.

Lemma lookup_none_of_keys (P : string -> bool) kvs k :
  forallb P (keys kvs) = true -> P k = false -> lookup k kvs = None.
Proof.
  intros H Hk. apply lookup_None. intros Hin. rewrite forallb_forall in H. rewrite (H _ Hin) in Hk. discriminate.
Qed.

Lemma chk_type_num t a b : chk_type t (JNum a) = chk_type t (JNum b).
Proof.
  destruct t as [[]|]; reflexivity.
Qed.

Lemma type_only_num f root s a b : type_only s = true -> validates f root s (JNum a) = validates f root s (JNum b).
Proof.
  intros H. destruct f as [|f]; destruct s as [| | | | | |sk]; try reflexivity.
  cbn [type_only validates] in *. unfold chk_object.
  rewrite (lookup_none_of_keys _ sk "const" H eq_refl).
  rewrite (lookup_none_of_keys _ sk "enum" H eq_refl).
  rewrite (lookup_none_of_keys _ sk "minItems" H eq_refl).
  rewrite (lookup_none_of_keys _ sk "maxItems" H eq_refl).
  rewrite (lookup_none_of_keys _ sk "uniqueItems" H eq_refl).
  rewrite (lookup_none_of_keys _ sk "pattern" H eq_refl).
  rewrite (lookup_none_of_keys _ sk "required" H eq_refl).
  rewrite (lookup_none_of_keys _ sk "properties" H eq_refl).
  rewrite (lookup_none_of_keys _ sk "additionalProperties" H eq_refl).
  rewrite (lookup_none_of_keys _ sk "prefixItems" H eq_refl).
  rewrite (lookup_none_of_keys _ sk "items" H eq_refl).
  rewrite (lookup_none_of_keys _ sk "anyOf" H eq_refl).
  rewrite (lookup_none_of_keys _ sk "oneOf" H eq_refl).
  rewrite (lookup_none_of_keys _ sk "$ref" H eq_refl).
  rewrite (chk_type_num _ a b). reflexivity.
Qed.

Definition pnode (a : Z) (kvs : obj) : json := JObj (("parent", JNum a) :: kvs).

Lemma absent_None k kvs : absent k kvs = true -> lookup k kvs = None.
Proof. unfold absent. now destruct (lookup k kvs). Qed.
Lemma mem_In r names : mem String.eqb r names = true -> In r names.
Proof. intros H. destruct (mem_spec String.eqb String.eqb_spec r names); [assumption|discriminate]. Qed.
Lemma In_mem r names : In r names -> mem String.eqb r names = true.
Proof. intros H. destruct (mem_spec String.eqb String.eqb_spec r names); [reflexivity|contradiction]. Qed.

Section OneObject.
  Variable V : json -> json -> bool.
  Variable root : json.
  Variable names : list string.
  Variables (a b : Z) (kvs : obj).
  Hypothesis HVnum : forall s, type_only s = true -> V s (JNum a) = V s (JNum b).
  Hypothesis HVref : forall s, ref_in names s = true -> V s (pnode a kvs) = V s (pnode b kvs).
  Hypothesis HVres : forall r t, In r names -> resolve root r = Some t -> V t (pnode a kvs) = V t (pnode b kvs).

  Lemma chk_object_parent_indep sk :
    plocal names (JObj sk) = true -> chk_object V root sk (pnode a kvs) = chk_object V root sk (pnode b kvs).
  Proof.
    cbn [plocal]. intros H.
    apply andb_true_iff in H as [H Href]. apply andb_true_iff in H as [H Hone]. apply andb_true_iff in H as [H Haddl].
    apply andb_true_iff in H as [H Hprops]. apply andb_true_iff in H as [H Hany]. apply andb_true_iff in H as [Hconst Henum].
    unfold chk_object.
    rewrite (absent_None _ _ Hconst), (absent_None _ _ Henum), (absent_None _ _ Hany).
    assert (E1 : chk_type (lookup "type" sk) (pnode a kvs) = chk_type (lookup "type" sk) (pnode b kvs))
      by (destruct (lookup "type" sk) as [[]|]; reflexivity).
    assert (E2 : chk_min (lookup "minItems" sk) (pnode a kvs) = chk_min (lookup "minItems" sk) (pnode b kvs))
      by (destruct (lookup "minItems" sk) as [[]|]; reflexivity).
    assert (E3 : chk_max (lookup "maxItems" sk) (pnode a kvs) = chk_max (lookup "maxItems" sk) (pnode b kvs))
      by (destruct (lookup "maxItems" sk) as [[]|]; reflexivity).
    assert (E4 : chk_unique (lookup "uniqueItems" sk) (pnode a kvs) = chk_unique (lookup "uniqueItems" sk) (pnode b kvs))
      by (destruct (lookup "uniqueItems" sk) as [[| [] | | | | |]|]; reflexivity).
    assert (E5 : chk_pattern (lookup "pattern" sk) (pnode a kvs) = chk_pattern (lookup "pattern" sk) (pnode b kvs))
      by (destruct (lookup "pattern" sk) as [[]|]; try reflexivity; cbn; destruct (_ =? _); reflexivity).
    assert (E6 : chk_required (lookup "required" sk) (pnode a kvs) = chk_required (lookup "required" sk) (pnode b kvs)).
    { destruct (lookup "required" sk) as [[]|]; try reflexivity. cbn [chk_required pnode].
      apply forallb_ext'. intros []; try reflexivity. unfold has_key. cbn [lookup]. destruct (_ =? _); reflexivity. }
    assert (E7 : chk_props V (lookup "properties" sk) (pnode a kvs) = chk_props V (lookup "properties" sk) (pnode b kvs)).
    { destruct (lookup "properties" sk) as [[| | | | | |ps]|]; try reflexivity.
      cbn [chk_props pnode forallb fst snd]. f_equal.
      destruct (lookup "parent" ps) as [sp|]; [now apply HVnum|reflexivity]. }
    assert (E8 : chk_addl V (lookup "properties" sk) (lookup "additionalProperties" sk) (pnode a kvs) =
                 chk_addl V (lookup "properties" sk) (lookup "additionalProperties" sk) (pnode b kvs)).
    { destruct (lookup "additionalProperties" sk) as [sa|]; [|reflexivity].
      cbn [chk_addl pnode forallb fst snd]. f_equal.
      destruct (in_props "parent" (lookup "properties" sk)); [reflexivity|]. cbn in Haddl. now apply HVnum. }
    assert (E9 : chk_prefix V (lookup "prefixItems" sk) (pnode a kvs) = chk_prefix V (lookup "prefixItems" sk) (pnode b kvs))
      by (destruct (lookup "prefixItems" sk) as [[]|]; reflexivity).
    assert (E10 : chk_items V (lookup "prefixItems" sk) (lookup "items" sk) (pnode a kvs) =
                  chk_items V (lookup "prefixItems" sk) (lookup "items" sk) (pnode b kvs))
      by (destruct (lookup "items" sk); reflexivity).
    assert (E11 : chk_oneOf V (lookup "oneOf" sk) (pnode a kvs) = chk_oneOf V (lookup "oneOf" sk) (pnode b kvs)).
    { destruct (lookup "oneOf" sk) as [[| | | | |ss|]|]; try reflexivity. cbn [chk_oneOf]. do 2 f_equal.
      apply map_ext_in. intros s Hs. apply HVref. rewrite forallb_forall in Hone. now apply Hone. }
    assert (E12 : chk_ref V root (lookup "$ref" sk) (pnode a kvs) = chk_ref V root (lookup "$ref" sk) (pnode b kvs)).
    { destruct (lookup "$ref" sk) as [[| | | |r| |]|]; try reflexivity. cbn [chk_ref].
      destruct (resolve root r) as [t|] eqn:Er; [|reflexivity]. apply (HVres r); [now apply mem_In|assumption]. }
    rewrite E1, E2, E3, E4, E5, E6, E7, E8, E9, E10, E11, E12. reflexivity.
  Qed.
End OneObject.

Section Indep.
  Variable root : json.
  Variable names : list string.
  Hypothesis Hclosed : pclosed root names = true.

  Lemma closed_local r t : In r names -> resolve root r = Some t -> plocal names t = true.
  Proof.
    intros Hr Ht. unfold pclosed in Hclosed. rewrite forallb_forall in Hclosed. specialize (Hclosed r Hr).
    now rewrite Ht in Hclosed.
  Qed.

  (* every named definition gives the same verdict on an object whatever integer its `parent` member holds *)
  Theorem parent_indep : forall f r t, In r names -> resolve root r = Some t ->
    forall a b kvs, validates f root t (pnode a kvs) = validates f root t (pnode b kvs).
  Proof.
    induction f as [f IH] using lt_wf_ind. intros r t Hr Ht a b kvs.
    pose proof (closed_local r t Hr Ht) as Hloc.
    destruct f as [|f]; destruct t as [| | | | | |sk]; try reflexivity.
    cbn [validates]. apply (chk_object_parent_indep _ root names); [| | |exact Hloc].
    - intros s Hs. now apply type_only_num.
    - intros s Hs. destruct s as [| | | | | |[|[k [| | | |r'| |]] [|]]]; try discriminate.
      cbn in Hs. apply andb_true_iff in Hs as [Hk Hm]. apply String.eqb_eq in Hk. subst k.
      destruct f as [|g]; [reflexivity|]. cbn [validates]. unfold chk_object. cbn.
      destruct (resolve root r') as [t'|] eqn:Er; [|reflexivity].
      rewrite (IH g (ltac:(lia)) r' t' (mem_In _ _ Hm) Er a b kvs). reflexivity.
    - intros r' t' Hr' Ht'. apply (IH f (ltac:(lia)) r' t' Hr' Ht').
  Qed.
End Indep.

(* consequence for `accepts`: if `name`'s $ref is in a closed set, acceptance of an object does not depend on the
   integer in its parent member *)
Corollary accepts_parent_indep root names name :
  pclosed root names = true -> In (ref_prefix ++ name) names ->
  forall f a b kvs, accepts f root name (pnode a kvs) = accepts f root name (pnode b kvs).
Proof.
  intros Hc Hin f a b kvs. unfold accepts, entry. remember (ref_prefix ++ name) as r eqn:Hr_. clear Hr_.
  destruct f as [|f]; [reflexivity|].
  cbn [validates]. unfold chk_object. cbn.
  destruct (resolve root r) as [t|] eqn:Er; [|reflexivity].
  rewrite (parent_indep root names Hc f _ t Hin Er a b kvs). reflexivity.
Qed.
