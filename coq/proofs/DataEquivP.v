(* C03 — validation does not distinguish documents that are equal as JSON data (objects as maps):
   data_equiv d1 d2 = true -> validates fuel root s d1 = validates fuel root s d2.
   With it the per-case tie `data_equiv (doc_json model_document) emitted_document` carries the schema-validity
   theorem over to the document hugr-py emitted. *)
From Coq Require Import List Bool ZArith String Ascii Arith Lia.
Import ListNotations.
From HV Require Import lib.Harness model.Schema proofs.SchemaP.
Open Scope string_scope.

(* ------------------------------------------------------------------ data_equiv is symmetric and transitive *)
Lemma data_equiv_obj x y : data_equiv (JObj x) (JObj y) = maprel (fun _ => data_equiv) x y.
Proof. reflexivity. Qed.
Lemma data_equiv_arr x y : data_equiv (JArr x) (JArr y) = list_rel data_equiv x y.
Proof. reflexivity. Qed.

Lemma maprel_parts R x y : maprel R x y = true ->
  List.length x = List.length y /\ NoDup (keys x) /\ NoDup (keys y) /\
  (forall k v, In (k, v) x -> exists w, lookup k y = Some w /\ R k v w = true).
Proof.
  unfold maprel. intros H.
  apply andb_true_iff in H as [H Hall]. apply andb_true_iff in H as [H Hny]. apply andb_true_iff in H as [Hlen Hnx].
  apply Nat.eqb_eq in Hlen. apply nodupkeys_NoDup in Hnx. apply nodupkeys_NoDup in Hny.
  repeat split; try assumption. intros k v Hin. rewrite forallb_forall in Hall. specialize (Hall _ Hin). cbn in Hall.
  destruct (lookup k y) as [w|]; [eauto|discriminate].
Qed.
Lemma NoDup_nodupkeys o : NoDup (keys o) -> nodupkeys o = true.
Proof.
  unfold nodupkeys. intros H. destruct (nodupb_spec String.eqb String.eqb_spec (keys o)); [reflexivity|contradiction].
Qed.
Lemma maprel_intro (R : string -> json -> json -> bool) x y :
  List.length x = List.length y -> NoDup (keys x) -> NoDup (keys y) ->
  (forall k v, In (k, v) x -> exists w, lookup k y = Some w /\ R k v w = true) -> maprel R x y = true.
Proof.
  intros Hl Hx Hy H. unfold maprel. rewrite Hl, Nat.eqb_refl, (NoDup_nodupkeys _ Hx), (NoDup_nodupkeys _ Hy). cbn.
  apply forallb_forall. intros [k v] Hin. cbn. destruct (H k v Hin) as [w [-> Hw]]. exact Hw.
Qed.

Lemma data_equiv_sym : forall a b, data_equiv a b = true -> data_equiv b a = true.
Proof.
  induction a as [| | | | |l IH|kvs IH] using json_ind2; intros [] H; cbn in H; try discriminate; try reflexivity.
  - cbn. apply Bool.eqb_prop in H. subst. apply Bool.eqb_reflx.
  - cbn. apply Z.eqb_eq in H. subst. apply Z.eqb_refl.
  - cbn. apply String.eqb_eq in H. subst. apply String.eqb_refl.
  - cbn. apply String.eqb_eq in H. subst. apply String.eqb_refl.
  - rewrite data_equiv_arr. revert l0 H. induction IH as [|x r Hx _ IHr]; intros [|y s] H; cbn in H |- *; try discriminate; [reflexivity|].
    apply andb_true_iff in H as [H1 H2]. rewrite (Hx _ H1), (IHr _ H2). reflexivity.
  - rewrite data_equiv_obj. apply maprel_parts in H as (Hl & Hx & Hy & Hall).
    apply maprel_intro; try assumption; [now symmetry|]. intros k w Hin.
    pose proof (lookup_In _ _ _ Hy Hin) as Hw.
    (* k is a key of kvs as well: the key sets are equal *)
    assert (Hk : In k (keys kvs)).
    { assert (Hincl : incl (keys kvs) (keys kvs0)).
      { intros k' Hk'. apply In_keys_lookup in Hk' as [v' Hv']. apply lookup_Some_In in Hv'.
        destruct (Hall _ _ Hv') as [w' [Hw' _]]. eapply lookup_In_keys; eauto. }
      apply (NoDup_length_incl Hx) in Hincl; [|rewrite !keys_length; lia]. apply Hincl. eapply lookup_In_keys; eauto. }
    apply In_keys_lookup in Hk as [v Hv]. exists v. split; [exact Hv|].
    pose proof (lookup_Some_In _ _ _ Hv) as Hvin. destruct (Hall _ _ Hvin) as [w' [Hw' Hr]].
    rewrite Hw in Hw'. injection Hw' as <-.
    rewrite Forall_forall in IH. exact (IH _ Hvin _ Hr).
Qed.

Lemma data_equiv_trans : forall a b c, data_equiv a b = true -> data_equiv b c = true -> data_equiv a c = true.
Proof.
  induction a as [| | | | |l IH|kvs IH] using json_ind2; intros [] [] H1 H2; cbn in H1, H2; try discriminate; try reflexivity.
  - cbn. apply Bool.eqb_prop in H1, H2. subst. apply Bool.eqb_reflx.
  - cbn. apply Z.eqb_eq in H1, H2. subst. apply Z.eqb_refl.
  - cbn. apply String.eqb_eq in H1, H2. subst. apply String.eqb_refl.
  - cbn. apply String.eqb_eq in H1, H2. subst. apply String.eqb_refl.
  - rewrite data_equiv_arr. revert l0 l1 H1 H2.
    induction IH as [|x r Hx _ IHr]; intros [|y s] [|z t] H1 H2; cbn in H1, H2 |- *; try discriminate; [reflexivity|].
    apply andb_true_iff in H1 as [A1 A2]. apply andb_true_iff in H2 as [B1 B2].
    rewrite (Hx _ _ A1 B1), (IHr _ _ A2 B2). reflexivity.
  - rewrite data_equiv_obj. apply maprel_parts in H1 as (Hl1 & Hx & Hy & Hall1). apply maprel_parts in H2 as (Hl2 & _ & Hz & Hall2).
    apply maprel_intro; try assumption; [congruence|]. intros k v Hin.
    destruct (Hall1 _ _ Hin) as [w [Hw Hr1]]. apply lookup_Some_In in Hw.
    destruct (Hall2 _ _ Hw) as [u [Hu Hr2]]. exists u. split; [exact Hu|].
    rewrite Forall_forall in IH. exact (IH _ Hin _ _ Hr1 Hr2).
Qed.

(* consequences used below *)
Lemma data_equiv_right c d1 d2 : data_equiv d1 d2 = true -> data_equiv c d1 = data_equiv c d2.
Proof.
  intros H. apply eq_true_iff_eq. split; intros Hc.
  - eapply data_equiv_trans; eauto.
  - eapply data_equiv_trans; [exact Hc|]. now apply data_equiv_sym.
Qed.
Lemma data_equiv_left c d1 d2 : data_equiv d1 d2 = true -> data_equiv d1 c = data_equiv d2 c.
Proof.
  intros H. apply eq_true_iff_eq. split; intros Hc.
  - eapply data_equiv_trans; [apply data_equiv_sym; exact H|exact Hc].
  - eapply data_equiv_trans; eauto.
Qed.
Lemma mem_data_equiv x y xs ys :
  data_equiv x y = true -> list_rel data_equiv xs ys = true -> mem data_equiv x xs = mem data_equiv y ys.
Proof.
  intros Hxy. revert ys. induction xs as [|a r IH]; intros [|b s] H; cbn in H |- *; try discriminate; [reflexivity|].
  apply andb_true_iff in H as [H1 H2]. rewrite (IH _ H2). f_equal.
  rewrite (data_equiv_left a x y Hxy). now apply data_equiv_right.
Qed.
Lemma nodupb_data_equiv xs ys : list_rel data_equiv xs ys = true -> nodupb data_equiv xs = nodupb data_equiv ys.
Proof.
  revert ys. induction xs as [|a r IH]; intros [|b s] H; cbn in H |- *; try discriminate; [reflexivity|].
  apply andb_true_iff in H as [H1 H2]. rewrite (IH _ H2), (mem_data_equiv a b r s H1 H2). reflexivity.
Qed.
Lemma list_rel_skipn R n xs ys : list_rel R xs ys = true -> list_rel R (skipn n xs) (skipn n ys) = true.
Proof.
  revert xs ys. induction n as [|n IH]; intros xs ys H; [exact H|].
  destruct xs as [|x xs], ys as [|y ys]; cbn in H |- *; try discriminate; [reflexivity|].
  apply andb_true_iff in H as [_ H]. now apply IH.
Qed.

Section OneObject.
  Variable V : json -> json -> bool.
  Variable root : json.
  Hypothesis HV : forall s d1 d2, data_equiv d1 d2 = true -> V s d1 = V s d2.

  Lemma forallb_rel (s : json) xs ys : list_rel data_equiv xs ys = true -> forallb (V s) xs = forallb (V s) ys.
  Proof.
    revert ys. induction xs as [|a r IH]; intros [|b t] H; cbn in H |- *; try discriminate; [reflexivity|].
    apply andb_true_iff in H as [H1 H2]. now rewrite (HV s a b H1), (IH _ H2).
  Qed.
  Lemma zip_rel ps xs ys : list_rel data_equiv xs ys = true -> zip_with V ps xs = zip_with V ps ys.
  Proof.
    revert xs ys. induction ps as [|p r IH]; intros [|a xs] [|b ys] H; cbn in H |- *; try discriminate; try reflexivity.
    apply andb_true_iff in H as [H1 H2]. now rewrite (HV p a b H1), (IH _ _ H2).
  Qed.

  (* members of two objects related as maps: a predicate on (key, value) that respects data_equiv holds of all
     members of the one iff of all members of the other *)
  Lemma forallb_maprel (P : string -> json -> bool) x y :
    (forall k v w, data_equiv v w = true -> P k v = P k w) ->
    maprel (fun _ => data_equiv) x y = true ->
    forallb (fun kv => P (fst kv) (snd kv)) x = forallb (fun kv => P (fst kv) (snd kv)) y.
  Proof.
    intros HP H. pose proof H as Hxy. apply maprel_parts in H as (Hl & Hx & Hy & Hall).
    assert (Hyx : maprel (fun _ => data_equiv) y x = true).
    { rewrite <- data_equiv_obj. apply data_equiv_sym. now rewrite data_equiv_obj. }
    apply maprel_parts in Hyx as (_ & _ & _ & Hall').
    apply eq_true_iff_eq. rewrite !forallb_forall. split; intros HA [k v] Hin; cbn.
    - destruct (Hall' _ _ Hin) as [w [Hw Hr]]. apply lookup_Some_In in Hw. specialize (HA _ Hw). cbn in HA.
      now rewrite (HP k v w Hr).
    - destruct (Hall _ _ Hin) as [w [Hw Hr]]. apply lookup_Some_In in Hw. specialize (HA _ Hw). cbn in HA.
      now rewrite (HP k v w Hr).
  Qed.
  Lemma has_key_maprel n x y : maprel (fun _ => data_equiv) x y = true -> has_key n x = has_key n y.
  Proof.
    intros H. unfold has_key. pose proof (maprel_spec _ _ _ H n) as Hn.
    destruct (lookup n x), (lookup n y); cbn in Hn; tauto.
  Qed.

  Lemma chk_object_data_equiv kvs d1 d2 :
    data_equiv d1 d2 = true -> chk_object V root kvs d1 = chk_object V root kvs d2.
  Proof.
    intros H. unfold chk_object.
    assert (Eany : chk_anyOf V (lookup "anyOf" kvs) d1 = chk_anyOf V (lookup "anyOf" kvs) d2).
    { destruct (lookup "anyOf" kvs) as [[]|]; try reflexivity. cbn. f_equal. apply map_ext. intros s. now apply HV. }
    assert (Eone : chk_oneOf V (lookup "oneOf" kvs) d1 = chk_oneOf V (lookup "oneOf" kvs) d2).
    { destruct (lookup "oneOf" kvs) as [[]|]; try reflexivity. cbn. do 2 f_equal. apply map_ext. intros s. now apply HV. }
    assert (Eref : chk_ref V root (lookup "$ref" kvs) d1 = chk_ref V root (lookup "$ref" kvs) d2).
    { destruct (lookup "$ref" kvs) as [[]|]; try reflexivity. cbn. destruct (resolve root s); [now apply HV|reflexivity]. }
    assert (Econst : chk_const (lookup "const" kvs) d1 = chk_const (lookup "const" kvs) d2).
    { destruct (lookup "const" kvs); [|reflexivity]. cbn. now apply data_equiv_right. }
    assert (Eenum : chk_enum (lookup "enum" kvs) d1 = chk_enum (lookup "enum" kvs) d2).
    { destruct (lookup "enum" kvs) as [[]|]; try reflexivity. cbn.
      induction l as [|e r IH]; cbn; [reflexivity|]. now rewrite (data_equiv_right e d1 d2 H), IH. }
    rewrite Eany, Eone, Eref, Econst, Eenum. clear Eany Eone Eref Econst Eenum.
    destruct d1 as [|b1|z1|s1|s1|xs|x], d2 as [|b2|z2|s2|s2|ys|y]; cbn in H; try discriminate.
    - reflexivity.
    - apply Bool.eqb_prop in H. now subst.
    - apply Z.eqb_eq in H. now subst.
    - apply String.eqb_eq in H. now subst.
    - apply String.eqb_eq in H. now subst.
    - (* arrays *)
      assert (E1 : chk_type (lookup "type" kvs) (JArr xs) = chk_type (lookup "type" kvs) (JArr ys))
        by (destruct (lookup "type" kvs) as [[]|]; reflexivity).
      assert (E2 : chk_min (lookup "minItems" kvs) (JArr xs) = chk_min (lookup "minItems" kvs) (JArr ys))
        by (destruct (lookup "minItems" kvs) as [[]|]; try reflexivity; cbn; now rewrite (list_rel_length _ _ _ H)).
      assert (E3 : chk_max (lookup "maxItems" kvs) (JArr xs) = chk_max (lookup "maxItems" kvs) (JArr ys))
        by (destruct (lookup "maxItems" kvs) as [[]|]; try reflexivity; cbn; now rewrite (list_rel_length _ _ _ H)).
      assert (E4 : chk_unique (lookup "uniqueItems" kvs) (JArr xs) = chk_unique (lookup "uniqueItems" kvs) (JArr ys))
        by (destruct (lookup "uniqueItems" kvs) as [[| [] | | | | |]|]; try reflexivity; cbn; now apply nodupb_data_equiv).
      assert (E5 : chk_pattern (lookup "pattern" kvs) (JArr xs) = chk_pattern (lookup "pattern" kvs) (JArr ys))
        by (destruct (lookup "pattern" kvs) as [[]|]; try reflexivity; cbn; destruct (_ =? _); reflexivity).
      assert (E6 : chk_required (lookup "required" kvs) (JArr xs) = chk_required (lookup "required" kvs) (JArr ys))
        by (destruct (lookup "required" kvs) as [[]|]; reflexivity).
      assert (E7 : chk_props V (lookup "properties" kvs) (JArr xs) = chk_props V (lookup "properties" kvs) (JArr ys))
        by (destruct (lookup "properties" kvs) as [[]|]; reflexivity).
      assert (E8 : chk_addl V (lookup "properties" kvs) (lookup "additionalProperties" kvs) (JArr xs) =
                   chk_addl V (lookup "properties" kvs) (lookup "additionalProperties" kvs) (JArr ys))
        by (destruct (lookup "additionalProperties" kvs); reflexivity).
      assert (E9 : chk_prefix V (lookup "prefixItems" kvs) (JArr xs) = chk_prefix V (lookup "prefixItems" kvs) (JArr ys))
        by (destruct (lookup "prefixItems" kvs) as [[]|]; try reflexivity; cbn; now rewrite (zip_rel _ _ _ H)).
      assert (E10 : chk_items V (lookup "prefixItems" kvs) (lookup "items" kvs) (JArr xs) =
                    chk_items V (lookup "prefixItems" kvs) (lookup "items" kvs) (JArr ys))
        by (destruct (lookup "items" kvs); try reflexivity; cbn; apply forallb_rel; now apply list_rel_skipn).
      rewrite E1, E2, E3, E4, E5, E6, E7, E8, E9, E10. reflexivity.
    - (* objects *)
      assert (E1 : chk_type (lookup "type" kvs) (JObj x) = chk_type (lookup "type" kvs) (JObj y))
        by (destruct (lookup "type" kvs) as [[]|]; reflexivity).
      assert (E2 : chk_min (lookup "minItems" kvs) (JObj x) = chk_min (lookup "minItems" kvs) (JObj y))
        by (destruct (lookup "minItems" kvs) as [[]|]; reflexivity).
      assert (E3 : chk_max (lookup "maxItems" kvs) (JObj x) = chk_max (lookup "maxItems" kvs) (JObj y))
        by (destruct (lookup "maxItems" kvs) as [[]|]; reflexivity).
      assert (E4 : chk_unique (lookup "uniqueItems" kvs) (JObj x) = chk_unique (lookup "uniqueItems" kvs) (JObj y))
        by (destruct (lookup "uniqueItems" kvs) as [[| [] | | | | |]|]; reflexivity).
      assert (E5 : chk_pattern (lookup "pattern" kvs) (JObj x) = chk_pattern (lookup "pattern" kvs) (JObj y))
        by (destruct (lookup "pattern" kvs) as [[]|]; try reflexivity; cbn; destruct (_ =? _); reflexivity).
      assert (E6 : chk_required (lookup "required" kvs) (JObj x) = chk_required (lookup "required" kvs) (JObj y)).
      { destruct (lookup "required" kvs) as [[]|]; try reflexivity. cbn. apply forallb_ext'. intros []; try reflexivity.
        now apply has_key_maprel. }
      assert (E7 : chk_props V (lookup "properties" kvs) (JObj x) = chk_props V (lookup "properties" kvs) (JObj y)).
      { destruct (lookup "properties" kvs) as [[| | | | | |ps]|]; try reflexivity. cbn.
        apply (forallb_maprel (fun k v => match lookup k ps with Some s => V s v | None => true end)); [|exact H].
        intros k v w Hvw. destruct (lookup k ps); [now apply HV|reflexivity]. }
      assert (E8 : chk_addl V (lookup "properties" kvs) (lookup "additionalProperties" kvs) (JObj x) =
                   chk_addl V (lookup "properties" kvs) (lookup "additionalProperties" kvs) (JObj y)).
      { destruct (lookup "additionalProperties" kvs) as [sa|]; [|reflexivity]. cbn.
        apply (forallb_maprel (fun k v => if in_props k (lookup "properties" kvs) then true else V sa v)); [|exact H].
        intros k v w Hvw. destruct (in_props k (lookup "properties" kvs)); [reflexivity|now apply HV]. }
      assert (E9 : chk_prefix V (lookup "prefixItems" kvs) (JObj x) = chk_prefix V (lookup "prefixItems" kvs) (JObj y))
        by (destruct (lookup "prefixItems" kvs) as [[]|]; reflexivity).
      assert (E10 : chk_items V (lookup "prefixItems" kvs) (lookup "items" kvs) (JObj x) =
                    chk_items V (lookup "prefixItems" kvs) (lookup "items" kvs) (JObj y))
        by (destruct (lookup "items" kvs); reflexivity).
      rewrite E1, E2, E3, E4, E5, E6, E7, E8, E9, E10. reflexivity.
  Qed.
End OneObject.

Theorem validates_data_equiv : forall fuel root s d1 d2,
  data_equiv d1 d2 = true -> validates fuel root s d1 = validates fuel root s d2.
Proof.
  induction fuel as [|f IH]; intros root s d1 d2 H; destruct s as [| | | | | |kvs]; try reflexivity.
  cbn [validates]. apply chk_object_data_equiv; [|exact H]. intros s' a b Hab. now apply IH.
Qed.
Corollary accepts_data_equiv : forall fuel root name d1 d2,
  data_equiv d1 d2 = true -> accepts fuel root name d1 = accepts fuel root name d2.
Proof. intros. now apply validates_data_equiv. Qed.
