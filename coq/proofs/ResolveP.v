(* C11 — proofs about model/Resolve.v against spec/ResolveS.v. *)
From Coq Require Import NArith List Bool Arith Lia.
Import ListNotations.
From HV Require Import lib.Harness model.Types model.Resolve spec.ResolveS.

(* ------------------------------------------------------------------ lists *)
Lemma Forall_Forall2_map {A B} (R : A -> B -> Prop) (f : A -> B) l :
  Forall (fun x => R x (f x)) l -> Forall2 R l (map f l).
Proof. induction 1; cbn; constructor; auto. Qed.
Lemma Forall_map_id {A} (f : A -> A) l : Forall (fun x => f x = x) l -> map f l = l.
Proof. induction 1; cbn; congruence. Qed.
Lemma Forall_map_eq {A B} (f g : A -> B) l : Forall (fun x => f x = g x) l -> map f l = map g l.
Proof. induction 1; cbn; congruence. Qed.
Lemma Forall_impl2 {A} (P Q R : A -> Prop) l :
  (forall x, P x -> Q x -> R x) -> Forall P l -> Forall Q l -> Forall R l.
Proof. intros H HP. induction HP; intros HQ; inversion HQ; subst; constructor; auto. Qed.
Lemma forallb_Forall {A} (f : A -> bool) l : forallb f l = true <-> Forall (fun x => f x = true) l.
Proof. rewrite forallb_forall, Forall_forall. reflexivity. Qed.
Lemma omap_ext {A B} (f g : A -> option B) l : Forall (fun x => f x = g x) l -> omap f l = omap g l.
Proof. induction 1 as [|x l Hx _ IH]; cbn; [reflexivity|]. rewrite Hx, IH. reflexivity. Qed.
Lemma omap_map {A B C} (f : B -> option C) (g : A -> B) l : omap f (map g l) = omap (fun x => f (g x)) l.
Proof. induction l as [|x l IH]; cbn; [reflexivity|]. rewrite IH. reflexivity. Qed.

(* both induction principles of Types.v at once *)
Lemma ty_both_ind (P : ty -> Prop) (Q : tyarg -> Prop) :
  (forall rows, Forall (Forall P) rows -> P (TSum rows)) ->
  (forall n, P (TUnitSum n)) -> (forall i b, P (TVar i b)) -> (forall i b, P (TRowVar i b)) ->
  P TUSize -> P TQubit -> (forall n b, P (TAlias n b)) ->
  (forall i o r, Forall P i -> Forall P o -> P (TFunc i o r)) ->
  (forall ps i o r, Forall P i -> Forall P o -> P (TPoly ps i o r)) ->
  (forall e id args b, Forall Q args -> P (TOpaque e id args b)) ->
  (forall d args c, Forall Q args -> P (TExt d args c)) ->
  (forall t, P t -> Q (AType t)) -> (forall n, Q (ANat n)) -> (forall s, Q (AString s)) ->
  (forall l, Forall Q l -> Q (ASeq l)) -> (forall es, Q (AExts es)) -> (forall i p, Q (AVar i p)) ->
  (forall t, P t) /\ (forall a, Q a).
Proof. intros. split; [apply (ty_ind2 P Q)|apply (tyarg_ind2 P Q)]; assumption. Qed.

(* ------------------------------------------------------------------ dictionaries *)
Lemma dget_In {V} (d : list (name * V)) k v : dget d k = Some v -> In (k, v) d.
Proof.
  induction d as [|[k' v'] d IH]; cbn; [discriminate|].
  destruct (N.eqb_spec k' k) as [->|Hne]; intros H; [injection H as ->; now left|right; auto].
Qed.
Lemma dget_None {V} (d : list (name * V)) k : dget d k = None -> forall v, ~ In (k, v) d.
Proof.
  induction d as [|[k' v'] d IH]; cbn; [tauto|].
  destruct (N.eqb_spec k' k) as [->|Hne]; [discriminate|].
  intros H v [E|E]; [congruence|exact (IH H v E)].
Qed.
Lemma dget_NoDup {V} (d : list (name * V)) k v : NoDup (map fst d) -> In (k, v) d -> dget d k = Some v.
Proof.
  induction d as [|[k' v'] d IH]; cbn; [tauto|]. intros Hnd Hin. inversion Hnd as [|? ? Hnotin Hnd']; subst.
  destruct Hin as [E|Hin].
  - injection E as -> ->. now rewrite N.eqb_refl.
  - destruct (N.eqb_spec k' k) as [->|Hne]; [|auto].
    exfalso. apply Hnotin. apply (in_map fst) in Hin. exact Hin.
Qed.
Lemma select_In {V} (d : list (name * V)) k v : In v (select k d) <-> In (k, v) d.
Proof.
  unfold select. rewrite in_flat_map. split.
  - intros [[k' v'] [Hin H]]. cbn in H. destruct (N.eqb_spec k' k) as [->|]; [|contradiction].
    destruct H as [->|[]]. exact Hin.
  - intros Hin. exists (k, v). split; [exact Hin|]. cbn. rewrite N.eqb_refl. now left.
Qed.
Lemma In_defs_ty reg e id d : In d (defs_ty reg e id) <-> defines_ty reg e id d.
Proof.
  unfold defs_ty, defines_ty. rewrite in_flat_map. split.
  - intros [x [Hx Hd]]. exists x. apply select_In in Hx. apply select_In in Hd. now split.
  - intros [x [Hx Hd]]. exists x. split; now apply select_In.
Qed.
Lemma In_defs_op reg e nm d : In d (defs_op reg e nm) <-> defines_op reg e nm d.
Proof.
  unfold defs_op, defines_op. rewrite in_flat_map. split.
  - intros [x [Hx Hd]]. exists x. apply select_In in Hx. apply select_In in Hd. now split.
  - intros [x [Hx Hd]]. exists x. split; now apply select_In.
Qed.
Lemma resolvable_ty_b_spec reg e id : resolvable_ty_b reg e id = true <-> resolvable_ty reg e id.
Proof.
  unfold resolvable_ty_b, resolvable_ty. destruct (defs_ty reg e id) as [|d l] eqn:E.
  - split; [discriminate|]. intros [d Hd]. apply In_defs_ty in Hd. rewrite E in Hd. destruct Hd.
  - split; [|reflexivity]. intros _. exists d. apply In_defs_ty. rewrite E. now left.
Qed.
Lemma resolvable_op_b_spec reg e nm : resolvable_op_b reg e nm = true <-> resolvable_op reg e nm.
Proof.
  unfold resolvable_op_b, resolvable_op. destruct (defs_op reg e nm) as [|d l] eqn:E.
  - split; [discriminate|]. intros [d Hd]. apply In_defs_op in Hd. rewrite E in Hd. destruct Hd.
  - split; [|reflexivity]. intros _. exists d. apply In_defs_op. rewrite E. now left.
Qed.

(* the lookups of the code against the registry seen as a set of definitions *)
Lemma lookup_type_defines reg e id d : lookup_type reg e id = Some d -> defines_ty reg e id d.
Proof.
  unfold lookup_type. destruct (dget reg e) as [x|] eqn:Ex; [|discriminate].
  intros H. exists x. split; eauto using dget_In.
Qed.
Lemma defines_lookup_type reg e id d : RegWF reg -> defines_ty reg e id d -> lookup_type reg e id = Some d.
Proof.
  intros [Hnd Hwf] [x [Hx Hd]]. unfold lookup_type. rewrite (dget_NoDup _ _ _ Hnd Hx).
  destruct (Hwf _ _ Hx) as (_ & _ & Hndt & _). exact (dget_NoDup _ _ _ Hndt Hd).
Qed.
Lemma lookup_type_None reg e id : RegWF reg -> lookup_type reg e id = None -> ~ resolvable_ty reg e id.
Proof. intros Hwf H [d Hd]. rewrite (defines_lookup_type _ _ _ _ Hwf Hd) in H. discriminate. Qed.
Lemma lookup_op_defines reg e nm d : lookup_op reg e nm = Some d -> defines_op reg e nm d.
Proof.
  unfold lookup_op. destruct (dget reg e) as [x|] eqn:Ex; [|discriminate].
  intros H. exists x. split; eauto using dget_In.
Qed.
Lemma defines_lookup_op reg e nm d : RegWF reg -> defines_op reg e nm d -> lookup_op reg e nm = Some d.
Proof.
  intros [Hnd Hwf] [x [Hx Hd]]. unfold lookup_op. rewrite (dget_NoDup _ _ _ Hnd Hx).
  destruct (Hwf _ _ Hx) as (_ & _ & _ & Hndo & _). exact (dget_NoDup _ _ _ Hndo Hd).
Qed.
Lemma lookup_op_None reg e nm : RegWF reg -> lookup_op reg e nm = None -> ~ resolvable_op reg e nm.
Proof. intros Hwf H [d Hd]. rewrite (defines_lookup_op _ _ _ _ Hwf Hd) in H. discriminate. Qed.
Lemma defines_ty_names reg e id d : RegWF reg -> defines_ty reg e id d -> td_name d = id /\ td_ext d = e.
Proof. intros [_ Hwf] [x [Hx Hd]]. destruct (Hwf _ _ Hx) as (_ & _ & _ & _ & Ht & _). exact (Ht _ _ Hd). Qed.
Lemma defines_op_names reg e nm d : RegWF reg -> defines_op reg e nm d -> od_name d = nm /\ od_ext d = e /\ e <> empty_name.
Proof.
  intros [_ Hwf] [x [Hx Hd]]. destruct (Hwf _ _ Hx) as (_ & Hne & _ & _ & _ & Ho).
  destruct (Ho _ _ Hd). auto.
Qed.

(* ------------------------------------------------------------------ exactly when defined *)
Lemma opaque_resolves_iff reg e id args b : RegWF reg ->
  ((exists d, defines_ty reg e id d /\
              resolve_ty reg (TOpaque e id args b) = TExt d (map (resolve_arg reg) args) Generic)
   <-> resolvable_ty reg e id).
Proof.
  intros Hwf. split.
  - intros [d [Hd _]]. now exists d.
  - intros [d Hd]. exists d. split; [exact Hd|]. cbn. now rewrite (defines_lookup_type _ _ _ _ Hwf Hd).
Qed.
Lemma opaque_stays_iff reg e id args b : RegWF reg ->
  (resolve_ty reg (TOpaque e id args b) = TOpaque e id (map (resolve_arg reg) args) b
   <-> ~ resolvable_ty reg e id).
Proof.
  intros Hwf. cbn. destruct (lookup_type reg e id) as [d|] eqn:E.
  - split; [discriminate|]. intros H. exfalso. apply H. exists d. now apply lookup_type_defines.
  - split; [|reflexivity]. intros _. now apply lookup_type_None.
Qed.
Lemma custom_resolves_iff reg c : RegWF reg ->
  ((exists d, defines_op reg (c_ext c) (c_name c) d /\
              resolve_op reg (OCustom c) =
              OExt {| x_def := d; x_sig := resolve_ft reg (c_sig c); x_args := map (resolve_arg reg) (c_args c) |})
   <-> resolvable_op reg (c_ext c) (c_name c)).
Proof.
  intros Hwf. split.
  - intros [d [Hd _]]. now exists d.
  - intros [d Hd]. exists d. split; [exact Hd|]. cbn. unfold resolve_custom.
    now rewrite (defines_lookup_op _ _ _ _ Hwf Hd).
Qed.
Lemma custom_stays_iff reg c : RegWF reg ->
  (resolve_op reg (OCustom c) = OCustom c <-> ~ resolvable_op reg (c_ext c) (c_name c)).
Proof.
  intros Hwf. cbn. unfold resolve_custom. destruct (lookup_op reg (c_ext c) (c_name c)) as [d|] eqn:E.
  - split; [discriminate|]. intros H. exfalso. apply H. exists d. now apply lookup_op_defines.
  - split; [|reflexivity]. intros _. now apply lookup_op_None.
Qed.

(* ------------------------------------------------------------------ pointwise characterisation *)
Lemma resolve_pointwise_both reg : RegWF reg ->
  (forall t, RTy reg t (resolve_ty reg t)) /\ (forall a, RArg reg a (resolve_arg reg a)).
Proof.
  intros Hwf. apply ty_both_ind; cbn; intros; try (constructor; fail).
  - constructor. apply Forall_Forall2_map. eapply Forall_impl; [|eassumption].
    intros row Hrow. now apply Forall_Forall2_map.
  - constructor; now apply Forall_Forall2_map.
  - constructor; now apply Forall_Forall2_map.
  - destruct (lookup_type reg e id) as [d|] eqn:E.
    + apply ROpaqueDef; [now apply lookup_type_defines|now apply Forall_Forall2_map].
    + apply ROpaqueUndef; [now apply lookup_type_None|now apply Forall_Forall2_map].
  - now constructor.
  - constructor. now apply Forall_Forall2_map.
Qed.
Lemma resolve_pointwise reg t : RegWF reg -> RTy reg t (resolve_ty reg t).
Proof. intros Hwf. now apply resolve_pointwise_both. Qed.
Lemma resolve_arg_pointwise reg a : RegWF reg -> RArg reg a (resolve_arg reg a).
Proof. intros Hwf. now apply resolve_pointwise_both. Qed.
Lemma resolve_op_pointwise reg o : RegWF reg -> ROp reg o (resolve_op reg o).
Proof.
  intros Hwf. destruct o as [c|x|k]; cbn; try constructor.
  unfold resolve_custom. destruct (lookup_op reg (c_ext c) (c_name c)) as [d|] eqn:E.
  - constructor; [now apply lookup_op_defines| |].
    + unfold RFt, resolve_ft; cbn. repeat split; apply Forall_Forall2_map, Forall_forall; intros;
        now apply resolve_pointwise.
    + apply Forall_Forall2_map, Forall_forall; intros; now apply resolve_arg_pointwise.
  - constructor. now apply lookup_op_None.
Qed.

(* ------------------------------------------------------------------ unfolding [everywhere] *)
(* the local loops of [everywhere] are convertible with [forallb] *)
Lemma everywhere_sum f rs : everywhere f (TSum rs) = f (TSum rs) && forallb (forallb (everywhere f)) rs.
Proof. reflexivity. Qed.
Lemma everywhere_func f i o r :
  everywhere f (TFunc i o r) = f (TFunc i o r) && (forallb (everywhere f) i && forallb (everywhere f) o).
Proof. reflexivity. Qed.
Lemma everywhere_poly f ps i o r :
  everywhere f (TPoly ps i o r) = f (TPoly ps i o r) && (forallb (everywhere f) i && forallb (everywhere f) o).
Proof. reflexivity. Qed.
Lemma everywhere_opaque f e id a b :
  everywhere f (TOpaque e id a b) = f (TOpaque e id a b) && forallb (everywhere_arg f) a.
Proof. reflexivity. Qed.
Lemma everywhere_ext f d a c : everywhere f (TExt d a c) = f (TExt d a c) && forallb (everywhere_arg f) a.
Proof. reflexivity. Qed.
Lemma everywhere_seq f l : everywhere_arg f (ASeq l) = forallb (everywhere_arg f) l.
Proof. reflexivity. Qed.

Lemma forallb_map {A B} (f : B -> bool) (g : A -> B) l : forallb f (map g l) = forallb (fun x => f (g x)) l.
Proof. induction l as [|x l IH]; cbn; [reflexivity|]. now rewrite IH. Qed.
Lemma Forall_forallb_imp {A} (P : A -> Prop) (f : A -> bool) l :
  Forall (fun x => f x = true -> P x) l -> forallb f l = true -> Forall P l.
Proof.
  induction 1 as [|x l Hx _ IH]; cbn; intros H; [constructor|].
  apply andb_true_iff in H as [H1 H2]. constructor; auto.
Qed.
Lemma Forall_forallb_imp2 {A} (f g : A -> bool) l :
  Forall (fun x => f x = true -> g x = true) l -> forallb f l = true -> forallb g l = true.
Proof.
  induction 1 as [|x l Hx _ IH]; cbn; intros H; [reflexivity|].
  apply andb_true_iff in H as [H1 H2]. rewrite Hx, IH; auto.
Qed.

(* ------------------------------------------------------------------ idempotence *)
Lemma resolve_idem_both reg :
  (forall t, resolve_ty reg (resolve_ty reg t) = resolve_ty reg t) /\
  (forall a, resolve_arg reg (resolve_arg reg a) = resolve_arg reg a).
Proof.
  apply ty_both_ind; cbn; intros; try reflexivity.
  - f_equal. rewrite map_map. apply Forall_map_eq. eapply Forall_impl; [|eassumption].
    intros row Hrow. rewrite map_map. now apply Forall_map_eq.
  - f_equal; rewrite map_map; now apply Forall_map_eq.
  - f_equal; rewrite map_map; now apply Forall_map_eq.
  - destruct (lookup_type reg e id) as [d|] eqn:E; cbn; [reflexivity|].
    rewrite E. f_equal. rewrite map_map. now apply Forall_map_eq.
  - now f_equal.
  - f_equal. rewrite map_map. now apply Forall_map_eq.
Qed.
Lemma resolve_ty_idem reg t : resolve_ty reg (resolve_ty reg t) = resolve_ty reg t.
Proof. apply resolve_idem_both. Qed.
Lemma resolve_arg_idem reg a : resolve_arg reg (resolve_arg reg a) = resolve_arg reg a.
Proof. apply resolve_idem_both. Qed.
Lemma resolve_op_idem reg o : resolve_op reg (resolve_op reg o) = resolve_op reg o.
Proof.
  destruct o as [c|x|k]; cbn; try reflexivity. unfold resolve_custom.
  destruct (lookup_op reg (c_ext c) (c_name c)) as [d|] eqn:E; cbn; [reflexivity|].
  unfold resolve_custom. now rewrite E.
Qed.
Lemma resolve_hugr_idem reg h : resolve_hugr reg (resolve_hugr reg h) = resolve_hugr reg h.
Proof. unfold resolve_hugr. rewrite map_map. apply map_ext. intros. apply resolve_op_idem. Qed.

(* ------------------------------------------------------------------ untouched otherwise *)
Lemma resolve_clean_both reg :
  (forall t, clean reg t = true -> resolve_ty reg t = t) /\
  (forall a, clean_arg reg a = true -> resolve_arg reg a = a).
Proof.
  unfold clean, clean_arg. apply ty_both_ind; intros; try reflexivity.
  - rewrite everywhere_sum in H0. apply andb_true_iff in H0 as [_ H0]. cbn. f_equal.
    apply Forall_map_id. eapply Forall_forallb_imp; [|exact H0].
    eapply Forall_impl; [|exact H]. intros row Hrow Hc. apply Forall_map_id.
    eapply Forall_forallb_imp; [|exact Hc]. exact Hrow.
  - rewrite everywhere_func in H1. apply andb_true_iff in H1 as [_ H1]. apply andb_true_iff in H1 as [Hi Ho].
    cbn. f_equal; apply Forall_map_id; eapply Forall_forallb_imp; eauto.
  - rewrite everywhere_poly in H1. apply andb_true_iff in H1 as [_ H1]. apply andb_true_iff in H1 as [Hi Ho].
    cbn. f_equal; apply Forall_map_id; eapply Forall_forallb_imp; eauto.
  - rewrite everywhere_opaque in H0. apply andb_true_iff in H0 as [Hh Ha]. cbn in Hh. cbn.
    destruct (lookup_type reg e id) as [d|] eqn:E.
    + exfalso. apply negb_true_iff in Hh. apply lookup_type_defines in E.
      assert (Hr : resolvable_ty_b reg e id = true) by (apply resolvable_ty_b_spec; now exists d).
      congruence.
    + f_equal. apply Forall_map_id. eapply Forall_forallb_imp; eauto.
  - cbn in *. f_equal. auto.
  - rewrite everywhere_seq in H0. cbn. f_equal. apply Forall_map_id. eapply Forall_forallb_imp; eauto.
Qed.
Lemma resolve_clean reg t : clean reg t = true -> resolve_ty reg t = t.
Proof. apply resolve_clean_both. Qed.
Lemma resolve_arg_clean reg a : clean_arg reg a = true -> resolve_arg reg a = a.
Proof. apply resolve_clean_both. Qed.

(* ------------------------------------------------------------------ every depth *)
Lemma resolve_deep_both reg : RegWF reg ->
  (forall t, no_ext t = true -> clean reg (resolve_ty reg t) = true) /\
  (forall a, no_ext_arg a = true -> clean_arg reg (resolve_arg reg a) = true).
Proof.
  intros Hwf. unfold clean, clean_arg, no_ext, no_ext_arg. apply ty_both_ind; intros; try reflexivity.
  - rewrite everywhere_sum in H0. apply andb_true_iff in H0 as [_ H0]. cbn [resolve_ty].
    rewrite everywhere_sum. cbn [unresolvable_here andb]. rewrite forallb_map.
    eapply Forall_forallb_imp2; [|exact H0]. eapply Forall_impl; [|exact H].
    intros row Hrow Hc. rewrite forallb_map. eapply Forall_forallb_imp2; [|exact Hc]. exact Hrow.
  - rewrite everywhere_func in H1. apply andb_true_iff in H1 as [_ H1]. apply andb_true_iff in H1 as [Hi Ho].
    cbn [resolve_ty]. rewrite everywhere_func. cbn [unresolvable_here andb]. rewrite !forallb_map.
    apply andb_true_iff; split; eapply Forall_forallb_imp2; eauto.
  - rewrite everywhere_poly in H1. apply andb_true_iff in H1 as [_ H1]. apply andb_true_iff in H1 as [Hi Ho].
    cbn [resolve_ty]. rewrite everywhere_poly. cbn [unresolvable_here andb]. rewrite !forallb_map.
    apply andb_true_iff; split; eapply Forall_forallb_imp2; eauto.
  - rewrite everywhere_opaque in H0. apply andb_true_iff in H0 as [_ Ha]. cbn [resolve_ty].
    assert (Hargs : forallb (everywhere_arg (unresolvable_here reg)) (map (resolve_arg reg) args) = true).
    { rewrite forallb_map. eapply Forall_forallb_imp2; eauto. }
    destruct (lookup_type reg e id) as [d|] eqn:E.
    + rewrite everywhere_ext. cbn [unresolvable_here andb]. exact Hargs.
    + rewrite everywhere_opaque. cbn [unresolvable_here]. rewrite Hargs, andb_true_r.
      apply negb_true_iff. destruct (resolvable_ty_b reg e id) eqn:Er; [|reflexivity].
      apply resolvable_ty_b_spec in Er. exfalso. eapply lookup_type_None; eauto.
  - rewrite everywhere_ext in H0. cbn in H0. discriminate.
  - cbn in *. auto.
  - rewrite everywhere_seq in H0. cbn [resolve_arg]. rewrite everywhere_seq, forallb_map.
    eapply Forall_forallb_imp2; eauto.
Qed.
Lemma resolve_deep reg t : RegWF reg -> no_ext t = true -> clean reg (resolve_ty reg t) = true.
Proof. intros Hwf. now apply resolve_deep_both. Qed.
Lemma resolve_arg_deep reg a : RegWF reg -> no_ext_arg a = true -> clean_arg reg (resolve_arg reg a) = true.
Proof. intros Hwf. now apply resolve_deep_both. Qed.
