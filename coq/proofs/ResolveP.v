(* C11 — proofs about model/Resolve.v against spec/ResolveS.v. *)
From Coq Require Import NArith List Bool Arith Lia.
Import ListNotations.
From HV Require Import lib.Harness model.Types model.Resolve spec.ResolveS.

(* ------------------------------------------------------------------ lists *)
Lemma Forall_Forall2_map {A B} (R : A -> B -> Prop) (f : A -> B) l :
  Forall (fun x => R x (f x)) l -> Forall2 R l (map f l).
Proof. induction 1; cbn; constructor; auto. Qed.
Lemma Forall_map_id {A} (f : A -> A) l : Forall (fun x => f x = x) l -> map f l = l.
Proof. induction 1; cbn; congruence. Qed.
Lemma Forall_map_eq {A B} (f g : A -> B) l : Forall (fun x => f x = g x) l -> map f l = map g l.
Proof. induction 1; cbn; congruence. Qed.
Lemma Forall_impl2 {A} (P Q R : A -> Prop) l :
  (forall x, P x -> Q x -> R x) -> Forall P l -> Forall Q l -> Forall R l.
Proof. intros H HP. induction HP; intros HQ; inversion HQ; subst; constructor; auto. Qed.
Lemma forallb_Forall {A} (f : A -> bool) l : forallb f l = true <-> Forall (fun x => f x = true) l.
Proof. rewrite forallb_forall, Forall_forall. reflexivity. Qed.
Lemma omap_ext {A B} (f g : A -> option B) l : Forall (fun x => f x = g x) l -> omap f l = omap g l.
Proof. induction 1 as [|x l Hx _ IH]; cbn; [reflexivity|]. rewrite Hx, IH. reflexivity. Qed.
Lemma omap_map {A B C} (f : B -> option C) (g : A -> B) l : omap f (map g l) = omap (fun x => f (g x)) l.
Proof. induction l as [|x l IH]; cbn; [reflexivity|]. rewrite IH. reflexivity. Qed.

(* both induction principles of Types.v at once *)
Lemma ty_both_ind (P : ty -> Prop) (Q : tyarg -> Prop) :
  (forall rows, Forall (Forall P) rows -> P (TSum rows)) ->
  (forall n, P (TUnitSum n)) -> (forall i b, P (TVar i b)) -> (forall i b, P (TRowVar i b)) ->
  P TUSize -> P TQubit -> (forall n b, P (TAlias n b)) ->
  (forall i o r, Forall P i -> Forall P o -> P (TFunc i o r)) ->
  (forall ps i o r, Forall P i -> Forall P o -> P (TPoly ps i o r)) ->
  (forall e id args b, Forall Q args -> P (TOpaque e id args b)) ->
  (forall d args c, Forall Q args -> P (TExt d args c)) ->
  (forall t, P t -> Q (AType t)) -> (forall n, Q (ANat n)) -> (forall s, Q (AString s)) ->
  (forall l, Forall Q l -> Q (ASeq l)) -> (forall es, Q (AExts es)) -> (forall i p, Q (AVar i p)) ->
  (forall t, P t) /\ (forall a, Q a).
Proof. intros. split; [apply (ty_ind2 P Q)|apply (tyarg_ind2 P Q)]; assumption. Qed.

(* ------------------------------------------------------------------ dictionaries *)
Lemma dget_In {V} (d : list (name * V)) k v : dget d k = Some v -> In (k, v) d.
Proof.
  induction d as [|[k' v'] d IH]; cbn; [discriminate|].
  destruct (N.eqb_spec k' k) as [->|Hne]; intros H; [injection H as ->; now left|right; auto].
Qed.
Lemma dget_None {V} (d : list (name * V)) k : dget d k = None -> forall v, ~ In (k, v) d.
Proof.
  induction d as [|[k' v'] d IH]; cbn; [tauto|].
  destruct (N.eqb_spec k' k) as [->|Hne]; [discriminate|].
  intros H v [E|E]; [congruence|exact (IH H v E)].
Qed.
Lemma dget_NoDup {V} (d : list (name * V)) k v : NoDup (map fst d) -> In (k, v) d -> dget d k = Some v.
Proof.
  induction d as [|[k' v'] d IH]; cbn; [tauto|]. intros Hnd Hin. inversion Hnd as [|? ? Hnotin Hnd']; subst.
  destruct Hin as [E|Hin].
  - injection E as -> ->. now rewrite N.eqb_refl.
  - destruct (N.eqb_spec k' k) as [->|Hne]; [|auto].
    exfalso. apply Hnotin. apply (in_map fst) in Hin. exact Hin.
Qed.
Lemma select_In {V} (d : list (name * V)) k v : In v (select k d) <-> In (k, v) d.
Proof.
  unfold select. rewrite in_flat_map. split.
  - intros [[k' v'] [Hin H]]. cbn in H. destruct (N.eqb_spec k' k) as [->|]; [|contradiction].
    destruct H as [->|[]]. exact Hin.
  - intros Hin. exists (k, v). split; [exact Hin|]. cbn. rewrite N.eqb_refl. now left.
Qed.
Lemma In_defs_ty reg e id d : In d (defs_ty reg e id) <-> defines_ty reg e id d.
Proof.
  unfold defs_ty, defines_ty. rewrite in_flat_map. split.
  - intros [x [Hx Hd]]. exists x. apply select_In in Hx. apply select_In in Hd. now split.
  - intros [x [Hx Hd]]. exists x. split; now apply select_In.
Qed.
Lemma In_defs_op reg e nm d : In d (defs_op reg e nm) <-> defines_op reg e nm d.
Proof.
  unfold defs_op, defines_op. rewrite in_flat_map. split.
  - intros [x [Hx Hd]]. exists x. apply select_In in Hx. apply select_In in Hd. now split.
  - intros [x [Hx Hd]]. exists x. split; now apply select_In.
Qed.
Lemma resolvable_ty_b_spec reg e id : resolvable_ty_b reg e id = true <-> resolvable_ty reg e id.
Proof.
  unfold resolvable_ty_b, resolvable_ty. destruct (defs_ty reg e id) as [|d l] eqn:E.
  - split; [discriminate|]. intros [d Hd]. apply In_defs_ty in Hd. rewrite E in Hd. destruct Hd.
  - split; [|reflexivity]. intros _. exists d. apply In_defs_ty. rewrite E. now left.
Qed.
Lemma resolvable_op_b_spec reg e nm : resolvable_op_b reg e nm = true <-> resolvable_op reg e nm.
Proof.
  unfold resolvable_op_b, resolvable_op. destruct (defs_op reg e nm) as [|d l] eqn:E.
  - split; [discriminate|]. intros [d Hd]. apply In_defs_op in Hd. rewrite E in Hd. destruct Hd.
  - split; [|reflexivity]. intros _. exists d. apply In_defs_op. rewrite E. now left.
Qed.

(* the lookups of the code against the registry seen as a set of definitions *)
Lemma lookup_type_defines reg e id d : lookup_type reg e id = Some d -> defines_ty reg e id d.
Proof.
  unfold lookup_type. destruct (dget reg e) as [x|] eqn:Ex; [|discriminate].
  intros H. exists x. split; eauto using dget_In.
Qed.
Lemma defines_lookup_type reg e id d : RegWF reg -> defines_ty reg e id d -> lookup_type reg e id = Some d.
Proof.
  intros [Hnd Hwf] [x [Hx Hd]]. unfold lookup_type. rewrite (dget_NoDup _ _ _ Hnd Hx).
  destruct (Hwf _ _ Hx) as (_ & _ & Hndt & _). exact (dget_NoDup _ _ _ Hndt Hd).
Qed.
Lemma lookup_type_None reg e id : RegWF reg -> lookup_type reg e id = None -> ~ resolvable_ty reg e id.
Proof. intros Hwf H [d Hd]. rewrite (defines_lookup_type _ _ _ _ Hwf Hd) in H. discriminate. Qed.
Lemma lookup_op_defines reg e nm d : lookup_op reg e nm = Some d -> defines_op reg e nm d.
Proof.
  unfold lookup_op. destruct (dget reg e) as [x|] eqn:Ex; [|discriminate].
  intros H. exists x. split; eauto using dget_In.
Qed.
Lemma defines_lookup_op reg e nm d : RegWF reg -> defines_op reg e nm d -> lookup_op reg e nm = Some d.
Proof.
  intros [Hnd Hwf] [x [Hx Hd]]. unfold lookup_op. rewrite (dget_NoDup _ _ _ Hnd Hx).
  destruct (Hwf _ _ Hx) as (_ & _ & _ & Hndo & _). exact (dget_NoDup _ _ _ Hndo Hd).
Qed.
Lemma lookup_op_None reg e nm : RegWF reg -> lookup_op reg e nm = None -> ~ resolvable_op reg e nm.
Proof. intros Hwf H [d Hd]. rewrite (defines_lookup_op _ _ _ _ Hwf Hd) in H. discriminate. Qed.
Lemma defines_ty_names reg e id d : RegWF reg -> defines_ty reg e id d -> td_name d = id /\ td_ext d = e.
Proof. intros [_ Hwf] [x [Hx Hd]]. destruct (Hwf _ _ Hx) as (_ & _ & _ & _ & Ht & _). exact (Ht _ _ Hd). Qed.
Lemma defines_op_names reg e nm d : RegWF reg -> defines_op reg e nm d -> od_name d = nm /\ od_ext d = e /\ e <> empty_name.
Proof.
  intros [_ Hwf] [x [Hx Hd]]. destruct (Hwf _ _ Hx) as (_ & Hne & _ & _ & _ & Ho).
  destruct (Ho _ _ Hd). auto.
Qed.

(* ------------------------------------------------------------------ exactly when defined *)
Lemma opaque_resolves_iff reg e id args b : RegWF reg ->
  ((exists d, defines_ty reg e id d /\
              resolve_ty reg (TOpaque e id args b) = TExt d (map (resolve_arg reg) args) Generic)
   <-> resolvable_ty reg e id).
Proof.
  intros Hwf. split.
  - intros [d [Hd _]]. now exists d.
  - intros [d Hd]. exists d. split; [exact Hd|]. cbn. now rewrite (defines_lookup_type _ _ _ _ Hwf Hd).
Qed.
Lemma opaque_stays_iff reg e id args b : RegWF reg ->
  (resolve_ty reg (TOpaque e id args b) = TOpaque e id (map (resolve_arg reg) args) b
   <-> ~ resolvable_ty reg e id).
Proof.
  intros Hwf. cbn. destruct (lookup_type reg e id) as [d|] eqn:E.
  - split; [discriminate|]. intros H. exfalso. apply H. exists d. now apply lookup_type_defines.
  - split; [|reflexivity]. intros _. now apply lookup_type_None.
Qed.
Lemma custom_resolves_iff reg keep c : RegWF reg ->
  ((exists d, defines_op reg (c_ext c) (c_name c) d /\
              resolve_op reg keep (OCustom c) =
              OExt {| x_def := d; x_sig := resolve_ft reg (c_sig c); x_args := map (resolve_arg reg) (c_args c);
                    x_descr := resolved_descr keep c d |})
   <-> resolvable_op reg (c_ext c) (c_name c)).
Proof.
  intros Hwf. split.
  - intros [d [Hd _]]. now exists d.
  - intros [d Hd]. exists d. split; [exact Hd|]. cbn. unfold resolve_custom.
    now rewrite (defines_lookup_op _ _ _ _ Hwf Hd).
Qed.
Lemma custom_stays_iff reg keep c : RegWF reg ->
  (resolve_op reg keep (OCustom c) = OCustom c <-> ~ resolvable_op reg (c_ext c) (c_name c)).
Proof.
  intros Hwf. cbn. unfold resolve_custom. destruct (lookup_op reg (c_ext c) (c_name c)) as [d|] eqn:E.
  - split; [discriminate|]. intros H. exfalso. apply H. exists d. now apply lookup_op_defines.
  - split; [|reflexivity]. intros _. now apply lookup_op_None.
Qed.

(* ------------------------------------------------------------------ pointwise characterisation *)
Lemma resolve_pointwise_both reg : RegWF reg ->
  (forall t, RTy reg t (resolve_ty reg t)) /\ (forall a, RArg reg a (resolve_arg reg a)).
Proof.
  intros Hwf. apply ty_both_ind; cbn; intros; try (constructor; fail).
  - constructor. apply Forall_Forall2_map. eapply Forall_impl; [|eassumption].
    intros row Hrow. now apply Forall_Forall2_map.
  - constructor; now apply Forall_Forall2_map.
  - constructor; now apply Forall_Forall2_map.
  - destruct (lookup_type reg e id) as [d|] eqn:E.
    + apply ROpaqueDef; [now apply lookup_type_defines|now apply Forall_Forall2_map].
    + apply ROpaqueUndef; [now apply lookup_type_None|now apply Forall_Forall2_map].
  - now constructor.
  - constructor. now apply Forall_Forall2_map.
Qed.
Lemma resolve_pointwise reg t : RegWF reg -> RTy reg t (resolve_ty reg t).
Proof. intros Hwf. now apply resolve_pointwise_both. Qed.
Lemma resolve_arg_pointwise reg a : RegWF reg -> RArg reg a (resolve_arg reg a).
Proof. intros Hwf. now apply resolve_pointwise_both. Qed.
Lemma resolve_op_pointwise reg keep o : RegWF reg -> ROp reg o (resolve_op reg keep o).
Proof.
  intros Hwf. destruct o as [c|x|k]; cbn; try constructor.
  unfold resolve_custom. destruct (lookup_op reg (c_ext c) (c_name c)) as [d|] eqn:E.
  - apply ROpDef; [now apply lookup_op_defines| | |].
    + unfold RFt, resolve_ft; cbn. repeat split; apply Forall_Forall2_map, Forall_forall; intros;
        now apply resolve_pointwise.
    + apply Forall_Forall2_map, Forall_forall; intros; now apply resolve_arg_pointwise.
    + unfold resolved_descr. destruct (keep c); [now left|now right].
  - constructor. now apply lookup_op_None.
Qed.

(* ------------------------------------------------------------------ unfolding [everywhere] *)
(* the local loops of [everywhere] are convertible with [forallb] *)
Lemma everywhere_sum f rs : everywhere f (TSum rs) = f (TSum rs) && forallb (forallb (everywhere f)) rs.
Proof. reflexivity. Qed.
Lemma everywhere_func f i o r :
  everywhere f (TFunc i o r) = f (TFunc i o r) && (forallb (everywhere f) i && forallb (everywhere f) o).
Proof. reflexivity. Qed.
Lemma everywhere_poly f ps i o r :
  everywhere f (TPoly ps i o r) = f (TPoly ps i o r) && (forallb (everywhere f) i && forallb (everywhere f) o).
Proof. reflexivity. Qed.
Lemma everywhere_opaque f e id a b :
  everywhere f (TOpaque e id a b) = f (TOpaque e id a b) && forallb (everywhere_arg f) a.
Proof. reflexivity. Qed.
Lemma everywhere_ext f d a c : everywhere f (TExt d a c) = f (TExt d a c) && forallb (everywhere_arg f) a.
Proof. reflexivity. Qed.
Lemma everywhere_seq f l : everywhere_arg f (ASeq l) = forallb (everywhere_arg f) l.
Proof. reflexivity. Qed.

Lemma forallb_map {A B} (f : B -> bool) (g : A -> B) l : forallb f (map g l) = forallb (fun x => f (g x)) l.
Proof. induction l as [|x l IH]; cbn; [reflexivity|]. now rewrite IH. Qed.
Lemma Forall_forallb_imp {A} (P : A -> Prop) (f : A -> bool) l :
  Forall (fun x => f x = true -> P x) l -> forallb f l = true -> Forall P l.
Proof.
  induction 1 as [|x l Hx _ IH]; cbn; intros H; [constructor|].
  apply andb_true_iff in H as [H1 H2]. constructor; auto.
Qed.
Lemma Forall_forallb_imp2 {A} (f g : A -> bool) l :
  Forall (fun x => f x = true -> g x = true) l -> forallb f l = true -> forallb g l = true.
Proof.
  induction 1 as [|x l Hx _ IH]; cbn; intros H; [reflexivity|].
  apply andb_true_iff in H as [H1 H2]. rewrite Hx, IH; auto.
Qed.

(* ------------------------------------------------------------------ idempotence *)
Lemma resolve_idem_both reg :
  (forall t, resolve_ty reg (resolve_ty reg t) = resolve_ty reg t) /\
  (forall a, resolve_arg reg (resolve_arg reg a) = resolve_arg reg a).
Proof.
  apply ty_both_ind; cbn; intros; try reflexivity.
  - f_equal. rewrite map_map. apply Forall_map_eq. eapply Forall_impl; [|eassumption].
    intros row Hrow. rewrite map_map. now apply Forall_map_eq.
  - f_equal; rewrite map_map; now apply Forall_map_eq.
  - f_equal; rewrite map_map; now apply Forall_map_eq.
  - destruct (lookup_type reg e id) as [d|] eqn:E; cbn; [reflexivity|].
    rewrite E. f_equal. rewrite map_map. now apply Forall_map_eq.
  - now f_equal.
  - f_equal. rewrite map_map. now apply Forall_map_eq.
Qed.
Lemma resolve_ty_idem reg t : resolve_ty reg (resolve_ty reg t) = resolve_ty reg t.
Proof. apply resolve_idem_both. Qed.
Lemma resolve_arg_idem reg a : resolve_arg reg (resolve_arg reg a) = resolve_arg reg a.
Proof. apply resolve_idem_both. Qed.
(* whatever is chosen at the second call: nothing opaque with a definition is left to choose for *)
Lemma resolve_op_idem reg keep keep' o : resolve_op reg keep' (resolve_op reg keep o) = resolve_op reg keep o.
Proof.
  destruct o as [c|x|k]; cbn; try reflexivity. unfold resolve_custom.
  destruct (lookup_op reg (c_ext c) (c_name c)) as [d|] eqn:E; cbn; [reflexivity|].
  unfold resolve_custom. now rewrite E.
Qed.
Lemma resolve_hugr_idem reg keep keep' h : resolve_hugr reg keep' (resolve_hugr reg keep h) = resolve_hugr reg keep h.
Proof. unfold resolve_hugr. rewrite map_map. apply map_ext. intros. apply resolve_op_idem. Qed.

(* ------------------------------------------------------------------ untouched otherwise *)
Lemma resolve_clean_both reg :
  (forall t, clean reg t = true -> resolve_ty reg t = t) /\
  (forall a, clean_arg reg a = true -> resolve_arg reg a = a).
Proof.
  unfold clean, clean_arg. apply ty_both_ind; intros; try reflexivity.
  - rewrite everywhere_sum in H0. apply andb_true_iff in H0 as [_ H0]. cbn. f_equal.
    apply Forall_map_id. eapply Forall_forallb_imp; [|exact H0].
    eapply Forall_impl; [|exact H]. intros row Hrow Hc. apply Forall_map_id.
    eapply Forall_forallb_imp; [|exact Hc]. exact Hrow.
  - rewrite everywhere_func in H1. apply andb_true_iff in H1 as [_ H1]. apply andb_true_iff in H1 as [Hi Ho].
    cbn. f_equal; apply Forall_map_id; eapply Forall_forallb_imp; eauto.
  - rewrite everywhere_poly in H1. apply andb_true_iff in H1 as [_ H1]. apply andb_true_iff in H1 as [Hi Ho].
    cbn. f_equal; apply Forall_map_id; eapply Forall_forallb_imp; eauto.
  - rewrite everywhere_opaque in H0. apply andb_true_iff in H0 as [Hh Ha]. cbn in Hh. cbn.
    destruct (lookup_type reg e id) as [d|] eqn:E.
    + exfalso. apply negb_true_iff in Hh. apply lookup_type_defines in E.
      assert (Hr : resolvable_ty_b reg e id = true) by (apply resolvable_ty_b_spec; now exists d).
      congruence.
    + f_equal. apply Forall_map_id. eapply Forall_forallb_imp; eauto.
  - cbn in *. f_equal. auto.
  - rewrite everywhere_seq in H0. cbn. f_equal. apply Forall_map_id. eapply Forall_forallb_imp; eauto.
Qed.
Lemma resolve_clean reg t : clean reg t = true -> resolve_ty reg t = t.
Proof. apply resolve_clean_both. Qed.
Lemma resolve_arg_clean reg a : clean_arg reg a = true -> resolve_arg reg a = a.
Proof. apply resolve_clean_both. Qed.

(* ------------------------------------------------------------------ every depth *)
Lemma resolve_deep_both reg : RegWF reg ->
  (forall t, no_ext t = true -> clean reg (resolve_ty reg t) = true) /\
  (forall a, no_ext_arg a = true -> clean_arg reg (resolve_arg reg a) = true).
Proof.
  intros Hwf. unfold clean, clean_arg, no_ext, no_ext_arg. apply ty_both_ind; intros; try reflexivity.
  - rewrite everywhere_sum in H0. apply andb_true_iff in H0 as [_ H0]. cbn [resolve_ty].
    rewrite everywhere_sum. cbn [unresolvable_here andb]. rewrite forallb_map.
    eapply Forall_forallb_imp2; [|exact H0]. eapply Forall_impl; [|exact H].
    intros row Hrow Hc. rewrite forallb_map. eapply Forall_forallb_imp2; [|exact Hc]. exact Hrow.
  - rewrite everywhere_func in H1. apply andb_true_iff in H1 as [_ H1]. apply andb_true_iff in H1 as [Hi Ho].
    cbn [resolve_ty]. rewrite everywhere_func. cbn [unresolvable_here andb]. rewrite !forallb_map.
    apply andb_true_iff; split; eapply Forall_forallb_imp2; eauto.
  - rewrite everywhere_poly in H1. apply andb_true_iff in H1 as [_ H1]. apply andb_true_iff in H1 as [Hi Ho].
    cbn [resolve_ty]. rewrite everywhere_poly. cbn [unresolvable_here andb]. rewrite !forallb_map.
    apply andb_true_iff; split; eapply Forall_forallb_imp2; eauto.
  - rewrite everywhere_opaque in H0. apply andb_true_iff in H0 as [_ Ha]. cbn [resolve_ty].
    assert (Hargs : forallb (everywhere_arg (unresolvable_here reg)) (map (resolve_arg reg) args) = true).
    { rewrite forallb_map. eapply Forall_forallb_imp2; eauto. }
    destruct (lookup_type reg e id) as [d|] eqn:E.
    + rewrite everywhere_ext. cbn [unresolvable_here andb]. exact Hargs.
    + rewrite everywhere_opaque. cbn [unresolvable_here]. rewrite Hargs, andb_true_r.
      apply negb_true_iff. destruct (resolvable_ty_b reg e id) eqn:Er; [|reflexivity].
      apply resolvable_ty_b_spec in Er. exfalso. eapply lookup_type_None; eauto.
  - rewrite everywhere_ext in H0. cbn in H0. discriminate.
  - cbn in *. auto.
  - rewrite everywhere_seq in H0. cbn [resolve_arg]. rewrite everywhere_seq, forallb_map.
    eapply Forall_forallb_imp2; eauto.
Qed.
Lemma resolve_deep reg t : RegWF reg -> no_ext t = true -> clean reg (resolve_ty reg t) = true.
Proof. intros Hwf. now apply resolve_deep_both. Qed.
Lemma resolve_arg_deep reg a : RegWF reg -> no_ext_arg a = true -> clean_arg reg (resolve_arg reg a) = true.
Proof. intros Hwf. now apply resolve_deep_both. Qed.

(* ------------------------------------------------------------------ exported model *)
Lemma resolve_model_both reg : RegWF reg ->
  (forall t, to_model (resolve_ty reg t) = to_model t) /\
  (forall a, arg_to_model (resolve_arg reg a) = arg_to_model a).
Proof.
  intros Hwf. apply ty_both_ind; intros; try reflexivity.
  - cbn [resolve_ty to_model]. rewrite omap_map.
    erewrite omap_ext; [reflexivity|]. eapply Forall_impl; [|exact H].
    intros row Hrow. cbn beta. rewrite omap_map. erewrite omap_ext; [reflexivity|]. exact Hrow.
  - cbn [resolve_ty to_model]. rewrite !omap_map.
    erewrite (omap_ext _ _ i), (omap_ext _ _ o); [reflexivity|exact H0|exact H].
  - cbn [resolve_ty to_model].
    assert (Ha : omap arg_to_model (map (resolve_arg reg) args) = omap arg_to_model args).
    { rewrite omap_map. now apply omap_ext. }
    destruct (lookup_type reg e id) as [d|] eqn:E; cbn [to_model]; rewrite Ha; [|reflexivity].
    apply lookup_type_defines in E. destruct (defines_ty_names _ _ _ _ Hwf E) as [-> ->]. reflexivity.
  - cbn. assumption.
  - cbn [resolve_arg arg_to_model]. rewrite omap_map. erewrite omap_ext; [reflexivity|exact H].
Qed.
Lemma resolve_model reg t : RegWF reg -> to_model (resolve_ty reg t) = to_model t.
Proof. intros Hwf. now apply resolve_model_both. Qed.
Lemma resolve_arg_model reg a : RegWF reg -> arg_to_model (resolve_arg reg a) = arg_to_model a.
Proof. intros Hwf. now apply resolve_model_both. Qed.

(* ------------------------------------------------------------------ type bounds *)
(* top-level forms of the local loops of [tbound] *)
Fixpoint row_b (l : list ty) : option (list bound) :=
  match l with
  | [] => Some []
  | x :: r => match tbound x, row_b r with Some b, Some bs => Some (b :: bs) | _, _ => None end
  end.
Fixpoint rows_b (l : list (list ty)) : option (list bound) :=
  match l with
  | [] => Some []
  | x :: r => match row_b x, rows_b r with Some b, Some bs => Some (b ++ bs) | _, _ => None end
  end.
Lemma tbound_sum rs : tbound (TSum rs) = match rows_b rs with Some bs => Some (join bs) | None => None end.
Proof. reflexivity. Qed.

(* what a type argument contributes to a from-params bound *)
Definition arg_bound (a : tyarg) : option (option bound) :=
  match a with
  | AType t => match tbound t with Some b => Some (Some b) | None => None end
  | _ => Some None
  end.
Lemma at_idx_nth args i :
  at_idx args i = match nth_error args i with None => None | Some a => arg_bound a end.
Proof. unfold at_idx. destruct (nth_error args i) as [[]|]; reflexivity. Qed.
Lemma at_idx_local args i :
  (fix at_idx (l : list tyarg) (i : nat) {struct l} : option (option bound) :=
     match l, i with
     | [], _ => None
     | AType t' :: _, O => match tbound t' with Some b => Some (Some b) | None => None end
     | _ :: _, O => Some None
     | _ :: r, S k => at_idx r k
     end) args i = at_idx args i.
Proof.
  revert i. induction args as [|a args IH]; intros [|i]; try reflexivity.
  rewrite at_idx_nth. cbn [nth_error]. rewrite <- at_idx_nth. destruct a; apply IH.
Qed.
Lemma tbound_ext_generic d args :
  tbound (TExt d args Generic) =
  match td_bound d with Explicit b => Some b | FromParams idx => from_params args idx [] end.
Proof.
  cbn [tbound]. destruct (td_bound d) as [b|idx]; [reflexivity|].
  generalize (@nil bound). induction idx as [|i idx IH]; intros acc; [reflexivity|].
  cbn [from_params]. rewrite <- at_idx_local.
  match goal with |- context [match ?x with _ => _ end] => destruct x as [[b|]|] end; auto.
Qed.

Lemma row_b_map (f : ty -> ty) l : Forall (fun x => tbound (f x) = tbound x) l -> row_b (map f l) = row_b l.
Proof. induction 1 as [|x l Hx _ IH]; cbn; [reflexivity|]. now rewrite Hx, IH. Qed.
Lemma from_params_ext args args' idx acc :
  (forall i, at_idx args' i = at_idx args i) -> from_params args' idx acc = from_params args idx acc.
Proof.
  intros H. revert acc. induction idx as [|i idx IH]; intros acc; cbn; [reflexivity|].
  rewrite H. destruct (at_idx args i) as [[b|]|]; auto.
Qed.
Lemma at_idx_map (f : tyarg -> tyarg) args i :
  Forall (fun a => arg_bound (f a) = arg_bound a) args -> at_idx (map f args) i = at_idx args i.
Proof.
  intros H. rewrite !at_idx_nth, nth_error_map. destruct (nth_error args i) as [a|] eqn:E; [|reflexivity].
  cbn. rewrite Forall_forall in H. apply H. eapply nth_error_In; eauto.
Qed.

Lemma resolve_bound_both reg :
  (forall t, consistent reg t = true -> tbound (resolve_ty reg t) = tbound t) /\
  (forall a, consistent_arg reg a = true -> arg_bound (resolve_arg reg a) = arg_bound a).
Proof.
  unfold consistent, consistent_arg. apply ty_both_ind; intros; try reflexivity.
  - rewrite everywhere_sum in H0. apply andb_true_iff in H0 as [_ H0]. cbn [resolve_ty]. rewrite !tbound_sum.
    assert (E : rows_b (map (map (resolve_ty reg)) rows) = rows_b rows); [|now rewrite E].
    revert H0. induction H as [|row rows Hrow _ IH]; cbn [forallb map rows_b]; intros H0; [reflexivity|].
    apply andb_true_iff in H0 as [H1 H2]. rewrite (IH H2), row_b_map; [reflexivity|].
    eapply Forall_forallb_imp; eauto.
  - rewrite everywhere_opaque in H0. apply andb_true_iff in H0 as [Hh Ha]. cbn [consistent_here] in Hh.
    cbn [resolve_ty]. destruct (lookup_type reg e id) as [d|] eqn:E; [|reflexivity].
    apply lookup_type_defines, In_defs_ty in E. rewrite forallb_forall in Hh. specialize (Hh d E).
    unfold def_bound in Hh. rewrite tbound_ext_generic in *.
    assert (Hat : forall i, at_idx (map (resolve_arg reg) args) i = at_idx args i).
    { intros i. apply at_idx_map. eapply Forall_forallb_imp; eauto. }
    destruct (td_bound d) as [b'|idx].
    + cbn in Hh. cbn [tbound]. destruct b, b'; cbn in Hh; congruence.
    + rewrite (from_params_ext _ _ _ _ Hat). cbn [tbound].
      destruct (from_params args idx []) as [b'|]; cbn in Hh; [|discriminate].
      destruct b, b'; cbn in Hh; congruence.
  - cbn in *. now rewrite H.
Qed.
Lemma resolve_bound reg t : consistent reg t = true -> tbound (resolve_ty reg t) = tbound t.
Proof. apply resolve_bound_both. Qed.

(* ------------------------------------------------------------------ serial form *)
Lemma omap_ext_guarded {A B} (c : A -> bool) (f g : A -> option B) l :
  Forall (fun x => c x = true -> f x = g x) l -> forallb c l = true -> omap f l = omap g l.
Proof. intros H Hc. apply omap_ext. eapply Forall_forallb_imp; eauto. Qed.

Lemma resolve_ser_both reg : RegWF reg ->
  (forall t, consistent reg t = true -> ser_ty (resolve_ty reg t) = ser_ty t) /\
  (forall a, consistent_arg reg a = true -> ser_arg (resolve_arg reg a) = ser_arg a).
Proof.
  intros Hwf. apply ty_both_ind; intros; try reflexivity.
  - unfold consistent in H0. rewrite everywhere_sum in H0. apply andb_true_iff in H0 as [_ H0].
    cbn [resolve_ty ser_ty]. rewrite omap_map.
    erewrite (omap_ext_guarded (forallb (consistent reg))); [reflexivity| |exact H0].
    eapply Forall_impl; [|exact H]. intros row Hrow Hc. cbn beta. rewrite omap_map.
    eapply omap_ext_guarded; eauto.
  - unfold consistent in H1. rewrite everywhere_func in H1. apply andb_true_iff in H1 as [_ H1].
    apply andb_true_iff in H1 as [Hi Ho]. cbn [resolve_ty ser_ty]. rewrite !omap_map.
    rewrite (omap_ext_guarded _ _ _ _ H Hi), (omap_ext_guarded _ _ _ _ H0 Ho). reflexivity.
  - unfold consistent in H1. rewrite everywhere_poly in H1. apply andb_true_iff in H1 as [_ H1].
    apply andb_true_iff in H1 as [Hi Ho]. cbn [resolve_ty ser_ty]. rewrite !omap_map.
    rewrite (omap_ext_guarded _ _ _ _ H Hi), (omap_ext_guarded _ _ _ _ H0 Ho). reflexivity.
  - pose proof (proj1 (resolve_bound_both reg) _ H0) as Hb.
    unfold consistent in H0. rewrite everywhere_opaque in H0. apply andb_true_iff in H0 as [_ Ha].
    assert (Hargs : omap ser_arg (map (resolve_arg reg) args) = omap ser_arg args).
    { rewrite omap_map. eapply omap_ext_guarded; eauto. }
    cbn [resolve_ty] in *. destruct (lookup_type reg e id) as [d|] eqn:E.
    + cbn [ser_ty]. rewrite Hb, Hargs. cbn [tbound].
      apply lookup_type_defines in E. destruct (defines_ty_names _ _ _ _ Hwf E) as [-> ->]. reflexivity.
    + cbn [ser_ty]. now rewrite Hargs.
  - cbn in *. now rewrite H.
  - unfold consistent_arg in H0. rewrite everywhere_seq in H0. cbn [resolve_arg ser_arg]. rewrite omap_map.
    erewrite omap_ext_guarded; eauto.
Qed.
Lemma resolve_ser reg t : RegWF reg -> consistent reg t = true -> ser_ty (resolve_ty reg t) = ser_ty t.
Proof. intros Hwf. now apply resolve_ser_both. Qed.
Lemma resolve_arg_ser reg a : RegWF reg -> consistent_arg reg a = true -> ser_arg (resolve_arg reg a) = ser_arg a.
Proof. intros Hwf. now apply resolve_ser_both. Qed.

(* ------------------------------------------------------------------ operations *)
Lemma resolve_ft_ser reg f : RegWF reg -> consistent_ft reg f = true -> ser_ft (resolve_ft reg f) = ser_ft f.
Proof.
  intros Hwf H. unfold consistent_ft in H. apply andb_true_iff in H as [Hi Ho].
  unfold ser_ft, resolve_ft. cbn. rewrite !omap_map.
  rewrite (omap_ext_guarded (consistent reg) _ ser_ty (ft_in f)), (omap_ext_guarded (consistent reg) _ ser_ty (ft_out f));
    auto; apply Forall_forall; intros; now apply resolve_ser.
Qed.

Lemma resolve_op_ser reg keep o s : RegWF reg -> consistent_op reg o = true -> ser_op o = Some s ->
  exists s', ser_op (resolve_op reg keep o) = Some s' /\ same_but_descr reg s s'.
Proof.
  intros Hwf Hc Hs. destruct o as [c|x|k]; cbn [resolve_op].
  - unfold resolve_custom. destruct (lookup_op reg (c_ext c) (c_name c)) as [d|] eqn:E.
    + cbn [consistent_op] in Hc. apply andb_true_iff in Hc as [Hf Ha].
      cbn [ser_op] in *. unfold ser_custom in *. cbn [to_custom_op c_sig c_args x_sig x_args x_def c_ext c_name c_descr].
      rewrite (resolve_ft_ser _ _ Hwf Hf), omap_map.
      rewrite (omap_ext_guarded (consistent_arg reg) _ ser_arg (c_args c));
        [|apply Forall_forall; intros; now apply resolve_arg_ser|exact Ha].
      destruct (ser_ft (c_sig c)) as [sf|]; [|discriminate].
      destruct (omap ser_arg (c_args c)) as [sa|]; [|discriminate].
      injection Hs as <-. eexists. split; [reflexivity|]. cbn.
      apply lookup_op_defines in E. destruct (defines_op_names _ _ _ _ Hwf E) as (-> & -> & _).
      repeat split. unfold resolved_descr. destruct (keep c); [now left|right; exists d; now split].
    + exists s. split; [exact Hs|]. cbn [ser_op] in Hs. destruct (ser_custom c) as [sc|]; [|discriminate].
      injection Hs as <-. cbn. repeat split. now left.
  - exists s. split; [exact Hs|]. cbn [ser_op] in Hs. destruct (ser_custom (to_custom_op x)); [|discriminate].
    injection Hs as <-. cbn. repeat split. now left.
  - exists s. split; [exact Hs|]. cbn in Hs. injection Hs as <-. reflexivity.
Qed.

(* the description clause, both directions: an operation whose loaded description the implementation keeps
   serialises exactly as before (also when serialisation raises); one whose description it replaces
   serialises with the description of the definition filed under its name *)
Lemma resolve_op_ser_keep reg keep o : RegWF reg -> consistent_op reg o = true ->
  (forall c, o = OCustom c -> keep c = true) -> ser_op (resolve_op reg keep o) = ser_op o.
Proof.
  intros Hwf Hc Hk. destruct o as [c|x|k]; cbn [resolve_op]; try reflexivity.
  unfold resolve_custom. destruct (lookup_op reg (c_ext c) (c_name c)) as [d|] eqn:E; [|reflexivity].
  cbn [consistent_op] in Hc. apply andb_true_iff in Hc as [Hf Ha].
  cbn [ser_op]. unfold ser_custom. cbn [to_custom_op c_sig c_args x_sig x_args x_def x_descr c_ext c_name c_descr].
  rewrite (resolve_ft_ser _ _ Hwf Hf), omap_map.
  rewrite (omap_ext_guarded (consistent_arg reg) _ ser_arg (c_args c));
    [|apply Forall_forall; intros; now apply resolve_arg_ser|exact Ha].
  apply lookup_op_defines in E. destruct (defines_op_names _ _ _ _ Hwf E) as (-> & -> & _).
  unfold resolved_descr. now rewrite (Hk c eq_refl).
Qed.
Lemma resolve_op_ser_take reg keep c d s' : RegWF reg -> defines_op reg (c_ext c) (c_name c) d -> keep c = false ->
  ser_op (resolve_op reg keep (OCustom c)) = Some (OCustom s') -> c_descr s' = od_descr d.
Proof.
  intros Hwf Hd Hk. cbn [resolve_op]. unfold resolve_custom. rewrite (defines_lookup_op _ _ _ _ Hwf Hd).
  cbn [ser_op]. unfold ser_custom. cbn [to_custom_op c_sig c_args x_sig x_args x_def x_descr].
  destruct (ser_ft _); [|discriminate]. destruct (omap ser_arg _); [|discriminate].
  intros H. injection H as <-. cbn. unfold resolved_descr. now rewrite Hk.
Qed.

Lemma resolve_hugr_ser reg keep h s : RegWF reg -> forallb (consistent_op reg) h = true -> ser_hugr h = Some s ->
  exists s', ser_hugr (resolve_hugr reg keep h) = Some s' /\ Forall2 (same_but_descr reg) s s'.
Proof.
  intros Hwf. unfold ser_hugr, resolve_hugr. revert s.
  induction h as [|o h IH]; cbn; intros s Hc Hs.
  - injection Hs as <-. exists []. split; [reflexivity|constructor].
  - apply andb_true_iff in Hc as [Hc1 Hc2].
    destruct (ser_op o) as [so|] eqn:Eo; [|discriminate].
    destruct (omap ser_op h) as [sh|] eqn:Eh; [|discriminate]. injection Hs as <-.
    destruct (resolve_op_ser _ keep _ _ Hwf Hc1 Eo) as [so' [Eso' Hrel]].
    destruct (IH _ Hc2 eq_refl) as [sh' [Esh' Hrel']].
    rewrite Eso', Esh'. eexists. split; [reflexivity|]. now constructor.
Qed.

Lemma resolve_ft_model reg f : RegWF reg -> ft_to_model (resolve_ft reg f) = ft_to_model f.
Proof. intros Hwf. unfold ft_to_model, resolve_ft. cbn [ft_in ft_out ft_reqs]. exact (resolve_model reg (TFunc _ _ _) Hwf). Qed.
Lemma resolve_op_export reg keep o : RegWF reg -> export_op (resolve_op reg keep o) = export_op o.
Proof.
  intros Hwf. destruct o as [c|x|k]; cbn [resolve_op]; try reflexivity.
  unfold resolve_custom. destruct (lookup_op reg (c_ext c) (c_name c)) as [d|] eqn:E; [|reflexivity].
  cbn [export_op x_args x_sig x_def]. rewrite (resolve_ft_model _ _ Hwf), omap_map.
  rewrite (omap_ext (fun x => arg_to_model (resolve_arg reg x)) arg_to_model);
    [|apply Forall_forall; intros; now apply resolve_arg_model].
  apply lookup_op_defines in E. destruct (defines_op_names _ _ _ _ Hwf E) as (Hn & He & Hne).
  unfold qualified_name. rewrite Hn, He. apply N.eqb_neq in Hne. now rewrite Hne.
Qed.

(* signatures and port types: same number of ports, same bounds, same serial form *)
Lemma resolve_op_signature reg keep o f : outer_signature o = Some f ->
  exists f', outer_signature (resolve_op reg keep o) = Some f' /\
             (f' = f \/ f' = resolve_ft reg f).
Proof.
  destruct o as [c|x|k]; cbn; intros H; try discriminate; injection H as <-.
  - unfold resolve_custom. destruct (lookup_op reg (c_ext c) (c_name c)); cbn; eauto.
  - eauto.
Qed.
Lemma resolve_row_bounds reg l : forallb (consistent reg) l = true ->
  row_bounds (map (resolve_ty reg) l) = row_bounds l /\ length (map (resolve_ty reg) l) = length l.
Proof.
  intros H. split; [|apply map_length]. unfold row_bounds. rewrite map_map. apply Forall_map_eq.
  rewrite forallb_Forall in H. eapply Forall_impl; [|exact H]. intros t Ht. now apply resolve_bound.
Qed.

(* ------------------------------------------------------------------ hypotheses are satisfiable *)
Module Ex.
  (* names: 1 = "ext.a", 2 = "T", 3 = "List", 4 = "nowhere", 5 = "U", 6 = "Op", 7 = "a definition", 8 = "orig" *)
  Definition tdT := {| td_ext := 1; td_name := 2; td_descr := 0; td_params := []; td_bound := Explicit Copyable |}%N.
  Definition tdList :=
    {| td_ext := 1; td_name := 3; td_descr := 0; td_params := [PType Any]; td_bound := FromParams [O] |}%N.
  Definition odOp := {| od_ext := 1; od_name := 6; od_descr := 7 |}%N.
  Definition reg : registry :=
    [(1, {| e_name := 1; e_types := [(2, tdT); (3, tdList)]; e_ops := [(6, odOp)] |})]%N.
  Definition tT := TOpaque 1%N 2%N [] Copyable.
  (* List<T> inside the argument of an unknown type, inside a sum, next to a function type *)
  Definition t : ty :=
    TSum [[TOpaque 4%N 5%N [AType (TOpaque 1%N 3%N [AType tT] Copyable); ASeq [AType tT; ANat 3%N]] Any];
          [TFunc [tT] [TQubit] [1%N]]].
  Definition c : custom :=
    {| c_ext := 1; c_name := 6; c_sig := {| ft_in := [tT]; ft_out := [t]; ft_reqs := [] |}; c_descr := 8;
       c_args := [AType tT] |}%N.
End Ex.
(* the boolean guard of the monitor implies the guard of the theorems *)
Lemma regwf_b_sound reg : regwf_b reg = true -> RegWF reg.
Proof.
  unfold regwf_b. intros H. apply andb_true_iff in H as [Hnd Hall]. split.
  - destruct (nodupb_spec N.eqb N.eqb_spec (map fst reg)); [assumption|discriminate].
  - intros k x Hin. rewrite forallb_forall in Hall. specialize (Hall _ Hin). cbn [fst snd] in Hall.
    unfold ext_wf_b in Hall.
    apply andb_true_iff in Hall as [Hall Ho]. apply andb_true_iff in Hall as [Hall Ht].
    apply andb_true_iff in Hall as [Hall Hndo]. apply andb_true_iff in Hall as [Hall Hndt].
    apply andb_true_iff in Hall as [Hname Hne].
    unfold ext_wf. repeat split.
    + now apply N.eqb_eq.
    + apply negb_true_iff in Hne. now apply N.eqb_neq.
    + destruct (nodupb_spec N.eqb N.eqb_spec (map fst (e_types x))); [assumption|discriminate].
    + destruct (nodupb_spec N.eqb N.eqb_spec (map fst (e_ops x))); [assumption|discriminate].
    + rewrite forallb_forall in Ht. specialize (Ht _ H). cbn in Ht. apply andb_true_iff in Ht as [A _].
      now apply N.eqb_eq.
    + rewrite forallb_forall in Ht. specialize (Ht _ H). cbn in Ht. apply andb_true_iff in Ht as [_ B].
      now apply N.eqb_eq.
    + rewrite forallb_forall in Ho. specialize (Ho _ H). cbn in Ho. apply andb_true_iff in Ho as [A _].
      now apply N.eqb_eq.
    + rewrite forallb_forall in Ho. specialize (Ho _ H). cbn in Ho. apply andb_true_iff in Ho as [_ B].
      now apply N.eqb_eq.
Qed.
Lemma ex_regwf : RegWF Ex.reg.
Proof. apply regwf_b_sound. reflexivity. Qed.
Example ex_nontrivial :
  RegWF Ex.reg /\ no_ext Ex.t = true /\ consistent Ex.reg Ex.t = true /\ clean Ex.reg Ex.t = false /\
  resolve_ty Ex.reg Ex.t <> Ex.t /\ ser_ty (resolve_ty Ex.reg Ex.t) = Some Ex.t /\
  consistent_op Ex.reg (OCustom Ex.c) = true /\
  (forall keep, exists x, resolve_op Ex.reg keep (OCustom Ex.c) = OExt x) /\
  (exists s s', ser_op (OCustom Ex.c) = Some (OCustom s) /\
                ser_op (resolve_op Ex.reg take_definitions (OCustom Ex.c)) = Some (OCustom s') /\ c_descr s <> c_descr s') /\
  ser_op (resolve_op Ex.reg keep_loaded (OCustom Ex.c)) = ser_op (OCustom Ex.c).
Proof.
  split; [exact ex_regwf|]. repeat split; try reflexivity; try discriminate.
  - intros keep. eexists; reflexivity.
  - do 2 eexists. repeat split; try reflexivity. cbn. discriminate.
Qed.

(* ------------------------------------------------------------------ [clean] reflects the inductive [Remains] *)
Lemma forallb_false {A} (f : A -> bool) l : forallb f l = false <-> exists x, In x l /\ f x = false.
Proof.
  induction l as [|y l IH]; cbn.
  - split; [discriminate|]. intros [x [[] _]].
  - rewrite andb_false_iff, IH. split.
    + intros [H|[x [Hin H]]]; [exists y; auto|exists x; auto].
    + intros [x [[->|Hin] H]]; [now left|right; eauto].
Qed.
Lemma remains_clean_both reg :
  (forall t, clean reg t = false <-> Remains reg t) /\ (forall a, clean_arg reg a = false <-> RemainsArg reg a).
Proof.
  unfold clean, clean_arg. apply ty_both_ind; intros;
    try (split; [cbn; discriminate|intros Hr; inversion Hr]).
  - rewrite everywhere_sum. cbn [unresolvable_here andb]. split.
    + intros Hc. apply forallb_false in Hc as [row [Hrow Hc]]. apply forallb_false in Hc as [t [Ht Hc]].
      rewrite Forall_forall in H. specialize (H _ Hrow). rewrite Forall_forall in H.
      eapply RmSum; eauto. now apply H.
    + intros Hr. inversion Hr as [| ? row t Hrow Ht Hrem | | | | | |]; subst.
      rewrite Forall_forall in H. specialize (H _ Hrow). rewrite Forall_forall in H.
      apply forallb_false. exists row. split; [exact Hrow|]. apply forallb_false. exists t. split; [exact Ht|].
      now apply H.
  - rewrite everywhere_func. cbn [unresolvable_here andb]. rewrite andb_false_iff, !forallb_false.
    rewrite Forall_forall in H, H0. split.
    + intros [[t [Ht Hc]]|[t [Ht Hc]]]; [eapply RmFuncIn|eapply RmFuncOut]; eauto; [now apply H|now apply H0].
    + intros Hr. inversion Hr; subst; [left|right]; eexists; split; eauto; [now apply H|now apply H0].
  - rewrite everywhere_poly. cbn [unresolvable_here andb]. rewrite andb_false_iff, !forallb_false.
    rewrite Forall_forall in H, H0. split.
    + intros [[t [Ht Hc]]|[t [Ht Hc]]]; [eapply RmPolyIn|eapply RmPolyOut]; eauto; [now apply H|now apply H0].
    + intros Hr. inversion Hr; subst; [left|right]; eexists; split; eauto; [now apply H|now apply H0].
  - rewrite everywhere_opaque. cbn [unresolvable_here]. rewrite andb_false_iff, negb_false_iff, forallb_false.
    rewrite Forall_forall in H. split.
    + intros [Hr|[x [Hx Hc]]]; [apply RmHere; now apply resolvable_ty_b_spec|].
      eapply RmOpaqueArg; eauto. now apply H.
    + intros Hr. inversion Hr; subst; [left; now apply resolvable_ty_b_spec|].
      right. eexists; split; eauto. now apply H.
  - rewrite everywhere_ext. cbn [unresolvable_here andb]. rewrite forallb_false. rewrite Forall_forall in H. split.
    + intros [x [Hx Hc]]. eapply RmExtArg; eauto. now apply H.
    + intros Hr. inversion Hr; subst. eexists; split; eauto. now apply H.
  - cbn [everywhere_arg]. split; [intros Hc; constructor; now apply H|].
    intros Hr. inversion Hr; subst. now apply H.
  - rewrite everywhere_seq, forallb_false. rewrite Forall_forall in H. split.
    + intros [x [Hx Hc]]. eapply RmSeq; eauto. now apply H.
    + intros Hr. inversion Hr; subst. eexists; split; eauto. now apply H.
Qed.
Lemma no_resolvable_opaque_remains reg t : RegWF reg -> no_ext t = true -> ~ Remains reg (resolve_ty reg t).
Proof.
  intros Hwf Hn Hr. apply remains_clean_both in Hr. rewrite (resolve_deep _ _ Hwf Hn) in Hr. discriminate.
Qed.

(* ------------------------------------------------------------------ the computing relation is sound *)
(* what the monitor evaluates on the implementation's result (rty_b, rop_b) implies the relation of the
   specification; needs the decidable equalities to be equalities *)
Definition leq {A B} (f : A -> B -> bool) : list A -> list B -> bool :=
  fix go (l : list A) (m : list B) : bool :=
    match l, m with [], [] => true | x :: r, y :: s => f x y && go r s | _, _ => false end.
Lemma leq_Forall2 {A B} (f : A -> B -> bool) (R : A -> B -> Prop) l :
  Forall (fun x => forall y, f x y = true -> R x y) l -> forall m, leq f l m = true -> Forall2 R l m.
Proof.
  induction 1 as [|x l Hx _ IH]; intros [|y m]; cbn; try discriminate; [constructor|].
  intros H. apply andb_true_iff in H as [H1 H2]. constructor; auto.
Qed.
Lemma leq_eq {A} (f : A -> A -> bool) l :
  Forall (fun x => forall y, f x y = true -> x = y) l -> forall m, leq f l m = true -> l = m.
Proof.
  intros H m Hm. pose proof (leq_Forall2 f eq l H m Hm) as H2. clear -H2. induction H2; congruence.
Qed.
Lemma list_eqb_leq {A} (f : A -> A -> bool) l m : list_eqb f l m = leq f l m.
Proof. revert m. induction l as [|x l IH]; intros [|y m]; cbn; try reflexivity. now rewrite IH. Qed.
Lemma names_eqb_eq (a b : list name) : list_eqb N.eqb a b = true -> a = b.
Proof. destruct (list_eqb_spec N.eqb N.eqb_spec a b); [auto|discriminate]. Qed.
Lemma bound_eqb_eq a b : bound_eqb a b = true -> a = b.
Proof. destruct a, b; cbn; congruence. Qed.

Section TPInd.
  Variable P : typaram -> Prop.
  Hypothesis HType : forall b, P (PType b).
  Hypothesis HNat : forall ub, P (PNat ub).
  Hypothesis HString : P PString.
  Hypothesis HList : forall p, P p -> P (PList p).
  Hypothesis HTuple : forall ps, Forall P ps -> P (PTuple ps).
  Hypothesis HExts : P PExts.
  Fixpoint typaram_ind2 (p : typaram) : P p :=
    match p with
    | PType b => HType b
    | PNat ub => HNat ub
    | PString => HString
    | PList q => HList q (typaram_ind2 q)
    | PTuple ps =>
        HTuple ps ((fix go (l : list typaram) : Forall P l :=
                      match l with [] => Forall_nil _ | x :: r => Forall_cons x (typaram_ind2 x) (go r) end) ps)
    | PExts => HExts
    end.
End TPInd.
Lemma typaram_eqb_eq a : forall b, typaram_eqb a b = true -> a = b.
Proof.
  induction a using typaram_ind2; intros [] Hb; cbn in Hb; try discriminate; try reflexivity.
  - f_equal. now apply bound_eqb_eq.
  - destruct ub as [x|], ub0 as [y|]; cbn in Hb; try discriminate; [|reflexivity].
    apply N.eqb_eq in Hb. congruence.
  - f_equal. auto.
  - f_equal. eapply leq_eq; eauto.
Qed.
Lemma typarams_eqb_eq a b : list_eqb typaram_eqb a b = true -> a = b.
Proof.
  rewrite list_eqb_leq. apply leq_eq. apply Forall_forall. intros x _ y. apply typaram_eqb_eq.
Qed.
Lemma typedef_eqb_eq a b : typedef_eqb a b = true -> a = b.
Proof.
  destruct a as [e n ds ps bd], b as [e' n' ds' ps' bd']. unfold typedef_eqb. cbn.
  intros H. apply andb_true_iff in H as [H Hb]. apply andb_true_iff in H as [H Hp].
  apply andb_true_iff in H as [H Hd]. apply andb_true_iff in H as [He Hn].
  apply N.eqb_eq in He, Hn, Hd. apply typarams_eqb_eq in Hp. subst. f_equal.
  destruct bd as [x|x], bd' as [y|y]; cbn in Hb; try discriminate.
  - f_equal. now apply bound_eqb_eq.
  - f_equal. destruct (list_eqb_spec Nat.eqb Nat.eqb_spec x y); [auto|discriminate].
Qed.
Lemma extclass_eqb_eq a b : extclass_eqb a b = true -> a = b.
Proof. destruct a, b; cbn; try discriminate; auto. intros H. apply Nat.eqb_eq in H. congruence. Qed.

(* introduces the induction hypotheses of a case, stopping at the quantified second operand *)
Ltac intro_case :=
  repeat lazymatch goal with
         | |- forall b, ?f b = true -> _ => fail
         | |- forall _, _ => intro
         end.
Lemma ty_eqb_eq_both :
  (forall a b, ty_eqb a b = true -> a = b) /\ (forall a b, tyarg_eqb a b = true -> a = b).
Proof.
  apply ty_both_ind; intro_case; intros yy Hb; destruct yy; cbn in Hb; try discriminate Hb; try reflexivity.
  - f_equal. eapply leq_eq; [|exact Hb]. eapply Forall_impl; [|exact H]. intros row Hrow y. now apply leq_eq.
  - apply Nat.eqb_eq in Hb. congruence.
  - apply andb_true_iff in Hb as [H1 H2]. apply Nat.eqb_eq in H1. apply bound_eqb_eq in H2. congruence.
  - apply andb_true_iff in Hb as [H1 H2]. apply Nat.eqb_eq in H1. apply bound_eqb_eq in H2. congruence.
  - apply andb_true_iff in Hb as [H1 H2]. apply N.eqb_eq in H1. apply bound_eqb_eq in H2. congruence.
  - apply andb_true_iff in Hb as [Hb Hr]. apply andb_true_iff in Hb as [Hi Ho].
    apply names_eqb_eq in Hr. f_equal; auto; eapply leq_eq; eauto.
  - apply andb_true_iff in Hb as [Hb Hr]. apply andb_true_iff in Hb as [Hb Ho]. apply andb_true_iff in Hb as [Hp Hi].
    apply names_eqb_eq in Hr. apply typarams_eqb_eq in Hp. f_equal; auto; eapply leq_eq; eauto.
  - apply andb_true_iff in Hb as [Hb Hbd]. apply andb_true_iff in Hb as [Hb Ha]. apply andb_true_iff in Hb as [He Hi].
    apply N.eqb_eq in He, Hi. apply bound_eqb_eq in Hbd. f_equal; auto. eapply leq_eq; eauto.
  - apply andb_true_iff in Hb as [Hb Hc]. apply andb_true_iff in Hb as [Hd Ha].
    apply typedef_eqb_eq in Hd. apply extclass_eqb_eq in Hc. f_equal; auto. eapply leq_eq; eauto.
  - f_equal. auto.
  - apply N.eqb_eq in Hb. congruence.
  - apply N.eqb_eq in Hb. congruence.
  - f_equal. eapply leq_eq; eauto.
  - f_equal. now apply names_eqb_eq.
  - apply andb_true_iff in Hb as [H1 H2]. apply Nat.eqb_eq in H1. apply typaram_eqb_eq in H2. congruence.
Qed.
Lemma ty_eqb_eq a b : ty_eqb a b = true -> a = b.
Proof. apply ty_eqb_eq_both. Qed.
Lemma tyarg_eqb_eq a b : tyarg_eqb a b = true -> a = b.
Proof. apply ty_eqb_eq_both. Qed.
Lemma mem_In {A} (eqb : A -> A -> bool) x l :
  (forall a b, eqb a b = true -> a = b) -> mem eqb x l = true -> In x l.
Proof.
  intros He. induction l as [|y l IH]; cbn; [discriminate|]. intros H. apply orb_true_iff in H as [H|H].
  - left. symmetry. now apply He.
  - right. auto.
Qed.

Lemma rty_b_sound_both reg :
  (forall t t', rty_b reg t t' = true -> RTy reg t t') /\ (forall a a', rarg_b reg a a' = true -> RArg reg a a').
Proof.
  apply ty_both_ind; intro_case; intros yy Hb; destruct yy;
    try (match type of Hb with
         | rty_b _ ?t ?t' = true => change (ty_eqb t t' = true) in Hb; apply ty_eqb_eq in Hb
         | rarg_b _ ?t ?t' = true => change (tyarg_eqb t t' = true) in Hb; apply tyarg_eqb_eq in Hb
         end; try rewrite <- Hb; constructor; fail);
    cbn in Hb; try discriminate Hb.
  - constructor. eapply leq_Forall2; [|exact Hb]. eapply Forall_impl; [|exact H].
    intros row Hrow y. now apply leq_Forall2.
  - apply andb_true_iff in Hb as [Hb Hr]. apply andb_true_iff in Hb as [Hi Ho]. apply names_eqb_eq in Hr. subst.
    constructor; eapply leq_Forall2; eauto.
  - apply andb_true_iff in Hb as [Hb Hr]. apply andb_true_iff in Hb as [Hb Ho]. apply andb_true_iff in Hb as [Hp Hi].
    apply names_eqb_eq in Hr. apply typarams_eqb_eq in Hp. subst. constructor; eapply leq_Forall2; eauto.
  - apply andb_true_iff in Hb as [Hb Ha]. apply andb_true_iff in Hb as [Hb Hbd]. apply andb_true_iff in Hb as [Hb Hi].
    apply andb_true_iff in Hb as [Hn He]. apply N.eqb_eq in He, Hi. apply bound_eqb_eq in Hbd. subst.
    apply ROpaqueUndef; [|eapply leq_Forall2; eauto].
    intros Hr. apply resolvable_ty_b_spec in Hr. rewrite Hr in Hn. discriminate.
  - apply andb_true_iff in Hb as [Hb Ha]. apply andb_true_iff in Hb as [Hm Hc].
    apply extclass_eqb_eq in Hc. subst. apply ROpaqueDef; [|eapply leq_Forall2; eauto].
    apply In_defs_ty. eapply mem_In; [|exact Hm]. apply typedef_eqb_eq.
  - constructor. auto.
  - constructor. eapply leq_Forall2; eauto.
Qed.
Lemma rty_b_sound reg t t' : rty_b reg t t' = true -> RTy reg t t'.
Proof. apply rty_b_sound_both. Qed.
Lemma rarg_b_sound reg a a' : rarg_b reg a a' = true -> RArg reg a a'.
Proof. apply rty_b_sound_both. Qed.

Lemma tys_eqb_eq a b : list_eqb ty_eqb a b = true -> a = b.
Proof. rewrite list_eqb_leq. apply leq_eq, Forall_forall. intros x _ y. apply ty_eqb_eq. Qed.
Lemma tyargs_eqb_eq a b : list_eqb tyarg_eqb a b = true -> a = b.
Proof. rewrite list_eqb_leq. apply leq_eq, Forall_forall. intros x _ y. apply tyarg_eqb_eq. Qed.
Lemma ft_eqb_eq a b : ft_eqb a b = true -> a = b.
Proof.
  destruct a, b. unfold ft_eqb. cbn. intros H. apply andb_true_iff in H as [H Hr]. apply andb_true_iff in H as [Hi Ho].
  apply tys_eqb_eq in Hi, Ho. apply names_eqb_eq in Hr. congruence.
Qed.
Lemma opdef_eqb_eq a b : opdef_eqb a b = true -> a = b.
Proof.
  destruct a, b. unfold opdef_eqb. cbn. intros H. apply andb_true_iff in H as [H Hd]. apply andb_true_iff in H as [He Hn].
  apply N.eqb_eq in He, Hn, Hd. congruence.
Qed.
Lemma custom_eqb_eq a b : custom_eqb a b = true -> a = b.
Proof.
  destruct a, b. unfold custom_eqb. cbn. intros H. apply andb_true_iff in H as [H Ha]. apply andb_true_iff in H as [H Hd].
  apply andb_true_iff in H as [H Hs]. apply andb_true_iff in H as [He Hn].
  apply N.eqb_eq in He, Hn, Hd. apply ft_eqb_eq in Hs. apply tyargs_eqb_eq in Ha. congruence.
Qed.
Lemma op_eqb_eq a b : op_eqb a b = true -> a = b.
Proof.
  destruct a as [c|x|k], b as [c'|x'|k']; cbn; try discriminate; intros H.
  - f_equal. now apply custom_eqb_eq.
  - destruct x, x'. cbn in H. apply andb_true_iff in H as [H Hds]. apply andb_true_iff in H as [H Ha].
    apply andb_true_iff in H as [Hd Hs].
    apply opdef_eqb_eq in Hd. apply ft_eqb_eq in Hs. apply tyargs_eqb_eq in Ha. apply N.eqb_eq in Hds. congruence.
  - apply N.eqb_eq in H. congruence.
Qed.
Lemma rtys_b_sound reg l m : list_eqb (rty_b reg) l m = true -> Forall2 (RTy reg) l m.
Proof.
  revert m. induction l as [|x l IH]; intros [|y m]; cbn; try discriminate; [constructor|].
  intros H. apply andb_true_iff in H as [H1 H2]. constructor; [now apply rty_b_sound|auto].
Qed.
Lemma rop_b_sound reg o o' : rop_b reg o o' = true -> ROp reg o o'.
Proof.
  destruct o as [c|x|k], o' as [c'|x'|k']; cbn; try discriminate; intros H;
    try (match goal with |- ROp _ ?a ?b => apply (op_eqb_eq a b) in H end; rewrite <- H; constructor; fail).
  - apply andb_true_iff in H as [Hn He]. apply custom_eqb_eq in He. subst. constructor.
    intros Hr. apply resolvable_op_b_spec in Hr. rewrite Hr in Hn. discriminate.
  - destruct x' as [d s a ds]. cbn in H. apply andb_true_iff in H as [H Hds]. apply andb_true_iff in H as [H Ha].
    apply andb_true_iff in H as [Hm Hs].
    apply ROpDef; [| | |apply orb_true_iff in Hds as [Hds|Hds]; apply N.eqb_eq in Hds; [now left|now right]].
    + apply In_defs_op. eapply mem_In; [|exact Hm]. apply opdef_eqb_eq.
    + unfold rft_b in Hs. apply andb_true_iff in Hs as [Hs Hr]. apply andb_true_iff in Hs as [Hi Ho].
      apply names_eqb_eq in Hr. repeat split; [now apply rtys_b_sound|now apply rtys_b_sound|exact Hr].
    + clear -Ha. revert a Ha. induction (c_args c) as [|x l IH]; intros [|y m]; cbn; try discriminate; [constructor|].
      intros H. apply andb_true_iff in H as [H1 H2]. constructor; [now apply rarg_b_sound|auto].
Qed.

(* ------------------------------------------------------------------ the property-level statements *)
Lemma monitor_relation_sound reg :
  (forall t t', rty_b reg t t' = true -> RTy reg t t') /\ (forall a a', rarg_b reg a a' = true -> RArg reg a a') /\
  (forall o o', rop_b reg o o' = true -> ROp reg o o') /\ (regwf_b reg = true -> RegWF reg).
Proof.
  split; [|split; [|split]]; intros.
  - now apply rty_b_sound.
  - now apply rarg_b_sound.
  - now apply rop_b_sound.
  - now apply regwf_b_sound.
Qed.

Lemma resolve_exactly_when_defined_thm : forall reg keep, RegWF reg ->
  (forall e id args b,
     ((exists d, defines_ty reg e id d /\
                 resolve_ty reg (TOpaque e id args b) = TExt d (map (resolve_arg reg) args) Generic)
      <-> resolvable_ty reg e id) /\
     (resolve_ty reg (TOpaque e id args b) = TOpaque e id (map (resolve_arg reg) args) b
      <-> ~ resolvable_ty reg e id)) /\
  (forall c,
     ((exists d, defines_op reg (c_ext c) (c_name c) d /\
                 resolve_op reg keep (OCustom c) =
                 OExt {| x_def := d; x_sig := resolve_ft reg (c_sig c); x_args := map (resolve_arg reg) (c_args c);
                    x_descr := resolved_descr keep c d |})
      <-> resolvable_op reg (c_ext c) (c_name c)) /\
     (resolve_op reg keep (OCustom c) = OCustom c <-> ~ resolvable_op reg (c_ext c) (c_name c))).
Proof.
  intros reg keep Hwf. split; intros; split;
    auto using opaque_resolves_iff, opaque_stays_iff, custom_resolves_iff, custom_stays_iff.
Qed.

Lemma resolve_pointwise_thm : forall reg keep, RegWF reg ->
  (forall t, RTy reg t (resolve_ty reg t)) /\ (forall a, RArg reg a (resolve_arg reg a)) /\
  (forall o, ROp reg o (resolve_op reg keep o)) /\
  (forall h, Forall2 (ROp reg) h (resolve_hugr reg keep h)).
Proof.
  intros reg keep Hwf. repeat split; intros.
  - now apply resolve_pointwise.
  - now apply resolve_arg_pointwise.
  - now apply resolve_op_pointwise.
  - unfold resolve_hugr. apply Forall_Forall2_map, Forall_forall. intros. now apply resolve_op_pointwise.
Qed.

Lemma resolve_untouched_otherwise_thm : forall reg keep,
  (forall t, clean reg t = true -> resolve_ty reg t = t) /\
  (forall a, clean_arg reg a = true -> resolve_arg reg a = a) /\
  (forall x, resolve_op reg keep (OExt x) = OExt x) /\ (forall k, resolve_op reg keep (OOther k) = OOther k) /\
  (RegWF reg -> forall c, ~ resolvable_op reg (c_ext c) (c_name c) -> resolve_op reg keep (OCustom c) = OCustom c).
Proof.
  intros reg keep. repeat split; intros; try reflexivity.
  - now apply resolve_clean.
  - now apply resolve_arg_clean.
  - now apply custom_stays_iff.
Qed.

Lemma resolve_preserves_encoding_thm : forall reg keep, RegWF reg ->
  (forall t, consistent reg t = true -> ser_ty (resolve_ty reg t) = ser_ty t) /\
  (forall a, consistent_arg reg a = true -> ser_arg (resolve_arg reg a) = ser_arg a) /\
  (forall o s, consistent_op reg o = true -> ser_op o = Some s ->
     exists s', ser_op (resolve_op reg keep o) = Some s' /\ same_but_descr reg s s') /\
  (forall h s, forallb (consistent_op reg) h = true -> ser_hugr h = Some s ->
     exists s', ser_hugr (resolve_hugr reg keep h) = Some s' /\ Forall2 (same_but_descr reg) s s') /\
  (forall o, consistent_op reg o = true -> (forall c, o = OCustom c -> keep c = true) ->
     ser_op (resolve_op reg keep o) = ser_op o) /\
  (forall c d s', defines_op reg (c_ext c) (c_name c) d -> keep c = false ->
     ser_op (resolve_op reg keep (OCustom c)) = Some (OCustom s') -> c_descr s' = od_descr d).
Proof.
  intros reg keep Hwf. split; [|split; [|split; [|split; [|split]]]]; intros.
  - now apply resolve_ser.
  - now apply resolve_arg_ser.
  - now apply resolve_op_ser.
  - now apply resolve_hugr_ser.
  - now apply resolve_op_ser_keep.
  - eapply resolve_op_ser_take; eauto.
Qed.

Lemma resolve_preserves_model_export_thm : forall reg keep, RegWF reg ->
  (forall t, to_model (resolve_ty reg t) = to_model t) /\
  (forall a, arg_to_model (resolve_arg reg a) = arg_to_model a) /\
  (forall o, export_op (resolve_op reg keep o) = export_op o).
Proof.
  intros reg keep Hwf. repeat split; intros.
  - now apply resolve_model.
  - now apply resolve_arg_model.
  - now apply resolve_op_export.
Qed.

Lemma resolve_preserves_facts_thm : forall reg keep,
  (forall t, consistent reg t = true -> tbound (resolve_ty reg t) = tbound t) /\
  (forall o f, outer_signature o = Some f ->
     exists f', outer_signature (resolve_op reg keep o) = Some f' /\ (f' = f \/ f' = resolve_ft reg f)) /\
  (forall f, consistent_ft reg f = true ->
     ft_reqs (resolve_ft reg f) = ft_reqs f /\
     length (ft_in (resolve_ft reg f)) = length (ft_in f) /\ length (ft_out (resolve_ft reg f)) = length (ft_out f) /\
     row_bounds (ft_in (resolve_ft reg f)) = row_bounds (ft_in f) /\
     row_bounds (ft_out (resolve_ft reg f)) = row_bounds (ft_out f) /\
     (RegWF reg -> ser_ft (resolve_ft reg f) = ser_ft f)).
Proof.
  intros reg keep. repeat split; intros.
  - now apply resolve_bound.
  - now apply resolve_op_signature.
  - apply map_length.
  - apply map_length.
  - unfold consistent_ft in H. apply andb_true_iff in H as [Hi _]. now apply resolve_row_bounds.
  - unfold consistent_ft in H. apply andb_true_iff in H as [_ Ho]. now apply resolve_row_bounds.
  - now apply resolve_ft_ser.
Qed.

Lemma resolve_idempotent_thm : forall reg keep keep',
  (forall t, resolve_ty reg (resolve_ty reg t) = resolve_ty reg t) /\
  (forall a, resolve_arg reg (resolve_arg reg a) = resolve_arg reg a) /\
  (forall o, resolve_op reg keep' (resolve_op reg keep o) = resolve_op reg keep o) /\
  (forall h, resolve_hugr reg keep' (resolve_hugr reg keep h) = resolve_hugr reg keep h).
Proof.
  intros reg keep keep'. repeat split; intros.
  - apply resolve_ty_idem.
  - apply resolve_arg_idem.
  - apply resolve_op_idem.
  - apply resolve_hugr_idem.
Qed.
