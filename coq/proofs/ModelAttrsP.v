(* C12 — re-proved on every run against the regenerated tables. *)
From Coq Require Import List String Bool.
Import ListNotations.
From HV Require Import lib.Harness spec.ModelAttrsS gen.ModelAttrs.
Open Scope string_scope.

Lemma attrs_match : attrs_match_b rs_reads rs_built py_fields = true.
Proof. vm_compute. reflexivity. Qed.

(* the check is not vacuous: it rejects a class with an attribute that is not a field *)
Example attrs_mismatch_detected :
  attrs_match_b [("Var", ["name"; "extra"])] ["Var"] [("Var", ["name"])] = false.
Proof. vm_compute. reflexivity. Qed.
