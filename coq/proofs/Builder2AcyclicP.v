(* C01 (fourth pass) — rule 10 (every dataflow region of the serialised document is acyclic) for EVERY program of the
   extended builder language (model/Builder2.v) that satisfies ord_prog2 (spec/Builder2LiveS.v), and — on the way — the
   order-edge half of rule 11: every order link joins two siblings (OrdSib).

   Forward links (Fwd, proofs/BuilderAcyclicP.v: rank = node index, Output last) and OrdSib are kept by every
   primitive step of the graph store.  The liveness part of the premise is what makes the order edge of a non-local
   wire go forward: a LIVE wire starts at a child of a container that is still open, before every deeper open
   container was created (LiveUnder); dead entries of the interpreter's wire dictionary — wires of closed regions, of
   cases built earlier, of separately built programs (they name nodes of ANOTHER Hugr) — are never used.
   Hugr.insert_hugr re-indexes the inner program's links monotonically, so they stay forward. *)
From Coq Require Import NArith List Bool Arith Lia.
Import ListNotations.
From HV Require Import lib.Harness model.Validity model.Builder model.Builder2 spec.BuilderS spec.BuilderWFS
  proofs.BuilderP proofs.BuilderExtP proofs.BuilderFrameP proofs.BuilderRulesP proofs.BuilderTypeP proofs.BuilderAcyclicP
  proofs.BuilderNonLocalP proofs.BuilderInputsP proofs.BuilderLinearP proofs.BuilderCopyP
  proofs.Builder2UnfoldP proofs.Builder2InvP proofs.Builder2P spec.Builder2WFS
  proofs.Builder2FrameP proofs.Builder2RulesP proofs.Builder2TypeP proofs.Builder2NonLocalP spec.Builder2LiveS.
Local Open Scope N_scope.

(* ------------------------------------------------------------------ both link invariants together *)
Definition FO (st : store) : Prop := Fwd st /\ OrdSib st.
Definition new_ok (st' : store) (e : edge) : Prop :=
  (s_parent st' (e_src e) = s_parent st' (e_dst e) -> fwd_okb (s_nodes st') e = true) /\
  (e_soff e = None -> s_parent st' (e_src e) = s_parent st' (e_dst e)).

Lemma FO_step st st' ext :
  Ext st st' -> LinksOK st -> s_links st' = s_links st ++ ext -> (forall e, In e ext -> new_ok st' e) -> FO st -> FO st'.
Proof.
  intros X K El H [A B]. split.
  - eapply Fwd_step; eauto. intros e Hin. exact (proj1 (H e Hin)).
  - eapply OS_step; eauto. intros e Hin. exact (proj2 (H e Hin)).
Qed.
Lemma FO_nodes st st' : Ext st st' -> LinksOK st -> s_links st' = s_links st -> FO st -> FO st'.
Proof. intros X K El. apply (FO_step st st' []); auto; [now rewrite app_nil_r|intros e []]. Qed.
Lemma FO_empty nodes : FO {| s_nodes := nodes; s_links := [] |}.
Proof. split; intros e []. Qed.

Lemma FO_add_node st o p st' n : add_node st o p = Ok (st', n) -> LinksOK st -> FO st -> FO st' /\ LinksOK st'.
Proof.
  intros H K Q. apply add_node_ok in H. destruct H as (_ & _ & En & El). split.
  - eapply FO_nodes; eauto. eapply Ext_app; eauto.
  - eapply LinksOK_grow; eauto.
Qed.
Lemma FO_set_op st n o st' : set_op st n o = Ok st' -> Same st st' -> LinksOK st -> FO st -> FO st' /\ LinksOK st'.
Proof.
  intros H S K Q. split; [|exact (proj2 S K)]. eapply FO_nodes; eauto; [now apply Same_Ext|]. eapply set_op_links; eauto.
Qed.

(* ------------------------------------------------------------------ the links of one _wire_up *)
Definition GoodW (st : store) (node : N) (w : N * N) : Prop :=
  (forall a, anc_sib st (fst w) node = Some a -> a <> node -> fst w < a) /\
  (fst w < node \/ out_at (s_nodes st) node = true).

Lemma WNew_new_ok st node ws : forall i ts new, WNew st node i ws ts new ->
  (forall w, In w ws -> GoodW st node w) -> forall e, In e new -> new_ok st e.
Proof.
  intros i ts new H. induction H; intros G e0 Hin; [destruct Hin|].
  apply in_app_or in Hin. destruct Hin as [Hin|[<-|Hin]].
  - destruct H0 as [->|[-> Hne]]; [destruct Hin|]. destruct Hin as [<-|[]].
    assert (Hsib : s_parent st (fst w) = s_parent st a).
    { unfold anc_sib in H. apply anc_sib_from_sound in H. now rewrite (AncSib_parent _ _ _ _ H). }
    split; [|intros _; exact Hsib]. intros _. unfold fwd_okb, olink. cbn [e_src e_dst].
    rewrite (typed_not_out _ _ _ H1). cbn [negb andb]. apply orb_true_iff. left. apply N.ltb_lt.
    exact (proj1 (G w (or_introl eq_refl)) a H Hne).
  - split; [|intros Q; discriminate Q]. intros _. unfold fwd_okb, vlink. cbn [e_src e_dst].
    rewrite (typed_not_out _ _ _ H1). cbn [negb andb]. apply orb_true_iff.
    destruct (proj2 (G w (or_introl eq_refl))) as [L|O]; [left; now apply N.ltb_lt|now right].
  - apply IHWNew; auto. intros w' Hw'. apply G. now right.
Qed.

Lemma FO_wire_up st node ws st' ts : wire_up st node ws = Ok (st', ts) -> LinksOK st ->
  (forall w, In w ws -> GoodW st node w) -> FO st -> FO st' /\ LinksOK st'.
Proof.
  intros H K G Q. pose proof (wire_up_from_frame _ _ _ _ _ _ H) as F. split; [|exact (proj2 F K)].
  apply wire_up_spec in H. destruct H as (En & new & El & HW).
  eapply FO_step; [apply Ext_nodes_eq; exact En|exact K|exact El| |exact Q].
  intros e Hin. destruct (WNew_new_ok _ _ _ _ _ _ HW G e Hin) as [A B]. unfold new_ok.
  rewrite !(s_parent_eq st st' _ En), En. auto.
Qed.

(* ------------------------------------------------------------------ a node under the open containers *)
(* n starts before each container that is still open (P and its ancestors), or inside it *)
Definition Under (st : store) (P n : N) : Prop :=
  forall a, AncEq (s_parent st) a P -> n < a \/ Anc (s_parent st) a n.

Lemma under_goodw st P node w : bounded (s_nodes st) = true -> s_parent st node = Some P -> Under st P (fst w) ->
  fst w < node \/ out_at (s_nodes st) node = true -> GoodW st node w.
Proof.
  intros Hb HP U Hn. split; [|exact Hn]. intros a HA Hne.
  unfold anc_sib in HA. apply anc_sib_from_sound in HA.
  pose proof (AncSib_parent _ _ _ _ HA) as Hpar.
  destruct (AncSib_AncEq _ _ _ _ HA) as [->|A]; [contradiction|].
  pose proof (Anc_inv_parent _ _ _ _ A HP) as AE.
  destruct (U a AE) as [L|A2]; [exact L|exfalso].
  destruct (Anc_parent_ge _ _ _ Hb A2) as (m & Hm & Lm). rewrite Hm in Hpar.
  pose proof (s_parent_lt _ _ _ Hb Hpar). lia.
Qed.
Lemma Under_ext st st' P n : Ext st st' -> bounded (s_nodes st') = true -> P < s_len st -> Under st P n -> Under st' P n.
Proof.
  intros X Hb LP U a Ha. destruct (U a (AncEq_back _ _ _ _ X Hb LP Ha)) as [L|A]; [now left|right].
  eapply Anc_mono; [|exact A]. intros k q. now apply parent_ext.
Qed.
Lemma Under_child st P n : s_parent st n = Some P -> Under st P n.
Proof. intros H a Ha. right. eapply Anc_child; eauto. Qed.
Lemma Under_enter st P d n : s_parent st d = Some P -> Under st P n -> n < d -> Under st d n.
Proof.
  intros HP U L a [->|Ha]; [now left|]. apply U. eapply Anc_inv_parent; eauto.
Qed.
Lemma Under_nodes a b P n : s_nodes a = s_nodes b -> Under a P n -> Under b P n.
Proof.
  intros E U x Hx.
  assert (M1 : forall k q, s_parent b k = Some q -> s_parent a k = Some q) by (intros k q; now rewrite (s_parent_nodes a b E)).
  assert (M2 : forall k q, s_parent a k = Some q -> s_parent b k = Some q) by (intros k q; now rewrite (s_parent_nodes a b E)).
  destruct (U x (AncEq_mono _ _ _ _ M1 Hx)) as [L|A]; [now left|right; eapply Anc_mono; eauto].
Qed.

(* ------------------------------------------------------------------ live wires, keys of the dictionaries *)
Definition LiveUnder (st : store) (P : N) (e : env) (live : list wid) : Prop :=
  forall w, In w live -> exists p, wport e w = Some p /\ fst p < s_len st /\ Under st P (fst p).
Definition WKeys (e : env) (usedw : list wid) : Prop := forall w p, wport e w = Some p -> In w usedw.
Definition SKeys (e : env) (used : list sid) : Prop := forall s n, In (s, n) (e_stmts e) -> In s used.
Definition WFresh (e e' : env) (usedw : list wid) : Prop := forall w, In w usedw -> wport e' w = wport e w.

Lemma fresh_ids_spec usedw rs : fresh_ids usedw rs = true -> NoDup rs /\ forall r, In r rs -> ~ In r usedw.
Proof.
  unfold fresh_ids. intros H. apply andb_true_iff in H. destruct H as [H1 H2]. split.
  - destruct (nodupb_spec N.eqb N.eqb_spec rs); [assumption|discriminate].
  - intros r Hr Hu. rewrite forallb_forall in H2. specialize (H2 _ Hr). apply negb_true_iff in H2.
    apply memN_In in Hu. congruence.
Qed.
Lemma fresh_none e usedw rs : WKeys e usedw -> (forall r, In r rs -> ~ In r usedw) -> forall r, In r rs -> wport e r = None.
Proof. intros K F r Hr. destruct (wport e r) as [p|] eqn:E; [|reflexivity]. elim (F r Hr). eapply K; eauto. Qed.

Lemma all_live_In live args : all_live live args = true -> forall a, In a args -> In a live.
Proof. unfold all_live. rewrite forallb_forall. intros H a Ha. apply memN_In. auto. Qed.

Lemma live_wires st P e live args : forall ws, LiveUnder st P e live -> all_live live args = true ->
  get_wires e args = Ok ws -> forall w, In w ws -> fst w < s_len st /\ Under st P (fst w).
Proof.
  intros ws L A G w Hw. destruct (get_wires_arg _ _ _ G _ Hw) as (a & Ha & Hp).
  destruct (L a (all_live_In _ _ A a Ha)) as (p & Hp' & B & C). rewrite Hp in Hp'. inversion Hp'; subst p. auto.
Qed.
Lemma live_wire st P e live a w : LiveUnder st P e live -> In a live -> get_wire e a = Ok w ->
  fst w < s_len st /\ Under st P (fst w).
Proof.
  intros L Ha G. destruct (L a Ha) as (p & Hp & B & C). unfold get_wire in G. unfold wport in Hp. rewrite Hp in G.
  inversion G; subst. auto.
Qed.

Lemma wport_bind_stmt e id n w : wport (bind_stmt e id n) w = wport e w. Proof. reflexivity. Qed.

Lemma LiveUnder_bind_from st P e live n rs :
  LiveUnder st P e live -> (forall r, In r rs -> wport e r = None) -> NoDup rs ->
  s_parent st n = Some P -> n < s_len st -> LiveUnder st P (bind_outs_from e n 0 rs) (rs ++ live).
Proof.
  intros L F ND HP Ln w Hw. apply in_app_or in Hw. destruct Hw as [Hw|Hw].
  - destruct (In_nth_error _ _ Hw) as [j Hj]. exists (n, 0 + N.of_nat j).
    split; [now apply bind_from_nth|]. cbn [fst]. split; [exact Ln|now apply Under_child].
  - destruct (L w Hw) as (p & Hp & B & C). exists p. split; [|auto].
    rewrite bind_from_notin; [exact Hp|]. intros Hr. rewrite (F _ Hr) in Hp. discriminate.
Qed.
Lemma LiveUnder_bind st P e live id n rs :
  LiveUnder st P e live -> (forall r, In r rs -> wport e r = None) -> NoDup rs ->
  s_parent st n = Some P -> n < s_len st -> LiveUnder st P (bind_outs (bind_stmt e id n) n rs) (rs ++ live).
Proof. intros. unfold bind_outs. apply LiveUnder_bind_from; auto. Qed.
Lemma LiveUnder_bind_in st P e live n rs :
  LiveUnder st P e live -> (forall r, In r rs -> wport e r = None) -> NoDup rs ->
  s_parent st n = Some P -> n < s_len st -> LiveUnder st P (bind_outs e n rs) (rs ++ live).
Proof. intros. unfold bind_outs. apply LiveUnder_bind_from; auto. Qed.

Lemma LiveUnder_ext st st' P e e' live usedw : Ext st st' -> bounded (s_nodes st') = true -> P < s_len st ->
  s_len st <= s_len st' -> WFresh e e' usedw -> WKeys e usedw -> LiveUnder st P e live -> LiveUnder st' P e' live.
Proof.
  intros X Hb LP Ll WF K L w Hw. destruct (L w Hw) as (p & Hp & B & C). exists p.
  split; [rewrite WF; [exact Hp|eapply K; eauto]|]. split; [lia|eapply Under_ext; eauto].
Qed.
Lemma WFresh_refl e usedw : WFresh e e usedw. Proof. intros w _. reflexivity. Qed.
Lemma WFresh_trans e e1 e2 usedw usedw1 : (forall w, In w usedw -> In w usedw1) ->
  WFresh e e1 usedw -> WFresh e1 e2 usedw1 -> WFresh e e2 usedw.
Proof. intros I A B w Hw. rewrite B by auto. now apply A. Qed.

Lemma wport_bind_cases n rs : forall e i w p, wport (bind_outs_from e n i rs) w = Some p -> In w rs \/ wport e w = Some p.
Proof.
  induction rs as [|r rest IH]; intros e i w p H; cbn [bind_outs_from] in H; [now right|].
  destruct (IH _ _ _ _ H) as [A|A]; [left; now right|]. unfold wport in A. cbn [e_wires lookup] in A.
  destruct (N.eqb_spec w r) as [->|_]; [left; now left|now right].
Qed.
Lemma WKeys_bind_from e usedw n rs : WKeys e usedw -> WKeys (bind_outs_from e n 0 rs) (rs ++ usedw).
Proof.
  intros K w p H. apply in_or_app. destruct (wport_bind_cases _ _ _ _ _ _ H) as [A|A]; [now left|right; eapply K; eauto].
Qed.
Lemma WKeys_bind e usedw id n rs : WKeys e usedw -> WKeys (bind_outs (bind_stmt e id n) n rs) (rs ++ usedw).
Proof. intros K. unfold bind_outs. now apply WKeys_bind_from. Qed.
Lemma WKeys_mono e usedw usedw' : (forall w, In w usedw -> In w usedw') -> WKeys e usedw -> WKeys e usedw'.
Proof. intros I K w p H. apply I. eapply K; eauto. Qed.
Lemma WFresh_bind_from e usedw n rs : (forall r, In r rs -> ~ In r usedw) -> WFresh e (bind_outs_from e n 0 rs) usedw.
Proof. intros F w Hw. apply bind_from_notin. intros Hr. exact (F _ Hr Hw). Qed.
Lemma WFresh_bind e usedw id n rs : (forall r, In r rs -> ~ In r usedw) -> WFresh e (bind_outs (bind_stmt e id n) n rs) usedw.
Proof. intros F w Hw. unfold bind_outs. now rewrite (WFresh_bind_from (bind_stmt e id n) usedw n rs F w Hw). Qed.
Lemma SKeys_bind e used id n rs : SKeys e used -> SKeys (bind_outs (bind_stmt e id n) n rs) (id :: used).
Proof.
  intros K s m Hin. unfold bind_outs in Hin. rewrite bind_outs_from_stmts in Hin. cbn in Hin.
  destruct Hin as [Hin|Hin]; [inversion Hin; now left|right; eauto].
Qed.
Lemma SKeys_bind_in e used n rs : SKeys e used -> SKeys (bind_outs e n rs) used.
Proof. intros K s m Hin. unfold bind_outs in Hin. rewrite bind_outs_from_stmts in Hin. eauto. Qed.
Lemma SKeys_mono e used used' : (forall s, In s used -> In s used') -> SKeys e used -> SKeys e used'.
Proof. intros I K s n H. apply I. eapply K; eauto. Qed.

(* ------------------------------------------------------------------ the statements of the current region *)
Definition ScopeNotOut (st : store) (e : env) (scope : list sid) : Prop :=
  forall s n, In s scope -> lookup (e_stmts e) s = Some n -> out_at (s_nodes st) n = false.
Record ScopeOK (st : store) (e : env) (P lo : N) (scope used : list sid) : Prop := {
  so_sorted : SSorted e lo scope; so_parent : ScopeParent st e P scope; so_notout : ScopeNotOut st e scope;
  so_keys : SKeys e used; so_sub : forall s, In s scope -> In s used }.

Lemma s_parent_some_lt st n p : s_parent st n = Some p -> n < s_len st.
Proof.
  unfold s_parent. destruct (n =? 0); [discriminate|]. destruct (nthN (s_nodes st) n) eqn:E; [|discriminate].
  intros _. eapply nthN_lt; eauto.
Qed.

Lemma ScopeOK_nil st e P lo used : SKeys e used -> ScopeOK st e P lo [] used.
Proof. intros K. constructor; [exact I|intros s []|intros s n []|exact K|intros s []]. Qed.

Lemma ScopeOK_ext st st' e P lo scope used : Ext st st' -> ScopeOK st e P lo scope used -> ScopeOK st' e P lo scope used.
Proof.
  intros X [A B C D E]. constructor; auto; [eapply ScopeParent_ext; eauto|].
  intros s n Hs Hn. destruct (B s Hs) as (m & Hm & Hp). rewrite Hn in Hm. inversion Hm; subst m.
  rewrite (out_at_ext _ _ _ X (s_parent_some_lt _ _ _ Hp)). eauto.
Qed.

Lemma ScopeOK_push st st' e e1 P lo scope used used' id n rs :
  ScopeOK st e P lo scope used -> Ext st st' -> StmtsFresh e e1 used -> SKeys e1 used' ->
  ~ In id used -> In id used' -> (forall s, In s used -> In s used') ->
  s_parent st' n = Some P -> out_at (s_nodes st') n = false -> s_len st <= n -> lo < n ->
  ScopeOK st' (bind_outs (bind_stmt e1 id n) n rs) P lo (id :: scope) used'.
Proof.
  intros [A B C D E] X F K' Hid Hid' Inc HP HO Ln Llo.
  assert (Eq : forall s, In s scope -> lookup (e_stmts (bind_outs (bind_stmt e1 id n) n rs)) s = lookup (e_stmts e) s).
  { intros s Hs. rewrite lookup_bind_stmt. destruct (N.eqb_spec s id) as [->|_]; [elim Hid; auto|]. apply F. auto. }
  constructor.
  - split; [|eapply SSorted_ext; eauto].
    exists n. split; [rewrite lookup_bind_stmt, N.eqb_refl; reflexivity|]. split; [exact Llo|].
    intros s' Hs'. destruct (B _ Hs') as (n' & Hn' & Hp'). exists n'. split; [rewrite Eq; auto|].
    pose proof (s_parent_some_lt _ _ _ Hp'). lia.
  - intros s [<-|Hs].
    + exists n. split; [rewrite lookup_bind_stmt, N.eqb_refl; reflexivity|exact HP].
    + destruct (B _ Hs) as (m & Hm & Hp). exists m. split; [rewrite Eq; auto|eapply parent_ext; eauto].
  - intros s m [<-|Hs] Hm.
    + rewrite lookup_bind_stmt, N.eqb_refl in Hm. inversion Hm; subst m. exact HO.
    + rewrite Eq in Hm by exact Hs. destruct (B _ Hs) as (m' & Hm' & Hp). rewrite Hm in Hm'. inversion Hm'; subst m'.
      rewrite (out_at_ext _ _ _ X (s_parent_some_lt _ _ _ Hp)). eauto.
  - intros s m Hin. unfold bind_outs in Hin. rewrite bind_outs_from_stmts in Hin. cbn in Hin.
    destruct Hin as [Hin|Hin]; [inversion Hin; subst; exact Hid'|eauto].
  - intros s [<-|Hs]; [exact Hid'|auto].
Qed.

Lemma StmtsFresh_refl e used : StmtsFresh e e used. Proof. intros s _. reflexivity. Qed.
Lemma StmtsFresh_bind_in e n rs used : StmtsFresh e (bind_outs e n rs) used.
Proof. intros s _. unfold bind_outs. now rewrite bind_outs_from_stmts. Qed.

(* ------------------------------------------------------------------ the inserted block *)
Lemma s_parent_exists st n : n <> 0 -> n < s_len st -> exists p, s_parent st n = Some p.
Proof.
  intros Hn L. destruct (nthN_some_lt _ _ L) as [nd E]. exists (n_parent nd). now apply s_parent_at.
Qed.

Section InsertFO.
  Variables (st sti st1 : store) (parent : N).
  Let base := s_len st.
  Hypothesis En : s_nodes st1 = s_nodes st ++ map (shiftn base parent) (indexed (s_nodes sti)).
  Hypothesis El : s_links st1 = s_links st ++ map (shift_edge base) (s_links sti).

  Lemma out_at_shift n : out_at (s_nodes st1) (base + n) = out_at (s_nodes sti) n.
  Proof.
    unfold out_at. rewrite En. unfold base, s_len. rewrite nthN_app_ge by lia.
    replace (lenN (s_nodes st) + n - lenN (s_nodes st)) with n by lia. rewrite nthN_shifted.
    destruct (nthN (s_nodes sti) n); reflexivity.
  Qed.

  Lemma shifted_new_ok e : LinksOK sti -> LinksPos sti -> FO sti -> In e (s_links sti) -> new_ok st1 (shift_edge base e).
  Proof.
    intros K LP [FW OS] Hin. destruct (LinksOK_in _ _ K Hin) as [Ls Ld].
    unfold LinksPos in LP. rewrite forallb_forall in LP. specialize (LP _ Hin). apply andb_true_iff in LP.
    destruct LP as [P1 P2]. apply negb_true_iff, N.eqb_neq in P1, P2.
    destruct (s_parent_exists _ _ P1 Ls) as [ps Hps]. destruct (s_parent_exists _ _ P2 Ld) as [pd Hpd].
    pose proof (s_parent_shift st sti st1 parent En _ _ Hps) as Qs. pose proof (s_parent_shift st sti st1 parent En _ _ Hpd) as Qd.
    fold base in Qs, Qd. unfold new_ok. cbn [shift_edge e_src e_dst e_soff]. rewrite Qs, Qd. split.
    - intros E. assert (ps = pd) by (inversion E; lia). subst pd.
      assert (F : fwd_okb (s_nodes sti) e = true) by (apply FW; [exact Hin|congruence]).
      unfold fwd_okb in *. cbn [shift_edge e_src e_dst]. rewrite !out_at_shift.
      replace (base + e_src e <? base + e_dst e) with (e_src e <? e_dst e); [exact F|].
      destruct (N.ltb_spec (e_src e) (e_dst e)), (N.ltb_spec (base + e_src e) (base + e_dst e)); try reflexivity; lia.
    - intros Eo. pose proof (OS e Hin Eo) as Q. rewrite Hps, Hpd in Q. inversion Q. reflexivity.
  Qed.

  Lemma FO_insert : LinksOK st -> LinksOK sti -> LinksPos sti -> FO st -> FO sti -> FO st1.
  Proof.
    intros K Ki LP Q Qi. eapply FO_step; [eapply Ext_app; exact En|exact K|exact El| |exact Q].
    intros e' Hin. apply in_map_iff in Hin. destruct Hin as (e & <- & Hin). now apply shifted_new_ok.
  Qed.
End InsertFO.

(* ------------------------------------------------------------------ inversion of the checker *)
Lemma negb_memN_false x l : negb (memN x l) = true -> ~ In x l.
Proof. intros H Hin. apply negb_true_iff in H. apply memN_In in Hin. congruence. Qed.

Lemma ord_TOp_inv id o args rs scope used live usedw r : ord_stmt2 (TOp id o args rs) scope used live usedw = Some r ->
  ~ In id used /\ all_live live args = true /\ fresh_ids usedw rs = true /\ r = (id :: scope, id :: used, rs ++ live, rs ++ usedw).
Proof.
  cbn [ord_stmt2]. destruct (negb (memN id used) && all_live live args && fresh_ids usedw rs) eqn:E; [|discriminate].
  apply andb_true_iff in E. destruct E as [E E3]. apply andb_true_iff in E. destruct E as [E1 E2].
  intros H. inversion H. auto using negb_memN_false.
Qed.
Lemma ord_TCallInd_inv id args rs scope used live usedw r : ord_stmt2 (TCallInd id args rs) scope used live usedw = Some r ->
  ~ In id used /\ all_live live args = true /\ fresh_ids usedw rs = true /\ r = (id :: scope, id :: used, rs ++ live, rs ++ usedw).
Proof.
  cbn [ord_stmt2]. destruct (negb (memN id used) && all_live live args && fresh_ids usedw rs) eqn:E; [|discriminate].
  apply andb_true_iff in E. destruct E as [E E3]. apply andb_true_iff in E. destruct E as [E1 E2].
  intros H. inversion H. auto using negb_memN_false.
Qed.
Lemma ord_TLoad_inv id v cp w scope used live usedw r : ord_stmt2 (TLoad id v cp w) scope used live usedw = Some r ->
  ~ In id used /\ fresh_ids usedw [w] = true /\ r = (id :: scope, id :: used, [w] ++ live, [w] ++ usedw).
Proof.
  cbn [ord_stmt2]. destruct (negb (memN id used) && fresh_ids usedw [w]) eqn:E; [|discriminate].
  apply andb_true_iff in E. destruct E as [E1 E2]. intros H. inversion H. auto using negb_memN_false.
Qed.
Lemma ord_TOrder_inv src dst scope used live usedw r : ord_stmt2 (TOrder src dst) scope used live usedw = Some r ->
  order_fwd scope src dst = true /\ r = (scope, used, live, usedw).
Proof. cbn [ord_stmt2]. destruct (order_fwd scope src dst); [|discriminate]. intros H. inversion H. auto. Qed.
Lemma ord_TNested_inv id args body rs scope used live usedw r : ord_stmt2 (TNested id args body rs) scope used live usedw = Some r ->
  exists used1 usedw1, ~ In id used /\ all_live live args = true /\
    ord_region2 body (id :: used) live usedw = Some (used1, usedw1) /\ fresh_ids usedw1 rs = true /\
    r = (id :: scope, used1, rs ++ live, rs ++ usedw1).
Proof.
  cbn [ord_stmt2]. destruct (negb (memN id used) && all_live live args) eqn:E; [|discriminate].
  apply andb_true_iff in E. destruct E as [E1 E2]. intros H.
  match type of H with match ?x with _ => _ end = _ => destruct x as [[used1 usedw1]|] eqn:OR; [|discriminate] end.
  destruct (fresh_ids usedw1 rs) eqn:F; [|discriminate]. inversion H. exists used1, usedw1. auto 7 using negb_memN_false.
Qed.
Lemma ord_TLoop_inv id just rest body rs scope used live usedw r : ord_stmt2 (TLoop id just rest body rs) scope used live usedw = Some r ->
  exists used1 usedw1, ~ In id used /\ all_live live (just ++ rest) = true /\
    ord_region2 body (id :: used) live usedw = Some (used1, usedw1) /\ fresh_ids usedw1 rs = true /\
    r = (id :: scope, used1, rs ++ live, rs ++ usedw1).
Proof.
  cbn [ord_stmt2]. destruct (negb (memN id used) && all_live live (just ++ rest)) eqn:E; [|discriminate].
  apply andb_true_iff in E. destruct E as [E1 E2]. intros H.
  match type of H with match ?x with _ => _ end = _ => destruct x as [[used1 usedw1]|] eqn:OR; [|discriminate] end.
  destruct (fresh_ids usedw1 rs) eqn:F; [|discriminate]. inversion H. exists used1, usedw1. auto 7 using negb_memN_false.
Qed.
Lemma ord_TCond_inv id cond args cs rs scope used live usedw r : ord_stmt2 (TCond id cond args cs rs) scope used live usedw = Some r ->
  exists used1 usedw1, ~ In id used /\ all_live live (cond :: args) = true /\
    ord_cases2 cs (id :: used) live usedw = Some (used1, usedw1) /\ fresh_ids usedw1 rs = true /\
    r = (id :: scope, used1, rs ++ live, rs ++ usedw1).
Proof.
  cbn [ord_stmt2]. destruct (negb (memN id used) && all_live live (cond :: args)) eqn:E; [|discriminate].
  apply andb_true_iff in E. destruct E as [E1 E2]. intros H.
  match type of H with match ?x with _ => _ end = _ => destruct x as [[used1 usedw1]|] eqn:OR; [|discriminate] end.
  destruct (fresh_ids usedw1 rs) eqn:F; [|discriminate]. inversion H. exists used1, usedw1. auto 7 using negb_memN_false.
Qed.
Lemma ord_TInsert_inv id sub args rs scope used live usedw r : ord_stmt2 (TInsert id sub args rs) scope used live usedw = Some r ->
  exists used1 usedw1, ~ In id used /\ all_live live args = true /\
    ord_progx sub (id :: used) usedw = Some (used1, usedw1) /\ fresh_ids usedw1 rs = true /\
    r = (id :: scope, used1, rs ++ live, rs ++ usedw1).
Proof.
  cbn [ord_stmt2]. destruct (negb (memN id used) && all_live live args) eqn:E; [|discriminate].
  apply andb_true_iff in E. destruct E as [E1 E2]. intros H.
  match type of H with match ?x with _ => _ end = _ => destruct x as [[used1 usedw1]|] eqn:OR; [|discriminate] end.
  destruct (fresh_ids usedw1 rs) eqn:F; [|discriminate]. inversion H. exists used1, usedw1. auto 7 using negb_memN_false.
Qed.
Lemma ord_Reg_inv ins body outs used live usedw r : ord_region2 (Reg ins body outs) used live usedw = Some r ->
  exists sc used1 live1 usedw1, fresh_ids usedw ins = true /\
    ord_stmts2 body [] used (ins ++ live) (ins ++ usedw) = Some (sc, used1, live1, usedw1) /\
    all_live live1 outs = true /\ r = (used1, usedw1).
Proof.
  cbn [ord_region2]. destruct (fresh_ids usedw ins) eqn:F; [|discriminate]. intros H.
  match type of H with match ?x with _ => _ end = _ => destruct x as [[[[sc used1] live1] usedw1]|] eqn:OB; [|discriminate] end.
  destruct (all_live live1 outs) eqn:A; [|discriminate]. inversion H. eauto 9.
Qed.
Lemma ord_TCons_inv s l scope used live usedw r : ord_stmts2 (TCons s l) scope used live usedw = Some r ->
  exists sc us lv uw, ord_stmt2 s scope used live usedw = Some (sc, us, lv, uw) /\ ord_stmts2 l sc us lv uw = Some r.
Proof.
  cbn [ord_stmts2]. intros H.
  match type of H with match ?x with _ => _ end = _ => destruct x as [[[[sc us] lv] uw]|] eqn:O1; [|discriminate] end. eauto 7.
Qed.
Lemma ord_CCons_inv i rg rest used live usedw r : ord_cases2 (CCons i rg rest) used live usedw = Some r ->
  exists used1 usedw1, ord_region2 rg used live usedw = Some (used1, usedw1) /\ ord_cases2 rest used1 live usedw1 = Some r.
Proof.
  cbn [ord_cases2]. intros H.
  match type of H with match ?x with _ => _ end = _ => destruct x as [[used1 usedw1]|] eqn:O1; [|discriminate] end. eauto.
Qed.

(* ------------------------------------------------------------------ what the structural and frame inductions give *)
Lemma Inv2_bounded st : Inv2 st -> bounded (s_nodes st) = true.
Proof. intros I. exact (proj1 (proj2 (proj2 (proj1 I)))). Qed.

Lemma OpenB2_facts st b : OpenB2 (s_nodes st) b ->
  b_parent b + 2 < s_len st /\ b_in b = b_parent b + 1 /\ b_out b = b_parent b + 2 /\
  s_parent st (b_in b) = Some (b_parent b) /\ s_parent st (b_out b) = Some (b_parent b) /\
  out_at (s_nodes st) (b_in b) = false /\ out_at (s_nodes st) (b_out b) = true.
Proof.
  intros O. pose proof (OpenB2_lt _ _ O) as L. destruct O as (Ei & Eo & o & ins & pp & Hp & Hop & Hi & Ho).
  split; [exact L|]. split; [exact Ei|]. split; [exact Eo|]. rewrite Ei, Eo. repeat split.
  - eapply s_parent_mk; [exact Hi|lia].
  - eapply s_parent_mk; [exact Ho|lia].
  - unfold out_at. now rewrite Hi.
  - unfold out_at. now rewrite Ho.
Qed.

Section AcyMain2.
  Variable tys : list tyinfo.

  Record Cpre2 (strict : bool) (st : store) (b : dfb) (e : env) : Prop := {
    c2_inv : Inv2 st; c2_root : RootDF strict (s_nodes st); c2_base : Fbase2 st;
    c2_open : OpenB2 (s_nodes st) b; c2_pos : EnvPos e }.

  Lemma cpre2_stmt s strict b st e st' e' : exec_stmt2 tys s b st e = Ok (st', e') -> croot_stmt strict s = true ->
    Cpre2 strict st b e -> Cpre2 strict st' b e' /\ Keep st st' /\ Ext st st' /\ s_len st <= s_len st'.
  Proof.
    intros H Hc [I R F O EP]. destruct (exec2_keeps_invariants tys) as (KS & _). destruct (exec2_frame tys) as (FS & _).
    destruct (KS s strict _ _ _ _ _ H Hc I R (OpenB2_WB2 _ _ O)) as [I' X].
    destruct (FS s strict _ _ _ _ _ H Hc F O EP) as (F' & K & L & EP' & CF).
    split; [constructor; auto; [eapply RootDF_ext; eauto|eapply OpenB2_keep; eauto]|auto].
  Qed.
  Lemma cpre2_stmts l strict b st e st' e' : exec_stmts2 tys l b st e = Ok (st', e') -> croot_stmts strict l = true ->
    Cpre2 strict st b e -> Cpre2 strict st' b e' /\ Keep st st' /\ Ext st st' /\ s_len st <= s_len st'.
  Proof.
    intros H Hc [I R F O EP]. destruct (exec2_keeps_invariants tys) as (_ & _ & KL & _). destruct (exec2_frame tys) as (_ & _ & FL & _).
    destruct (KL l strict _ _ _ _ _ H Hc I R (OpenB2_WB2 _ _ O)) as [I' X].
    destruct (FL l strict _ _ _ _ _ H Hc F O EP) as (F' & K & L & EP' & CF).
    split; [constructor; auto; [eapply RootDF_ext; eauto|eapply OpenB2_keep; eauto]|auto].
  Qed.
  Lemma cpre2_region r strict b st e st' e' : exec_region2 tys r b st e = Ok (st', e') -> croot_region strict r = true ->
    Cpre2 strict st b e ->
    Inv2 st' /\ RootDF strict (s_nodes st') /\ Fbase2 st' /\ EnvPos e' /\ KeepX (b_parent b) (b_out b) st st' /\
    Ext st st' /\ s_len st <= s_len st' /\ ClosedB tys st st' b.
  Proof.
    intros H Hc [I R F O EP]. destruct (exec2_keeps_invariants tys) as (_ & KR & _). destruct (exec2_frame tys) as (_ & FR & _).
    destruct (KR r strict _ _ _ _ _ H Hc I R (OpenB2_WB2 _ _ O)) as [I' X].
    destruct (FR r strict _ _ _ _ _ H Hc F O EP) as (F' & K & L & EP' & CF & CB).
    split; [exact I'|]. split; [eapply RootDF_ext; eauto|]. auto 10.
  Qed.

  (* ---------------------------------------------------------------- a statement returns: its node is bound *)
  Lemma stmt_exit strict b st st4 st' e e5 id d rs scope used used1 live usedw usedw1 :
    Cpre2 strict st b e -> Ext st st4 -> Ext st4 st' -> bounded (s_nodes st') = true ->
    s_len st <= d -> d < s_len st4 -> s_len st4 <= s_len st' ->
    s_parent st4 d = Some (b_parent b) -> out_at (s_nodes st4) d = false ->
    ~ In id used -> fresh_ids usedw1 rs = true ->
    LiveUnder st (b_parent b) e live -> WKeys e usedw -> ScopeOK st e (b_parent b) (b_parent b + 2) scope used ->
    WKeys e5 usedw1 -> SKeys e5 used1 -> WFresh e e5 usedw -> StmtsFresh e e5 (id :: used) ->
    (forall x, In x (id :: used) -> In x used1) -> (forall x, In x usedw -> In x usedw1) ->
    LiveUnder st' (b_parent b) (bind_outs (bind_stmt e5 id d) d rs) (rs ++ live) /\
    WKeys (bind_outs (bind_stmt e5 id d) d rs) (rs ++ usedw1) /\
    ScopeOK st' (bind_outs (bind_stmt e5 id d) d rs) (b_parent b) (b_parent b + 2) (id :: scope) used1 /\
    WFresh e (bind_outs (bind_stmt e5 id d) d rs) usedw /\ StmtsFresh e (bind_outs (bind_stmt e5 id d) d rs) used /\
    (forall x, In x used -> In x used1) /\ (forall x, In x usedw -> In x (rs ++ usedw1)).
  Proof.
    intros [I R F O EP] X4 X' B' Ld Ld4 L' HP4 HO4 Hid FR L0 K0 SO K5 SK5 WF5 SF5 Inc Incw.
    destruct (OpenB2_facts _ _ O) as (Lb & _).
    destruct (fresh_ids_spec _ _ FR) as [NDr Fr].
    pose proof (Ext_trans _ _ _ X4 X') as X.
    assert (HP' : s_parent st' d = Some (b_parent b)) by exact (parent_ext _ _ _ _ X' HP4).
    assert (HO' : out_at (s_nodes st') d = false) by (rewrite (out_at_ext _ _ _ X' Ld4); exact HO4).
    split; [|split; [|split; [|split; [|split; [|split]]]]].
    - apply LiveUnder_bind; auto.
      + eapply (LiveUnder_ext st st' _ e e5 live usedw); eauto; lia.
      + eapply fresh_none; eauto.
      + lia.
    - now apply WKeys_bind.
    - eapply (ScopeOK_push st st' e e5); eauto.
      + intros s Hs. apply SF5. now right.
      + apply Inc. now left.
      + intros s Hs. apply Inc. now right.
      + lia.
    - eapply WFresh_trans; [exact Incw|exact WF5|]. now apply WFresh_bind.
    - intros s Hs. rewrite lookup_bind_stmt. destruct (N.eqb_spec s id) as [->|_]; [contradiction|]. apply SF5. now right.
    - intros x Hx. apply Inc. now right.
    - intros x Hx. apply in_or_app. right. auto.
  Qed.

  (* ---------------------------------------------------------------- a leaf node: appended, wired, completed *)
  Lemma leaf_FO strict b st e st' ws op0 st1 n st2 ts op' :
    Cpre2 strict st b e -> Inv2 st' ->
    add_node st op0 (b_parent b) = Ok (st1, n) -> wire_up st1 n ws = Ok (st2, ts) -> set_op st2 n op' = Ok st' ->
    canon op' = canon op0 -> is_output op0 = false ->
    (forall w, In w ws -> fst w < s_len st /\ Under st (b_parent b) (fst w)) -> FO st ->
    FO st' /\ n = s_len st /\ s_parent st' n = Some (b_parent b) /\ out_at (s_nodes st') n = false /\ s_len st' = s_len st + 1.
  Proof.
    intros [I R F O EP] I' E1 E2 E4 Hcan Hout Hws Q.
    destruct (OpenB2_facts _ _ O) as (Lb & _).
    destruct (FO_add_node _ _ _ _ _ E1 (proj2 I) Q) as [Q1 K1].
    pose proof E1 as E1'. apply add_node_ok in E1'. destruct E1' as (Lp & -> & En1 & El1).
    pose proof (wire_up_spec _ _ _ _ _ E2) as (En2 & _).
    assert (Hn2 : nthN (s_nodes st2) (s_len st) = Some (mk op0 (b_parent b))) by (rewrite En2, En1; unfold s_len; apply nthN_len).
    assert (S3 : Same st2 st').
    { eapply set_op_same; [exact E4|]. exists (mk op0 (b_parent b)). split; [exact Hn2|]. cbn. now symmetry. }
    assert (B2 : bounded (s_nodes st2) = true) by (rewrite <- bounded_canon, <- (proj1 S3), bounded_canon; now apply Inv2_bounded).
    assert (B1 : bounded (s_nodes st1) = true) by now rewrite <- En2.
    assert (HP1 : s_parent st1 (s_len st) = Some (b_parent b)).
    { eapply s_parent_mk; [rewrite En1; unfold s_len; apply nthN_len|lia]. }
    assert (G : forall w, In w ws -> GoodW st1 (s_len st) w).
    { intros w Hw. destruct (Hws w Hw) as [Lw Uw]. apply (under_goodw st1 (b_parent b)); auto.
      eapply Under_ext; [eapply Ext_app; exact En1|exact B1|lia|exact Uw]. }
    destruct (FO_wire_up _ _ _ _ _ E2 K1 G Q1) as [Q2 K2].
    destruct (FO_set_op _ _ _ _ E4 S3 K2 Q2) as [Q' _].
    destruct (set_op_ok _ _ _ _ E4) as (nd & Hn & En3 & _). rewrite Hn2 in Hn. inversion Hn; subst nd. cbn [mk n_parent] in En3.
    assert (Hn' : nthN (s_nodes st') (s_len st) = Some (mk op' (b_parent b))).
    { rewrite En3. apply nthN_set_nth_eq. eapply nthN_lt; eauto. }
    split; [exact Q'|]. split; [reflexivity|]. split; [eapply s_parent_mk; [exact Hn'|lia]|]. split.
    - unfold out_at. rewrite Hn'. cbn [mk n_op]. now rewrite <- is_output_canon, Hcan, is_output_canon.
    - unfold s_len. rewrite En3, lenN_set_nth, En2, En1, lenN_app. reflexivity.
  Qed.

  (* ---------------------------------------------------------------- a container with its Input / Output, wired *)
  Lemma container_FO strict b st e co ti ws st1 d st2 i st3 o st4 ts4 live :
    Cpre2 strict st b e ->
    add_node st co (b_parent b) = Ok (st1, d) -> add_node st1 (Input ti) d = Ok (st2, i) -> add_node st2 (Output []) d = Ok (st3, o) ->
    wire_up st3 d ws = Ok (st4, ts4) -> open_op co ti -> is_case co = false -> dataflow_child co = true ->
    (forall w, In w ws -> 0 < fst w /\ fst w < s_len st /\ Under st (b_parent b) (fst w)) ->
    FO st -> LiveUnder st (b_parent b) e live ->
    d = s_len st /\ i = s_len st + 1 /\ o = s_len st + 2 /\ Cpre2 strict st4 (mkb (s_len st) (s_len st + 1) (s_len st + 2)) e /\
    FO st4 /\ LiveUnder st4 (s_len st) e live /\ Ext st st4 /\ s_len st4 = s_len st + 3 /\
    s_parent st4 (s_len st) = Some (b_parent b) /\ out_at (s_nodes st4) (s_len st) = false.
  Proof.
    intros [I R F O EP] A1 A2 A3 Wu Hop Hc Hdc Hws Q L0.
    destruct (OpenB2_facts _ _ O) as (Lb & _).
    destruct (new_container _ _ _ _ _ _ _ _ _ _ A1 A2 A3 I (OpenB2_WB2 _ _ O) (open_op_dfk _ _ Hop) Hdc) as (I3 & X3 & W3).
    pose proof (Frame_Same _ _ (wire_up_from_frame _ _ _ _ _ _ Wu)) as S4.
    pose proof (InvX_Same _ _ _ S4 I3) as I4.
    pose proof (Ext_trans _ _ _ X3 (Same_Ext _ _ S4)) as X4.
    destruct (FO_add_node _ _ _ _ _ A1 (proj2 I) Q) as [Q1 K1]. destruct (FO_add_node _ _ _ _ _ A2 K1 Q1) as [Q2 K2].
    destruct (FO_add_node _ _ _ _ _ A3 K2 Q2) as [Q3 K3].
    destruct (container_spec _ _ _ _ _ _ _ _ _ _ _ _ _ A1 A2 A3 Wu) as (new & Lp & -> & -> & -> & En3 & El3 & HW & En4 & El4 & L4).
    destruct (OpenB2_pos _ _ O) as (P & _). fold (s_len st) in P.
    destruct (container_entry st _ co ti ws ts4 new st3 st4 F P (fun w Hw => proj1 (Hws w Hw)) Hop Hc En3 HW En4 El4) as (F4 & O4 & K4 & _).
    assert (Hd3 : nthN (s_nodes st3) (s_len st) = Some (mk co (b_parent b))) by (rewrite En3; unfold s_len; apply nthN_len).
    assert (HP3 : s_parent st3 (s_len st) = Some (b_parent b)) by (eapply s_parent_mk; [exact Hd3|lia]).
    assert (B3 : bounded (s_nodes st3) = true) by now apply Inv2_bounded.
    assert (G : forall w, In w ws -> GoodW st3 (s_len st) w).
    { intros w Hw. destruct (Hws w Hw) as (_ & Lw & Uw). apply (under_goodw st3 (b_parent b)); auto.
      eapply Under_ext; [exact X3|exact B3|lia|exact Uw]. }
    destruct (FO_wire_up _ _ _ _ _ Wu K3 G Q3) as [Q4 K4'].
    assert (HP4 : s_parent st4 (s_len st) = Some (b_parent b)) by (rewrite (s_parent_nodes st4 st3 En4); exact HP3).
    assert (B4 : bounded (s_nodes st4) = true) by now apply Inv2_bounded.
    split; [reflexivity|]. split; [reflexivity|]. split; [reflexivity|].
    split; [constructor; auto; eapply RootDF_ext; eauto|]. split; [exact Q4|].
    split; [|split; [exact X4|split; [exact L4|split; [exact HP4|]]]].
    - intros w Hw. destruct (L0 w Hw) as (p & Hp & Lp' & Up). exists p. split; [exact Hp|]. split; [lia|].
      apply (Under_enter st4 (b_parent b)); auto. eapply Under_ext; [exact X4|exact B4|lia|exact Up].
    - unfold out_at. rewrite En4, Hd3. cbn [mk n_op]. destruct Hop as [->|[->|(n & ->)]]; reflexivity.
  Qed.

  (* DfBase.set_outputs at the end of a region *)
  Lemma FO_set_outputs2 st b ws st' : set_outputs2 tys st b ws = Ok st' -> Inv2 st -> OpenB2 (s_nodes st) b ->
    (forall w, In w ws -> fst w < s_len st /\ Under st (b_parent b) (fst w)) -> FO st -> FO st'.
  Proof.
    intros H I O Hws Q. pose proof (OpenB2_WB2 _ _ O) as W. destruct (OpenB2_facts _ _ O) as (Lb & _ & _ & _ & HPo & _ & HOo).
    destruct (set_outputs2_inv _ _ _ _ _ H) as (st0 & ts & st1 & po & po' & E0 & E1 & E2 & E3 & E4).
    assert (G : forall w, In w ws -> GoodW st (b_out b) w).
    { intros w Hw. destruct (Hws w Hw) as [Lw Uw]. apply (under_goodw st (b_parent b)); auto. now apply Inv2_bounded. }
    destruct (FO_wire_up _ _ _ _ _ E0 (proj2 I) G Q) as [Q0 K0].
    pose proof (Frame_Same _ _ (wire_up_from_frame _ _ _ _ _ _ E0)) as S0.
    pose proof (WB2_ext _ _ _ (Same_Ext _ _ S0) W) as W0.
    pose proof (set_op_same _ _ _ _ E1 (kindp_output_at _ _ (proj2 W0))) as S1.
    destruct (FO_set_op _ _ _ _ E1 S1 K0 Q0) as [Q1 K1].
    pose proof (set_op_same2 _ _ _ _ _ E4 E2 (set_out_types2_canon _ _ _ _ E3)) as S2.
    exact (proj1 (FO_set_op _ _ _ _ E4 S2 K1 Q1)).
  Qed.

  Definition LiveC (st : store) (c : N) (e : env) (live : list wid) : Prop :=
    forall w, In w live -> exists p, wport e w = Some p /\ fst p < c /\ Under st c (fst p).

  Definition OS2 (s : stmt2) : Prop := forall strict b st e st' e' scope used live usedw scope' used' live' usedw',
    exec_stmt2 tys s b st e = Ok (st', e') -> ord_stmt2 s scope used live usedw = Some (scope', used', live', usedw') ->
    croot_stmt strict s = true -> Cpre2 strict st b e -> FO st -> LiveUnder st (b_parent b) e live -> WKeys e usedw ->
    ScopeOK st e (b_parent b) (b_parent b + 2) scope used ->
    FO st' /\ LiveUnder st' (b_parent b) e' live' /\ WKeys e' usedw' /\
    ScopeOK st' e' (b_parent b) (b_parent b + 2) scope' used' /\ WFresh e e' usedw /\ StmtsFresh e e' used /\
    (forall x, In x used -> In x used') /\ (forall x, In x usedw -> In x usedw').
  Definition OR2 (r : region2) : Prop := forall strict b st e st' e' used live usedw used' usedw',
    exec_region2 tys r b st e = Ok (st', e') -> ord_region2 r used live usedw = Some (used', usedw') ->
    croot_region strict r = true -> Cpre2 strict st b e -> FO st -> LiveUnder st (b_parent b) e live -> WKeys e usedw ->
    SKeys e used ->
    FO st' /\ WKeys e' usedw' /\ SKeys e' used' /\ WFresh e e' usedw /\ StmtsFresh e e' used /\
    (forall x, In x used -> In x used') /\ (forall x, In x usedw -> In x usedw').
  Definition OL2 (l : stmts2) : Prop := forall strict b st e st' e' scope used live usedw scope' used' live' usedw',
    exec_stmts2 tys l b st e = Ok (st', e') -> ord_stmts2 l scope used live usedw = Some (scope', used', live', usedw') ->
    croot_stmts strict l = true -> Cpre2 strict st b e -> FO st -> LiveUnder st (b_parent b) e live -> WKeys e usedw ->
    ScopeOK st e (b_parent b) (b_parent b + 2) scope used ->
    FO st' /\ LiveUnder st' (b_parent b) e' live' /\ WKeys e' usedw' /\
    ScopeOK st' e' (b_parent b) (b_parent b + 2) scope' used' /\ WFresh e e' usedw /\ StmtsFresh e e' used /\
    (forall x, In x used -> In x used') /\ (forall x, In x usedw -> In x usedw').
  Definition OC2 (cs : cases2) : Prop := forall strict c rows others s pp bs cur st e st' e' bs' cur' used live usedw used' usedw',
    exec_cases2 tys cs c bs cur st e = Ok (st', e', bs', cur') -> ord_cases2 cs used live usedw = Some (used', usedw') ->
    croot_cases strict cs = true ->
    Inv2 st -> RootDF strict (s_nodes st) -> Fbase2 st -> EnvPos e -> CasesInv (s_nodes st) c rows others s pp cur bs ->
    c + 1 + 3 * lenN rows <= s_len st -> FO st -> LiveC st c e live -> WKeys e usedw -> SKeys e used ->
    FO st' /\ WKeys e' usedw' /\ SKeys e' used' /\ WFresh e e' usedw /\ StmtsFresh e e' used /\
    (forall x, In x used -> In x used') /\ (forall x, In x usedw -> In x usedw') /\ Ext st st' /\ s_len st <= s_len st'.
  Definition OP2 (p : prog2) : Prop := forall e st' e' used usedw used' usedw',
    exec_prog2 tys p e = Ok (st', e') -> ord_progx p used usedw = Some (used', usedw') -> croot_ok p = true ->
    EnvPos e -> WKeys e usedw -> SKeys e used ->
    FO st' /\ WKeys e' usedw' /\ SKeys e' used' /\ WFresh e e' usedw /\ StmtsFresh e e' used /\
    (forall x, In x used -> In x used') /\ (forall x, In x usedw -> In x usedw').

  Lemma all_live_app live a b : all_live live (a ++ b) = true -> all_live live a = true /\ all_live live b = true.
  Proof. unfold all_live. rewrite forallb_app. apply andb_true_iff. Qed.

  Lemma init_Cpre2 ro ti e : open_op ro ti -> is_case ro = false -> EnvPos e ->
    Cpre2 false {| s_nodes := [mk ro 0; mk (Input ti) 0; mk (Output []) 0]; s_links := [] |} (mkb 0 1 2) e.
  Proof.
    intros Hop Hc EP.
    assert (Hk : dfk ro = true) by (eapply open_op_dfk; eauto).
    assert (Hm : model_op2 ro = true) by (destruct Hop as [->|[->|(n & ->)]]; reflexivity).
    constructor.
    - split; [|reflexivity]. destruct ro; try discriminate; (repeat split; [eexists _, _; split; reflexivity]).
    - intros _. eexists. split; [reflexivity|]. cbn. now rewrite dfk_canon.
    - split; [|split; [|reflexivity]].
      + unfold ModelOps2. cbn. now rewrite Hm.
      + apply (CasePos_app [] _); [intros j nd E; unfold nthN in E; destruct (N.to_nat j); discriminate|]. cbn. now rewrite Hc.
    - split; [reflexivity|]. split; [reflexivity|]. exists ro, ti, 0. cbn [b_parent mkb s_nodes]. repeat split; auto.
    - exact EP.
  Qed.

  Lemma exec2_forward : (forall s, OS2 s) /\ (forall r, OR2 r) /\ (forall l, OL2 l) /\ (forall cs, OC2 cs) /\ (forall p, OP2 p).
  Proof.
    apply prog2_mutind; unfold OS2, OR2, OL2, OC2, OP2.
    - (* TOp *)
      intros id o args rs strict b st e st' e' scope used live usedw scope' used' live' usedw' H OD Hc P Q L0 K0 SO.
      destruct (ord_TOp_inv _ _ _ _ _ _ _ _ _ OD) as (Hid & AL & FR & Er). inversion Er; subst scope' used' live' usedw'; clear Er.
      destruct (cpre2_stmt _ _ _ _ _ _ _ H Hc P) as (P' & K & X & L).
      destruct (exec_TOp_inv _ _ _ _ _ _ _ _ _ _ H) as (ws & st1 & n & st2 & ts & op' & Gw & E1 & E2 & E3 & E4 & ->).
      destruct (leaf_FO strict b st e st' ws (initial_op o) st1 n st2 ts op' P (c2_inv _ _ _ _ P') E1 E2 E4)
        as (Q' & -> & HP' & HO' & L').
      { eapply completed_canon; eauto. } { apply initial_not_output. } { eapply live_wires; eauto. } { exact Q. }
      split; [exact Q'|].
      apply (stmt_exit strict b st st' st' e e id (s_len st) rs scope used (id :: used) live usedw usedw P X (Ext_refl _)
               (Inv2_bounded _ (c2_inv _ _ _ _ P'))); auto; try lia.
      + intros s m Hin. right. exact (so_keys _ _ _ _ _ _ SO _ _ Hin).
      + apply WFresh_refl.
      + apply StmtsFresh_refl.
    - (* TLoad *)
      intros id v cp r strict b st e st' e' scope used live usedw scope' used' live' usedw' H OD Hc P Q L0 K0 SO.
      destruct (ord_TLoad_inv _ _ _ _ _ _ _ _ _ OD) as (Hid & FR & Er). inversion Er; subst scope' used' live' usedw'; clear Er.
      destruct (cpre2_stmt _ _ _ _ _ _ _ H Hc P) as (P' & K & X & L).
      pose proof P as [I R F O EP]. destruct (OpenB2_facts _ _ O) as (Lb & _).
      rewrite exec_TLoad_SLoad in H. apply SLoad_spec in H. destruct H as (En' & El' & ->).
      assert (Hcn : nthN (s_nodes st') (s_len st) = Some (mk (Const v) (match cp with CHere => b_parent b | CRoot => 0 end)))
        by (rewrite En'; unfold s_len; apply nthN_len).
      assert (Hn : nthN (s_nodes st') (s_len st + 1) = Some (mk (LoadConst (value_ty v)) (b_parent b))).
      { rewrite En'. rewrite nthN_app_ge by (unfold s_len; lia). unfold s_len.
        replace (lenN (s_nodes st) + 1 - lenN (s_nodes st)) with 1 by lia. reflexivity. }
      assert (L' : s_len st' = s_len st + 2) by (rewrite (s_len_app2 _ _ _ En'); reflexivity).
      split.
      + eapply FO_step; [exact X|exact (proj2 I)|exact El'| |exact Q].
        intros e0 [<-|[]]. split; [|intros Qq; discriminate Qq]. intros _. unfold fwd_okb, out_at. cbn [e_src e_dst].
        rewrite Hcn. cbn [mk n_op is_output negb andb]. apply orb_true_iff. left. apply N.ltb_lt. lia.
      + apply (stmt_exit strict b st st' st' e e id (s_len st + 1) [r] scope used (id :: used) live usedw usedw P X (Ext_refl _)
               (Inv2_bounded _ (c2_inv _ _ _ _ P'))); auto; try lia.
        * eapply s_parent_mk; [exact Hn|lia].
        * unfold out_at. now rewrite Hn.
        * intros s m Hin. right. exact (so_keys _ _ _ _ _ _ SO _ _ Hin).
        * apply WFresh_refl.
        * apply StmtsFresh_refl.
    - (* TNested *)
      intros id args body IH rs strict b st e st' e' scope used live usedw scope' used' live' usedw' H OD Hc P Q L0 K0 SO.
      destruct (ord_TNested_inv _ _ _ _ _ _ _ _ _ OD) as (used1 & usedw1 & Hid & AL & OR & FR & Er).
      inversion Er; subst scope' used' live' usedw'; clear Er.
      destruct (cpre2_stmt _ _ _ _ _ _ _ H Hc P) as (P' & K & X & L).
      destruct (exec_TNested_inv _ _ _ _ _ _ _ _ _ _ H)
        as (ws & ts & st1 & d & st2 & i & st3 & o & st4 & ts4 & e5 & Gw & _ & E1 & E2 & E3 & E4 & E5 & ->).
      destruct (container_FO strict b st e (DFG ts []) ts ws st1 d st2 i st3 o st4 ts4 live P E1 E2 E3 E4 (or_introl eq_refl) eq_refl eq_refl)
        as (-> & -> & -> & P4 & Q4 & L4 & X4 & Ll4 & HP4 & HO4); auto.
      { intros w Hw. split; [exact (get_wires_pos2 _ _ _ (c2_pos _ _ _ _ P) Gw w Hw)|eapply live_wires; eauto]. }
      cbn [croot_stmt] in Hc.
      destruct (IH strict _ _ _ _ _ _ _ _ _ _ E5 OR Hc P4 Q4 L4 K0) as (Q' & K5 & SK5 & WF5 & SF5 & Inc & Incw).
      { apply (SKeys_mono _ used); [intros s Hs; now right|exact (so_keys _ _ _ _ _ _ SO)]. }
      destruct (cpre2_region _ _ _ _ _ _ _ E5 Hc P4) as (_ & _ & _ & _ & _ & X5 & L5 & _).
      split; [exact Q'|].
      apply (stmt_exit strict b st st4 st' e e5 id (s_len st) rs scope used used1 live usedw usedw1 P X4 X5
               (Inv2_bounded _ (c2_inv _ _ _ _ P'))); auto; try lia.
    - (* TOrder *)
      intros src dst strict b st e st' e' scope used live usedw scope' used' live' usedw' H OD Hc P Q L0 K0 SO.
      destruct (ord_TOrder_inv _ _ _ _ _ _ _ OD) as (OF & Er). inversion Er; subst scope' used' live' usedw'; clear Er.
      destruct (cpre2_stmt _ _ _ _ _ _ _ H Hc P) as (P' & K & X & L).
      pose proof P as [I R F O EP]. destruct (OpenB2_facts _ _ O) as (Lb & Ei & Eo & PI & PO & OutI & OutO).
      rewrite exec_TOrder_SOrder in H. apply SOrder_spec in H. destruct H as (a & c & Na & Nc & En' & El' & ->).
      pose proof SO as [SS SP SN SK SU].
      assert (PS : forall s n, In s scope -> lookup (e_stmts e) s = Some n -> s_parent st n = Some (b_parent b)).
      { intros s n Hs Hn. destruct (SP _ Hs) as (m & Hm & Hpm). congruence. }
      split; [|split; [|split; [exact K0|split; [|split; [apply WFresh_refl|split; [apply StmtsFresh_refl|auto]]]]]].
      + destruct El' as [El'|El']; [eapply FO_nodes; [exact X|exact (proj2 I)|exact El'|exact Q]|].
        eapply FO_step; [exact X|exact (proj2 I)|exact El'| |exact Q].
        intros e0 [<-|[]]. unfold new_ok. cbn [olink e_src e_dst e_soff]. rewrite !(s_parent_nodes st' st En'), En'. unfold fwd_okb. cbn [olink e_src e_dst].
        destruct src as [| |s], dst as [| |s']; cbn [order_fwd] in OF; try discriminate; cbn [node_of] in Na, Nc.
        * inversion Na; inversion Nc; subst a c. rewrite OutI, OutO, PI, PO. split; [intros _; now rewrite orb_true_r|auto].
        * inversion Na; subst a. destruct (lookup (e_stmts e) s') as [m|] eqn:Es; [|discriminate]. inversion Nc; subst m.
          apply memN_In in OF. destruct (SSorted_mem _ _ _ _ SS OF) as (n & Hn & Ln). rewrite Es in Hn. inversion Hn; subst n.
          rewrite OutI, PI, (PS _ _ OF Es). split; [|auto]. intros _. cbn [negb andb]. apply orb_true_iff. left. apply N.ltb_lt. lia.
        * inversion Nc; subst c. destruct (lookup (e_stmts e) s) as [m|] eqn:Es; [|discriminate]. inversion Na; subst m.
          apply memN_In in OF. rewrite (SN _ _ OF Es), OutO, PO, (PS _ _ OF Es). split; [intros _; now rewrite orb_true_r|auto].
        * destruct (lookup (e_stmts e) s) as [m|] eqn:Es; [|discriminate]. inversion Na; subst m.
          destruct (lookup (e_stmts e) s') as [m|] eqn:Es'; [|discriminate]. inversion Nc; subst m.
          destruct (SSorted_before _ _ _ _ _ SS OF) as (n & n' & Hn & Hn' & Lt).
          rewrite Es in Hn. rewrite Es' in Hn'. inversion Hn; inversion Hn'; subst n n'.
          destruct (before_In _ _ _ OF) as [H1 H2]. rewrite (SN _ _ H1 Es), (PS _ _ H1 Es), (PS _ _ H2 Es').
          split; [|auto]. intros _. cbn [negb andb]. apply orb_true_iff. left. now apply N.ltb_lt.
      + eapply (LiveUnder_ext st st' _ e e live usedw); eauto; [now apply Inv2_bounded; exact (c2_inv _ _ _ _ P')|lia|apply WFresh_refl].
      + eapply ScopeOK_ext; eauto.
    - (* TLoop *)
      intros id just rest body IH rs strict b st e st' e' scope used live usedw scope' used' live' usedw' H OD Hc P Q L0 K0 SO.
      destruct (ord_TLoop_inv _ _ _ _ _ _ _ _ _ _ OD) as (used1 & usedw1 & Hid & AL & OR & FR & Er).
      inversion Er; subst scope' used' live' usedw'; clear Er.
      destruct (cpre2_stmt _ _ _ _ _ _ _ H Hc P) as (P' & K & X & L).
      destruct (exec_TLoop_inv _ _ _ _ _ _ _ _ _ _ _ H)
        as (jw & rw & jt & rt & st1 & d & st2 & i & st3 & o & st4 & ts4 & e5 & G1 & G2 & _ & _ & E1 & E2 & E3 & E4 & E5 & ->).
      destruct (all_live_app _ _ _ AL) as [AL1 AL2].
      destruct (container_FO strict b st e (TailLoop (jt ++ rt) [] [] (lenN jt)) (jt ++ rt) (jw ++ rw) st1 d st2 i st3 o st4 ts4 live P E1 E2 E3 E4
                  (or_intror (or_intror (ex_intro _ (lenN jt) eq_refl))) eq_refl eq_refl)
        as (-> & -> & -> & P4 & Q4 & L4 & X4 & Ll4 & HP4 & HO4); auto.
      { intros w Hw. apply in_app_or in Hw. destruct Hw as [Hw|Hw].
        - split; [exact (get_wires_pos2 _ _ _ (c2_pos _ _ _ _ P) G1 w Hw)|exact (live_wires _ _ _ _ _ _ L0 AL1 G1 w Hw)].
        - split; [exact (get_wires_pos2 _ _ _ (c2_pos _ _ _ _ P) G2 w Hw)|exact (live_wires _ _ _ _ _ _ L0 AL2 G2 w Hw)]. }
      cbn [croot_stmt] in Hc.
      destruct (IH strict _ _ _ _ _ _ _ _ _ _ E5 OR Hc P4 Q4 L4 K0) as (Q' & K5 & SK5 & WF5 & SF5 & Inc & Incw).
      { apply (SKeys_mono _ used); [intros s Hs; now right|exact (so_keys _ _ _ _ _ _ SO)]. }
      destruct (cpre2_region _ _ _ _ _ _ _ E5 Hc P4) as (_ & _ & _ & _ & _ & X5 & L5 & _).
      split; [exact Q'|].
      apply (stmt_exit strict b st st4 st' e e5 id (s_len st) rs scope used used1 live usedw usedw1 P X4 X5
               (Inv2_bounded _ (c2_inv _ _ _ _ P'))); auto; try lia.
    - (* TCond *)
      intros id cond args cs IH rs strict b st e st' e' scope used live usedw scope' used' live' usedw' H OD Hc P Q L0 K0 SO.
      destruct (ord_TCond_inv _ _ _ _ _ _ _ _ _ _ OD) as (used1 & usedw1 & Hid & AL & OCs & FR & Er).
      inversion Er; subst scope' used' live' usedw'; clear Er.
      destruct (cpre2_stmt _ _ _ _ _ _ _ H Hc P) as (P' & K & X & L).
      pose proof P as [I R F O EP]. destruct (OpenB2_facts _ _ O) as (Lb & _).
      destruct (exec_TCond_inv _ _ _ _ _ _ _ _ _ _ _ H)
        as (cw & ws & t & others & cp & rows & st1 & c & st2 & bs & st3 & ts3 & e4 & bs' & cur' &
            G1w & G2w & _ & _ & E1 & E2 & E3 & E4 & Hd & ->).
      cbn [croot_stmt] in Hc.
      destruct (OpenB2_pos _ _ O) as (Pp & _). fold (s_len st) in Pp.
      assert (Hpos : forall w, In w (cw :: ws) -> 0 < fst w).
      { intros w [<-|Hin]; [eapply get_wire_pos2; eauto|eapply get_wires_pos2; eauto]. }
      assert (Hlive : forall w, In w (cw :: ws) -> fst w < s_len st /\ Under st (b_parent b) (fst w)).
      { unfold all_live in AL. cbn [forallb] in AL. apply andb_true_iff in AL. destruct AL as [ALc ALa]. apply memN_In in ALc.
        intros w [<-|Hin]; [eapply live_wire; eauto|eapply live_wires; eauto]. }
      destruct (InvX_add_df _ _ _ _ _ (Some (s_len st)) E1 I (proj1 (OpenB2_WB2 _ _ O)) eq_refl eq_refl eq_refl (or_introl eq_refl))
        as (I1 & X1 & N1 & L1 & _).
      assert (K1 : kindp is_cond (s_nodes st1) c).
      { exists (mk (Conditional rows others [] t) (b_parent b)). split; [|reflexivity]. rewrite L1, N1. unfold s_len. apply nthN_len. }
      rewrite <- N1 in I1.
      destruct (make_cases_inv _ _ _ _ _ _ _ E2 I1 K1 (or_intror eq_refl)) as (I2 & X2 & F2 & Ln & _).
      pose proof (Frame_Same _ _ (wire_up_from_frame _ _ _ _ _ _ E3)) as S3.
      destruct rows as [|r0 rows'].
      { destruct bs; [|unfold lenN in Ln; cbn in Ln; lia].
        destruct (exec_cases2_no_builders _ _ _ _ _ _ _ _ _ _ E4) as [-> ->]. discriminate Hd. }
      pose proof (InvX_Same _ _ _ S3 I2) as I3.
      pose proof (Ext_trans _ _ _ X1 X2) as X12.
      pose proof (Ext_trans _ _ _ X12 (Same_Ext _ _ S3)) as X3.
      destruct (FO_add_node _ _ _ _ _ E1 (proj2 I) Q) as [Q1 K1'].
      assert (Q2 : FO st2 /\ LinksOK st2).
      { destruct (make_cases_spec _ _ _ _ _ _ E2) as (En2 & El2 & _). split.
        - eapply FO_nodes; [exact X2|exact K1'|exact El2|exact Q1].
        - eapply LinksOK_grow; eauto. }
      destruct Q2 as [Q2 K2].
      destruct (cond_entry _ _ _ _ _ _ _ _ _ _ _ _ F Pp Hpos E1 E2 E3) as (new & -> & EQ2 & En3 & El3 & HW & L3 & F3 & CI3).
      assert (Hcn2 : nthN (s_nodes st2) (s_len st) = Some (mk (Conditional (r0 :: rows') others [] t) (b_parent b))).
      { rewrite EQ2. unfold s_len. apply nthN_len. }
      assert (HP2 : s_parent st2 (s_len st) = Some (b_parent b)) by (eapply s_parent_mk; [exact Hcn2|lia]).
      assert (B2 : bounded (s_nodes st2) = true) by now apply Inv2_bounded.
      assert (G : forall w, In w (cw :: ws) -> GoodW st2 (s_len st) w).
      { intros w Hw. destruct (Hlive w Hw) as [Lw Uw]. apply (under_goodw st2 (b_parent b)); auto.
        eapply Under_ext; [exact X12|exact B2|lia|exact Uw]. }
      destruct (FO_wire_up _ _ _ _ _ E3 K2 G Q2) as [Q3 K3].
      assert (HP3 : s_parent st3 (s_len st) = Some (b_parent b)) by (rewrite (s_parent_nodes st3 st2 En3); exact HP2).
      assert (B3 : bounded (s_nodes st3) = true) by now apply Inv2_bounded.
      assert (LC3 : LiveC st3 (s_len st) e live).
      { intros w Hw. destruct (L0 w Hw) as (p & Hp & Lp' & Up). exists p. split; [exact Hp|]. split; [exact Lp'|].
        apply (Under_enter st3 (b_parent b)); auto. eapply Under_ext; [exact X3|exact B3|lia|exact Up]. }
      destruct (IH strict _ _ _ _ _ _ _ _ _ _ _ _ _ _ _ _ _ _ E4 OCs Hc I3 (RootDF_ext _ _ _ X3 R) F3 EP CI3 ltac:(lia) Q3 LC3 K0)
        as (Q' & K5 & SK5 & WF5 & SF5 & Inc & Incw & X5 & L5).
      { apply (SKeys_mono _ used); [intros s Hs; now right|exact (so_keys _ _ _ _ _ _ SO)]. }
      split; [exact Q'|].
      apply (stmt_exit strict b st st3 st' e e4 id (s_len st) rs scope used used1 live usedw usedw1 P X3 X5
               (Inv2_bounded _ (c2_inv _ _ _ _ P'))); auto; try lia.
      unfold out_at. rewrite En3, Hcn2. reflexivity.
    - (* TInsert *)
      intros id sub IH args rs strict b st e st' e' scope used live usedw scope' used' live' usedw' H OD Hc P Q L0 K0 SO.
      destruct (ord_TInsert_inv _ _ _ _ _ _ _ _ _ OD) as (used1 & usedw1 & Hid & AL & OPx & FR & Er).
      inversion Er; subst scope' used' live' usedw'; clear Er.
      destruct (cpre2_stmt _ _ _ _ _ _ _ H Hc P) as (P' & K & X & L).
      pose proof P as [I R (M & CP & LP) O EP]. destruct (OpenB2_facts _ _ O) as (Lb & _).
      destruct (exec_TInsert_inv _ _ _ _ _ _ _ _ _ _ H) as (sti & e1 & ws & st1 & m & r & ts & E0 & Gw & E2 & Er & E4 & ->).
      cbn [croot_stmt] in Hc.
      destruct (IH _ _ _ _ _ _ _ E0 OPx Hc EP K0) as (Qi & K5 & SK5 & WF5 & SF5 & Inc & Incw).
      { apply (SKeys_mono _ used); [intros s Hs; now right|exact (so_keys _ _ _ _ _ _ SO)]. }
      destruct (exec2_keeps_invariants tys) as (_ & _ & _ & _ & HP). destruct (HP sub _ _ _ E0 Hc) as [[Gi Li] Ki].
      destruct (exec2_frame tys) as (_ & _ & _ & _ & FP). destruct (FP sub _ _ _ E0 Hc EP) as ((Mi & CPi & LPi) & EP1 & CFi).
      pose proof (proj1 (proj2 (proj2 Gi))) as Bi.
      destruct (insert_hugr_spec _ _ _ _ _ E2 Bi Li) as (A & B & MO & Lm).
      destruct (proj2 (proj2 (proj2 Gi))) as (ro & rest0 & Ero & Hro).
      assert (Pi : 0 < s_len sti) by (unfold s_len; rewrite Ero, lenN_cons; lia).
      assert (Hr : r = s_len st) by (rewrite (MO 0) in Er by lia; inversion Er; lia). subst r.
      pose proof (FO_insert st sti st1 (b_parent b) A B (proj2 I) Li LPi Q Qi) as Q1.
      assert (K1 : LinksOK st1).
      { apply (LinksOK_insert st st1 sti (proj2 I) Li); [|exact B]. unfold s_len. rewrite A, lenN_app, lenN_shifted. reflexivity. }
      assert (X1 : Ext st st1) by (eapply Ext_app; exact A).
      assert (L1 : s_len st1 = s_len st + s_len sti) by (unfold s_len; rewrite A, lenN_app, lenN_shifted; reflexivity).
      pose proof (wire_up_spec _ _ _ _ _ E4) as (En4 & _).
      assert (X14 : Ext st1 st') by (apply Ext_nodes_eq; exact En4).
      assert (B1 : bounded (s_nodes st1) = true) by (rewrite <- En4; exact (Inv2_bounded _ (c2_inv _ _ _ _ P'))).
      assert (Hr1 : nthN (s_nodes st1) (s_len st) = Some (mk (n_op ro) (b_parent b))).
      { rewrite A. unfold s_len. rewrite nthN_app_ge by lia. rewrite N.sub_diag, nthN_shifted, Ero. reflexivity. }
      assert (HP1 : s_parent st1 (s_len st) = Some (b_parent b)) by (eapply s_parent_mk; [exact Hr1|lia]).
      assert (HO1 : out_at (s_nodes st1) (s_len st) = false).
      { unfold out_at. rewrite Hr1. cbn [mk n_op]. destruct Ki as (nd & En & Hk). rewrite Ero in En. cbn in En. inversion En; subst nd.
        rewrite rootk_canon in Hk. destruct (n_op ro); try discriminate; reflexivity. }
      assert (G : forall w, In w ws -> GoodW st1 (s_len st) w).
      { intros w Hw.
        assert (L5' : LiveUnder st (b_parent b) e1 live).
        { intros a Ha. destruct (L0 a Ha) as (p & Hp & Lp' & Up). exists p. split; [|auto]. rewrite WF5; [exact Hp|eapply K0; eauto]. }
        destruct (live_wires _ _ _ _ _ _ L5' AL Gw w Hw) as [Lw Uw]. apply (under_goodw st1 (b_parent b)); auto.
        eapply Under_ext; [exact X1|exact B1|lia|exact Uw]. }
      destruct (FO_wire_up _ _ _ _ _ E4 K1 G Q1) as [Q' _].
      split; [exact Q'|].
      apply (stmt_exit strict b st st1 st' e e1 id (s_len st) rs scope used used1 live usedw usedw1 P X1 X14
               (Inv2_bounded _ (c2_inv _ _ _ _ P'))); auto; try lia.
      rewrite (s_len_nodes _ _ En4). lia.
    - (* TCallInd *)
      intros id args rs strict b st e st' e' scope used live usedw scope' used' live' usedw' H OD Hc P Q L0 K0 SO.
      destruct (ord_TCallInd_inv _ _ _ _ _ _ _ _ OD) as (Hid & AL & FR & Er). inversion Er; subst scope' used' live' usedw'; clear Er.
      destruct (cpre2_stmt _ _ _ _ _ _ _ H Hc P) as (P' & K & X & L).
      destruct (exec_TCallInd_inv _ _ _ _ _ _ _ _ _ H) as (ws & st1 & n & st2 & ts & op' & Gw & E1 & E2 & E3 & E4 & ->).
      destruct (leaf_FO strict b st e st' ws (CallIndirect [] [] 0) st1 n st2 ts op' P (c2_inv _ _ _ _ P') E1 E2 E4)
        as (Q' & -> & HP' & HO' & L').
      { eapply completed_callind_canon; eauto. } { reflexivity. } { eapply live_wires; eauto. } { exact Q. }
      split; [exact Q'|].
      apply (stmt_exit strict b st st' st' e e id (s_len st) rs scope used (id :: used) live usedw usedw P X (Ext_refl _)
               (Inv2_bounded _ (c2_inv _ _ _ _ P'))); auto; try lia.
      + intros s m Hin. right. exact (so_keys _ _ _ _ _ _ SO _ _ Hin).
      + apply WFresh_refl.
      + apply StmtsFresh_refl.
    - (* Reg *)
      intros ins body IH outs strict b st e st' e' used live usedw used' usedw' H OD Hc P Q L0 K0 SK0.
      destruct (ord_Reg_inv _ _ _ _ _ _ _ OD) as (sc & used1 & live1 & usedw1 & FRi & OB & AL & Er). inversion Er; subst used' usedw'; clear Er.
      destruct (exec_Reg_inv _ _ _ _ _ _ _ _ _ H) as (st1 & ws & X0 & Gw & SOut).
      pose proof P as [I R F O EP]. destruct (OpenB2_facts _ _ O) as (Lb & Ei & Eo & PI & PO & OutI & OutO).
      destruct (OpenB2_pos _ _ O) as (_ & Pi & _).
      destruct (fresh_ids_spec _ _ FRi) as [NDi Fi].
      cbn [croot_region] in Hc.
      assert (P0 : Cpre2 strict st b (bind_outs e (b_in b) ins)) by (constructor; auto; now apply EnvPos_bind_in).
      assert (L00 : LiveUnder st (b_parent b) (bind_outs e (b_in b) ins) (ins ++ live)).
      { apply LiveUnder_bind_in; auto; [eapply fresh_none; eauto|lia]. }
      assert (K00 : WKeys (bind_outs e (b_in b) ins) (ins ++ usedw)) by now apply WKeys_bind_from.
      assert (S00 : ScopeOK st (bind_outs e (b_in b) ins) (b_parent b) (b_parent b + 2) [] used).
      { apply ScopeOK_nil. now apply SKeys_bind_in. }
      destruct (IH strict _ _ _ _ _ _ _ _ _ _ _ _ _ X0 OB Hc P0 Q L00 K00 S00) as (Q1 & L1 & K1 & S1 & WF1 & SF1 & Inc & Incw).
      destruct (cpre2_stmts _ _ _ _ _ _ _ X0 Hc P0) as ([I1 R1 F1 O1 EP1] & Kp1 & X1 & Ll1).
      split; [|split; [exact K1|split; [exact (so_keys _ _ _ _ _ _ S1)|split; [|split; [|split; [exact Inc|]]]]]].
      + eapply FO_set_outputs2; eauto. eapply live_wires; eauto.
      + eapply WFresh_trans; [|apply (WFresh_bind_from e usedw (b_in b) ins Fi)|exact WF1]. intros w Hw. apply in_or_app. now right.
      + eapply StmtsFresh_trans; [|apply (StmtsFresh_bind_in e (b_in b) ins used)|exact SF1]. auto.
      + intros x Hx. apply Incw. apply in_or_app. now right.
    - (* TNil *)
      intros strict b st e st' e' scope used live usedw scope' used' live' usedw' H OD Hc P Q L0 K0 SO.
      apply exec_TNil_inv in H. destruct H as [-> ->]. cbn in OD. inversion OD; subst.
      split; [exact Q|]. split; [exact L0|]. split; [exact K0|]. split; [exact SO|].
      split; [apply WFresh_refl|]. split; [apply StmtsFresh_refl|auto].
    - (* TCons *)
      intros s IHs r IHr strict b st e st' e' scope used live usedw scope' used' live' usedw' H OD Hc P Q L0 K0 SO.
      destruct (ord_TCons_inv _ _ _ _ _ _ _ OD) as (sc & us & lv & uw & O1 & O2).
      destruct (exec_TCons_inv _ _ _ _ _ _ _ _ H) as (st1 & e1 & X1 & X2).
      cbn [croot_stmts] in Hc. apply andb_true_iff in Hc. destruct Hc as [Hc1 Hc2].
      destruct (IHs strict _ _ _ _ _ _ _ _ _ _ _ _ _ X1 O1 Hc1 P Q L0 K0 SO) as (Q1 & L1 & K1 & S1 & WF1 & SF1 & Inc1 & Incw1).
      destruct (cpre2_stmt _ _ _ _ _ _ _ X1 Hc1 P) as (P1 & _).
      destruct (IHr strict _ _ _ _ _ _ _ _ _ _ _ _ _ X2 O2 Hc2 P1 Q1 L1 K1 S1) as (Q2 & L2 & K2 & S2 & WF2 & SF2 & Inc2 & Incw2).
      split; [exact Q2|]. split; [exact L2|]. split; [exact K2|]. split; [exact S2|].
      split; [eapply WFresh_trans; eauto|]. split; [eapply StmtsFresh_trans; eauto|auto].
    - (* CNil *)
      intros strict c rows others s pp bs cur st e st' e' bs' cur' used live usedw used' usedw' H OD Hc I R F EP CI Lblk Q LC K0 SK0.
      apply exec_CNil_inv in H. inversion H; subst. cbn in OD. inversion OD; subst.
      split; [exact Q|]. split; [exact K0|]. split; [exact SK0|]. split; [apply WFresh_refl|]. split; [apply StmtsFresh_refl|].
      split; [auto|]. split; [auto|]. split; [apply Ext_refl|lia].
    - (* CCons *)
      intros i r IHr rest IHrest strict c rows others s pp bs cur st e st' e' bs' cur' used live usedw used' usedw' H OD Hc I R F EP CI Lblk Q LC K0 SK0.
      destruct (ord_CCons_inv _ _ _ _ _ _ _ OD) as (used1 & usedw1 & O1 & O2).
      destruct (exec_CCons_inv _ _ _ _ _ _ _ _ _ _ H) as (cb & st1 & e1 & ts & st2 & cur2 & Hn & X0 & Xo & X2 & X3).
      cbn [croot_cases] in Hc. apply andb_true_iff in Hc. destruct Hc as [Hc1 Hc2].
      destruct (case_open _ _ _ _ _ _ _ _ _ _ CI Hn) as (row & Hrow & Hcb & OBc & Hcase & Lc & Lp).
      assert (Pc : Cpre2 strict st cb e) by (constructor; auto).
      assert (Hpk : s_parent st (b_parent cb) = Some c).
      { subst cb. cbn [b_parent mkb]. eapply s_parent_mk; [exact Hcase|lia]. }
      assert (Lk : LiveUnder st (b_parent cb) e live).
      { intros w Hw. destruct (LC w Hw) as (p & Hp & Lp' & Up). exists p. split; [exact Hp|]. fold (s_len st) in Lc. split; [lia|].
        apply (Under_enter st c); auto. subst cb. cbn [b_parent mkb]. lia. }
      destruct (IHr strict _ _ _ _ _ _ _ _ _ _ X0 O1 Hc1 Pc Q Lk K0 SK0) as (Q1 & K1 & SK1 & WF1 & SF1 & Inc1 & Incw1).
      destruct (cpre2_region _ _ _ _ _ _ _ X0 Hc1 Pc) as (I1 & R1 & F1 & EP1 & KX & X1 & L1 & CB).
      destruct (cases_step _ _ _ _ _ _ _ _ _ _ _ _ _ _ _ _ CI Hn Hrow Hcb F1 KX CB Xo X2) as (F2 & L2 & -> & CI2 & K2 & _ & _ & Hdisj).
      pose proof (update_outputs_same _ _ _ _ _ _ X2) as S2.
      pose proof (InvX_Same _ _ _ S2 I1) as I2.
      pose proof (Ext_trans _ _ _ X1 (Same_Ext _ _ S2)) as X12.
      assert (Q2 : FO st2).
      { eapply FO_nodes; [exact (Same_Ext _ _ S2)|exact (proj2 I1)| |exact Q1]. destruct Hdisj as [[_ ->]|(_ & _ & _ & ->)]; reflexivity. }
      fold (s_len st) in Lc.
      assert (LC2 : LiveC st2 c e1 live).
      { intros w Hw. destruct (LC w Hw) as (p & Hp & Lp' & Up). exists p. split; [rewrite WF1; [exact Hp|eapply K0; eauto]|].
        split; [exact Lp'|]. eapply Under_ext; [exact X12|now apply Inv2_bounded|exact Lc|exact Up]. }
      destruct (IHrest strict _ _ _ _ _ _ _ _ _ _ _ _ _ _ _ _ _ _ X3 O2 Hc2 I2 (RootDF_ext _ _ _ (Same_Ext _ _ S2) R1) F2 EP1 CI2 ltac:(lia) Q2 LC2 K1 SK1)
        as (Q' & K' & SK' & WF' & SF' & Inc' & Incw' & X' & L').
      split; [exact Q'|]. split; [exact K'|]. split; [exact SK'|]. split; [eapply WFresh_trans; eauto|].
      split; [eapply StmtsFresh_trans; eauto|]. split; [auto|]. split; [auto|]. split; [eapply Ext_trans; eauto|lia].
    - (* QDfg *)
      intros ins body IH e st' e' used usedw used' usedw' H OD Hc EP K0 SK0. apply exec_QDfg_inv in H. cbn [croot_ok] in Hc.
      cbn [ord_progx] in OD.
      pose proof (init_Cpre2 (DFG ins []) ins e (or_introl eq_refl) eq_refl EP) as P0.
      eapply (IH false _ _ _ _ _ _ _ _ _ _ H OD Hc P0); auto; [apply FO_empty|intros w []].
    - (* QLoop *)
      intros just rest body IH e st' e' used usedw used' usedw' H OD Hc EP K0 SK0. apply exec_QLoop_inv in H. cbn [croot_ok] in Hc.
      cbn [ord_progx] in OD.
      pose proof (init_Cpre2 (TailLoop (just ++ rest) [] [] (lenN just)) (just ++ rest) e
                    (or_intror (or_intror (ex_intro _ (lenN just) eq_refl))) eq_refl EP) as P0.
      eapply (IH false _ _ _ _ _ _ _ _ _ _ H OD Hc P0); auto; [apply FO_empty|intros w []].
    - (* QCond *)
      intros rows others sumty cs IH e st' e' used usedw used' usedw' H OD Hc EP K0 SK0. cbn [croot_ok] in Hc. cbn [ord_progx] in OD.
      destruct (exec_QCond_inv _ _ _ _ _ _ _ _ H) as (st1 & bs & bs' & cur' & E0 & E1 & Hd).
      assert (I0 : InvX (Some 0) (new_store (Conditional rows others [] sumty))).
      { split; [repeat split|reflexivity]. eexists _, _. split; reflexivity. }
      assert (Kc : kindp is_cond (s_nodes (new_store (Conditional rows others [] sumty))) 0) by (eexists; split; reflexivity).
      destruct (make_cases_inv _ _ _ _ _ _ _ E0 I0 Kc (or_intror eq_refl)) as (I1 & X1 & _ & Ln & _).
      destruct (make_cases_spec _ _ _ _ _ _ E0) as (En1 & El1 & ->).
      cbn [new_store s_nodes s_links s_len lenN length N.of_nat app] in En1, El1, E1, Ln.
      destruct rows as [|r0 rows'].
      { cbn in E1. destruct (exec_cases2_no_builders _ _ _ _ _ _ _ _ _ _ E1) as [-> ->]. discriminate Hd. }
      assert (F1 : Fbase2 st1).
      { split; [|split].
        - rewrite En1. unfold ModelOps2. cbn [forallb mk n_op model_op2 andb]. apply case_blocks_model.
        - rewrite En1. apply (CasePos_cond_block [] (r0 :: rows') others sumty 0). intros j nd E. unfold nthN in E. destruct (N.to_nat j); discriminate.
        - unfold LinksPos. now rewrite El1. }
      assert (CI1 : CasesInv (s_nodes st1) 0 (r0 :: rows') others sumty 0 None (case_builders (r0 :: rows') 1)).
      { rewrite En1. apply (CasesInv_init [] (r0 :: rows') others sumty 0). }
      assert (L1 : s_len st1 = 1 + 3 * lenN (r0 :: rows')).
      { unfold s_len. rewrite En1, lenN_cons, case_blocks_len. lia. }
      assert (Q1 : FO st1) by (split; intros e0 Hin; rewrite El1 in Hin; destruct Hin).
      destruct (IH true _ _ _ _ _ _ _ _ _ _ _ _ _ _ [] _ _ _ E1 OD Hc I1 ltac:(intros Qq; discriminate Qq) F1 EP CI1 ltac:(lia) Q1 ltac:(intros w []) K0 SK0)
        as (Q' & K' & SK' & WF' & SF' & Inc' & Incw' & _).
      auto 8.
  Qed.
End AcyMain2.

(* ------------------------------------------------------------------ the theorems *)
Theorem exec_prog2_forward tys p st e1 : ord_prog2 p = true -> croot_ok p = true ->
  exec_prog2 tys p env0 = Ok (st, e1) -> Fwd st /\ OrdSib st.
Proof.
  unfold ord_prog2. intros OD Hc H. destruct (ord_progx p [] []) as [[used' usedw']|] eqn:OP; [|discriminate].
  destruct (exec2_forward tys) as (_ & _ & _ & _ & HP).
  destruct (HP p _ _ _ _ _ _ _ H OP Hc EnvPos_env0) as (Q & _); [intros w q Hq; discriminate Hq|intros s n []|exact Q].
Qed.

Theorem run2_acyclic tys p g : croot_ok p = true -> ord_prog2 p = true -> run2 tys p = Ok g -> r_acyclic g = true.
Proof.
  unfold run2. intros Hc OD H. bd H. destruct v as [st e1]. cbn [fst] in H. inversion H; subst; clear H.
  apply acyclic_of_fwd. exact (proj1 (exec_prog2_forward _ _ _ _ OD Hc E)).
Qed.

(* non-vacuity: the examples with a loop, a conditional (cases 1, 0) and an inserted Dfg, and with cases using a wire of
   the enclosing region, satisfy the premise; the dead-wire program of C01_dead_wire_cycle_refuted does not *)
Example ex4_ord : ord_prog2 ex4_prog = true. Proof. vm_compute; reflexivity. Qed.
Example ex5_ord : ord_prog2 ex5_prog = true. Proof. vm_compute; reflexivity. Qed.
Example ex6_ord : ord_prog2 ex6_prog = false. Proof. vm_compute; reflexivity. Qed.
