(* C01 (third pass) — model/Builder2.v is conservative over model/Builder.v: the embedding `emb` of the first
   language into the extended one runs to the same result, run2 tys (emb p) = run tys p, for every program p and
   every type table.  Hence every theorem of props/C01.v about `run` transfers to `run2` on embedded programs.

   The two interpreters differ only in set_outputs: the extended one dispatches _set_out_types on the operation
   of the container node (DFG / Case / TailLoop); on the embedded fragment the container is always a DFG — the
   invariant WB of proofs/BuilderP.v, kept by exec_keeps_invariants. *)
From Coq Require Import NArith List Bool Arith Lia.
Import ListNotations.
From HV Require Import lib.Harness model.Validity model.Builder model.Builder2 proofs.BuilderP proofs.Builder2UnfoldP.
Local Open Scope N_scope.

Section Emb.
  Variable tys : list tyinfo.

  Lemma kind_at_dfg_op st n : kind_at (s_nodes st) n (DFG [] []) -> exists i o, s_op st n = Some (DFG i o).
  Proof.
    intros (nd & Hn & Hk). unfold s_op. rewrite Hn. cbn. destruct (n_op nd); try discriminate. eauto.
  Qed.

  Lemma set_outputs2_dfg st b ws : WB st b -> set_outputs2 tys st b ws = set_outputs st b ws.
  Proof.
    intros W. unfold set_outputs2, set_outputs.
    destruct (wire_up st (b_out b) ws) as [[st0 ts]|] eqn:E; cbn [bind fst snd]; [|reflexivity].
    destruct (set_op st0 (b_out b) (Output ts)) as [st1|] eqn:E0; cbn [bind]; [|reflexivity].
    pose proof (Frame_Same _ _ (wire_up_from_frame _ _ _ _ _ _ E)) as S1.
    pose proof (WB_ext _ _ _ (Same_Ext _ _ S1) W) as W0.
    pose proof (set_op_same _ _ _ _ E0 (proj2 W0)) as S2.
    pose proof (WB_ext _ _ _ (Same_Ext _ _ S2) W0) as W1.
    destruct (kind_at_dfg_op _ _ (proj1 W1)) as (i & o & Ho). rewrite Ho. reflexivity.
  Qed.

  (* unfolding equations of Builder.exec_* (cbn leaves raw fix terms for the mutually recursive calls) *)
  Lemma exec_stmt_SNested id args body rs b st e :
    exec_stmt tys (SNested id args body rs) b st e =
      ws <- get_wires e args ;;
      ts <- wire_types st ws ;;
      d <- add_node st (DFG ts []) (b_parent b) ;;
      io <- init_io (fst d) (snd d) ts ;;
      x <- wire_up (fst io) (snd d) ws ;;
      y <- exec_region tys body (snd io) (fst x) e ;;
      Ok (fst y, bind_outs (bind_stmt (snd y) id (snd d)) (snd d) rs).
  Proof. reflexivity. Qed.
  Lemma exec_region_Region ins body outs b st e :
    exec_region tys (Region ins body outs) b st e =
      y <- exec_stmts tys body b st (bind_outs e (b_in b) ins) ;;
      ws <- get_wires (snd y) outs ;;
      st' <- set_outputs (fst y) b ws ;;
      Ok (st', snd y).
  Proof. reflexivity. Qed.
  Lemma exec_stmts_SCons s r b st e :
    exec_stmts tys (SCons s r) b st e = y <- exec_stmt tys s b st e ;; exec_stmts tys r b (fst y) (snd y).
  Proof. reflexivity. Qed.

  Definition Q_stmt (s : stmt) : Prop := forall b st e,
    Inv st -> WB st b -> exec_stmt2 tys (emb_stmt s) b st e = exec_stmt tys s b st e.
  Definition Q_region (r : region) : Prop := forall b st e,
    Inv st -> WB st b -> exec_region2 tys (emb_region r) b st e = exec_region tys r b st e.
  Definition Q_stmts (l : stmts) : Prop := forall b st e,
    Inv st -> WB st b -> exec_stmts2 tys (emb_stmts l) b st e = exec_stmts tys l b st e.

  Lemma emb_exec : (forall s, Q_stmt s) /\ (forall r, Q_region r) /\ (forall l, Q_stmts l).
  Proof.
    destruct (exec_keeps_invariants tys) as (KS & KR & KL).
    apply prog_mutind; unfold Q_stmt, Q_region, Q_stmts.
    - (* SOp *) reflexivity.
    - (* SLoad *) reflexivity.
    - (* SNested *)
      intros id args body IH rs b st e I W. cbn [emb_stmt]. rewrite exec_stmt2_TNested, exec_stmt_SNested.
      destruct (get_wires e args) as [ws|] eqn:E0; cbn [bind]; [|reflexivity].
      destruct (wire_types st ws) as [ts|] eqn:E1; cbn [bind]; [|reflexivity].
      destruct (add_node st (DFG ts []) (b_parent b)) as [[st1 d]|] eqn:E2; cbn [bind fst snd]; [|reflexivity].
      destruct (init_io st1 d ts) as [[st3 io]|] eqn:E3; cbn [bind fst snd]; [|reflexivity].
      destruct (wire_up st3 d ws) as [[st4 ts4]|] eqn:E4; cbn [bind fst snd]; [|reflexivity].
      unfold init_io in E3.
      destruct (add_node st1 (Input ts) d) as [[st2a i]|] eqn:E5; cbn [bind fst snd] in E3; [|discriminate].
      destruct (add_node st2a (Output []) d) as [[st2b o]|] eqn:E6; cbn [bind fst snd] in E3; [|discriminate].
      inversion E3; subst; clear E3.
      destruct (new_region_inv _ _ _ _ _ _ _ _ _ E2 E5 E6 I (proj1 W)) as (I3 & X3 & W3).
      pose proof (Frame_Same _ _ (wire_up_from_frame _ _ _ _ _ _ E4)) as S4.
      pose proof (Inv_Same _ _ S4 I3) as I4.
      pose proof (WB_ext _ _ _ (Same_Ext _ _ S4) W3) as W4.
      rewrite (IH _ _ e I4 W4). reflexivity.
    - (* SOrder *) reflexivity.
    - (* Region *)
      intros ins body IH outs b st e I W. cbn [emb_region]. rewrite exec_region2_Reg, exec_region_Region.
      rewrite (IH _ _ _ I W).
      destruct (exec_stmts tys body b st (bind_outs e (b_in b) ins)) as [[st1 e1]|] eqn:E; cbn [bind fst snd]; [|reflexivity].
      destruct (get_wires e1 outs) as [ws|]; cbn [bind]; [|reflexivity].
      destruct (KL body _ _ _ _ _ E I W) as (I1 & X1).
      rewrite (set_outputs2_dfg _ _ _ (WB_ext _ _ _ X1 W)). reflexivity.
    - (* SNil *) reflexivity.
    - (* SCons *)
      intros s IHs r IHr b st e I W. cbn [emb_stmts]. rewrite exec_stmts2_TCons, exec_stmts_SCons.
      rewrite (IHs _ _ _ I W).
      destruct (exec_stmt tys s b st e) as [[st1 e1]|] eqn:E; cbn [bind fst snd]; [|reflexivity].
      destruct (KS s _ _ _ _ _ E I W) as (I1 & X1).
      apply IHr; [exact I1|exact (WB_ext _ _ _ X1 W)].
  Qed.
End Emb.

Theorem run2_emb tys p : run2 tys (emb p) = run tys p.
Proof.
  destruct p as [ins body]. unfold run2, run, exec_prog. cbn [emb]. rewrite exec_prog2_QDfg.
  destruct (init_io (new_store (DFG ins [])) 0 ins) as [[st0 io]|] eqn:E; cbn [bind fst snd]; [|reflexivity].
  destruct (emb_exec tys) as (_ & HR & _).
  assert (I0 : Inv st0 /\ WB st0 io).
  { cbn in E. inversion E; subst; clear E.
    split; [split; [repeat split|reflexivity]|split].
    - eexists _, _. split; [reflexivity|split; reflexivity].
    - eexists. split; reflexivity.
    - eexists. split; reflexivity. }
  destruct I0 as [I0 W0]. rewrite (HR body _ _ env0 I0 W0). unfold env0.
  destruct (exec_region tys body io st0 _) as [[st1 e1]|]; reflexivity.
Qed.

(* every theorem about `run` transfers; the full validity theorem of the first language, restated for run2 *)
From HV Require Import spec.BuilderWFS proofs.BuilderCopyP.
Theorem run2_emb_valid tys p g :
  r_table tys = true -> wf_prog tys p = true -> run2 tys (emb p) = Ok g ->
  valid {| v_tys := tys; v_main := g; v_subs := [] |} = true.
Proof. rewrite run2_emb. apply run_valid. Qed.
