(* C03 — erasing annotations from schemas preserves validation (model/SchemaStrip.v), for all schemas, documents, fuel. *)
From Coq Require Import List Bool ZArith String Ascii Arith Lia.
Import ListNotations.
From HV Require Import lib.Harness model.Schema model.SchemaStrip proofs.SchemaP.
Open Scope string_scope.

Lemma strip_obj kvs : strip (JObj kvs) = JObj (strip_entries kvs).
Proof.
  cbn [strip]. f_equal. induction kvs as [|[k v] r IH]; [reflexivity|].
  cbn [strip_entries]. unfold is_annot, strip_val. rewrite <- IH. destruct (kw_of k); reflexivity.
Qed.

Lemma lookup_map_strip n ps :
  lookup n (map (fun p => (fst p, strip (snd p))) ps) = option_map strip (lookup n ps).
Proof. induction ps as [|[k v] r IH]; [reflexivity|]. cbn. destruct (n =? k); [reflexivity|exact IH]. Qed.

(* a keyword that is not an annotation keeps its (first) binding, with its value stripped *)
Lemma lookup_strip_entries l k : is_annot k = false ->
  lookup k (strip_entries l) = option_map (strip_val k) (lookup k l).
Proof.
  intros Hk. induction l as [|[k0 v0] r IH]; [reflexivity|]. cbn [strip_entries lookup].
  destruct (is_annot k0) eqn:E0.
  - destruct (String.eqb_spec k k0) as [->|Hne]; [congruence|exact IH].
  - cbn [lookup]. destruct (String.eqb_spec k k0) as [->|Hne]; [reflexivity|exact IH].
Qed.
Lemma lookup_strip_id l k : is_annot k = false -> (forall v, strip_val k v = v) ->
  lookup k (strip_entries l) = lookup k l.
Proof. intros Hk Hv. rewrite lookup_strip_entries by assumption. destruct (lookup k l); [cbn; now rewrite Hv|reflexivity]. Qed.
Lemma known_keys_strip l : known_keys (strip_entries l) = known_keys l.
Proof.
  unfold known_keys. induction l as [|[k v] r IH]; [reflexivity|]. cbn [strip_entries].
  destruct (is_annot k) eqn:E; cbn [keys map fst forallb].
  - fold (keys r). rewrite <- IH. unfold is_annot in E. unfold known_kw. destruct (kw_of k); try discriminate. reflexivity.
  - fold (keys (strip_entries r)). fold (keys r). now rewrite IH.
Qed.

Lemma resolve_strip root r : resolve (strip root) r = option_map strip (resolve root r).
Proof.
  unfold resolve. destruct (prefix ref_prefix r); [|reflexivity].
  destruct root as [| | | | | |kvs]; try reflexivity. rewrite strip_obj.
  rewrite lookup_strip_entries by reflexivity.
  destruct (lookup "$defs" kvs) as [v|]; [|reflexivity]. cbn [option_map].
  destruct v; try reflexivity.
  change (strip_val "$defs" (JObj kvs0)) with (JObj (map (fun p => (fst p, strip (snd p))) kvs0)).
  apply lookup_map_strip.
Qed.

Section Strip.
  Variable root : json.
  Variables V1 V2 : json -> json -> bool.
  Hypothesis HV : forall s d, V1 (strip s) d = V2 s d.

  Lemma s_zip ps xs : zip_with V1 (map strip ps) xs = zip_with V2 ps xs.
  Proof. revert xs. induction ps as [|p r IH]; intros [|x xs]; cbn; try reflexivity. now rewrite HV, IH. Qed.
  Lemma s_map ss d : map (fun s => V1 s d) (map strip ss) = map (fun s => V2 s d) ss.
  Proof. rewrite map_map. apply map_ext. intros s. apply HV. Qed.

  Lemma s_chk_props a d : chk_props V1 (option_map (strip_val "properties") a) d = chk_props V2 a d.
  Proof.
    destruct a as [v|]; [|reflexivity]. destruct v; try reflexivity.
    change (strip_val "properties" (JObj kvs)) with (JObj (map (fun p => (fst p, strip (snd p))) kvs)).
    cbn. destruct d; try reflexivity. apply forallb_ext'. intros kv. rewrite lookup_map_strip.
    destruct (lookup (fst kv) kvs); cbn; [apply HV|reflexivity].
  Qed.
  Lemma s_in_props a k : in_props k (option_map (strip_val "properties") a) = in_props k a.
  Proof.
    destruct a as [v|]; [|reflexivity]. destruct v; try reflexivity.
    change (strip_val "properties" (JObj kvs)) with (JObj (map (fun p => (fst p, strip (snd p))) kvs)).
    cbn. unfold has_key. rewrite lookup_map_strip. now destruct (lookup k kvs).
  Qed.
  Lemma s_chk_addl p a d :
    chk_addl V1 (option_map (strip_val "properties") p) (option_map (strip_val "additionalProperties") a) d
    = chk_addl V2 p a d.
  Proof.
    destruct a as [v|]; [|reflexivity]. change (strip_val "additionalProperties" v) with (strip v). cbn.
    destruct d; try reflexivity. apply forallb_ext'. intros kv. rewrite s_in_props.
    destruct (in_props (fst kv) p); [reflexivity|apply HV].
  Qed.
  Lemma s_chk_prefix a d : chk_prefix V1 (option_map (strip_val "prefixItems") a) d = chk_prefix V2 a d.
  Proof.
    destruct a as [v|]; [|reflexivity]. destruct v; try reflexivity.
    change (strip_val "prefixItems" (JArr l)) with (JArr (map strip l)). cbn.
    destruct d; try reflexivity. now rewrite s_zip.
  Qed.
  Lemma s_prefix_len a : prefix_len (option_map (strip_val "prefixItems") a) = prefix_len a.
  Proof.
    destruct a as [v|]; [|reflexivity]. destruct v; try reflexivity.
    change (strip_val "prefixItems" (JArr l)) with (JArr (map strip l)). cbn. apply map_length.
  Qed.
  Lemma s_chk_items p a d :
    chk_items V1 (option_map (strip_val "prefixItems") p) (option_map (strip_val "items") a) d = chk_items V2 p a d.
  Proof.
    destruct a as [v|]; [|reflexivity]. change (strip_val "items" v) with (strip v). cbn.
    destruct d; try reflexivity. rewrite s_prefix_len. apply forallb_ext'. intros x. apply HV.
  Qed.
  Lemma s_chk_anyOf a d : chk_anyOf V1 (option_map (strip_val "anyOf") a) d = chk_anyOf V2 a d.
  Proof.
    destruct a as [v|]; [|reflexivity]. destruct v; try reflexivity.
    change (strip_val "anyOf" (JArr l)) with (JArr (map strip l)). cbn. now rewrite s_map.
  Qed.
  Lemma s_chk_oneOf a d : chk_oneOf V1 (option_map (strip_val "oneOf") a) d = chk_oneOf V2 a d.
  Proof.
    destruct a as [v|]; [|reflexivity]. destruct v; try reflexivity.
    change (strip_val "oneOf" (JArr l)) with (JArr (map strip l)). cbn. now rewrite s_map.
  Qed.
  Lemma s_chk_ref a d : chk_ref V1 (strip root) a d = chk_ref V2 root a d.
  Proof.
    destruct a as [v|]; [|reflexivity]. destruct v; try reflexivity. cbn. rewrite resolve_strip.
    destruct (resolve root s); cbn; [apply HV|reflexivity].
  Qed.

  Lemma s_chk_object kvs d : chk_object V1 (strip root) (strip_entries kvs) d = chk_object V2 root kvs d.
  Proof.
    unfold chk_object. rewrite known_keys_strip.
    rewrite (lookup_strip_id kvs "type" eq_refl (fun _ => eq_refl)).
    rewrite (lookup_strip_id kvs "const" eq_refl (fun _ => eq_refl)).
    rewrite (lookup_strip_id kvs "enum" eq_refl (fun _ => eq_refl)).
    rewrite (lookup_strip_id kvs "minItems" eq_refl (fun _ => eq_refl)).
    rewrite (lookup_strip_id kvs "maxItems" eq_refl (fun _ => eq_refl)).
    rewrite (lookup_strip_id kvs "uniqueItems" eq_refl (fun _ => eq_refl)).
    rewrite (lookup_strip_id kvs "pattern" eq_refl (fun _ => eq_refl)).
    rewrite (lookup_strip_id kvs "required" eq_refl (fun _ => eq_refl)).
    rewrite (lookup_strip_id kvs "$ref" eq_refl (fun _ => eq_refl)).
    rewrite (lookup_strip_entries kvs "properties" eq_refl).
    rewrite (lookup_strip_entries kvs "additionalProperties" eq_refl).
    rewrite (lookup_strip_entries kvs "prefixItems" eq_refl).
    rewrite (lookup_strip_entries kvs "items" eq_refl).
    rewrite (lookup_strip_entries kvs "anyOf" eq_refl).
    rewrite (lookup_strip_entries kvs "oneOf" eq_refl).
    rewrite s_chk_props, s_chk_addl, s_chk_prefix, s_chk_items, s_chk_anyOf, s_chk_oneOf, s_chk_ref.
    reflexivity.
  Qed.
End Strip.

Theorem strip_preserves_validation : forall fuel root s d,
  validates fuel (strip root) (strip s) d = validates fuel root s d.
Proof.
  intros fuel root. induction fuel as [|f IH]; intros s d; destruct s as [| | | | | |kvs]; try reflexivity.
  rewrite strip_obj.
  change (chk_object (validates f (strip root)) (strip root) (strip_entries kvs) d
          = chk_object (validates f root) root kvs d).
  apply s_chk_object. exact IH.
Qed.
