(* Proofs for C20: the renderer model meets the drawing specification, for every hierarchy tree,
   every link list and every configuration (structural induction; no bounds). *)
From Coq Require Import ZArith NArith List Bool Arith Permutation Lia.
Import ListNotations.
From HV Require Import lib.Harness model.Render spec.RenderS.

(* ---- induction principle through the nested list ---- *)
Section HInd.
  Variable P : htree -> Prop.
  Hypothesis H : forall i ch, Forall P ch -> P (HNode i ch).
  Fixpoint htree_ind2 (t : htree) : P t :=
    match t with
    | HNode i ch =>
        H i ch ((fix go (l : list htree) : Forall P l :=
                   match l with [] => Forall_nil _ | x :: r => Forall_cons x (htree_ind2 x) (go r) end) ch)
    end.
End HInd.

Lemma zeqb_refl z : Z.eqb z z = true. Proof. apply Z.eqb_refl. Qed.
Lemma str_eqb_refl s : str_eqb s s = true.
Proof. unfold str_eqb. induction s as [|x r IH]; cbn; [reflexivity|]. now rewrite Z.eqb_refl. Qed.
Lemma zlist_eqb_refl (s : list Z) : list_eqb Z.eqb s s = true.
Proof. exact (str_eqb_refl s). Qed.

(* ---- perm_eqb: reflexive, and sound for Permutation ---- *)
Lemma remove1_sound {A} (eqb : A -> A -> bool) (Heq : forall a b, eqb a b = true -> a = b) x l l' :
  remove1 eqb x l = Some l' -> Permutation l (x :: l').
Proof.
  revert l'. induction l as [|y r IH]; cbn; intros l' E; [discriminate|].
  destruct (eqb x y) eqn:Exy.
  - apply Heq in Exy. subst. inversion E; subst. apply Permutation_refl.
  - destruct (remove1 eqb x r) as [r'|] eqn:Er; [|discriminate]. inversion E; subst.
    specialize (IH r' eq_refl). eapply Permutation_trans; [apply perm_skip, IH|]. apply perm_swap.
Qed.
Lemma perm_eqb_sound {A} (eqb : A -> A -> bool) (Heq : forall a b, eqb a b = true -> a = b) a :
  forall b, perm_eqb eqb a b = true -> Permutation a b.
Proof.
  induction a as [|x r IH]; cbn; intros b E.
  - destruct b; [constructor|discriminate].
  - destruct (remove1 eqb x b) as [b'|] eqn:Er; [|discriminate].
    apply remove1_sound in Er; [|assumption]. apply Permutation_sym in Er.
    eapply Permutation_trans; [apply perm_skip, IH, E|exact Er].
Qed.
Lemma perm_eqb_refl {A} (eqb : A -> A -> bool) (Hr : forall a, eqb a a = true) l : perm_eqb eqb l l = true.
Proof. induction l as [|x r IH]; cbn; [reflexivity|]. now rewrite Hr. Qed.

(* ---- statements of the rendering = nodes of the tree, in rendering order ---- *)

Fixpoint tree_flags (t : htree) : list (ninfo * bool) :=     (* each node with "has children" *)
  match t with
  | HNode i ch => flat_map tree_flags ch ++ [(i, match ch with [] => false | _ => true end)]
  end.
Lemma flat_map_map {A B C} (f : A -> B) (g : B -> list C) l : flat_map g (map f l) = flat_map (fun x => g (f x)) l.
Proof. induction l; cbn; [reflexivity|]. now rewrite IHl. Qed.
Lemma flat_map_ext_forall {A B} (f g : A -> list B) l : Forall (fun x => f x = g x) l -> flat_map f l = flat_map g l.
Proof. induction 1; cbn; [reflexivity|]. now rewrite H, IHForall. Qed.
Lemma map_flat_map {A B C} (f : A -> list B) (g : B -> C) l : map g (flat_map f l) = flat_map (fun x => map g (f x)) l.
Proof. induction l; cbn; [reflexivity|]. now rewrite map_app, IHl. Qed.

Lemma stmts_of_viz c t :
  dot_stmts (viz_node c t) = map (fun ib => stmt_of c (fst ib) (snd ib)) (tree_flags t).
Proof.
  induction t as [i ch IH] using htree_ind2.
  destruct ch as [|c0 cr]; [reflexivity|].
  cbn [viz_node dot_stmts tree_flags]. rewrite map_app. f_equal.
  rewrite flat_map_map, map_flat_map. apply flat_map_ext_forall. exact IH.
Qed.
Lemma flags_infos t : map fst (tree_flags t) = tree_infos t.
Proof.
  induction t as [i ch IH] using htree_ind2. cbn [tree_flags tree_infos].
  rewrite map_app. cbn. f_equal. rewrite map_flat_map. apply flat_map_ext_forall. exact IH.
Qed.
Lemma stmt_ids c t : map ns_id (dot_stmts (viz_node c t)) = map ni_idx (tree_infos t).
Proof. rewrite stmts_of_viz, <- flags_infos, !map_map. reflexivity. Qed.

(* ---- (1) one statement per node ---- *)
Lemma render_nodes_once_b c h :
  perm_eqb Z.eqb (map ni_idx (tree_infos (hv_tree h))) (hv_nodes h) = true ->
  nodes_once_b h (render c (hv_tree h) (hv_links h)) = true.
Proof. unfold nodes_once_b, render; cbn [d_top]. now rewrite stmt_ids. Qed.
Lemma render_nodes_once c h :
  Permutation (map ni_idx (tree_infos (hv_tree h))) (hv_nodes h) ->
  NodesOnce h (render c (hv_tree h) (hv_links h)).
Proof. unfold NodesOnce, render; cbn [d_top]. now rewrite stmt_ids. Qed.
Lemma nodes_once_b_sound h d : nodes_once_b h d = true -> NodesOnce h d.
Proof. apply perm_eqb_sound. intros a b E. now apply Z.eqb_eq. Qed.

(* ---- (2) every statement carries its node's name, metadata and port cells ---- *)
Lemma carries_stmt_of c i p : carries_b c i (stmt_of c i p) = true.
Proof.
  unfold carries_b, stmt_of, display, op_name, zseq; cbn [ns_id ns_label ns_in ns_out ns_data].
  rewrite Z.eqb_refl. unfold str_eqb. now rewrite !zlist_eqb_refl.
Qed.
Lemma find_info_nodup l i : NoDup (map ni_idx l) -> In i l -> find_info l (ni_idx i) = Some i.
Proof.
  induction l as [|x r IH]; cbn; intros Hnd Hin; [contradiction|]. inversion Hnd as [|? ? Hx Hr]; subst.
  destruct Hin as [->|Hin]; [now rewrite Z.eqb_refl|].
  destruct (Z.eqb_spec (ni_idx x) (ni_idx i)) as [E|_]; [|auto].
  exfalso. apply Hx. rewrite E. now apply in_map.
Qed.
Lemma render_stmts_carry c h :
  NoDup (map ni_idx (tree_infos (hv_tree h))) ->
  stmts_carry_b c h (render c (hv_tree h) (hv_links h)) = true.
Proof.
  intros Hnd. unfold stmts_carry_b, render; cbn [d_top]. rewrite stmts_of_viz.
  apply forallb_forall. intros s Hs. apply in_map_iff in Hs. destruct Hs as [[i p] [<- Hin]]. cbn [fst snd].
  assert (Hi : In i (tree_infos (hv_tree h))) by (rewrite <- flags_infos; now apply (in_map fst) in Hin).
  change (ns_id (stmt_of c i p)) with (ni_idx i). rewrite (find_info_nodup _ _ Hnd Hi). apply carries_stmt_of.
Qed.

(* ---- (3) clusters mirror the hierarchy ---- *)
Lemma render_mirrors c t : Mirrors t (viz_node c t).
Proof.
  induction t as [i ch IH] using htree_ind2. destruct ch as [|c0 cr].
  - constructor. reflexivity.
  - cbn [viz_node]. constructor; [discriminate|reflexivity|reflexivity|].
    induction IH as [|x r Hx Hr IHr]; cbn; constructor; assumption.
Qed.
Definition mirrors_list :=
  fix go (x : list htree) (y : list dnode) : bool :=
    match x, y with
    | [], [] => true
    | p :: r, q :: r' => mirrors_b p q && go r r'
    | _, _ => false
    end.
Lemma mirrors_b_cons i c0 cr id body s col :
  mirrors_b (HNode i (c0 :: cr)) (DCluster id body s col) =
  Z.eqb id (ni_idx i) && Z.eqb (ns_id s) (ni_idx i) && mirrors_list (c0 :: cr) body.
Proof. reflexivity. Qed.
Lemma mirrors_list_map c l :
  Forall (fun t => mirrors_b t (viz_node c t) = true) l -> mirrors_list l (map (viz_node c) l) = true.
Proof. induction 1 as [|x r Hx Hr IHr]; [reflexivity|]. cbn [map mirrors_list]. now rewrite Hx, IHr. Qed.
Lemma render_mirrors_b c t : mirrors_b t (viz_node c t) = true.
Proof.
  induction t as [i ch IH] using htree_ind2. destruct ch as [|c0 cr]; [cbn; apply Z.eqb_refl|].
  change (viz_node c (HNode i (c0 :: cr))) with
    (DCluster (ni_idx i) (map (viz_node c) (c0 :: cr)) (stmt_of c i true) (p_edge (c_pal c))).
  rewrite mirrors_b_cons. cbn [stmt_of ns_id]. rewrite !Z.eqb_refl. cbn [andb].
  now apply mirrors_list_map.
Qed.
Lemma mirrors_list_sound l :
  Forall (fun t => forall d, mirrors_b t d = true -> Mirrors t d) l ->
  forall body, mirrors_list l body = true -> Forall2 Mirrors l body.
Proof.
  induction 1 as [|x r Hx Hr IHr]; intros [|q r'] E; try discriminate; [constructor|].
  cbn [mirrors_list] in E. apply andb_prop in E. destruct E as [Ea Eb]. constructor; [now apply Hx|now apply IHr].
Qed.
Lemma mirrors_b_sound t : forall d, mirrors_b t d = true -> Mirrors t d.
Proof.
  induction t as [i ch IH] using htree_ind2. intros d E. destruct ch as [|c0 cr].
  - destruct d; cbn in E; [|discriminate]. constructor. now apply Z.eqb_eq.
  - destruct d as [|id body s col]; [discriminate|]. rewrite mirrors_b_cons in E.
    apply andb_prop in E. destruct E as [E1 E3]. apply andb_prop in E1. destruct E1 as [E1 E2].
    apply Z.eqb_eq in E1, E2. constructor; [discriminate|assumption|assumption|].
    now apply mirrors_list_sound.
Qed.

(* ---- (3') the same up to the order of siblings: what the monitor evaluates ---- *)
Lemma take1_sound {A} (f : A -> bool) l : forall l', take1 f l = Some l' -> exists q, f q = true /\ Permutation l (q :: l').
Proof.
  induction l as [|x r IH]; cbn; intros l' E; [discriminate|].
  destruct (f x) eqn:Ex.
  - inversion E; subst. exists x. split; [assumption|apply Permutation_refl].
  - destruct (take1 f r) as [r'|] eqn:Er; [|discriminate]. inversion E; subst.
    destruct (IH r' eq_refl) as [q [Hq Hp]]. exists q. split; [assumption|].
    eapply Permutation_trans; [apply perm_skip, Hp|apply perm_swap].
Qed.
Definition mirrors_perm_list :=
  fix go (x : list htree) (y : list dnode) : bool :=
    match x with
    | [] => match y with [] => true | _ => false end
    | p :: r => match take1 (mirrors_perm_b p) y with Some y' => go r y' | None => false end
    end.
Lemma mirrors_perm_b_cons i c0 cr id body s col :
  mirrors_perm_b (HNode i (c0 :: cr)) (DCluster id body s col) =
  Z.eqb id (ni_idx i) && Z.eqb (ns_id s) (ni_idx i) && mirrors_perm_list (c0 :: cr) body.
Proof. reflexivity. Qed.
Lemma mirrors_perm_list_map c l :
  Forall (fun t => mirrors_perm_b t (viz_node c t) = true) l -> mirrors_perm_list l (map (viz_node c) l) = true.
Proof. induction 1 as [|x r Hx Hr IHr]; [reflexivity|]. cbn [map mirrors_perm_list take1]. now rewrite Hx. Qed.
Lemma render_mirrors_perm_b c t : mirrors_perm_b t (viz_node c t) = true.
Proof.
  induction t as [i ch IH] using htree_ind2. destruct ch as [|c0 cr]; [cbn; apply Z.eqb_refl|].
  change (viz_node c (HNode i (c0 :: cr))) with
    (DCluster (ni_idx i) (map (viz_node c) (c0 :: cr)) (stmt_of c i true) (p_edge (c_pal c))).
  rewrite mirrors_perm_b_cons. cbn [stmt_of ns_id]. rewrite !Z.eqb_refl. cbn [andb].
  now apply mirrors_perm_list_map.
Qed.
Lemma mirrors_perm_list_sound l :
  Forall (fun t => forall d, mirrors_perm_b t d = true -> MirrorsP t d) l ->
  forall body, mirrors_perm_list l body = true -> exists body', Permutation body body' /\ Forall2 MirrorsP l body'.
Proof.
  induction 1 as [|x r Hx Hr IHr]; intros body E.
  - destruct body; [|discriminate]. exists []. split; constructor.
  - cbn [mirrors_perm_list] in E. destruct (take1 (mirrors_perm_b x) body) as [y'|] eqn:Et; [|discriminate].
    apply take1_sound in Et. destruct Et as [q [Hq Hp]]. destruct (IHr y' E) as [b' [Hp' Hf]].
    exists (q :: b'). split; [eapply Permutation_trans; [exact Hp|now apply perm_skip]|].
    constructor; [now apply Hx|assumption].
Qed.
Lemma mirrors_perm_b_sound t : forall d, mirrors_perm_b t d = true -> MirrorsP t d.
Proof.
  induction t as [i ch IH] using htree_ind2. intros d E. destruct ch as [|c0 cr].
  - destruct d; cbn in E; [|discriminate]. constructor. now apply Z.eqb_eq.
  - destruct d as [|id body s col]; [discriminate|]. rewrite mirrors_perm_b_cons in E.
    apply andb_prop in E. destruct E as [E1 E3]. apply andb_prop in E1. destruct E1 as [E1 E2].
    apply Z.eqb_eq in E1, E2. destruct (mirrors_perm_list_sound _ IH _ E3) as [b' [Hp Hf]].
    econstructor; [discriminate|assumption|assumption|exact Hp|exact Hf].
Qed.
(* the ordered statement implies the one up to order *)
Lemma mirrors_weaken t : forall d, Mirrors t d -> MirrorsP t d.
Proof.
  induction t as [i ch IH] using htree_ind2. intros d H. inversion H as [i0 s0 Hs|i0 ch0 id body s col Hne Hid Hs Hf]; subst.
  - now constructor.
  - econstructor; [assumption|reflexivity|assumption|apply Permutation_refl|].
    clear H Hne. induction Hf as [|x y r r' Hxy Hr IHr]; [constructor|].
    inversion IH as [|? ? Hx Hrest]; subst. constructor; [now apply Hx|now apply IHr].
Qed.
Lemma render_mirrors_perm c t : MirrorsP t (viz_node c t).
Proof. apply mirrors_weaken, render_mirrors. Qed.

(* ---- (4) one edge statement per link, right endpoints, value edges labelled by type ---- *)
Lemma render_edges c ls : map edge_of_stmt (map (viz_link c) ls) = map edge_of_link ls.
Proof. rewrite map_map. apply map_ext. intros l. reflexivity. Qed.
Lemma edge_eqb_refl e : edge_eqb e e = true.
Proof. destruct e as [[[[a b] c0] d] s]. cbn. now rewrite !Z.eqb_refl, str_eqb_refl. Qed.
Lemma render_edges_once_b c h : edges_once_b h (render c (hv_tree h) (hv_links h)) = true.
Proof. unfold edges_once_b, render; cbn [d_edges]. rewrite render_edges. apply perm_eqb_refl, edge_eqb_refl. Qed.
Lemma render_edges_once c h : EdgesOnce h (render c (hv_tree h) (hv_links h)).
Proof. unfold EdgesOnce, render; cbn [d_edges]. rewrite render_edges. apply Permutation_refl. Qed.
Lemma render_value_labels c l :
  e_label (viz_link c l) = match l_kind l with KValue ty => ty | _ => [] end.
Proof. reflexivity. Qed.

(* ---- the whole specification ---- *)
Lemma render_meets_spec c h :
  NoDup (map ni_idx (tree_infos (hv_tree h))) ->
  perm_eqb Z.eqb (map ni_idx (tree_infos (hv_tree h))) (hv_nodes h) = true ->
  spec_b c h (render c (hv_tree h) (hv_links h)) = true.
Proof.
  intros Hnd Hp. unfold spec_b.
  rewrite (render_nodes_once_b c h Hp), (render_stmts_carry c h Hnd), render_edges_once_b.
  cbn [render d_top]. now rewrite render_mirrors_perm_b.
Qed.

(* ---- (5) configurations: only colours and the qualification of names differ ---- *)
Lemma erase_stmt_cfg names c1 c2 i p :
  (names = true \/ c_qualify c1 = c_qualify c2) ->
  erase_stmt names (stmt_of c1 i p) = erase_stmt names (stmt_of c2 i p).
Proof.
  intros H. unfold erase_stmt, stmt_of, op_name; cbn. destruct names; [reflexivity|].
  destruct H as [H|H]; [discriminate|]. now rewrite H.
Qed.
Lemma erase_node_cfg names c1 c2 t :
  (names = true \/ c_qualify c1 = c_qualify c2) ->
  erase_node names (viz_node c1 t) = erase_node names (viz_node c2 t).
Proof.
  intros H. induction t as [i ch IH] using htree_ind2. destruct ch as [|c0 cr].
  - cbn. f_equal. now apply erase_stmt_cfg.
  - cbn [viz_node erase_node]. f_equal; [|now apply erase_stmt_cfg].
    rewrite !map_map. induction IH as [|x r Hx Hr IHr]; cbn; [reflexivity|]. now rewrite Hx, IHr.
Qed.
Lemma render_config_independent names c1 c2 t ls :
  (names = true \/ c_qualify c1 = c_qualify c2) ->
  erase names (render c1 t ls) = erase names (render c2 t ls).
Proof.
  intros H. unfold erase, render; cbn. f_equal; [now apply erase_node_cfg|].
  rewrite !map_map. apply map_ext. intros l. reflexivity.
Qed.

(* ---- (6) the specification at the strength of the property text: what the monitor evaluates ---- *)
Lemma carries_weaken c i s : carries_b c i s = true -> carries_p_b c i s = true.
Proof.
  unfold carries_b, carries_p_b, display. intros E.
  apply andb_prop in E. destruct E as [E _]. apply andb_prop in E. destruct E as [E E4].
  apply andb_prop in E. destruct E as [E E3]. apply andb_prop in E. destruct E as [E1 E2].
  rewrite E1, E3, E4. destruct (c_qualify c); rewrite E2; cbn; [reflexivity|now rewrite orb_true_r].
Qed.
Lemma stmts_weaken c h d : stmts_carry_b c h d = true -> stmts_promised_b c h d = true.
Proof.
  unfold stmts_carry_b, stmts_promised_b. rewrite !forallb_forall. intros H s Hs. specialize (H s Hs).
  destruct (find_info (tree_infos (hv_tree h)) (ns_id s)); [now apply carries_weaken|discriminate].
Qed.
Lemma value_src_in ls l ty : In l ls -> l_kind l = KValue ty -> value_src ls (l_src l) (l_soff l) = true.
Proof.
  intros Hin K. unfold value_src. apply existsb_exists. exists l. split; [assumption|].
  now rewrite !Z.eqb_refl, K.
Qed.
Lemma edge_p_of_viz c ls l : In l ls -> edge_of_stmt_p ls (viz_link c l) = edge_of_link l.
Proof.
  intros Hin. unfold edge_of_stmt_p, edge_of_link, viz_link; cbn [e_src e_sport e_dst e_dport e_label].
  destruct (value_src ls (l_src l) (l_soff l)) eqn:E; [reflexivity|].
  destruct (l_kind l) as [ty| | | |] eqn:K; try reflexivity.
  rewrite (value_src_in ls l ty Hin K) in E. discriminate.
Qed.
Lemma render_edges_p c ls : map (edge_of_stmt_p ls) (map (viz_link c) ls) = map edge_of_link ls.
Proof. rewrite map_map. apply map_ext_in. intros l Hl. now apply edge_p_of_viz. Qed.
Lemma render_edges_promised_b c h : edges_promised_b h (render c (hv_tree h) (hv_links h)) = true.
Proof. unfold edges_promised_b, render; cbn [d_edges]. rewrite render_edges_p. apply perm_eqb_refl, edge_eqb_refl. Qed.
Lemma render_edges_once_p c h : EdgesOnceP h (render c (hv_tree h) (hv_links h)).
Proof. unfold EdgesOnceP, render; cbn [d_edges]. rewrite render_edges_p. apply Permutation_refl. Qed.
Lemma str_eqb_eq a b : str_eqb a b = true -> a = b.
Proof. unfold str_eqb. destruct (list_eqb_spec Z.eqb Z.eqb_spec a b); [auto|discriminate]. Qed.
Lemma edge_eqb_eq a b : edge_eqb a b = true -> a = b.
Proof.
  destruct a as [[[[a1 a2] a3] a4] a5], b as [[[[b1 b2] b3] b4] b5]. cbn. intros E.
  repeat (apply andb_prop in E; destruct E as [E ?]).
  repeat match goal with H : Z.eqb _ _ = true |- _ => apply Z.eqb_eq in H end.
  match goal with H : str_eqb _ _ = true |- _ => apply str_eqb_eq in H end. now subst.
Qed.
Lemma edges_promised_b_sound h d : edges_promised_b h d = true -> EdgesOnceP h d.
Proof. apply perm_eqb_sound. exact edge_eqb_eq. Qed.
(* the strict statement (non-value edges unlabelled) implies the promised one *)
Lemma edges_weaken h d : EdgesOnce h d -> EdgesOnceP h d.
Proof.
  unfold EdgesOnce, EdgesOnceP. intros P.
  replace (map (edge_of_stmt_p (hv_links h)) (d_edges d)) with (map edge_of_stmt (d_edges d)); [exact P|].
  apply map_ext_in. intros e He. unfold edge_of_stmt_p, edge_of_stmt.
  destruct (value_src (hv_links h) (e_src e) (e_sport e)) eqn:E; [reflexivity|]. f_equal.
  assert (Hin : In (edge_of_stmt e) (map edge_of_link (hv_links h))).
  { eapply Permutation_in; [exact P|]. now apply in_map. }
  apply in_map_iff in Hin. destruct Hin as [l [Hl Hin]]. unfold edge_of_link, edge_of_stmt in Hl.
  inversion Hl as [[H1 H2 H3 H4 H5]]. destruct (l_kind l) as [ty| | | |] eqn:K; try reflexivity.
  rewrite <- H1, <- H2, (value_src_in _ l ty Hin K) in E. discriminate.
Qed.
Lemma render_meets_promised_spec c h :
  NoDup (map ni_idx (tree_infos (hv_tree h))) ->
  perm_eqb Z.eqb (map ni_idx (tree_infos (hv_tree h))) (hv_nodes h) = true ->
  spec_p_b c h (render c (hv_tree h) (hv_links h)) = true.
Proof.
  intros Hnd Hp. unfold spec_p_b.
  rewrite (render_nodes_once_b c h Hp), (stmts_weaken _ _ _ (render_stmts_carry c h Hnd)), render_edges_promised_b.
  cbn [render d_top]. now rewrite render_mirrors_perm_b.
Qed.
(* a drawing that has the promised content of the model's (the correspondence) is judged like the model's on the
   clauses about node statements: dropping colours and metadata text does not touch what carries_p_b reads *)
Lemma carries_p_promised c i s : carries_p_b c i (promised_stmt s) = carries_p_b c i s.
Proof. reflexivity. Qed.

(* non-vacuity: a three-node hierarchy with one value link *)
Definition ex_info (i : Z) (n m : nat) : ninfo :=
  {| ni_idx := i; ni_name_q := [100; 46; 120]%Z; ni_name_u := [120]%Z; ni_nin := n; ni_nout := m; ni_meta := [([107]%Z, [49]%Z)] |}.
Definition ex_tree := HNode (ex_info 0 0 1) [HNode (ex_info 1 0 2) []; HNode (ex_info 2 1 0) []].
Definition ex_view := {| hv_tree := ex_tree; hv_nodes := [0; 1; 2]%Z;
                         hv_links := [{| l_src := 1; l_soff := 0; l_dst := 2; l_doff := 0; l_kind := KValue [66]%Z |}] |}.
Definition ex_cfg := {| c_pal := {| p_background := 1%N; p_node := 2%N; p_edge := 3%N; p_dark := 4%N; p_const := 5%N;
                                    p_discard := 6%N; p_node_border := 7%N; p_port_border := 8%N |}; c_qualify := false |}.
Example ex_guards : NoDup (map ni_idx (tree_infos ex_tree)) /\
                    perm_eqb Z.eqb (map ni_idx (tree_infos ex_tree)) (hv_nodes ex_view) = true.
Proof. split; [|reflexivity]. cbn. repeat constructor; cbn; intuition discriminate. Qed.

(* ---- seeded round 5: a drawing is determined by the HUGR and the options of that rendering ---- *)
Lemma palette_eqb_eq a b : palette_eqb a b = true <-> a = b.
Proof.
  split.
  - destruct a, b. unfold palette_eqb. cbn. rewrite !andb_true_iff, !N.eqb_eq. intuition congruence.
  - intros ->. destruct b. unfold palette_eqb. cbn. now rewrite !N.eqb_refl.
Qed.
Lemma config_eqb_eq a b : config_eqb a b = true <-> a = b.
Proof.
  split.
  - destruct a as [pa qa], b as [pb qb]. unfold config_eqb. cbn. rewrite andb_true_iff, palette_eqb_eq.
    intros [-> E]. apply Bool.eqb_prop in E. now subst.
  - intros ->. unfold config_eqb. rewrite (proj2 (palette_eqb_eq _ _) eq_refl). now destruct (c_qualify b).
Qed.
Lemma determined_b_sound rs : determined_b rs = true -> Determined rs.
Proof.
  induction rs as [|[c d] r IH]; cbn [determined_b]; intros E; [constructor|].
  apply andb_true_iff in E. destruct E as [E1 E2]. constructor; [|apply IH, E2].
  intros c' d' Hin ->. rewrite forallb_forall in E1. specialize (E1 _ Hin). cbn in E1.
  rewrite (proj2 (config_eqb_eq c c) eq_refl) in E1. exact E1.
Qed.
Lemma determined_b_complete rs : Determined rs -> determined_b rs = true.
Proof.
  induction 1 as [|c d r H _ IH]; cbn [determined_b]; [reflexivity|]. rewrite IH, andb_true_r.
  apply forallb_forall. intros [c' d'] Hin. cbn. destruct (config_eqb c' c) eqn:E; [|reflexivity].
  apply config_eqb_eq in E. cbn. exact (H c' d' Hin E).
Qed.
Lemma nstmt_eqb_refl s : nstmt_eqb s s = true.
Proof. unfold nstmt_eqb, str_eqb. now rewrite !Z.eqb_refl, !zlist_eqb_refl, !N.eqb_refl. Qed.
Lemma estmt_eqb_refl e : estmt_eqb e e = true.
Proof. unfold estmt_eqb. now rewrite !Z.eqb_refl, str_eqb_refl, N.eqb_refl. Qed.
Fixpoint dnode_peqb_refl (d : dnode) : dnode_peqb d d = true.
Proof.
  destruct d as [s | i body s c].
  - cbn. apply nstmt_eqb_refl.
  - cbn [dnode_peqb]. rewrite Z.eqb_refl, nstmt_eqb_refl, N.eqb_refl. cbn [andb].
    revert body. fix IH 1. intros [|p r]; [reflexivity|].
    cbn [take1]. rewrite (dnode_peqb_refl p). apply IH.
Qed.
Lemma dot_peqb_refl d : dot_peqb d d = true.
Proof.
  unfold dot_peqb. rewrite N.eqb_refl, dnode_peqb_refl. cbn [andb]. apply perm_eqb_refl, estmt_eqb_refl.
Qed.
(* the model: whatever renderings of one HUGR are made, under whatever options and in whatever order (the model's
   render is a function of the options and of what it reads from the HUGR - it has no other input) *)
Lemma render_determined t ls cs : Determined (map (fun c => (c, render c t ls)) cs).
Proof.
  induction cs as [|c r IH]; cbn [map]; constructor; [|exact IH].
  intros c' d' Hin ->. apply in_map_iff in Hin. destruct Hin as [c2 [E _]]. inversion E; subst. apply dot_peqb_refl.
Qed.
(* non-vacuity: two renderings of the example under the same options that differ in a name are rejected, under
   different options they are accepted *)
Example ex_determined :
  determined_b [(ex_cfg, render ex_cfg ex_tree (hv_links ex_view));
                (ex_cfg, render {| c_pal := c_pal ex_cfg; c_qualify := true |} ex_tree (hv_links ex_view))] = false /\
  determined_b [(ex_cfg, render ex_cfg ex_tree (hv_links ex_view));
                ({| c_pal := c_pal ex_cfg; c_qualify := true |},
                 render {| c_pal := c_pal ex_cfg; c_qualify := true |} ex_tree (hv_links ex_view))] = true.
Proof. split; reflexivity. Qed.

(* ---- seeded round 5: renderers do not interfere ---- *)
Lemma upd_length {A} (f : A -> A) l : forall n, length (upd n f l) = length l.
Proof. induction l as [|x r IH]; intros [|n]; cbn; auto. Qed.
Lemma nth_error_seq0 n : forall r, nth_error (seq 0 n) r = if r <? n then Some r else None.
Proof.
  intros r. destruct (r <? n) eqn:E.
  - apply Nat.ltb_lt in E. rewrite nth_error_nth' with (d := 0) by now rewrite seq_length.
    now rewrite seq_nth.
  - apply Nat.ltb_ge in E. apply nth_error_None. now rewrite seq_length.
Qed.
Lemma upd_out {A} (f : A -> A) l : forall n, length l <= n -> upd n f l = l.
Proof.
  induction l as [|x r IH]; intros [|n] H; cbn in *; auto; try lia. f_equal. apply IH. lia.
Qed.
Lemma seq0_snoc n : seq 0 n ++ [n] = seq 0 (S n).
Proof. now rewrite seq_S. Qed.
Definition own_state (own : list config) : hstate := {| hs_heap := own; hs_rend := seq 0 (length own) |}.
Lemma hstep_own dflt t ls own o :
  hstep (fresh_default dflt) t ls (own_state own) o = (own_state (own_step dflt own o), own_draw t ls own o).
Proof.
  unfold own_state. destruct o as [[c|]|r b|r p|r]; cbn [hstep own_step own_draw fresh_default hs_heap hs_rend].
  - now rewrite app_length, Nat.add_1_r, seq0_snoc.
  - now rewrite app_length, Nat.add_1_r, seq0_snoc.
  - rewrite nth_error_seq0. destruct (r <? length own) eqn:E.
    + now rewrite upd_length.
    + apply Nat.ltb_ge in E. now rewrite upd_out.
  - rewrite nth_error_seq0. destruct (r <? length own) eqn:E.
    + now rewrite upd_length.
    + apply Nat.ltb_ge in E. now rewrite upd_out.
  - rewrite nth_error_seq0. destruct (r <? length own) eqn:E.
    + destruct (nth_error own r); reflexivity.
    + apply Nat.ltb_ge in E. apply nth_error_None in E. now rewrite E.
Qed.
Lemma hrun_own dflt t ls h : forall own,
  hrun (fresh_default dflt) t ls (own_state own) h = own_draws dflt t ls own h.
Proof.
  induction h as [|o r IH]; intros own; cbn [hrun own_draws]; [reflexivity|].
  rewrite hstep_own. now rewrite IH.
Qed.
Lemma renderers_do_not_interfere dflt t ls h :
  hrun (fresh_default dflt) t ls {| hs_heap := []; hs_rend := [] |} h = own_draws dflt t ls [] h.
Proof. exact (hrun_own dflt t ls h []). Qed.
(* the variant of seeded change C20-i: ONE module-level default configuration object (address 0 of the initial heap)
   given to every renderer made without a configuration - the faithful model of THAT code does not meet the
   specification: customise one default-made renderer, draw with another *)
Definition module_default (s : hstate) : hstate * nat := (s, 0).
Lemma shared_default_interferes :
  exists h, hrun module_default ex_tree (hv_links ex_view) {| hs_heap := [ex_cfg]; hs_rend := [] |} h
            <> own_draws ex_cfg ex_tree (hv_links ex_view) [] h.
Proof. exists [HNew None; HSetQual 0 true; HNew None; HDraw 1]. vm_compute. discriminate. Qed.
(* non-vacuity: a history with customised renderers produces drawings, and they differ *)
Example ex_history :
  length (own_draws ex_cfg ex_tree (hv_links ex_view) []
            [HNew None; HSetQual 0 true; HDraw 0; HNew None; HDraw 1; HNew (Some ex_cfg); HSetPal 2 (c_pal ex_cfg); HDraw 2]) = 3.
Proof. reflexivity. Qed.
