(* Proofs for C15: the tracked builder simulates the explicit plain-builder program. *)
From Coq Require Import ZArith NArith List Bool Arith Lia.
Import ListNotations.
From HV Require Import lib.Harness model.Tracked spec.TrackedS.

(* ---- list facts ---- *)
Lemma set_nth_length {A} (l : list A) n x : length (set_nth l n x) = length l.
Proof. revert n; induction l as [|y r IH]; intros [|n]; cbn; auto. Qed.
Lemma nth_set_nth_same {A} (l : list A) n x : n < length l -> nth_error (set_nth l n x) n = Some x.
Proof. revert n; induction l as [|y r IH]; intros [|n] H; cbn in *; try lia; auto. apply IH; lia. Qed.
Lemma nth_set_nth_other {A} (l : list A) n m x : m <> n -> nth_error (set_nth l n x) m = nth_error l m.
Proof. revert n m; induction l as [|y r IH]; intros [|n] [|m] H; cbn; auto; try lia. Qed.

(* ---- the invariant: the tracked list is the abstract binding history read at every index ---- *)
Definition at_index (tr : tracked) (i : Z) : option (option wire) :=
  if (i <? 0)%Z then None else nth_error tr (Z.to_nat i).
Definition same_table (tr : tracked) (log : list event) : Prop :=
  forall i, latest log i = at_index tr i.
Definition agree (h : hugr) (tr : tracked) (st : astate) : Prop :=
  a_next st = Z.of_nat (length tr) /\ a_cnt st = node_count h /\ same_table tr (a_log st).

Lemma tracked_wire_denotes h tr st i : agree h tr st -> tracked_wire tr i = denotes st i.
Proof.
  intros (_ & _ & Ht). unfold tracked_wire, denotes. rewrite (Ht i). unfold at_index.
  destruct (i <? 0)%Z; reflexivity.
Qed.
Lemma to_wires_resolve h tr st args : agree h tr st -> to_wires tr args = resolve_args st args.
Proof.
  intros Ha. induction args as [|a r IH]; cbn; [reflexivity|].
  assert (E : to_wire tr a = resolve_arg st a) by (destruct a; cbn; [reflexivity|eapply tracked_wire_denotes; eauto]).
  rewrite E, IH. destruct (resolve_arg st a), (resolve_args st r); reflexivity.
Qed.

Lemma tracked_wire_range tr i w : tracked_wire tr i = Some w -> (0 <= i)%Z /\ Z.to_nat i < length tr.
Proof.
  unfold tracked_wire. destruct (Z.ltb_spec i 0); [discriminate|].
  destruct (nth_error tr (Z.to_nat i)) eqn:E; [|discriminate]. intros _. split; [lia|].
  apply nth_error_Some. congruence.
Qed.

Lemma same_table_bind tr log i v :
  same_table tr log -> (0 <= i)%Z -> Z.to_nat i < length tr ->
  same_table (set_nth tr (Z.to_nat i) v) ((i, v) :: log).
Proof.
  intros Ht Hi Hlen k. cbn. unfold at_index. destruct (Z.eqb_spec i k) as [->|Hne].
  - destruct (Z.ltb_spec k 0); [lia|]. now rewrite nth_set_nth_same.
  - rewrite (Ht k). unfold at_index. destruct (Z.ltb_spec k 0); [reflexivity|].
    rewrite nth_set_nth_other; [reflexivity|lia].
Qed.

Lemma same_table_append tr log w :
  same_table tr log -> same_table (tr ++ [Some w]) ((Z.of_nat (length tr), Some w) :: log).
Proof.
  intros Ht k. cbn. unfold at_index. destruct (Z.eqb_spec (Z.of_nat (length tr)) k) as [<-|Hne].
  - destruct (Z.ltb_spec (Z.of_nat (length tr)) 0); [lia|].
    rewrite Nat2Z.id, nth_error_app2, Nat.sub_diag by lia. reflexivity.
  - rewrite (Ht k). unfold at_index. destruct (Z.ltb_spec k 0); [reflexivity|].
    destruct (Nat.lt_ge_cases (Z.to_nat k) (length tr)) as [Hlt|Hge].
    + now rewrite nth_error_app1.
    + assert (E1 : nth_error tr (Z.to_nat k) = None) by (apply nth_error_None; lia).
      assert (E2 : nth_error (tr ++ [Some w]) (Z.to_nat k) = None)
        by (apply nth_error_None; rewrite app_length; cbn; lia).
      congruence.
Qed.

Lemma agree_track h tr st w : agree h tr st -> agree h (tr ++ [Some w]) (a_track st w).
Proof.
  intros (Hn & Hc & Ht). unfold a_track. repeat split; cbn.
  - rewrite app_length; cbn. lia.
  - exact Hc.
  - rewrite Hn. now apply same_table_append.
Qed.
Lemma agree_track_many h ws : forall tr st, agree h tr st -> agree h (tr ++ map Some ws) (fold_left a_track ws st).
Proof.
  induction ws as [|w r IH]; intros tr st Ha; cbn.
  - now rewrite app_nil_r.
  - replace (tr ++ Some w :: map Some r) with ((tr ++ [Some w]) ++ map Some r) by (now rewrite <- app_assoc).
    apply IH. now apply agree_track.
Qed.
Lemma agree_untrack h tr st i w :
  agree h tr st -> tracked_wire tr i = Some w -> agree h (set_nth tr (Z.to_nat i) None) (a_untrack st i).
Proof.
  intros (Hn & Hc & Ht) Hw. apply tracked_wire_range in Hw as [Hi Hlen].
  unfold a_untrack. repeat split; cbn; [now rewrite set_nth_length|exact Hc|now apply same_table_bind].
Qed.

(* every integer argument names a slot of the list *)
Definition ints_in_range (tr : tracked) (args : list arg) : Prop :=
  forall i, In (AI i) args -> (0 <= i)%Z /\ Z.to_nat i < length tr.
Lemma to_wires_in_range tr args ws : to_wires tr args = Some ws -> ints_in_range tr args.
Proof.
  revert ws; induction args as [|a r IH]; intros ws H i Hin; [destruct Hin|].
  cbn in H. destruct (to_wire tr a) eqn:Ea; [|discriminate].
  destruct (to_wires tr r) eqn:Er; [|discriminate].
  destruct Hin as [->|Hin]; [cbn in Ea; eapply tracked_wire_range; eauto|eapply IH; eauto].
Qed.

Lemma rebind_length args : forall tr n j, length (rebind tr n j args) = length tr.
Proof.
  induction args as [|[w|i] r IH]; intros; cbn; [reflexivity|apply IH|].
  rewrite IH. apply set_nth_length.
Qed.
Lemma same_table_rebind args : forall tr log n j,
  ints_in_range tr args -> same_table tr log ->
  same_table (rebind tr n j args) (rev (rebind_events n j args) ++ log).
Proof.
  induction args as [|[w|i] r IH]; intros tr log n j Hr Ht; cbn.
  - exact Ht.
  - apply IH; [|exact Ht]. intros i Hi. apply Hr. now right.
  - rewrite <- app_assoc. cbn. apply IH.
    + intros k Hk. rewrite set_nth_length. apply Hr. now right.
    + destruct (Hr i (or_introl eq_refl)). now apply same_table_bind.
Qed.

(* ---- the plain builder only appends ---- *)
Lemma wire_up_nodes ws : forall h dst i h' e, wire_up h dst i ws = (h', e) ->
  h_nodes h' = h_nodes h /\ h_nin h' = h_nin h.
Proof.
  induction ws as [|w r IH]; intros h dst i h' e H; cbn in H.
  - inversion H; subst. auto.
  - unfold wire_up_port in H. destruct (negb (src_exists h (fst w))); [inversion H; subst; auto|].
    destruct (nout h (fst w)) as [k|]; [|inversion H; subst; auto].
    destruct (snd w <? k)%N; [|inversion H; subst; auto].
    apply IH in H. cbn in H. exact H.
Qed.
Lemma add_op_nodes h op m ws h' e : add_op h op m ws = (h', e) ->
  h_nodes h' = h_nodes h ++ [(op, m)] /\ h_nin h' = h_nin h.
Proof. unfold add_op. intros H. apply wire_up_nodes in H. exact H. Qed.
Lemma set_outputs_nodes h ws h' e : set_outputs h ws = (h', e) -> h_nodes h' = h_nodes h /\ h_nin h' = h_nin h.
Proof.
  unfold set_outputs. destruct (wire_up h NOUT 0 ws) as [h1 [e1|]] eqn:E; intros H; inversion H; subst;
    apply wire_up_nodes in E; cbn; exact E.
Qed.
Lemma node_count_add h h' op m : h_nodes h' = h_nodes h ++ [(op, m)] -> node_count h' = (node_count h + 1)%N.
Proof. unfold node_count. intros ->. rewrite app_length. cbn. lia. Qed.

Lemma prun_app q1 : forall h q2, prun h (q1 ++ q2) =
  match prun h q1 with (h1, None) => prun h1 q2 | e => e end.
Proof.
  induction q1 as [|c r IH]; intros h q2; cbn; [reflexivity|].
  destruct (pstep h c) as [h1 [e|]]; [reflexivity|apply IH].
Qed.

(* ---- simulation, one command at a time ---- *)
(* what a (sub)run of the tracked builder from (h, tr) must look like, given the explicit commands q,
   the flag "every integer denoted a wire" and the abstract state reached *)
Definition sim (h : hugr) (q : list pcmd) (ok : bool) (fin : astate) (res : hugr * tracked * option err) : Prop :=
  let '(h', tr', r) := res in
  h_nin h' = h_nin h /\
  match r with
  | None => ok = true /\ prun h q = (h', None) /\ agree h' tr' fin
  | Some e => prun h q = (h', Some e) \/
              (e = EIndex /\ ok = false /\ prun h q = (h', None) /\ agree h' tr' fin)
  end.

Ltac sim_ok := split; [reflexivity|split; [reflexivity|split; [reflexivity|]]].
Ltac sim_idx Ha := split; [reflexivity|right; split; [reflexivity|split; [reflexivity|split; [reflexivity|exact Ha]]]].

Lemma add_sim h tr st op m args : agree h tr st ->
  match resolve_args st args with
  | Some ws => sim h [PAdd op m ws] true (a_added st args) (t_add h tr op m args)
  | None => t_add h tr op m args = (h, tr, Some EIndex)
  end.
Proof.
  intros Ha. unfold t_add. rewrite (to_wires_resolve h tr st args Ha).
  destruct (resolve_args st args) as [ws|] eqn:Er; [|reflexivity].
  rewrite <- (to_wires_resolve h tr st args Ha) in Er.
  destruct (add_op h op m ws) as [h' [e|]] eqn:Eo; cbn; rewrite Eo;
    destruct (add_op_nodes _ _ _ _ _ _ Eo) as [Hnodes Hnin]; (split; [exact Hnin|]).
  - now left.
  - split; [reflexivity|]. split; [reflexivity|].
    destruct Ha as (Hn & Hc & Ht). unfold a_added. repeat split; cbn.
    + now rewrite rebind_length.
    + rewrite (node_count_add _ _ _ _ Hnodes). now rewrite Hc.
    + unfold new_name. rewrite <- Hc. apply same_table_rebind; [eapply to_wires_in_range; eauto|exact Ht].
Qed.

Lemma extend_sim coms : forall h tr st, agree h tr st ->
  let '(q, ok, fin) := explicit_coms st coms in sim h q ok fin (t_extend h tr coms).
Proof.
  induction coms as [|[op args] r IH]; intros h tr st Ha; cbn.
  - sim_ok. exact Ha.
  - pose proof (add_sim h tr st op [] args Ha) as Hadd.
    destruct (resolve_args st args) as [ws|].
    + destruct (explicit_coms (a_added st args) r) as [[q ok] fin] eqn:Ec.
      destruct (t_add h tr op [] args) as [[h1 tr1] [e|]] eqn:Et.
      * cbn in Hadd. destruct Hadd as [Hnin [Hd|(_ & Hf & _)]]; [|discriminate].
        cbn. split; [exact Hnin|]. left. cbn in Hd.
        destruct (add_op h op [] ws) as [h2 [e2|]]; [exact Hd|discriminate].
      * cbn in Hadd. destruct Hadd as (Hnin & _ & Hp & Ha1).
        specialize (IH h1 tr1 _ Ha1). rewrite Ec in IH.
        destruct (t_extend h1 tr1 r) as [[h2 tr2] r2]. cbn in *.
        destruct (add_op h op [] ws) as [h3 [e3|]]; [discriminate|]. inversion Hp; subst h3.
        destruct IH as [Hnin2 IH]. split; [congruence|]. exact IH.
    + rewrite Hadd. cbn. sim_idx Ha.
Qed.

Lemma step_sim nin h tr st c : agree h tr st -> h_nin h = nin ->
  let '(q, ok, fin) := explicit_cmd nin st c in sim h q ok fin (step h tr c).
Proof.
  intros Ha Hnin. destruct c as [w|ws| |i|op m args|coms|args| ]; cbn.
  - sim_ok. now apply agree_track.
  - sim_ok. now apply agree_track_many.
  - rewrite Hnin. sim_ok. now apply agree_track_many.
  - rewrite (tracked_wire_denotes h tr st i Ha). destruct (denotes st i) as [w|] eqn:Ed; cbn.
    + sim_ok. eapply agree_untrack; eauto. rewrite (tracked_wire_denotes h tr st i Ha). exact Ed.
    + sim_idx Ha.
  - pose proof (add_sim h tr st op m args Ha) as Hadd.
    destruct (resolve_args st args) as [ws|]; [exact Hadd|].
    rewrite Hadd. cbn. sim_idx Ha.
  - apply extend_sim. exact Ha.
  - rewrite (to_wires_resolve h tr st args Ha). destruct (resolve_args st args) as [ws|]; cbn.
    + destruct (set_outputs h ws) as [h' [e|]] eqn:Es; cbn;
        destruct (set_outputs_nodes _ _ _ _ Es) as [Hnodes Hn]; (split; [exact Hn|]); rewrite ?Es.
      * now left.
      * split; [reflexivity|]. split; [reflexivity|]. destruct Ha as (H1 & H2 & H3). split; [exact H1|]. split; [|exact H3].
        unfold node_count. now rewrite Hnodes.
    + sim_idx Ha.
  - assert (El : live tr = live_wires st).
    { destruct Ha as (Hn & _ & Ht). unfold live_wires, live. rewrite Hn, Nat2Z.id.
      assert (G : forall k, k < length tr -> denotes st (Z.of_nat k) =
                   match nth_error tr k with Some (Some w) => Some w | _ => None end).
      { intros k Hk. unfold denotes. rewrite (Ht (Z.of_nat k)). unfold at_index.
        destruct (Z.ltb_spec (Z.of_nat k) 0); [lia|]. now rewrite Nat2Z.id. }
      clear Hn Ht. revert G. generalize (denotes st). intros f G.
      induction tr as [|o r IH] using rev_ind; [reflexivity|].
      rewrite app_length; cbn. rewrite Nat.add_1_r, seq_S, !flat_map_app. cbn. rewrite app_nil_r.
      f_equal.
      - apply IH. intros k Hk. rewrite G by (rewrite app_length; cbn; lia). now rewrite nth_error_app1.
      - rewrite G by (rewrite app_length; cbn; lia). rewrite nth_error_app2, Nat.sub_diag by lia. cbn.
        destruct o; reflexivity. }
    rewrite <- El. destruct (set_outputs h (live tr)) as [h' [e|]] eqn:Es; cbn;
      destruct (set_outputs_nodes _ _ _ _ Es) as [Hnodes Hn]; (split; [exact Hn|]); rewrite ?Es.
    + now left.
    + split; [reflexivity|]. split; [reflexivity|]. destruct Ha as (H1 & H2 & H3). split; [exact H1|]. split; [|exact H3].
      unfold node_count. now rewrite Hnodes.
Qed.

(* ---- simulation of whole programs ---- *)
Lemma run_sim nin p : forall h tr st, agree h tr st -> h_nin h = nin ->
  let '(q, ok, fin) := explicit_from nin st p in sim h q ok fin (run h tr p).
Proof.
  induction p as [|c r IH]; intros h tr st Ha Hnin; cbn.
  - sim_ok. exact Ha.
  - pose proof (step_sim nin h tr st c Ha Hnin) as Hs.
    destruct (explicit_cmd nin st c) as [[q okc] st1].
    destruct (step h tr c) as [[h1 tr1] [e|]]; cbn in Hs.
    + destruct Hs as [Hn1 [Hd|(He & Hok & Hp & Ha1)]].
      * destruct okc.
        -- destruct (explicit_from nin st1 r) as [[q' ok'] fin']. cbn. split; [exact Hn1|]. left.
           rewrite prun_app, Hd. reflexivity.
        -- cbn. split; [exact Hn1|]. now left.
      * subst okc. cbn. split; [exact Hn1|]. right. auto.
    + destruct Hs as (Hn1 & Hok & Hp & Ha1). subst okc.
      specialize (IH h1 tr1 st1 Ha1 (eq_trans Hn1 Hnin)).
      destruct (explicit_from nin st1 r) as [[q' ok'] fin'].
      destruct (run h1 tr1 r) as [[h2 tr2] r2]. cbn in *.
      destruct IH as [Hn2 IH]. split; [congruence|].
      rewrite prun_app, Hp. exact IH.
Qed.

Lemma agree_init nin track : agree (init_h nin) (init_tr nin track) (a_init nin track).
Proof.
  unfold init_tr, a_init. destruct track.
  - change (map Some (inputs nin)) with ([] ++ map Some (inputs nin)). apply agree_track_many.
    repeat split. intros i. cbn. unfold at_index. destruct (i <? 0)%Z; [reflexivity|]. now destruct (Z.to_nat i).
  - repeat split. intros i. cbn. unfold at_index. destruct (i <? 0)%Z; [reflexivity|]. now destruct (Z.to_nat i).
Qed.

(* ---- property-level statements ---- *)

(* the tracked program builds exactly the HUGR of the explicit program (nodes with metadata, links) *)
Theorem tracked_simulates_explicit nin track p h tr :
  run_tracked nin track p = (h, tr, None) ->
  exists q fin, explicit nin track p = (q, true, fin) /\ run_plain nin q = (h, None).
Proof.
  intros Hr. pose proof (run_sim nin p _ _ _ (agree_init nin track) eq_refl) as Hs.
  unfold explicit, run_plain. unfold run_tracked in Hr.
  destruct (explicit_from nin (a_init nin track) p) as [[q ok] fin]. rewrite Hr in Hs. cbn in Hs.
  destruct Hs as (_ & -> & Hp & _). eauto.
Qed.

(* also when the run stops with an error: same HUGR at that moment; either the explicit program stops
   with the same error, or an integer names no tracked wire and the tracked builder raises IndexError
   having built exactly what the explicit prefix builds *)
Theorem tracked_simulates_explicit_errors nin track p h tr e q ok fin :
  run_tracked nin track p = (h, tr, Some e) -> explicit nin track p = (q, ok, fin) ->
  run_plain nin q = (h, Some e) \/ (e = EIndex /\ ok = false /\ run_plain nin q = (h, None)).
Proof.
  intros Hr He. pose proof (run_sim nin p _ _ _ (agree_init nin track) eq_refl) as Hs.
  unfold explicit in He. unfold run_tracked in Hr. rewrite He, Hr in Hs. cbn in Hs.
  destruct Hs as (_ & [Hd|(H1 & H2 & H3 & _)]); [now left|right; auto].
Qed.

(* an integer denotes the most recent wire stored at that index: at every moment of a run the tracked
   table is the abstract history read by `latest` *)
Theorem int_denotes_latest nin track p h tr r q ok fin :
  run_tracked nin track p = (h, tr, r) -> explicit nin track p = (q, ok, fin) ->
  (r = None \/ (r = Some EIndex /\ ok = false /\ run_plain nin q = (h, None))) ->
  forall i, tracked_wire tr i = denotes fin i.
Proof.
  intros Hr He Hcase i. pose proof (run_sim nin p _ _ _ (agree_init nin track) eq_refl) as Hs.
  unfold explicit in He. unfold run_tracked in Hr. rewrite He, Hr in Hs. cbn in Hs.
  destruct Hs as (_ & Hs). destruct Hcase as [->|(-> & Hok & Hp)].
  - destruct Hs as (_ & _ & Ha). eapply tracked_wire_denotes; eauto.
  - destruct Hs as [Hd|(_ & _ & _ & Ha)]; [|eapply tracked_wire_denotes; eauto].
    unfold run_plain in Hp. congruence.
Qed.

(* rebinding by position *)
Lemma rebind_other args : forall tr n j k, ~ In (AI (Z.of_nat k)) args -> ints_in_range tr args ->
  nth_error (rebind tr n j args) k = nth_error tr k.
Proof.
  induction args as [|[w|i] r IH]; intros tr n j k Hnin Hr; cbn; [reflexivity| |].
  - apply IH; [intros H; apply Hnin; now right|intros i Hi; apply Hr; now right].
  - rewrite IH.
    + apply nth_set_nth_other. intros ->. apply Hnin. left. f_equal.
      destruct (Hr i (or_introl eq_refl)). lia.
    + intros H; apply Hnin; now right.
    + intros i' Hi. rewrite set_nth_length. apply Hr. now right.
Qed.
Lemma rebind_last args : forall tr n j pos i,
  ints_in_range tr args -> nth_error args pos = Some (AI i) ->
  (forall pos', pos < pos' -> nth_error args pos' <> Some (AI i)) ->
  nth_error (rebind tr n j args) (Z.to_nat i) = Some (Some (n, (j + N.of_nat pos)%N)).
Proof.
  induction args as [|a r IH]; intros tr n j pos i Hr Hp Hlast; [destruct pos; discriminate|].
  assert (Hr' : forall x, ints_in_range (set_nth tr (Z.to_nat x) (Some (n, j))) r).
  { intros x k Hk. rewrite set_nth_length. apply Hr. now right. }
  assert (Hr'' : ints_in_range tr r) by (intros k Hk; apply Hr; now right).
  destruct pos as [|pos]; cbn in Hp.
  - inversion Hp; subst a. cbn.
    assert (Hni : ~ In (AI i) r).
    { intros Hin. apply In_nth_error in Hin as [m Hm]. apply (Hlast (S m)); [lia|exact Hm]. }
    destruct (Hr i (or_introl eq_refl)) as [H0 Hlen].
    replace (AI i) with (AI (Z.of_nat (Z.to_nat i))) in Hni by (f_equal; lia).
    rewrite rebind_other; [|exact Hni|apply Hr'].
    rewrite nth_set_nth_same by exact Hlen. repeat f_equal. lia.
  - assert (Hl : forall pos', pos < pos' -> nth_error r pos' <> Some (AI i))
      by (intros pos' Hlt; apply (Hlast (S pos')); lia).
    destruct a as [w|i0]; cbn [rebind].
    + rewrite (IH tr n (j + 1)%N pos i Hr'' Hp Hl). do 3 f_equal. lia.
    + rewrite (IH _ n (j + 1)%N pos i (Hr' i0) Hp Hl). do 3 f_equal. lia.
Qed.

(* after a successful add, the integer at argument position pos (its last occurrence) names output pos
   of the new node, whatever the number of outputs of the operation; other indices are untouched *)
Theorem rebinding_by_position h tr op m args h' tr' :
  t_add h tr op m args = (h', tr', None) ->
  (forall pos i, nth_error args pos = Some (AI i) ->
     (forall pos', pos < pos' -> nth_error args pos' <> Some (AI i)) ->
     tracked_wire tr' i = Some (new_name h, N.of_nat pos)) /\
  (forall i, ~ In (AI i) args -> tracked_wire tr' i = tracked_wire tr i) /\
  length tr' = length tr.
Proof.
  unfold t_add. destruct (to_wires tr args) as [ws|] eqn:Ew; [|discriminate].
  destruct (add_op h op m ws) as [h1 [e|]]; [discriminate|]. intros H; inversion H; subst h1 tr'; clear H.
  pose proof (to_wires_in_range _ _ _ Ew) as Hr. split; [|split].
  - intros pos i Hp Hl. destruct (Hr i (nth_error_In _ _ Hp)) as [H0 _].
    unfold tracked_wire. destruct (Z.ltb_spec i 0); [lia|].
    now rewrite (rebind_last args tr (new_name h) 0%N pos i Hr Hp Hl).
  - intros i Hni. unfold tracked_wire. destruct (Z.ltb_spec i 0); [reflexivity|].
    rewrite rebind_other; [reflexivity| |exact Hr]. replace (Z.of_nat (Z.to_nat i)) with i by lia. exact Hni.
  - apply rebind_length.
Qed.

(* the wires connected by add are the ones tracked before the call (then the indices are rebound) *)
Theorem add_connects_then_rebinds h tr op m args h' tr' :
  t_add h tr op m args = (h', tr', None) ->
  exists ws, to_wires tr args = Some ws /\ add_op h op m ws = (h', None) /\
             tr' = rebind tr (new_name h) 0%N args.
Proof.
  unfold t_add. destruct (to_wires tr args) as [ws|]; [|discriminate].
  destruct (add_op h op m ws) as [h1 [e|]] eqn:E; [discriminate|]. intros H; inversion H; subst. eauto.
Qed.

(* untracking frees an index for good *)
Definition retired (tr : tracked) (i : Z) : Prop := (0 <= i)%Z /\ nth_error tr (Z.to_nat i) = Some None.
Lemma retired_not_tracked tr i : retired tr i -> tracked_wire tr i = None.
Proof. intros [H0 H]. unfold tracked_wire. destruct (Z.ltb_spec i 0); [reflexivity|]. now rewrite H. Qed.
Lemma retired_app tr l i : retired tr i -> retired (tr ++ l) i.
Proof.
  intros [H0 H]. split; [exact H0|]. rewrite nth_error_app1; [exact H|]. apply nth_error_Some. congruence.
Qed.
Lemma to_wires_each tr args ws : to_wires tr args = Some ws -> forall a, In a args -> to_wire tr a <> None.
Proof.
  revert ws; induction args as [|a r IH]; intros ws H b Hin; [destruct Hin|].
  cbn in H. destruct (to_wire tr a) eqn:Ea; [|discriminate].
  destruct (to_wires tr r) eqn:Er; [|discriminate].
  destruct Hin as [<-|Hin]; [congruence|eapply IH; eauto].
Qed.
Lemma retired_rebind tr args ws n j i :
  retired tr i -> to_wires tr args = Some ws -> retired (rebind tr n j args) i.
Proof.
  intros Hret Hw. destruct Hret as [H0 Hn]. split; [exact H0|].
  rewrite rebind_other; [exact Hn| |eapply to_wires_in_range; eauto].
  replace (Z.of_nat (Z.to_nat i)) with i by lia. intros Hin.
  apply (to_wires_each _ _ _ Hw _ Hin). cbn. apply retired_not_tracked. now split.
Qed.
Lemma t_add_retired h tr op m args h' tr' r i :
  t_add h tr op m args = (h', tr', r) -> retired tr i -> retired tr' i.
Proof.
  unfold t_add. destruct (to_wires tr args) as [ws|] eqn:Ew; [|intros H; inversion H; subst; auto].
  destruct (add_op h op m ws) as [h1 [e|]]; intros H; inversion H; subst; auto.
  intros Hret. eapply retired_rebind; eauto.
Qed.
Lemma t_extend_retired coms : forall h tr h' tr' r i,
  t_extend h tr coms = (h', tr', r) -> retired tr i -> retired tr' i.
Proof.
  induction coms as [|[op args] rest IH]; intros h tr h' tr' r i H Hret; cbn in H; [inversion H; subst; auto|].
  destruct (t_add h tr op [] args) as [[h1 tr1] [e|]] eqn:Ea.
  - inversion H; subst. eapply t_add_retired; eauto.
  - eapply IH; [exact H|]. eapply t_add_retired; eauto.
Qed.
Lemma step_retired h tr c h' tr' r i : step h tr c = (h', tr', r) -> retired tr i -> retired tr' i.
Proof.
  destruct c as [w|ws| |k|op m args|coms|args| ]; cbn; intros H Hret.
  - inversion H; subst. now apply retired_app.
  - inversion H; subst. now apply retired_app.
  - inversion H; subst. now apply retired_app.
  - destruct (tracked_wire tr k) as [w|] eqn:Ek; inversion H; subst; [|exact Hret].
    destruct Hret as [H0 Hn]. split; [exact H0|]. apply tracked_wire_range in Ek as [Hk0 Hlen].
    destruct (Nat.eq_dec (Z.to_nat i) (Z.to_nat k)) as [E|E].
    + rewrite E. now apply nth_set_nth_same.
    + now rewrite nth_set_nth_other.
  - eapply t_add_retired; eauto.
  - eapply t_extend_retired; eauto.
  - destruct (to_wires tr args); [destruct (set_outputs h l)|]; inversion H; subst; exact Hret.
  - destruct (set_outputs h (live tr)); inversion H; subst; exact Hret.
Qed.
Lemma run_retired p : forall h tr h' tr' r i, run h tr p = (h', tr', r) -> retired tr i -> retired tr' i.
Proof.
  induction p as [|c rest IH]; intros h tr h' tr' r i H Hret; cbn in H; [inversion H; subst; auto|].
  destruct (step h tr c) as [[h1 tr1] [e|]] eqn:Es.
  - inversion H; subst. eapply step_retired; eauto.
  - eapply IH; [exact H|]. eapply step_retired; eauto.
Qed.

Theorem untrack_is_permanent h tr i h1 tr1 :
  step h tr (Untrack i) = (h1, tr1, None) ->
  forall p h2 tr2 r, run h1 tr1 p = (h2, tr2, r) -> tracked_wire tr2 i = None.
Proof.
  cbn. destruct (tracked_wire tr i) as [w|] eqn:Ei; [|discriminate]. intros H; inversion H; subst h1 tr1; clear H.
  intros p h2 tr2 r Hrun. apply retired_not_tracked. eapply run_retired; [exact Hrun|].
  apply tracked_wire_range in Ei as [H0 Hlen]. split; [exact H0|]. now apply nth_set_nth_same.
Qed.
(* ... and a fresh track_wire never reuses it: indices only grow *)
Theorem track_wire_fresh_index h tr w : step h tr (TrackWire w) = (h, tr ++ [Some w], None) /\
  tracked_wire (tr ++ [Some w]) (Z.of_nat (length tr)) = Some w /\
  forall i, (i < Z.of_nat (length tr))%Z -> tracked_wire (tr ++ [Some w]) i = tracked_wire tr i.
Proof.
  split; [reflexivity|]. split.
  - unfold tracked_wire. destruct (Z.ltb_spec (Z.of_nat (length tr)) 0); [lia|].
    now rewrite Nat2Z.id, nth_error_app2, Nat.sub_diag by lia.
  - intros i Hi. unfold tracked_wire. destruct (Z.ltb_spec i 0); [reflexivity|].
    rewrite nth_error_app1 by lia. reflexivity.
Qed.

(* outputs set from the tracked indices: the live wires in increasing index order, wire k to port k *)
Fixpoint number_from (dst i : N) (ws : list wire) : list link :=
  match ws with [] => [] | w :: r => (w, (dst, i)) :: number_from dst (i + 1)%N r end.
Lemma wire_up_links ws : forall h dst i h', wire_up h dst i ws = (h', None) ->
  h_links h' = h_links h ++ number_from dst i ws.
Proof.
  induction ws as [|w r IH]; intros h dst i h' H; cbn in H.
  - inversion H; subst. now rewrite app_nil_r.
  - unfold wire_up_port in H. destruct (negb (src_exists h (fst w))); [discriminate|].
    destruct (nout h (fst w)) as [k|]; [|discriminate].
    destruct (snd w <? k)%N; [|discriminate].
    apply IH in H. cbn in H. rewrite H, <- app_assoc. reflexivity.
Qed.
Lemma flat_map_ext_in' {A B} (f g : A -> list B) l : (forall a, In a l -> f a = g a) -> flat_map f l = flat_map g l.
Proof. induction l as [|x r IH]; intros H; cbn; [reflexivity|]. rewrite H by now left. f_equal. apply IH. intros a Ha. apply H. now right. Qed.
Definition live_by_index (tr : tracked) : list wire :=
  flat_map (fun k => match tracked_wire tr (Z.of_nat k) with Some w => [w] | None => [] end) (seq 0 (length tr)).
Lemma live_by_index_eq tr : live tr = live_by_index tr.
Proof.
  unfold live, live_by_index. induction tr as [|o r IH] using rev_ind; [reflexivity|].
  rewrite app_length; cbn. rewrite Nat.add_1_r, seq_S, !flat_map_app. cbn. rewrite app_nil_r. f_equal.
  - rewrite IH. apply flat_map_ext_in'. intros k Hk. apply in_seq in Hk. unfold tracked_wire.
    destruct (Z.ltb_spec (Z.of_nat k) 0); [lia|]. rewrite Nat2Z.id. rewrite nth_error_app1 by lia. reflexivity.
  - unfold tracked_wire. destruct (Z.ltb_spec (Z.of_nat (length r)) 0); [lia|].
    rewrite Nat2Z.id, nth_error_app2, Nat.sub_diag by lia. cbn. destruct o; reflexivity.
Qed.
Theorem tracked_outputs_in_index_order h tr h' tr' :
  step h tr SetTrackedOutputs = (h', tr', None) ->
  tr' = tr /\ h_nodes h' = h_nodes h /\
  h_links h' = h_links h ++ number_from NOUT 0%N (live_by_index tr).
Proof.
  cbn. destruct (set_outputs h (live tr)) as [h1 [e|]] eqn:Es; intros H; inversion H; subst h1 tr'; clear H.
  split; [reflexivity|]. split; [apply (set_outputs_nodes _ _ _ _ Es)|].
  unfold set_outputs in Es. destruct (wire_up h NOUT 0 (live tr)) as [h2 [e2|]] eqn:Ew; inversion Es; subst.
  cbn. rewrite <- live_by_index_eq. eapply wire_up_links; eauto.
Qed.
(* the same for explicitly indexed outputs: argument k goes to port k *)
Theorem indexed_outputs_in_argument_order h tr args h' tr' :
  step h tr (SetIndexedOutputs args) = (h', tr', None) ->
  exists ws, to_wires tr args = Some ws /\ tr' = tr /\ h_links h' = h_links h ++ number_from NOUT 0%N ws.
Proof.
  cbn. destruct (to_wires tr args) as [ws|]; [|discriminate].
  destruct (set_outputs h ws) as [h1 [e|]] eqn:Es; intros H; inversion H; subst.
  exists ws. split; [reflexivity|]. split; [reflexivity|].
  unfold set_outputs in Es. destruct (wire_up h NOUT 0 ws) as [h2 [e2|]] eqn:Ew; inversion Es; subst.
  cbn. eapply wire_up_links; eauto.
Qed.
(* and add connects argument k to input port k of the new node, recording the metadata given *)
Theorem add_records_node_and_links h op m ws h' :
  add_op h op m ws = (h', None) ->
  h_nodes h' = h_nodes h ++ [(op, m)] /\ h_links h' = h_links h ++ number_from (new_name h) 0%N ws.
Proof.
  intros H. split; [apply (add_op_nodes _ _ _ _ _ _ H)|]. unfold add_op in H. apply wire_up_links in H. exact H.
Qed.

(* ---- the same command once more (seeded round 2) ----
   A command is a value: adding `op(args)` a second time resolves its integers again, in the state the
   first add left.  The integer at position pos (last occurrence) is then output pos of the FIRST new node,
   not the wire it denoted the first time, and it is rebound to output pos of the second. *)
Lemma to_wires_nth tr args : forall ws pos a, to_wires tr args = Some ws -> nth_error args pos = Some a ->
  nth_error ws pos = to_wire tr a.
Proof.
  induction args as [|b r IH]; intros ws pos a Hw Hp.
  - destruct pos; discriminate.
  - cbn [to_wires] in Hw. destruct (to_wire tr b) as [w|] eqn:Eb; [|discriminate].
    destruct (to_wires tr r) as [ws'|] eqn:Er; [|discriminate]. inversion Hw; subst ws; clear Hw.
    destruct pos as [|pos]; cbn in Hp |- *.
    + inversion Hp; subst b. symmetry; exact Eb.
    + exact (IH ws' pos a eq_refl Hp).
Qed.

Theorem repeated_command_chains h tr op m m' args h1 tr1 h2 tr2 :
  t_add h tr op m args = (h1, tr1, None) ->
  t_add h1 tr1 op m' args = (h2, tr2, None) ->
  exists ws2,
    h_nodes h2 = h_nodes h ++ [(op, m); (op, m')] /\
    h_links h2 = h_links h1 ++ number_from (new_name h1) 0%N ws2 /\
    length ws2 = length args /\
    (forall pos w, nth_error args pos = Some (AW w) -> nth_error ws2 pos = Some w) /\
    (forall pos i, nth_error args pos = Some (AI i) ->
       (forall pos', pos < pos' -> nth_error args pos' <> Some (AI i)) ->
       nth_error ws2 pos = Some (new_name h, N.of_nat pos) /\
       tracked_wire tr2 i = Some (new_name h1, N.of_nat pos)).
Proof.
  intros H1 H2.
  destruct (add_connects_then_rebinds _ _ _ _ _ _ _ H1) as (ws1 & Hw1 & Ha1 & _).
  destruct (add_connects_then_rebinds _ _ _ _ _ _ _ H2) as (ws2 & Hw2 & Ha2 & _).
  destruct (add_records_node_and_links _ _ _ _ _ Ha1) as [Hn1 _].
  destruct (add_records_node_and_links _ _ _ _ _ Ha2) as [Hn2 Hl2].
  destruct (rebinding_by_position _ _ _ _ _ _ _ H1) as [Hr1 _].
  destruct (rebinding_by_position _ _ _ _ _ _ _ H2) as [Hr2 _].
  exists ws2. split; [|split; [exact Hl2|split; [|split]]].
  - rewrite Hn2, Hn1, <- app_assoc. reflexivity.
  - clear -Hw2. revert ws2 Hw2. induction args as [|a r IH]; intros ws2 Hw2; cbn in Hw2.
    + inversion Hw2; reflexivity.
    + destruct (to_wire tr1 a); [|discriminate]. destruct (to_wires tr1 r) as [ws'|]; [|discriminate].
      inversion Hw2; subst ws2. cbn. f_equal. apply IH; reflexivity.
  - intros pos w Hp. exact (to_wires_nth _ _ _ _ _ Hw2 Hp).
  - intros pos i Hp Hl. split.
    + rewrite (to_wires_nth _ _ _ _ _ Hw2 Hp). cbn [to_wire]. exact (Hr1 pos i Hp Hl).
    + exact (Hr2 pos i Hp Hl).
Qed.

(* non-vacuity: `c = op(0); add(c); add(c)` chains the two nodes *)
Example repeated_command_example :
  let c := Add (mkOp 3 1) [] [AI 0] in
  run_tracked 1 true [c; c; SetTrackedOutputs] =
    (mkH 1 [(mkOp 3 1, []); (mkOp 3 1, [])] [((0, 0), (2, 0)); ((2, 0), (3, 0)); ((3, 0), (1, 0))]%N true,
     [Some (3, 0)]%N, None).
Proof. vm_compute. reflexivity. Qed.

(* ---- non-vacuity: a width-2 circuit with a hole, a wire argument, metadata and a 1-output op ---- *)
Example tracked_example :
  let op21 := mkOp 7 1 in let op12 := mkOp 8 2 in let op22 := mkOp 9 2 in
  let p := [TrackInputs; Add op21 [(1, 5)]%N [AI 1; AI 0]; Untrack 0; TrackWire (NIN, 0%N);
            Add op12 [] [AW (2, 0)%N]; Extend [(op22, [AI 2; AI 1])]; SetTrackedOutputs] in
  run_tracked 2 false p =
    (mkH 2 [(op21, [(1, 5)]%N); (op12, []); (op22, [])]
         [((0, 1), (2, 0)); ((0, 0), (2, 1)); ((2, 0), (3, 0)); ((0, 0), (4, 0)); ((2, 0), (4, 1));
          ((4, 1), (1, 0)); ((4, 0), (1, 1))]%N true,
     [None; Some (4, 1); Some (4, 0)]%N, None) /\
  exists q fin, explicit 2 false p = (q, true, fin) /\ length q = 4.
Proof. split; [vm_compute; reflexivity|]. eexists; eexists. split; [vm_compute; reflexivity|reflexivity]. Qed.
