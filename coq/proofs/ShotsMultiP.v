(* Proofs for C19, multi-shot part: QsysResult.register_bitstrings with strict_names / strict_lengths. *)
From Coq Require Import ZArith List Bool Arith Lia.
Import ListNotations.
From HV Require Import lib.PyDict lib.Harness model.Shots spec.ShotsS proofs.ShotsP.

Definition opt {A} (l : list A) : option (list A) := match l with [] => None | _ => Some l end.
Definition one (o : option (list bool)) : list (list bool) := match o with Some s => [s] | None => [] end.

Lemma per_register_app a b r : per_register (a ++ b) r = per_register a r ++ per_register b r.
Proof. unfold per_register. apply flat_map_app. Qed.
Lemma per_register_one rb r : per_register [rb] r = one (dget tag_eqb rb r).
Proof. unfold per_register; cbn. rewrite app_nil_r. destruct (dget tag_eqb rb r); reflexivity. Qed.

Lemma dget_snoc {V} (d : list (tag * V)) k v r : ~ In k (keys d) ->
  dget tag_eqb (d ++ [(k, v)]) r = if tag_eqb r k then Some v else dget tag_eqb d r.
Proof.
  induction d as [|[k' v'] d IH]; cbn; intros Hn.
  - destruct (tag_eqb r k); reflexivity.
  - destruct (tag_eqb_spec r k') as [->|Hne].
    + destruct (tag_eqb_spec k' k) as [->|_]; [exfalso; apply Hn; now left|reflexivity].
    + apply IH. intros H. apply Hn. now right.
Qed.

(* ---- the inner loop of add_shot: one shot's registers appended to the per-register lists ---- *)
Definition step_reg (sl : bool) (sd' : shot_dict) (rb : tag * list bool) : res shot_dict :=
  let '(reg, s) := rb in
  match dget tag_eqb sd' reg with
  | Some ((s0 :: _) as l) =>
      if sl && negb (Nat.eqb (length s0) (length s)) then ValueError
      else Ok (dset tag_eqb sd' reg (l ++ [s]))
  | Some [] => Ok (dset tag_eqb sd' reg [s])
  | None => Ok (dset tag_eqb sd' reg [s])
  end.
Definition bad_reg (pre : list regs) (rs : tag * list bool) : bool :=
  match per_register pre (fst rs) with
  | s0 :: _ => negb (Nat.eqb (length s0) (length (snd rs)))
  | [] => false
  end.
Definition Good (sd : shot_dict) (pre : list regs) (done : regs) : Prop :=
  NoDup (keys sd) /\ forall r, dget tag_eqb sd r = opt (per_register pre r ++ one (dget tag_eqb done r)).

Lemma opt_app_one {A} (l : list A) x : opt (l ++ [x]) = Some (l ++ [x]).
Proof. destruct l; reflexivity. Qed.

Lemma inner_spec sl pre : forall todo done sd,
  NoDup (keys (done ++ todo)) -> Good sd pre done ->
  if sl && existsb (bad_reg pre) todo
  then foldM (step_reg sl) todo sd = ValueError
  else exists sd', foldM (step_reg sl) todo sd = Ok sd' /\ Good sd' pre (done ++ todo).
Proof.
  induction todo as [|[reg s] todo IH]; intros done sd Hnd [Hk Hg].
  - cbn. rewrite andb_false_r, app_nil_r. eexists; split; [reflexivity|split; assumption].
  - assert (Hreg : ~ In reg (keys done)).
    { unfold keys in *. rewrite map_app in Hnd. apply NoDup_remove_2 in Hnd. cbn in Hnd.
      intros H. apply Hnd. apply in_or_app. now left. }
    assert (Hd : dget tag_eqb done reg = None) by now apply (dget_notin tag_eqb tag_eqb_spec).
    assert (Hcur : dget tag_eqb sd reg = opt (per_register pre reg)).
    { rewrite Hg, Hd. cbn. now rewrite app_nil_r. }
    assert (Hnd' : NoDup (keys ((done ++ [(reg, s)]) ++ todo))) by now rewrite <- app_assoc.
    assert (Hs : step_reg sl sd (reg, s) =
                 match per_register pre reg with
                 | s0 :: l => if sl && negb (Nat.eqb (length s0) (length s)) then ValueError
                              else Ok (dset tag_eqb sd reg ((s0 :: l) ++ [s]))
                 | [] => Ok (dset tag_eqb sd reg [s])
                 end).
    { unfold step_reg. rewrite Hcur. destruct (per_register pre reg); reflexivity. }
    cbn [foldM existsb]. rewrite Hs. unfold bad_reg at 1. cbn [fst snd].
    assert (Hstep : forall v, v = per_register pre reg ++ [s] ->
              Good (dset tag_eqb sd reg v) pre (done ++ [(reg, s)])).
    { intros v ->. split; [now apply (nodup_dset tag_eqb tag_eqb_spec)|]. intros r.
      rewrite dget_dset_eq, dget_snoc by assumption.
      destruct (tag_eqb_spec r reg) as [->|Hne]; [cbn [one]; now rewrite opt_app_one|apply Hg]. }
    destruct (per_register pre reg) as [|s0 l] eqn:Hp; cbn [opt].
    + cbn [bind]. specialize (IH (done ++ [(reg, s)]) _ Hnd' (Hstep _ eq_refl)).
      rewrite <- app_assoc in IH. cbn [app] in IH. cbn [orb]. exact IH.
    + destruct (sl && negb (Nat.eqb (length s0) (length s))) eqn:Eb.
      * apply andb_prop in Eb. destruct Eb as [-> Eb]. cbn [andb]. rewrite Eb. reflexivity.
      * cbn [bind]. specialize (IH (done ++ [(reg, s)]) _ Hnd' (Hstep _ eq_refl)).
        rewrite <- app_assoc in IH. cbn [app] in IH.
        destruct sl; cbn [andb] in *; [|exact IH]. rewrite Eb. cbn [orb]. exact IH.
Qed.

(* ---- the outer loop ---- *)
Definition first_or (pre : list regs) (b : regs) : list tag :=
  match pre with [] => map fst b | b0 :: _ => map fst b0 end.
Definition first_of (pre : list regs) : option (list tag) :=
  match pre with [] => None | b0 :: _ => Some (map fst b0) end.
(* does the fold reject, looking at the shots one after the other *)
Fixpoint rejects (sn sl : bool) (pre rest : list regs) : bool :=
  match rest with
  | [] => false
  | b :: r => (sl && existsb (bad_reg pre) b) || (sn && negb (keys_eqb (map fst b) (first_or pre b))) ||
              rejects sn sl (pre ++ [b]) r
  end.

Lemma add_shot_unfold sn sl sd first es :
  add_shot sn sl (sd, first) es =
  bind (to_register_bits es) (fun bits =>
    let first' := match first with Some f => f | None => map fst bits end in
    bind (foldM (step_reg sl) bits sd) (fun sd' =>
      if sn && negb (keys_eqb (map fst bits) first') then ValueError else Ok (sd', Some first'))).
Proof. reflexivity. Qed.

Lemma to_register_bits_nodup es rb : to_register_bits es = Ok rb -> NoDup (keys rb).
Proof.
  intros H. destruct (mapM entry_write es) as [ws|] eqn:Hm.
  - destruct (bits_pointwise es ws Hm) as (rb' & Hr & Hnd & _). congruence.
  - apply nonbit_rejected in Hm. congruence.
Qed.

Lemma outer_spec sn sl : forall shots rest pre sd,
  mapM to_register_bits shots = Ok rest -> Good sd pre [] ->
  if rejects sn sl pre rest
  then foldM (add_shot sn sl) shots (sd, first_of pre) = ValueError
  else exists sd', foldM (add_shot sn sl) shots (sd, first_of pre) = Ok (sd', first_of (pre ++ rest)) /\
                   Good sd' (pre ++ rest) [].
Proof.
  induction shots as [|es shots IH]; intros rest pre sd Hm Hg.
  - cbn in Hm. injection Hm as <-. cbn. rewrite app_nil_r. eexists; split; [reflexivity|assumption].
  - cbn [mapM] in Hm. destruct (to_register_bits es) as [b|] eqn:Hb; [|discriminate]. cbn [bind] in Hm.
    destruct (mapM to_register_bits shots) as [bs|] eqn:Hbs; [|discriminate]. cbn [bind] in Hm.
    injection Hm as <-. cbn [foldM rejects]. rewrite add_shot_unfold, Hb. cbn [bind].
    pose proof (to_register_bits_nodup _ _ Hb) as Hnd.
    pose proof (inner_spec sl pre b [] sd Hnd Hg) as Hin. cbn [app] in Hin.
    destruct (sl && existsb (bad_reg pre) b) eqn:Ebad.
    + rewrite Hin. reflexivity.
    + destruct Hin as (sd1 & Hf & Hk1 & Hg1). rewrite Hf. cbn [bind orb].
      assert (Hfirst : match first_of pre with Some f => f | None => map fst b end = first_or pre b)
        by (destruct pre; reflexivity).
      rewrite Hfirst.
      destruct (sn && negb (keys_eqb (map fst b) (first_or pre b))) eqn:En; [reflexivity|].
      cbn [bind orb].
      assert (Hg' : Good sd1 (pre ++ [b]) []).
      { split; [assumption|]. intros r. rewrite Hg1, per_register_app, per_register_one. cbn [dget one].
        now rewrite app_nil_r. }
      assert (Hfo : Some (first_or pre b) = first_of (pre ++ [b])) by (destruct pre; reflexivity).
      rewrite Hfo. specialize (IH bs (pre ++ [b]) sd1 eq_refl Hg').
      rewrite <- app_assoc in IH. exact IH.
Qed.

Lemma outer_rejects_bits sn sl : forall shots st,
  mapM to_register_bits shots = ValueError -> foldM (add_shot sn sl) shots st = ValueError.
Proof.
  induction shots as [|es shots IH]; intros [sd first] Hm; [discriminate|].
  cbn [mapM] in Hm. cbn [foldM]. rewrite add_shot_unfold.
  destruct (to_register_bits es) as [b|] eqn:Hb; [|reflexivity]. cbn [bind] in *.
  destruct (foldM (step_reg sl) b sd) as [sd1|]; [|reflexivity]. cbn [bind].
  destruct (sn && negb (keys_eqb (map fst b) _)); [reflexivity|]. cbn [bind]. apply IH.
  destruct (mapM to_register_bits shots); [discriminate|reflexivity].
Qed.

(* ---- the sequential rejection test equals the documented, order-free conditions ---- *)
Lemma existsb_ext_in {A} (f g : A -> bool) l : (forall x, In x l -> f x = g x) -> existsb f l = existsb g l.
Proof.
  induction l as [|a l IH]; cbn; intros H; [reflexivity|].
  rewrite (H a) by (now left). rewrite IH; [reflexivity|]. intros x Hx. apply H. now right.
Qed.

Lemma rejects_names sn sl : forall rest pre,
  rejects sn sl pre rest = rejects false sl pre rest ||
    (sn && existsb (fun b => negb (keys_eqb (map fst b) (first_or pre (hd [] rest)))) rest).
Proof.
  induction rest as [|b r IH]; intros pre; cbn [rejects existsb hd]; [now rewrite andb_false_r|].
  rewrite (IH (pre ++ [b])). cbn [andb orb].
  assert (E : forall x, first_or (pre ++ [b]) x = first_or pre b) by (intros; destruct pre; reflexivity).
  rewrite E.
  destruct sn; cbn [andb]; [|now rewrite !orb_false_r].
  generalize (existsb (fun b0 : regs => negb (keys_eqb (map fst b0) (first_or pre b))) r).
  intros e. destruct (sl && existsb (bad_reg pre) b), (negb (keys_eqb (map fst b) (first_or pre b))),
    (rejects false sl (pre ++ [b]) r), e; reflexivity.
Qed.

Definition bad_reg_all (all : list regs) (rs : tag * list bool) : bool :=
  match per_register all (fst rs) with s0 :: _ => negb (Nat.eqb (length s0) (length (snd rs))) | [] => false end.

Lemma bad_reg_prefix pre b rest rs : NoDup (keys b) -> In rs b ->
  bad_reg pre rs = bad_reg_all (pre ++ b :: rest) rs.
Proof.
  intros Hnd Hin. unfold bad_reg, bad_reg_all. destruct rs as [r s]; cbn [fst snd].
  rewrite per_register_app. destruct (per_register pre r) as [|s0 l]; [|reflexivity]. cbn [app].
  change (b :: rest) with ([b] ++ rest). rewrite per_register_app, per_register_one.
  assert (dget tag_eqb b r = Some s) as -> by now apply (dget_In_iff tag_eqb tag_eqb_spec).
  cbn. now rewrite Nat.eqb_refl.
Qed.

Lemma rejects_lengths sl : forall rest pre, Forall (fun b => NoDup (keys b)) rest ->
  rejects false sl pre rest = sl && existsb (fun b => existsb (bad_reg_all (pre ++ rest)) b) rest.
Proof.
  induction rest as [|b r IH]; intros pre Hf; cbn [rejects existsb]; [now rewrite andb_false_r|].
  pose proof (Forall_inv Hf) as Hb. pose proof (Forall_inv_tail Hf) as Hr. cbn beta in Hb.
  cbn [andb orb]. rewrite orb_false_r.
  rewrite (IH (pre ++ (@cons regs b (@nil regs))) Hr), <- app_assoc. cbn [app].
  rewrite (existsb_ext_in (bad_reg pre) (bad_reg_all (pre ++ b :: r)) b).
  2: { intros x Hx. now apply bad_reg_prefix. }
  destruct sl; reflexivity.
Qed.

Lemma names_differ_eq bits :
  names_differ bits = existsb (fun b => negb (keys_eqb (map fst b) (first_or [] (hd [] bits)))) bits.
Proof.
  destruct bits as [|b0 r]; [reflexivity|]. cbn [names_differ existsb hd first_or].
  assert (keys_eqb (map fst b0) (map fst b0) = true) as ->; [|reflexivity].
  unfold keys_eqb, seteq_b. assert (H : incl_b tag_eqb (map fst b0) (map fst b0) = true); [|now rewrite H].
  unfold incl_b. apply forallb_forall. intros x Hx. destruct (mem_spec tag_eqb tag_eqb_spec x (map fst b0)); tauto.
Qed.
Lemma lengths_differ_eq bits :
  lengths_differ bits = existsb (fun b => existsb (bad_reg_all bits) b) bits.
Proof.
  unfold lengths_differ. apply existsb_ext_in. intros b _. apply existsb_ext_in. intros [r s] _. reflexivity.
Qed.

Theorem multi_shot_spec sn sl shots bits : mapM to_register_bits shots = Ok bits ->
  if (sn && names_differ bits) || (sl && lengths_differ bits)
  then register_bitstrings sn sl shots = ValueError
  else exists sd, register_bitstrings sn sl shots = Ok sd /\ NoDup (keys sd) /\
                  forall r, dget tag_eqb sd r = opt (per_register bits r).
Proof.
  intros Hm. unfold register_bitstrings.
  assert (Hall : Forall (fun b => NoDup (keys b)) bits).
  { clear sn sl. revert bits Hm. induction shots as [|es shots IH]; intros bits Hm; cbn in Hm.
    - injection Hm as <-. constructor.
    - destruct (to_register_bits es) eqn:Hb; [|discriminate]. cbn in Hm.
      destruct (mapM to_register_bits shots); [|discriminate]. cbn in Hm. injection Hm as <-.
      constructor; [eapply to_register_bits_nodup; eassumption|now apply IH]. }
  pose proof (outer_spec sn sl shots bits [] [] Hm) as H. cbn [app first_of] in H.
  assert (Hg0 : Good [] [] []) by (split; [constructor|reflexivity]). specialize (H Hg0).
  rewrite rejects_names, (rejects_lengths sl bits [] Hall) in H. cbn [app] in H.
  rewrite <- names_differ_eq, <- lengths_differ_eq in H.
  rewrite orb_comm in H.
  destruct ((sn && names_differ bits) || (sl && lengths_differ bits)).
  - match goal with |- bind ?X _ = _ => assert (EX : X = ValueError) by exact H; rewrite EX end. reflexivity.
  - destruct H as (sd & Hf & Hk & Hg).
    match goal with |- exists _, bind ?X _ = _ /\ _ => assert (EX : X = Ok (sd, first_of bits)) by exact Hf; rewrite EX end.
    cbn [bind fst]. exists sd. split; [reflexivity|].
    split; [assumption|]. intros r. rewrite Hg. cbn [dget one]. now rewrite app_nil_r.
Qed.

Theorem multi_shot_rejects_nonbits sn sl shots :
  mapM to_register_bits shots = ValueError -> register_bitstrings sn sl shots = ValueError.
Proof. intros H. unfold register_bitstrings. now rewrite outer_rejects_bits. Qed.
