(* C01 (second pass) — rules of `valid` that hold for EVERY program of the modelled builder language whose
   builder calls do not raise, with no well-formedness premise:
     rule 3  r_io_rows          Input/Output rows equal the container's inner signature
     rule 6  r_root_no_edges    the root has no edges
     rule 13 r_no_edge_into_func   no value edge enters a function body (there are no FuncDefn nodes)
     rule 16 r_cfg_edges        control-flow edges carry the successor's row (there are no control-flow edges)
   from the invariants of proofs/BuilderFrameP.v. *)
From Coq Require Import NArith List Bool Arith Lia.
Import ListNotations.
From HV Require Import lib.Harness model.Validity model.Builder spec.BuilderS proofs.BuilderP proofs.BuilderExtP
  proofs.BuilderFrameP.
Local Open Scope N_scope.

(* ------------------------------------------------------------------ the start of a program *)
Definition st0 (ins : row) : store :=
  {| s_nodes := [mk (DFG ins []) 0; mk (Input ins) 0; mk (Output []) 0]; s_links := [] |}.
Definition b0 : dfb := {| b_parent := 0; b_in := 1; b_out := 2 |}.
Definition e0 : env := {| e_wires := []; e_stmts := [] |}.

Lemma exec_prog_inv tys ins body st : exec_prog tys (PDfg ins body) = Ok st ->
  exists e', exec_region tys body b0 (st0 ins) e0 = Ok (st, e').
Proof.
  unfold exec_prog. cbn [init_io new_store add_node s_len s_nodes lenN length N.of_nat].
  intros H. cbn in H. bd H. destruct v as [st1 e1]. cbn [fst snd] in H. inversion H; subst. eauto.
Qed.

Lemma init_Abase ins : Abase (st0 ins).
Proof.
  split; [reflexivity|]. split; [|reflexivity].
  intros p nd i o E Eo. unfold nthN in E. cbn [st0 s_nodes] in *.
  destruct (N.to_nat p) as [|[|[|k]]] eqn:Ep; cbn in E; try (destruct k; discriminate);
    inversion E; subst; try discriminate.
  cbn in Eo. inversion Eo; subst. assert (p = 0) by lia. subst p. split; reflexivity.
Qed.
Lemma init_OpenB ins : OpenB (s_nodes (st0 ins)) b0.
Proof. split; [reflexivity|]. split; [reflexivity|]. exists ins, 0. split; reflexivity. Qed.
Lemma init_EnvRange ins : EnvRange (st0 ins) e0.
Proof. split; intros ? ? []. Qed.
Lemma init_Inv ins : Inv (st0 ins).
Proof.
  split; [repeat split|reflexivity]. eexists _, _. split; [reflexivity|split; reflexivity].
Qed.

(* ------------------------------------------------------------------ rule 3 from io_ok *)
Lemma nthN_split {A} (l : list A) k x : nthN l k = Some x -> exists l1 l2, l = l1 ++ x :: l2 /\ lenN l1 = k.
Proof.
  unfold nthN, lenN. intros H. apply nth_error_split in H. destruct H as (l1 & l2 & -> & E).
  exists l1, l2. split; [reflexivity|lia].
Qed.

Lemma child_ops_first_two l p a b :
  bounded l = true -> nthN l (p + 1) = Some (mk a p) -> nthN l (p + 2) = Some (mk b p) ->
  exists rest, child_ops (Gn l) p = a :: b :: rest.
Proof.
  intros Hb Ha Hc. destruct (nthN_split _ _ _ Ha) as (l1 & l2 & El & Ln). subst l.
  assert (E2 : nthN (l1 ++ mk a p :: l2) (p + 2) = nthN l2 0).
  { rewrite nthN_app_ge by lia. rewrite Ln. replace (p + 2 - (p + 1)) with (0 + 1) by lia. apply nthN_S. }
  rewrite E2 in Hc. destruct l2 as [|y l2]; [discriminate|]. cbn in Hc. inversion Hc; subst y.
  unfold child_ops. cbn [Gn g_nodes]. rewrite indexed_app, flat_map_app.
  assert (E1 : flat_map (fun x => if negb (fst x =? 0) && (n_parent (snd x) =? p) then [n_op (snd x)] else []) (indexed l1) = []).
  { apply flat_map_nil. intros [i x] Hin. cbn [fst snd].
    assert (Hin' : In (i, x) (indexed (l1 ++ mk a p :: mk b p :: l2))) by (rewrite indexed_app; apply in_or_app; now left).
    pose proof (bounded_in _ _ _ Hb Hin') as Hp. pose proof (nthN_lt _ _ _ (in_indexed _ _ _ Hin)) as Hi.
    destruct (N.eqb_spec i 0); [reflexivity|]. cbn [negb andb].
    destruct (N.eqb_spec (n_parent x) p); [lia|reflexivity]. }
  rewrite E1. cbn [app index_from flat_map fst snd mk n_parent n_op]. rewrite Ln.
  replace (p + 1 =? 0) with false by (symmetry; apply N.eqb_neq; lia).
  replace (p + 1 + 1 =? 0) with false by (symmetry; apply N.eqb_neq; lia).
  rewrite N.eqb_refl. cbn [negb andb app]. eauto.
Qed.

Lemma row_eqb_refl r : row_eqb r r = true.
Proof. unfold row_eqb. induction r as [|x r IH]; cbn; [reflexivity|]. now rewrite N.eqb_refl, IH. Qed.

Lemma io_rows_of l : bounded l = true -> ModelOps l -> io_ok l -> r_io_rows (Gn l) = true.
Proof.
  intros Hb M IO. unfold r_io_rows. apply forallb_forall. intros [p nd] Hin. cbn [fst snd Gn g_nodes].
  pose proof (in_indexed _ _ _ Hin) as E. pose proof (forallb_nthN _ _ _ _ M E) as Hm. cbn beta in Hm.
  destruct (n_op nd) eqn:Eo; try discriminate Hm; try reflexivity.
  destruct (IO _ _ _ _ E Eo) as [A B]. destruct (child_ops_first_two _ _ _ _ Hb A B) as [rest ->].
  cbn [inner_sig]. now rewrite !row_eqb_refl.
Qed.
Lemma io_rows_to_serial st : r_io_rows (to_serial st) = r_io_rows (Gn (s_nodes st)).
Proof. reflexivity. Qed.

(* ------------------------------------------------------------------ rule 6 *)
Lemma root_no_edges_to_serial st : LinksPos st -> r_root_no_edges (to_serial st) = true.
Proof. unfold r_root_no_edges, to_serial, LinksPos. cbn [g_edges]. now rewrite forallb_map. Qed.

(* ------------------------------------------------------------------ rule 13: no FuncDefn, so no edge into one *)
Definition NoFunc (g : graph) : Prop := forall n o, op_of g n = Some o -> is_funcdefn o = false.

Lemma walk_no_func g es static src fp fpp : NoFunc g -> forall fuel anc,
  walk fuel g es static src fp fpp anc false <> EIntoFunc.
Proof.
  intros NF fuel. induction fuel as [|f IH]; intros anc; cbn [walk]; [discriminate|].
  destruct (parent_of g anc) as [ap|]; [|discriminate].
  assert (E : (false || (negb static && match op_of g anc with Some o => is_funcdefn o | None => false end)) = false).
  { cbn [orb]. destruct (op_of g anc) as [o|] eqn:Eo; [|now rewrite andb_false_r]. rewrite (NF _ _ Eo). now rewrite andb_false_r. }
  rewrite E. destruct (ap =? fp).
  - destruct (negb static && negb (has_order_edge es src anc)); discriminate.
  - destruct (optN_eqb (Some ap) fpp && negb static).
    + destruct (negb match op_of g ap with Some o => is_cfg o | None => false end); [discriminate|].
      destruct (dominates g es ap fp anc); discriminate.
    + apply IH.
Qed.
Lemma classify_no_func tys g es r : NoFunc g -> classify tys g es r <> EIntoFunc.
Proof.
  intros NF. unfold classify. destruct (parent_of g (r_src r)) as [fp|]; [|discriminate].
  destruct (parent_of g (r_dst r)) as [tp|]; [|discriminate].
  destruct (fp =? tp); [discriminate|].
  destruct (negb (is_static (r_kind r)) && negb match r_kind r with KValue t => ty_copy tys t | _ => false end); [discriminate|].
  now apply walk_no_func.
Qed.
Lemma no_edge_into_func_of tys g : NoFunc g -> r_no_edge_into_func tys g = true.
Proof.
  intros NF. unfold r_no_edge_into_func, no_code. apply forallb_forall. intros r _.
  apply negb_true_iff. pose proof (classify_no_func tys g (redges g) r NF) as H.
  destruct (classify tys g (redges g) r); try reflexivity. now elim H.
Qed.
Lemma model_no_func st : ModelOps (s_nodes st) -> NoFunc (to_serial st).
Proof.
  intros M n o. unfold op_of, to_serial. cbn [g_nodes]. destruct (nthN (s_nodes st) n) as [nd|] eqn:E; [|discriminate].
  cbn. intros H. inversion H; subst. pose proof (forallb_nthN _ _ _ _ M E) as Hm. cbn beta in Hm.
  now destruct (n_op nd).
Qed.

(* ------------------------------------------------------------------ rule 16: no control-flow edges *)
Lemma kind_out_model_not_cf o a k : model_op o = true -> kind_out o a = Some k -> is_cf k = false.
Proof.
  intros M. unfold kind_out.
  destruct (a <? lenN (val_out o)).
  - destruct (nthN (val_out o) a); cbn; intros H; inversion H; reflexivity.
  - destruct (is_some (static_out o) && (a =? lenN (val_out o))).
    + destruct o; cbn; try discriminate M; intros H; inversion H; reflexivity.
    + destruct (a <? count_out o); [|discriminate].
      destruct o; cbn; try discriminate M; intros H; inversion H; reflexivity.
Qed.
Lemma cfg_edges_of g : (forall n o, op_of g n = Some o -> model_op o = true) -> r_cfg_edges g = true.
Proof.
  intros M. unfold r_cfg_edges. apply forallb_forall. intros r Hin.
  unfold redges in Hin. apply in_flat_map in Hin. destruct Hin as (e & _ & Hr).
  unfold resolve in Hr. destruct (op_of g (e_src e)) as [so|] eqn:Es; [|destruct Hr].
  destruct (op_of g (e_dst e)) as [do_|]; [|destruct Hr].
  destruct (match e_soff e with Some x => Some x | None => other_port_out so end) as [a|]; [|destruct Hr].
  destruct (match e_doff e with Some x => Some x | None => other_port_in do_ end) as [b|]; [|destruct Hr].
  destruct (kind_out so a) as [k|] eqn:Ek; [|destruct Hr]. destruct Hr as [<-|[]]. cbn [r_kind].
  now rewrite (kind_out_model_not_cf _ _ _ (M _ _ Es) Ek).
Qed.
Lemma model_ops_serial st : ModelOps (s_nodes st) -> forall n o, op_of (to_serial st) n = Some o -> model_op o = true.
Proof.
  intros M n o. unfold op_of, to_serial. cbn [g_nodes]. destruct (nthN (s_nodes st) n) as [nd|] eqn:E; [|discriminate].
  cbn. intros H. inversion H; subst. exact (forallb_nthN _ _ _ _ M E).
Qed.

(* ------------------------------------------------------------------ the theorem *)
(* what a whole program leaves behind *)
Lemma exec_prog_frame tys p st : exec_prog tys p = Ok st -> Inv st /\ Abase st.
Proof.
  destruct p as [ins body]. intros H. apply exec_prog_inv in H. destruct H as [e' H].
  destruct (exec_keeps_invariants tys) as (_ & KR & _). destruct (exec_frame tys) as (_ & FRr & _).
  split.
  - exact (proj1 (KR _ _ _ _ _ _ H (init_Inv ins) (OpenB_WB _ _ (init_OpenB ins)))).
  - exact (proj1 (FRr _ _ _ _ _ _ H (init_Abase ins) (init_OpenB ins) (init_EnvRange ins))).
Qed.

Theorem run_io_root_func tys p g : run tys p = Ok g ->
  r_io_rows g = true /\ r_root_no_edges g = true /\ r_no_edge_into_func tys g = true /\ r_cfg_edges g = true.
Proof.
  unfold run. intros H. bd H. rename v into st. inversion H; subst; clear H.
  destruct (exec_prog_frame _ _ _ E) as [[(_ & _ & Hb & _) _] (M & IO & LP)].
  split; [|split; [|split]].
  - rewrite io_rows_to_serial. now apply io_rows_of.
  - now apply root_no_edges_to_serial.
  - apply no_edge_into_func_of. now apply model_no_func.
  - apply cfg_edges_of. now apply model_ops_serial.
Qed.
